(* FS/Model.v — crash-consistency model of the filesystem backend (property C13).

   Anchors: /repo/internal/ctlog/local.go (LocalBackend.Upload/Fetch/Discard, compareFile),
            /repo/internal/durable/path.go (WriteFile, Mkdir, MkdirAll, fsyncAndClose),
            /repo/internal/immutable/immutable_linux.go (FS_IOC_SETFLAGS),
            Go 1.25 os.Rename / os.Remove / os.CreateTemp / filepath.Localize / fs.ValidPath.

   Definitions only (proofs: FS/Proofs*.v). The file system:
     * regular files are inodes in a table; an inode has DURABLE contents and, when it has been
       written since the last fsync, VOLATILE contents;
     * directories never move, so a directory is identified by its path; it has a DURABLE entry
       map and a list of PENDING entry operations (link / unlink / rename) that are visible
       (volatile view = pending applied to durable) but not yet on disk;
     * fsync(file fd) makes the contents durable; fsync(directory fd) makes that directory's
       entries durable. Neither persists the entry of the object itself in ITS parent;
     * crash s c keeps the durable state; for every directory an arbitrary subset (bit mask, in
       program order) of its pending operations survives, independently per operation; a file
       with unsynced data comes back with its durable contents or with ARBITRARY bytes supplied
       by the choice (covers: lost, any prefix, zero-filled, garbage). A choice assigns a mask
       to every directory path and optional contents to every inode; choice_of builds one from
       explicit association lists (what the extracted crash monitor enumerates); the theorems
       quantify over all choices.
   Not modelled (trusted base of checks/c13.py): symbolic links, fsync errors, inode flags other
   than "immutable", permissions (the immutable FLAG is modelled when the process may set it). *)
From SL Require Import Base.Bytes.
Import ListNotations.
Open Scope nat_scope.

Definition name := bytes.
Definition path := list name.

Fixpoint path_eqb (a b : path) : bool :=
  match a, b with
  | [], [] => true
  | x :: a', y :: b' => bytes_eqb x y && path_eqb a' b'
  | _, _ => false
  end.

(* ---------------------------------------------------------------------------------------- *)
(* directory entries                                                                         *)
(* ---------------------------------------------------------------------------------------- *)

Inductive ent := EFile (i : nat) | EDir.

Inductive dop :=
| OLink (n : name) (e : ent)
| OUnlink (n : name)
| ORename (a b : name) (i : nat).   (* rename of regular file i inside one directory: atomic *)

Definition entries := list (name * ent).

Fixpoint eget (es : entries) (n : name) : option ent :=
  match es with
  | [] => None
  | (k, e) :: r => if bytes_eqb k n then Some e else eget r n
  end.

Fixpoint edel (es : entries) (n : name) : entries :=
  match es with
  | [] => []
  | (k, e) :: r => if bytes_eqb k n then edel r n else (k, e) :: edel r n
  end.

Definition eset (es : entries) (n : name) (e : ent) : entries := (n, e) :: edel es n.

Definition apply_op (es : entries) (o : dop) : entries :=
  match o with
  | OLink n e => eset es n e
  | OUnlink n => edel es n
  | ORename a b i => eset (edel es a) b (EFile i)
  end.

Definition apply_ops (ops : list dop) (es : entries) : entries := fold_left apply_op ops es.

Record dirst := mkDir { d_dur : entries; d_pend : list dop }.
Definition empty_dir := mkDir [] [].
Definition view (d : dirst) : entries := apply_ops (d_pend d) (d_dur d).

(* the pending operations that survive a crash: bit j of the mask keeps operation j *)
Fixpoint select (m : list bool) (ops : list dop) {struct ops} : list dop :=
  match ops with
  | [] => []
  | o :: r =>
    match m with
    | [] => []
    | b :: m' => if b then o :: select m' r else select m' r
    end
  end.

Definition crash_dir (d : dirst) (m : list bool) : dirst :=
  mkDir (apply_ops (select m (d_pend d)) (d_dur d)) [].

(* ---------------------------------------------------------------------------------------- *)
(* files, descriptors, the file system                                                       *)
(* ---------------------------------------------------------------------------------------- *)

Record filest := mkFile { f_dur : bytes; f_vol : option bytes; f_perm : N; f_imm : bool }.

Definition fcontent (f : filest) : bytes :=
  match f_vol f with Some v => v | None => f_dur f end.

Definition crash_file (f : filest) (ch : option bytes) : filest :=
  match f_vol f with
  | None => f
  | Some _ => mkFile (match ch with Some b => b | None => f_dur f end) None (f_perm f) (f_imm f)
  end.

Inductive handle := HFile (i : nat) | HDir (p : path).

Record fs := mkFs {
  dirs : path -> dirst;            (* (= dmap) total: a path that was never created is an empty directory state *)
  files : list filest;             (* inode table, index = inode number; never shrinks *)
  fds : list (nat * handle);       (* newest binding first *)
  cap : bool                       (* the process may set the immutable flag and the fs supports it *)
}.

Definition init_fs (cap : bool) : fs := mkFs (fun _ => empty_dir) [] [] cap.

Definition dmap := path -> dirst.

Definition dview (ds : dmap) (p : path) : entries := view (ds p).

Definition dupd (ds : dmap) (p : path) (d : dirst) : dmap :=
  fun q => if path_eqb q p then d else ds q.

Definition dpush (ds : dmap) (p : path) (o : dop) : dmap :=
  dupd ds p (mkDir (d_dur (ds p)) (d_pend (ds p) ++ [o])).

Definition set_dirs (s : fs) (ds : dmap) : fs := mkFs ds (files s) (fds s) (cap s).

Fixpoint fupd (l : list filest) (i : nat) (g : filest -> filest) : list filest :=
  match l with
  | [] => []
  | f :: r => match i with O => g f :: r | S i' => f :: fupd r i' g end
  end.

Definition set_files (s : fs) (l : list filest) : fs := mkFs (dirs s) l (fds s) (cap s).
Definition set_fds (s : fs) (l : list (nat * handle)) : fs := mkFs (dirs s) (files s) l (cap s).

Fixpoint fd_get (l : list (nat * handle)) (fd : nat) : option handle :=
  match l with
  | [] => None
  | (k, h) :: r => if Nat.eqb k fd then Some h else fd_get r fd
  end.

Fixpoint fd_del (l : list (nat * handle)) (fd : nat) : list (nat * handle) :=
  match l with
  | [] => []
  | (k, h) :: r => if Nat.eqb k fd then r else (k, h) :: fd_del r fd
  end.

Definition bind_fd (s : fs) (fd : nat) (h : handle) : fs := set_fds s ((fd, h) :: fds s).

Definition file_imm (s : fs) (i : nat) : bool :=
  match nth_error (files s) i with Some f => f_imm f | None => false end.

(* ---------------------------------------------------------------------------------------- *)
(* path resolution (volatile view)                                                           *)
(* ---------------------------------------------------------------------------------------- *)

Inductive errno := ENOENT | EEXIST | ENOTDIR | EISDIR | EPERM | ENOTEMPTY | ENAMETOOLONG | EBADF | EINVAL | EBUSY.

Inductive wres := WDir | WFile (i : nat) | WErr (e : errno).

Definition too_long (n : name) : bool := Nat.ltb 255 (length n).   (* NAME_MAX *)

Fixpoint walk_from (s : path -> dirst) (cur rest : path) : wres :=
  match rest with
  | [] => WDir
  | n :: r =>
    if too_long n then WErr ENAMETOOLONG else
    match eget (dview s cur) n with
    | None => WErr ENOENT
    | Some (EFile i) => match r with [] => WFile i | _ => WErr ENOTDIR end
    | Some EDir => walk_from s (cur ++ [n]) r
    end
  end.

Definition walk (s : path -> dirst) (p : path) : wres := walk_from s [] p.

Definition parent (p : path) : path := removelast p.
Definition base (p : path) : name := last p [].

(* what a reader that resolves p now gets *)
Definition read_path (s : fs) (p : path) : option bytes :=
  match walk (dirs s) p with
  | WFile i => match nth_error (files s) i with Some f => Some (fcontent f) | None => None end
  | _ => None
  end.

(* the parent directory of p is reachable; error otherwise *)
Definition walk_parent (s : path -> dirst) (p : path) : option errno :=
  match walk s (parent p) with
  | WDir => None
  | WFile _ => Some ENOTDIR
  | WErr e => Some e
  end.

(* ---------------------------------------------------------------------------------------- *)
(* system calls                                                                               *)
(* ---------------------------------------------------------------------------------------- *)

Inductive sys :=
| SStat (p : path)                       (* newfstatat (stat or lstat: no symbolic links) *)
| SOpenDir (p : path) (fd : nat)         (* openat O_RDONLY|O_DIRECTORY *)
| SCreat (p : path) (fd : nat)           (* openat O_RDWR|O_CREAT|O_EXCL, 0600 *)
| SFchmod (fd : nat) (perm : N)
| SWrite (fd : nat) (data : bytes)       (* appends: the descriptors written here are fresh files *)
| SFsync (fd : nat)
| SClose (fd : nat)
| SRename (a b : path)
| SMkdir (p : path)
| SUnlink (p : path)
| SRmdir (p : path)
| SOpenRead (p : path) (fd : nat)        (* openat O_RDONLY *)
| SRead (fd : nat) (n : nat)             (* read with a buffer of n bytes; no effect on the state *)
| SSetFlags (fd : nat) (imm : bool).     (* ioctl FS_IOC_SETFLAGS: FS_IMMUTABLE_FL or 0 *)

Definition ok (s : fs) : fs * option errno := (s, None).
Definition fail (s : fs) (e : errno) : fs * option errno := (s, Some e).

Definition new_file : filest := mkFile [] None 384 false.   (* 0600 *)

Definition step (c : sys) (s : fs) : fs * option errno :=
  let ds := dirs s in
  match c with
  | SStat p =>
    match walk ds p with WErr e => fail s e | _ => ok s end
  | SOpenDir p fd =>
    match walk ds p with
    | WDir => ok (bind_fd s fd (HDir p))
    | WFile _ => fail s ENOTDIR
    | WErr e => fail s e
    end
  | SCreat p fd =>
    match p with
    | [] => fail s EISDIR
    | _ =>
      match walk_parent ds p with
      | Some e => fail s e
      | None =>
        if too_long (base p) then fail s ENAMETOOLONG else
        match eget (dview ds (parent p)) (base p) with
        | Some _ => fail s EEXIST
        | None =>
          let i := length (files s) in
          ok (mkFs (dpush ds (parent p) (OLink (base p) (EFile i))) (files s ++ [new_file])
                   ((fd, HFile i) :: fds s) (cap s))
        end
      end
    end
  | SFchmod fd perm =>
    match fd_get (fds s) fd with
    | Some (HFile i) => ok (set_files s (fupd (files s) i (fun f => mkFile (f_dur f) (f_vol f) perm (f_imm f))))
    | Some (HDir _) => ok s
    | None => fail s EBADF
    end
  | SWrite fd data =>
    match fd_get (fds s) fd with
    | Some (HFile i) =>
      ok (set_files s (fupd (files s) i (fun f => mkFile (f_dur f) (Some (fcontent f ++ data)) (f_perm f) (f_imm f))))
    | Some (HDir _) => fail s EISDIR
    | None => fail s EBADF
    end
  | SFsync fd =>
    match fd_get (fds s) fd with
    | Some (HFile i) => ok (set_files s (fupd (files s) i (fun f => mkFile (fcontent f) None (f_perm f) (f_imm f))))
    | Some (HDir p) => ok (set_dirs s (dupd ds p (mkDir (view (ds p)) [])))
    | None => fail s EBADF
    end
  | SClose fd =>
    match fd_get (fds s) fd with
    | Some _ => ok (set_fds s (fd_del (fds s) fd))
    | None => fail s EBADF
    end
  | SRename a b =>
    match a, b with
    | [], _ | _, [] => fail s EBUSY
    | _, _ =>
      match walk_parent ds a with
      | Some e => fail s e
      | None =>
        if too_long (base a) then fail s ENAMETOOLONG else
        match eget (dview ds (parent a)) (base a) with
        | None => fail s ENOENT
        | Some EDir => fail s EINVAL          (* directories are never renamed by this code: not modelled *)
        | Some (EFile i) =>
          match walk_parent ds b with
          | Some e => fail s e
          | None =>
            if too_long (base b) then fail s ENAMETOOLONG else
            if file_imm s i then fail s EPERM else
            let moved :=
              if path_eqb (parent a) (parent b) then dpush ds (parent a) (ORename (base a) (base b) i)
              else dpush (dpush ds (parent b) (OLink (base b) (EFile i))) (parent a) (OUnlink (base a)) in
            match eget (dview ds (parent b)) (base b) with
            | Some EDir => fail s EISDIR
            | Some (EFile j) => if file_imm s j then fail s EPERM else ok (set_dirs s moved)
            | None => ok (set_dirs s moved)
            end
          end
        end
      end
    end
  | SMkdir p =>
    match p with
    | [] => fail s EEXIST
    | _ =>
      match walk_parent ds p with
      | Some e => fail s e
      | None =>
        if too_long (base p) then fail s ENAMETOOLONG else
        match eget (dview ds (parent p)) (base p) with
        | Some _ => fail s EEXIST
        | None => ok (set_dirs s (dpush (dupd ds p empty_dir) (parent p) (OLink (base p) EDir)))
        end
      end
    end
  | SUnlink p =>
    match p with
    | [] => fail s EISDIR
    | _ =>
      match walk_parent ds p with
      | Some e => fail s e
      | None =>
        if too_long (base p) then fail s ENAMETOOLONG else
        match eget (dview ds (parent p)) (base p) with
        | None => fail s ENOENT
        | Some EDir => fail s EISDIR
        | Some (EFile i) =>
          if file_imm s i then fail s EPERM else ok (set_dirs s (dpush ds (parent p) (OUnlink (base p))))
        end
      end
    end
  | SRmdir p =>
    match p with
    | [] => fail s EBUSY
    | _ =>
      match walk_parent ds p with
      | Some e => fail s e
      | None =>
        if too_long (base p) then fail s ENAMETOOLONG else
        match eget (dview ds (parent p)) (base p) with
        | None => fail s ENOENT
        | Some (EFile _) => fail s ENOTDIR
        | Some EDir =>
          match dview ds p with
          | [] => ok (set_dirs s (dpush ds (parent p) (OUnlink (base p))))
          | _ => fail s ENOTEMPTY
          end
        end
      end
    end
  | SOpenRead p fd =>
    match walk ds p with
    | WDir => ok (bind_fd s fd (HDir p))
    | WFile i => ok (bind_fd s fd (HFile i))
    | WErr e => fail s e
    end
  | SRead fd n =>
    match fd_get (fds s) fd with
    | Some (HFile _) => ok s
    | Some (HDir _) => fail s EISDIR
    | None => fail s EBADF
    end
  | SSetFlags fd imm =>
    match fd_get (fds s) fd with
    | Some (HFile i) =>
      if cap s then ok (set_files s (fupd (files s) i (fun f => mkFile (f_dur f) (f_vol f) (f_perm f) imm)))
      else fail s EPERM
    | Some (HDir _) => if cap s then ok s else fail s EPERM
    | None => fail s EBADF
    end
  end.

Definition exec1 (c : sys) (s : fs) : fs := fst (step c s).
Definition exec (t : list sys) (s : fs) : fs := fold_left (fun s c => exec1 c s) t s.

(* ---------------------------------------------------------------------------------------- *)
(* power loss                                                                                 *)
(* ---------------------------------------------------------------------------------------- *)

Record choice := mkChoice {
  c_mask : path -> list bool;      (* per directory: which pending operations reached the disk *)
  c_file : nat -> option bytes     (* per inode with unsynced data: None = durable contents, Some b = b *)
}.

Fixpoint crash_files (l : list filest) (i : nat) (c : nat -> option bytes) : list filest :=
  match l with
  | [] => []
  | f :: r => crash_file f (c i) :: crash_files r (S i) c
  end.

Definition crash (s : fs) (c : choice) : fs :=
  mkFs (fun p => crash_dir (dirs s p) (c_mask c p)) (crash_files (files s) 0 (c_file c)) [] (cap s).

(* explicit, enumerable description of a choice: association lists (absent directory = every
   pending operation lost; absent inode = durable contents) *)
Fixpoint mask_of (l : list (path * list bool)) (p : path) : list bool :=
  match l with
  | [] => []
  | (q, m) :: r => if path_eqb q p then m else mask_of r p
  end.

Fixpoint fchoice_of (l : list (nat * bytes)) (i : nat) : option bytes :=
  match l with
  | [] => None
  | (k, b) :: r => if Nat.eqb k i then Some b else fchoice_of r i
  end.

Definition choice_of (dm : list (path * list bool)) (fc : list (nat * bytes)) : choice :=
  mkChoice (mask_of dm) (fchoice_of fc).

(* ---------------------------------------------------------------------------------------- *)
(* the code: a state monad that also records the system calls made                            *)
(* ---------------------------------------------------------------------------------------- *)

Definition M (A : Type) := fs -> (A * fs * list sys).

Definition ret {A} (a : A) : M A := fun s => (a, s, []).
Definition bind {A B} (m : M A) (f : A -> M B) : M B :=
  fun s => let '(a, s1, t1) := m s in let '(b, s2, t2) := f a s1 in (b, s2, t1 ++ t2).
Definition call (c : sys) : M (option errno) := fun s => let '(s', r) := step c s in (r, s', [c]).
(* os.Stat / os.Lstat: the call, and what kind of object it found *)
Definition stat (p : path) : M wres := fun s => (walk (dirs s) p, s, [SStat p]).

Definition result_of {A} (x : A * fs * list sys) : A := fst (fst x).
Definition state_of {A} (x : A * fs * list sys) : fs := snd (fst x).
Definition trace_of {A} (x : A * fs * list sys) : list sys := snd x.

Notation "'do' x <- m ; f" := (bind m (fun x => f)) (at level 200, x name, m at level 100, f at level 200).

(* durable.fsyncAndClose(f, &err) *)
Definition fsync_and_close (fd : nat) (err : option errno) : M (option errno) :=
  do err1 <- (match err with None => call (SFsync fd) | Some e => ret (Some e) end);
  do cerr <- call (SClose fd);
  ret (match err1 with None => cerr | Some e => Some e end).

(* os.Remove: unlink, and if that fails rmdir *)
Definition os_remove (p : path) : M (option errno) :=
  do r <- call (SUnlink p);
  match r with
  | None => ret None
  | Some e =>
    do r1 <- call (SRmdir p);
    match r1 with
    | None => ret None
    | Some ENOTDIR => ret (Some e)
    | Some e1 => ret (Some e1)
    end
  end.

(* os.Rename on unix: Lstat(newname) first; a directory target is refused with EEXIST *)
Definition os_rename (a b : path) : M (option errno) :=
  do w <- stat b;
  match w with
  | WDir =>
    do w2 <- stat a;
    match w2 with
    | WErr e => ret (Some e)
    | _ => ret (Some EEXIST)
    end
  | _ => call (SRename a b)
  end.

(* os.CreateTemp(dir, "."+base): the random decimal suffix is an oracle argument. The retry
   loop on EEXIST is not modelled: a failed O_EXCL attempt has no effect on the state. *)
Definition tmp_name (b : name) (sfx : bytes) : name := x2e :: b ++ sfx.

(* durable.WriteFile(name, data, perm). The three defers run in LIFO order:
     3. fsyncAndClose(f)    2. rename closure (rename if err == nil; remove tmp if err != nil)
     1. fsyncAndClose(parent)                                                              *)
Definition write_file (p : path) (data : bytes) (perm : N) (sfx : bytes) (fd0 : nat) : M (option errno) :=
  let tmp := parent p ++ [tmp_name (base p) sfx] in
  do r <- call (SOpenDir (parent p) fd0);
  match r with
  | Some e => ret (Some e)
  | None =>
    do err <-
      (match p with
       | [] => ret (Some EINVAL)                 (* CreateTemp: pattern contains a path separator *)
       | _ =>
         do r <- call (SCreat tmp (S fd0));
         match r with
         | Some e => ret (Some e)
         | None =>
           do err <-
             (do r <- call (SFchmod (S fd0) perm);
              match r with
              | Some e => do _ <- call (SClose (S fd0)); ret (Some e)
              | None =>
                do werr <- call (SWrite (S fd0) data);
                fsync_and_close (S fd0) werr
              end);
           do err2 <- (match err with None => os_rename tmp p | Some e => ret (Some e) end);
           match err2 with
           | None => ret None
           | Some e => do _ <- os_remove tmp; ret (Some e)
           end
         end
       end);
    fsync_and_close fd0 err
  end.

(* durable.Mkdir(path, perm): defers: 2. fsyncAndClose(new directory)  1. fsyncAndClose(parent) *)
Definition mkdir (p : path) (fd0 : nat) : M (option errno) :=
  do r <- call (SOpenDir (parent p) fd0);
  match r with
  | Some e => ret (Some e)
  | None =>
    do err <-
      (do r <- call (SMkdir p);
       match r with
       | Some EEXIST | None =>
         do r <- call (SOpenDir p (S fd0));
         match r with
         | Some e => ret (Some e)
         | None => fsync_and_close (S fd0) None
         end
       | Some e => ret (Some e)
       end);
    fsync_and_close fd0 err
  end.

(* durable.MkdirAll(path, perm): Stat fast path, then the parent recursively, then Mkdir.
   Fuel: one unit per path component (+1); exhaustion is excluded by mkdir_all_fuel_ok. *)
Fixpoint mkdir_all_fuel (fuel : nat) (p : path) (fd0 : nat) : M (option errno) :=
  match fuel with
  | O => ret (Some EINVAL)
  | S fu =>
    do w <- stat p;
    match w with
    | WDir => ret None
    | WFile _ => ret (Some ENOTDIR)
    | WErr _ =>
      do r <- (match p with [] => ret None | _ => mkdir_all_fuel fu (parent p) fd0 end);
      match r with
      | Some e => ret (Some e)
      | None => mkdir p fd0
      end
    end
  end.

Definition mkdir_all (p : path) (fd0 : nat) : M (option errno) := mkdir_all_fuel (S (length p)) p fd0.

(* ---------------------------------------------------------------------------------------- *)
(* compareFile                                                                                *)
(* ---------------------------------------------------------------------------------------- *)

Inductive cres := COk | CMismatch | CFuel.

(* bytes returned by read(2) into a buffer of buf bytes when avail = min buf (remaining file
   length) bytes can be delivered and the oracle proposes `want`: 0 for an empty buffer or at
   end of file, else between 1 and avail *)
Definition read_len (buf avail want : nat) : nat :=
  match buf with
  | O => O
  | _ => Nat.min avail (Nat.max 1 want)
  end.

(* the loop of compareFile with buffer size buf; f = remaining file contents, data = remaining
   expected contents, reads = oracle for short reads. Result and number of Read calls made. *)
Fixpoint compare_loop (fuel buf : nat) (f data : bytes) (reads : list nat) : cres * nat :=
  match fuel with
  | O => (CFuel, O)
  | S fu =>
    let n := read_len buf (length (firstn buf f)) (hd buf reads) in
    let eof := match buf, f with S _, [] => true | _, _ => false end in      (* (0, io.EOF) *)
    if Nat.ltb (length (firstn n data)) n || negb (bytes_eqb (firstn n f) (firstn n data)) then (CMismatch, 1)
    else
      let data' := skipn n data in
      if eof then (match data' with [] => (COk, 1) | _ => (CMismatch, 1) end)
      else let '(r, k) := compare_loop fu buf (skipn n f) data' (tl reads) in (r, S k)
  end.

Definition chunk : nat := Pos.to_nat 16384.

(* the code as it is now: b := make([]byte, max(1, min(len(data), 16384))) *)
Definition buf_fixed (data : bytes) : nat := Nat.max 1 (Nat.min (length data) chunk).
(* the code before "fix: compareFile must not spin on empty contents" *)
Definition buf_prefix (data : bytes) : nat := Nat.min (length data) chunk.

Definition compare_fuel (f : bytes) : nat := S (length f).

Definition compare_file (f data : bytes) (reads : list nat) : cres * nat :=
  compare_loop (compare_fuel f) (buf_fixed data) f data reads.

Definition compare_file_prefix (fuel : nat) (f data : bytes) (reads : list nat) : cres * nat :=
  compare_loop fuel (buf_prefix data) f data reads.

Inductive ures := UOk | UBadKey | UMismatch | UErr (e : errno) | UFuel.

(* compareFile(f, data) on descriptor fd *)
Definition compare_fd (fd : nat) (data : bytes) (reads : list nat) : M ures :=
  fun s =>
    match fd_get (fds s) fd with
    | Some (HFile i) =>
      let f := match nth_error (files s) i with Some f => fcontent f | None => [] end in
      let '(r, k) := compare_file f data reads in
      (match r with COk => UOk | CMismatch => UMismatch | CFuel => UFuel end, s, repeat (SRead fd (buf_fixed data)) k)
    | Some (HDir _) => (UErr EISDIR, s, [SRead fd (buf_fixed data)])
    | None => (UErr EBADF, s, [SRead fd (buf_fixed data)])
    end.

(* ---------------------------------------------------------------------------------------- *)
(* filepath.Localize (unix) = fs.ValidPath + no NUL byte                                      *)
(* ---------------------------------------------------------------------------------------- *)

Definition in_range (lo hi : N) (b : byte) : bool :=
  let n := Byte.to_N b in (N.leb lo n && N.leb n hi)%bool.
Definition cont (b : byte) : bool := in_range 128 191 b.

(* utf8.ValidString *)
Fixpoint utf8_valid (s : bytes) : bool :=
  match s with
  | [] => true
  | b0 :: r0 =>
    if in_range 0 127 b0 then utf8_valid r0
    else if in_range 194 223 b0 then
      match r0 with b1 :: r1 => cont b1 && utf8_valid r1 | _ => false end
    else if in_range 224 239 b0 then
      match r0 with
      | b1 :: b2 :: r2 =>
        (if in_range 224 224 b0 then in_range 160 191 b1
         else if in_range 237 237 b0 then in_range 128 159 b1
         else cont b1) && cont b2 && utf8_valid r2
      | _ => false
      end
    else if in_range 240 244 b0 then
      match r0 with
      | b1 :: b2 :: b3 :: r3 =>
        (if in_range 240 240 b0 then in_range 144 191 b1
         else if in_range 244 244 b0 then in_range 128 143 b1
         else cont b1) && cont b2 && cont b3 && utf8_valid r3
      | _ => false
      end
    else false
  end.

Definition dot : name := [x2e].
Definition dotdot : name := [x2e; x2e].

Definition elem_ok (c : name) : bool :=
  match c with [] => false | _ => negb (bytes_eqb c dot) && negb (bytes_eqb c dotdot) end.

Definition has_nul (s : bytes) : bool := existsb (fun b => Byte.eqb b x00) s.

(* filepath.Localize: Some components = the slash-separated key as a relative path; "." is
   accepted and is the root (no components). This is what LocalBackend used before the commit
   "fix: local backend must not accept the key \".\"" (kept so that a regression is explained). *)
Definition localize_prefix (key : bytes) : option path :=
  if negb (utf8_valid key) then None
  else if bytes_eqb key dot then Some []
  else
    let cs := split_slash key in
    if forallb elem_ok cs && negb (has_nul key) then Some cs else None.

(* localizeKey of local.go, the code as it is now: filepath.Localize, and the result "." (which
   names the backend directory itself) is rejected *)
Definition localize (key : bytes) : option path :=
  match localize_prefix key with
  | Some [] => None
  | r => r
  end.

(* ---------------------------------------------------------------------------------------- *)
(* LocalBackend                                                                               *)
(* ---------------------------------------------------------------------------------------- *)

Definition res_of (e : option errno) : ures := match e with None => UOk | Some e => UErr e end.

(* LocalBackend.Upload. dir = the configured directory, sfx / reads = oracles (temporary-file
   suffix, short reads), fd0 = lowest free descriptor (two descriptors are used at most). *)
Definition upload_with (loc : bytes -> option path)
    (dir : path) (key data : bytes) (imm : bool) (sfx : bytes) (reads : list nat) (fd0 : nat) : M ures :=
  match loc key with
  | None => ret UBadKey
  | Some name =>
    let p := dir ++ name in
    do r <- mkdir_all (parent p) fd0;
    match r with
    | Some e => ret (UErr e)
    | None =>
      if imm then
        do r <- call (SOpenRead p fd0);
        match r with
        | None =>
          do cr <- compare_fd fd0 data reads;
          do _ <- call (SClose fd0);                    (* defer f.Close() *)
          ret cr
        | Some _ =>
          do err <- write_file p data 292 sfx fd0;       (* 0444 *)
          match err with
          | Some e => ret (UErr e)
          | None =>
            (* deferred: open, immutable.Set (result ignored), close *)
            do r <- call (SOpenRead p fd0);
            match r with
            | Some e => ret (UErr e)
            | None =>
              do _ <- call (SSetFlags fd0 true);
              do cr <- call (SClose fd0);
              ret (res_of cr)
            end
          end
        end
      else
        do err <- write_file p data 420 sfx fd0;         (* 0644 *)
        ret (res_of err)
    end
  end.

Definition upload := upload_with localize.
(* Upload before the "." fix *)
Definition upload_prefix := upload_with localize_prefix.

Inductive fres := FOk (b : bytes) | FBadKey | FErr (e : errno).

(* LocalBackend.Fetch = os.ReadFile *)
Definition fetch (dir : path) (key : bytes) (fd0 : nat) : M fres :=
  match localize key with
  | None => ret FBadKey
  | Some name =>
    let p := dir ++ name in
    do r <- call (SOpenRead p fd0);
    match r with
    | Some e => ret (FErr e)
    | None =>
      (* fstat + read loop of os.ReadFile: the reads are not part of the recorded trace *)
      do r <- (fun s =>
                 (match fd_get (fds s) fd0 with
                  | Some (HFile i) => FOk (match nth_error (files s) i with Some f => fcontent f | None => [] end)
                  | _ => FErr EISDIR
                  end, s, []));
      do _ <- call (SClose fd0);
      ret r
    end
  end.

(* LocalBackend.Discard *)
Definition discard_with (loc : bytes -> option path) (dir : path) (key : bytes) (fd0 : nat) : M ures :=
  match loc key with
  | None => ret UBadKey
  | Some name =>
    let p := dir ++ name in
    do r <- call (SOpenRead p fd0);
    match r with
    | Some e => ret (UErr e)
    | None =>
      do _ <- call (SSetFlags fd0 false);
      do cr <- call (SClose fd0);
      match cr with
      | Some e => ret (UErr e)
      | None => do r <- os_remove p; ret (res_of r)
      end
    end
  end.

Definition discard := discard_with localize.
Definition discard_prefix := discard_with localize_prefix.

(* ---------------------------------------------------------------------------------------- *)
(* well-formedness: directory entries refer to allocated inodes                               *)
(* ---------------------------------------------------------------------------------------- *)

Definition ent_ok (n : nat) (e : ent) : Prop := match e with EFile i => i < n | EDir => True end.
Definition op_ok (n : nat) (o : dop) : Prop :=
  match o with OLink _ e => ent_ok n e | OUnlink _ => True | ORename _ _ i => i < n end.

Definition wf (s : fs) : Prop :=
  forall p, Forall (fun ke => ent_ok (length (files s)) (snd ke)) (d_dur (dirs s p))
         /\ Forall (op_ok (length (files s))) (d_pend (dirs s p)).
