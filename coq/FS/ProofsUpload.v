(* FS/ProofsUpload.v — LocalBackend.Upload: immutable rules, durability of a returned upload
   (single writer), key confinement, and the schedules of two concurrent uploads under which an
   upload that returned is lost by a power failure. *)
From SL Require Import Base.Bytes Base.BytesProofs FS.Model FS.Lemmas FS.Hoare FS.ProofsWrite FS.ProofsMkdir FS.ProofsCompare.
From Coq Require Import Lia.
Import ListNotations.
Open Scope nat_scope.

Lemma walk_file_parent ds p x : walk ds p = WFile x -> p <> [] /\ walk ds (parent p) = WDir.
Proof.
  intros H. destruct (path_eq_dec p []) as [->|Hp]; [discriminate|]. split; auto.
  rewrite (path_snoc p Hp) in H. rewrite walk_snoc in H.
  destruct (walk ds (parent p)); auto; discriminate.
Qed.

Lemma nth_error_fupd l : forall i j g,
  nth_error (fupd l i g) j =
  if Nat.eqb j i then match nth_error l j with Some f => Some (g f) | None => None end else nth_error l j.
Proof.
  induction l as [|x r IH]; intros [|i] [|j] g; cbn; auto;
    try (destruct (Nat.eqb j i); destruct j; reflexivity);
    try (destruct (Nat.eqb _ _); reflexivity).
Qed.

Lemma fcontent_crash_setimm f im ch :
  fcontent (crash_file (mkFile (f_dur f) (f_vol f) (f_perm f) im) ch) = fcontent (crash_file f ch).
Proof. destruct f as [du vo pe fi]. unfold crash_file, fcontent. cbn. destruct vo; cbn; reflexivity. Qed.

(* changing only the immutable flag of an inode changes nothing a reader or a crash can see *)
Lemma read_crash_setimm s s' x im c q :
  (forall r, dirs s' r = dirs s r) ->
  files s' = fupd (files s) x (fun f => mkFile (f_dur f) (f_vol f) (f_perm f) im) ->
  read_path (crash s' c) q = read_path (crash s c) q.
Proof.
  intros Hd Hf. unfold read_path.
  assert (Ew : walk (dirs (crash s' c)) q = walk (dirs (crash s c)) q).
  { apply walk_pointwise. intros r. rewrite !crash_dirs, Hd. reflexivity. }
  rewrite Ew. destruct (walk (dirs (crash s c)) q); auto.
  rewrite !files_crash, Hf, nth_error_fupd.
  destruct (Nat.eqb i x); auto.
  destruct (nth_error (files s) i) as [f|]; auto.
  cbv iota beta. f_equal. apply fcontent_crash_setimm.
Qed.

Lemma read_crash_same s s' c q :
  (forall r, dirs s' r = dirs s r) -> files s' = files s ->
  read_path (crash s' c) q = read_path (crash s c) q.
Proof.
  intros Hd Hf. unfold read_path.
  assert (Ew : walk (dirs (crash s' c)) q = walk (dirs (crash s c)) q).
  { apply walk_pointwise. intros r. rewrite !crash_dirs, Hd. reflexivity. }
  rewrite Ew. destruct (walk (dirs (crash s c)) q); auto.
  rewrite !files_crash, Hf. reflexivity.
Qed.

Lemma upload_unfold dir key name data imm sfx reads f0 : localize key = Some name ->
  upload dir key data imm sfx reads f0 =
  (let p := dir ++ name in
   do r <- mkdir_all (parent p) f0;
   match r with
   | Some e => ret (UErr e)
   | None =>
     if imm then
       do r <- call (SOpenRead p f0);
       match r with
       | None => do cr <- compare_fd f0 data reads; do _ <- call (SClose f0); ret cr
       | Some _ =>
         do err <- write_file p data 292 sfx f0;
         match err with
         | Some e => ret (UErr e)
         | None =>
           do r <- call (SOpenRead p f0);
           match r with
           | Some e => ret (UErr e)
           | None => do _ <- call (SSetFlags f0 true); do cr <- call (SClose f0); ret (res_of cr)
           end
         end
       end
     else do err <- write_file p data 420 sfx f0; ret (res_of err)
   end).
Proof. intros H. unfold upload, upload_with. rewrite H. reflexivity. Qed.

(* ---------------------------------------------------------------------------------------- *)
(* immutable objects                                                                          *)
(* ---------------------------------------------------------------------------------------- *)

(* IMMUTABLE: when the object exists with contents old, an immutable upload of data succeeds
   exactly when data = old, fails with "file contents do not match" otherwise, and in both cases
   changes neither a directory nor an inode; for every contents including the empty one, every
   chunking of the comparison, every state *)
Theorem immutable_upload : forall s dir key name data old sfx reads f0,
  localize key = Some name -> read_path s (dir ++ name) = Some old ->
  let r := upload dir key data true sfx reads f0 s in
  result_of r = (if bytes_eqb old data then UOk else UMismatch) /\
  (forall q, dirs (state_of r) q = dirs s q) /\ files (state_of r) = files s /\
  fds (state_of r) = fds s /\ cap (state_of r) = cap s.
Proof.
  intros s dir key name data old sfx reads f0 Hloc Hread.
  set (p := dir ++ name) in *.
  unfold read_path in Hread.
  destruct (walk (dirs s) p) as [|x|] eqn:Hw; try discriminate.
  destruct (nth_error (files s) x) as [f|] eqn:Hf; try discriminate.
  injection Hread as Hold.
  destruct (walk_file_parent _ _ _ Hw) as [Hp Hwp].
  assert (E : exists T, upload dir key data true sfx reads f0 s =
                (match fst (compare_file old data reads) with COk => UOk | CMismatch => UMismatch | CFuel => UFuel end,
                 set_fds (bind_fd s f0 (HFile x)) (fds s), T)).
  { eexists. rewrite (upload_unfold _ _ _ _ _ _ _ _ Hloc). cbv zeta. fold p.
    unfold bind at 1. rewrite (mkdir_all_existing _ _ _ Hwp). cbv beta iota.
    unfold bind at 1. unfold call at 1.
    assert (E1 : step (SOpenRead p f0) s = (bind_fd s f0 (HFile x), None)).
    { unfold step. cbv zeta. rewrite Hw. reflexivity. }
    rewrite E1. cbv beta iota.
    unfold bind at 1. unfold compare_fd at 1. cbn [fds bind_fd set_fds files]. rewrite fd_get_bind, Hf, Hold.
    rewrite (surjective_pairing (compare_file old data reads)). cbv beta iota.
    unfold bind at 1. unfold call at 1.
    assert (E2 : step (SClose f0) (bind_fd s f0 (HFile x)) = (set_fds (bind_fd s f0 (HFile x)) (fds s), None)).
    { unfold step. cbv zeta. cbn [fds bind_fd set_fds]. rewrite fd_get_bind, fd_del_bind. reflexivity. }
    rewrite E2. cbv beta iota. unfold ret. reflexivity. }
  destruct E as [T E]. intros r. subst r. rewrite E.
  unfold result_of, state_of. cbn [fst snd dirs files fds cap set_fds bind_fd].
  split; [|auto].
  destruct (bytes_eqb old data) eqn:Eq.
  - apply bytes_eqb_eq in Eq. rewrite (proj2 (compare_correct old data reads) Eq). reflexivity.
  - assert (Hne : old <> data) by (intros ->; rewrite bytes_eqb_refl in Eq; discriminate).
    rewrite (compare_mismatch old data reads Hne). reflexivity.
Qed.

(* ---------------------------------------------------------------------------------------- *)
(* a single writer: an upload that returned is readable and survives every power loss         *)
(* ---------------------------------------------------------------------------------------- *)

Definition path_durable (s : fs) (p : path) : Prop :=
  forall c, read_path (crash s c) p = read_path s p.

(* DURABLE (single writer). s: any well-formed state in which every reachable directory is
   durably reachable (true initially, after a crash, and after every completed MkdirAll). If
   Upload returns nil then a reader finds data, and after a power loss with ANY choice of lost
   un-synced effects the object holds data. For the branch that finds an existing immutable
   object and only compares, this needs that object to be durable already (which the same
   theorem gives for the upload that created it; concurrent_same_key_refuted shows that it
   fails while that upload is still running). *)
Lemma upload_durable_aux : forall s dir key name data imm sfx reads f0 res s' T,
  wf s -> dirs_durable s -> localize key = Some name ->
  (imm = true -> read_path s (dir ++ name) <> None -> path_durable s (dir ++ name)) ->
  upload dir key data imm sfx reads f0 s = (res, s', T) -> res = UOk ->
  read_path s' (dir ++ name) = Some data /\
  forall c, read_path (crash s' c) (dir ++ name) = Some data.
Proof.
  intros s dir key name data imm sfx reads f0 res s' T Hwf Hd Hloc Hex E Hres.
  set (p := dir ++ name) in *.
  rewrite (upload_unfold _ _ _ _ _ _ _ _ Hloc) in E. cbv zeta in E. fold p in E.
  unfold bind at 1 in E.
  pose proof (mkdir_durable s (parent p) f0 Hwf Hd) as Hm.
  pose proof (mkdir_all_case s (parent p) f0 Hwf Hd) as Hcase.
  destruct (mkdir_all (parent p) f0 s) as [[r1 s1] T1] eqn:E1.
  unfold result_of, state_of in Hm, Hcase. cbn [fst snd] in Hm, Hcase.
  destruct r1 as [e|]; [cbn in E; congruence|].
  destruct (Hm eq_refl) as [Hw1 [Hd1 [Hwf1 [Hdw1 [Hf1 [Hfd1 Hc1]]]]]].
  cbv beta iota in E.
  (* the mutable and the new-immutable branch share the WriteFile part *)
  assert (Hwrite : forall perm,
            result_of (write_file p data perm sfx f0 s1) = None ->
            let s2 := state_of (write_file p data perm sfx f0 s1) in
            read_path s2 p = Some data /\ forall c, read_path (crash s2 c) p = Some data).
  { intros perm Hr s2. split.
    - apply (write_ok_state s1 p data perm sfx f0 Hwf1 Hr).
    - intros c. apply write_durable; auto. }
  destruct imm.
  - (* immutable *)
    unfold bind at 1 in E. unfold call at 1 in E.
    destruct (step (SOpenRead p f0) s1) as [s1' ro] eqn:Eo. cbv beta iota in E.
    destruct ro as [e|].
    + (* the object does not exist: WriteFile, then the immutable flag *)
      assert (Es1 : s1' = s1).
      { pose proof (step_fail_same (SOpenRead p f0) s1 e) as Hx. rewrite Eo in Hx. cbn in Hx. auto. }
      subst s1'. unfold bind at 1 in E.
      specialize (Hwrite 292%N).
      pose proof (write_ok_state s1 p data 292 sfx f0 Hwf1) as Hst.
      destruct (write_file p data 292 sfx f0 s1) as [[err s2] T2] eqn:E2.
      unfold result_of, state_of in Hwrite, Hst. cbn [fst snd] in Hwrite, Hst.
      destruct err as [e2|]; [cbn in E; congruence|]. cbv beta iota in E.
      destruct (Hwrite eq_refl) as [Hr2 Hc2].
      destruct (Hst eq_refl) as [_ [_ [_ [_ [Hfd2 _]]]]].
      unfold read_path in Hr2.
      destruct (walk (dirs s2) p) as [|x|] eqn:Hw2; try discriminate.
      unfold bind at 1 in E. unfold call at 1 in E.
      assert (Eo2 : step (SOpenRead p f0) s2 = (bind_fd s2 f0 (HFile x), None)).
      { unfold step. cbv zeta. rewrite Hw2. reflexivity. }
      rewrite Eo2 in E. cbv beta iota in E.
      unfold bind at 1 in E. unfold call at 1 in E.
      set (s3 := bind_fd s2 f0 (HFile x)) in *.
      destruct (step (SSetFlags f0 true) s3) as [s4 rf] eqn:Ef. cbv beta iota in E.
      assert (H4 : (forall r, dirs s4 r = dirs s2 r) /\ fds s4 = (f0, HFile x) :: fds s2 /\
                   (files s4 = files s2 \/
                    files s4 = fupd (files s2) x (fun f => mkFile (f_dur f) (f_vol f) (f_perm f) true))).
      { revert Ef. unfold step. cbv zeta. unfold s3. cbn [fds bind_fd set_fds cap]. rewrite fd_get_bind.
        destruct (cap s2); intros [= <- _]; cbn; auto. }
      destruct H4 as [Hd4 [Hfd4 Hfl4]].
      unfold bind at 1 in E. unfold call at 1 in E.
      destruct (step (SClose f0) s4) as [s5 rc] eqn:Ecl. cbv beta iota in E.
      assert (H5 : rc = None /\ (forall r, dirs s5 r = dirs s4 r) /\ files s5 = files s4).
      { revert Ecl. unfold step. cbv zeta. rewrite Hfd4, fd_get_bind. intros [= <- <-]. cbn. auto. }
      destruct H5 as [-> [Hd5 Hf5]].
      unfold ret in E. cbn in E. injection E as _ <- _.
      assert (Hdd : forall r, dirs s5 r = dirs s2 r) by (intros r; rewrite Hd5, Hd4; reflexivity).
      split.
      * (* volatile read *)
        unfold read_path. rewrite (walk_pointwise (dirs s5) (dirs s2) p Hdd), Hw2, Hf5.
        destruct Hfl4 as [-> | ->]; auto.
        rewrite nth_error_fupd, Nat.eqb_refl.
        destruct (nth_error (files s2) x) as [f|]; [|discriminate].
        injection Hr2 as <-. unfold fcontent. cbn. reflexivity.
      * intros c. rewrite <- (Hc2 c). destruct Hfl4 as [E | E].
        -- apply read_crash_same; auto. congruence.
        -- apply (read_crash_setimm s2 s5 x true c p Hdd). congruence.
    + (* the object exists: compare only *)
      assert (Ho : exists h, s1' = bind_fd s1 f0 h /\
                   match h with HFile x => walk (dirs s1) p = WFile x | HDir _ => walk (dirs s1) p = WDir end).
      { revert Eo. unfold step. cbv zeta. destruct (walk (dirs s1) p) as [|x|e] eqn:Hw; unfold ok, fail.
        - intros [= <-]. exists (HDir p). auto.
        - intros [= <-]. exists (HFile x). auto.
        - intros Hx. discriminate Hx. }
      destruct Ho as [h [-> Hh]].
      unfold bind at 1 in E. unfold compare_fd at 1 in E. cbn [fds bind_fd set_fds files] in E.
      rewrite fd_get_bind in E.
      destruct h as [x|q].
      2:{ cbv beta iota in E. unfold bind, call in E.
          destruct (step (SClose f0) _) as [s5 rc] in E. cbn in E. congruence. }
      destruct (nth_error (files s1) x) as [f|] eqn:Hfx.
      2:{ (* dangling entry: excluded by wf *)
          exfalso.
          destruct (walk_file_parent _ _ _ Hh) as [Hp Hwp].
          rewrite (path_snoc p Hp), walk_snoc, Hwp in Hh.
          destruct (too_long (base p)); [discriminate|].
          destruct (eget (dview (dirs s1) (parent p)) (base p)) as [[j|]|] eqn:Eg; try discriminate.
          injection Hh as ->.
          assert (x < length (files s1)).
          { destruct (Hwf1 (parent p)) as [A B]. eapply eget_bound; [|exact Eg].
            unfold dview, view. apply apply_ops_bound; auto. }
          apply nth_error_None in Hfx. lia. }
      destruct (compare_file (fcontent f) data reads) as [cr k] eqn:Ec. cbv beta iota in E.
      unfold bind at 1 in E. unfold call at 1 in E.
      assert (E2 : step (SClose f0) (bind_fd s1 f0 (HFile x)) = (set_fds (bind_fd s1 f0 (HFile x)) (fds s1), None)).
      { unfold step. cbv zeta. cbn [fds bind_fd set_fds]. rewrite fd_get_bind, fd_del_bind. reflexivity. }
      rewrite E2 in E. cbv beta iota in E. unfold ret in E. cbn in E. injection E as Hr <- _.
      assert (Hcr : cr = COk) by (destruct cr; congruence).
      assert (Heq : fcontent f = data).
      { apply (compare_correct (fcontent f) data reads). rewrite Ec. cbn. exact Hcr. }
      assert (Hr1 : read_path s1 p = Some data).
      { unfold read_path. rewrite Hh, Hfx, Heq. reflexivity. }
      (* MkdirAll was the fast path (s1 = s), or it created the directory, which is then empty *)
      destruct (Hcase eq_refl) as [[-> _]|Hemp].
      2:{ exfalso. destruct (walk_file_parent _ _ _ Hh) as [Hp Hwp].
          rewrite (path_snoc p Hp), walk_snoc, Hwp, Hemp in Hh.
          destruct (too_long (base p)); discriminate. }
      assert (Hpd : path_durable s p).
      { apply Hex; auto. rewrite Hr1. discriminate. }
      split.
      * exact Hr1.
      * intros c. rewrite <- Hr1, <- (Hpd c). apply read_crash_same; reflexivity.
  - (* mutable *)
    unfold bind at 1 in E. specialize (Hwrite 420%N).
    destruct (write_file p data 420 sfx f0 s1) as [[err s2] T2] eqn:E2.
    unfold result_of, state_of in *. cbn [fst snd] in *.
    destruct err as [e2|]; [cbn in E; congruence|]. cbv beta iota in E. unfold ret in E. cbn in E.
    injection E as _ <- _. apply Hwrite. reflexivity.
Qed.

Theorem upload_durable : forall s dir key name data imm sfx reads f0,
  wf s -> dirs_durable s -> localize key = Some name ->
  (imm = true -> read_path s (dir ++ name) <> None -> path_durable s (dir ++ name)) ->
  let r := upload dir key data imm sfx reads f0 s in
  result_of r = UOk ->
  read_path (state_of r) (dir ++ name) = Some data /\
  forall c, read_path (crash (state_of r) c) (dir ++ name) = Some data.
Proof.
  intros s dir key name data imm sfx reads f0 Hwf Hd Hloc Hex r Hr.
  destruct r as [[res s'] T] eqn:E. unfold result_of, state_of in *. cbn [fst snd] in *.
  eapply upload_durable_aux; eauto.
Qed.

(* after a successful immutable upload: the same bytes are accepted again, different bytes are
   refused and nothing changes (empty contents included) *)
Corollary immutable_after_upload : forall s dir key name data sfx reads f0 data' sfx' reads' f0',
  wf s -> dirs_durable s -> localize key = Some name ->
  (read_path s (dir ++ name) <> None -> path_durable s (dir ++ name)) ->
  let r := upload dir key data true sfx reads f0 s in
  result_of r = UOk ->
  let r' := upload dir key data' true sfx' reads' f0' (state_of r) in
  result_of r' = (if bytes_eqb data data' then UOk else UMismatch) /\
  (forall q, dirs (state_of r') q = dirs (state_of r) q) /\ files (state_of r') = files (state_of r) /\
  read_path (state_of r') (dir ++ name) = Some data.
Proof.
  intros s dir key name data sfx reads f0 data' sfx' reads' f0' Hwf Hd Hloc Hex r Hr r'.
  destruct (upload_durable s dir key name data true sfx reads f0 Hwf Hd Hloc (fun _ => Hex) Hr) as [Hread _].
  fold r in Hread.
  destruct (immutable_upload (state_of r) dir key name data' data sfx' reads' f0' Hloc Hread) as [A [B [C _]]].
  fold r' in A, B, C. repeat split; auto.
  unfold read_path in *. rewrite (walk_pointwise _ _ _ B), C. exact Hread.
Qed.

(* ATOMIC at the level of Upload, when the directory of the object exists (overwrite of a
   mutable object such as the checkpoint): at every prefix of Upload's trace and every crash
   choice the object is the old or the complete new one *)
Theorem upload_atomic_existing_dir : forall s dir key name data sfx reads f0 k c,
  wf s -> localize key = Some name -> walk (dirs s) (parent (dir ++ name)) = WDir ->
  let T := trace_of (upload dir key data false sfx reads f0 s) in
  read_path (crash (exec (firstn k T) s) c) (dir ++ name) = Some data \/
  read_path (crash (exec (firstn k T) s) c) (dir ++ name) = read_path (crash s c) (dir ++ name).
Proof.
  intros s dir key name data sfx reads f0 k c Hwf Hloc Hw T.
  set (p := dir ++ name) in *.
  assert (ET : T = SStat (parent p) :: trace_of (write_file p data 420 sfx f0 s)).
  { unfold T. rewrite (upload_unfold _ _ _ _ _ _ _ _ Hloc). cbv zeta. fold p.
    unfold bind at 1. rewrite (mkdir_all_existing _ _ _ Hw). cbv beta iota.
    unfold bind, ret, trace_of.
    destruct (write_file p data 420 sfx f0 s) as [[err s2] T2]. cbn. rewrite app_nil_r. reflexivity. }
  rewrite ET. destruct k as [|k]; [right; reflexivity|].
  cbn [firstn]. rewrite exec_cons.
  assert (E1 : exec1 (SStat (parent p)) s = s).
  { unfold exec1. cbn. rewrite Hw. reflexivity. }
  rewrite E1. apply write_atomic. exact Hwf.
Qed.

(* ---------------------------------------------------------------------------------------- *)
(* confinement                                                                                *)
(* ---------------------------------------------------------------------------------------- *)

Lemma split_on_no_sep sep : forall s cur, ~ In sep cur ->
  Forall (fun c => ~ In sep c) (split_on sep s cur).
Proof.
  induction s as [|b r IH]; intros cur H; cbn.
  - constructor; auto. rewrite <- in_rev. exact H.
  - destruct (Byte.eqb b sep) eqn:E.
    + constructor; [rewrite <- in_rev; exact H|]. apply IH. intros [].
    + apply IH. intros [->|G]; auto. rewrite (proj2 (byte_eqb_eq sep sep) eq_refl) in E. discriminate.
Qed.

Lemma split_on_subset sep : forall s cur c x,
  In c (split_on sep s cur) -> In x c -> In x s \/ In x cur.
Proof.
  induction s as [|b r IH]; intros cur c x Hc Hx; cbn in Hc.
  - destruct Hc as [<-|[]]. right. apply in_rev. exact Hx.
  - destruct (Byte.eqb b sep).
    + destruct Hc as [<-|Hc].
      * right. apply in_rev. exact Hx.
      * destruct (IH [] c x Hc Hx) as [G|[]]. left. right. exact G.
    + destruct (IH (b :: cur) c x Hc Hx) as [G|[->|G]]; [left; right; auto|left; left; auto|right; auto].
Qed.

Definition comp_ok (c : name) : Prop :=
  c <> [] /\ c <> dot /\ c <> dotdot /\ ~ In x2f c /\ ~ In x00 c.

(* filepath.Localize (the pre-fix key check): components are well-formed, but there may be none *)
Lemma localize_prefix_components : forall key name, localize_prefix key = Some name -> Forall comp_ok name.
Proof.
  intros key name. unfold localize_prefix.
  destruct (negb (utf8_valid key)); [discriminate|].
  destruct (bytes_eqb key dot); [intros [= <-]; constructor|].
  destruct (forallb elem_ok (split_slash key)) eqn:E1; [|discriminate].
  destruct (has_nul key) eqn:E2; [discriminate|]. cbn [negb andb]. intros [= <-].
  rewrite forallb_forall in E1. apply Forall_forall. intros c Hc.
  specialize (E1 c Hc). unfold elem_ok in E1.
  assert (Hnul : ~ In x00 key).
  { intros G. unfold has_nul in E2. assert (existsb (fun b => Byte.eqb b x00) key = true).
    { apply existsb_exists. exists x00. split; auto. } congruence. }
  unfold comp_ok. destruct c as [|c0 cr]; [discriminate|].
  apply andb_true_iff in E1. destruct E1 as [A B].
  split; [discriminate|]. split.
  { intros G. rewrite G, bytes_eqb_refl in A. discriminate. }
  split.
  { intros G. rewrite G, bytes_eqb_refl in B. discriminate. }
  split.
  - pose proof (split_on_no_sep x2f key [] (fun H => H)) as F. rewrite Forall_forall in F. apply F. exact Hc.
  - intros G. destruct (split_on_subset x2f key [] _ x00 Hc G) as [G'|[]]. auto.
Qed.

Lemma localize_inv key name : localize key = Some name -> localize_prefix key = Some name /\ name <> [].
Proof.
  unfold localize. destruct (localize_prefix key) as [[|c r]|]; try discriminate.
  intros [= <-]. split; [reflexivity|discriminate].
Qed.

(* CONFINED: a key accepted by localizeKey is a NON-EMPTY sequence of path components none of
   which is empty, ".", "..", or contains '/' or NUL; joined below the configured directory it
   names an object strictly inside it *)
Theorem confined : forall key name, localize key = Some name -> name <> [] /\ Forall comp_ok name.
Proof.
  intros key name H. destruct (localize_inv _ _ H) as [H1 H2]. split; auto.
  eapply localize_prefix_components; eauto.
Qed.

(* the system calls of Upload only name objects below the configured directory (mutating calls:
   strictly below), or ancestors of it that MkdirAll inspects / creates when it does not exist *)
Definition below (dir q : path) : Prop := exists r, q = dir ++ r.
Definition sbelow (dir q : path) : Prop := exists r, r <> [] /\ q = dir ++ r.
Definition is_prefix (q dir : path) : Prop := exists r, dir = q ++ r.

Definition confined_call (dir : path) (c : sys) : Prop :=
  match c with
  | SCreat q _ | SUnlink q | SRmdir q | SOpenRead q _ => sbelow dir q
  | SRename a b => sbelow dir a /\ sbelow dir b
  | SMkdir q => sbelow dir q \/ is_prefix q dir
  | SOpenDir q _ | SStat q => below dir q \/ is_prefix q dir
  | _ => True          (* calls on descriptors act on objects opened by the calls above *)
  end.

Definition emits {A} (m : M A) (P : sys -> Prop) : Prop := forall s, Forall P (trace_of (m s)).

Lemma emits_ret {A} (a : A) P : emits (ret a) P.
Proof. intros s. constructor. Qed.

Lemma emits_call c (P : sys -> Prop) : P c -> emits (call c) P.
Proof. intros H s. unfold call, trace_of. destruct (step c s). cbn. auto. Qed.

Lemma emits_stat q (P : sys -> Prop) : P (SStat q) -> emits (stat q) P.
Proof. intros H s. unfold stat, trace_of. cbn. auto. Qed.

Lemma emits_bind {A B} (m : M A) (f : A -> M B) P : emits m P -> (forall a, emits (f a) P) -> emits (bind m f) P.
Proof.
  intros Hm Hf s. unfold bind, trace_of. specialize (Hm s). unfold trace_of in Hm.
  destruct (m s) as [[a s1] t1]. specialize (Hf a s1). unfold trace_of in Hf.
  destruct (f a s1) as [[b s2] t2]. cbn in *. apply Forall_app. auto.
Qed.

Lemma emits_fac fd err (P : sys -> Prop) : P (SFsync fd) -> P (SClose fd) -> emits (fsync_and_close fd err) P.
Proof.
  intros H1 H2. unfold fsync_and_close. apply emits_bind.
  - destruct err; [apply emits_ret|apply emits_call; auto].
  - intros a. apply emits_bind; [apply emits_call; auto|intros; apply emits_ret].
Qed.

Lemma emits_remove q (P : sys -> Prop) : P (SUnlink q) -> P (SRmdir q) -> emits (os_remove q) P.
Proof.
  intros H1 H2. unfold os_remove. apply emits_bind; [apply emits_call; auto|].
  intros [e|]; [|apply emits_ret]. apply emits_bind; [apply emits_call; auto|].
  intros [[]|]; apply emits_ret.
Qed.

Lemma emits_rename a b (P : sys -> Prop) : P (SStat b) -> P (SStat a) -> P (SRename a b) -> emits (os_rename a b) P.
Proof.
  intros H1 H2 H3. unfold os_rename. apply emits_bind; [apply emits_stat; auto|].
  intros [|i|e]; try (apply emits_call; auto).
  apply emits_bind; [apply emits_stat; auto|]. intros [|i|e]; apply emits_ret.
Qed.

Lemma emits_write_file' d b data perm sfx f0 (P : sys -> Prop) :
  P (SOpenDir d f0) -> P (SCreat (d ++ [tmp_name b sfx]) (S f0)) ->
  (forall fd pm, P (SFchmod fd pm)) -> (forall fd x, P (SWrite fd x)) ->
  (forall fd, P (SFsync fd)) -> (forall fd, P (SClose fd)) ->
  P (SStat (d ++ [b])) -> P (SStat (d ++ [tmp_name b sfx])) ->
  P (SRename (d ++ [tmp_name b sfx]) (d ++ [b])) ->
  P (SUnlink (d ++ [tmp_name b sfx])) -> P (SRmdir (d ++ [tmp_name b sfx])) ->
  emits (write_file' d b data perm sfx f0) P.
Proof.
  intros H1 H2 H3 H4 H5 H6 H7 H8 H9 H10 H11. unfold write_file'.
  apply emits_bind; [apply emits_call; auto|]. intros [e|]; [apply emits_ret|].
  apply emits_bind; [|intros; apply emits_fac; auto].
  apply emits_bind; [apply emits_call; auto|]. intros [e|]; [apply emits_ret|].
  apply emits_bind.
  - apply emits_bind; [apply emits_call; auto|]. intros [e|].
    + apply emits_bind; [apply emits_call; auto|intros; apply emits_ret].
    + apply emits_bind; [apply emits_call; auto|intros; apply emits_fac; auto].
  - intros err. apply emits_bind.
    + destruct err; [apply emits_ret|apply emits_rename; auto].
    + intros [e|]; [|apply emits_ret]. apply emits_bind; [apply emits_remove; auto|intros; apply emits_ret].
Qed.

Lemma emits_mkdir p f0 (P : sys -> Prop) :
  P (SOpenDir (parent p) f0) -> P (SMkdir p) -> P (SOpenDir p (S f0)) ->
  (forall fd, P (SFsync fd)) -> (forall fd, P (SClose fd)) ->
  emits (mkdir p f0) P.
Proof.
  intros H1 H2 H3 H4 H5. unfold mkdir.
  apply emits_bind; [apply emits_call; auto|]. intros [e|]; [apply emits_ret|].
  apply emits_bind; [|intros; apply emits_fac; auto].
  apply emits_bind; [apply emits_call; auto|].
  assert (K : emits (do r <- call (SOpenDir p (S f0));
                     match r with Some e => ret (Some e) | None => fsync_and_close (S f0) None end) P).
  { apply emits_bind; [apply emits_call; auto|]. intros [e|]; [apply emits_ret|apply emits_fac; auto]. }
  intros [[]|]; try apply emits_ret; exact K.
Qed.

Lemma is_prefix_refl q : is_prefix q q.
Proof. exists []. rewrite app_nil_r. reflexivity. Qed.

Lemma is_prefix_parent q : is_prefix (parent q) q.
Proof.
  destruct (path_eq_dec q []) as [->|H]; [apply is_prefix_refl|].
  exists [base q]. apply path_snoc. exact H.
Qed.

Lemma is_prefix_trans a b c : is_prefix a b -> is_prefix b c -> is_prefix a c.
Proof. intros [r ->] [r' ->]. exists (r ++ r'). rewrite app_assoc. reflexivity. Qed.

(* MkdirAll(q) only touches prefixes of q *)
Definition prefix_call (q0 : path) (c : sys) : Prop :=
  match c with
  | SStat q | SOpenDir q _ | SMkdir q => is_prefix q q0
  | SFsync _ | SClose _ => True
  | _ => False
  end.

Lemma emits_mkdir_all_fuel q0 f0 : forall fu q, is_prefix q q0 -> emits (mkdir_all_fuel fu q f0) (prefix_call q0).
Proof.
  induction fu as [|fu IH]; intros q Hq; cbn [mkdir_all_fuel]; [apply emits_ret|].
  apply emits_bind; [apply emits_stat; exact Hq|].
  intros [|i|e]; try apply emits_ret.
  assert (Hpp : is_prefix (parent q) q0) by (eapply is_prefix_trans; [apply is_prefix_parent|exact Hq]).
  apply emits_bind.
  - destruct q; [apply emits_ret|]. apply IH. exact Hpp.
  - intros [e1|]; [apply emits_ret|]. apply emits_mkdir; cbn; auto.
Qed.

Lemma prefix_of_below dir x q : is_prefix q (dir ++ x) -> below dir q \/ is_prefix q dir.
Proof.
  intros [r E]. revert q r E. induction dir as [|a dir IH]; intros q r E.
  - left. exists q. reflexivity.
  - destruct q as [|b q'].
    + right. exists (a :: dir). reflexivity.
    + cbn in E. injection E as <- E. destruct (IH q' r E) as [[r' ->]|[r' ->]].
      * left. exists r'. reflexivity.
      * right. exists r'. reflexivity.
Qed.

Lemma below_sbelow_or dir q : below dir q -> sbelow dir q \/ q = dir.
Proof.
  intros [r ->]. destruct r; [right; rewrite app_nil_r; reflexivity|left; exists (n :: r); split; [discriminate|reflexivity]].
Qed.

Lemma emits_weaken {A} (m : M A) (P Q : sys -> Prop) : emits m P -> (forall c, P c -> Q c) -> emits m Q.
Proof. intros H G s. eapply Forall_impl; [exact G|apply H]. Qed.

Theorem upload_confined : forall dir key data imm sfx reads f0,
  emits (upload dir key data imm sfx reads f0) (confined_call dir).
Proof.
  intros dir key data imm sfx reads f0.
  destruct (localize key) as [name|] eqn:Hloc.
  2:{ unfold upload, upload_with. rewrite Hloc. apply emits_ret. }
  assert (Hne : name <> []) by (apply (localize_inv _ _ Hloc)).
  rewrite (upload_unfold _ _ _ _ _ _ _ _ Hloc). cbv zeta.
  set (p := dir ++ name).
  assert (Hp : p <> []) by (unfold p; destruct dir; [exact Hne|discriminate]).
  assert (Epar : parent p = dir ++ removelast name).
  { unfold p, parent. apply removelast_app. exact Hne. }
  assert (Sp : sbelow dir p) by (exists name; auto).
  assert (Bpar : below dir (parent p)) by (rewrite Epar; eexists; reflexivity).
  assert (Stmp : forall t, sbelow dir (parent p ++ [t])).
  { intros t. rewrite Epar, <- app_assoc. eexists. split; [|reflexivity]. apply snoc_not_nil. }
  assert (Hwrite : forall perm, emits (write_file p data perm sfx f0) (confined_call dir)).
  { intros perm. rewrite (path_snoc p Hp) at 1. rewrite write_file_snoc.
    apply emits_write_file'; cbn; auto.
    - left. rewrite <- (path_snoc p Hp). destruct Sp as [r [_ ->]]. eexists; reflexivity.
    - left. destruct (Stmp (tmp_name (base p) sfx)) as [r [_ E]]. rewrite E. eexists; reflexivity. }
  apply emits_bind.
  - unfold mkdir_all. eapply emits_weaken; [apply (emits_mkdir_all_fuel (parent p)); apply is_prefix_refl|].
    intros c Hc. destruct c; cbn in *; try tauto.
    + rewrite Epar in Hc. apply (prefix_of_below _ _ _ Hc).
    + rewrite Epar in Hc. apply (prefix_of_below _ _ _ Hc).
    + rewrite Epar in Hc. destruct (prefix_of_below _ _ _ Hc) as [G|G]; auto.
      destruct (below_sbelow_or _ _ G) as [G'| ->]; auto; try (right; apply is_prefix_refl).
  - intros [e|]; [apply emits_ret|]. destruct imm; [|apply emits_bind; [apply Hwrite|intros; apply emits_ret]].
    apply emits_bind; [apply emits_call; exact Sp|].
    intros [e|].
    + apply emits_bind; [apply Hwrite|]. intros [e2|]; [apply emits_ret|].
      apply emits_bind; [apply emits_call; exact Sp|]. intros [e3|]; [apply emits_ret|].
      apply emits_bind; [apply emits_call; exact I|]. intros _.
      apply emits_bind; [apply emits_call; exact I|]. intros; apply emits_ret.
    + apply emits_bind.
      * intros s. unfold compare_fd, trace_of. destruct (fd_get (fds s) f0) as [[i|q]|].
        -- match goal with |- context [compare_file ?a data reads] => destruct (compare_file a data reads) as [r k] end.
           cbn [snd]. apply Forall_forall. intros c Hc.
           apply repeat_spec in Hc. subst c. exact I.
        -- repeat constructor.
        -- repeat constructor.
      * intros cr. apply emits_bind; [apply emits_call; exact I|]. intros; apply emits_ret.
Qed.

(* ---------------------------------------------------------------------------------------- *)
(* what does NOT hold                                                                         *)
(* ---------------------------------------------------------------------------------------- *)

Definition store0 : path := [s2b "store"].

(* the configured directory exists and is durable *)
Definition st0 : fs := state_of (mkdir_all store0 0 (init_fs false)).

Lemma st0_ok : wf st0 /\ dirs_durable st0 /\ walk (dirs st0) store0 = WDir.
Proof.
  destruct (init_durable false) as [Hd Hw].
  assert (Hr : result_of (mkdir_all store0 0 (init_fs false)) = None) by (vm_compute; reflexivity).
  destruct (mkdir_durable (init_fs false) store0 0 Hw Hd Hr) as [A [B [C _]]]. auto.
Qed.

(* BEFORE the fix "local backend must not accept the key \".\"": the key "." is accepted by
   filepath.Localize and names the configured directory itself. Upload created its temporary
   file NEXT TO the configured directory (in its parent); when the directory did not exist yet
   the object took its place (a regular file); Discard removed the configured directory when it
   was empty. The code as it is now rejects the key (last two conjuncts). *)
Theorem prefix_confined_dot_refuted :
  let key := s2b "." in
  let tmp := [tmp_name (s2b "store") (s2b "1")] in
  localize_prefix key = Some [] /\
  nth_error (trace_of (upload_prefix store0 key (s2b "x") false (s2b "1") [] 0 st0)) 2 = Some (SCreat tmp 1) /\
  ~ below store0 tmp /\
  (let r := upload_prefix store0 key (s2b "x") false (s2b "1") [] 0 (init_fs false) in
   result_of r = UOk /\ read_path (state_of r) store0 = Some (s2b "x")) /\
  (let r := discard_prefix store0 key 0 st0 in
   result_of r = UOk /\ walk (dirs (state_of r)) store0 = WErr ENOENT) /\
  localize key = None /\
  (forall s data imm sfx reads f0,
     upload store0 key data imm sfx reads f0 s = (UBadKey, s, []) /\
     discard store0 key f0 s = (UBadKey, s, []) /\ fetch store0 key f0 s = (FBadKey, s, [])).
Proof.
  cbv zeta. split; [vm_compute; reflexivity|]. split; [vm_compute; reflexivity|]. split.
  { intros [r H]. vm_compute in H. discriminate H. }
  split; [split; vm_compute; reflexivity|]. split; [split; vm_compute; reflexivity|].
  split; [vm_compute; reflexivity|].
  intros. repeat split; reflexivity.
Qed.

(* Two concurrent uploads into the same NEW directory. Writer A (key new/a) is preempted right
   after its mkdirat of store/new, before any fsync. Writer B (key new/b) then runs to completion:
   MkdirAll's Stat finds store/new, so B takes the fast path, writes and syncs its file and
   store/new, and RETURNS nil; but the entry "new" in store is still only a pending operation
   of A. A power loss that loses this one operation loses B's returned upload. (When A later
   continues, everything becomes durable: the window closes with A's fsync of store.) *)
Theorem concurrent_mkdir_refuted :
  exists (j : nat) (c : choice),
    let upA := upload store0 (s2b "new/a") (s2b "A") true (s2b "1") [] 0 in
    let upB := upload store0 (s2b "new/b") (s2b "B") true (s2b "2") [] 10 in
    let pA := store0 ++ [s2b "new"; s2b "a"] in
    let pB := store0 ++ [s2b "new"; s2b "b"] in
    let TA := trace_of (upA st0) in
    let sj := exec (firstn j TA) st0 in
    wf st0 /\ dirs_durable st0 /\
    result_of (upA st0) = UOk /\
    nth_error TA (j - 1) = Some (SMkdir (store0 ++ [s2b "new"])) /\
    result_of (upB sj) = UOk /\
    read_path (state_of (upB sj)) pB = Some (s2b "B") /\
    read_path (crash (state_of (upB sj)) c) pB = None /\
    (let sEnd := exec (skipn j TA) (state_of (upB sj)) in
     read_path sEnd pA = Some (s2b "A") /\
     read_path (crash sEnd c) pA = Some (s2b "A") /\ read_path (crash sEnd c) pB = Some (s2b "B")).
Proof.
  exists 4, (choice_of [(store0, [false])] []). cbv zeta.
  destruct st0_ok as [A [B _]]. split; [exact A|]. split; [exact B|].
  vm_compute. repeat split; reflexivity.
Qed.

(* Two concurrent immutable uploads of the SAME key with the same bytes: A is preempted after its
   rename and before the fsync of the directory; B finds the object, compares, and returns nil.
   A power loss that loses A's rename loses the object although B's upload returned. *)
Theorem concurrent_same_key_refuted :
  exists (j : nat) (c : choice),
    let upA := upload store0 (s2b "k") (s2b "same") true (s2b "1") [] 0 in
    let upB := upload store0 (s2b "k") (s2b "same") true (s2b "2") [] 10 in
    let p := store0 ++ [s2b "k"] in
    let TA := trace_of (upA st0) in
    let sj := exec (firstn j TA) st0 in
    wf st0 /\ dirs_durable st0 /\
    result_of (upA st0) = UOk /\
    nth_error TA (j - 1) = Some (SRename (store0 ++ [tmp_name (s2b "k") (s2b "1")]) p) /\
    result_of (upB sj) = UOk /\
    read_path (state_of (upB sj)) p = Some (s2b "same") /\
    read_path (crash (state_of (upB sj)) c) p = None /\
    ~ path_durable sj p.
Proof.
  exists 10, (choice_of [(store0, [true; false])] []). cbv zeta.
  destruct st0_ok as [A [B _]]. split; [exact A|]. split; [exact B|].
  split; [vm_compute; reflexivity|]. split; [vm_compute; reflexivity|].
  split; [vm_compute; reflexivity|]. split; [vm_compute; reflexivity|].
  split; [vm_compute; reflexivity|].
  intros H. specialize (H (choice_of [(store0, [true; false])] [])). vm_compute in H. discriminate H.
Qed.

(* a mutable upload over an object that was uploaded as immutable is NOT refused by the code
   itself: only the inode flag (when the process may set it) stops the rename *)
Theorem mutable_over_immutable :
  let up1 cap := upload store0 (s2b "k") (s2b "frozen") true (s2b "1") [] 0
                   (state_of (mkdir_all store0 0 (init_fs cap))) in
  let up2 cap := upload store0 (s2b "k") (s2b "thawed") false (s2b "2") [] 0 (state_of (up1 cap)) in
  result_of (up1 false) = UOk /\ result_of (up2 false) = UOk /\
  read_path (state_of (up2 false)) (store0 ++ [s2b "k"]) = Some (s2b "thawed") /\
  result_of (up1 true) = UOk /\ result_of (up2 true) = UErr EPERM /\
  read_path (state_of (up2 true)) (store0 ++ [s2b "k"]) = Some (s2b "frozen").
Proof. vm_compute. repeat split; reflexivity. Qed.
