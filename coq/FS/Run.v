(* FS/Run.v — what the extracted driver (ocaml/fs.ml) calls: rendering of results as bytes
   (identical in vm_compute and in the extracted code), the generated contents and digests
   shared with harness/fs/main.go, the observable directory tree, rendering of system-call
   traces, and the crash monitor durable_ok that enumerates every crash point and loss choice
   of a finite observed trace. Definitions only. *)
From SL Require Import Base.Bytes FS.Model FS.Fault.
Import ListNotations.
Open Scope nat_scope.

(* ---- contents: g<len>.<seed> of the harness, adler32 ---- *)

(* byte i = (seed + 7*lo + hi) mod 256 with lo = i mod 256, hi = (i / 256) mod 251; the state
   keeps m = 7*lo mod 256 so that no division is needed *)
Definition gen_step (seed : N) (st : bytes * (N * N * N)) : bytes * (N * N * N) :=
  let '(acc, (lo, m, hi)) := st in
  let v := (seed + m + hi)%N in
  let v1 := if (512 <=? v)%N then (v - 512)%N else if (256 <=? v)%N then (v - 256)%N else v in
  let b := match Byte.of_N v1 with Some b => b | None => x00 end in
  let m1 := (m + 7)%N in
  let m2 := if (256 <=? m1)%N then (m1 - 256)%N else m1 in
  (b :: acc,
   if (lo =? 255)%N then (0%N, 0%N, if (hi =? 250)%N then 0%N else (hi + 1)%N) else ((lo + 1)%N, m2, hi)).

(* the sequence has period 256*251 = 64256: one period is generated, then repeated *)
Definition gen_period : N := 64256.

Fixpoint take_N (n : N) (l : bytes) : bytes :=
  match l with
  | [] => []
  | b :: r => if (n =? 0)%N then [] else b :: take_N (N.pred n) r
  end.

Definition gen_data (len seed : N) : bytes :=
  let plen := if (len <? gen_period)%N then len else gen_period in
  let period := rev' (fst (N.iter plen (gen_step (seed mod 256)) ([], (0%N, 0%N, 0%N)))) in
  if (len <=? gen_period)%N then period
  else N.iter (len / gen_period) (fun acc => period ++ acc) (take_N (len mod gen_period) period).

(* adler32 with the reductions mod 65521 deferred to the end of 256-byte blocks *)
Fixpoint adler_run (k : nat) (l : bytes) (a c : N) : bytes * N * N :=
  match k, l with
  | S k', b :: r => let a' := (a + Byte.to_N b)%N in adler_run k' r a' (c + a')%N
  | _, _ => (l, a, c)
  end.

Fixpoint adler_blocks (fuel : nat) (l : bytes) (a c : N) : N * N :=
  match fuel with
  | O => (a, c)
  | S fu =>
    match l with
    | [] => (a, c)
    | _ => let '(r, a', c') := adler_run 256 l a c in adler_blocks fu r (a' mod 65521)%N (c' mod 65521)%N
    end
  end.

Definition adler32 (b : bytes) : N :=
  let '(a, c) := adler_blocks (S (length b)) b 1%N 0%N in (c * 65536 + a)%N.

Fixpoint blen_N (b : bytes) (acc : N) : N :=
  match b with [] => acc | _ :: r => blen_N r (acc + 1)%N end.

(* what a digest covers: everything up to 64 KiB, else the first and the last 32 KiB (and the
   length). The harness computes the same function; its monitors compare whole contents. *)
Fixpoint drop_len (lead l : bytes) : bytes :=
  match lead with
  | [] => l
  | _ :: r => drop_len r (tl l)
  end.

Definition half_sample : nat := Pos.to_nat 32768.

Definition sample (b : bytes) : bytes :=
  match skipn (half_sample + half_sample) b with
  | [] => b
  | _ => firstn half_sample b ++ drop_len (skipn half_sample b) b
  end.

Definition digest (b : bytes) : bytes :=
  s2b "f" ++ dec (blen_N b 0) ++ s2b "." ++ dec (adler32 (sample b)).

(* ---- error classes of the harness ---- *)

Definition class_errno (e : errno) : bytes :=
  match e with
  | ENOENT => s2b "notexist" | EEXIST => s2b "exist" | ENOTDIR => s2b "notdir" | EISDIR => s2b "isdir"
  | EPERM => s2b "perm" | ENOTEMPTY => s2b "notempty" | ENAMETOOLONG => s2b "toolong"
  | EBUSY => s2b "busy" | EBADF => s2b "other:EBADF" | EINVAL => s2b "other:EINVAL"
  end.

Definition class_ures (r : ures) : bytes :=
  match r with
  | UOk => s2b "ok" | UBadKey => s2b "badkey" | UMismatch => s2b "mismatch"
  | UErr e => class_errno e | UFuel => s2b "fuel"
  end.

(* ---- the observable tree: lexical order per directory, depth first (filepath.WalkDir) ---- *)

Fixpoint bytes_ltb (a b : bytes) : bool :=
  match a, b with
  | _, [] => false
  | [], _ :: _ => true
  | x :: a', y :: b' =>
    if (Byte.to_N x <? Byte.to_N y)%N then true
    else if (Byte.to_N y <? Byte.to_N x)%N then false
    else bytes_ltb a' b'
  end.

Fixpoint ins_sorted (x : name * ent) (l : entries) : entries :=
  match l with
  | [] => [x]
  | y :: r => if bytes_ltb (fst x) (fst y) then x :: l else y :: ins_sorted x r
  end.

Definition sort_entries (l : entries) : entries := fold_right ins_sorted [] l.

Definition slash_join (p : path) : bytes := join_with x2f p.

(* digests of the inode contents are cached per inode between operations (dcache) and
   recomputed only for inodes whose contents changed *)
Definition dcache := list bytes.

Fixpoint refresh (oldf newf : list filest) (old : dcache) : dcache :=
  match newf with
  | [] => []
  | f :: nr =>
    match oldf, old with
    | g :: orest, d :: dr =>
      (if bytes_eqb (fcontent g) (fcontent f) then d else digest (fcontent f)) :: refresh orest nr dr
    | _, _ => digest (fcontent f) :: refresh [] nr []
    end
  end.

Fixpoint tree_from (fuel : nat) (s : fs) (dc : dcache) (cur : path) : list bytes :=
  match fuel with
  | O => []
  | S fu =>
    flat_map (fun ke =>
      let q := cur ++ [fst ke] in
      match snd ke with
      | EDir => (hx (slash_join q) ++ s2b "=d") :: tree_from fu s dc q
      | EFile i =>
        match nth_error (files s) i with
        | Some f => [hx (slash_join q) ++ s2b "=" ++
                     (match nth_error dc i with Some d => d | None => digest (fcontent f) end) ++
                     (if f_imm f then s2b "i" else [])]
        | None => [hx (slash_join q) ++ s2b "=?"]
        end
      end) (sort_entries (dview (dirs s) cur))
  end.

Definition tree (s : fs) (dc : dcache) : bytes :=
  match tree_from 40 s dc [] with
  | [] => s2b "-"
  | l => join_with x2c l
  end.

(* ---- the differential operations (state threaded by the driver) ---- *)

Definition store : path := [s2b "store"].
Definition sfx0 : bytes := s2b "1".

(* reset: scratch root with (mk = true) an existing, durable backend directory *)
Definition run_reset (cap mk : bool) : fs :=
  let s := init_fs cap in
  if mk then exec [SMkdir store; SOpenDir [] 0; SFsync 0; SClose 0] s else s.

Definition bar : bytes := [x7c].

Definition rstate := (fs * dcache)%type.

Definition run_up (st : rstate) (key data : bytes) (imm : bool) : bytes * rstate :=
  let '(s, dc) := st in
  let '(r, s', _) := upload store key data imm sfx0 [] 0 s in
  let dc' := refresh (files s) (files s') dc in
  (class_ures r ++ bar ++ tree s' dc', (s', dc')).

Definition run_fetch (st : rstate) (key : bytes) : bytes * rstate :=
  let '(s, dc) := st in
  let '(r, s', _) := fetch store key 0 s in
  (match r with
   | FOk b => s2b "ok:" ++ digest b
   | FBadKey => s2b "badkey"
   | FErr e => class_errno e
   end, (s', dc)).

Definition run_discard (st : rstate) (key : bytes) : bytes * rstate :=
  let '(s, dc) := st in
  let '(r, s', _) := discard store key 0 s in
  let dc' := refresh (files s) (files s') dc in
  (class_ures r ++ bar ++ tree s' dc', (s', dc')).

(* ---- rendering of system-call traces (fds resolved to the path they were opened with) ---- *)

Definition errno_name (e : errno) : bytes :=
  match e with
  | ENOENT => s2b "ENOENT" | EEXIST => s2b "EEXIST" | ENOTDIR => s2b "ENOTDIR" | EISDIR => s2b "EISDIR"
  | EPERM => s2b "EPERM" | ENOTEMPTY => s2b "ENOTEMPTY" | ENAMETOOLONG => s2b "ENAMETOOLONG"
  | EBUSY => s2b "EBUSY" | EBADF => s2b "EBADF" | EINVAL => s2b "EINVAL"
  end.

Definition rp (p : path) : bytes := match p with [] => s2b "/" | _ => hx (slash_join p) end.

Fixpoint fdpath (m : list (nat * path)) (fd : nat) : bytes :=
  match m with
  | [] => s2b "?"
  | (k, p) :: r => if Nat.eqb k fd then rp p else fdpath r fd
  end.

Fixpoint fdm_del (m : list (nat * path)) (fd : nat) : list (nat * path) :=
  match m with
  | [] => []
  | (k, p) :: r => if Nat.eqb k fd then r else (k, p) :: fdm_del r fd
  end.

Definition colon : bytes := [x3a].
Definition dnat (n : nat) : bytes := dec (N.of_nat n).

Definition render_call (m : list (nat * path)) (c : sys) : bytes :=
  match c with
  | SStat p => s2b "stat:" ++ rp p
  | SOpenDir p _ => s2b "opendir:" ++ rp p
  | SCreat p _ => s2b "creat:" ++ rp p
  | SFchmod fd perm => s2b "fchmod:" ++ fdpath m fd ++ colon ++ dec perm
  | SWrite fd d => s2b "write:" ++ fdpath m fd ++ colon ++ dec (blen_N d 0)
  | SFsync fd => s2b "fsync:" ++ fdpath m fd
  | SClose fd => s2b "close:" ++ fdpath m fd
  | SRename a b => s2b "rename:" ++ rp a ++ colon ++ rp b
  | SMkdir p => s2b "mkdir:" ++ rp p
  | SUnlink p => s2b "unlink:" ++ rp p
  | SRmdir p => s2b "rmdir:" ++ rp p
  | SOpenRead p _ => s2b "open:" ++ rp p
  | SRead fd n => s2b "read:" ++ fdpath m fd ++ colon ++ dnat n
  | SSetFlags fd imm => s2b "setflags:" ++ fdpath m fd ++ colon ++ b2i imm
  end.

(* every call with the model's result ("=ok" or "=E..."), joined by ';' *)
Fixpoint render_trace (s : fs) (m : list (nat * path)) (t : list sys) : list bytes :=
  match t with
  | [] => []
  | c :: r =>
    let '(s', res) := step c s in
    let line := render_call m c ++ s2b "=" ++
                (match c with
                 | SSetFlags _ _ => s2b "ignored"        (* internal/immutable ignores the ioctl result *)
                 | _ => match res with None => s2b "ok" | Some e => errno_name e end
                 end) in
    let m' :=
      match res, c with
      | None, SOpenDir p fd | None, SCreat p fd | None, SOpenRead p fd => (fd, p) :: m
      | None, SClose fd => fdm_del m fd
      | _, _ => m
      end in
    line :: render_trace s' m' r
  end.

Definition render (s : fs) (t : list sys) : bytes := join_with x3b (render_trace s [] t).

(* predicted traces for the scripted operations (oracle: the observed temporary-file suffix) *)
Definition trace_up (s : fs) (key data : bytes) (imm : bool) (sfx : bytes) (fd0 : nat) : list sys :=
  trace_of (upload store key data imm sfx [] fd0 s).
Definition trace_discard (s : fs) (key : bytes) (fd0 : nat) : list sys :=
  trace_of (discard store key fd0 s).
(* an upload during which the kernel lets a file grow to `limit` bytes only: when the data are
   longer, write(2) on the temporary file lets the first `limit` bytes through and then fails
   (FS/Fault.v; the errno is not part of a trace) *)
Definition trace_up_fault (s : fs) (key data : bytes) (imm : bool) (sfx : bytes) (fd0 : nat) (limit : nat) : list sys :=
  if Nat.leb (length data) limit then trace_up s key data imm sfx fd0
  else trace_of (upload_fault (firstn limit data) EINVAL store key data imm sfx [] fd0 s).

(* ---- the crash monitor ---- *)

Fixpoint all_masks (n : nat) : list (list bool) :=
  match n with
  | O => [[]]
  | S k => flat_map (fun m => [true :: m; false :: m]) (all_masks k)
  end.

(* all assignments of masks to the listed directories *)
Fixpoint dir_choices (s : fs) (ds : list path) : list (list (path * list bool)) :=
  match ds with
  | [] => [[]]
  | d :: r =>
    let rest := dir_choices s r in
    match d_pend (dirs s d) with
    | [] => rest
    | ops => flat_map (fun m => map (fun c => (d, m) :: c) rest) (all_masks (length ops))
    end
  end.

(* representative contents for a file with unsynced data v: (durable =) absent from the list,
   empty, first half, everything, zero-filled, first half followed by zeros *)
Definition file_variants (v : bytes) : list bytes :=
  let h := firstn (Nat.div2 (length v)) v in
  [[]; h; v; map (fun _ => x00) v; h ++ map (fun _ => x00) (skipn (Nat.div2 (length v)) v)].

Fixpoint file_choices_from (l : list filest) (i : nat) : list (list (nat * bytes)) :=
  match l with
  | [] => [[]]
  | f :: r =>
    let rest := file_choices_from r (S i) in
    match f_vol f with
    | None => rest
    | Some v => rest ++ flat_map (fun b => map (fun c => (i, b) :: c) rest) (file_variants v)
    end
  end.

Definition all_choices (s : fs) (ds : list path) : list (list (path * list bool) * list (nat * bytes)) :=
  flat_map (fun dm => map (fun fc => (dm, fc)) (file_choices_from (files s) 0)) (dir_choices s ds).

Fixpoint obytes_in (x : option bytes) (l : list (option bytes)) : bool :=
  match l with
  | [] => false
  | y :: r =>
    (match x, y with
     | None, None => true
     | Some a, Some b => bytes_eqb a b
     | _, _ => false
     end) || obytes_in x r
  end.

(* spec: for each tracked path the set of contents that may be found after a power loss *)
Definition spec := list (path * list (option bytes)).

Record failure := mkFailure {
  fl_point : nat;                                   (* crash after this many calls of the segment *)
  fl_masks : list (path * list bool);
  fl_files : list (nat * bytes);
  fl_path : path;
  fl_got : option bytes
}.

Fixpoint check_spec (s : fs) (sp : spec) : option (path * option bytes) :=
  match sp with
  | [] => None
  | (p, allowed) :: r =>
    let got := read_path s p in
    if obytes_in got allowed then check_spec s r else Some (p, got)
  end.

Fixpoint check_choices (s : fs) (sp : spec) (k : nat)
    (cs : list (list (path * list bool) * list (nat * bytes))) : option failure :=
  match cs with
  | [] => None
  | (dm, fc) :: r =>
    match check_spec (crash s (choice_of dm fc)) sp with
    | Some (p, got) => Some (mkFailure k dm fc p got)
    | None => check_choices s sp k r
    end
  end.

Definition sys_dirs (c : sys) : list path :=
  match c with
  | SStat p | SOpenDir p _ | SOpenRead p _ => [parent p; p]
  | SCreat p _ | SMkdir p | SUnlink p | SRmdir p => [parent p; p]
  | SRename a b => [parent a; parent b]
  | _ => []
  end.

Fixpoint path_mem (p : path) (l : list path) : bool :=
  match l with [] => false | q :: r => path_eqb p q || path_mem p r end.

Fixpoint dedup (l : list path) (acc : list path) : list path :=
  match l with
  | [] => rev' acc
  | p :: r => if path_mem p acc then dedup r acc else dedup r (p :: acc)
  end.

Fixpoint prefixes (p : path) : list path :=
  match p with
  | [] => [[]]
  | n :: r => [] :: map (cons n) (prefixes r)
  end.

(* directories whose pending operations matter: every prefix of every tracked path and of every
   path mentioned by the trace *)
Definition relevant_dirs (sp : spec) (t : list sys) : list path :=
  dedup (flat_map (fun x => prefixes (fst x)) sp ++ flat_map (fun c => flat_map prefixes (sys_dirs c)) t) [].

(* crash at every point 0..length t of the segment; `during` holds while the operation runs,
   `after` once it has returned (checked after the last call) *)
Fixpoint check_points (s : fs) (t : list sys) (k : nat) (during after : spec) (ds : list path) : option failure :=
  match t with
  | [] => check_choices s after k (all_choices s ds)
  | c :: r =>
    match check_choices s during k (all_choices s ds) with
    | Some f => Some f
    | None => check_points (exec1 c s) r (S k) during after ds
    end
  end.

Definition check_op (s : fs) (t : list sys) (during after : spec) : option failure :=
  check_points s t 0 during after (relevant_dirs (during ++ after) t).

Definition durable_ok (s : fs) (t : list sys) (during after : spec) : bool :=
  match check_op s t during after with None => true | Some _ => false end.

Definition render_mask (m : list bool) : bytes := flat_map b2i m.

Definition render_failure (f : failure) : bytes :=
  s2b "crash-after-call " ++ dnat (fl_point f) ++ s2b " keeping " ++
  join_with x2c (map (fun pm => rp (fst pm) ++ colon ++ render_mask (snd pm)) (fl_masks f)) ++
  s2b " files " ++ join_with x2c (map (fun ib => dnat (fst ib) ++ colon ++ digest (snd ib)) (fl_files f)) ++
  s2b " path " ++ rp (fl_path f) ++ s2b " found " ++
  (match fl_got f with None => s2b "absent" | Some b => digest b end).

(* spec bookkeeping for the driver *)
Fixpoint spec_get (sp : spec) (p : path) : list (option bytes) :=
  match sp with
  | [] => [None]
  | (q, a) :: r => if path_eqb q p then a else spec_get r p
  end.

Fixpoint spec_set (sp : spec) (p : path) (a : list (option bytes)) : spec :=
  match sp with
  | [] => [(p, a)]
  | (q, b) :: r => if path_eqb q p then (q, a) :: r else (q, b) :: spec_set r p a
  end.

Definition key_path (key : bytes) : option path :=
  match localize key with Some n => Some (store ++ n) | None => None end.

(* ---- a whole group of differential operations (used by the vm_compute cross-check) ---- *)
Inductive rop := RUp (key data : bytes) (imm : bool) | RFetch (key : bytes) | RDiscard (key : bytes).

Fixpoint run_ops (st : rstate) (ops : list rop) : list bytes :=
  match ops with
  | [] => []
  | o :: r =>
    let '(line, st') :=
      match o with
      | RUp k d i => run_up st k d i
      | RFetch k => run_fetch st k
      | RDiscard k => run_discard st k
      end in
    line :: run_ops st' r
  end.

Definition run_group (cap mk : bool) (ops : list rop) : bytes :=
  join_with x0a (run_ops (run_reset cap mk, []) ops).
