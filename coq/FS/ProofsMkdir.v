(* FS/ProofsMkdir.v — durable.Mkdir / MkdirAll for a single writer: when MkdirAll returns nil
   the directory is reachable, every directory that is reachable is durably reachable (for
   every crash choice), at every nesting depth; the fuel of the model is sufficient. *)
From SL Require Import Base.Bytes Base.BytesProofs FS.Model FS.Lemmas FS.Hoare FS.ProofsWrite.
From Coq Require Import Lia.
Import ListNotations.
Open Scope nat_scope.

(* a directory whose visible sub-directory links survive every loss of pending operations *)
Definition dir_links_durable (ds : dirst) : Prop :=
  forall n, eget (view ds) n = Some EDir ->
  forall m, eget (apply_ops (select m (d_pend ds)) (d_dur ds)) n = Some EDir.

Definition dirs_durable (s : fs) : Prop := forall q, dir_links_durable (dirs s q).

Lemma synced_durable ds : d_pend ds = [] -> dir_links_durable ds.
Proof.
  intros H n Hn m. unfold view in Hn. rewrite H in *. rewrite select_nil. exact Hn.
Qed.

Lemma durable_walk_from s : dirs_durable s -> forall rest cur,
  walk_from (dirs s) cur rest = WDir -> forall c, walk_from (dirs (crash s c)) cur rest = WDir.
Proof.
  intros Hd. induction rest as [|n r IH]; intros cur H c; [reflexivity|].
  cbn [walk_from] in *. destruct (too_long n); [discriminate|].
  destruct (eget (dview (dirs s) cur) n) as [[i|]|] eqn:E; try discriminate.
  - destruct r; discriminate.
  - rewrite dview_crash. rewrite (Hd cur n E). apply IH. exact H.
Qed.

(* every directory that is reachable now is reachable after any power loss *)
Lemma durable_walk s p c : dirs_durable s -> walk (dirs s) p = WDir -> walk (dirs (crash s c)) p = WDir.
Proof. intros Hd H. apply durable_walk_from; auto. Qed.

Lemma fd_get_skip l fd fd' h : Nat.eqb fd' fd = false -> fd_get ((fd', h) :: l) fd = fd_get l fd.
Proof. intros H. cbn. rewrite H. reflexivity. Qed.

Definition TT : fs -> Prop := fun _ => True.
Definition TR : fs -> fs -> Prop := fun _ _ => True.

(* description of a state reached from s: explicit directory map, same inode table *)
Record MSt (s s' : fs) (D : dmap) (fdl : list (nat * handle)) : Prop := {
  ms_dirs : forall q, dirs s' q = D q;
  ms_files : files s' = files s;
  ms_fds : fds s' = fdl;
  ms_cap : cap s' = cap s
}.

Lemma walk_pointwise ds ds' p : (forall q, ds q = ds' q) -> walk ds p = walk ds' p.
Proof. intros H. apply walk_ext. auto. Qed.

Lemma dview_pointwise ds ds' p : (forall q, ds q = ds' q) -> dview ds p = dview ds' p.
Proof. intros H. unfold dview. rewrite H. reflexivity. Qed.

Section Mkdir.

Variable s : fs.
Variables (d : path) (n : name) (f0 : nat).
Hypothesis Hwf : wf s.
Hypothesis Hdur : dirs_durable s.
Hypothesis Hw : walk (dirs s) d = WDir.

Let p := d ++ [n].
Let f1 := S f0.

Lemma d_neq_p : d <> p.
Proof. unfold p. intros H. apply (f_equal (@length name)) in H. rewrite app_length in H. cbn in H. lia. Qed.

(* the result of durable.Mkdir: nil only with the new directory linked and both synced *)
Definition mkdir_post (r : option errno) (s' : fs) : Prop :=
  r = None ->
  walk (dirs s') p = WDir /\ dirs_durable s' /\ wf s' /\
  files s' = files s /\ fds s' = fds s /\ cap s' = cap s /\
  (forall q, q <> d -> q <> p -> dirs s' q = dirs s q) /\
  (eget (dview (dirs s) d) n = None -> dview (dirs s') p = []).

(* after the link exists: open the directory, sync it, sync the parent *)
Lemma mkdir_tail s2 D2 :
  MSt s s2 D2 ((f0, HDir d) :: fds s) ->
  (forall q, q <> d -> q <> p -> D2 q = dirs s q) ->
  Forall (fun ke : name * ent => ent_ok (length (files s)) (snd ke)) (view (D2 d)) ->
  Forall (fun ke : name * ent => ent_ok (length (files s)) (snd ke)) (view (D2 p)) ->
  too_long n = false ->
  mchain (do r <- call (SOpenDir p f1);
          match r with
          | Some e => ret (Some e)
          | None => fsync_and_close f1 None
          end) s2 TT TR
    (fun err s3 =>
       match err with
       | None =>
         eget (view (D2 d)) n = Some EDir /\
         MSt s s3 (dupd D2 p (mkDir (view (D2 p)) [])) ((f0, HDir d) :: fds s)
       | Some _ => MSt s s3 D2 ((f0, HDir d) :: fds s)
       end).
Proof.
  intros H2 Hfr Hb1 Hb2 Hl.
  assert (Hwd : walk (dirs s2) d = WDir).
  { rewrite <- Hw. apply walk_ext. intros a Ha. rewrite (ms_dirs _ _ _ _ H2). apply Hfr.
    - apply sprefix_neq. auto.
    - intros ->. destruct Ha as [m [r E]]. unfold p in E.
      apply (f_equal (@length name)) in E. rewrite !app_length in E. cbn in E. lia. }
  eapply mchain_bind with (Q := fun r s' =>
     match r with
     | None => eget (view (D2 d)) n = Some EDir /\ MSt s s' D2 ((f1, HDir p) :: (f0, HDir d) :: fds s)
     | Some _ => s' = s2
     end).
  - apply mchain_call; unfold TT, TR; auto.
    rewrite step_opendir. unfold p. rewrite walk_snoc, Hwd, Hl.
    unfold dview. rewrite (ms_dirs _ _ _ _ H2).
    destruct (eget (view (D2 d)) n) as [[j|]|]; cbn [fst snd]; auto.
    split; auto. destruct H2 as [A B C D]. constructor; cbn; auto. rewrite C. reflexivity.
  - intros r s3 H3. destruct r as [e|].
    + subst s3. apply mchain_ret; unfold TT; auto.
    + destruct H3 as [He H3]. unfold fsync_and_close.
      eapply mchain_bind with (Q := fun r s' => r = None /\
         MSt s s' (dupd D2 p (mkDir (view (D2 p)) [])) ((f1, HDir p) :: (f0, HDir d) :: fds s)).
      * apply mchain_call; unfold TT, TR; auto.
        unfold step. cbv zeta. rewrite (ms_fds _ _ _ _ H3), fd_get_bind. cbn [fst snd]. split; auto.
        destruct H3 as [A B C D]. constructor; cbn; auto.
        intros q. unfold dupd. rewrite !A. reflexivity.
      * intros r s4 [-> H4].
        eapply mchain_bind with (Q := fun r s' => r = None /\
           MSt s s' (dupd D2 p (mkDir (view (D2 p)) [])) ((f0, HDir d) :: fds s)).
        -- apply mchain_call; unfold TT, TR; auto.
           unfold step. cbv zeta. rewrite (ms_fds _ _ _ _ H4), fd_get_bind, fd_del_bind. cbn [fst snd].
           split; auto. destruct H4 as [A B C D]. constructor; cbn; auto.
        -- intros r s5 [-> H5]. apply mchain_ret; unfold TT; auto.
Qed.

Lemma mkdir_spec : mchain (mkdir p f0) s TT TR mkdir_post.
Proof.
  unfold mkdir. unfold p at 1. rewrite parent_snoc. fold p. fold f1.
  eapply mchain_bind with (Q := fun r s' => r = None /\ MSt s s' (dirs s) ((f0, HDir d) :: fds s)).
  { apply mchain_call; unfold TT, TR; auto. rewrite step_opendir, Hw. cbn [fst snd]. split; auto.
    constructor; cbn; auto. }
  intros r s1 [-> H1].
  eapply mchain_bind with (Q := fun err s' =>
     match err with
     | None => exists D2,
         eget (view (D2 d)) n = Some EDir /\
         (forall q, q <> d -> q <> p -> D2 q = dirs s q) /\
         Forall (fun ke : name * ent => ent_ok (length (files s)) (snd ke)) (view (D2 d)) /\
         Forall (fun ke : name * ent => ent_ok (length (files s)) (snd ke)) (view (D2 p)) /\
         too_long n = false /\
         (eget (dview (dirs s) d) n = None -> view (D2 p) = []) /\
         MSt s s' (dupd D2 p (mkDir (view (D2 p)) [])) ((f0, HDir d) :: fds s)
     | Some _ => exists D2, MSt s s' D2 ((f0, HDir d) :: fds s)
     end).
  - (* mkdir, then the tail *)
    assert (Hbound : forall q, Forall (fun ke : name * ent => ent_ok (length (files s)) (snd ke)) (view (dirs s q))).
    { intros q. destruct (Hwf q) as [A B]. unfold view. apply apply_ops_bound; auto. }
    eapply mchain_bind with (Q := fun r s' =>
       match r with
       | None =>
         too_long n = false /\
         MSt s s' (dpush (dupd (dirs s) p empty_dir) d (OLink n EDir)) ((f0, HDir d) :: fds s)
       | Some EEXIST => too_long n = false /\ eget (dview (dirs s) d) n <> None /\ MSt s s' (dirs s) ((f0, HDir d) :: fds s)
       | Some _ => MSt s s' (dirs s) ((f0, HDir d) :: fds s)
       end).
    + apply mchain_call; unfold TT, TR; auto.
      unfold p. rewrite step_mkdir, walk_parent_snoc.
      assert (Ew : walk (dirs s1) d = WDir).
      { rewrite <- Hw. apply walk_pointwise. apply (ms_dirs _ _ _ _ H1). }
      rewrite Ew. destruct (too_long n) eqn:El; cbn [fst snd]; auto.
      assert (Ev : dview (dirs s1) d = dview (dirs s) d) by (apply dview_pointwise; apply (ms_dirs _ _ _ _ H1)).
      rewrite Ev.
      destruct (eget (dview (dirs s) d) n) eqn:Eg; cbn [fst snd]; auto.
      { split; auto. split; auto. discriminate. }
      split; auto. destruct H1 as [A B C D]. constructor; cbn; auto.
      intros q. unfold dpush, dupd. rewrite !A. reflexivity.
    + intros r s2 H2.
      assert (Hcont : forall D2,
                 MSt s s2 D2 ((f0, HDir d) :: fds s) ->
                 (forall q, q <> d -> q <> p -> D2 q = dirs s q) ->
                 Forall (fun ke : name * ent => ent_ok (length (files s)) (snd ke)) (view (D2 d)) ->
                 Forall (fun ke : name * ent => ent_ok (length (files s)) (snd ke)) (view (D2 p)) ->
                 too_long n = false ->
                 (eget (dview (dirs s) d) n = None -> view (D2 p) = []) ->
                 mchain (do r <- call (SOpenDir p f1);
                         match r with Some e => ret (Some e) | None => fsync_and_close f1 None end) s2 TT TR
                   (fun err s' =>
                      match err with
                      | None => exists D2,
                          eget (view (D2 d)) n = Some EDir /\
                          (forall q, q <> d -> q <> p -> D2 q = dirs s q) /\
                          Forall (fun ke : name * ent => ent_ok (length (files s)) (snd ke)) (view (D2 d)) /\
                          Forall (fun ke : name * ent => ent_ok (length (files s)) (snd ke)) (view (D2 p)) /\
                          too_long n = false /\
                          (eget (dview (dirs s) d) n = None -> view (D2 p) = []) /\
                          MSt s s' (dupd D2 p (mkDir (view (D2 p)) [])) ((f0, HDir d) :: fds s)
                      | Some _ => exists D2, MSt s s' D2 ((f0, HDir d) :: fds s)
                      end)).
      { intros D2 M Hfr B1 B2 Hl Hemp. eapply mchain_weaken; [apply (mkdir_tail s2 D2); auto|].
        intros err s' Hq. destruct err.
        - exists D2. exact Hq.
        - destruct Hq as [He Hm]. exists D2. split; [exact He|]. split; [exact Hfr|]. split; [exact B1|].
          split; [exact B2|]. split; [exact Hl|]. split; [exact Hemp|exact Hm]. }
      destruct r as [e|].
      * destruct e; try (apply mchain_ret; unfold TT; auto; exists (dirs s); exact H2).
        destruct H2 as [Hl [Hne H2]]. apply (Hcont (dirs s)); auto. intros Hx. contradiction.
      * destruct H2 as [Hl H2].
        apply (Hcont (dpush (dupd (dirs s) p empty_dir) d (OLink n EDir))); auto.
        4:{ intros _. rewrite dpush_other by (intros E; apply d_neq_p; auto). rewrite dupd_same. reflexivity. }
        -- intros q Hq1 Hq2. rewrite dpush_other, dupd_other; auto.
        -- rewrite dpush_same. unfold view. cbn [d_dur d_pend]. rewrite dupd_other by apply d_neq_p.
           destruct (Hwf d) as [A B]. apply apply_ops_bound; auto.
           apply Forall_app. split; auto. repeat constructor.
        -- rewrite dpush_other by (intros E; apply d_neq_p; auto). rewrite dupd_same. constructor.
  - (* fsyncAndClose(parent) *)
    intros err s3 H3. destruct err as [e|].
    + destruct H3 as [D2 H3]. unfold fsync_and_close.
      eapply mchain_bind with (Q := fun r s' => r = Some e); [apply mchain_ret; unfold TT; auto|].
      intros r s4 ->. eapply mchain_bind with (Q := fun _ _ => True).
      * apply mchain_call; unfold TT, TR; auto.
      * intros. apply mchain_ret; unfold TT, mkdir_post; auto. discriminate.
    + destruct H3 as [D2 [He [Hfr [B1 [B2 [Hl [Hemp H3]]]]]]]. unfold fsync_and_close.
      set (D3 := dupd D2 p (mkDir (view (D2 p)) [])) in *.
      set (D4 := dupd D3 d (mkDir (view (D3 d)) [])).
      eapply mchain_bind with (Q := fun r s' => r = None /\ MSt s s' D4 ((f0, HDir d) :: fds s)).
      * apply mchain_call; unfold TT, TR; auto.
        unfold step. cbv zeta. rewrite (ms_fds _ _ _ _ H3), fd_get_bind. cbn [fst snd]. split; auto.
        destruct H3 as [A B C D]. constructor; cbn; auto.
        intros q. unfold D4, dupd. rewrite !A. reflexivity.
      * intros r s4 [-> H4].
        eapply mchain_bind with (Q := fun r s' => r = None /\ MSt s s' D4 (fds s)).
        -- apply mchain_call; unfold TT, TR; auto.
           unfold step. cbv zeta. rewrite (ms_fds _ _ _ _ H4), fd_get_bind, fd_del_bind. cbn [fst snd].
           split; auto. destruct H4 as [A B C D]. constructor; cbn; auto.
        -- intros r s5 [-> H5]. apply mchain_ret; unfold TT; auto.
           intros _.
           assert (E3d : D3 d = D2 d) by (unfold D3; apply dupd_other; apply d_neq_p).
           assert (E4d : D4 d = mkDir (view (D2 d)) []) by (unfold D4; rewrite dupd_same, E3d; reflexivity).
           assert (E4p : D4 p = mkDir (view (D2 p)) []).
           { unfold D4. rewrite dupd_other by (intros E; apply d_neq_p; auto). unfold D3. apply dupd_same. }
           assert (E4o : forall q, q <> d -> q <> p -> D4 q = dirs s q).
           { intros q Hq1 Hq2. unfold D4, D3. rewrite !dupd_other; auto. }
           destruct H5 as [A B C D].
           refine (conj _ (conj _ (conj _ (conj B (conj C (conj D (conj _ _))))))).
           ++ (* reachable *)
              unfold p. rewrite walk_snoc.
              assert (Ewd : walk (dirs s5) d = WDir).
              { rewrite <- Hw. apply walk_ext. intros a Ha. rewrite A. apply E4o.
                - apply sprefix_neq; auto.
                - intros ->. destruct Ha as [m [r E]]. unfold p in E.
                  apply (f_equal (@length name)) in E. rewrite !app_length in E. cbn in E. lia. }
              rewrite Ewd, Hl. unfold dview. rewrite A, E4d. unfold view at 1. cbn [d_dur d_pend apply_ops fold_left].
              rewrite He. reflexivity.
           ++ (* durable *)
              intros q. rewrite A.
              destruct (path_eq_dec q d) as [->|Hq1]; [rewrite E4d; apply synced_durable; reflexivity|].
              destruct (path_eq_dec q p) as [->|Hq2]; [rewrite E4p; apply synced_durable; reflexivity|].
              rewrite E4o; auto.
           ++ (* well-formed *)
              intros q. rewrite A, B.
              destruct (path_eq_dec q d) as [->|Hq1]; [rewrite E4d; cbn; split; auto|].
              destruct (path_eq_dec q p) as [->|Hq2]; [rewrite E4p; cbn; split; auto|].
              rewrite E4o; auto.
           ++ intros q Hq1 Hq2. rewrite A. apply E4o; auto.
           ++ intros Hx. unfold dview. rewrite A, E4p. unfold view at 1. cbn [d_dur d_pend apply_ops fold_left].
              apply Hemp. exact Hx.
Qed.

End Mkdir.

Lemma length_removelast {A} (l : list A) : length (removelast l) = length l - 1.
Proof.
  induction l as [|a l IH]; [reflexivity|].
  destruct l as [|b l']; [reflexivity|].
  change (removelast (a :: b :: l')) with (a :: removelast (b :: l')).
  cbn [length] in *. lia.
Qed.

(* more fuel than components does not change MkdirAll: the fuel of the model is never exhausted *)
Lemma mkdir_all_fuel_enough : forall fu1 fu2 p f0 s,
  length p < fu1 -> length p < fu2 -> mkdir_all_fuel fu1 p f0 s = mkdir_all_fuel fu2 p f0 s.
Proof.
  induction fu1 as [|fu1 IH]; intros fu2 p f0 s H1 H2; [lia|].
  destruct fu2 as [|fu2]; [lia|].
  cbn [mkdir_all_fuel]. unfold bind, stat.
  destruct (walk (dirs s) p); try reflexivity.
  destruct p as [|x r]; [reflexivity|].
  assert (Hl : length (parent (x :: r)) < fu1 /\ length (parent (x :: r)) < fu2).
  { unfold parent. rewrite length_removelast. cbn [length] in *. lia. }
  rewrite (IH fu2 (parent (x :: r)) f0 s) by tauto. reflexivity.
Qed.

(* MkdirAll for a single writer *)
Definition mkdir_all_post (s : fs) (p : path) (r : option errno) (s' : fs) : Prop :=
  r = None ->
  walk (dirs s') p = WDir /\ dirs_durable s' /\ wf s' /\
  files s' = files s /\ fds s' = fds s /\ cap s' = cap s /\
  ((s' = s /\ walk (dirs s) p = WDir) \/ dview (dirs s') p = []).

Lemma mkdir_all_fuel_spec : forall fu p f0 s, wf s -> dirs_durable s ->
  mchain (mkdir_all_fuel fu p f0) s TT TR (mkdir_all_post s p).
Proof.
  induction fu as [|fu IH]; intros p f0 s Hwf Hd.
  - cbn [mkdir_all_fuel]. apply mchain_ret; unfold TT, mkdir_all_post; auto. discriminate.
  - cbn [mkdir_all_fuel].
    eapply mchain_bind with (Q := fun w s' => s' = s /\ w = walk (dirs s) p).
    { apply mchain_stat; unfold TT, TR; auto. }
    intros w s1 [-> ->].
    destruct (walk (dirs s) p) eqn:Ew.
    + apply mchain_ret; unfold TT, mkdir_all_post; auto. intros _.
      exact (conj Ew (conj Hd (conj Hwf (conj eq_refl (conj eq_refl (conj eq_refl (or_introl (conj eq_refl Ew)))))))).
    + apply mchain_ret; unfold TT, mkdir_all_post; auto. discriminate.
    + destruct p as [|x r]; [rewrite walk_nil in Ew; discriminate|].
      set (p := x :: r) in *.
      assert (Hp : p <> []) by discriminate.
      eapply mchain_bind with (Q := mkdir_all_post s (parent p)).
      { apply IH; auto. }
      intros r1 s1 H1. destruct r1 as [e1|].
      * apply mchain_ret; unfold TT, mkdir_all_post; auto. discriminate.
      * destruct (H1 eq_refl) as [Hw1 [Hd1 [Hwf1 [Hf1 [Hfd1 [Hc1 Hcase]]]]]].
        rewrite (path_snoc p Hp) at 1.
        eapply mchain_weaken; [apply (mkdir_spec s1 (parent p) (base p) f0 Hwf1 Hd1 Hw1)|].
        intros r2 s2 H2. unfold mkdir_all_post. intros ->.
        destruct (H2 eq_refl) as [Hw2 [Hd2 [Hwf2 [Hf2 [Hfd2 [Hc2 [_ Hemp]]]]]]].
        rewrite <- (path_snoc p Hp) in Hw2, Hemp.
        refine (conj Hw2 (conj Hd2 (conj Hwf2 (conj _ (conj _ (conj _ _)))))); try congruence.
        right.
        (* the new directory did not exist before: it is empty *)
        destruct (too_long (base p)) eqn:El.
        { exfalso. rewrite (path_snoc p Hp), walk_snoc, El in Hw2.
          destruct (walk (dirs s2) (parent p)); discriminate. }
        apply Hemp. destruct Hcase as [[-> Hws]|He1].
        -- rewrite (path_snoc p Hp), walk_snoc, Hws, El in Ew.
           destruct (eget (dview (dirs s) (parent p)) (base p)) as [[j|]|]; try discriminate. reflexivity.
        -- rewrite He1. reflexivity.
Qed.

(* DURABLE DIRECTORIES (single writer): when MkdirAll returns nil, starting from a state in
   which every reachable directory is durably reachable, the directory exists, every reachable
   directory is again durably reachable (in particular all newly created ones, at any depth),
   for every crash choice *)
Theorem mkdir_durable : forall s p f0, wf s -> dirs_durable s ->
  result_of (mkdir_all p f0 s) = None ->
  let s' := state_of (mkdir_all p f0 s) in
  walk (dirs s') p = WDir /\ dirs_durable s' /\ wf s' /\
  (forall c q, walk (dirs s') q = WDir -> walk (dirs (crash s' c)) q = WDir) /\
  files s' = files s /\ fds s' = fds s /\ cap s' = cap s.
Proof.
  intros s p f0 Hwf Hd Hr s'.
  pose proof (mkdir_all_fuel_spec (S (length p)) p f0 s Hwf Hd) as [_ [_ H]].
  fold (mkdir_all p f0) in H. fold s' in H. destruct (H Hr) as [A [B [C [D [E [F _]]]]]].
  refine (conj A (conj B (conj C (conj _ (conj D (conj E F)))))).
  intros c q Hq. apply durable_walk; auto.
Qed.

(* either nothing had to be done, or the directory was created by this call and is empty *)
Lemma mkdir_all_case s p f0 : wf s -> dirs_durable s ->
  result_of (mkdir_all p f0 s) = None ->
  (state_of (mkdir_all p f0 s) = s /\ walk (dirs s) p = WDir) \/
  dview (dirs (state_of (mkdir_all p f0 s))) p = [].
Proof.
  intros Hwf Hd Hr.
  pose proof (mkdir_all_fuel_spec (S (length p)) p f0 s Hwf Hd) as [_ [_ H]].
  fold (mkdir_all p f0) in H. destruct (H Hr) as [_ [_ [_ [_ [_ [_ F]]]]]]. exact F.
Qed.

(* the fast path *)
Lemma mkdir_all_existing s p f0 : walk (dirs s) p = WDir -> mkdir_all p f0 s = (None, s, [SStat p]).
Proof.
  intros H. unfold mkdir_all. cbn [mkdir_all_fuel]. unfold bind, stat, ret. rewrite H. reflexivity.
Qed.

Lemma init_durable cap : dirs_durable (init_fs cap) /\ wf (init_fs cap).
Proof.
  split.
  - intros q. apply synced_durable. reflexivity.
  - intros q. cbn. split; constructor.
Qed.

(* non-vacuity: four new nested directories; after MkdirAll returned they survive the loss of
   every pending operation *)
Example mkdir_all_example :
  let s0 := init_fs false in
  let p := [s2b "a"; s2b "b"; s2b "c"; s2b "d"] in
  let r := mkdir_all p 0 s0 in
  result_of r = None /\ length (trace_of r) = 33 /\
  walk (dirs (crash (state_of r) (choice_of [] []))) p = WDir.
Proof. vm_compute. repeat split; reflexivity. Qed.
