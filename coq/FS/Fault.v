(* FS/Fault.v — write faults. Definitions only.

   In FS/Model.v a write(2) on a regular file never fails, so the error branch that
   durable.WriteFile takes after `_, err = f.Write(data)` is dead code of the model. Here the
   write step is made a parameter: `write_file_with wr` is write_file with the call
   `SWrite fd data` replaced by the computation `wr fd` (ProofsFault.write_file_is_with: taking
   the plain write gives back Model.write_file, by reflexivity), and `faulty_write` is the
   write that the kernel cuts short: only `pre` goes through (RLIMIT_FSIZE, quota, full disk,
   I/O error), then write(2) fails with errno `e`. At the level of the state this is a
   successful short write of `pre` (absent when nothing went through) followed by a failing
   write, which has no effect; `e` stands for EFBIG / ENOSPC / EDQUOT / EIO (the theorems hold
   for every e, the traces do not depend on it).

   upload_gen is upload_with with the same parameter (ProofsFault.upload_is_gen). *)
From SL Require Import Base.Bytes FS.Model.
Import ListNotations.
Open Scope nat_scope.

Definition faulty_write (pre : bytes) (e : errno) (fd : nat) : M (option errno) :=
  match pre with
  | [] => ret (Some e)
  | _ => do _ <- call (SWrite fd pre); ret (Some e)
  end.

Definition plain_write (data : bytes) (fd : nat) : M (option errno) := call (SWrite fd data).

(* durable.WriteFile with the write step `wr` *)
Definition write_file_with (wr : nat -> M (option errno)) (p : path) (perm : N) (sfx : bytes) (fd0 : nat) : M (option errno) :=
  let tmp := parent p ++ [tmp_name (base p) sfx] in
  do r <- call (SOpenDir (parent p) fd0);
  match r with
  | Some e => ret (Some e)
  | None =>
    do err <-
      (match p with
       | [] => ret (Some EINVAL)
       | _ =>
         do r <- call (SCreat tmp (S fd0));
         match r with
         | Some e => ret (Some e)
         | None =>
           do err <-
             (do r <- call (SFchmod (S fd0) perm);
              match r with
              | Some e => do _ <- call (SClose (S fd0)); ret (Some e)
              | None =>
                do werr <- wr (S fd0);
                fsync_and_close (S fd0) werr
              end);
           do err2 <- (match err with None => os_rename tmp p | Some e => ret (Some e) end);
           match err2 with
           | None => ret None
           | Some e => do _ <- os_remove tmp; ret (Some e)
           end
         end
       end);
    fsync_and_close fd0 err
  end.

Definition write_file_fault (pre : bytes) (e : errno) (p : path) (perm : N) (sfx : bytes) (fd0 : nat) : M (option errno) :=
  write_file_with (faulty_write pre e) p perm sfx fd0.

(* LocalBackend.Upload with the write step `wr` *)
Definition upload_gen (wr : nat -> M (option errno)) (loc : bytes -> option path)
    (dir : path) (key data : bytes) (imm : bool) (sfx : bytes) (reads : list nat) (fd0 : nat) : M ures :=
  match loc key with
  | None => ret UBadKey
  | Some name =>
    let p := dir ++ name in
    do r <- mkdir_all (parent p) fd0;
    match r with
    | Some e => ret (UErr e)
    | None =>
      if imm then
        do r <- call (SOpenRead p fd0);
        match r with
        | None =>
          do cr <- compare_fd fd0 data reads;
          do _ <- call (SClose fd0);
          ret cr
        | Some _ =>
          do err <- write_file_with wr p 292 sfx fd0;
          match err with
          | Some e => ret (UErr e)
          | None =>
            do r <- call (SOpenRead p fd0);
            match r with
            | Some e => ret (UErr e)
            | None =>
              do _ <- call (SSetFlags fd0 true);
              do cr <- call (SClose fd0);
              ret (res_of cr)
            end
          end
        end
      else
        do err <- write_file_with wr p 420 sfx fd0;
        ret (res_of err)
    end
  end.

(* Upload of `data` during which write(2) lets only `pre` through and then fails with e *)
Definition upload_fault (pre : bytes) (e : errno)
    (dir : path) (key data : bytes) (imm : bool) (sfx : bytes) (reads : list nat) (fd0 : nat) : M ures :=
  upload_gen (faulty_write pre e) localize dir key data imm sfx reads fd0.
