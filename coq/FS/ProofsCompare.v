(* FS/ProofsCompare.v — compareFile: for every chunking (buffer size >= 1, arbitrary short reads)
   the loop terminates within |file|+1 iterations and answers "equal" exactly when the file
   contents equal the data; with the pre-fix buffer (size 0 for empty data) it never returns. *)
From SL Require Import Base.Bytes Base.BytesProofs FS.Model FS.Lemmas.
From Coq Require Import Lia.
Import ListNotations.
Open Scope nat_scope.

Lemma firstn_skipn_eq {A} n (a b : list A) : firstn n a = firstn n b -> skipn n a = skipn n b -> a = b.
Proof. intros H1 H2. rewrite <- (firstn_skipn n a), <- (firstn_skipn n b). congruence. Qed.

Lemma read_len_bounds buf (f : bytes) want : 1 <= buf -> f <> [] ->
  let n := read_len buf (length (firstn buf f)) want in 1 <= n <= length f.
Proof.
  intros Hb Hf. destruct buf as [|b']; [lia|]. cbn [read_len].
  rewrite firstn_length. destruct f as [|x f']; [congruence|]. cbn [length]. lia.
Qed.

Lemma compare_loop_spec : forall fu buf f data reads, 1 <= buf -> length f < fu ->
  fst (compare_loop fu buf f data reads) = if bytes_eqb f data then COk else CMismatch.
Proof.
  induction fu as [|fu IH]; intros buf f data reads Hb Hf; [lia|].
  cbn [compare_loop].
  destruct f as [|x f'].
  - (* end of file: Read returns (0, io.EOF) *)
    destruct buf as [|b']; [lia|]. cbn [read_len firstn length Nat.min skipn].
    cbn. destruct data; reflexivity.
  - set (f := x :: f') in *.
    pose proof (read_len_bounds buf f (hd buf reads) Hb ltac:(discriminate)) as Hn.
    set (n := read_len buf (length (firstn buf f)) (hd buf reads)) in *. cbv zeta in Hn.
    destruct buf as [|b']; [lia|].
    destruct (Nat.ltb (length (firstn n data)) n) eqn:E1; cbn [orb].
    + (* n > len(data) *)
      cbn [fst]. apply Nat.ltb_lt in E1. rewrite firstn_length in E1.
      rewrite bytes_eqb_neq; auto. intros <-. lia.
    + destruct (bytes_eqb (firstn n f) (firstn n data)) eqn:E2; cbn [negb].
      * apply bytes_eqb_eq in E2.
        change (match f with [] => true | _ :: _ => false end) with false. cbv iota.
        specialize (IH (S b') (skipn n f) (skipn n data) (tl reads) Hb).
        destruct (compare_loop fu (S b') (skipn n f) (skipn n data) (tl reads)) as [r k] eqn:Ec.
        cbn [fst] in *. rewrite IH by (rewrite skipn_length; lia).
        destruct (bytes_eqb (skipn n f) (skipn n data)) eqn:E3.
        -- apply bytes_eqb_eq in E3. rewrite (firstn_skipn_eq n f data E2 E3), bytes_eqb_refl. reflexivity.
        -- rewrite bytes_eqb_neq; auto. intros <-. rewrite bytes_eqb_refl in E3. discriminate.
      * cbn [fst]. rewrite bytes_eqb_neq; auto. intros <-. rewrite bytes_eqb_refl in E2. discriminate.
Qed.

Lemma buf_fixed_pos data : 1 <= buf_fixed data.
Proof. unfold buf_fixed. lia. Qed.

(* the code as it is now *)
Theorem compare_correct : forall f data reads,
  fst (compare_file f data reads) = COk <-> f = data.
Proof.
  intros f data reads. unfold compare_file, compare_fuel.
  rewrite compare_loop_spec by (try apply buf_fixed_pos; lia).
  destruct (bytes_eqb f data) eqn:E.
  - apply bytes_eqb_eq in E. tauto.
  - split; [discriminate|]. intros ->. rewrite bytes_eqb_refl in E. discriminate.
Qed.

Theorem compare_mismatch : forall f data reads,
  f <> data -> fst (compare_file f data reads) = CMismatch.
Proof.
  intros f data reads H. unfold compare_file, compare_fuel.
  rewrite compare_loop_spec by (try apply buf_fixed_pos; lia).
  rewrite bytes_eqb_neq; auto.
Qed.

Theorem compare_terminates : forall f data reads, fst (compare_file f data reads) <> CFuel.
Proof.
  intros f data reads. unfold compare_file, compare_fuel.
  rewrite compare_loop_spec by (try apply buf_fixed_pos; lia).
  destruct (bytes_eqb f data); discriminate.
Qed.

(* the loop never makes more than |file|+1 Read calls *)
Lemma compare_loop_reads : forall fu buf f data reads, snd (compare_loop fu buf f data reads) <= fu.
Proof.
  induction fu as [|fu IH]; intros; cbn [compare_loop]; [cbn; lia|].
  destruct (_ || _); [cbn; lia|].
  destruct (match buf with 0 => false | S _ => match f with [] => true | _ => false end end).
  - destruct (skipn _ data); cbn; lia.
  - specialize (IH buf (skipn (read_len buf (length (firstn buf f)) (hd buf reads)) f)
                   (skipn (read_len buf (length (firstn buf f)) (hd buf reads)) data) (tl reads)).
    destruct (compare_loop fu buf _ _ _) as [r k]. cbn in *. lia.
Qed.

(* the code before the fix: for empty data the buffer is empty, Read returns (0, nil), and the
   loop makes no progress: whatever the fuel, it runs out (and so does the real code's time) *)
Theorem compare_refuted_prefix : forall fuel f reads,
  compare_file_prefix fuel f [] reads = (CFuel, fuel).
Proof.
  unfold compare_file_prefix, buf_prefix. cbn [length Nat.min].
  induction fuel as [|fu IH]; intros f reads; [reflexivity|].
  cbn [compare_loop read_len firstn length Nat.ltb Nat.leb skipn orb negb bytes_eqb].
  cbn. rewrite IH. reflexivity.
Qed.

(* ... while for non-empty data the old code behaved like the new one *)
Theorem compare_prefix_nonempty : forall f data reads, data <> [] ->
  fst (compare_file_prefix (compare_fuel f) f data reads) = if bytes_eqb f data then COk else CMismatch.
Proof.
  intros f data reads H. unfold compare_file_prefix, compare_fuel.
  apply compare_loop_spec; [|lia].
  unfold buf_prefix. destruct data; [congruence|]. cbn [length].
  assert (1 <= chunk) by (unfold chunk; lia). lia.
Qed.

Example compare_examples :
  fst (compare_file (s2b "hello") (s2b "hello") [2; 1; 7]) = COk /\
  fst (compare_file (s2b "hello") (s2b "help") [3]) = CMismatch /\
  fst (compare_file [] [] []) = COk /\
  fst (compare_file (s2b "x") [] []) = CMismatch /\
  fst (compare_file [] (s2b "x") []) = CMismatch /\
  compare_file_prefix 1000 [] [] [] = (CFuel, 1000).
Proof. vm_compute. repeat split; reflexivity. Qed.
