(* FS/ProofsFault.v — durable.WriteFile / LocalBackend.Upload when write(2) on the temporary file
   fails partway (FS/Fault.v): the call returns an error, and at every prefix of its system-call
   trace, with or without a power loss, the target path holds exactly what it held before — no
   partial object is ever visible or durable under the key. *)
From SL Require Import Base.Bytes Base.BytesProofs FS.Model FS.Lemmas FS.Hoare FS.ProofsWrite FS.ProofsMkdir FS.ProofsUpload FS.Proofs FS.Fault.
From Coq Require Import Lia.
Import ListNotations.
Open Scope nat_scope.

(* ---- the parametrised transcriptions are the original ones ---- *)

Lemma write_file_is_with p data perm sfx fd0 :
  write_file p data perm sfx fd0 = write_file_with (plain_write data) p perm sfx fd0.
Proof. reflexivity. Qed.

Lemma upload_is_gen loc dir key data imm sfx reads fd0 :
  upload_with loc dir key data imm sfx reads fd0 = upload_gen (plain_write data) loc dir key data imm sfx reads fd0.
Proof. reflexivity. Qed.

(* ---- small facts about the monad ---- *)

Lemma result_of_bind {A B} (m : M A) (f : A -> M B) s :
  result_of (bind m f s) = result_of (f (result_of (m s)) (state_of (m s))).
Proof.
  unfold bind, result_of, state_of. destruct (m s) as [[a s1] t1]. cbn.
  destruct (f a s1) as [[b0 s2] t2]. reflexivity.
Qed.

Lemma mchain_post {A} (m : M A) s (P : fs -> Prop) (R : fs -> fs -> Prop) (Post Post' : A -> fs -> Prop) :
  mchain m s P R Post -> Post' (result_of (m s)) (state_of (m s)) -> mchain m s P R Post'.
Proof. unfold mchain. tauto. Qed.

Lemma fsync_and_close_err_result fd e s : result_of (fsync_and_close fd (Some e) s) = Some e.
Proof.
  unfold fsync_and_close. rewrite result_of_bind. cbn [ret result_of state_of fst snd].
  rewrite result_of_bind. reflexivity.
Qed.

(* the flattened form for a path with at least one component *)
Definition write_file_fault' (pre : bytes) (e : errno) (d : path) (b : name) (perm : N) (sfx : bytes) (f0 : nat) : M (option errno) :=
  let tmp := d ++ [tmp_name b sfx] in
  do r <- call (SOpenDir d f0);
  match r with
  | Some e => ret (Some e)
  | None =>
    do err <-
      (do r <- call (SCreat tmp (S f0));
       match r with
       | Some e => ret (Some e)
       | None =>
         do err <-
           (do r <- call (SFchmod (S f0) perm);
            match r with
            | Some e => do _ <- call (SClose (S f0)); ret (Some e)
            | None =>
              do werr <- faulty_write pre e (S f0);
              fsync_and_close (S f0) werr
            end);
         do err2 <- (match err with None => os_rename tmp (d ++ [b]) | Some e => ret (Some e) end);
         match err2 with
         | None => ret None
         | Some e => do _ <- os_remove tmp; ret (Some e)
         end
       end);
    fsync_and_close f0 err
  end.

Lemma write_file_fault_snoc pre e d b perm sfx f0 :
  write_file_fault pre e (d ++ [b]) perm sfx f0 = write_file_fault' pre e d b perm sfx f0.
Proof.
  unfold write_file_fault, write_file_with, write_file_fault'. rewrite parent_snoc, base_snoc.
  destruct (d ++ [b]) eqn:E.
  - exfalso. eapply snoc_not_nil; eauto.
  - reflexivity.
Qed.

Section Fault.

Variable s0 : fs.
Variables (d : path) (b : name) (data : bytes) (e : errno) (perm : N) (sfx : bytes) (f0 : nat).
Hypothesis Hwf : wf s0.

Let t := tmp_name b sfx.
Let i := length (files s0).
Let f1 := S f0.
Let tmp := d ++ [t].
Let LINK := OLink t (EFile i).

Local Notation ShapeL := (Shape s0 d).
Local Notation GoodL := (Good s0 d b data sfx).
Local Notation RstepL := (Rstep s0 d b).
Local Notation tpL := (tp_op s0 b sfx).

Lemma tp_link1 : Forall tpL [LINK].
Proof. constructor; [apply tp_link|constructor]. Qed.

Lemma good_noren s ops fl fdl : ShapeL s ops false fl fdl -> Forall tpL ops -> has_ren ops = false -> GoodL s.
Proof. intros H Ho Hr. eapply good_shape; eauto. apply safe_no_ren; auto. Qed.

Lemma rstep_noren s ops fl fdl s' ops' fl' fdl' :
  ShapeL s ops false fl fdl -> ShapeL s' ops' false fl' fdl' -> Forall tpL ops -> Forall tpL ops' ->
  has_ren ops = false -> RstepL s s'.
Proof.
  intros H H' Ho Ho' Hr. eapply (rstep_shapes s0 d b sfx Hwf); eauto. rewrite Hr. discriminate.
Qed.

(* chmod done, the temporary file is empty: the faulty write, then fsyncAndClose with the error *)
Lemma fault_block pre s :
  ShapeL s [LINK] false [mkFile [] None perm false] ((f1, HFile i) :: (f0, HDir d) :: fds s0) ->
  mchain (do werr <- faulty_write pre e f1; fsync_and_close f1 werr) s GoodL RstepL
    (fun r s' => r = Some e /\ exists fl, ShapeL s' [LINK] false fl ((f0, HDir d) :: fds s0)).
Proof.
  intros H.
  assert (G : GoodL s) by (eapply good_noren; eauto using tp_link1).
  (* fsyncAndClose with an error: no fsync, close *)
  assert (CL : forall s1 fl, ShapeL s1 [LINK] false fl ((f1, HFile i) :: (f0, HDir d) :: fds s0) ->
            mchain (fsync_and_close f1 (Some e)) s1 GoodL RstepL
              (fun r s' => r = Some e /\ exists fl, ShapeL s' [LINK] false fl ((f0, HDir d) :: fds s0))).
  { intros s1 fl H1. unfold fsync_and_close.
    assert (G1 : GoodL s1) by (eapply good_noren; eauto using tp_link1).
    eapply mchain_bind with (Q := fun r s' => r = Some e /\ s' = s1); [apply mchain_ret; auto|].
    intros r s2 [-> ->].
    assert (E : step (SClose f1) s1 = (set_fds s1 ((f0, HDir d) :: fds s0), None)).
    { unfold step. cbv zeta. rewrite (sh_fds _ _ _ _ _ _ _ H1), fd_get_bind, fd_del_bind. reflexivity. }
    pose proof (shape_set_fds _ _ _ _ _ _ _ ((f0, HDir d) :: fds s0) H1) as H1'.
    eapply mchain_bind with (Q := fun _ s' => ShapeL s' [LINK] false fl ((f0, HDir d) :: fds s0)).
    - apply mchain_call; try rewrite E; cbn [fst snd]; auto.
      + eapply rstep_noren; eauto using tp_link1.
      + eapply good_noren; eauto using tp_link1.
    - intros _ s3 H3. apply mchain_ret.
      + eapply good_noren; eauto using tp_link1.
      + split; auto. exists fl. exact H3. }
  unfold faulty_write. destruct pre as [|x pre'].
  - eapply mchain_bind with (Q := fun r s' => r = Some e /\ s' = s); [apply mchain_ret; auto|].
    intros r s1 [-> ->]. eapply CL; eauto.
  - set (w := x :: pre').
    assert (E : step (SWrite f1 w) s =
                (set_files s (fupd (files s) i (fun f => mkFile (f_dur f) (Some (fcontent f ++ w)) (f_perm f) (f_imm f))), None)).
    { unfold step. cbv zeta. rewrite (sh_fds _ _ _ _ _ _ _ H), fd_get_bind. reflexivity. }
    pose proof (shape_fupd _ _ _ _ _ _ _ (fun f => mkFile (f_dur f) (Some (fcontent f ++ w)) (f_perm f) (f_imm f)) H) as H'.
    eapply mchain_bind with (Q := fun r s' => r = Some e /\ exists fl, ShapeL s' [LINK] false fl ((f1, HFile i) :: (f0, HDir d) :: fds s0)).
    + eapply mchain_bind with (Q := fun _ s' => exists fl, ShapeL s' [LINK] false fl ((f1, HFile i) :: (f0, HDir d) :: fds s0)).
      * apply mchain_call; try rewrite E; cbn [fst snd]; auto.
        -- eapply rstep_noren; eauto using tp_link1.
        -- eapply good_noren; eauto using tp_link1.
        -- eexists. exact H'.
      * intros _ s1 [fl H1]. apply mchain_ret.
        -- eapply good_noren; eauto using tp_link1.
        -- split; auto. exists fl. exact H1.
    + intros r s1 [-> [fl H1]]. eapply CL; eauto.
Qed.

Theorem write_fault_chain pre :
  mchain (write_file_fault' pre e d b perm sfx f0) s0 GoodL RstepL (fun r _ => r <> None).
Proof.
  unfold write_file_fault'. fold t. fold tmp. fold f1.
  assert (G0 : GoodL s0).
  { eapply good_noren; [apply shape_init| |]; auto. }
  (* open the parent directory *)
  eapply mchain_bind with (Q := fun r s' =>
     match r with None => ShapeL s' [] false [] ((f0, HDir d) :: fds s0) | Some _ => s' = s0 end).
  { apply mchain_call; auto; rewrite step_opendir; destruct (walk (dirs s0) d); cbn [fst snd]; auto;
      try apply rstep_refl.
    - eapply rstep_noren; [apply shape_init|apply shape_bind_fd; apply shape_init| | |]; auto.
    - eapply good_noren; [apply shape_bind_fd; apply shape_init| |]; auto.
    - apply shape_bind_fd. apply shape_init. }
  intros r s1 H1. destruct r as [e1|]; [subst s1; apply mchain_ret; auto; discriminate|].
  assert (G1 : GoodL s1) by (eapply good_noren; eauto).
  eapply mchain_bind with (Q := fun err s' =>
     err <> None /\ exists ops fl, ShapeL s' ops false fl ((f0, HDir d) :: fds s0) /\ Forall tpL ops /\ has_ren ops = false).
  2:{ intros err s2 [He [ops [fl [H2 [Ho Hr]]]]]. destruct err as [e2|]; [|congruence].
      eapply mchain_post; [eapply (fac_parent_err s0 d b data perm sfx f0 Hwf); eauto|].
      cbv beta. rewrite fsync_and_close_err_result. discriminate. }
  (* create the temporary file *)
  eapply mchain_bind with (Q := fun r s' =>
     match r with
     | None => ShapeL s' [LINK] false [new_file] ((f1, HFile i) :: (f0, HDir d) :: fds s0)
     | Some _ => s' = s1
     end).
  { unfold tmp. pose proof (step_creat s1 d t f1) as E.
    destruct (step (SCreat (d ++ [t]) f1) s1) as [s' r] eqn:Es.
    pose proof (shape_creat s0 d b sfx _ _ f1 H1) as Hc. rewrite (sh_fds _ _ _ _ _ _ _ H1) in Hc.
    assert (Hs' : (s' = s1 /\ r <> None) \/
                  (s' = mkFs (dpush (dirs s1) d (OLink t (EFile (length (files s1))))) (files s1 ++ [new_file])
                             ((f1, HFile (length (files s1))) :: (f0, HDir d) :: fds s0) (cap s1) /\ r = None)).
    { revert E. rewrite (sh_fds _ _ _ _ _ _ _ H1).
      destruct (walk_parent (dirs s1) (d ++ [t])); [intros [= -> ->]; left; split; auto; discriminate|].
      destruct (too_long t); [intros [= -> ->]; left; split; auto; discriminate|].
      destruct (eget (dview (dirs s1) d) t); intros [= -> ->]; [left; split; auto; discriminate|right; auto]. }
    apply mchain_call; try rewrite Es; cbn [fst snd]; auto.
    - destruct Hs' as [[-> _]|[-> _]]; [apply rstep_refl|].
      eapply rstep_noren; eauto using tp_link1.
    - destruct Hs' as [[-> _]|[-> _]]; auto.
      eapply good_noren; eauto using tp_link1.
    - destruct Hs' as [[-> Hr]|[-> ->]]; auto. destruct r; congruence. }
  intros r s2 H2. destruct r as [e2|].
  { subst s2. apply mchain_ret; auto. split; [discriminate|]. exists [], []. auto. }
  assert (G2 : GoodL s2) by (eapply good_noren; eauto using tp_link1).
  (* chmod, the faulty write, close *)
  eapply mchain_bind with (Q := fun err s' =>
     err <> None /\ exists fl, ShapeL s' [LINK] false fl ((f0, HDir d) :: fds s0)).
  { assert (E : step (SFchmod f1 perm) s2 =
                (set_files s2 (fupd (files s2) i (fun f => mkFile (f_dur f) (f_vol f) perm (f_imm f))), None)).
    { unfold step. cbv zeta. rewrite (sh_fds _ _ _ _ _ _ _ H2), fd_get_bind. reflexivity. }
    pose proof (shape_fupd _ _ _ _ _ _ _ (fun f => mkFile (f_dur f) (f_vol f) perm (f_imm f)) H2) as H3.
    cbn [new_file f_dur f_vol f_imm] in H3.
    eapply mchain_bind with (Q := fun r s' => r = None /\
        ShapeL s' [LINK] false [mkFile [] None perm false] ((f1, HFile i) :: (f0, HDir d) :: fds s0)).
    { apply mchain_call; try rewrite E; cbn [fst snd]; auto.
      - eapply rstep_noren; eauto using tp_link1.
      - eapply good_noren; eauto using tp_link1. }
    intros r s3 [-> H3'].
    eapply mchain_weaken; [apply (fault_block pre _ H3')|].
    intros a s' [-> Hs]. split; [discriminate|exact Hs]. }
  intros err s5 [He [fl H5]].
  destruct err as [e5|]; [|congruence].
  eapply mchain_bind with (Q := fun r s' => r = Some e5 /\ s' = s5).
  { apply mchain_ret; auto. eapply good_noren; eauto using tp_link1. }
  intros r s6 [-> ->].
  eapply mchain_bind; [apply (remove_tmp s0 d b data sfx Hwf _ _ _ _ H5); auto using tp_link1|].
  intros _ s7 [ops' [H7 [Ho7 Hr7]]].
  apply mchain_ret.
  - eapply good_noren; eauto.
  - split; [discriminate|]. exists ops', fl. auto.
Qed.

End Fault.

(* ---------------------------------------------------------------------------------------- *)
(* the theorems, for every state, path, prefix that went through, errno, oracle, prefix of the *)
(* trace and crash choice                                                                      *)
(* ---------------------------------------------------------------------------------------- *)

Lemma write_fault_good s0 p data pre e perm sfx f0 : wf s0 -> p <> [] ->
  mchain (write_file_fault pre e p perm sfx f0) s0
         (Good s0 (parent p) (base p) data sfx) (Rstep s0 (parent p) (base p)) (fun r _ => r <> None).
Proof.
  intros Hwf Hp. rewrite (path_snoc p Hp) at 1. rewrite write_file_fault_snoc.
  apply (write_fault_chain s0 (parent p) (base p) data e perm sfx f0 Hwf).
Qed.

(* ERROR RETURNED: a WriteFile whose write(2) failed never returns nil *)
Theorem write_fault_returns_error : forall s0 p pre e perm sfx f0, wf s0 ->
  result_of (write_file_fault pre e p perm sfx f0 s0) <> None.
Proof.
  intros s0 p pre e perm sfx f0 Hwf.
  destruct (path_eq_dec p []) as [->|Hp].
  - unfold write_file_fault, write_file_with. rewrite result_of_bind.
    destruct (result_of (call (SOpenDir (parent []) f0) s0)); [cbn; discriminate|].
    rewrite result_of_bind. cbn [ret result_of state_of fst snd].
    rewrite fsync_and_close_err_result. discriminate.
  - pose proof (write_fault_good s0 p [] pre e perm sfx f0 Hwf Hp) as [_ [_ H]]. exact H.
Qed.

(* DESTINATION UNTOUCHED, every power-loss point: at every prefix of the system-call trace and
   for every crash choice the target path holds exactly what it would hold had the machine
   crashed (same choice) before the call started: the previous object or nothing, never the part
   that was written *)
Theorem write_fault_untouched : forall s0 p pre e perm sfx f0 k c, wf s0 ->
  let T := trace_of (write_file_fault pre e p perm sfx f0 s0) in
  read_path (crash (exec (firstn k T) s0) c) p = read_path (crash s0 c) p.
Proof.
  intros s0 p pre e perm sfx f0 k c Hwf T.
  destruct (path_eq_dec p []) as [->|Hp]; [reflexivity|].
  (* the invariant holds for every candidate "new contents": instantiate it twice *)
  pose proof (write_fault_good s0 p [x00] pre e perm sfx f0 Hwf Hp) as [Ha _].
  pose proof (write_fault_good s0 p [x01] pre e perm sfx f0 Hwf Hp) as [Hb _].
  pose proof (chain_prefix _ _ _ _ k Ha) as Ga. pose proof (chain_prefix _ _ _ _ k Hb) as Gb.
  fold T in Ga, Gb.
  pose proof (good_crash s0 (parent p) (base p) [x00] sfx Hwf _ Ga c) as Ra.
  pose proof (good_crash s0 (parent p) (base p) [x01] sfx Hwf _ Gb c) as Rb.
  rewrite <- (path_snoc p Hp) in Ra, Rb.
  destruct Ra as [Ra|Ra]; auto. destruct Rb as [Rb|Rb]; auto. rewrite Ra in Rb. discriminate.
Qed.

(* READERS: at every prefix a reader finds under the path what was there before the call *)
Theorem write_fault_readers : forall s0 p pre e perm sfx f0 k, wf s0 ->
  let T := trace_of (write_file_fault pre e p perm sfx f0 s0) in
  read_path (exec (firstn k T) s0) p = read_path s0 p.
Proof.
  intros s0 p pre e perm sfx f0 k Hwf T.
  destruct (path_eq_dec p []) as [->|Hp]; [reflexivity|].
  pose proof (write_fault_good s0 p [x00] pre e perm sfx f0 Hwf Hp) as [Ha _].
  pose proof (write_fault_good s0 p [x01] pre e perm sfx f0 Hwf Hp) as [Hb _].
  pose proof (chain_prefix _ _ _ _ k Ha) as Ga. pose proof (chain_prefix _ _ _ _ k Hb) as Gb.
  fold T in Ga, Gb.
  pose proof (good_read s0 (parent p) (base p) [x00] sfx Hwf _ Ga) as Ra.
  pose proof (good_read s0 (parent p) (base p) [x01] sfx Hwf _ Gb) as Rb.
  rewrite <- (path_snoc p Hp) in Ra, Rb.
  destruct Ra as [Ra|Ra]; auto. destruct Rb as [Rb|Rb]; auto. rewrite Ra in Rb. discriminate.
Qed.

(* the final state, also after a power loss *)
Corollary write_fault_final : forall s0 p pre e perm sfx f0 c, wf s0 ->
  let s' := state_of (write_file_fault pre e p perm sfx f0 s0) in
  read_path s' p = read_path s0 p /\ read_path (crash s' c) p = read_path (crash s0 c) p.
Proof.
  intros s0 p pre e perm sfx f0 c Hwf s'.
  set (T := trace_of (write_file_fault pre e p perm sfx f0 s0)).
  assert (Es : s' = exec (firstn (length T) T) s0).
  { rewrite firstn_all. destruct (path_eq_dec p []) as [->|Hp].
    - unfold s', T, write_file_fault, write_file_with.
      apply sound_bind; [apply sound_call|]. intros [e1|]; [apply sound_ret|].
      apply sound_bind; [apply sound_ret|]. intros a. unfold fsync_and_close.
      apply sound_bind; [destruct a; [apply sound_ret|apply sound_call]|].
      intros a1. apply sound_bind; [apply sound_call|]. intros a2. apply sound_ret.
    - pose proof (write_fault_good s0 p [] pre e perm sfx f0 Hwf Hp) as [_ [H _]]. exact H. }
  rewrite Es. split.
  - apply write_fault_readers; auto.
  - apply write_fault_untouched; auto.
Qed.

(* ---- Upload ---- *)

Lemma upload_fault_unfold pre e dir key name data imm sfx reads f0 : localize key = Some name ->
  upload_fault pre e dir key data imm sfx reads f0 =
  (let p := dir ++ name in
   do r <- mkdir_all (parent p) f0;
   match r with
   | Some e1 => ret (UErr e1)
   | None =>
     if imm then
       do r <- call (SOpenRead p f0);
       match r with
       | None => do cr <- compare_fd f0 data reads; do _ <- call (SClose f0); ret cr
       | Some _ =>
         do err <- write_file_fault pre e p 292 sfx f0;
         match err with
         | Some e1 => ret (UErr e1)
         | None =>
           do r <- call (SOpenRead p f0);
           match r with
           | Some e1 => ret (UErr e1)
           | None => do _ <- call (SSetFlags f0 true); do cr <- call (SClose f0); ret (res_of cr)
           end
         end
       end
     else
       do err <- write_file_fault pre e p 420 sfx f0;
       ret (res_of err)
   end).
Proof. intros H. unfold upload_fault, upload_gen. rewrite H. reflexivity. Qed.

(* a mutable Upload (checkpoint, staging bundle) whose write failed never returns nil *)
Theorem upload_fault_mutable_fails : forall s dir key data pre e sfx reads f0,
  wf s -> dirs_durable s ->
  result_of (upload_fault pre e dir key data false sfx reads f0 s) <> UOk.
Proof.
  intros s dir key data pre e sfx reads f0 Hwf Hd.
  destruct (localize key) as [name|] eqn:Hloc.
  - rewrite (upload_fault_unfold _ _ _ _ _ _ _ _ _ _ Hloc). cbv zeta.
    rewrite result_of_bind.
    destruct (result_of (mkdir_all (parent (dir ++ name)) f0 s)) as [e1|] eqn:Hr; [cbn; discriminate|].
    destruct (mkdir_durable s _ f0 Hwf Hd Hr) as [_ [_ [Hwf' _]]].
    rewrite result_of_bind.
    pose proof (write_fault_returns_error _ (dir ++ name) pre e 420 sfx f0 Hwf') as Hne.
    destruct (result_of (write_file_fault pre e (dir ++ name) 420 sfx f0 (state_of (mkdir_all (parent (dir ++ name)) f0 s)))); [cbn; discriminate|congruence].
  - unfold upload_fault, upload_gen. rewrite Hloc. cbn. discriminate.
Qed.

(* Upload to a key that holds no object, in an existing directory, mutable or immutable (a new
   tile, a new staging bundle): it fails, and at every power-loss point nothing is under the key *)
Theorem upload_fault_new_object : forall s dir key name data pre e imm sfx reads f0 err k c,
  wf s -> localize key = Some name ->
  walk (dirs s) (parent (dir ++ name)) = WDir -> walk (dirs s) (dir ++ name) = WErr err ->
  let r := upload_fault pre e dir key data imm sfx reads f0 s in
  result_of r <> UOk /\
  read_path (crash (exec (firstn k (trace_of r)) s) c) (dir ++ name) = read_path (crash s c) (dir ++ name).
Proof.
  intros s dir key name data pre e imm sfx reads f0 err k c Hwf Hloc Hw Hne r.
  set (p := dir ++ name) in *.
  set (W := write_file_fault pre e p (if imm then 292%N else 420%N) sfx f0 s).
  set (head := if imm then [SStat (parent p); SOpenRead p f0] else [SStat (parent p)]).
  assert (Eo : step (SOpenRead p f0) s = (s, Some err)).
  { unfold step. cbv zeta. rewrite Hne. reflexivity. }
  assert (ER : result_of r <> UOk /\ trace_of r = head ++ trace_of W).
  { assert (Er : exists u s2, u <> UOk /\ r = (u, s2, head ++ trace_of W)).
    { pose proof (write_fault_returns_error s p pre e (if imm then 292%N else 420%N) sfx f0 Hwf) as Hr. fold W in Hr.
      unfold r. rewrite (upload_fault_unfold _ _ _ _ _ _ _ _ _ _ Hloc). cbv zeta. fold p.
      unfold bind at 1. rewrite (mkdir_all_existing _ _ _ Hw). cbv beta iota.
      unfold head, W in *. destruct imm.
      - unfold bind, call, ret. cbv beta. rewrite Eo. cbv beta iota.
        unfold result_of, trace_of in *.
        destruct (write_file_fault pre e p 292 sfx f0 s) as [[er s2] T2]. cbn [fst snd] in *.
        destruct er as [e1|]; [|congruence]. exists (UErr e1), s2. split; [discriminate|].
        cbn [app]. rewrite !app_nil_r. reflexivity.
      - unfold bind, ret. cbv beta.
        unfold result_of, trace_of in *.
        destruct (write_file_fault pre e p 420 sfx f0 s) as [[er s2] T2]. cbn [fst snd] in *.
        destruct er as [e1|]; [|congruence]. exists (UErr e1), s2. split; [discriminate|].
        cbn [app res_of]. rewrite !app_nil_r. reflexivity. }
    destruct Er as [u [s2 [Hu Er]]]. rewrite Er. split; [exact Hu|reflexivity]. }
  destruct ER as [E1 E2]. split; [exact E1|]. rewrite E2.
  assert (Eh : forall j, exec (firstn j head) s = s).
  { assert (A : exec1 (SStat (parent p)) s = s) by (unfold exec1; cbn; rewrite Hw; reflexivity).
    assert (B : exec1 (SOpenRead p f0) s = s) by (unfold exec1; rewrite Eo; reflexivity).
    intros j. unfold head. destruct imm.
    - destruct j as [|[|j]]; cbn [firstn]; rewrite ?exec_cons, ?exec_nil, ?A, ?B; try reflexivity.
      rewrite firstn_nil, exec_nil. reflexivity.
    - destruct j as [|j]; cbn [firstn]; rewrite ?exec_cons, ?exec_nil, ?A; try reflexivity.
      rewrite firstn_nil, exec_nil. reflexivity. }
  rewrite firstn_app, exec_app, Eh. apply write_fault_untouched. exact Hwf.
Qed.

(* ---- non-vacuity: a concrete faulted overwrite ---- *)

Definition fx_dir : path := [s2b "store"].
Definition fx_p : path := fx_dir ++ [s2b "checkpoint"].
Definition fx_tmp : path := fx_dir ++ [tmp_name (s2b "checkpoint") (s2b "2")].
(* a reachable state with store/checkpoint = "old" *)
Definition fx_T : list sys :=
  SMkdir fx_dir :: trace_of (write_file fx_p (s2b "old") 420 (s2b "1") 0 (exec [SMkdir fx_dir] (init_fs false))).
Definition fx_s0 : fs := exec fx_T (init_fs false).

Example write_fault_example :
  let r := write_file_fault (s2b "ne") EINVAL fx_p 420 (s2b "2") 0 fx_s0 in
  wf fx_s0 /\
  read_path fx_s0 fx_p = Some (s2b "old") /\
  result_of r = Some EINVAL /\
  trace_of r = [SOpenDir fx_dir 0; SCreat fx_tmp 1; SFchmod 1 420; SWrite 1 (s2b "ne"); SClose 1; SUnlink fx_tmp; SClose 0] /\
  read_path (state_of r) fx_p = Some (s2b "old") /\
  eget (dview (dirs (state_of r)) fx_dir) (tmp_name (s2b "checkpoint") (s2b "2")) = None /\
  (* nothing went through: no write call at all *)
  trace_of (write_file_fault [] EINVAL fx_p 420 (s2b "2") 0 fx_s0) =
    [SOpenDir fx_dir 0; SCreat fx_tmp 1; SFchmod 1 420; SClose 1; SUnlink fx_tmp; SClose 0] /\
  (* the unfaulted call on the same state does replace the object *)
  read_path (state_of (write_file fx_p (s2b "new") 420 (s2b "2") 0 fx_s0)) fx_p = Some (s2b "new").
Proof.
  cbv zeta. split; [apply reachable_wf|].
  vm_compute. repeat split; reflexivity.
Qed.
