(* FS/Proofs.v — entry point of the C13 proofs: re-exports the theorem files and shows that the
   well-formedness hypothesis of the theorems holds in every reachable state. *)
From SL Require Export Base.Bytes FS.Model FS.Lemmas FS.Hoare FS.ProofsWrite FS.ProofsMkdir FS.ProofsCompare FS.ProofsUpload.
From SL Require Import Base.BytesProofs.
From Coq Require Import Lia.
Import ListNotations.
Open Scope nat_scope.

Lemma ent_ok_mono n m e : n <= m -> ent_ok n e -> ent_ok m e.
Proof. destruct e; cbn; intros; lia || auto. Qed.

Lemma op_ok_mono n m o : n <= m -> op_ok n o -> op_ok m o.
Proof. destruct o as [k e|k|a b i]; cbn; intros; try lia; auto. eapply ent_ok_mono; eauto. Qed.

Definition dwf (n : nat) (ds : dmap) : Prop :=
  forall q, Forall (fun ke : name * ent => ent_ok n (snd ke)) (d_dur (ds q)) /\ Forall (op_ok n) (d_pend (ds q)).

Lemma dwf_mono n m ds : n <= m -> dwf n ds -> dwf m ds.
Proof.
  intros Hl H q. destruct (H q) as [A B]. split.
  - eapply Forall_impl; [|exact A]. intros ke. apply ent_ok_mono. exact Hl.
  - eapply Forall_impl; [|exact B]. intros o. apply op_ok_mono. exact Hl.
Qed.

Lemma dwf_dupd n ds p d : dwf n ds ->
  Forall (fun ke : name * ent => ent_ok n (snd ke)) (d_dur d) -> Forall (op_ok n) (d_pend d) ->
  dwf n (dupd ds p d).
Proof.
  intros H A B q. destruct (path_eq_dec q p) as [->|Hq].
  - rewrite dupd_same. auto.
  - rewrite dupd_other by auto. apply H.
Qed.

Lemma dwf_dpush n ds p o : dwf n ds -> op_ok n o -> dwf n (dpush ds p o).
Proof.
  intros H Ho. unfold dpush. destruct (H p) as [A B]. apply dwf_dupd; auto.
  cbn. apply Forall_app. auto.
Qed.

Lemma dwf_view n ds q : dwf n ds -> Forall (fun ke : name * ent => ent_ok n (snd ke)) (dview ds q).
Proof. intros H. destruct (H q) as [A B]. unfold dview, view. apply apply_ops_bound; auto. Qed.

Lemma dwf_eget n ds q k i : dwf n ds -> eget (dview ds q) k = Some (EFile i) -> i < n.
Proof. intros H. apply eget_bound. apply dwf_view. exact H. Qed.

(* every system call preserves well-formedness *)
Theorem step_wf : forall c s, wf s -> wf (exec1 c s).
Proof.
  intros c s H. unfold exec1, step. cbv zeta.
  assert (H0 : dwf (length (files s)) (dirs s)) by exact H.
  destruct c; cbn [fst]; unfold ok, fail;
    repeat match goal with
           | |- context [match ?x with _ => _ end] => destruct x eqn:?; cbn [fst]
           end; auto;
    unfold wf, set_dirs, set_files, set_fds, bind_fd; cbn [dirs files];
    rewrite ?fupd_length, ?app_length; cbn [length];
    repeat first
      [ exact H0
      | apply dwf_dpush
      | apply dwf_dupd
      | (apply (dwf_mono (length (files s))); [lia|])
      | exact I
      | (cbn [op_ok ent_ok d_dur d_pend empty_dir]; constructor)
      | (cbn [op_ok ent_ok]; lia)
      | (cbn [op_ok ent_ok]; eapply dwf_eget; [exact H0|eassumption])
      | (cbn [d_dur d_pend]; apply (dwf_view _ _ _ H0)) ].
Qed.

Theorem exec_wf : forall t s, wf s -> wf (exec t s).
Proof.
  induction t as [|c t IH]; intros s H; [exact H|]. rewrite exec_cons. apply IH. apply step_wf. exact H.
Qed.

Theorem reachable_wf : forall t cap, wf (exec t (init_fs cap)).
Proof. intros. apply exec_wf. apply (proj2 (init_durable cap)). Qed.

(* a power loss leaves a well-formed state in which every reachable directory is durable *)
Theorem crash_wf : forall s c, wf s -> wf (crash s c) /\ dirs_durable (crash s c).
Proof.
  intros s c H. split.
  - intros q. rewrite crash_dirs. cbn [crash_dir d_dur d_pend].
    assert (El : length (files (crash s c)) = length (files s)).
    { unfold crash. cbn [files]. generalize 0. induction (files s); intros; cbn; auto. }
    rewrite El. destruct (H q) as [A B]. split; [|constructor].
    apply apply_ops_bound; auto. apply select_forall. auto.
  - intros q. apply synced_durable. reflexivity.
Qed.
