(* FS/Lemmas.v — basic facts about the model of FS/Model.v: entry maps, pending-operation
   selection, path resolution, crash. *)
From SL Require Import Base.Bytes Base.BytesProofs FS.Model.
From Coq Require Import Lia.
Import ListNotations.
Open Scope nat_scope.

Arguments too_long : simpl never.
Arguments chunk : simpl never.

(* ---- equality tests ---- *)

Lemma path_eqb_eq a : forall b, path_eqb a b = true <-> a = b.
Proof.
  induction a as [|x a IH]; intros [|y b]; cbn; split; try congruence; try discriminate.
  - rewrite andb_true_iff, bytes_eqb_eq, IH. intros [-> ->]. reflexivity.
  - intros H. injection H as -> ->. rewrite andb_true_iff, bytes_eqb_eq, IH. auto.
Qed.

Lemma path_eqb_refl a : path_eqb a a = true.
Proof. apply path_eqb_eq. reflexivity. Qed.

Lemma path_eqb_neq a b : a <> b -> path_eqb a b = false.
Proof. intros H. destruct (path_eqb a b) eqn:E; auto. apply path_eqb_eq in E. contradiction. Qed.

Lemma bytes_eqb_neq (a b : bytes) : a <> b -> bytes_eqb a b = false.
Proof. intros H. destruct (bytes_eqb a b) eqn:E; auto. apply bytes_eqb_eq in E. contradiction. Qed.

Lemma bytes_eq_dec (a b : bytes) : {a = b} + {a <> b}.
Proof. destruct (bytes_eqb a b) eqn:E; [left; apply bytes_eqb_eq; auto | right; intros ->; rewrite bytes_eqb_refl in E; discriminate]. Qed.

Lemma path_eq_dec (a b : path) : {a = b} + {a <> b}.
Proof. destruct (path_eqb a b) eqn:E; [left; apply path_eqb_eq; auto | right; intros ->; rewrite path_eqb_refl in E; discriminate]. Qed.

(* ---- entry maps ---- *)

Lemma eget_edel_same es n : eget (edel es n) n = None.
Proof.
  induction es as [|[k e] r IH]; cbn; auto.
  destruct (bytes_eqb k n) eqn:E; auto. cbn. rewrite E. auto.
Qed.

Lemma eget_edel_other es n m : n <> m -> eget (edel es n) m = eget es m.
Proof.
  intros H. induction es as [|[k e] r IH]; cbn; auto.
  destruct (bytes_eqb k n) eqn:E.
  - apply bytes_eqb_eq in E. subst k. rewrite (bytes_eqb_neq n m H). auto.
  - cbn. rewrite IH. reflexivity.
Qed.

Lemma eget_eset_same es n e : eget (eset es n e) n = Some e.
Proof. unfold eset. cbn. rewrite bytes_eqb_refl. reflexivity. Qed.

Lemma eget_eset_other es n m e : n <> m -> eget (eset es n e) m = eget es m.
Proof. intros H. unfold eset. cbn. rewrite (bytes_eqb_neq n m H). apply eget_edel_other; auto. Qed.

Lemma apply_ops_app a b es : apply_ops (a ++ b) es = apply_ops b (apply_ops a es).
Proof. unfold apply_ops. apply fold_left_app. Qed.

Lemma apply_ops_nil es : apply_ops [] es = es.
Proof. reflexivity. Qed.

Lemma apply_ops_cons o r es : apply_ops (o :: r) es = apply_ops r (apply_op es o).
Proof. reflexivity. Qed.

(* names an operation touches *)
Definition op_names (o : dop) : list name :=
  match o with OLink n _ => [n] | OUnlink n => [n] | ORename a b _ => [a; b] end.

Lemma apply_op_other es o m : ~ In m (op_names o) -> eget (apply_op es o) m = eget es m.
Proof.
  destruct o as [n e|n|a b i]; cbn [apply_op op_names In]; intros H.
  - apply eget_eset_other. intuition.
  - apply eget_edel_other. intuition.
  - rewrite eget_eset_other by intuition. apply eget_edel_other. intuition.
Qed.

Lemma apply_ops_other ops : forall es m, (forall o, In o ops -> ~ In m (op_names o)) ->
  eget (apply_ops ops es) m = eget es m.
Proof.
  induction ops as [|o r IH]; intros es m H; [reflexivity|].
  rewrite apply_ops_cons, IH.
  - apply apply_op_other. apply H. left; auto.
  - intros o' Ho. apply H. right; auto.
Qed.

(* ---- selection of surviving operations ---- *)

Lemma select_app a : forall m b, select m (a ++ b) = select m a ++ select (skipn (length a) m) b.
Proof.
  induction a as [|o r IH]; intros m b; cbn.
  - reflexivity.
  - destruct m as [|x m']; cbn.
    + destruct b; reflexivity.
    + destruct x; cbn; rewrite IH; reflexivity.
Qed.

Lemma select_in m : forall ops o, In o (select m ops) -> In o ops.
Proof.
  induction m as [|x m IH]; intros [|o' r] o; cbn; try tauto.
  destruct x; cbn; intros H.
  - destruct H as [->|H]; auto.
  - right. apply IH. auto.
Qed.

Lemma select_nil m : select m [] = [].
Proof. destruct m; reflexivity. Qed.

Lemma select_all ops : select (repeat true (length ops)) ops = ops.
Proof. induction ops; cbn; congruence. Qed.

(* ---- dupd / dpush ---- *)

Lemma dupd_same ds p d : dupd ds p d p = d.
Proof. unfold dupd. rewrite path_eqb_refl. reflexivity. Qed.

Lemma dupd_other ds p d q : q <> p -> dupd ds p d q = ds q.
Proof. intros H. unfold dupd. rewrite path_eqb_neq; auto. Qed.

Lemma dpush_same ds p o : dpush ds p o p = mkDir (d_dur (ds p)) (d_pend (ds p) ++ [o]).
Proof. unfold dpush. apply dupd_same. Qed.

Lemma dpush_other ds p o q : q <> p -> dpush ds p o q = ds q.
Proof. intros H. unfold dpush. apply dupd_other; auto. Qed.

(* ---- paths ---- *)

Lemma parent_snoc (d : path) (b : name) : parent (d ++ [b]) = d.
Proof. unfold parent. apply removelast_last. Qed.

Lemma base_snoc (d : path) (b : name) : base (d ++ [b]) = b.
Proof. unfold base. apply last_last. Qed.

Lemma path_snoc (p : path) : p <> [] -> p = parent p ++ [base p].
Proof. intros H. unfold parent, base. apply app_removelast_last. auto. Qed.

(* a is a strict prefix of p *)
Definition sprefix (a p : path) : Prop := exists n b, p = a ++ n :: b.

Lemma sprefix_neq a p : sprefix a p -> a <> p.
Proof.
  intros [n [b ->]] H. apply (f_equal (@length name)) in H. rewrite app_length in H. cbn in H. lia.
Qed.

(* ---- path resolution ---- *)

Lemma walk_from_ext ds ds' : forall rest cur,
  (forall a, sprefix a rest -> ds (cur ++ a) = ds' (cur ++ a)) ->
  walk_from ds cur rest = walk_from ds' cur rest.
Proof.
  induction rest as [|n r IH]; intros cur H; cbn; auto.
  destruct (too_long n); auto.
  assert (E : ds cur = ds' cur).
  { specialize (H []). rewrite app_nil_r in H. apply H. exists n, r. reflexivity. }
  unfold dview. rewrite E.
  destruct (eget (view (ds' cur)) n) as [[i|]|]; auto.
  apply IH. intros a [m [b ->]].
  rewrite <- !app_assoc. cbn. apply H. exists m, b. reflexivity.
Qed.

Lemma walk_ext ds ds' p : (forall a, sprefix a p -> ds a = ds' a) -> walk ds p = walk ds' p.
Proof. intros H. unfold walk. apply walk_from_ext. cbn. auto. Qed.

Lemma walk_from_app ds : forall a cur b,
  walk_from ds cur (a ++ b) =
  match walk_from ds cur a with
  | WDir => walk_from ds (cur ++ a) b
  | WFile i => match b with [] => WFile i | _ => WErr ENOTDIR end
  | WErr e => WErr e
  end.
Proof.
  induction a as [|n r IH]; intros cur b; cbn.
  - rewrite app_nil_r. reflexivity.
  - destruct (too_long n); auto.
    destruct (eget (dview ds cur) n) as [[i|]|]; auto.
    + destruct r; cbn.
      * destruct b; reflexivity.
      * reflexivity.
    + rewrite IH. rewrite <- app_assoc. reflexivity.
Qed.

Lemma walk_snoc ds d b :
  walk ds (d ++ [b]) =
  match walk ds d with
  | WDir =>
    if too_long b then WErr ENAMETOOLONG else
    match eget (dview ds d) b with
    | None => WErr ENOENT
    | Some (EFile i) => WFile i
    | Some EDir => WDir
    end
  | WFile i => WErr ENOTDIR
  | WErr e => WErr e
  end.
Proof.
  unfold walk. rewrite walk_from_app. cbn [app walk_from].
  destruct (walk_from ds [] d); auto.
Qed.

Lemma walk_nil ds : walk ds [] = WDir.
Proof. reflexivity. Qed.

(* changing the state of directory d does not change the resolution of d itself *)
Lemma walk_dupd_self ds d x : walk (dupd ds d x) d = walk ds d.
Proof.
  apply walk_ext. intros a Ha. apply dupd_other. apply sprefix_neq. auto.
Qed.

(* ... nor of anything that is not strictly below d *)
Lemma walk_dupd_unrelated ds d x p : ~ sprefix d p -> walk (dupd ds d x) p = walk ds p.
Proof.
  intros H. apply walk_ext. intros a Ha. apply dupd_other. intros ->. contradiction.
Qed.

(* ---- crash ---- *)

Lemma crash_dirs s c p : dirs (crash s c) p = crash_dir (dirs s p) (c_mask c p).
Proof. reflexivity. Qed.

Lemma dview_crash s c p :
  dview (dirs (crash s c)) p = apply_ops (select (c_mask c p) (d_pend (dirs s p))) (d_dur (dirs s p)).
Proof. reflexivity. Qed.

Lemma nth_error_crash_files c : forall l i j,
  nth_error (crash_files l i c) j =
  match nth_error l j with Some f => Some (crash_file f (c (i + j))) | None => None end.
Proof.
  induction l as [|f r IH]; intros i j; destruct j; cbn; auto.
  - rewrite Nat.add_0_r. reflexivity.
  - rewrite IH. replace (S i + j) with (i + S j) by lia. reflexivity.
Qed.

Lemma files_crash s c j :
  nth_error (files (crash s c)) j =
  match nth_error (files s) j with Some f => Some (crash_file f (c_file c j)) | None => None end.
Proof. unfold crash. cbn [files]. rewrite nth_error_crash_files. reflexivity. Qed.

Lemma crash_file_synced f ch : f_vol f = None -> crash_file f ch = f.
Proof. unfold crash_file. intros ->. reflexivity. Qed.

Lemma fcontent_crash_file f ch : f_vol (crash_file f ch) = None.
Proof. unfold crash_file. destruct (f_vol f) eqn:E; cbn; auto. Qed.

(* ---- fupd ---- *)

Lemma fupd_length l : forall i g, length (fupd l i g) = length l.
Proof. induction l; intros [|i] g; cbn; auto. Qed.

Lemma nth_error_fupd_same l : forall i g f, nth_error l i = Some f -> nth_error (fupd l i g) i = Some (g f).
Proof. induction l as [|x r IH]; intros [|i] g f; cbn; try discriminate; auto. intros [= ->]. reflexivity. Qed.

Lemma nth_error_fupd_other l : forall i j g, i <> j -> nth_error (fupd l i g) j = nth_error l j.
Proof.
  induction l as [|x r IH]; intros [|i] [|j] g H; cbn; auto; try congruence.
Qed.

Lemma fupd_app_new l f g : fupd (l ++ [f]) (length l) g = l ++ [g f].
Proof. induction l; cbn; congruence. Qed.

Lemma fupd_app_old l x i g : i < length l -> fupd (l ++ x) i g = fupd l i g ++ x.
Proof.
  revert i. induction l as [|y r IH]; intros i H; cbn in *; [lia|].
  destruct i; cbn; auto. rewrite IH by lia. reflexivity.
Qed.

(* ---- fds ---- *)

Lemma fd_get_bind l fd h : fd_get ((fd, h) :: l) fd = Some h.
Proof. cbn. rewrite Nat.eqb_refl. reflexivity. Qed.

Lemma fd_del_bind l fd h : fd_del ((fd, h) :: l) fd = l.
Proof. cbn. rewrite Nat.eqb_refl. reflexivity. Qed.

(* ---- exec ---- *)

Lemma exec_app t1 t2 s : exec (t1 ++ t2) s = exec t2 (exec t1 s).
Proof. unfold exec. apply fold_left_app. Qed.

Lemma exec_cons c t s : exec (c :: t) s = exec t (exec1 c s).
Proof. reflexivity. Qed.

Lemma exec_nil s : exec [] s = s.
Proof. reflexivity. Qed.

(* the monad: the final state is the execution of the recorded trace *)
Definition sound {A} (m : M A) : Prop :=
  forall s, state_of (m s) = exec (trace_of (m s)) s.

Lemma sound_ret {A} (a : A) : sound (ret a).
Proof. intros s. reflexivity. Qed.

Lemma sound_call c : sound (call c).
Proof.
  intros s. unfold call, state_of, trace_of. destruct (step c s) as [s' r] eqn:E.
  cbn. unfold exec1. rewrite E. reflexivity.
Qed.

Lemma sound_stat p : sound (stat p).
Proof.
  intros s. unfold stat, state_of, trace_of. cbn. unfold exec1. cbn.
  destruct (walk (dirs s) p); reflexivity.
Qed.

Lemma sound_bind {A B} (m : M A) (f : A -> M B) : sound m -> (forall a, sound (f a)) -> sound (bind m f).
Proof.
  intros Hm Hf s. unfold bind. specialize (Hm s).
  destruct (m s) as [[a s1] t1] eqn:E1. specialize (Hf a s1).
  destruct (f a s1) as [[b s2] t2] eqn:E2.
  unfold state_of, trace_of in *. cbn in *. rewrite exec_app. subst. reflexivity.
Qed.
