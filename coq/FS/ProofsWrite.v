(* FS/ProofsWrite.v — durable.WriteFile: at every prefix of its system-call trace and for every
   crash choice the target is the old or the complete new contents (atomicity), readers see
   whole objects, and after an ok return the new contents survive every crash (durability). *)
From SL Require Import Base.Bytes Base.BytesProofs FS.Model FS.Lemmas FS.Hoare.
From Coq Require Import Lia.
Import ListNotations.
Open Scope nat_scope.

(* ---- bounds on inode references ---- *)

Lemma eget_bound N es n j :
  Forall (fun ke : name * ent => ent_ok N (snd ke)) es -> eget es n = Some (EFile j) -> j < N.
Proof.
  induction es as [|[k e] r IH]; cbn; intros H G; [discriminate|].
  inversion H; subst. destruct (bytes_eqb k n).
  - injection G as ->. exact H2.
  - auto.
Qed.

Lemma edel_forall (P : name * ent -> Prop) es n : Forall P es -> Forall P (edel es n).
Proof.
  induction es as [|[k e] r IH]; cbn; intros H; auto.
  inversion H; subst. destruct (bytes_eqb k n); auto.
Qed.

Lemma apply_op_bound N es o :
  op_ok N o -> Forall (fun ke : name * ent => ent_ok N (snd ke)) es ->
  Forall (fun ke : name * ent => ent_ok N (snd ke)) (apply_op es o).
Proof.
  destruct o as [n e|n|a c j]; cbn [apply_op op_ok]; intros Ho H.
  - constructor; auto. apply edel_forall; auto.
  - apply edel_forall; auto.
  - constructor; auto. apply edel_forall. apply edel_forall. auto.
Qed.

Lemma apply_ops_bound N ops : forall es,
  Forall (op_ok N) ops -> Forall (fun ke : name * ent => ent_ok N (snd ke)) es ->
  Forall (fun ke : name * ent => ent_ok N (snd ke)) (apply_ops ops es).
Proof.
  induction ops as [|o r IH]; intros es Ho H; [exact H|].
  inversion Ho; subst. rewrite apply_ops_cons. apply IH; auto. apply apply_op_bound; auto.
Qed.

Lemma select_forall (P : dop -> Prop) m ops : Forall P ops -> Forall P (select m ops).
Proof.
  intros H. apply Forall_forall. intros o Ho. apply select_in in Ho.
  rewrite Forall_forall in H. auto.
Qed.

Lemma tmp_name_neq b sfx : tmp_name b sfx <> b.
Proof.
  unfold tmp_name. intros H. apply (f_equal (@length byte)) in H. cbn in H.
  rewrite app_length in H. lia.
Qed.

Lemma tmp_name_long b sfx : too_long b = true -> too_long (tmp_name b sfx) = true.
Proof.
  unfold too_long, tmp_name. rewrite !Nat.ltb_lt. cbn [length]. rewrite app_length. lia.
Qed.

(* the flattened form of write_file for a path with at least one component *)
Definition write_file' (d : path) (b : name) (data : bytes) (perm : N) (sfx : bytes) (f0 : nat) : M (option errno) :=
  let tmp := d ++ [tmp_name b sfx] in
  let p := d ++ [b] in
  do r <- call (SOpenDir d f0);
  match r with
  | Some e => ret (Some e)
  | None =>
    do err <-
      (do r <- call (SCreat tmp (S f0));
       match r with
       | Some e => ret (Some e)
       | None =>
         do err <-
           (do r <- call (SFchmod (S f0) perm);
            match r with
            | Some e => do _ <- call (SClose (S f0)); ret (Some e)
            | None =>
              do werr <- call (SWrite (S f0) data);
              fsync_and_close (S f0) werr
            end);
         do err2 <- (match err with None => os_rename tmp p | Some e => ret (Some e) end);
         match err2 with
         | None => ret None
         | Some e => do _ <- os_remove tmp; ret (Some e)
         end
       end);
    fsync_and_close f0 err
  end.

Lemma write_file_snoc d b data perm sfx f0 :
  write_file (d ++ [b]) data perm sfx f0 = write_file' d b data perm sfx f0.
Proof.
  unfold write_file, write_file'. rewrite parent_snoc, base_snoc.
  destruct (d ++ [b]) eqn:E.
  - exfalso. eapply snoc_not_nil; eauto.
  - reflexivity.
Qed.

Section WriteFile.

Variable s0 : fs.
Variables (d : path) (b : name) (data : bytes) (perm : N) (sfx : bytes) (f0 : nat).
Hypothesis Hwf : wf s0.

Let t := tmp_name b sfx.
Let i := length (files s0).
Let p := d ++ [b].

Inductive tp_op : dop -> Prop :=
| tp_link : tp_op (OLink t (EFile i))
| tp_unlink : tp_op (OUnlink t)
| tp_rename : tp_op (ORename t b i).

Definition is_ren (o : dop) : bool := match o with ORename _ _ _ => true | _ => false end.
Definition has_ren (ops : list dop) : bool := existsb is_ren ops.

Lemma t_neq_b : t <> b.
Proof. apply tmp_name_neq. Qed.

Lemma ops_eget ops : Forall tp_op ops -> forall E,
  eget (apply_ops ops E) b = if has_ren ops then Some (EFile i) else eget E b.
Proof.
  induction ops as [|o r IH]; intros H E; [reflexivity|].
  inversion H as [|o' r' Ho Hr]; subst. rewrite apply_ops_cons, (IH Hr).
  unfold has_ren. cbn [existsb]. fold (has_ren r).
  destruct Ho; cbn [is_ren orb].
  - destruct (has_ren r); auto. apply apply_op_other. cbn. intros [G|[]]. apply t_neq_b. auto.
  - destruct (has_ren r); auto. apply apply_op_other. cbn. intros [G|[]]. apply t_neq_b. auto.
  - destruct (has_ren r); auto. cbn [apply_op]. apply eget_eset_same.
Qed.

Lemma has_ren_in ops : Forall tp_op ops -> has_ren ops = true -> In (ORename t b i) ops.
Proof.
  induction ops as [|o r IH]; intros H G; [discriminate|].
  inversion H as [|o' r' Ho Hr]; subst. unfold has_ren in G. cbn [existsb] in G.
  destruct Ho; cbn [is_ren orb] in G; try (right; apply IH; auto; fail).
  left. reflexivity.
Qed.

Lemma in_has_ren ops : In (ORename t b i) ops -> has_ren ops = true.
Proof.
  unfold has_ren. intros H. apply existsb_exists. exists (ORename t b i). auto.
Qed.

(* the shape of every state reached while WriteFile runs, relative to s0 *)
Record Shape (s : fs) (ops : list dop) (synced : bool) (fl : list filest) (fdl : list (nat * handle)) : Prop := {
  sh_other : forall q, q <> d -> dirs s q = dirs s0 q;
  sh_dir : dirs s d =
           if synced then mkDir (apply_ops (d_pend (dirs s0 d) ++ ops) (d_dur (dirs s0 d))) []
           else mkDir (d_dur (dirs s0 d)) (d_pend (dirs s0 d) ++ ops);
  sh_files : files s = files s0 ++ fl;
  sh_fds : fds s = fdl;
  sh_cap : cap s = cap s0
}.

Definition complete (fl : list filest) : Prop := exists pm im, fl = [mkFile data None pm im].

Definition SafeP (ops : list dop) (synced : bool) (fl : list filest) : Prop :=
  Forall tp_op ops /\ (synced = true -> has_ren ops = true) /\ (has_ren ops = true -> complete fl).

Definition Good (s : fs) : Prop := exists ops synced fl fdl, Shape s ops synced fl fdl /\ SafeP ops synced fl.

Lemma shape_init : Shape s0 [] false [] (fds s0).
Proof. constructor; auto. - rewrite app_nil_r. destruct (dirs s0 d); reflexivity. - rewrite app_nil_r. reflexivity. Qed.

Lemma shape_view s ops sy fl fdl : Shape s ops sy fl fdl ->
  dview (dirs s) d = apply_ops ops (dview (dirs s0) d).
Proof.
  intros H. unfold dview, view. rewrite (sh_dir _ _ _ _ _ H).
  destruct sy; cbn [d_pend d_dur]; rewrite apply_ops_app; reflexivity.
Qed.

Lemma shape_walk_d s ops sy fl fdl : Shape s ops sy fl fdl -> walk (dirs s) d = walk (dirs s0) d.
Proof.
  intros H. apply walk_ext. intros a Ha. apply (sh_other _ _ _ _ _ H). apply sprefix_neq. auto.
Qed.

Lemma wf_view_bound n j : eget (dview (dirs s0) d) n = Some (EFile j) -> j < i.
Proof.
  unfold dview, view. destruct (Hwf d) as [H1 H2]. apply eget_bound.
  apply apply_ops_bound; auto.
Qed.

(* what a reader resolving p finds (volatile view) *)
Lemma shape_read s ops sy fl fdl : Shape s ops sy fl fdl -> SafeP ops sy fl ->
  read_path s p = Some data \/ read_path s p = read_path s0 p.
Proof.
  intros H [Hops [_ Hc]]. unfold read_path, p. rewrite !walk_snoc.
  rewrite (shape_walk_d _ _ _ _ _ H). destruct (walk (dirs s0) d); auto.
  destruct (too_long b); auto.
  rewrite (shape_view _ _ _ _ _ H), (ops_eget _ Hops).
  destruct (has_ren ops) eqn:Er.
  - left. destruct (Hc eq_refl) as [pm [im ->]]. rewrite (sh_files _ _ _ _ _ H).
    rewrite nth_error_app2 by (unfold i; lia). replace (i - length (files s0)) with 0 by (unfold i; lia).
    reflexivity.
  - right. destruct (eget (dview (dirs s0) d) b) as [[j|]|] eqn:Eg; auto.
    rewrite (sh_files _ _ _ _ _ H). rewrite nth_error_app1; auto. apply (wf_view_bound _ _ Eg).
Qed.

(* what is found after a power loss *)
Lemma shape_crash s ops sy fl fdl : Shape s ops sy fl fdl -> SafeP ops sy fl -> forall c,
  read_path (crash s c) p = Some data \/ read_path (crash s c) p = read_path (crash s0 c) p.
Proof.
  intros H [Hops [Hsy Hc]] c. unfold read_path, p. rewrite !walk_snoc.
  assert (Ew : walk (dirs (crash s c)) d = walk (dirs (crash s0 c)) d).
  { apply walk_ext. intros a Ha. rewrite !crash_dirs. rewrite (sh_other _ _ _ _ _ H); auto.
    apply sprefix_neq; auto. }
  rewrite Ew. destruct (walk (dirs (crash s0 c)) d); auto.
  destruct (too_long b); auto.
  rewrite !dview_crash. rewrite (sh_dir _ _ _ _ _ H).
  set (E0 := apply_ops (select (c_mask c d) (d_pend (dirs s0 d))) (d_dur (dirs s0 d))).
  assert (Hnew : nth_error (files (crash s c)) i = Some (mkFile data None 0 false) \/ True) by auto.
  assert (Hpub : complete fl -> exists f, nth_error (files (crash s c)) i = Some f /\ fcontent f = data).
  { intros [pm [im ->]]. rewrite files_crash, (sh_files _ _ _ _ _ H).
    rewrite nth_error_app2 by (unfold i; lia). replace (i - length (files s0)) with 0 by (unfold i; lia).
    cbn. eexists; split; eauto. }
  assert (Hold : forall j, j < i -> nth_error (files (crash s c)) j = nth_error (files (crash s0 c)) j).
  { intros j Hj. rewrite !files_crash, (sh_files _ _ _ _ _ H). rewrite nth_error_app1; auto. }
  assert (HE0 : forall j, eget E0 b = Some (EFile j) -> j < i).
  { intros j. destruct (Hwf d) as [H1 H2]. apply eget_bound. apply apply_ops_bound; auto.
    apply select_forall; auto. }
  destruct sy; cbn [d_pend d_dur].
  - (* the directory has been synced: the rename is durable *)
    rewrite select_nil. cbn [apply_ops fold_left]. rewrite apply_ops_app, (ops_eget _ Hops).
    rewrite (Hsy eq_refl). left. destruct (Hpub (Hc (Hsy eq_refl))) as [f [-> <-]]. reflexivity.
  - rewrite select_app, apply_ops_app. fold E0.
    set (sub := select (skipn (length (d_pend (dirs s0 d))) (c_mask c d)) ops).
    assert (Hsub : Forall tp_op sub) by (apply select_forall; auto).
    rewrite (ops_eget _ Hsub). destruct (has_ren sub) eqn:Er.
    + left. assert (Hr : has_ren ops = true).
      { apply in_has_ren. eapply select_in. apply has_ren_in; eauto. }
      destruct (Hpub (Hc Hr)) as [f [-> <-]]. reflexivity.
    + right. destruct (eget E0 b) as [[j|]|] eqn:Eg; auto.
      rewrite Hold; auto.
Qed.

Lemma good_read s : Good s -> read_path s p = Some data \/ read_path s p = read_path s0 p.
Proof. intros [ops [sy [fl [fdl [H1 H2]]]]]. eapply shape_read; eauto. Qed.

Lemma good_crash s : Good s -> forall c,
  read_path (crash s c) p = Some data \/ read_path (crash s c) p = read_path (crash s0 c) p.
Proof. intros [ops [sy [fl [fdl [H1 H2]]]]]. eapply shape_crash; eauto. Qed.

(* the step relation: inodes that existed before, and the new inode once it is published under
   the target name, never change again *)
Definition published (s : fs) : Prop := eget (dview (dirs s) d) b = Some (EFile i).

Definition Rstep (s s' : fs) : Prop :=
  (forall x, x < i -> nth_error (files s') x = nth_error (files s) x) /\
  (published s -> nth_error (files s') i = nth_error (files s) i /\ published s').

Lemma rstep_refl s : Rstep s s.
Proof. split; auto. Qed.

Lemma rstep_trans x y z : Rstep x y -> Rstep y z -> Rstep x z.
Proof.
  intros [A1 A2] [B1 B2]. split.
  - intros j Hj. rewrite B1, A1; auto.
  - intros Hp. destruct (A2 Hp) as [E1 P1]. destruct (B2 P1) as [E2 P2]. split; auto. congruence.
Qed.

Lemma published_ren s ops sy fl fdl : Shape s ops sy fl fdl -> Forall tp_op ops ->
  (published s <-> has_ren ops = true).
Proof.
  intros H Hops. unfold published. rewrite (shape_view _ _ _ _ _ H), (ops_eget _ Hops).
  destruct (has_ren ops); split; auto; try discriminate.
  intros G. apply wf_view_bound in G. lia.
Qed.

Lemma rstep_shapes s ops sy fl fdl s' ops' sy' fl' fdl' :
  Shape s ops sy fl fdl -> Shape s' ops' sy' fl' fdl' -> Forall tp_op ops -> Forall tp_op ops' ->
  (has_ren ops = true -> fl' = fl /\ has_ren ops' = true) ->
  Rstep s s'.
Proof.
  intros H H' Ho Ho' Hm. split.
  - intros x Hx. rewrite (sh_files _ _ _ _ _ H), (sh_files _ _ _ _ _ H').
    rewrite !nth_error_app1; auto.
  - intros Hp. apply (published_ren _ _ _ _ _ H Ho) in Hp. destruct (Hm Hp) as [-> Hr]. split.
    + rewrite (sh_files _ _ _ _ _ H), (sh_files _ _ _ _ _ H'). reflexivity.
    + apply (published_ren _ _ _ _ _ H' Ho'). auto.
Qed.

(* ---- shape transformers ---- *)

Lemma shape_bind_fd s ops sy fl fdl fd h :
  Shape s ops sy fl fdl -> Shape (bind_fd s fd h) ops sy fl ((fd, h) :: fdl).
Proof. intros [A B C D E]. constructor; cbn; auto. rewrite D. reflexivity. Qed.

Lemma shape_set_fds s ops sy fl fdl l :
  Shape s ops sy fl fdl -> Shape (set_fds s l) ops sy fl l.
Proof. intros [A B C D E]. constructor; cbn; auto. Qed.

Lemma shape_push s ops fl fdl o :
  Shape s ops false fl fdl -> Shape (set_dirs s (dpush (dirs s) d o)) (ops ++ [o]) false fl fdl.
Proof.
  intros [A B C D E]. constructor; cbn; auto.
  - intros q Hq. rewrite dpush_other; auto.
  - rewrite dpush_same, B. cbn. rewrite <- app_assoc. reflexivity.
Qed.

Lemma shape_sync s ops fl fdl :
  Shape s ops false fl fdl ->
  Shape (set_dirs s (dupd (dirs s) d (mkDir (view (dirs s d)) []))) ops true fl fdl.
Proof.
  intros [A B C D E]. constructor; cbn; auto.
  - intros q Hq. rewrite dupd_other; auto.
  - rewrite dupd_same, B. reflexivity.
Qed.

Lemma shape_fupd s ops sy f fdl g :
  Shape s ops sy [f] fdl -> Shape (set_files s (fupd (files s) i g)) ops sy [g f] fdl.
Proof.
  intros [A B C D E]. constructor; cbn; auto.
  rewrite C. unfold i. apply fupd_app_new.
Qed.

Lemma shape_creat s fdl fd :
  Shape s [] false [] fdl ->
  Shape (mkFs (dpush (dirs s) d (OLink t (EFile (length (files s))))) (files s ++ [new_file])
              ((fd, HFile (length (files s))) :: fds s) (cap s))
        [OLink t (EFile i)] false [new_file] ((fd, HFile i) :: fdl).
Proof.
  intros [A B C D E]. rewrite app_nil_r in C.
  assert (El : length (files s) = i) by (rewrite C; reflexivity).
  constructor; cbn; auto.
  - intros q Hq. rewrite dpush_other; auto.
  - rewrite dpush_same, B, El. cbn. rewrite app_nil_r. reflexivity.
  - rewrite C. reflexivity.
  - rewrite El, D. reflexivity.
Qed.

Lemma safe_no_ren ops sy fl : Forall tp_op ops -> sy = false -> has_ren ops = false -> SafeP ops sy fl.
Proof. intros H -> E. repeat split; auto; intros; congruence. Qed.

Lemma good_shape s ops sy fl fdl : Shape s ops sy fl fdl -> SafeP ops sy fl -> Good s.
Proof. intros. exists ops, sy, fl, fdl. auto. Qed.

(* ---- symbolic execution of WriteFile ---- *)

Let f1 := S f0.
Let tmp := d ++ [t].
Let LINK := OLink t (EFile i).
Let REN := ORename t b i.

Lemma f1_neq : Nat.eqb f1 f0 = false.
Proof. unfold f1. apply Nat.eqb_neq. lia. Qed.

Definition final_shape (r : option errno) (s : fs) : Prop :=
  match r with
  | None => (exists im, Shape s [LINK; REN] true [mkFile data None perm im] (fds s0)) /\ too_long b = false
  | Some _ => True
  end.

Ltac tp := repeat (constructor; try apply tp_link; try apply tp_unlink; try apply tp_rename).

(* Rstep from the shapes of the two states *)
Ltac rs H H' :=
  eapply (rstep_shapes _ _ _ _ _ _ _ _ _ _ H H');
  [ try tp; auto | try tp; auto
  | let Hx := fresh in intros Hx;
    first [ discriminate Hx | congruence | (split; [reflexivity | reflexivity]) | (split; [reflexivity | assumption]) ] ].

(* fsyncAndClose of the temporary file after a successful write *)
Lemma fac_file s pm :
  Shape s [LINK] false [mkFile [] (Some data) pm false] ((f1, HFile i) :: (f0, HDir d) :: fds s0) ->
  mchain (fsync_and_close f1 None) s Good Rstep
    (fun r s' => r = None /\ Shape s' [LINK] false [mkFile data None pm false] ((f0, HDir d) :: fds s0)).
Proof.
  intros H. unfold fsync_and_close.
  assert (G0 : Good s) by (eapply good_shape; eauto; apply safe_no_ren; auto; tp).
  eapply mchain_bind with (Q := fun r s' => r = None /\
      Shape s' [LINK] false [mkFile data None pm false] ((f1, HFile i) :: (f0, HDir d) :: fds s0)).
  - assert (E : step (SFsync f1) s =
                (set_files s (fupd (files s) i (fun f => mkFile (fcontent f) None (f_perm f) (f_imm f))), None)).
    { unfold step. cbv zeta. rewrite (sh_fds _ _ _ _ _ H), fd_get_bind. reflexivity. }
    pose proof (shape_fupd _ _ _ _ _ (fun f => mkFile (fcontent f) None (f_perm f) (f_imm f)) H) as H'.
    cbn [fcontent f_vol f_perm f_imm app] in H'.
    apply mchain_call; try rewrite E; cbn [fst snd]; auto.
    + rs H H'.
    + eapply good_shape; eauto. apply safe_no_ren; auto; tp.
  - intros r s1 [-> H1].
    assert (E : step (SClose f1) s1 = (set_fds s1 ((f0, HDir d) :: fds s0), None)).
    { unfold step. cbv zeta. rewrite (sh_fds _ _ _ _ _ H1), fd_get_bind, fd_del_bind. reflexivity. }
    pose proof (shape_set_fds _ _ _ _ _ ((f0, HDir d) :: fds s0) H1) as H1'.
    assert (G1 : Good s1) by (eapply good_shape; eauto; apply safe_no_ren; auto; tp).
    eapply mchain_bind with (Q := fun r s' => r = None /\
      Shape s' [LINK] false [mkFile data None pm false] ((f0, HDir d) :: fds s0)).
    + apply mchain_call; try rewrite E; cbn [fst snd]; auto.
      * rs H1 H1'.
      * eapply good_shape; eauto. apply safe_no_ren; auto; tp.
    + intros r s2 [-> H2]. apply mchain_ret; auto.
      eapply good_shape; eauto. apply safe_no_ren; auto; tp.
Qed.

(* closing the parent directory (with or without the preceding fsync) *)
Lemma fac_parent_err s ops fl e :
  Shape s ops false fl ((f0, HDir d) :: fds s0) -> Forall tp_op ops -> has_ren ops = false ->
  mchain (fsync_and_close f0 (Some e)) s Good Rstep final_shape.
Proof.
  intros H Ho Hr. unfold fsync_and_close.
  assert (G0 : Good s) by (eapply good_shape; eauto; apply safe_no_ren; auto).
  eapply mchain_bind with (Q := fun r s' => r = Some e /\ s' = s).
  - apply mchain_ret; auto.
  - intros r s1 [-> ->].
    assert (E : step (SClose f0) s = (set_fds s (fds s0), None)).
    { unfold step. cbv zeta. rewrite (sh_fds _ _ _ _ _ H), fd_get_bind, fd_del_bind. reflexivity. }
    pose proof (shape_set_fds _ _ _ _ _ (fds s0) H) as H'.
    assert (G1 : Good (set_fds s (fds s0))) by (eapply good_shape; eauto; apply safe_no_ren; auto).
    eapply mchain_bind with (Q := fun r s' => Good s').
    + apply mchain_call; try rewrite E; cbn [fst snd]; auto.
      rs H H'.
    + intros r s2 G2. apply mchain_ret; cbn; auto.
Qed.

Lemma fac_parent_ok s im :
  Shape s [LINK; REN] false [mkFile data None perm im] ((f0, HDir d) :: fds s0) -> too_long b = false ->
  mchain (fsync_and_close f0 None) s Good Rstep final_shape.
Proof.
  intros H Hlong. unfold fsync_and_close.
  assert (S0 : SafeP [LINK; REN] false [mkFile data None perm im]).
  { repeat split; try tp; try discriminate. intros _. exists perm, im. reflexivity. }
  assert (S1 : SafeP [LINK; REN] true [mkFile data None perm im]).
  { repeat split; try tp. intros _. exists perm, im. reflexivity. }
  assert (G0 : Good s) by (eapply good_shape; eauto).
  eapply mchain_bind with (Q := fun r s' => r = None /\
      Shape s' [LINK; REN] true [mkFile data None perm im] ((f0, HDir d) :: fds s0)).
  - assert (E : step (SFsync f0) s = (set_dirs s (dupd (dirs s) d (mkDir (view (dirs s d)) [])), None)).
    { unfold step. cbv zeta. rewrite (sh_fds _ _ _ _ _ H), fd_get_bind. reflexivity. }
    pose proof (shape_sync _ _ _ _ H) as H'.
    apply mchain_call; try rewrite E; cbn [fst snd]; auto.
    + rs H H'.
    + eapply good_shape; eauto.
  - intros r s1 [-> H1].
    assert (E : step (SClose f0) s1 = (set_fds s1 (fds s0), None)).
    { unfold step. cbv zeta. rewrite (sh_fds _ _ _ _ _ H1), fd_get_bind, fd_del_bind. reflexivity. }
    pose proof (shape_set_fds _ _ _ _ _ (fds s0) H1) as H1'.
    assert (G1 : Good s1) by (eapply good_shape; eauto).
    eapply mchain_bind with (Q := fun r s' => r = None /\
      Shape s' [LINK; REN] true [mkFile data None perm im] (fds s0)).
    + apply mchain_call; try rewrite E; cbn [fst snd]; auto.
      * rs H1 H1'.
      * eapply good_shape; eauto.
    + intros r s2 [-> H2]. apply mchain_ret.
      * eapply good_shape; eauto.
      * cbn. split; auto. exists im. exact H2.
Qed.

(* os.Remove of the temporary file: whatever it does, the shape only gains unlinks of tmp *)
Lemma remove_tmp s ops fl fdl :
  Shape s ops false fl fdl -> Forall tp_op ops -> has_ren ops = false ->
  mchain (os_remove tmp) s Good Rstep
    (fun _ s' => exists ops', Shape s' ops' false fl fdl /\ Forall tp_op ops' /\ has_ren ops' = false).
Proof.
  intros H Ho Hr. unfold os_remove.
  assert (G0 : Good s) by (eapply good_shape; eauto; apply safe_no_ren; auto).
  eapply mchain_bind with (Q := fun r s' =>
     exists ops', Shape s' ops' false fl fdl /\ Forall tp_op ops' /\ has_ren ops' = false).
  - unfold tmp. pose proof (step_unlink s d t) as E.
    destruct (step (SUnlink (d ++ [t])) s) as [s' r] eqn:Es.
    assert (Hs' : s' = s \/ s' = set_dirs s (dpush (dirs s) d (OUnlink t))).
    { revert E. destruct (walk_parent (dirs s) (d ++ [t])); [intros [= -> ->]; auto|].
      destruct (too_long t); [intros [= -> ->]; auto|].
      destruct (eget (dview (dirs s) d) t) as [[j|]|]; try (intros [= -> ->]; auto; fail).
      destruct (file_imm s j); intros [= -> ->]; auto. }
    apply mchain_call; try rewrite Es; cbn [fst snd]; auto.
    + destruct Hs' as [->| ->]; [apply rstep_refl|].
      pose proof (shape_push _ _ _ _ (OUnlink t) H) as Hp.
      eapply (rstep_shapes _ _ _ _ _ _ _ _ _ _ H Hp); auto; [apply Forall_app; split; auto; tp | congruence].
    + destruct Hs' as [->| ->]; auto.
      eapply good_shape. apply shape_push; eauto. apply safe_no_ren; auto.
      apply Forall_app; split; auto; tp.
      unfold has_ren. rewrite existsb_app. fold (has_ren ops). rewrite Hr. reflexivity.
    + destruct Hs' as [->| ->]; [exists ops; auto|].
      exists (ops ++ [OUnlink t]). split; [apply shape_push; auto|]. split.
      * apply Forall_app; split; auto; tp.
      * unfold has_ren. rewrite existsb_app. fold (has_ren ops). rewrite Hr. reflexivity.
  - intros r s1 [ops1 [H1 [Ho1 Hr1]]].
    assert (G1 : Good s1) by (eapply good_shape; eauto; apply safe_no_ren; auto).
    destruct r as [e|]; [|apply mchain_ret; eauto].
    eapply mchain_bind with (Q := fun r s' =>
       exists ops', Shape s' ops' false fl fdl /\ Forall tp_op ops' /\ has_ren ops' = false).
    + unfold tmp. pose proof (step_rmdir s1 d t) as E.
      destruct (step (SRmdir (d ++ [t])) s1) as [s' r] eqn:Es.
      assert (Hs' : s' = s1 \/ s' = set_dirs s1 (dpush (dirs s1) d (OUnlink t))).
      { revert E. destruct (walk_parent (dirs s1) (d ++ [t])); [intros [= -> ->]; auto|].
        destruct (too_long t); [intros [= -> ->]; auto|].
        destruct (eget (dview (dirs s1) d) t) as [[j|]|]; try (intros [= -> ->]; auto; fail).
        destruct (dview (dirs s1) (d ++ [t])); intros [= -> ->]; auto. }
      apply mchain_call; try rewrite Es; cbn [fst snd]; auto.
      * destruct Hs' as [->| ->]; [apply rstep_refl|].
        pose proof (shape_push _ _ _ _ (OUnlink t) H1) as Hp.
        eapply (rstep_shapes _ _ _ _ _ _ _ _ _ _ H1 Hp); auto; [apply Forall_app; split; auto; tp | congruence].
      * destruct Hs' as [->| ->]; auto.
        eapply good_shape. apply shape_push; eauto. apply safe_no_ren; auto.
        apply Forall_app; split; auto; tp.
        unfold has_ren. rewrite existsb_app. fold (has_ren ops1). rewrite Hr1. reflexivity.
      * destruct Hs' as [->| ->]; [exists ops1; auto|].
        exists (ops1 ++ [OUnlink t]). split; [apply shape_push; auto|]. split.
        -- apply Forall_app; split; auto; tp.
        -- unfold has_ren. rewrite existsb_app. fold (has_ren ops1). rewrite Hr1. reflexivity.
    + intros r2 s2 [ops2 [H2 [Ho2 Hr2]]].
      assert (G2 : Good s2) by (eapply good_shape; eauto; apply safe_no_ren; auto).
      destruct r2 as [[]|]; apply mchain_ret; eauto.
Qed.

(* os.Rename(tmp, p) after the temporary file is complete and closed *)
Lemma rename_tmp s im :
  Shape s [LINK] false [mkFile data None perm im] ((f0, HDir d) :: fds s0) ->
  mchain (os_rename tmp p) s Good Rstep
    (fun r s' => match r with
                 | None => Shape s' [LINK; REN] false [mkFile data None perm im] ((f0, HDir d) :: fds s0)
                 | Some _ => Shape s' [LINK] false [mkFile data None perm im] ((f0, HDir d) :: fds s0)
                 end).
Proof.
  intros H. unfold os_rename.
  assert (S0 : SafeP [LINK] false [mkFile data None perm im]) by (apply safe_no_ren; auto; tp).
  assert (G0 : Good s) by (eapply good_shape; eauto).
  eapply mchain_bind with (Q := fun w s' => s' = s).
  - apply mchain_stat; auto. apply rstep_refl.
  - intros w s1 ->.
    assert (Hst : forall q, mchain (stat q) s Good Rstep (fun _ s' => s' = s)).
    { intros q. apply mchain_stat; auto. apply rstep_refl. }
    destruct w.
    + eapply mchain_bind; [apply Hst|]. intros w2 s2 ->.
      destruct w2; apply mchain_ret; auto.
    + (* the rename system call *)
      unfold tmp, p. pose proof (step_rename_same s d t b) as E.
      destruct (step (SRename (d ++ [t]) (d ++ [b])) s) as [s' r] eqn:Es.
      assert (Hs' : (s' = s /\ r <> None) \/ (s' = set_dirs s (dpush (dirs s) d REN) /\ r = None)).
      { revert E. destruct (walk_parent (dirs s) (d ++ [t])); [intros [= -> ->]; left; split; auto; discriminate|].
        destruct (too_long t); [intros [= -> ->]; left; split; auto; discriminate|].
        rewrite (shape_view _ _ _ _ _ H). unfold LINK. cbn [apply_ops fold_left apply_op]. rewrite eget_eset_same.
        destruct (too_long b); [intros [= -> ->]; left; split; auto; discriminate|].
        destruct (file_imm s i); [intros [= -> ->]; left; split; auto; discriminate|].
        destruct (eget (eset (dview (dirs s0) d) t (EFile i)) b) as [[j|]|].
        - destruct (file_imm s j); intros [= -> ->]; [left; split; auto; discriminate|right; auto].
        - intros [= -> ->]; left; split; auto; discriminate.
        - intros [= -> ->]; right; auto. }
      apply mchain_call; try rewrite Es; cbn [fst snd]; auto.
      * destruct Hs' as [[-> _]|[-> _]]; [apply rstep_refl|].
        pose proof (shape_push _ _ _ _ REN H) as Hp. rs H Hp.
      * destruct Hs' as [[-> _]|[-> _]]; auto.
        eapply good_shape. apply (shape_push _ _ _ _ REN H).
        repeat split; try tp; try discriminate. intros _. exists perm, im. reflexivity.
      * destruct Hs' as [[-> Hr]|[-> ->]].
        -- destruct r; [exact H|congruence].
        -- apply (shape_push _ _ _ _ REN H).
    + unfold tmp, p. pose proof (step_rename_same s d t b) as E.
      destruct (step (SRename (d ++ [t]) (d ++ [b])) s) as [s' r] eqn:Es.
      assert (Hs' : (s' = s /\ r <> None) \/ (s' = set_dirs s (dpush (dirs s) d REN) /\ r = None)).
      { revert E. destruct (walk_parent (dirs s) (d ++ [t])); [intros [= -> ->]; left; split; auto; discriminate|].
        destruct (too_long t); [intros [= -> ->]; left; split; auto; discriminate|].
        rewrite (shape_view _ _ _ _ _ H). unfold LINK. cbn [apply_ops fold_left apply_op]. rewrite eget_eset_same.
        destruct (too_long b); [intros [= -> ->]; left; split; auto; discriminate|].
        destruct (file_imm s i); [intros [= -> ->]; left; split; auto; discriminate|].
        destruct (eget (eset (dview (dirs s0) d) t (EFile i)) b) as [[j|]|].
        - destruct (file_imm s j); intros [= -> ->]; [left; split; auto; discriminate|right; auto].
        - intros [= -> ->]; left; split; auto; discriminate.
        - intros [= -> ->]; right; auto. }
      apply mchain_call; try rewrite Es; cbn [fst snd]; auto.
      * destruct Hs' as [[-> _]|[-> _]]; [apply rstep_refl|].
        pose proof (shape_push _ _ _ _ REN H) as Hp. rs H Hp.
      * destruct Hs' as [[-> _]|[-> _]]; auto.
        eapply good_shape. apply (shape_push _ _ _ _ REN H).
        repeat split; try tp; try discriminate. intros _. exists perm, im. reflexivity.
      * destruct Hs' as [[-> Hr]|[-> ->]].
        -- destruct r; [exact H|congruence].
        -- apply (shape_push _ _ _ _ REN H).
Qed.

Theorem write_file_chain :
  mchain (write_file' d b data perm sfx f0) s0 Good Rstep final_shape.
Proof.
  unfold write_file'. fold t. fold tmp. fold p. fold f1.
  assert (G0 : Good s0).
  { eapply good_shape. apply shape_init. apply safe_no_ren; auto. }
  (* open the parent directory *)
  eapply mchain_bind with (Q := fun r s' =>
     match r with None => Shape s' [] false [] ((f0, HDir d) :: fds s0) | Some _ => s' = s0 end).
  { apply mchain_call; auto; rewrite step_opendir; destruct (walk (dirs s0) d); cbn [fst snd]; auto;
      try apply rstep_refl.
    - pose proof shape_init as Hi. pose proof (shape_bind_fd _ _ _ _ _ f0 (HDir d) Hi) as Hb. rs Hi Hb.
    - eapply good_shape. apply shape_bind_fd. apply shape_init. apply safe_no_ren; auto.
    - apply shape_bind_fd. apply shape_init. }
  intros r s1 H1. destruct r as [e|]; [subst s1; apply mchain_ret; cbn; auto|].
  assert (G1 : Good s1) by (eapply good_shape; eauto; apply safe_no_ren; auto).
  eapply mchain_bind with (Q := fun err s' =>
     match err with
     | None => (exists im, Shape s' [LINK; REN] false [mkFile data None perm im] ((f0, HDir d) :: fds s0)) /\ too_long b = false
     | Some _ => exists ops fl, Shape s' ops false fl ((f0, HDir d) :: fds s0) /\ Forall tp_op ops /\ has_ren ops = false
     end).
  2:{ intros err s2 H2. destruct err as [e|].
      - destruct H2 as [ops [fl [H2 [Ho Hr]]]]. eapply fac_parent_err; eauto.
      - destruct H2 as [[im H2] Hlong]. eapply fac_parent_ok; eauto. }
  (* create the temporary file *)
  eapply mchain_bind with (Q := fun r s' =>
     match r with
     | None => Shape s' [LINK] false [new_file] ((f1, HFile i) :: (f0, HDir d) :: fds s0) /\ too_long t = false
     | Some _ => s' = s1
     end).
  { unfold tmp. pose proof (step_creat s1 d t f1) as E.
    destruct (step (SCreat (d ++ [t]) f1) s1) as [s' r] eqn:Es.
    pose proof (shape_creat _ _ f1 H1) as Hc. rewrite (sh_fds _ _ _ _ _ H1) in Hc.
    assert (Hs' : (s' = s1 /\ r <> None) \/
                  (s' = mkFs (dpush (dirs s1) d (OLink t (EFile (length (files s1))))) (files s1 ++ [new_file])
                             ((f1, HFile (length (files s1))) :: (f0, HDir d) :: fds s0) (cap s1) /\ r = None /\ too_long t = false)).
    { revert E. rewrite (sh_fds _ _ _ _ _ H1).
      destruct (walk_parent (dirs s1) (d ++ [t])); [intros [= -> ->]; left; split; auto; discriminate|].
      destruct (too_long t); [intros [= -> ->]; left; split; auto; discriminate|].
      destruct (eget (dview (dirs s1) d) t); intros [= -> ->]; [left; split; auto; discriminate|right; auto]. }
    apply mchain_call; try rewrite Es; cbn [fst snd]; auto.
    - destruct Hs' as [[-> _]|[-> _]]; [apply rstep_refl|]. rs H1 Hc.
    - destruct Hs' as [[-> _]|[-> _]]; auto.
      eapply good_shape; eauto. apply safe_no_ren; auto; tp.
    - destruct Hs' as [[-> Hr]|[-> [-> Hl]]]; auto. destruct r; congruence. }
  intros r s2 H2. destruct r as [e|].
  { subst s2. apply mchain_ret; auto. exists [], []. auto. }
  destruct H2 as [H2 Hlong].
  assert (Hlb : too_long b = false).
  { destruct (too_long b) eqn:Eb; auto. pose proof (tmp_name_long b sfx Eb) as Hx. fold t in Hx. congruence. }
  assert (G2 : Good s2) by (eapply good_shape; eauto; apply safe_no_ren; auto; tp).
  (* chmod, write, fsync, close *)
  eapply mchain_bind with (Q := fun err s' =>
     match err with
     | None => exists im, Shape s' [LINK] false [mkFile data None perm im] ((f0, HDir d) :: fds s0)
     | Some _ => exists fl, Shape s' [LINK] false fl ((f0, HDir d) :: fds s0)
     end).
  { assert (E : step (SFchmod f1 perm) s2 =
                (set_files s2 (fupd (files s2) i (fun f => mkFile (f_dur f) (f_vol f) perm (f_imm f))), None)).
    { unfold step. cbv zeta. rewrite (sh_fds _ _ _ _ _ H2), fd_get_bind. reflexivity. }
    pose proof (shape_fupd _ _ _ _ _ (fun f => mkFile (f_dur f) (f_vol f) perm (f_imm f)) H2) as H3.
    cbn [new_file f_dur f_vol f_imm] in H3.
    eapply mchain_bind with (Q := fun r s' => r = None /\
        Shape s' [LINK] false [mkFile [] None perm false] ((f1, HFile i) :: (f0, HDir d) :: fds s0)).
    { apply mchain_call; try rewrite E; cbn [fst snd]; auto.
      - rs H2 H3.
      - eapply good_shape; eauto. apply safe_no_ren; auto; tp. }
    intros r s3 [-> H3'].
    assert (G3 : Good s3) by (eapply good_shape; eauto; apply safe_no_ren; auto; tp).
    assert (E4 : step (SWrite f1 data) s3 =
                 (set_files s3 (fupd (files s3) i (fun f => mkFile (f_dur f) (Some (fcontent f ++ data)) (f_perm f) (f_imm f))), None)).
    { unfold step. cbv zeta. rewrite (sh_fds _ _ _ _ _ H3'), fd_get_bind. reflexivity. }
    pose proof (shape_fupd _ _ _ _ _ (fun f => mkFile (f_dur f) (Some (fcontent f ++ data)) (f_perm f) (f_imm f)) H3') as H4.
    cbn [fcontent f_dur f_vol f_perm f_imm app] in H4.
    eapply mchain_bind with (Q := fun r s' => r = None /\
        Shape s' [LINK] false [mkFile [] (Some data) perm false] ((f1, HFile i) :: (f0, HDir d) :: fds s0)).
    { apply mchain_call; try rewrite E4; cbn [fst snd]; auto.
      - rs H3' H4.
      - eapply good_shape; eauto. apply safe_no_ren; auto; tp. }
    intros r s4 [-> H4'].
    eapply mchain_weaken; [apply (fac_file _ _ H4')|].
    intros a s' [-> Hs]. exists false. exact Hs. }
  intros err s5 H5.
  destruct err as [e|].
  - (* not reachable in the model (chmod/write/fsync/close cannot fail), but handled *)
    destruct H5 as [fl H5].
    assert (G5 : Good s5) by (eapply good_shape; eauto; apply safe_no_ren; auto; tp).
    eapply mchain_bind with (Q := fun r s' => r = Some e /\ s' = s5); [apply mchain_ret; auto|].
    intros r s6 [-> ->].
    eapply mchain_bind; [apply (remove_tmp _ _ _ _ H5); auto; tp|].
    intros _ s7 [ops' [H7 [Ho7 Hr7]]].
    apply mchain_ret.
    + eapply good_shape; eauto. apply safe_no_ren; auto.
    + exists ops', fl. auto.
  - destruct H5 as [im H5].
    eapply mchain_bind; [apply (rename_tmp _ _ H5)|].
    intros err2 s6 H6. destruct err2 as [e|].
    + eapply mchain_bind; [apply (remove_tmp _ _ _ _ H6); auto; tp|].
      intros _ s7 [ops' [H7 [Ho7 Hr7]]].
      apply mchain_ret.
      * eapply good_shape; eauto. apply safe_no_ren; auto.
      * exists ops', [mkFile data None perm im]. auto.
    + apply mchain_ret.
      * eapply good_shape; eauto.
        repeat split; try tp; try discriminate. intros _. exists perm, im. reflexivity.
      * split; auto. exists im. exact H6.
Qed.

(* durability: once the directory has been synced the new contents survive every crash in which
   the directory itself is reachable *)
Lemma shape_crash_synced s ops fl fdl c : Shape s ops true fl fdl -> SafeP ops true fl ->
  walk (dirs (crash s0 c)) d = WDir -> too_long b = false ->
  read_path (crash s c) p = Some data.
Proof.
  intros H [Hops [Hsy Hc]] Hw Hl. unfold read_path, p. rewrite walk_snoc.
  assert (Ew : walk (dirs (crash s c)) d = walk (dirs (crash s0 c)) d).
  { apply walk_ext. intros a Ha. rewrite !crash_dirs. rewrite (sh_other _ _ _ _ _ H); auto.
    apply sprefix_neq; auto. }
  rewrite Ew, Hw, Hl. rewrite dview_crash, (sh_dir _ _ _ _ _ H). cbn [d_pend d_dur].
  rewrite select_nil. cbn [apply_ops fold_left]. rewrite apply_ops_app, (ops_eget _ Hops), (Hsy eq_refl).
  destruct (Hc (Hsy eq_refl)) as [pm [im ->]].
  rewrite files_crash, (sh_files _ _ _ _ _ H).
  rewrite nth_error_app2 by (unfold i; lia). replace (i - length (files s0)) with 0 by (unfold i; lia).
  reflexivity.
Qed.

(* the inode a reader gets when it opens p: an old one, or the new one after it was published *)
Lemma good_walk_file s x : Good s -> walk (dirs s) p = WFile x -> x < i \/ (x = i /\ published s).
Proof.
  intros [ops [sy [fl [fdl [H [Hops _]]]]]]. unfold p, published. rewrite walk_snoc.
  destruct (walk (dirs s) d); try discriminate. destruct (too_long b); try discriminate.
  rewrite (shape_view _ _ _ _ _ H), (ops_eget _ Hops).
  destruct (has_ren ops).
  - intros [= <-]. right. auto.
  - destruct (eget (dview (dirs s0) d) b) as [[j|]|] eqn:Eg; try discriminate.
    intros [= <-]. left. apply (wf_view_bound _ _ Eg).
Qed.

(* after the rename the new contents are what a reader sees *)
Lemma shape_read_published s ops sy fl fdl : Shape s ops sy fl fdl -> SafeP ops sy fl ->
  has_ren ops = true -> walk (dirs s0) d = WDir -> too_long b = false ->
  read_path s p = Some data.
Proof.
  intros H [Hops [_ Hc]] Hr Hw Hl. unfold read_path, p. rewrite walk_snoc.
  rewrite (shape_walk_d _ _ _ _ _ H), Hw, Hl.
  rewrite (shape_view _ _ _ _ _ H), (ops_eget _ Hops), Hr.
  destruct (Hc Hr) as [pm [im ->]]. rewrite (sh_files _ _ _ _ _ H).
  rewrite nth_error_app2 by (unfold i; lia). replace (i - length (files s0)) with 0 by (unfold i; lia).
  reflexivity.
Qed.

End WriteFile.

(* ---------------------------------------------------------------------------------------- *)
(* the theorems, for every state, path, contents, oracle, prefix of the trace and crash choice *)
(* ---------------------------------------------------------------------------------------- *)

Lemma read_path_nil s : read_path s [] = None.
Proof. reflexivity. Qed.

Lemma write_file_good s0 p data perm sfx f0 : wf s0 -> p <> [] ->
  chain (trace_of (write_file p data perm sfx f0 s0)) s0
        (Good s0 (parent p) (base p) data sfx) (Rstep s0 (parent p) (base p)).
Proof.
  intros Hwf Hp. rewrite (path_snoc p Hp) at 1. rewrite write_file_snoc.
  apply (write_file_chain s0 (parent p) (base p) data perm sfx f0 Hwf).
Qed.

(* ATOMIC: at every prefix of the system-call trace of WriteFile and for every crash choice, the
   target path holds the complete new contents or exactly what it would hold if the machine
   had crashed (same choice) before the call started; never partial contents *)
Theorem write_atomic : forall s0 p data perm sfx f0 k c, wf s0 ->
  let T := trace_of (write_file p data perm sfx f0 s0) in
  read_path (crash (exec (firstn k T) s0) c) p = Some data \/
  read_path (crash (exec (firstn k T) s0) c) p = read_path (crash s0 c) p.
Proof.
  intros s0 p data perm sfx f0 k c Hwf T.
  destruct (path_eq_dec p []) as [->|Hp].
  - right. reflexivity.
  - pose proof (write_file_good s0 p data perm sfx f0 Hwf Hp) as Hc.
    pose proof (chain_prefix _ _ _ _ k Hc) as Hg. fold T in Hg.
    pose proof (good_crash s0 (parent p) (base p) data sfx Hwf _ Hg c) as R.
    rewrite <- (path_snoc p Hp) in R. exact R.
Qed.

(* READERS: at every prefix, a reader that resolves the path sees the complete new contents or
   the old contents *)
Theorem readers_see_whole : forall s0 p data perm sfx f0 k, wf s0 ->
  let T := trace_of (write_file p data perm sfx f0 s0) in
  read_path (exec (firstn k T) s0) p = Some data \/
  read_path (exec (firstn k T) s0) p = read_path s0 p.
Proof.
  intros s0 p data perm sfx f0 k Hwf T.
  destruct (path_eq_dec p []) as [->|Hp].
  - right. reflexivity.
  - pose proof (write_file_good s0 p data perm sfx f0 Hwf Hp) as Hc.
    pose proof (chain_prefix _ _ _ _ k Hc) as Hg. fold T in Hg.
    pose proof (good_read s0 (parent p) (base p) data sfx Hwf _ Hg) as R.
    rewrite <- (path_snoc p Hp) in R. exact R.
Qed.

(* READERS holding a descriptor: the inode obtained by opening the path after j calls of the
   writer is not modified by any later call of the writer (so every chunk of a reader's read
   loop comes from one complete object, for every interleaving with this writer) *)
Theorem readers_fd_stable : forall s0 p data perm sfx f0 j k x, wf s0 -> j <= k ->
  let T := trace_of (write_file p data perm sfx f0 s0) in
  walk (dirs (exec (firstn j T) s0)) p = WFile x ->
  nth_error (files (exec (firstn k T) s0)) x = nth_error (files (exec (firstn j T) s0)) x.
Proof.
  intros s0 p data perm sfx f0 j k x Hwf Hjk T Hw.
  destruct (path_eq_dec p []) as [->|Hp]; [discriminate|].
  pose proof (write_file_good s0 p data perm sfx f0 Hwf Hp) as Hc. fold T in Hc.
  pose proof (chain_prefix _ _ _ _ j Hc) as Hg.
  pose proof (chain_between _ _ _ _ j k (rstep_refl s0 (parent p) (base p))
                (rstep_trans s0 (parent p) (base p)) Hc Hjk) as [R1 R2].
  rewrite (path_snoc p Hp) in Hw.
  destruct (good_walk_file s0 (parent p) (base p) data sfx Hwf _ x Hg Hw) as [Hx|[-> Hpub]].
  - apply R1. exact Hx.
  - apply R2. exact Hpub.
Qed.

(* DURABLE: when WriteFile returned nil, then for every crash choice under which the directory
   was durably reachable before the call, the path holds the new contents *)
Theorem write_durable : forall s0 p data perm sfx f0 c, wf s0 ->
  result_of (write_file p data perm sfx f0 s0) = None ->
  walk (dirs (crash s0 c)) (parent p) = WDir ->
  read_path (crash (state_of (write_file p data perm sfx f0 s0)) c) p = Some data.
Proof.
  intros s0 p data perm sfx f0 c Hwf Hr Hw.
  destruct (path_eq_dec p []) as [->|Hp].
  - exfalso. revert Hr. unfold write_file, result_of, bind, call, ret, fsync_and_close.
    cbn [parent removelast]. rewrite step_opendir, walk_nil. cbv beta iota.
    unfold bind, ret, call. cbv beta iota.
    destruct (step (SClose f0) (bind_fd s0 f0 (HDir []))) as [s2 r2]. cbn. discriminate.
  - pose proof (write_file_chain s0 (parent p) (base p) data perm sfx f0 Hwf) as [_ [_ Hf]].
    rewrite <- write_file_snoc, <- (path_snoc p Hp) in Hf. rewrite Hr in Hf.
    destruct Hf as [[im Hs] Hl].
    rewrite (path_snoc p Hp) at 2.
    eapply shape_crash_synced; eauto.
    repeat split; auto.
    + repeat constructor.
    + intros _. exists perm, im. reflexivity.
Qed.

(* frame: WriteFile changes no directory other than the parent of p, and only appends to the
   inode table *)
Lemma write_file_frame s0 p data perm sfx f0 : wf s0 -> p <> [] ->
  let s' := state_of (write_file p data perm sfx f0 s0) in
  (forall q, q <> parent p -> dirs s' q = dirs s0 q) /\
  (exists fl, files s' = files s0 ++ fl) /\ cap s' = cap s0.
Proof.
  intros Hwf Hp s'.
  pose proof (write_file_good s0 p data perm sfx f0 Hwf Hp) as Hc.
  pose proof (chain_prefix _ _ _ _ (length (trace_of (write_file p data perm sfx f0 s0))) Hc) as Hg.
  rewrite firstn_all in Hg.
  assert (Es : exec (trace_of (write_file p data perm sfx f0 s0)) s0 = s').
  { pose proof (write_file_chain s0 (parent p) (base p) data perm sfx f0 Hwf) as [_ [E _]].
    rewrite <- write_file_snoc, <- (path_snoc p Hp) in E. symmetry. exact E. }
  rewrite Es in Hg. destruct Hg as [ops [sy [fl [fdl [H _]]]]].
  split; [apply (sh_other _ _ _ _ _ _ _ H)|]. split; [exists fl; apply (sh_files _ _ _ _ _ _ _ H)|].
  apply (sh_cap _ _ _ _ _ _ _ H).
Qed.

Lemma write_file_ok_walk s0 p data perm sfx f0 :
  result_of (write_file p data perm sfx f0 s0) = None -> walk (dirs s0) (parent p) = WDir.
Proof.
  unfold write_file, result_of. unfold bind at 1. unfold call at 1. rewrite step_opendir.
  destruct (walk (dirs s0) (parent p)); auto; cbn; discriminate.
Qed.

(* when WriteFile returned nil, a reader finds the new contents; the parent directory is the
   only directory whose state changed, it has no pending operations, and the inode table grew
   by exactly the new file *)
Theorem write_ok_state : forall s0 p data perm sfx f0, wf s0 ->
  result_of (write_file p data perm sfx f0 s0) = None ->
  let s' := state_of (write_file p data perm sfx f0 s0) in
  read_path s' p = Some data /\
  (forall q, q <> parent p -> dirs s' q = dirs s0 q) /\
  d_pend (dirs s' (parent p)) = [] /\
  (exists f, files s' = files s0 ++ [f] /\ f_vol f = None /\ f_dur f = data) /\
  fds s' = fds s0 /\ cap s' = cap s0.
Proof.
  intros s0 p data perm sfx f0 Hwf Hr s'.
  pose proof (write_file_ok_walk _ _ _ _ _ _ Hr) as Hw.
  destruct (path_eq_dec p []) as [->|Hp].
  - exfalso. revert Hr. unfold write_file, result_of, bind, call, ret, fsync_and_close.
    cbn [parent removelast]. rewrite step_opendir, walk_nil. cbv beta iota.
    unfold bind, ret, call. cbv beta iota.
    destruct (step (SClose f0) (bind_fd s0 f0 (HDir []))) as [s2 r2]. cbn. discriminate.
  - pose proof (write_file_chain s0 (parent p) (base p) data perm sfx f0 Hwf) as [_ [_ Hf]].
    rewrite <- write_file_snoc, <- (path_snoc p Hp) in Hf. rewrite Hr in Hf. fold s' in Hf.
    destruct Hf as [[im Hs] Hl].
    assert (Safe : SafeP s0 (base p) data sfx
                     [OLink (tmp_name (base p) sfx) (EFile (length (files s0)));
                      ORename (tmp_name (base p) sfx) (base p) (length (files s0))] true
                     [mkFile data None perm im]).
    { repeat split; auto. repeat constructor. intros _. exists perm, im. reflexivity. }
    split.
    { rewrite (path_snoc p Hp) at 1. eapply shape_read_published; eauto. }
    split; [apply (sh_other _ _ _ _ _ _ _ Hs)|].
    split; [rewrite (sh_dir _ _ _ _ _ _ _ Hs); reflexivity|].
    split; [exists (mkFile data None perm im); split; [apply (sh_files _ _ _ _ _ _ _ Hs)|split; reflexivity]|].
    split; [apply (sh_fds _ _ _ _ _ _ _ Hs)|apply (sh_cap _ _ _ _ _ _ _ Hs)].
Qed.

(* non-vacuity: a successful overwrite in a directory with an older file *)
Example write_file_example :
  let s0 := exec [SMkdir [s2b "d"]; SOpenDir [] 0; SFsync 0; SClose 0] (init_fs false) in
  let r1 := write_file [s2b "d"; s2b "k"] (s2b "old") 420 (s2b "1") 0 s0 in
  let r2 := write_file [s2b "d"; s2b "k"] (s2b "new") 420 (s2b "2") 0 (state_of r1) in
  result_of r1 = None /\ result_of r2 = None /\
  read_path (state_of r1) [s2b "d"; s2b "k"] = Some (s2b "old") /\
  read_path (crash (state_of r2) (choice_of [] [])) [s2b "d"; s2b "k"] = Some (s2b "new") /\
  length (trace_of r2) = 10.
Proof. vm_compute. repeat split; reflexivity. Qed.
