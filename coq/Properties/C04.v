(* Properties/C04.v — statements only. Object storage is a complete, exact rendering of the leaves.
   Proved: nothing but staging bundles is ever discarded; the (simulated) object store never lets
   an immutable object be rewritten with different bytes (the Backend contract sunlight relies
   on: LocalBackend implements it, see C13).
   NOT yet a theorem: completeness and byte-exactness of all tiles behind the published checkpoint
   (invariant I3 of DESIGN.md). It is decided per run by (a) the operation-level correspondence:
   the extracted model predicts the digest of every uploaded object from the specification-level
   rendering of the leaf list, and (b) the monitor C04.audit, which after EVERY effective upload of
   the checkpoint object re-reads all data, names, hash tiles and issuers behind it and compares
   them with an independent RFC 6962 tree. Hence the names *_partial. *)
From SL Require Import Ctlog.Model Ctlog.Theorems2.

Theorem C04_partial_only_staging_discarded : forall (sha : bytes -> bytes) evs d,
  In d (w_discards (run sha evs init)) -> exists n root, fst d = staging_path n root.
Proof. exact only_staging_is_discarded. Qed.
Print Assumptions C04_partial_only_staging_discarded.

Theorem C04_partial_immutable_not_rewritten : forall s k old o f,
  lookup s k = Some old -> obj_eqb old o = false -> do_upload s k o true f = (s, false).
Proof. intros s k old o f H E. unfold do_upload. rewrite H, E. reflexivity. Qed.
Print Assumptions C04_partial_immutable_not_rewritten.
