(* Properties/C04.v — statements only. Object storage is a complete, exact rendering of the leaves.
   Because the theorems hold for `run evs` of EVERY event list, they hold after each individual
   storage operation of every history (every observable intermediate state), for all tree sizes
   and entry shapes, any number of instances, all fault placements and crash points.
   Proved for all event lists without tampering (fewer than 2^63 events: the range in which tile
   paths are injective), for every hash function [sha] (no collision-freeness is needed: the
   invariant rests on the immutability of tiles and staging bundles; Theorems3.v shows that the
   tree hash canNOT determine the uncovered fields, tree_hash_ignores_unhashed_fields):
   - C04_complete_exact: the tree of the published checkpoint is fully backed: every hash tile of
     tiles_needed(size) (full tiles and the right-edge partial per level), every data and names
     tile, present with exactly the bytes the Static CT layout prescribes for the leaf sequence;
   - C04_exact_everything: EVERY object stored under a tile path (needed or not, e.g. superseded
     partial tiles) is the canonical rendering of the committed leaf sequence and lies within it;
   - C04_only_staging_discarded; C04_immutable_not_rewritten (Backend contract of the store).
   - C04_leaf_i_carries_index_i: every leaf of every committed tree carries its own position as
     leaf index (part of the chain invariant since the recompute-cache work: wfcp);
   referenced issuers are checked by the monitor C04.audit and the operation-level correspondence. *)
From SL Require Import Merkle.TilesProofs Ctlog.Model Ctlog.Spec Ctlog.Theorems2 Ctlog.Inv3 Ctlog.Inv3Step Ctlog.Theorems3.
Open Scope N_scope.

Theorem C04_complete_exact : forall (sha : bytes -> bytes) evs P ls,
  no_tamper evs -> N.of_nat (length evs) < 9223372036854775808 ->
  published (run sha evs init) = Some P -> In (P, ls) (w_lockhist (run sha evs init)) ->
  complete_exact_spec sha (w_store (run sha evs init)) ls.
Proof. exact Theorems3.C04_complete_exact. Qed.
Print Assumptions C04_complete_exact.

Theorem C04_exact_everything : forall (sha : bytes -> bytes) evs,
  no_tamper evs -> N.of_nat (length evs) < 9223372036854775808 ->
  let w := run sha evs init in
  (forall t o, 1 <= tc_W t <= 256 -> tc_N t < 9223372036854775808 -> (Z.of_nat (tc_L t) < two63)%Z ->
     lookup (w_store w) (hash_tile_path t) = Some o ->
     o = OB (hash_tile_bytes sha (G w) t) /\
     (tc_N t * 256 + tc_W t) * 256 ^ N.of_nat (tc_L t) <= N.of_nat (length (G w))) /\
  (forall n wd o, 1 <= wd <= 256 -> n < 9223372036854775808 ->
     lookup (w_store w) (data_tile_path n wd) = Some o ->
     o = OB (data_tile_bytes (slice (G w) (n * 256) wd)) /\ n * 256 + wd <= N.of_nat (length (G w))) /\
  (forall n wd o, 1 <= wd <= 256 -> n < 9223372036854775808 ->
     lookup (w_store w) (names_tile_path n wd) = Some o ->
     o = OB (names_tile_bytes (slice (G w) (n * 256) wd)) /\ n * 256 + wd <= N.of_nat (length (G w))).
Proof. exact Theorems3.C04_exact_everything. Qed.
Print Assumptions C04_exact_everything.

Theorem C04_only_staging_discarded : forall (sha : bytes -> bytes) evs d,
  In d (w_discards (run sha evs init)) -> exists n root, fst d = staging_path n root.
Proof. exact only_staging_is_discarded. Qed.
Print Assumptions C04_only_staging_discarded.

Theorem C04_immutable_not_rewritten : forall s k old o f,
  lookup s k = Some old -> obj_eqb old o = false -> do_upload s k o true f = (s, false).
Proof. intros s k old o f H E. unfold do_upload. rewrite H, E. reflexivity. Qed.
Print Assumptions C04_immutable_not_rewritten.

(* non-vacuity: the example history publishes a committed checkpoint under the hypotheses *)
Example C04_example : no_tamper Example.history1 /\
  exists P, published (run Example.toy_sha Example.history1 init) = Some P /\ cp_size P = 3.
Proof. split; [apply no_tamperb_ok; vm_compute; reflexivity|]. vm_compute. eexists. split; reflexivity. Qed.

Theorem C04_leaf_i_carries_index_i : forall (sha : bytes -> bytes) evs c ls,
  In (c, ls) (w_lockhist (run sha evs init)) ->
  forall j sl, nth_error ls j = Some sl -> l_idx (sl_leaf sl) = Z.of_nat j.
Proof. exact committed_leaves_indexed. Qed.
Print Assumptions C04_leaf_i_carries_index_i.
