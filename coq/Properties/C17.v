(* Properties/C17.v — statements only. Admission control is bounded, priority-respecting and
   never strands a submitter. [admission] is the mutex-protected part of addLeafToPool; [victim]
   resolves Go's map iteration order and is universally quantified. *)
From SL Require Import Ctlog.Model Ctlog.Theorems Ctlog.Stop Ctlog.Frame Ctlog.Writer Ctlog.Example.

Theorem C17_pool_bounded : forall sha c closed p inseq cache e low victim wid,
  (0 < c_poolsize c)%N -> (N.of_nat (length (pl_leaves p)) <= c_poolsize c)%N ->
  (N.of_nat (length (pl_leaves (fst (admission sha c closed p inseq cache e low victim wid)))) <= c_poolsize c)%N.
Proof. exact pool_bounded. Qed.
Print Assumptions C17_pool_bounded.

Theorem C17_full_low_rejected : forall sha c p inseq cache e victim wid,
  full c p = true -> fresh_key sha p inseq cache e ->
  admission sha c None p inseq cache e true victim wid = (p, ARateLimited).
Proof. exact full_low_rejected. Qed.
Print Assumptions C17_full_low_rejected.

Theorem C17_full_high_no_low_rejected : forall sha c p inseq cache e victim wid,
  full c p = true -> fresh_key sha p inseq cache e -> lows p = [] ->
  admission sha c None p inseq cache e false victim wid = (p, ARateLimited).
Proof. exact full_high_no_low_rejected. Qed.
Print Assumptions C17_full_high_no_low_rejected.

Theorem C17_full_high_evicts_one_low : forall sha c p inseq cache e victim wid,
  full c p = true -> fresh_key sha p inseq cache e -> lows p <> [] ->
  exists v old,
    In v (lows p) /\ nth_error (pl_leaves p) v = Some old /\ p_low old = true /\
    admission sha c None p inseq cache e false victim wid =
      (mkPool (replace_nth (pl_leaves p) v (mkPend e false wid))
              ((ckey sha (p_entry old), p_wid old) :: pl_evicted p),
       AEvicting wid (p_wid old)).
Proof. exact full_high_evicts_one_low. Qed.
Print Assumptions C17_full_high_evicts_one_low.

Theorem C17_closed_rejects : forall sha c er p inseq cache e low victim wid,
  admission sha c (Some er) p inseq cache e low victim wid = (p, AClosed er).
Proof. exact closed_rejects. Qed.
Print Assumptions C17_closed_rejects.

(* non-vacuity: a full pool of size 2 holding one low-priority entry *)
Example C17_example :
  let p := mkPool [mkPend (mkEntry [x01] false [] [] [] []) false 0; mkPend (mkEntry [x02] false [] [] [] []) true 1] [] in
  full (mkCfg [] 7 2) p = true /\ lows p = [1%nat].
Proof. vm_compute. split; reflexivity. Qed.

(* The stop clause. [EvStop i why] is RunSequencer returning (why = SCancel: its context was
   cancelled, ctx.Err(); why = SSunset: AcceptingSubmissions() was false at a tick,
   SunsetLogError) with the instance between rounds; a fatal error inside a round is the subject of
   C06_refused_cas_is_fatal and C02. Every pending submitter gets exactly one outcome, the error of
   the stop, in pool order; nothing is written anywhere. *)
Theorem C17_stop_fails_every_pending_submitter : forall sha w i x why,
  get_inst (w_insts w) i = Some x -> i_pc x = PIdle ->
  let w' := fst (step sha w (EvStop i why)) in
  let o := snd (step sha w (EvStop i why)) in
  w_lock w' = w_lock w /\ w_lockhist w' = w_lockhist w /\ w_store w' = w_store w /\ w_pubhist w' = w_pubhist w /\
  (exists x', get_inst (w_insts w') i = Some x' /\ i_pc x' = PStopped /\ i_closed x' = Some (stop_err why) /\
              pl_leaves (i_pool x') = [] /\ pl_leaves (i_inseq x') = [] /\
              i_tree x' = i_tree x /\ i_lockcp x' = i_lockcp x) /\
  o = map (fun y => ObsAck (p_wid y) None (Some (stop_err why))) (pl_leaves (i_pool x)) /\
  (forall a, In a (w_acks w') -> In a (w_acks w) \/ (a_res a = None /\ a_err a = Some (stop_err why))).
Proof. exact stop_fails_all_pending. Qed.
Print Assumptions C17_stop_fails_every_pending_submitter.

(* After a stop (whatever its cause: [er] is any error, EFatal included) the instance is inert: its
   ticks, steps and further stops change nothing, every later submission fails, and none of its
   events touches the lock store, the lock history or the published history: no further checkpoint
   is ever signed by it. (Events of OTHER instances are not constrained by this statement.) *)
Theorem C17_stopped_instance_is_inert : forall sha w i x er,
  get_inst (w_insts w) i = Some x -> i_pc x = PStopped -> i_closed x = Some er ->
  (forall f ch, step sha w (EvStep i f ch) = (w, [ObsNote "step-ignored"])) /\
  step sha w (EvTick i) = (w, [ObsNote "tick-ignored"]) /\
  (forall why, step sha w (EvStop i why) = (w, [ObsNote "stop-ignored"])) /\
  (forall e low victim fs,
      let w' := fst (step sha w (EvSubmit i e low victim fs)) in
      w_lock w' = w_lock w /\ w_lockhist w' = w_lockhist w /\ w_pubhist w' = w_pubhist w /\
      (exists x', get_inst (w_insts w') i = Some x' /\ i_pc x' = PStopped /\ i_closed x' = Some er /\
                  i_pool x' = i_pool x /\ i_tree x' = i_tree x) /\
      (forall a, In a (w_acks w') -> In a (w_acks w) \/ (a_res a = None /\ a_err a <> None))).
Proof. exact stopped_instance_is_inert. Qed.
Print Assumptions C17_stopped_instance_is_inert.

(* non-vacuity: in Example.world_sunset instance 0 is idle with one pending submitter; the
   read-only stop answers that submitter with the sunset error and leaves a stopped instance *)
Example C17_stop_example :
  (exists x, get_inst (w_insts world_sunset) 0 = Some x /\ i_pc x = PIdle /\ length (pl_leaves (i_pool x)) = 1%nat) /\
  snd (step toy_sha world_sunset (EvStop 0 SSunset)) = [ObsAck 0 None (Some ESunset)] /\
  (exists x, get_inst (w_insts (fst (step toy_sha world_sunset (EvStop 0 SSunset)))) 0 = Some x /\
             i_pc x = PStopped /\ i_closed x = Some ESunset).
Proof. vm_compute. repeat split; eexists; repeat split; reflexivity. Qed.

(* ... and over whole histories: an event of instance j changes no other slot of the instance
   table, so once the sequencer of instance i has stopped with error er on tree t, the instance is
   in exactly that state (stopped, pool closed with er, tree t: it never starts a round, so it never
   signs a checkpoint) after ANY further events, of any instance, with any faults and tampering, as
   long as no event puts a new instance into slot i (the harness never reuses a slot). *)
Theorem C17_event_touches_one_instance : forall sha w e i,
  ev_inst e <> Some i -> get_inst (w_insts (fst (step sha w e))) i = get_inst (w_insts w) i.
Proof. exact step_touches_one_slot. Qed.
Print Assumptions C17_event_touches_one_instance.

Theorem C17_stopped_forever : forall sha evs w i er t,
  stopped_with w i er t -> forallb (fun e => negb (replaces e i)) evs = true ->
  stopped_with (run sha evs w) i er t.
Proof. exact stopped_forever. Qed.
Print Assumptions C17_stopped_forever.

Example C17_stopped_forever_example :
  let w := fst (step toy_sha world_sunset (EvStop 0 SSunset)) in
  let evs := [EvTick 0; EvClock 20; ok 0; EvSubmit 0 (ent x32) false 0 []; EvStart 1 cfg1 None; ok 1; ok 1; EvStop 0 SCancel] in
  stopped_with w 0 ESunset (i_tree (match get_inst (w_insts world_sunset) 0 with Some x => x | None => inst0 cfg1 end)) /\
  forallb (fun e => negb (replaces e 0)) evs = true /\
  length (w_acks (run toy_sha evs w)) = 2%nat.
Proof. vm_compute. split; [eexists; repeat split; reflexivity|split; reflexivity]. Qed.

(* "no further checkpoint is ever signed": the lock store is written only by a compare-and-swap step
   of a running round or by CreateLog (C06_lock_written_only_by_cas_or_create); an instance that has
   stopped is in neither phase, for ever (C17_stopped_forever), so none of its events writes it. *)
Theorem C17_stopped_instance_never_signs : forall sha w i er t e,
  stopped_with w i er t -> ev_inst e = Some i ->
  w_lockhist (fst (step sha w e)) = w_lockhist w /\ w_lock (fst (step sha w e)) = w_lock w.
Proof. exact stopped_instance_never_writes. Qed.
Print Assumptions C17_stopped_instance_never_signs.
