(* Properties/C17.v — statements only. Admission control is bounded, priority-respecting and
   never strands a submitter. [admission] is the mutex-protected part of addLeafToPool; [victim]
   resolves Go's map iteration order and is universally quantified. *)
From SL Require Import Ctlog.Model Ctlog.Theorems.

Theorem C17_pool_bounded : forall sha c closed p inseq cache e low victim wid,
  (0 < c_poolsize c)%N -> (N.of_nat (length (pl_leaves p)) <= c_poolsize c)%N ->
  (N.of_nat (length (pl_leaves (fst (admission sha c closed p inseq cache e low victim wid)))) <= c_poolsize c)%N.
Proof. exact pool_bounded. Qed.
Print Assumptions C17_pool_bounded.

Theorem C17_full_low_rejected : forall sha c p inseq cache e victim wid,
  full c p = true -> fresh_key sha p inseq cache e ->
  admission sha c None p inseq cache e true victim wid = (p, ARateLimited).
Proof. exact full_low_rejected. Qed.
Print Assumptions C17_full_low_rejected.

Theorem C17_full_high_no_low_rejected : forall sha c p inseq cache e victim wid,
  full c p = true -> fresh_key sha p inseq cache e -> lows p = [] ->
  admission sha c None p inseq cache e false victim wid = (p, ARateLimited).
Proof. exact full_high_no_low_rejected. Qed.
Print Assumptions C17_full_high_no_low_rejected.

Theorem C17_full_high_evicts_one_low : forall sha c p inseq cache e victim wid,
  full c p = true -> fresh_key sha p inseq cache e -> lows p <> [] ->
  exists v old,
    In v (lows p) /\ nth_error (pl_leaves p) v = Some old /\ p_low old = true /\
    admission sha c None p inseq cache e false victim wid =
      (mkPool (replace_nth (pl_leaves p) v (mkPend e false wid))
              ((ckey sha (p_entry old), p_wid old) :: pl_evicted p),
       AEvicting wid (p_wid old)).
Proof. exact full_high_evicts_one_low. Qed.
Print Assumptions C17_full_high_evicts_one_low.

Theorem C17_closed_rejects : forall sha c er p inseq cache e low victim wid,
  admission sha c (Some er) p inseq cache e low victim wid = (p, AClosed er).
Proof. exact closed_rejects. Qed.
Print Assumptions C17_closed_rejects.

(* non-vacuity: a full pool of size 2 holding one low-priority entry *)
Example C17_example :
  let p := mkPool [mkPend (mkEntry [x01] false [] [] [] []) false 0; mkPend (mkEntry [x02] false [] [] [] []) true 1] [] in
  full (mkCfg [] 7 2) p = true /\ lows p = [1%nat].
Proof. vm_compute. split; reflexivity. Qed.
