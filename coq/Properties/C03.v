(* Properties/C03.v — statements only. A crash at any point is recoverable without loss.
   Crashes are ordinary events (EvCrash between any two operations of a round or of a recovery,
   with any subset of a parallel upload batch applied, repeatedly), so theorems over all event
   lists cover every crash point, at every tree and pool size.
   Proved for all event lists without tampering (and fewer than 2^63 events, the range in which
   tile paths are injective):
   - C03_loaded_complete: whenever an instance has loaded (first start or restart after any
     crash, incl. a crash during a previous recovery), EVERY tile of the tree it loaded — the tree
     committed in the lock store at load time — is present in object storage with exactly the
     prescribed bytes;
   - C03_staging_bundles: every committed tree is complete in storage or completable from its
     staging bundle, which then is present and holds exactly the missing uploads;
   - C03_no_ack_lost (all event lists, tampering included): no acknowledged entry is lost;
   - C03_only_staging_discarded.
   Not theorems (decided per run by the harness: crash at every kind of operation of a round and
   of LoadLog, restart, audit, one more round; thorough tier: every crash position of a round x
   every crash position of the recovery): that LoadLog TERMINATES successfully after a crash
   (liveness), and that a bundle is discarded only after the published checkpoint caught up
   (monitor C03.discard; it follows the instance's own successful checkpoint upload in the model). *)
From SL Require Import Merkle.TilesProofs Ctlog.Model Ctlog.Spec Ctlog.Inv2 Ctlog.Theorems2 Ctlog.Inv3 Ctlog.Inv3Step Ctlog.Theorems3.
Open Scope N_scope.

Theorem C03_loaded_complete : forall (sha : bytes -> bytes) evs i x,
  no_tamper evs -> N.of_nat (length evs) < 9223372036854775808 ->
  get_inst (w_insts (run sha evs init)) i = Some x -> i_pc x = PIdle ->
  complete_exact_spec sha (w_store (run sha evs init)) (i_leaves x).
Proof. exact Theorems3.C03_loaded_complete. Qed.
Print Assumptions C03_loaded_complete.

Theorem C03_staging_bundles : forall (sha : bytes -> bytes) evs,
  no_tamper evs -> N.of_nat (length evs) < 9223372036854775808 ->
  let w := run sha evs init in
  (forall n root o, n < 9223372036854775808 -> lookup (w_store w) (staging_path n root) = Some o ->
     exists ls pre, N.of_nat (length ls) = n /\ root = mroot sha (leaf_hashes sha ls) /\
       prefix pre ls /\ complete_exact_spec sha (w_store w) pre /\
       o = OS (round_uploads sha ls (N.of_nat (length pre)) n)) /\
  (forall c ls, In (c, ls) (w_lockhist w) ->
     complete_exact_spec sha (w_store w) ls \/
     exists ups, lookup (w_store w) (staging_path (cp_size c) (cp_root c)) = Some (OS ups) /\
       exists ups0 pre, prefix pre ls /\ complete_exact_spec sha (w_store w) pre /\
         ups0 = round_uploads sha ls (N.of_nat (length pre)) (N.of_nat (length ls)) /\ kd_equiv ups0 ups).
Proof. exact Theorems3.C03_staging_bundles. Qed.
Print Assumptions C03_staging_bundles.

Theorem C03_no_ack_lost : forall (sha : bytes -> bytes) evs more a idx ts,
  In a (w_acks (run sha evs init)) -> a_res a = Some (idx, ts) ->
  let w' := run sha (evs ++ more) init in
  In a (w_acks w') /\
  forall c ls, In (c, ls) (w_lockhist w') -> (N.to_nat idx < length ls)%nat ->
    exists sl, nth_error ls (N.to_nat idx) = Some sl /\
      leaf_ckey sha (sl_leaf sl) = ckey sha (a_entry a) /\ l_ts (sl_leaf sl) = ts /\ l_idx (sl_leaf sl) = Z.of_N idx.
Proof.
  intros sha evs more a idx ts Hin Hres w'.
  assert (Hin' : In a (w_acks w')) by (apply acks_never_retracted; assumption).
  split; [assumption|]. apply (ack_names_committed_leaf sha (evs ++ more) a idx ts Hin' Hres).
Qed.
Print Assumptions C03_no_ack_lost.

Theorem C03_only_staging_discarded : forall (sha : bytes -> bytes) evs d,
  In d (w_discards (run sha evs init)) -> exists n root, fst d = staging_path n root.
Proof. exact only_staging_is_discarded. Qed.
Print Assumptions C03_only_staging_discarded.

(* non-vacuity: the example history (crash after the compare-and-swap, recovery through the
   staging bundle) meets the hypotheses and ends with an idle, loaded instance *)
Example C03_example : no_tamper Example.history1 /\ N.of_nat (length Example.history1) < 9223372036854775808.
Proof. split; [apply no_tamperb_ok; vm_compute; reflexivity|vm_compute; reflexivity]. Qed.
