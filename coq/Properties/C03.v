(* Properties/C03.v — statements only. A crash at any point is recoverable without loss.
   Crashes are ordinary events (EvCrash between any two operations of a round or of a recovery,
   with any subset of a parallel upload batch applied), so the all-event-list theorems cover them:
   - no acknowledged entry is lost: every acknowledgement stays in every later state and names a
     leaf of every committed tree that is large enough (C03_partial_no_ack_lost);
   - nothing but staging bundles is ever discarded (C03_partial_only_staging_discarded).
   NOT yet a theorem (exercised by the harness instead: crash at every kind of operation of a round
   and of LoadLog, restart, full audit of all tiles of the lock tree, one more round):
   "a restart loads successfully, after which every tile of the lock tree is present", and
   "the bundle is discarded only after the published checkpoint caught up" (monitor C03.discard). *)
From SL Require Import Ctlog.Model Ctlog.Spec Ctlog.Inv2 Ctlog.Theorems2.

Theorem C03_partial_no_ack_lost : forall (sha : bytes -> bytes) evs more a idx ts,
  In a (w_acks (run sha evs init)) -> a_res a = Some (idx, ts) ->
  let w' := run sha (evs ++ more) init in
  In a (w_acks w') /\
  forall c ls, In (c, ls) (w_lockhist w') -> (N.to_nat idx < length ls)%nat ->
    exists sl, nth_error ls (N.to_nat idx) = Some sl /\
      leaf_ckey sha (sl_leaf sl) = ckey sha (a_entry a) /\ l_ts (sl_leaf sl) = ts /\ l_idx (sl_leaf sl) = Z.of_N idx.
Proof.
  intros sha evs more a idx ts Hin Hres w'.
  assert (Hin' : In a (w_acks w')) by (apply acks_never_retracted; assumption).
  split; [assumption|]. apply (ack_names_committed_leaf sha (evs ++ more) a idx ts Hin' Hres).
Qed.
Print Assumptions C03_partial_no_ack_lost.

Theorem C03_partial_only_staging_discarded : forall (sha : bytes -> bytes) evs d,
  In d (w_discards (run sha evs init)) -> exists n root, fst d = staging_path n root.
Proof. exact only_staging_is_discarded. Qed.
Print Assumptions C03_partial_only_staging_discarded.
