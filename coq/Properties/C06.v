(* Properties/C06.v — statements only. Concurrent, stale or misconfigured instances cannot fork a log.
   Any number of instances; the interleaving of their storage/lock operations is the order of
   EvStep events in the event list.
   - at most one instance extends any given checkpoint: the lock history has no repeated value
     and the lock always holds its last element; a compare-and-swap whose expected value is no
     longer current changes nothing, stops the instance with a fatal error and acknowledges nothing;
   - history stays append-only (lock history; for the published history see the known finding);
   - a log is never created over an existing one; LoadLog refuses storage ahead of the lock
     store, same size with another root, a foreign key or name, an extension line. *)
From SL Require Import Ctlog.Model Ctlog.Spec Ctlog.Inv Ctlog.Theorems Ctlog.Example Ctlog.Stop Ctlog.Frame Ctlog.Writer.

Theorem C06_no_fork : forall (sha : bytes -> bytes) (evs : list ev),
  let w := run sha evs init in
  NoDup (map fst (w_lockhist w)) /\ lock_last (w_lockhist w) (w_lock w) /\ append_only sha (w_lockhist w).
Proof.
  intros sha evs. split; [apply lock_history_nodup|]. split; [apply lock_is_last|apply lock_history_append_only].
Qed.
Print Assumptions C06_no_fork.

Theorem C06_cas_refused_is_fatal : forall (sha : bytes -> bytes) w i x f choice,
  get_inst (w_insts w) i = Some x -> i_pc x = PRound RCas ->
  (match w_lock w with Some c => cp_eqb c (i_lockcp x) | None => false end) = false ->
  let w' := fst (step sha w (EvStep i f choice)) in
  w_lockhist w' = w_lockhist w /\ w_lock w' = w_lock w /\ w_store w' = w_store w /\
  (exists x', get_inst (w_insts w') i = Some x' /\ i_pc x' = PStopped /\ i_closed x' = Some EFatal) /\
  (forall a, In a (w_acks w') -> In a (w_acks w) \/ a_res a = None).
Proof. exact cas_refused_is_fatal. Qed.
Print Assumptions C06_cas_refused_is_fatal.

Theorem C06_create_over_existing_refused : forall (sha : bytes -> bytes) w i x f c0,
  get_inst (w_insts w) i = Some x -> i_pc x = PCreate 2 -> w_lock w = Some c0 ->
  let w' := fst (step sha w (EvStep i f [])) in
  w_lock w' = Some c0 /\ w_lockhist w' = w_lockhist w /\ w_store w' = w_store w /\
  exists x', get_inst (w_insts w') i = Some x' /\ i_pc x' = PNone.
Proof. exact create_over_existing_refused. Qed.
Print Assumptions C06_create_over_existing_refused.

Theorem C06_load_refuses_bad_storage_checkpoint : forall (sha : bytes -> bytes) w i x f p,
  get_inst (w_insts w) i = Some x -> i_pc x = PLoad LPub ->
  lookup (w_store w) k_checkpoint = Some (OC p) ->
  (cp_size (i_lockcp x) < cp_size p
   \/ (cp_size p = cp_size (i_lockcp x) /\ cp_root p <> cp_root (i_lockcp x))
   \/ cp_key p <> c_key (i_cfg x) \/ cp_origin p <> c_name (i_cfg x)
   \/ cp_ext p <> [])%N ->
  let w' := fst (step sha w (EvStep i f [])) in
  exists x', get_inst (w_insts w') i = Some x' /\ i_pc x' = PNone.
Proof. exact load_refuses_bad_storage_checkpoint. Qed.
Print Assumptions C06_load_refuses_bad_storage_checkpoint.

(* The clause "history stays append-only" is FALSE of the code for the history published in
   object storage (it holds for the lock store, above): known finding, DESIGN.md 0.3 / 9.3.
   Witness: Ctlog/Example.v history_rollback (two live instances); after it, the published
   checkpoint has size 1 although size 2 was published before and index 1 was acknowledged. *)
Theorem C06_published_rollback_refuted : exists (sha : bytes -> bytes) (evs : list ev),
  let w := run sha evs init in
  map (fun c => cp_size (fst c)) (w_pubhist w) = [0; 2; 1]%N /\
  exists a idx ts P, In a (w_acks w) /\ a_res a = Some (idx, ts) /\
                     published w = Some P /\ (cp_size P <= idx)%N.
Proof.
  exists toy_sha, history_rollback. vm_compute. split; [reflexivity|].
  eexists. exists 1%N. eexists. eexists. split; [left; reflexivity|]. split; [reflexivity|].
  split; [reflexivity|]. discriminate.
Qed.
Print Assumptions C06_published_rollback_refuted.

(* Who can write the lock store at all: the compare-and-swap step of a running round and the
   Lock.Create step of CreateLog, nothing else — not LoadLog, not any other phase of a round, not a
   submission, a stop, a crash, the recompute tool or tampering with object storage. *)
Theorem C06_lock_written_only_by_cas_or_create : forall (sha : bytes -> bytes) w e,
  same_lock w (fst (step sha w e)) \/ lock_writer w e.
Proof. exact lock_changes_only_at_cas_or_create. Qed.
Print Assumptions C06_lock_written_only_by_cas_or_create.
