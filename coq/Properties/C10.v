(* Properties/C10.v — statements only. Tile, leaf, extension and tile-path encodings are
   canonical bijections (model: Codec/Leaf.v, a transcription of tile.go / extensions.go and of
   tlog.Tile.Path / tlog.ParseTilePath; tie: differential run of the extracted model against
   the Go functions, see checks/c10.py). *)
From SL Require Import Base.Cryptobyte Base.ReaderGen Gen.Builders Gen.Builders2 Gen.Readers Codec.Leaf Codec.LeafProofs Codec.PathProofs Codec.GenProofs Codec.GenReaderProofs.

(* every entry within the documented limits encodes (no builder error = no panic) and the
   decoder returns exactly that entry and exactly the remaining bytes *)
Theorem C10_encode_decode : forall (t : bytes) (e : leaf), wf_leaf e = true ->
  exists bs, append_tile_leaf t e = Some (t ++ bs) /\
    forall rest, read_tile_leaf_maybe_archival (bs ++ rest) = Some (e, rest).
Proof. exact c10_encode_decode. Qed.
Print Assumptions C10_encode_decode.

(* decoding ANY byte string either fails (None; the decoder is a total function, it has no
   panic path) or yields an entry within the limits and a prefix that re-encodes to the same bytes *)
Theorem C10_decode_encode : forall (bs : bytes) (e : leaf) (rest : bytes),
  read_tile_leaf_maybe_archival bs = Some (e, rest) ->
  wf_leaf e = true /\ exists enc, append_tile_leaf [] e = Some enc /\ bs = enc ++ rest.
Proof. exact c10_decode_encode. Qed.
Print Assumptions C10_decode_encode.

Theorem C10_read_strict : forall bs e rest,
  read_tile_leaf bs = Some (e, rest) <->
  read_tile_leaf_maybe_archival bs = Some (e, rest) /\ l_arch e = false.
Proof. exact c10_read_strict. Qed.
Print Assumptions C10_read_strict.

(* the Merkle leaf is the RFC 6962 MerkleTreeLeaf of the presentation-language definition *)
Theorem C10_merkle_leaf_spec : forall e, wf_leaf e = true ->
  merkle_tree_leaf e = Some (tls_merkle_tree_leaf_spec e).
Proof. exact c10_merkle_spec. Qed.
Print Assumptions C10_merkle_leaf_spec.

Theorem C10_merkle_leaf_inj : forall e1 e2, wf_leaf e1 = true -> wf_leaf e2 = true ->
  merkle_tree_leaf e1 = merkle_tree_leaf e2 -> covered e1 = covered e2.
Proof. exact c10_merkle_inj. Qed.
Print Assumptions C10_merkle_leaf_inj.

Theorem C10_ext_roundtrip : forall idx, (0 <= idx < two40)%Z ->
  exists b, marshal_extensions idx = Some b /\ parse_extensions b = Some idx.
Proof. exact c10_ext_roundtrip. Qed.
Print Assumptions C10_ext_roundtrip.

Theorem C10_ext_range : forall idx, (idx < 0 \/ two40 <= idx)%Z -> marshal_extensions idx = None.
Proof. exact marshal_extensions_err. Qed.
Print Assumptions C10_ext_range.

(* tile paths, direction parse -> print: an accepted path is the canonical path of a valid tile *)
Theorem C10_path_canonical : forall s t,
  parse_tile_path s = Some t -> tile_path t = Some s /\ valid_tile t = true.
Proof. exact parse_path_canonical. Qed.
Print Assumptions C10_path_canonical.

(* tile paths, direction print -> parse, for hash (L >= 0), data (L = -1) and names (L = -2) tiles *)
Theorem C10_path_roundtrip : forall t, valid_tile t = true ->
  exists s, tile_path t = Some s /\ parse_tile_path s = Some t.
Proof. exact path_roundtrip. Qed.
Print Assumptions C10_path_roundtrip.

(* MerkleTreeLeaf as TRANSLATED from tile.go on every run (Gen/Builders.v, /verif/translate) is the
   model's merkle_tree_leaf, the helper addExtensions being the model's add_extensions *)
Theorem C10_merkle_leaf_code_is_model : forall e,
  gen_merkle_tree_leaf (add_extensions e) (l_cert e) (l_pre e) (l_ikh e) (u64 (l_ts e)) = merkle_tree_leaf e.
Proof. exact gen_merkle_tree_leaf_is_model. Qed.
Print Assumptions C10_merkle_leaf_code_is_model.

Theorem C10_append_tile_leaf_code_is_model : forall t e,
  gen_append_tile_leaf (add_extensions e) (l_cert e) (l_fps e) (l_pre e) (l_ikh e) (l_precert e) t (u64 (l_ts e))
  = append_tile_leaf t e.
Proof. exact gen_append_tile_leaf_is_model. Qed.
Print Assumptions C10_append_tile_leaf_code_is_model.

(* non-vacuity: a concrete precertificate entry with two fingerprints meets the hypotheses *)
Example C10_wf_example :
  wf_leaf (mkLeaf [x30; x82] true (repeat x07 32) [repeat x01 32; repeat x02 32] [x30; x03] 1099511627775 false 1700000000000) = true
  /\ valid_tile (mkTile 8 (-2) 1234067 255) = true.
Proof. split; vm_compute; reflexivity. Qed.

(* readTileLeaf as TRANSLATED from tile.go on every run (Gen/Readers.v, /verif/translate reader.go: a
   decision tree over the record of the Go variables the function writes; the fingerprint loop a
   fuelled fixpoint; the helper readUint40 a parameter, instantiated with the 5-byte big-endian
   read) returns, on EVERY byte string, exactly what the model's read_tile_leaf_raw returns — the
   entry and the rest on `return e, s, nil`, a rejection otherwise — so every theorem above about
   the model's decoder (round trip, canonicity, strictness of the extensions field) is a theorem
   about the code as it reads now. *)
Theorem C10_read_tile_leaf_code_is_model : forall tile,
  rtl_result (gen_rtl (rd_u 5) tile) = read_tile_leaf_raw tile.
Proof. exact gen_rtl_is_model. Qed.
Print Assumptions C10_read_tile_leaf_code_is_model.

(* the translated loop never exhausts its fuel, and the whole function was inside the translated subset *)
Theorem C10_read_tile_leaf_code_total : forall tile,
  gen_rtl (rd_u 5) tile <> NoFuel /\ gen_rtl_continues = String.EmptyString.
Proof. intro tile. split; [apply gen_rtl_never_out_of_fuel|exact gen_rtl_whole_function]. Qed.
Print Assumptions C10_read_tile_leaf_code_total.

(* MarshalExtensions as translated from extensions.go (range guard with SetError, then addUint40) *)
Theorem C10_marshal_extensions_code_is_model : forall idx,
  gen_marshal_extensions (b_add (be 5 (Z.to_N idx))) idx = marshal_extensions idx.
Proof. exact gen_marshal_extensions_is_model. Qed.
Print Assumptions C10_marshal_extensions_code_is_model.

(* non-vacuity of the code-is-model theorem: on a real precertificate leaf both sides accept *)
Example C10_read_tile_leaf_code_example :
  exists e r, rtl_result (gen_rtl (rd_u 5)
    (be 8 1700000000000 ++ be 2 1 ++ repeat x07 32 ++ be 3 2 ++ [x30; x82] ++ be 2 8 ++ [x00] ++ be 2 5 ++ be 5 77
     ++ be 3 1 ++ [x31] ++ be 2 32 ++ repeat x01 32 ++ [xff])) = Some (e, r)
    /\ l_idx e = 77%Z /\ l_pre e = true /\ r = [xff].
Proof. do 2 eexists. split; [vm_compute; reflexivity|]. repeat split. Qed.

(* ParseExtensions as translated from extensions.go (the loop over extensions is a fuelled fixpoint):
   on every byte string it returns the model's leaf index or rejects as the model does *)
Theorem C10_parse_extensions_code_is_model : forall s,
  pext_result (gen_pext (rd_u 5) s) = parse_extensions s.
Proof. exact gen_pext_is_model. Qed.
Print Assumptions C10_parse_extensions_code_is_model.

(* non-vacuity: an unknown extension followed by the leaf_index extension *)
Example C10_parse_extensions_code_example :
  pext_result (gen_pext (rd_u 5) ([x07] ++ be 2 2 ++ [xaa; xbb] ++ [x00] ++ be 2 5 ++ be 5 1099511627775)) = Some 1099511627775%Z
  /\ pext_result (gen_pext (rd_u 5) ([x07] ++ be 2 2 ++ [xaa; xbb])) = None.
Proof. split; vm_compute; reflexivity. Qed.
