(* Properties/C01.v — statements only. Checkpoint history of a log is append-only.
   Model: Ctlog/Model.v (one step = one storage/lock operation of one instance); event lists
   range over all submissions, rounds (empty, multi-tile), fault placements (applied or not),
   crashes, restarts, clock values, any number of instances and arbitrary tampering of object
   storage. [sha] is universally quantified: no property of SHA-256 is used.
   Proved here: the lock-store history is append-only (sizes never shrink, earlier roots are the
   roots of prefixes of later leaf sequences, timestamps strictly increase) and every published
   checkpoint was committed to the lock store before it became readable.
   The *published* history is append-only exactly as far as every upload of the checkpoint object
   carried the then-current lock value ([uploads_current], C01_published_history_append_only);
   that premise is what the harness monitor checks on every upload: it holds whenever one instance
   is live at a time (crashes and restarts: C01's own quantifier) and fails in the known finding
   under C06 (two live instances; Properties/C06.v, C06_published_rollback_refuted). *)
From SL Require Import Ctlog.Model Ctlog.Spec Ctlog.Theorems Ctlog.PubMono Ctlog.Solo Ctlog.Example.

Theorem C01_lock_history_append_only : forall (sha : bytes -> bytes) (evs : list ev),
  append_only sha (w_lockhist (run sha evs init)).
Proof. exact lock_history_append_only. Qed.
Print Assumptions C01_lock_history_append_only.

Theorem C01_published_was_committed_first : forall (sha : bytes -> bytes) (evs : list ev) (c : cp) (k : nat),
  In (c, k) (w_pubhist (run sha evs init)) ->
  exists ls, In (c, ls) (firstn k (w_lockhist (run sha evs init))).
Proof. exact published_was_committed_first. Qed.
Print Assumptions C01_published_was_committed_first.

Theorem C01_published_history_append_only : forall (sha : bytes -> bytes) (evs : list ev),
  let w := run sha evs init in
  uploads_current w ->
  forall i j c k c' k', (i < j)%nat ->
    nth_error (w_pubhist w) i = Some (c, k) -> nth_error (w_pubhist w) j = Some (c', k') ->
    c = c' \/
    (cp_size c <= cp_size c' /\ (cp_ts c < cp_ts c')%Z /\
     exists ls', In (c', ls') (w_lockhist w) /\
                 cp_root c = mroot sha (leaf_hashes sha (firstn (N.to_nat (cp_size c)) ls')))%N.
Proof. exact published_history_append_only. Qed.
Print Assumptions C01_published_history_append_only.

(* C01's own quantifier — submissions, rounds, faults, crashes and restarts, clocks — has at most one
   live instance at a time ([solo_run]: in every state along the run at most one instance is
   neither unstarted, crashed nor stopped). Then the premise holds, and with it the clause. *)
Theorem C01_one_live_instance_uploads_current : forall (sha : bytes -> bytes) (evs : list ev),
  solo_run sha evs init -> uploads_current (run sha evs init).
Proof. exact solo_run_uploads_current. Qed.
Print Assumptions C01_one_live_instance_uploads_current.

(* non-vacuity: the example history (a crash, then a second instance) has one live instance at a time *)
Example C01_example_solo : solo_run toy_sha history1 init.
Proof. apply solo_run_b_sound. vm_compute. reflexivity. Qed.

(* non-vacuity of the premise: in the example history every upload was current *)
Example C01_example_uploads_current : uploads_current world1.
Proof. apply uploads_current_b_sound. vm_compute. reflexivity. Qed.

(* non-vacuity: a history with a failed checkpoint upload, a crash after the CAS and a recovery
   commits five checkpoints and publishes three *)
Example C01_example :
  length (w_lockhist world1) = 5%nat /\ length (w_pubhist world1) = 3%nat
  /\ map (fun c => cp_size (fst c)) (w_lockhist world1) = [0; 1; 2; 3; 3]%N.
Proof. vm_compute. repeat split. Qed.
