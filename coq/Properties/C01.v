(* Properties/C01.v — statements only. Checkpoint history of a log is append-only.
   Model: Ctlog/Model.v (one step = one storage/lock operation of one instance); event lists
   range over all submissions, rounds (empty, multi-tile), fault placements (applied or not),
   crashes, restarts, clock values, any number of instances and arbitrary tampering of object
   storage. [sha] is universally quantified: no property of SHA-256 is used.
   Proved here: the lock-store history is append-only (sizes never shrink, earlier roots are the
   roots of prefixes of later leaf sequences, timestamps strictly increase) and every published
   checkpoint was committed to the lock store before it became readable.
   Not a theorem (false of the code with two live instances, see known finding C06): that the
   *published* history never shrinks; for one live instance it is exercised by the harness monitors. *)
From SL Require Import Ctlog.Model Ctlog.Spec Ctlog.Theorems Ctlog.Example.

Theorem C01_lock_history_append_only : forall (sha : bytes -> bytes) (evs : list ev),
  append_only sha (w_lockhist (run sha evs init)).
Proof. exact lock_history_append_only. Qed.
Print Assumptions C01_lock_history_append_only.

Theorem C01_published_was_committed_first : forall (sha : bytes -> bytes) (evs : list ev) (c : cp) (k : nat),
  In (c, k) (w_pubhist (run sha evs init)) ->
  exists ls, In (c, ls) (firstn k (w_lockhist (run sha evs init))).
Proof. exact published_was_committed_first. Qed.
Print Assumptions C01_published_was_committed_first.

(* non-vacuity: a history with a failed checkpoint upload, a crash after the CAS and a recovery
   commits five checkpoints and publishes three *)
Example C01_example :
  length (w_lockhist world1) = 5%nat /\ length (w_pubhist world1) = 3%nat
  /\ map (fun c => cp_size (fst c)) (w_lockhist world1) = [0; 1; 2; 3; 3]%N.
Proof. vm_compute. repeat split. Qed.
