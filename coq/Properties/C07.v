(* Properties/C07.v — statements only. Resubmissions get the identical answer; indexes are real.
   - a resubmission of a pending / in-sequencing entry joins the original's waiter and adds no leaf;
   - a resubmission of an acknowledged entry found in the dedup cache is answered with the cached
     (index, timestamp) and adds no leaf;
   - EVERY acknowledgement, including those served from the cache, a cache file taken over by a
     restarted instance, or a rolled-back cache (EvCacheDrop), names an index that really holds an
     entry with that dedup identity and timestamp (so losing the cache can only make the
     sequencer add a duplicate leaf, never give a wrong answer);
   - the dedup identity depends only on (type, issuer key hash if precertificate, certificate/TBS).
   Not covered here: byte-identity of the SCT signature (RFC 6979 determinism is observed by the
   C11 harness), the legacy 128-bit cache table, and equality of the two copies of
   computeCacheHash (ctlog.go / cmd/recompute-cache), which the harness exercises. *)
From SL Require Import Ctlog.Model Ctlog.Spec Ctlog.Inv2 Ctlog.Theorems2.

Theorem C07_resubmission_joins_pending : forall sha c p inseq cache e low victim wid wd,
  in_pool sha p (ckey sha e) = Some wd \/ (in_pool sha p (ckey sha e) = None /\ in_pool sha inseq (ckey sha e) = Some wd) ->
  admission sha c None p inseq cache e low victim wid = (p, ADup wd).
Proof. exact resubmission_joins_pending. Qed.
Print Assumptions C07_resubmission_joins_pending.

Theorem C07_resubmission_answered_from_cache : forall sha c p inseq cache e low victim wid idx ts,
  in_pool sha p (ckey sha e) = None -> in_pool sha inseq (ckey sha e) = None ->
  cache_get cache (ckey sha e) = Some (idx, ts) ->
  admission sha c None p inseq cache e low victim wid = (p, ACached idx ts).
Proof. exact resubmission_answered_from_cache. Qed.
Print Assumptions C07_resubmission_answered_from_cache.

Theorem C07_every_answer_names_the_entry : forall (sha : bytes -> bytes) evs a idx ts,
  let w := run sha evs init in
  In a (w_acks w) -> a_res a = Some (idx, ts) ->
  (exists c ls, In (c, ls) (w_lockhist w) /\ (N.to_nat idx < length ls)%nat) /\
  forall c ls, In (c, ls) (w_lockhist w) -> (N.to_nat idx < length ls)%nat ->
    exists sl, nth_error ls (N.to_nat idx) = Some sl /\
      leaf_ckey sha (sl_leaf sl) = ckey sha (a_entry a) /\ l_ts (sl_leaf sl) = ts /\ l_idx (sl_leaf sl) = Z.of_N idx.
Proof. exact ack_names_committed_leaf. Qed.
Print Assumptions C07_every_answer_names_the_entry.

Theorem C07_identity : forall sha e1 e2,
  e_cert e1 = e_cert e2 -> e_pre e1 = e_pre e2 -> (e_pre e1 = true -> e_ikh e1 = e_ikh e2) ->
  ckey sha e1 = ckey sha e2.
Proof. exact ckey_only_identity. Qed.
Print Assumptions C07_identity.
