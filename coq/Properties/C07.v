(* Properties/C07.v — statements only. Resubmissions get the identical answer; indexes are real.
   - a resubmission of a pending / in-sequencing entry joins the original's waiter and adds no leaf;
   - a resubmission of an acknowledged entry found in the dedup cache is answered with the cached
     (index, timestamp) and adds no leaf;
   - EVERY acknowledgement, including those served from the cache, a cache file taken over by a
     restarted instance, or a rolled-back cache (EvCacheDrop), names an index that really holds an
     entry with that dedup identity and timestamp (so losing the cache can only make the
     sequencer add a duplicate leaf, never give a wrong answer); the event set of [run] includes
     cmd/recompute-cache (EvRecompute: any instance's cache file, any key, killed after any number
     of inserted rows), so the statement covers a cache rebuilt, partially rebuilt or topped up by
     the tool, while the log is running or not;
   - a run of the tool that ends with "ok" leaves a row for every entry of the full tiles of the
     published tree (of the whole tree when it has no full tile): deduplication is restored;
   - the dedup identity depends only on (type, issuer key hash if precertificate, certificate/TBS).
   - the legacy 128-bit table (cacheGet's fallback, Ctlog/Legacy.v: cache_get2): without a legacy
     table cacheGet IS the lookup the world model uses (C07_legacy_absent_is_plain), a 256-bit row
     always wins, an answer from the legacy table names an index holding a committed entry whose key
     agrees on 128 bits (C07_legacy_answer_truncated), hence THAT entry when no committed entry
     collides with it on 128 bits (C07_legacy_answer_sound); the premise is necessary
     (C07_legacy_answer_refuted: with a colliding hash the table answers a different entry's index).
   Not covered here: byte-identity of the SCT signature (RFC 6979 determinism is observed by the
   C11 harness); the legacy table is not part of the world model's state (it is a pure lookup
   layer; its rows are assumed to have been valid cache rows of a committed history). The two
   copies of computeCacheHash (ctlog.go / cmd/recompute-cache) are one function in the model
   (ckey / leaf_ckey); that the tool's copy computes it is what the correspondence run checks by
   running the real binary (cache rows compared row by row, monitor C07.cacherow). *)
From SL Require Import Merkle.TilesProofs Ctlog.Model Ctlog.Spec Ctlog.Inv2 Ctlog.Theorems2 Ctlog.Theorems3 Ctlog.RecomputeOk Ctlog.Example Ctlog.Legacy Ctlog.LegacyProofs Base.Cryptobyte Gen.Builders Ctlog.GenProofs Ctlog.Origin.

Theorem C07_resubmission_joins_pending : forall sha c p inseq cache e low victim wid wd,
  in_pool sha p (ckey sha e) = Some wd \/ (in_pool sha p (ckey sha e) = None /\ in_pool sha inseq (ckey sha e) = Some wd) ->
  admission sha c None p inseq cache e low victim wid = (p, ADup wd).
Proof. exact resubmission_joins_pending. Qed.
Print Assumptions C07_resubmission_joins_pending.

Theorem C07_resubmission_answered_from_cache : forall sha c p inseq cache e low victim wid idx ts,
  in_pool sha p (ckey sha e) = None -> in_pool sha inseq (ckey sha e) = None ->
  cache_get cache (ckey sha e) = Some (idx, ts) ->
  admission sha c None p inseq cache e low victim wid = (p, ACached idx ts).
Proof. exact resubmission_answered_from_cache. Qed.
Print Assumptions C07_resubmission_answered_from_cache.

Theorem C07_every_answer_names_the_entry : forall (sha : bytes -> bytes) evs a idx ts,
  let w := run sha evs init in
  In a (w_acks w) -> a_res a = Some (idx, ts) ->
  (exists c ls, In (c, ls) (w_lockhist w) /\ (N.to_nat idx < length ls)%nat) /\
  forall c ls, In (c, ls) (w_lockhist w) -> (N.to_nat idx < length ls)%nat ->
    exists sl, nth_error ls (N.to_nat idx) = Some sl /\
      leaf_ckey sha (sl_leaf sl) = ckey sha (a_entry a) /\ l_ts (sl_leaf sl) = ts /\ l_idx (sl_leaf sl) = Z.of_N idx.
Proof. exact ack_names_committed_leaf. Qed.
Print Assumptions C07_every_answer_names_the_entry.

Theorem C07_identity : forall sha e1 e2,
  e_cert e1 = e_cert e2 -> e_pre e1 = e_pre e2 -> (e_pre e1 = true -> e_ikh e1 = e_ikh e2) ->
  ckey sha e1 = ckey sha e2.
Proof. exact ckey_only_identity. Qed.
Print Assumptions C07_identity.

Theorem C07_recompute_restores_dedup : forall (sha : bytes -> bytes) evs i key x p ls,
  let w := run sha evs init in
  get_inst (w_insts w) i = Some x ->
  published w = Some p -> hist_leaves (w_lockhist w) p = Some ls ->
  In (ObsNote "recompute-ok") (snd (step sha w (EvRecompute i key None))) ->
  exists x', get_inst (w_insts (fst (step sha w (EvRecompute i key None)))) i = Some x' /\
    forall j sl, (N.of_nat j < rc_top (cp_size p))%N -> nth_error ls j = Some sl ->
      cache_get (i_cache x') (leaf_ckey sha (sl_leaf sl)) <> None.
Proof. exact recompute_restores_dedup. Qed.
Print Assumptions C07_recompute_restores_dedup.

(* ... and on an untampered history (fewer than 2^63 events) a complete run with the log's own key
   cannot fail: the published tree is complete and exact in storage (C04), every committed leaf
   carries its own position, and the published checkpoint was committed *)
Theorem C07_recompute_succeeds_untampered : forall (sha : bytes -> bytes) evs i x p,
  no_tamper evs -> (N.of_nat (length evs) < n63)%N ->
  let w := run sha evs init in
  get_inst (w_insts w) i = Some x -> published w = Some p ->
  In (ObsNote "recompute-ok") (snd (step sha w (EvRecompute i (cp_key p) None))).
Proof. exact recompute_succeeds. Qed.
Print Assumptions C07_recompute_succeeds_untampered.

(* non-vacuity: after a cache loss the tool ends with "ok" and the lost row is back *)
Example C07_recompute_example :
  (match get_inst (w_insts world_rc) 0 with Some x => i_cache x | None => [] end) = [] /\
  In (ObsNote "recompute-ok") (snd (step toy_sha world_rc (EvRecompute 0 7 None))) /\
  (match get_inst (w_insts (fst (step toy_sha world_rc (EvRecompute 0 7 None)))) 0 with
   | Some x => cache_get (i_cache x) (ckey toy_sha (ent x31)) | None => None end) = Some (0%N, 20%Z) /\
  snd (step toy_sha world_rc (EvRecompute 0 8 None)) = [ObsNote "recompute-signature"; ObsCache 0 []] /\
  no_tamper history_rc.
Proof. split; [|split; [|split; [|split]]]; try (vm_compute; auto; fail). apply no_tamperb_ok. vm_compute. reflexivity. Qed.

(* ---------- the legacy 128-bit table (cache.go: cacheGet) ---------- *)
Theorem C07_legacy_absent_is_plain : forall c k,
  lc_flag c = false \/ lc_legacy c = None -> fst (cache_get2 c k) = cache_get (lc_256 c) k.
Proof. exact cache_get2_plain. Qed.
Print Assumptions C07_legacy_absent_is_plain.

Theorem C07_legacy_256_first : forall c k v, cache_get (lc_256 c) k = Some v -> cache_get2 c k = (Some v, c).
Proof. exact cache_get2_256_first. Qed.
Print Assumptions C07_legacy_256_first.

Theorem C07_legacy_answer_truncated : forall (sha : bytes -> bytes) h c e idx ts,
  cache_ok sha h (lc_256 c) -> (forall l, lc_legacy c = Some l -> legacy_ok sha h l) ->
  fst (cache_get2 c (ckey sha e)) = Some (idx, ts) ->
  exists k, firstn 16 k = firstn 16 (ckey sha e) /\ holds_at sha h k idx ts.
Proof. exact legacy_answer_truncated. Qed.
Print Assumptions C07_legacy_answer_truncated.

Theorem C07_legacy_answer_sound : forall (sha : bytes -> bytes) h c e idx ts,
  cache_ok sha h (lc_256 c) -> (forall l, lc_legacy c = Some l -> legacy_ok sha h l) ->
  (forall k i t, holds_at sha h k i t -> firstn 16 k = firstn 16 (ckey sha e) -> k = ckey sha e) ->
  fst (cache_get2 c (ckey sha e)) = Some (idx, ts) -> holds_at sha h (ckey sha e) idx ts.
Proof. exact legacy_answer_sound. Qed.
Print Assumptions C07_legacy_answer_sound.

Theorem C07_legacy_rows_of_valid_cache : forall (sha : bytes -> bytes) h r,
  cache_ok sha h r -> legacy_ok sha h (truncate_rows r []).
Proof. exact truncated_rows_of_valid_cache. Qed.
Print Assumptions C07_legacy_rows_of_valid_cache.

Theorem C07_legacy_answer_refuted :
  cache_ok id_sha col_hist [(ckey id_sha col_e1, (0%N, 20%Z))] /\
  (forall l, lc_legacy col_cache = Some l -> legacy_ok id_sha col_hist l) /\
  fst (cache_get2 col_cache (ckey id_sha col_e2)) = Some (0%N, 20%Z) /\
  ~ holds_at id_sha col_hist (ckey id_sha col_e2) 0 20.
Proof. exact legacy_answer_refuted. Qed.
Print Assumptions C07_legacy_answer_refuted.

(* ---------- the two copies of computeCacheHash, translated from the Go source on every run ----------
   Gen/Builders.v is rewritten by /verif/translate from /repo's current ctlog.go and
   recompute-cache.go before this file is compiled: gen_ctlog_cache_key / gen_recompute_cache_key
   are the cryptobyte.Builder terms those two functions build. *)
Theorem C07_cache_key_code_is_model : forall cert pre ikh,
  gen_ctlog_cache_key cert pre ikh = cache_preimage cert pre ikh.
Proof. exact gen_ctlog_cache_key_is_model. Qed.
Print Assumptions C07_cache_key_code_is_model.

Theorem C07_cache_key_copies_agree : forall cert pre ikh,
  gen_recompute_cache_key cert pre ikh = gen_ctlog_cache_key cert pre ikh.
Proof. exact cache_key_copies_agree. Qed.
Print Assumptions C07_cache_key_copies_agree.

Theorem C07_cache_key_both_hash_the_built_bytes :
  gen_ctlog_cache_key_returns = "cacheHash(sha256.Sum256(b.BytesOrPanic()))"%string /\
  gen_recompute_cache_key_returns = "cacheHash(sha256.Sum256(b.BytesOrPanic()))"%string.
Proof. exact cache_key_return_wrappers. Qed.
Print Assumptions C07_cache_key_both_hash_the_built_bytes.

(* ---------- "each sequenced leaf corresponds to an admitted submission" ----------
   For EVERY event list (faults, crashes, restarts, any number of instances, tampering, cache
   loss, recompute-cache): every leaf of every committed tree is leaf_of e idx ts, with its names
   line, for an entry e carried by an EvSubmit of that very history. Nothing is invented, nothing
   is picked up from (possibly tampered) storage. (That the index in the leaf is its position is
   C04_leaf_i_carries_index_i; that an acknowledged index holds the acknowledged entry is
   C07_every_answer_names_the_entry.) *)
Theorem C07_every_committed_leaf_was_submitted : forall (sha : bytes -> bytes) evs c ls sl,
  In (c, ls) (w_lockhist (run sha evs init)) -> In sl ls ->
  exists e idx ts, submitted evs e /\ sl = mkSleaf (leaf_of sha e idx ts) (names_line (e_names e) ts).
Proof. exact committed_leaves_were_submitted. Qed.
Print Assumptions C07_every_committed_leaf_was_submitted.

Example C07_committed_leaf_example :
  exists c ls sl, In (c, ls) (w_lockhist world1) /\ In sl ls /\ submitted history1 (ent x31) /\
    sl = mkSleaf (leaf_of toy_sha (ent x31) 0 20) (names_line (e_names (ent x31)) 20).
Proof.
  eexists _, _, _. split; [vm_compute; right; left; reflexivity|]. split; [left; reflexivity|].
  split; [|reflexivity]. exists (EvSubmit 0 (ent x31) false 0 []). split; [vm_compute; tauto|reflexivity].
Qed.
