(* Properties/C13.v — statements only. The filesystem backend is atomic, durable,
   immutable-respecting and confined (model: FS/Model.v, a transcription of
   internal/ctlog/local.go, internal/durable/path.go, internal/immutable and of the parts of
   Go's os / path/filepath they call, over a crash-consistency model of files and directories;
   tie: differential run, system-call trace validation under strace and the extracted crash
   monitor, see checks/c13.py). Quantifiers: every state s (well-formed: entries refer to
   allocated inodes, which holds in every reachable state), every path / key / contents /
   oracle for temporary names and short reads, every prefix k of the system-call trace (= every
   power-loss point) and every crash choice c (per directory any subset of the un-synced entry
   operations, per un-synced file arbitrary contents). *)
From SL Require Import FS.Proofs FS.Fault FS.ProofsFault.
Import ListNotations.
Open Scope nat_scope.

(* ---- atomic ---- *)
Theorem C13_write_atomic : forall s0 p data perm sfx f0 k c, wf s0 ->
  let T := trace_of (write_file p data perm sfx f0 s0) in
  read_path (crash (exec (firstn k T) s0) c) p = Some data \/
  read_path (crash (exec (firstn k T) s0) c) p = read_path (crash s0 c) p.
Proof. exact write_atomic. Qed.
Print Assumptions C13_write_atomic.

Theorem C13_upload_atomic_existing_dir : forall s dir key name data sfx reads f0 k c,
  wf s -> localize key = Some name -> walk (dirs s) (parent (dir ++ name)) = WDir ->
  let T := trace_of (upload dir key data false sfx reads f0 s) in
  read_path (crash (exec (firstn k T) s) c) (dir ++ name) = Some data \/
  read_path (crash (exec (firstn k T) s) c) (dir ++ name) = read_path (crash s c) (dir ++ name).
Proof. exact upload_atomic_existing_dir. Qed.
Print Assumptions C13_upload_atomic_existing_dir.

(* ---- durable ---- *)
Theorem C13_write_durable : forall s0 p data perm sfx f0 c, wf s0 ->
  result_of (write_file p data perm sfx f0 s0) = None ->
  walk (dirs (crash s0 c)) (parent p) = WDir ->
  read_path (crash (state_of (write_file p data perm sfx f0 s0)) c) p = Some data.
Proof. exact write_durable. Qed.
Print Assumptions C13_write_durable.

(* new directories at any nesting depth are durably linked when MkdirAll returns (one writer) *)
Theorem C13_mkdir_durable : forall s p f0, wf s -> dirs_durable s ->
  result_of (mkdir_all p f0 s) = None ->
  let s' := state_of (mkdir_all p f0 s) in
  walk (dirs s') p = WDir /\ dirs_durable s' /\ wf s' /\
  (forall c q, walk (dirs s') q = WDir -> walk (dirs (crash s' c)) q = WDir) /\
  files s' = files s /\ fds s' = fds s /\ cap s' = cap s.
Proof. exact mkdir_durable. Qed.
Print Assumptions C13_mkdir_durable.

Theorem C13_mkdir_fuel : forall fu1 fu2 p f0 s,
  length p < fu1 -> length p < fu2 -> mkdir_all_fuel fu1 p f0 s = mkdir_all_fuel fu2 p f0 s.
Proof. exact mkdir_all_fuel_enough. Qed.
Print Assumptions C13_mkdir_fuel.

(* an Upload that returned is completely readable and survives every power loss (one writer) *)
Theorem C13_upload_durable : forall s dir key name data imm sfx reads f0,
  wf s -> dirs_durable s -> localize key = Some name ->
  (imm = true -> read_path s (dir ++ name) <> None -> path_durable s (dir ++ name)) ->
  let r := upload dir key data imm sfx reads f0 s in
  result_of r = UOk ->
  read_path (state_of r) (dir ++ name) = Some data /\
  forall c, read_path (crash (state_of r) c) (dir ++ name) = Some data.
Proof. exact upload_durable. Qed.
Print Assumptions C13_upload_durable.

(* ... but NOT for concurrent writers: two uploads into one new directory *)
Theorem C13_concurrent_mkdir_refuted :
  exists (j : nat) (c : choice),
    let upA := upload store0 (s2b "new/a") (s2b "A") true (s2b "1") [] 0 in
    let upB := upload store0 (s2b "new/b") (s2b "B") true (s2b "2") [] 10 in
    let pA := store0 ++ [s2b "new"; s2b "a"] in
    let pB := store0 ++ [s2b "new"; s2b "b"] in
    let TA := trace_of (upA st0) in
    let sj := exec (firstn j TA) st0 in
    wf st0 /\ dirs_durable st0 /\
    result_of (upA st0) = UOk /\
    nth_error TA (j - 1) = Some (SMkdir (store0 ++ [s2b "new"])) /\
    result_of (upB sj) = UOk /\
    read_path (state_of (upB sj)) pB = Some (s2b "B") /\
    read_path (crash (state_of (upB sj)) c) pB = None /\
    (let sEnd := exec (skipn j TA) (state_of (upB sj)) in
     read_path sEnd pA = Some (s2b "A") /\
     read_path (crash sEnd c) pA = Some (s2b "A") /\ read_path (crash sEnd c) pB = Some (s2b "B")).
Proof. exact concurrent_mkdir_refuted. Qed.
Print Assumptions C13_concurrent_mkdir_refuted.

(* ... and two immutable uploads of one key *)
Theorem C13_concurrent_same_key_refuted :
  exists (j : nat) (c : choice),
    let upA := upload store0 (s2b "k") (s2b "same") true (s2b "1") [] 0 in
    let upB := upload store0 (s2b "k") (s2b "same") true (s2b "2") [] 10 in
    let p := store0 ++ [s2b "k"] in
    let TA := trace_of (upA st0) in
    let sj := exec (firstn j TA) st0 in
    wf st0 /\ dirs_durable st0 /\
    result_of (upA st0) = UOk /\
    nth_error TA (j - 1) = Some (SRename (store0 ++ [tmp_name (s2b "k") (s2b "1")]) p) /\
    result_of (upB sj) = UOk /\
    read_path (state_of (upB sj)) p = Some (s2b "same") /\
    read_path (crash (state_of (upB sj)) c) p = None /\
    ~ path_durable sj p.
Proof. exact concurrent_same_key_refuted. Qed.
Print Assumptions C13_concurrent_same_key_refuted.

(* ---- readers ---- *)
Theorem C13_readers_see_whole : forall s0 p data perm sfx f0 k, wf s0 ->
  let T := trace_of (write_file p data perm sfx f0 s0) in
  read_path (exec (firstn k T) s0) p = Some data \/
  read_path (exec (firstn k T) s0) p = read_path s0 p.
Proof. exact readers_see_whole. Qed.
Print Assumptions C13_readers_see_whole.

Theorem C13_readers_fd_stable : forall s0 p data perm sfx f0 j k x, wf s0 -> j <= k ->
  let T := trace_of (write_file p data perm sfx f0 s0) in
  walk (dirs (exec (firstn j T) s0)) p = WFile x ->
  nth_error (files (exec (firstn k T) s0)) x = nth_error (files (exec (firstn j T) s0)) x.
Proof. exact readers_fd_stable. Qed.
Print Assumptions C13_readers_fd_stable.

(* ---- compareFile ---- *)
Theorem C13_compare_correct : forall f data reads,
  fst (compare_file f data reads) = COk <-> f = data.
Proof. exact compare_correct. Qed.
Print Assumptions C13_compare_correct.

Theorem C13_compare_terminates : forall f data reads, fst (compare_file f data reads) <> CFuel.
Proof. exact compare_terminates. Qed.
Print Assumptions C13_compare_terminates.

(* the code before "fix: compareFile must not spin on empty contents" *)
Theorem C13_compare_refuted_prefix : forall fuel f reads,
  compare_file_prefix fuel f [] reads = (CFuel, fuel).
Proof. exact compare_refuted_prefix. Qed.
Print Assumptions C13_compare_refuted_prefix.

(* ---- immutable objects ---- *)
Theorem C13_immutable_upload : forall s dir key name data old sfx reads f0,
  localize key = Some name -> read_path s (dir ++ name) = Some old ->
  let r := upload dir key data true sfx reads f0 s in
  result_of r = (if bytes_eqb old data then UOk else UMismatch) /\
  (forall q, dirs (state_of r) q = dirs s q) /\ files (state_of r) = files s /\
  fds (state_of r) = fds s /\ cap (state_of r) = cap s.
Proof. exact immutable_upload. Qed.
Print Assumptions C13_immutable_upload.

Theorem C13_immutable_after_upload : forall s dir key name data sfx reads f0 data' sfx' reads' f0',
  wf s -> dirs_durable s -> localize key = Some name ->
  (read_path s (dir ++ name) <> None -> path_durable s (dir ++ name)) ->
  let r := upload dir key data true sfx reads f0 s in
  result_of r = UOk ->
  let r' := upload dir key data' true sfx' reads' f0' (state_of r) in
  result_of r' = (if bytes_eqb data data' then UOk else UMismatch) /\
  (forall q, dirs (state_of r') q = dirs (state_of r) q) /\ files (state_of r') = files (state_of r) /\
  read_path (state_of r') (dir ++ name) = Some data.
Proof. exact immutable_after_upload. Qed.
Print Assumptions C13_immutable_after_upload.

(* what the code does NOT enforce: a mutable upload over an immutable object *)
Theorem C13_mutable_over_immutable :
  let up1 cap := upload store0 (s2b "k") (s2b "frozen") true (s2b "1") [] 0
                   (state_of (mkdir_all store0 0 (init_fs cap))) in
  let up2 cap := upload store0 (s2b "k") (s2b "thawed") false (s2b "2") [] 0 (state_of (up1 cap)) in
  result_of (up1 false) = UOk /\ result_of (up2 false) = UOk /\
  read_path (state_of (up2 false)) (store0 ++ [s2b "k"]) = Some (s2b "thawed") /\
  result_of (up1 true) = UOk /\ result_of (up2 true) = UErr EPERM /\
  read_path (state_of (up2 true)) (store0 ++ [s2b "k"]) = Some (s2b "frozen").
Proof. exact mutable_over_immutable. Qed.
Print Assumptions C13_mutable_over_immutable.

(* ---- confinement ---- *)
(* localize = localizeKey of local.go (filepath.Localize, and "." rejected) *)
Theorem C13_confined : forall key name, localize key = Some name -> name <> [] /\ Forall comp_ok name.
Proof. exact confined. Qed.
Print Assumptions C13_confined.

(* every key, accepted or not: no exception *)
Theorem C13_upload_confined : forall dir key data imm sfx reads f0,
  emits (upload dir key data imm sfx reads f0) (confined_call dir).
Proof. exact upload_confined. Qed.
Print Assumptions C13_upload_confined.

(* the code before "fix: local backend must not accept the key \".\"" (upload_prefix,
   discard_prefix use filepath.Localize alone), and the rejection by the code as it is now *)
Theorem C13_prefix_confined_dot_refuted :
  let key := s2b "." in
  let tmp := [tmp_name (s2b "store") (s2b "1")] in
  localize_prefix key = Some [] /\
  nth_error (trace_of (upload_prefix store0 key (s2b "x") false (s2b "1") [] 0 st0)) 2 = Some (SCreat tmp 1) /\
  ~ below store0 tmp /\
  (let r := upload_prefix store0 key (s2b "x") false (s2b "1") [] 0 (init_fs false) in
   result_of r = UOk /\ read_path (state_of r) store0 = Some (s2b "x")) /\
  (let r := discard_prefix store0 key 0 st0 in
   result_of r = UOk /\ walk (dirs (state_of r)) store0 = WErr ENOENT) /\
  localize key = None /\
  (forall s data imm sfx reads f0,
     upload store0 key data imm sfx reads f0 s = (UBadKey, s, []) /\
     discard store0 key f0 s = (UBadKey, s, []) /\ fetch store0 key f0 s = (FBadKey, s, [])).
Proof. exact prefix_confined_dot_refuted. Qed.
Print Assumptions C13_prefix_confined_dot_refuted.

(* ---- write faults: write(2) on the temporary file lets only a prefix `pre` through and then
   fails with e (disk full, quota, RLIMIT_FSIZE, I/O error); FS/Fault.v, the write step of
   write_file / upload made a parameter (plain_write gives back the original functions) ---- *)
Theorem C13_write_file_is_with : forall p data perm sfx fd0,
  write_file p data perm sfx fd0 = write_file_with (plain_write data) p perm sfx fd0.
Proof. exact write_file_is_with. Qed.
Print Assumptions C13_write_file_is_with.

Theorem C13_upload_is_gen : forall loc dir key data imm sfx reads fd0,
  upload_with loc dir key data imm sfx reads fd0 = upload_gen (plain_write data) loc dir key data imm sfx reads fd0.
Proof. exact upload_is_gen. Qed.
Print Assumptions C13_upload_is_gen.

(* a WriteFile whose write failed returns an error ... *)
Theorem C13_write_fault_returns_error : forall s0 p pre e perm sfx f0, wf s0 ->
  result_of (write_file_fault pre e p perm sfx f0 s0) <> None.
Proof. exact write_fault_returns_error. Qed.
Print Assumptions C13_write_fault_returns_error.

(* ... and leaves the destination untouched at every power-loss point and for every reader *)
Theorem C13_write_fault_untouched : forall s0 p pre e perm sfx f0 k c, wf s0 ->
  let T := trace_of (write_file_fault pre e p perm sfx f0 s0) in
  read_path (crash (exec (firstn k T) s0) c) p = read_path (crash s0 c) p.
Proof. exact write_fault_untouched. Qed.
Print Assumptions C13_write_fault_untouched.

Theorem C13_write_fault_readers : forall s0 p pre e perm sfx f0 k, wf s0 ->
  let T := trace_of (write_file_fault pre e p perm sfx f0 s0) in
  read_path (exec (firstn k T) s0) p = read_path s0 p.
Proof. exact write_fault_readers. Qed.
Print Assumptions C13_write_fault_readers.

Theorem C13_write_fault_final : forall s0 p pre e perm sfx f0 c, wf s0 ->
  let s' := state_of (write_file_fault pre e p perm sfx f0 s0) in
  read_path s' p = read_path s0 p /\ read_path (crash s' c) p = read_path (crash s0 c) p.
Proof. exact write_fault_final. Qed.
Print Assumptions C13_write_fault_final.

Theorem C13_upload_fault_mutable_fails : forall s dir key data pre e sfx reads f0,
  wf s -> dirs_durable s ->
  result_of (upload_fault pre e dir key data false sfx reads f0 s) <> UOk.
Proof. exact upload_fault_mutable_fails. Qed.
Print Assumptions C13_upload_fault_mutable_fails.

Theorem C13_upload_fault_new_object : forall s dir key name data pre e imm sfx reads f0 err k c,
  wf s -> localize key = Some name ->
  walk (dirs s) (parent (dir ++ name)) = WDir -> walk (dirs s) (dir ++ name) = WErr err ->
  let r := upload_fault pre e dir key data imm sfx reads f0 s in
  result_of r <> UOk /\
  read_path (crash (exec (firstn k (trace_of r)) s) c) (dir ++ name) = read_path (crash s c) (dir ++ name).
Proof. exact upload_fault_new_object. Qed.
Print Assumptions C13_upload_fault_new_object.

(* ---- the hypotheses are satisfiable and stable ---- *)
Theorem C13_reachable_wf : forall t cap, wf (exec t (init_fs cap)).
Proof. exact reachable_wf. Qed.
Print Assumptions C13_reachable_wf.

Theorem C13_crash_wf : forall s c, wf s -> wf (crash s c) /\ dirs_durable (crash s c).
Proof. exact crash_wf. Qed.
Print Assumptions C13_crash_wf.

(* non-vacuity: the hypotheses of the theorems hold for concrete runs with the expected results *)
Example C13_example_write :
  let s0 := exec [SMkdir [s2b "d"]; SOpenDir [] 0; SFsync 0; SClose 0] (init_fs false) in
  let r1 := write_file [s2b "d"; s2b "k"] (s2b "old") 420 (s2b "1") 0 s0 in
  let r2 := write_file [s2b "d"; s2b "k"] (s2b "new") 420 (s2b "2") 0 (state_of r1) in
  result_of r1 = None /\ result_of r2 = None /\
  read_path (state_of r1) [s2b "d"; s2b "k"] = Some (s2b "old") /\
  read_path (crash (state_of r2) (choice_of [] [])) [s2b "d"; s2b "k"] = Some (s2b "new") /\
  length (trace_of r2) = 10.
Proof. exact write_file_example. Qed.

Example C13_example_upload :
  let r := upload store0 (s2b "tile/0/001") [] true (s2b "7") [] 0 st0 in
  let r' := upload store0 (s2b "tile/0/001") [] true (s2b "8") [] 0 (state_of r) in
  let r'' := upload store0 (s2b "tile/0/001") (s2b "x") true (s2b "9") [] 0 (state_of r) in
  wf st0 /\ dirs_durable st0 /\ localize (s2b "tile/0/001") = Some [s2b "tile"; s2b "0"; s2b "001"] /\
  result_of r = UOk /\ result_of r' = UOk /\ result_of r'' = UMismatch /\
  read_path (crash (state_of r) (choice_of [] [])) (store0 ++ [s2b "tile"; s2b "0"; s2b "001"]) = Some [].
Proof.
  destruct st0_ok as [A [B _]]. split; [exact A|]. split; [exact B|].
  vm_compute. repeat split; reflexivity.
Qed.

Example C13_example_write_fault :
  let r := write_file_fault (s2b "ne") EINVAL fx_p 420 (s2b "2") 0 fx_s0 in
  wf fx_s0 /\
  read_path fx_s0 fx_p = Some (s2b "old") /\
  result_of r = Some EINVAL /\
  trace_of r = [SOpenDir fx_dir 0; SCreat fx_tmp 1; SFchmod 1 420; SWrite 1 (s2b "ne"); SClose 1; SUnlink fx_tmp; SClose 0] /\
  read_path (state_of r) fx_p = Some (s2b "old") /\
  eget (dview (dirs (state_of r)) fx_dir) (tmp_name (s2b "checkpoint") (s2b "2")) = None /\
  trace_of (write_file_fault [] EINVAL fx_p 420 (s2b "2") 0 fx_s0) =
    [SOpenDir fx_dir 0; SCreat fx_tmp 1; SFchmod 1 420; SClose 1; SUnlink fx_tmp; SClose 0] /\
  read_path (state_of (write_file fx_p (s2b "new") 420 (s2b "2") 0 fx_s0)) fx_p = Some (s2b "new").
Proof. exact write_fault_example. Qed.
