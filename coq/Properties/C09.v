(* Properties/C09.v — statements only. Submissions are validated and turned into the RFC 6962
   leaf correctly.
   Model: Submit/Model.v (as of /repo 48383da; transcription of http.go addChain/addPreChain/addChainOrPreChain/
   lowPriority/getRoots and ctlog.go SetRootsFromPEM/LoadLog roots) over abstract certificates.
   Specification: Submit/Spec.v (rfc6962_entry_spec, acceptable, written from RFC 6962 3.1/3.2).
   Oracles (explicit function arguments of every statement, never axioms): parse_body =
   json.Unmarshal, validate = ctfe.ValidateChain, build = x509.BuildPrecertTBS, sha = SHA-256,
   pem_pool = x509util.PEMCertPool.AppendCertsFromPEM. The assumed contract of validate
   (validate_contract: leaf NotAfter in [start, limit), serverAuth EKU, chain ends in an accepted
   root, every submitted certificate used in order) is an explicit premise.
   Tie: harness/submit posts real DER chains to the real handler (checks/c09.py). *)
From SL Require Import Submit.Model Submit.Spec Submit.Proofs Submit.IssuerModel Submit.IssuerProofs Submit.Example.
Open Scope N_scope.

(* whatever reaches the pool is the RFC 6962 entry of a chain that the validation oracle
   returned for the submitted certificates, sent to the endpoint matching the leaf type; by the
   contract the leaf NotAfter is in the window, it has the serverAuth EKU and the chain ends in
   an accepted root *)
Theorem C09_accept : forall parse_body validate build sha, validate_contract validate ->
  forall ep roots win now body e low,
  handler parse_body validate build sha ep roots win now body = Accepted e low ->
  exists raws chain leaf root,
    blen body <= max_body /\ parse_body body = Some raws /\ raws <> [] /\
    validate roots win raws = Some chain /\
    hd_error chain = Some leaf /\ endpoint_matches ep leaf /\
    rfc6962_entry_spec build sha chain = Some e /\
    low = low_priority now leaf /\
    (w_start win <= c_not_after leaf < w_limit win)%Z /\ c_server_auth leaf = true /\
    last_error chain = Some root /\ In (c_raw root) roots /\
    (raws = map c_raw chain \/ raws = map c_raw (removelast chain)).
Proof. exact accept_sound. Qed.
Print Assumptions C09_accept.

(* "exactly when", other direction: every acceptable request reaches the pool *)
Theorem C09_accept_complete : forall parse_body validate build sha ep roots win now body,
  acceptable parse_body validate build sha ep roots win body ->
  exists e low, handler parse_body validate build sha ep roots win now body = Accepted e low.
Proof. exact accept_complete. Qed.
Print Assumptions C09_accept_complete.

(* everything else is rejected with a client error and leaves no leaf: full strength, for the
   handler of /repo's current source (oversize body 413, BuildPrecertTBS failure 400) *)
Theorem C09_reject : forall parse_body validate build sha, validate_contract validate ->
  forall ep roots win now body,
  ~ acceptable parse_body validate build sha ep roots win body ->
  exists code, (400 <= code < 500)%Z /\
    handler parse_body validate build sha ep roots win now body = Rejected code.
Proof. exact reject_sound. Qed.
Print Assumptions C09_reject.

Theorem C09_reject_no_pool : forall parse_body validate build sha, validate_contract validate ->
  forall ep roots win now body,
  ~ acceptable parse_body validate build sha ep roots win body ->
  forall e low, handler parse_body validate build sha ep roots win now body <> Accepted e low.
Proof. exact reject_no_pool. Qed.
Print Assumptions C09_reject_no_pool.

(* ---- the handler BEFORE commits ac90d60 and 48383da (handler_prefix: the same transcription
   with both codes 500). C09_reject was false of it; these statements explain a regression. ---- *)
Theorem C09_prefix_reject_partial : forall parse_body validate build sha, validate_contract validate ->
  forall ep roots win now body,
  ~ acceptable parse_body validate build sha ep roots win body ->
  exists code, handler_prefix parse_body validate build sha ep roots win now body = Rejected code /\
    ((400 <= code < 500)%Z \/
     (code = 500%Z /\ (oversize_case body \/ tbs_case parse_body validate build roots win body))).
Proof. exact prefix_reject_partial. Qed.
Print Assumptions C09_prefix_reject_partial.

(* witness: a validated precertificate whose TBSCertificate cannot be defanged got 500 *)
Theorem C09_prefix_reject_4xx_refuted :
  exists parse_body validate build sha, validate_contract validate /\
  exists ep roots win now body,
    ~ acceptable parse_body validate build sha ep roots win body /\
    handler_prefix parse_body validate build sha ep roots win now body = Rejected 500.
Proof. exact prefix_reject_4xx_refuted. Qed.
Print Assumptions C09_prefix_reject_4xx_refuted.

(* witness family, for ANY oracles: an oversize body got 500 (and gets 413 now) *)
Theorem C09_prefix_oversize_body_500 : forall parse_body validate build sha ep roots win now body,
  max_body < blen body ->
  ~ acceptable parse_body validate build sha ep roots win body /\
  handler_prefix parse_body validate build sha ep roots win now body = Rejected 500 /\
  handler parse_body validate build sha ep roots win now body = Rejected 413.
Proof. exact prefix_oversize_500. Qed.
Print Assumptions C09_prefix_oversize_body_500.

(* the handler has no panic path under the contract, and answers 200 only to an acceptable
   request whose leaf was sequenced *)
Theorem C09_no_crash : forall parse_body validate build sha, validate_contract validate ->
  forall ep roots win now body, handler parse_body validate build sha ep roots win now body <> Crash.
Proof. exact no_crash. Qed.
Print Assumptions C09_no_crash.

Theorem C09_status_200 : forall parse_body validate build sha, validate_contract validate ->
  forall ep roots win now body w ext_ok sign_ok,
  http_status parse_body validate build sha ep roots win now body w ext_ok sign_ok = Some 200%Z ->
  acceptable parse_body validate build sha ep roots win body /\ w = WOk.
Proof. exact status_200. Qed.
Print Assumptions C09_status_200.

(* what the specification entry is: x509 entry = the leaf; precert entry = the defanged TBS
   with issuer key hash over the SPKI of chain[1], or of chain[2] when chain[1] is a
   precertificate signing certificate; issuers = chain[1..] *)
Theorem C09_entry : forall build sha chain e,
  rfc6962_entry_spec build sha chain = Some e ->
  exists c0, nth_error chain 0 = Some c0 /\ p_issuers e = map c_raw (skipn 1 chain) /\
   ((c_is_precert c0 = Some false /\ p_pre e = false /\ p_cert e = c_raw c0 /\
       p_ikh e = zero32 /\ p_precert e = [])
    \/
    (c_is_precert c0 = Some true /\ p_pre e = true /\ p_precert e = c_raw c0 /\
      exists c1, nth_error chain 1 = Some c1 /\
       ((c_is_preissuer c1 = false /\
           build (c_tbs c0) None = Some (p_cert e) /\ p_ikh e = sha (c_spki c1))
        \/
        (c_is_preissuer c1 = true /\
           build (c_tbs c0) (Some c1) = Some (p_cert e) /\
           exists c2, nth_error chain 2 = Some c2 /\ p_ikh e = sha (c_spki c2))))).
Proof. exact entry_cases. Qed.
Print Assumptions C09_entry.

Theorem C09_entry_none : forall build sha chain,
  rfc6962_entry_spec build sha chain = None <->
  (chain = [] \/
   (exists c0 rest, chain = c0 :: rest /\
      (c_is_precert c0 = None \/
       (c_is_precert c0 = Some true /\
          (final_issuer rest = None \/ build (c_tbs c0) (signing_cert rest) = None))))).
Proof. exact entry_none_cases. Qed.
Print Assumptions C09_entry_none.

(* get-roots after SetRootsFromPEM: the certificates of the PEM when it parses and is stored;
   unchanged when it does not parse, cannot be stored, or equals the current PEM *)
Theorem C09_roots : forall pem_pool pem up st,
  let '(st', ok) := set_roots pem_pool pem up st in
  (ok = true /\ pem <> rs_pem st ->
     get_roots st' = fst (pem_pool pem) /\ rs_pem st' = pem /\ rs_stored st' = pem) /\
  (ok = false -> st' = st) /\
  (pem = rs_pem st -> st' = st /\ ok = true).
Proof. exact get_roots_after_set. Qed.
Print Assumptions C09_roots.

(* for all histories of reloads after LoadLog: the served roots are the parse of the current
   PEM, the stored object is the current PEM, and a restart serves the same roots *)
Theorem C09_roots_history : forall pem_pool l stored,
  roots_consistent pem_pool (reloads pem_pool l (load_roots pem_pool stored)).
Proof. exact reloads_consistent. Qed.
Print Assumptions C09_roots_history.

Theorem C09_roots_restart : forall pem_pool l stored,
  let st := reloads pem_pool l (load_roots pem_pool stored) in
  get_roots (load_roots pem_pool (rs_stored st)) = get_roots st.
Proof. exact restart_same_roots. Qed.
Print Assumptions C09_roots_restart.

(* "every chain certificate becomes a retrievable issuer", for every backend fault schedule
   (each issuer's Fetch and Upload may fail independently: the pairs (f, u)): when the issuer loop
   of addLeafToPool succeeds, every chain certificate is stored under its fingerprint; a failed
   upload caches nothing and the request is answered 500 without reaching the pool; what is
   retrievable stays retrievable; with a working backend the resubmission succeeds *)
Theorem C09_issuers_retrievable : forall (sha : list Byte.byte -> list Byte.byte) l st st',
  issuer_inv sha st -> upload_issuers sha l st = (st', true) ->
  forall iss f u, In (iss, (f, u)) l ->
  exists c, lookup_fp (sha iss) (i_store st') = Some c /\ sha c = sha iss.
Proof. exact issuers_retrievable. Qed.
Print Assumptions C09_issuers_retrievable.

Theorem C09_issuer_failure_not_cached : forall (sha : list Byte.byte -> list Byte.byte) l st st',
  upload_issuers sha l st = (st', false) ->
  exists iss f u, In (iss, (f, u)) l /\ mem_fp (sha iss) (i_known st') = false.
Proof. exact issuer_failure_not_cached. Qed.
Print Assumptions C09_issuer_failure_not_cached.

Theorem C09_issuers_stay_retrievable : forall (sha : list Byte.byte -> list Byte.byte) l st st' ok fp c,
  upload_issuers sha l st = (st', ok) ->
  lookup_fp fp (i_store st) = Some c -> sha c = fp ->
  exists c', lookup_fp fp (i_store st') = Some c' /\ sha c' = fp.
Proof. exact store_persistent. Qed.
Print Assumptions C09_issuers_stay_retrievable.

(* a submission that is deduplicated against a pending / in-sequencing entry (hit = true) has run
   the issuer loop first: all of ITS chain certificates are retrievable too, and the store does not
   depend on the outcome of the lookup *)
Theorem C09_deduplicated_submission_stores_its_chain : forall (sha : list Byte.byte -> list Byte.byte) l hit st st' src,
  issuer_inv sha st -> add_leaf sha l hit st = (st', src) -> src <> SrcIssuer ->
  forall iss f u, In (iss, (f, u)) l ->
  exists c, lookup_fp (sha iss) (i_store st') = Some c /\ sha c = sha iss.
Proof. exact add_leaf_issuers_retrievable. Qed.
Print Assumptions C09_deduplicated_submission_stores_its_chain.

(* non-vacuity: a concrete oracle instance meets the contract, and both the acceptance
   condition and its negation occur *)
Example C09_contract_satisfiable : validate_contract toy_validate.
Proof. exact toy_contract. Qed.

Example C09_acceptable_example :
  acceptable toy_parse toy_validate toy_build toy_sha AddChain [[x09]] winX [x01; x08] /\
  toy_handler AddPreChain [[x09]] winX 172800 [x03; x07; x08]
    = Accepted (mkPending [x13; x07] true [x28; xff] [[x07]; [x08]; [x09]] [x03]) true /\
  toy_handler AddChain [[x09]] (mkWin 100 150) 0 [x01; x08] = Rejected 400 /\
  toy_handler AddPreChain [[x09]] winX 0 [x04; x08] = Rejected 400 /\
  toy_handler_prefix AddPreChain [[x09]] winX 0 [x04; x08] = Rejected 500.
Proof. split; [exact ex_acceptable|]. vm_compute. repeat split; reflexivity. Qed.

(* The deduplication identity (computeCacheHash's preimage; the harness ties [dedup_key] to the real
   function through its cachekey lines): two precertificate entries with different issuer key hashes
   never share it, however equal their TBSCertificates are, so "the same precertificate under a re-keyed
   CA" is a second entry and gets its own leaf. The preimage statement needs no assumption on the
   hash; the key statement has collision-freeness as an explicit premise (met, e.g., by the identity,
   C09_dedup_example). *)
Theorem C09_dedup_preimage_separates_issuers : forall cert1 cert2 ikh1 ikh2,
  length ikh1 = length ikh2 ->
  dedup_preimage cert1 true ikh1 = dedup_preimage cert2 true ikh2 -> ikh1 = ikh2.
Proof. exact dedup_preimage_ikh. Qed.
Print Assumptions C09_dedup_preimage_separates_issuers.

Theorem C09_dedup_key_separates_issuers : forall (sha : bytes -> bytes) cert1 cert2 ikh1 ikh2,
  (forall a b, sha a = sha b -> a = b) ->
  length ikh1 = length ikh2 -> ikh1 <> ikh2 ->
  dedup_key sha cert1 true ikh1 <> dedup_key sha cert2 true ikh2.
Proof. exact dedup_key_separates_issuers. Qed.
Print Assumptions C09_dedup_key_separates_issuers.

Example C09_dedup_example :
  (forall a b : bytes, (fun x => x) a = (fun x => x) b -> a = b) /\
  dedup_key (fun x => x) [x30; x31] true [x01; x02] <> dedup_key (fun x => x) [x30; x31] true [x01; x03].
Proof. split; [auto|]. vm_compute. discriminate. Qed.
