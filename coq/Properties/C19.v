(* Properties/C19.v — statements only. The read-path server serves exactly the stored objects with
   correct metadata (model: Sky/Routes.v, a transcription of the pattern table and handlers of
   cmd/skylight/skylight.go together with explicit specification functions for net/url, path,
   net/http ServeMux / StripPrefix / FileServerFS, filesOnlyFS and a lookup table standing for
   os.Root + the kernel; tie: the unmodified skylight binary on a loopback port over directories
   written by the real sequencer, see checks/c19.py).

   Vocabulary (Sky/RoutesProofs.v):
     clean_rel rel      rel = "/" ++ s1 ++ "/" ++ ... ++ sn, no si empty, ".", ".." or containing "/"
     served_by c h t r  r is the directory of a configured log or witness whose host is the request's
                        (port stripped) and whose prefix starts the decoded path of target t
     plain_seg s        non-empty, not "." / "..", bytes in [A-Za-z0-9._-]
     log_ok c e h       e is a configured log with a host equal to h (port stripped), a plain prefix,
                        and no other pattern registered for that host continues the prefix with a
                        wildcard or with tile / checkpoint / issuer / log.v3.json  (log_unshadowed)
     wit_ok, wild_unshadowed, leaf_unshadowed   the same for a witness: exactly one pattern of the
                        host continues the literal prefix with a wildcard / is that literal path
     hash_seg o         64 lower-case hex digits *)
From SL Require Import Base.Bytes Codec.Leaf Sky.Routes Sky.RoutesProofs.
Open Scope N_scope.

(* whatever the request (traversal attempts, encoded separators, any host): the name handed to the
   file server is clean and rooted, has no ".." component, and the directory is the one
   configured for a prefix that starts the decoded request path *)
Theorem C19_confined : forall c host target root rel hs up qs,
  route c host target = File root rel hs up qs ->
  clean_rel rel /\ ~ In dotdot (split_slash (tl rel)) /\ served_by c host target root.
Proof. exact c19_confined. Qed.
Print Assumptions C19_confined.

(* a 200 is a regular file of that directory's table (directories are hidden, nothing is listed),
   with exactly the headers the handler chose *)
Theorem C19_success : forall t r,
  r_status (respond t r) = 200 ->
  exists root rel hs up qs d,
    r = File root rel hs up qs /\ fs_lookup t root (tl rel) = Some (KReg d) /\
    respond t r = mkResp 200 [] (h_ct hs) (h_ce hs) (h_cc hs) (h_acao hs) (Some d).
Proof. exact c19_success. Qed.
Print Assumptions C19_success.

(* every path of the Static CT layout routes to exactly the file it names, under every configured
   log prefix, with the headers of the tile's level *)
Theorem C19_layout_tile : forall c e host t, log_ok c e host -> valid_tile t = true ->
  exists s, tile_path t = Some s /\
    route c host (prefix_path (e_prefix e) ++ x2f :: s)
    = File (e_root e) (x2f :: s) (headers_for_level (t_L t)) (x2f :: s) [].
Proof. exact c19_layout_tile. Qed.
Print Assumptions C19_layout_tile.

Theorem C19_layout_checkpoint : forall c e host, log_ok c e host ->
  route c host (prefix_path (e_prefix e) ++ s2b "/checkpoint")
  = File (e_root e) (s2b "/checkpoint") hs_checkpoint (s2b "/checkpoint") [].
Proof. exact c19_layout_checkpoint. Qed.
Print Assumptions C19_layout_checkpoint.

Theorem C19_layout_logjson : forall c e host, log_ok c e host ->
  route c host (prefix_path (e_prefix e) ++ s2b "/log.v3.json")
  = File (e_root e) (s2b "/log.v3.json") hs_json (s2b "/log.v3.json") [].
Proof. exact c19_layout_logjson. Qed.
Print Assumptions C19_layout_logjson.

Theorem C19_layout_issuer : forall c e host fp, log_ok c e host -> plain_seg fp -> fp <> index_html ->
  route c host (prefix_path (e_prefix e) ++ s2b "/issuer/" ++ fp)
  = File (e_root e) (s2b "/issuer/" ++ fp) hs_issuer (s2b "/issuer/" ++ fp) [].
Proof. exact c19_layout_issuer. Qed.
Print Assumptions C19_layout_issuer.

(* witness and mirror layout: <origin hash>/checkpoint, mirror/<origin hash>/checkpoint and tiles,
   witness.v0.json, mirror/mirror.v0.json *)
Theorem C19_layout_witness_checkpoint : forall c e host o,
  wit_ok c e host -> wild_unshadowed c (e_host e) (e_prefix e) -> hash_seg o = true ->
  route c host (prefix_path (e_prefix e) ++ x2f :: o ++ s2b "/checkpoint")
  = File (e_root e) (x2f :: o ++ s2b "/checkpoint") hs_checkpoint (x2f :: o ++ s2b "/checkpoint") [].
Proof. exact c19_layout_witness_checkpoint. Qed.
Print Assumptions C19_layout_witness_checkpoint.

Theorem C19_layout_mirror_checkpoint : forall c e host o,
  wit_ok c e host -> wild_unshadowed c (e_host e) (e_prefix e ++ [seg_mirror]) -> hash_seg o = true ->
  route c host (prefix_path (e_prefix e) ++ s2b "/mirror/" ++ o ++ s2b "/checkpoint")
  = File (e_root e) (s2b "/mirror/" ++ o ++ s2b "/checkpoint") hs_checkpoint (s2b "/mirror/" ++ o ++ s2b "/checkpoint") [].
Proof. exact c19_layout_mirror_checkpoint. Qed.
Print Assumptions C19_layout_mirror_checkpoint.

Theorem C19_layout_mirror_tile : forall c e host o t,
  wit_ok c e host -> wild_unshadowed c (e_host e) (e_prefix e ++ [seg_mirror]) -> hash_seg o = true ->
  valid_tile t = true ->
  exists s, tile_path t = Some s /\
    route c host (prefix_path (e_prefix e) ++ s2b "/mirror/" ++ o ++ x2f :: s)
    = File (e_root e) (s2b "/mirror/" ++ o ++ x2f :: s) (headers_for_level (t_L t)) (s2b "/mirror/" ++ o ++ x2f :: s) [].
Proof. exact c19_layout_mirror_tile. Qed.
Print Assumptions C19_layout_mirror_tile.

Theorem C19_layout_witness_json : forall c e host,
  wit_ok c e host -> leaf_unshadowed c (e_host e) (e_prefix e ++ [seg_witness_json]) ->
  route c host (prefix_path (e_prefix e) ++ s2b "/witness.v0.json")
  = File (e_root e) (s2b "/witness.v0.json") hs_json (s2b "/witness.v0.json") [].
Proof. exact c19_layout_witness_json. Qed.
Print Assumptions C19_layout_witness_json.

Theorem C19_layout_mirror_json : forall c e host,
  wit_ok c e host -> leaf_unshadowed c (e_host e) (e_prefix e ++ [seg_mirror; seg_mirror_json]) ->
  route c host (prefix_path (e_prefix e) ++ s2b "/mirror/mirror.v0.json")
  = File (e_root e) (s2b "/mirror/mirror.v0.json") hs_json (s2b "/mirror/mirror.v0.json") [].
Proof. exact c19_layout_mirror_json. Qed.
Print Assumptions C19_layout_mirror_json.

(* the header table *)
Theorem C19_headers :
  (forall l, (0 <= l)%Z ->
     headers_for_level l = mkHs (s2b "application/octet-stream") [] (s2b "public, max-age=604800, immutable") true) /\
  headers_for_level (-1) = mkHs (s2b "application/octet-stream") (s2b "gzip") (s2b "public, max-age=604800, immutable") true /\
  headers_for_level (-2) = mkHs (s2b "application/jsonl; charset=utf-8") (s2b "gzip") (s2b "public, max-age=604800, immutable") true /\
  hs_issuer = mkHs (s2b "application/pkix-cert") [] (s2b "public, max-age=604800, immutable") true /\
  hs_checkpoint = mkHs (s2b "text/plain; charset=utf-8") [] (s2b "no-store") true /\
  hs_json = mkHs (s2b "application/json") [] [] true.
Proof. exact c19_headers. Qed.
Print Assumptions C19_headers.

(* ---- non-vacuity: the shape of cmd/skylight/testdata/skylight.yaml ---- *)
Definition ex_one := mkEntry (s2b "rome2026h1.example.org") [] 0.
Definition ex_h2 := mkEntry (s2b "logs.example.org") [s2b "rome2026h2"] 1.
Definition ex_deep := mkEntry (s2b "logs.example.org") [s2b "deep"; s2b "er"; s2b "milan"] 2.
Definition ex_wit := mkEntry (s2b "witness.example.org") [] 3.
Definition ex_wit2 := mkEntry (s2b "logs.example.org") [s2b "w"] 4.
Definition ex_cfg : config :=
  mkConfig (s2b "https://rome.example.org") [ex_one; ex_h2; ex_deep] [ex_wit; ex_wit2]
           (Some (s2b "logs.example.org", [])).
Definition ex_origin : bytes := s2b "000de184301123b9278c086a7d9f68c9577e83872224c197058fd90784ea9706".

Lemma ex_plain : forall s, In s [s2b "rome2026h2"; s2b "deep"; s2b "er"; s2b "milan"; s2b "w"] -> plain_seg s.
Proof. intros s H. repeat (destruct H as [<-|H]; [concrete_plain|]). contradiction. Qed.

Example C19_hypotheses_hold :
  log_ok ex_cfg ex_one (s2b "rome2026h1.example.org") /\
  log_ok ex_cfg ex_h2 (s2b "logs.example.org:443") /\
  log_ok ex_cfg ex_deep (s2b "logs.example.org") /\
  wit_ok ex_cfg ex_wit (s2b "witness.example.org") /\
  wild_unshadowed ex_cfg (e_host ex_wit) (e_prefix ex_wit) /\
  wild_unshadowed ex_cfg (e_host ex_wit) (e_prefix ex_wit ++ [seg_mirror]) /\
  leaf_unshadowed ex_cfg (e_host ex_wit) (e_prefix ex_wit ++ [seg_witness_json]) /\
  leaf_unshadowed ex_cfg (e_host ex_wit) (e_prefix ex_wit ++ [seg_mirror; seg_mirror_json]) /\
  wit_ok ex_cfg ex_wit2 (s2b "logs.example.org") /\
  wild_unshadowed ex_cfg (e_host ex_wit2) (e_prefix ex_wit2) /\
  hash_seg ex_origin = true /\ valid_tile (mkTile 8 (-1) 1234067 255) = true.
Proof.
  unfold log_ok, wit_ok, log_unshadowed, wild_unshadowed, leaf_unshadowed.
  repeat split; try (vm_compute; reflexivity); try (cbn; tauto); try discriminate;
    try (repeat constructor; apply ex_plain; cbn; tauto).
Qed.

(* what the model says about a few requests of the property's quantifier (computed) *)
Example C19_route_examples :
  (* a data tile under a deep prefix, with a port in the Host header *)
  route ex_cfg (s2b "logs.example.org:443") (s2b "/deep/er/milan/tile/data/x001/x234/067.p/255")
    = File 2 (s2b "/tile/data/x001/x234/067.p/255") hs_data_tile (s2b "/tile/data/x001/x234/067.p/255") []
  (* traversal: literal dot-dot is redirected by the mux, encoded dot-dot as an origin dies in StripPrefix *)
  /\ route ex_cfg (s2b "witness.example.org") (s2b "/../checkpoint") = Redirect false (s2b "/checkpoint/") hs0 true
  /\ route ex_cfg (s2b "witness.example.org") (s2b "/%2e%2e/checkpoint") = NotFound hs0
  /\ route ex_cfg (s2b "witness.example.org") (s2b "/a%2Fb/checkpoint") = NotFound hs0
  (* an encoded separator does not match the prefix segment *)
  /\ route ex_cfg (s2b "logs.example.org") (s2b "/rome2026h2%2Fcheckpoint") = NotFound hs0
  (* encoded dot-dot INSIDE the tile wildcard stays inside the directory: the file server cleans it *)
  /\ route ex_cfg (s2b "rome2026h1.example.org") (s2b "/tile/..%2f..%2f..%2fetc%2fpasswd")
     = File 0 (s2b "/etc/passwd") hs_hash_tile (s2b "/tile/../../../etc/passwd") []
  /\ route ex_cfg (s2b "rome2026h1.example.org") (s2b "/tile/") = File 0 (s2b "/tile") hs_hash_tile (s2b "/tile/") []
  /\ route ex_cfg (s2b "other.example.org") (s2b "/checkpoint") = NotFound hs0
  /\ route ex_cfg (s2b "rome2026h1.example.org") (s2b "/health") = NotFound hs0
  /\ route ex_cfg (s2b "other.example.org") (s2b "/health") = Special SHealth
  /\ route ex_cfg (s2b "rome2026h1.example.org") (s2b "/%zz") = BadRequest.
Proof. repeat split; vm_compute; reflexivity. Qed.

(* ... and what the file system specification answers for those names: a directory is a 404, a
   name that resolves outside the root a 500, only a regular file a 200 *)
Definition ex_tab : fstab :=
  [(0, s2b "checkpoint", KReg (s2b "c0")); (0, s2b "tile", KDir); (0, s2b "tile/0", KDir);
   (0, s2b "tile/0/000", KReg (s2b "t0")); (0, s2b "link-out", KEsc)].
Example C19_serve_examples :
  r_status (serve ex_cfg ex_tab (s2b "rome2026h1.example.org") (s2b "/tile/0/000")) = 200
  /\ r_body (serve ex_cfg ex_tab (s2b "rome2026h1.example.org") (s2b "/tile/0/000")) = Some (s2b "t0")
  /\ r_status (serve ex_cfg ex_tab (s2b "rome2026h1.example.org") (s2b "/tile/")) = 404
  /\ r_status (serve ex_cfg ex_tab (s2b "rome2026h1.example.org") (s2b "/tile/0")) = 404
  /\ r_status (serve ex_cfg ex_tab (s2b "rome2026h1.example.org") (s2b "/tile/..%2f..%2f..%2fetc%2fpasswd")) = 404
  /\ r_status (serve ex_cfg ex_tab (s2b "rome2026h1.example.org") (s2b "/tile/..%2flink-out")) = 500
  /\ r_status (serve ex_cfg ex_tab (s2b "rome2026h1.example.org") (s2b "/tile/0/000/")) = 301.
Proof. repeat split; vm_compute; reflexivity. Qed.
