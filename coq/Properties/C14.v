(* C14 — The witness cosigns only one append-only history per log.
   Model: Witness/Model.v (hash abstract, signatures symbolic); these are the closed instances over
   the free hash algebra ih (Merkle/Sound.v). [irun c iinit evs] = the world after ANY event list:
   requests with arbitrary notes/proofs (forks, forged or unknown signatures, malformed), any number
   of witness instances on the same stores (restart = reset instance, zombie = other instance), any
   interleaving of their Lock.Replace / Backend.Upload calls, faults applied or not on every write. *)
From SL Require Import Witness.Model Witness.Proofs Witness.Inv Witness.Theorems Witness.Ideal Merkle.Sound.
Open Scope N_scope.

(* all checkpoints ever recorded (= every Replace that took effect) for an origin form one chain:
   sizes never decrease; equal sizes have equal roots; and whenever a recorded checkpoint x commits to
   a leaf list L (is its RFC 6962 tree hash), every checkpoint d recorded BEFORE it is the tree hash
   of the prefix of L of d's size, so any list d commits to is that prefix. No hypothesis on the log. *)
Theorem C14_chain : forall c evs o pre x post,
  irecorded o (irun c iinit evs) = pre ++ x :: post ->
  forall d, In d pre ->
    st_size ih d <= st_size ih x /\
    (st_size ih d = st_size ih x -> st_root ih d = st_root ih x) /\
    forall L, N.of_nat (length L) = st_size ih x -> st_root ih x = imth L ->
      st_root ih d = imth (firstn (N.to_nat (st_size ih d)) L) /\
      forall Ld, N.of_nat (length Ld) = st_size ih d -> st_root ih d = imth Ld ->
        Ld = firstn (N.to_nat (st_size ih d)) L.
Proof. exact ideal_chain. Qed.
Print Assumptions C14_chain.

(* a cosignature is handed out only by the step after a successful upload, for a checkpoint that is
   already in the recorded history; it is made by exactly the witness's two keys and covers exactly
   the (origin, size, root) of that recorded checkpoint *)
Theorem C14_recorded_before_release : forall c evs ev w' ks o n r,
  istep c (irun c iinit evs) ev = (w', OCosig ks o n r) ->
  ks = [wc_w1 c; wc_w2 c] /\
  exists s, In s (irecorded o (irun c iinit evs)) /\
            st_origin ih s = o /\ st_size ih s = n /\ st_root ih s = r.
Proof. exact ideal_release. Qed.
Print Assumptions C14_recorded_before_release.

(* the same with the recorded-count stamp kept in the ghost state: the checkpoint is among the first
   rl_at entries of the history, rl_at = length of the history at the moment of release *)
Theorem C14_release_stamp : forall c evs r,
  In r (w_rel ih (irun c iinit evs)) ->
  rl_keys ih r = [wc_w1 c; wc_w2 c] /\
  exists s, In s (firstn (rl_at ih r) (irecorded (rl_origin ih r) (irun c iinit evs))) /\
            st_size ih s = rl_size ih r /\ st_root ih s = rl_root ih r.
Proof. exact ideal_release_stamp. Qed.
Print Assumptions C14_release_stamp.

(* the recorded history of an origin only grows *)
Theorem C14_history_grows : forall c w ev o,
  exists suf, irecorded o (fst (istep c w ev)) = irecorded o w ++ suf.
Proof. exact ideal_mono. Qed.
Print Assumptions C14_history_grows.

(* every recorded checkpoint is for its origin and carries >= 1 signature, each of which verified
   under a key configured (at some time) for that origin *)
Theorem C14_signed_by_log : forall c evs o s,
  In s (irecorded o (irun c iinit evs)) ->
  st_origin ih s = o /\ st_logsigs ih s <> [] /\
  forall k, In k (st_logsigs ih s) -> In (o, k) (w_everkeys ih (irun c iinit evs)).
Proof. exact ideal_signed. Qed.
Print Assumptions C14_signed_by_log.

(* C14_covers / acceptance: a request reaches Lock.Replace only if the note parses as a checkpoint
   without extension lines for a known origin, a VALID signature by one of that origin's keys is on
   it, the stated old size equals the size of the value [known] the instance has on record (cached, or
   just fetched), and known -> new passes the size / empty-tree / CheckTree checks. What is signed and
   stored is the re-encoding of exactly (origin, size, root) plus the verified signatures. *)
Theorem C14_covers : forall c w i b fok w' m,
  inst_lookup (w_meta ih w) i = Some m ->
  istep c w (EAdd i b fok) = (w', OPending) ->
  exists old proof o n r sigs vs known new,
    b = ABody old proof (NNote (TCkpt o n r false) sigs) /\
    meta_lookup m o = Some vs /\
    (exists s, In s sigs /\ sg_kind s = SValid /\ In (sg_key s) vs) /\
    known_size ih known = old /\ step_ok ih INode IEmpty ih_eqb known new /\
    st_origin ih new = o /\ st_size ih new = n /\ st_root ih new = r /\
    (forall k, In k (st_logsigs ih new) -> In k vs /\ In (mkSig k SValid) sigs) /\
    os_flight ih (os_get ih (w_os ih w') (i, o)) = FReplace known new /\
    (os_cache ih (os_get ih (w_os ih w) (i, o)) = Some known \/
     (os_cache ih (os_get ih (w_os ih w) (i, o)) = None /\ fok = true /\ reg_lookup ih (w_reg ih w) o = Some known)).
Proof. exact ideal_accept. Qed.
Print Assumptions C14_covers.

(* the compare-and-swap is what makes a stale or concurrent instance harmless: a Replace changes the
   history only if the register holds exactly the value the checks were made against *)
Theorem C14_cas : forall c w i o f,
  w_hist ih (fst (istep c w (EReplace i o f))) <> w_hist ih w ->
  exists old new, os_flight ih (os_get ih (w_os ih w) (i, o)) = FReplace old new /\
                  reg_lookup ih (w_reg ih w) o = Some old /\
                  w_hist ih (fst (istep c w (EReplace i o f))) = w_hist ih w ++ [(o, new)].
Proof. exact ideal_cas. Qed.
Print Assumptions C14_cas.

(* the protocol's answers *)
Theorem C14_codes : codes_statement.
Proof. exact ideal_codes. Qed.
Print Assumptions C14_codes.

(* a refusal (anything but the 500 of a failed store, whose write may have been applied) changes
   neither the registers, nor the history, nor what was released *)
Theorem C14_refusal_no_effect : forall c w ev e,
  snd (istep c w ev) = OErr e -> e <> EInternal IStore ->
  w_hist ih (fst (istep c w ev)) = w_hist ih w /\ w_reg ih (fst (istep c w ev)) = w_reg ih w /\
  w_rel ih (fst (istep c w ev)) = w_rel ih w.
Proof. exact ideal_refusal. Qed.
Print Assumptions C14_refusal_no_effect.

(* FINDING (liveness, not C14): tlog.CheckTree does not return for a new size above 2^62 with a
   non-empty proof; the request keeps the per-origin mutex for ever. Reachable only like this: *)
Theorem C14_spin_only_above_2_62 : forall cache reg fok stamp (a : add_parsed ih) c',
  add_locked ih INode IEmpty ih_eqb cache reg fok stamp a = LSpin ih c' ->
  spin_bound < ap_new ih a /\ ap_old ih a <> 0 /\ ap_old ih a <> ap_new ih a /\ ap_proof ih a <> [].
Proof. exact ideal_spin. Qed.
Print Assumptions C14_spin_only_above_2_62.

(* ---- non-vacuity: concrete runs ---- *)

(* two checkpoints recorded and cosigned, in order *)
Example ex_grow_recorded :
  sizes_roots (irecorded ex_o (irun ex_cfg iinit ex_grow)) = [(2, r2); (3, r3)] /\
  map ex_status (ioutputs ex_cfg iinit ex_grow) = [0; 0; 0; 0; 200; 0; 0; 200] /\
  map (fun r => (rl_size ih r, rl_at ih r)) (w_rel ih (irun ex_cfg iinit ex_grow)) = [(2, 1%nat); (3, 2%nat)].
Proof. vm_compute. repeat split. Qed.

(* from there: the fork (same size, other root) is 422, a stale old size is 409 with the size on record,
   a forged log signature 403, an unknown origin 404, an extension line 400, old > new 400 *)
Example ex_refusals :
  map ex_status (ioutputs ex_cfg (irun ex_cfg iinit ex_grow)
    [EAdd 1 (ABody 3 [] (ck 3 r3' lsig)) true;
     EAdd 1 (ABody 2 [lc] (ck 3 r3 lsig)) true;
     EAdd 1 (ABody 3 [] (ck 3 r3 [mkSig 48 SInvalid])) true;
     EAdd 1 (ABody 3 [] (ck 3 r3 [mkSig 49 SValid])) true;
     EAdd 1 (ABody 3 [] (NNote (TCkpt (s2b "other") 3 r3 false) lsig)) true;
     EAdd 1 (ABody 3 [] (NNote (TCkpt ex_o 3 r3 true) lsig)) true;
     EAdd 1 (ABody 3 [] (ck 2 r2 lsig)) true;
     EAdd 1 ABad true]) = [422; 409; 403; 403; 404; 400; 400; 400] /\
  snd (istep ex_cfg (irun ex_cfg iinit ex_grow) (EAdd 1 (ABody 2 [lc] (ck 3 r3 lsig)) true)) = OErr (EConflict 3).
Proof. vm_compute. split; reflexivity. Qed.

(* a store failure that WAS applied: recorded, not released, cache dropped; the retry gets 409 *)
Example ex_fail_applied :
  let evs := ex_setup ++ [EAdd 1 (ABody 0 [] (ck 2 r2 lsig)) true; EReplace 1 ex_o FFailApplied;
                          EAdd 1 (ABody 0 [] (ck 2 r2 lsig)) true] in
  sizes_roots (irecorded ex_o (irun ex_cfg iinit evs)) = [(2, r2)] /\
  w_rel ih (irun ex_cfg iinit evs) = [] /\
  map ex_status (ioutputs ex_cfg iinit evs) = [0; 0; 0; 500; 409].
Proof. vm_compute. repeat split. Qed.

(* a second instance with a stale handle: its Replace is refused by the compare-and-swap *)
Example ex_two_instances :
  let evs := ex_setup ++ [ERestart 2;
     EAdd 1 (ABody 0 [] (ck 2 r2 lsig)) true;          (* instance 1 parks at Replace(empty -> 2) *)
     EAdd 2 (ABody 0 [] (ck 3 r3' lsig)) true;         (* instance 2 parks at Replace(empty -> fork 3) *)
     EReplace 2 ex_o FOk; EUpload 2 ex_o FOk;          (* instance 2 wins *)
     EReplace 1 ex_o FOk] in                           (* instance 1: checkpoint changed *)
  sizes_roots (irecorded ex_o (irun ex_cfg iinit evs)) = [(3, r3')] /\
  map ex_status (ioutputs ex_cfg iinit evs) = [0; 0; 0; 0; 0; 0; 200; 500].
Proof. vm_compute. repeat split. Qed.

(* restart: the cache is lost, the register is kept *)
Example ex_restart :
  map ex_status (ioutputs ex_cfg (irun ex_cfg iinit ex_grow)
    [ERestart 1; EAdd 1 (ABody 3 [] (ck 3 r3 lsig)) false; EAdd 1 (ABody 2 [lc] (ck 3 r3 lsig)) true;
     EAdd 1 (ABody 3 [] (ck 3 r3 lsig)) false]) = [0; 500; 409; 0].
Proof. vm_compute. reflexivity. Qed.
