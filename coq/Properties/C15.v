(* Properties/C15.v — statements only. C15: a mirror cosignature implies a complete, correct,
   servable copy. Model: Mirror/Model.v (a transcription of the tlog-mirror part of
   internal/witness/witness.go: serveAddEntries, processAddEntriesMetadata / Packages / Package /
   Commit, ensureCutTiles, mirrorConflict(Next), the HashReaderOverlay over unauthenticated backend
   tiles), tie: harness/mirror drives the real handlers (checks/c15.py). Invariant and proofs:
   Mirror/InvDef.v (MInv), Mirror/Steps*.v, Mirror/Proofs.v; closed instance Mirror/Ideal.v.

   Quantification: ALL event lists [evs] = all interleavings, at package granularity, of
   add-checkpoint (EvPending: the honest log's next checkpoint, C14's business), add-entries
   requests with arbitrary origin class / range / ticket choice / body (any entries, any proofs, cut
   anywhere: EvBegin, EvPkg, EvCommit of any number of concurrent uploads), storage and lock faults
   (ok | fail | fail-but-applied at every operation), restarts (EvRestart) and runs of the
   partial-tile garbage collector (EvGC) between any two steps; ALL honest logs LOG below 2^62
   entries (torchwood's maxN; sizes are int64). Object storage is not tampered with.
   Hashes: the free term algebra [ih] (Merkle/Sound.v), for which the injectivity of NodeHash and
   RecordHash that the section theorems of Mirror/Proofs.v assume is a theorem (it stands for
   SHA-256 collision resistance); signatures and tickets are symbolic (see Mirror/Model.v). *)
From SL Require Import Merkle.Tiles Merkle.Proofs Merkle.Sound Mirror.Model Mirror.InvDef Mirror.Proofs Mirror.Ideal.
Open Scope N_scope.

(* C15. [w_signed] lists every mirror checkpoint the mirror signed (processAddEntriesCommit reached
   note.Sign; [sr_recorded]: the Replace on the mirror register took effect), with the object store
   and the pending register at that moment. For each of them, with n its size:
   - every tile of the tiled tree of size n (tlog.NewTiles(8,0,n): every full hash tile and, for
     each level, the right-edge partial tile ITSELF — stronger than "that tile or the full tile
     that extends it") is stored and holds exactly the hashes of the honest log's tree;
   - every entry bundle of the size-n tree is stored and holds exactly the log's entries at its
     coordinates (together: the first n entries);
   - n <= |LOG|, the root of the checkpoint is the RFC 6962 hash of the first n leaf hashes;
   - n does not exceed the size of the pending checkpoint (0 if there is none);
   and the sizes of the recorded mirror checkpoints, in the order of recording, never decrease
   and are bounded by the mirror register. *)
Theorem C15 : forall (LOG : list N) (evs : list iev), N.of_nat (length LOG) < 2 ^ 62 ->
  let w := irun LOG evs in
  (forall r, In r (w_signed w) ->
     let n := ck_size (sr_ck r) in
     (forall t, In t (tiles_needed n) ->
        lookup (sr_store r) (KHash t) =
        Some (OHash (tile_hashes ih INode (iLH LOG) (tc_L t) (tc_N t) (tc_W t)))) /\
     (forall j, j * 256 < n ->
        lookup (sr_store r) (KData j (N.min 256 (n - j * 256))) =
        Some (OData (firstn (N.to_nat (N.min 256 (n - j * 256))) (skipn (N.to_nat (j * 256)) LOG)))) /\
     n <= N.of_nat (length LOG) /\
     ck_root (sr_ck r) = imth (firstn (N.to_nat n) (iLH LOG)) /\
     n <= osize (sr_pending r)) /\
  mono (irec_sizes (w_signed w)) /\
  (forall x, In x (irec_sizes (w_signed w)) -> x <= osize (w_mlock w)).
Proof. exact ideal_c15. Qed.
Print Assumptions C15.

(* ... and the copy stays servable: in the state after ANY event list, for every mirror checkpoint
   signed so far, the store holds every tile of its tree or the full tile that extends it, and
   every entry bundle or the full bundle, with exactly the contents determined by the honest log
   (later uploads never change an object's contents; the garbage collector of C18 removes a partial
   tile only next to its full tile). *)
Theorem C15_stays_servable : forall (LOG : list N) (evs : list iev), N.of_nat (length LOG) < 2 ^ 62 ->
  let w := irun LOG evs in
  forall r, In r (w_signed w) ->
    let n := ck_size (sr_ck r) in
    (forall t, In t (tiles_needed n) ->
       lookup (w_store w) (KHash t) =
         Some (OHash (tile_hashes ih INode (iLH LOG) (tc_L t) (tc_N t) (tc_W t))) \/
       lookup (w_store w) (KHash (mkT (tc_L t) (tc_N t) 256)) =
         Some (OHash (tile_hashes ih INode (iLH LOG) (tc_L t) (tc_N t) 256))) /\
    (forall j, j * 256 < n ->
       lookup (w_store w) (KData j (N.min 256 (n - j * 256))) =
         Some (OData (firstn (N.to_nat (N.min 256 (n - j * 256))) (skipn (N.to_nat (j * 256)) LOG))) \/
       lookup (w_store w) (KData j 256) =
         Some (OData (firstn (N.to_nat 256) (skipn (N.to_nat (j * 256)) LOG)))).
Proof. exact ideal_c15_persist. Qed.
Print Assumptions C15_stays_servable.

(* Authentication before write: a package step changes the object store only if the package
   could be read completely and torchwood.CheckSubtree accepted its proof, against the resolved
   checkpoint, for the RFC 6962 hash of the uploaded entries (preceded, for an unaligned start, by
   the entries completed from the backend: they are authenticated along with the uploaded ones).
   For every world (no invariant needed) and every package step. *)
Theorem C15_auth_before_write : forall (w : iworld) sid (s : session N ih) fs,
  let ts := s_base s + s_i s * 256 in
  let pstart := N.max (s_start s) ts in
  let pend := N.min (s_end s) (ts + 256) in
  w_store (fst (ipkg_step w sid s fs)) <> w_store w ->
  exists es proof rest pre,
    read_pkg N ih (pend - pstart) (s_body s) = RdOk N ih es proof rest /\
    icheck_subtree proof (ck_size (s_res s)) (ck_root (s_res s)) ts pend
                   (imth (map ILeaf (pre ++ es))) = Ok.
Proof. exact ideal_c15_auth. Qed.
Print Assumptions C15_auth_before_write.

(* Resumption: after a restart (any history before it) nextEntry is re-initialised to the size of
   the mirror checkpoint, and the upload [size(mirror), size(pending)) is accepted by the metadata
   stage (parked at the first package hook, no 409); when the mirror checkpoint lies inside a tile,
   the entry bundle cut there, which completeTileFromBackend needs for the first package, is in
   the store. (That the remaining packages then succeed with the honest entries and proofs is
   exercised by Example ex_committed below and, on the implementation, by the mon|resume monitor.) *)
Theorem C15_resume : forall (LOG : list N) (evs : list iev) sid body,
  N.of_nat (length LOG) < 2 ^ 62 ->
  let w := fst (istep LOG (irun LOG evs) EvRestart) in
  forall p, w_plock w = Some p ->
  let mN := osize (w_mlock w) in
  let r := mkReq None OSelf mN (ck_size p) TkNone body in
  let res := istep LOG w (EvBegin sid r []) in
  snd res = [OResp sid RGate] /\
  w_next (fst res) = Some mN /\
  (exists s, get_sess (w_sess (fst res)) sid = Some s /\ s_res s = p /\ s_start s = mN /\
             s_end s = ck_size p /\ s_i s = 0) /\
  (mN mod 256 <> 0 -> present (w_store w) (KData (mN / 256) (mN mod 256)) = true).
Proof. exact ideal_c15_resume. Qed.
Print Assumptions C15_resume.

(* Non-vacuity (Mirror/Ideal.v): a 600-entry log is uploaded in three packages and committed, the
   pending checkpoint moves to 700, the mirror restarts, the garbage collector runs, and the upload
   resumes at 600 (inside a tile: the first package is completed from the backend) and is
   committed: two recorded mirror checkpoints, sizes 600 and 700. *)
Example C15_example :
  map (fun r => (ck_size (sr_ck r), sr_recorded r)) (w_signed ex_w) = [(600, true); (700, true)]
  /\ osize (w_mlock ex_w) = 700 /\ w_next ex_w = Some 700
  /\ present (w_store ex_w) (KHash (mkT 1 0 2)) = true
  /\ present (w_store ex_w) (KHash (mkT 0 2 188)) = true
  /\ present (w_store ex_w) (KData 2 88) = true
  /\ present (w_store ex_w) (KCkpt) = true.
Proof. exact ex_committed. Qed.

(* ... and a package with a wrong entry is answered 422 and writes nothing *)
Example C15_example_rejected :
  let w := irun ex_log ex_bad in
  snd (istep ex_log w (EvPkg 0 [])) = [OResp 0 (RStatus 422 "invalidproof")]
  /\ w_store (fst (istep ex_log w (EvPkg 0 []))) = w_store w
  /\ w_next w = Some 256.
Proof. exact ex_rejected. Qed.
