(* Properties/C18.v — statements only. Garbage collection (cmd/partial-aftersun) removes only
   superseded partial tiles. Model: GC/Model.v, a transcription of cleanDir / overrideImmutable /
   the level loop of main for both path flavours (sunlight.ParseTilePath for logs,
   torchwood.ParseTilePath for witness mirrors); tie: the unmodified partial-aftersun binary run
   on real log directories written by the real sequencer (checks/c18.py). The theorems speak of
   [deleted fl size root] = every path removed by a run, whether or not the run ended with an
   error or a panic half way. *)
From SL Require Import Codec.Leaf Merkle.Tiles GC.Model GC.Proofs.
Open Scope N_scope.

(* Every removed path is either (right disjunct) an accepted partial-tile path p1.p/W with
   1 <= W < 256 whose full tile p1 is a non-empty regular file, or (left disjunct) the ".p"
   directory p1.p itself; in both cases p1 is the accepted path of a full tile that cleanDir found
   strictly left of the right edge, which for every level below 2^61-1 means: level <= 6 and
   index N < size / 256^(max(0,L)+1).  Nothing else is ever removed. *)
Theorem C18_only : forall fl root size p, In p (deleted fl size root) ->
  exists p1 t1, parse_fl fl p1 = Some t1 /\ strictly_left size t1 /\
    ((t_L t1 < wrap_level)%Z -> (t_L t1 <= 6)%Z /\ (t_N t1 < size / tile_span (t_L t1))%Z) /\
    (p = p1 ++ dotp \/
     exists t2, parse_fl fl p = Some t2 /\ (1 <= t_W t2 < 256)%Z /\
       p = p1 ++ dotps ++ decZ (t_W t2) /\ t1 = mkTile 8 (t_L t2) (t_N t2) 256 /\
       exists sz, stat root p1 = Some (File sz) /\ 0 < sz).
Proof. exact c18_only. Qed.
Print Assumptions C18_only.

(* The level restriction above cannot be dropped: Go's int arithmetic in
   `int64(1) << (TileHeight * (max(0, t.L) + 1))` wraps at level 2^61-1, where tileSize becomes 1. *)
Theorem C18_only_wrapping_level_refuted :
  exists root size p t, In p (deleted FlLog size root) /\ parse_fl FlLog p = Some t /\
    (t_W t < 256)%Z /\ (8 < t_L t)%Z.
Proof. exact c18_only_wrapping_level_refuted. Qed.
Print Assumptions C18_only_wrapping_level_refuted.

(* No tile of the tree of ANY size n >= size (the published tree, a lock-store tree that is ahead,
   a mirror's later commits) is removed, nor is a directory above it: hash tiles of every level and
   the data / names tiles at the level-0 coordinates, under whatever path the parser accepts. *)
Theorem C18_preserves : forall fl root size n t q,
  (size <= Z.of_N n)%Z -> needed_tile n t -> parse_fl fl q = Some t ->
  survives (deleted fl size root) q.
Proof. exact c18_preserves. Qed.
Print Assumptions C18_preserves.

(* the same in terms of sunlight.TilePath and the coordinates tiles_needed of Merkle/Tiles.v *)
Theorem C18_preserves_log_paths : forall root size n c l q,
  (size <= Z.of_N n)%Z -> (Z.of_N n < two63)%Z -> In c (tiles_needed n) ->
  (l = Z.of_nat (tc_L c) \/ (tc_L c = O /\ (l = (-1)%Z \/ l = (-2)%Z))) ->
  tile_path (mkTile 8 l (Z.of_N (tc_N c)) (Z.of_N (tc_W c))) = Some q ->
  survives (deleted FlLog size root) q.
Proof. exact c18_preserves_log_paths. Qed.
Print Assumptions C18_preserves_log_paths.

(* If every tile of the tree of size n >= size is stored before the run, every one of them is
   still stored afterwards (n = size: the published checkpoint; n > size: the lock-store
   checkpoint that LoadLog will recover to). *)
Theorem C18_readable : forall fl root size n, (size <= Z.of_N n)%Z ->
  complete fl root n -> complete_after fl size root n.
Proof. exact c18_readable. Qed.
Print Assumptions C18_readable.

(* non-vacuity: a directory of a tree of size 259 with a superseded partial tile 000.p/5 left
   behind; the run removes exactly it and its directory, the needed partial 001.p/3 is a tile of the
   tree, is accepted by the parser, is present, and the hypotheses of the theorems hold *)
Definition ex_root : node :=
  Dir [(s2b "checkpoint", File 300);
       (s2b "tile", Dir [
         (s2b "0", Dir [(s2b "000", File 8192); (s2b "000.p", Dir [(s2b "5", File 160)]);
                        (s2b "001.p", Dir [(s2b "3", File 96)])]);
         (s2b "1", Dir [(s2b "000.p", Dir [(s2b "1", File 32)])]);
         (s2b "data", Dir [(s2b "000", File 9000); (s2b "000.p", Dir [(s2b "5", File 200)]);
                           (s2b "001.p", Dir [(s2b "3", File 120)])])])].

Example C18_example :
  deleted FlLog 259 ex_root =
    [s2b "tile/0/000.p/5"; s2b "tile/0/000.p"; s2b "tile/data/000.p/5"; s2b "tile/data/000.p"]
  /\ snd (clean_root FlLog (Some 259%Z) ex_root) = Ok
  /\ (259 <= Z.of_N 259)%Z
  /\ needed_tile 259 (mkTile 8 0 1 3)
  /\ parse_fl FlLog (s2b "tile/0/001.p/3") = Some (mkTile 8 0 1 3)
  /\ file_present ex_root (s2b "tile/0/001.p/3")
  /\ needed_tile 259 (mkTile 8 (-1) 1 3)
  /\ parse_fl FlLog (s2b "tile/data/001.p/3") = Some (mkTile 8 (-1) 1 3).
Proof.
  split; [vm_compute; reflexivity|]. split; [vm_compute; reflexivity|]. split; [lia|].
  split.
  { exists (mkT 0 1 3). split; [vm_compute; auto|]. cbn. auto 10. }
  split; [vm_compute; reflexivity|].
  split; [exists 96; vm_compute; reflexivity|].
  split.
  { exists (mkT 0 1 3). split; [vm_compute; auto|]. cbn. auto 10. }
  vm_compute; reflexivity.
Qed.

(* ---------- one run over several directories (GC/Multi.v: the loops of main) ---------- *)
From SL Require Import GC.Multi GC.MultiProofs.

(* A run over the logs of a config and the mirrored logs of its witness cleans every directory as
   if it were alone: what the run removes from its i-th directory is what the single-directory
   model removes with THAT directory's own checkpoint size, or nothing (the process had ended
   before it got there: fatalError on an earlier log, or a panic). *)
Theorem C18_run_each_directory_alone_or_untouched : forall ds i d, nth_error ds i = Some d ->
  deleted_in_run ds i = fst (clean_one d) \/ deleted_in_run ds i = [].
Proof. exact clean_run_each. Qed.
Print Assumptions C18_run_each_directory_alone_or_untouched.

(* cleaning a list of directories = cleaning each one, when the run is not cut short *)
Theorem C18_run_is_map : forall ds, no_abort ds ->
  fst (clean_run ds) = map (fun d => fst (clean_one d)) ds.
Proof. exact clean_run_all. Qed.
Print Assumptions C18_run_is_map.

(* independence: the result for a directory does not depend on which other directories (of
   whatever sizes, before or after it) were cleaned in the same run *)
Theorem C18_run_independent : forall ds i d, no_abort ds -> nth_error ds i = Some d ->
  deleted_in_run ds i = deleted_in_run [d] 0.
Proof. exact clean_run_independent. Qed.
Print Assumptions C18_run_independent.

(* C18_only for every directory of a run, with the directory's own size *)
Theorem C18_run_only : forall ds i d p, nth_error ds i = Some d -> In p (deleted_in_run ds i) ->
  exists size, ti_size d = Some size /\
  exists p1 t1, parse_fl (ti_fl d) p1 = Some t1 /\ strictly_left size t1 /\
    ((t_L t1 < wrap_level)%Z -> (t_L t1 <= 6)%Z /\ (t_N t1 < size / tile_span (t_L t1))%Z) /\
    (p = p1 ++ dotp \/
     exists t2, parse_fl (ti_fl d) p = Some t2 /\ (1 <= t_W t2 < 256)%Z /\
       p = p1 ++ dotps ++ decZ (t_W t2) /\ t1 = mkTile 8 (t_L t2) (t_N t2) 256 /\
       exists sz, stat (ti_root d) p1 = Some (File sz) /\ 0 < sz).
Proof. exact c18_run_only. Qed.
Print Assumptions C18_run_only.

(* C18_readable for every directory of a run: the tree at the directory's own published size (and
   any larger one: lock store ahead, mirror entries past the mirror checkpoint) stays complete *)
Theorem C18_run_readable : forall ds i d size n, nth_error ds i = Some d ->
  ti_size d = Some size -> (size <= Z.of_N n)%Z ->
  complete (ti_fl d) (ti_root d) n -> complete_after_run ds i d n.
Proof. exact c18_run_readable. Qed.
Print Assumptions C18_run_readable.

(* non-vacuity: a log published at 1000 followed, in the same run, by a log published at 300 whose
   tiles are already uploaded up to 600 (full tile 001 beside the partial 001.p/44 the published
   tree needs). The second directory loses only the superseded 000.p/200; 001.p/44 stays. *)
Definition ex_big : node :=
  Dir [(s2b "tile", Dir [(s2b "0", Dir [(s2b "000", File 8192); (s2b "000.p", Dir [(s2b "5", File 160)]);
                                        (s2b "001", File 8192); (s2b "002", File 8192);
                                        (s2b "003.p", Dir [(s2b "232", File 7424)])])])].
Definition ex_small : node :=
  Dir [(s2b "tile", Dir [(s2b "0", Dir [(s2b "000", File 8192); (s2b "000.p", Dir [(s2b "200", File 6400)]);
                                        (s2b "001", File 8192); (s2b "001.p", Dir [(s2b "44", File 1408)]);
                                        (s2b "002.p", Dir [(s2b "88", File 2816)])])])].
Definition ex_run : list tree_in :=
  [mkTreeIn FlLog (Some 1000%Z) false ex_big; mkTreeIn FlLog (Some 300%Z) false ex_small].

Example C18_run_example :
  clean_run ex_run =
    ([[s2b "tile/0/000.p/5"; s2b "tile/0/000.p"]; [s2b "tile/0/000.p/200"; s2b "tile/0/000.p"]], Ok)
  /\ no_abort ex_run
  /\ nth_error ex_run 1 = Some (mkTreeIn FlLog (Some 300%Z) false ex_small)
  /\ needed_tile 300 (mkTile 8 0 1 44)
  /\ parse_fl FlLog (s2b "tile/0/001.p/44") = Some (mkTile 8 0 1 44)
  /\ file_present ex_small (s2b "tile/0/001.p/44")
  /\ survives (deleted_in_run ex_run 1) (s2b "tile/0/001.p/44").
Proof.
  split; [vm_compute; reflexivity|].
  split; [repeat constructor; vm_compute; discriminate|].
  split; [reflexivity|].
  assert (Nd : needed_tile 300 (mkTile 8 0 1 44)).
  { exists (mkT 0 1 44). split; [vm_compute; auto|]. cbn. auto 10. }
  split; [exact Nd|].
  split; [vm_compute; reflexivity|].
  split; [exists 1408; vm_compute; reflexivity|].
  apply (c18_run_preserves ex_run 1%nat (mkTreeIn FlLog (Some 300%Z) false ex_small) 300%Z 300 (mkTile 8 0 1 44));
    [reflexivity|reflexivity|lia|exact Nd|vm_compute; reflexivity].
Qed.
