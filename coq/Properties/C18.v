(* Properties/C18.v — statements only. Garbage collection (cmd/partial-aftersun) removes only
   superseded partial tiles. Model: GC/Model.v, a transcription of cleanDir / overrideImmutable /
   the level loop of main for both path flavours (sunlight.ParseTilePath for logs,
   torchwood.ParseTilePath for witness mirrors); tie: the unmodified partial-aftersun binary run
   on real log directories written by the real sequencer (checks/c18.py). The theorems speak of
   [deleted fl size root] = every path removed by a run, whether or not the run ended with an
   error or a panic half way. *)
From SL Require Import Codec.Leaf Merkle.Tiles GC.Model GC.Proofs.
Open Scope N_scope.

(* Every removed path is either (right disjunct) an accepted partial-tile path p1.p/W with
   1 <= W < 256 whose full tile p1 is a non-empty regular file, or (left disjunct) the ".p"
   directory p1.p itself; in both cases p1 is the accepted path of a full tile that cleanDir found
   strictly left of the right edge, which for every level below 2^61-1 means: level <= 6 and
   index N < size / 256^(max(0,L)+1).  Nothing else is ever removed. *)
Theorem C18_only : forall fl root size p, In p (deleted fl size root) ->
  exists p1 t1, parse_fl fl p1 = Some t1 /\ strictly_left size t1 /\
    ((t_L t1 < wrap_level)%Z -> (t_L t1 <= 6)%Z /\ (t_N t1 < size / tile_span (t_L t1))%Z) /\
    (p = p1 ++ dotp \/
     exists t2, parse_fl fl p = Some t2 /\ (1 <= t_W t2 < 256)%Z /\
       p = p1 ++ dotps ++ decZ (t_W t2) /\ t1 = mkTile 8 (t_L t2) (t_N t2) 256 /\
       exists sz, stat root p1 = Some (File sz) /\ 0 < sz).
Proof. exact c18_only. Qed.
Print Assumptions C18_only.

(* The level restriction above cannot be dropped: Go's int arithmetic in
   `int64(1) << (TileHeight * (max(0, t.L) + 1))` wraps at level 2^61-1, where tileSize becomes 1. *)
Theorem C18_only_wrapping_level_refuted :
  exists root size p t, In p (deleted FlLog size root) /\ parse_fl FlLog p = Some t /\
    (t_W t < 256)%Z /\ (8 < t_L t)%Z.
Proof. exact c18_only_wrapping_level_refuted. Qed.
Print Assumptions C18_only_wrapping_level_refuted.

(* No tile of the tree of ANY size n >= size (the published tree, a lock-store tree that is ahead,
   a mirror's later commits) is removed, nor is a directory above it: hash tiles of every level and
   the data / names tiles at the level-0 coordinates, under whatever path the parser accepts. *)
Theorem C18_preserves : forall fl root size n t q,
  (size <= Z.of_N n)%Z -> needed_tile n t -> parse_fl fl q = Some t ->
  survives (deleted fl size root) q.
Proof. exact c18_preserves. Qed.
Print Assumptions C18_preserves.

(* the same in terms of sunlight.TilePath and the coordinates tiles_needed of Merkle/Tiles.v *)
Theorem C18_preserves_log_paths : forall root size n c l q,
  (size <= Z.of_N n)%Z -> (Z.of_N n < two63)%Z -> In c (tiles_needed n) ->
  (l = Z.of_nat (tc_L c) \/ (tc_L c = O /\ (l = (-1)%Z \/ l = (-2)%Z))) ->
  tile_path (mkTile 8 l (Z.of_N (tc_N c)) (Z.of_N (tc_W c))) = Some q ->
  survives (deleted FlLog size root) q.
Proof. exact c18_preserves_log_paths. Qed.
Print Assumptions C18_preserves_log_paths.

(* If every tile of the tree of size n >= size is stored before the run, every one of them is
   still stored afterwards (n = size: the published checkpoint; n > size: the lock-store
   checkpoint that LoadLog will recover to). *)
Theorem C18_readable : forall fl root size n, (size <= Z.of_N n)%Z ->
  complete fl root n -> complete_after fl size root n.
Proof. exact c18_readable. Qed.
Print Assumptions C18_readable.

(* non-vacuity: a directory of a tree of size 259 with a superseded partial tile 000.p/5 left
   behind; the run removes exactly it and its directory, the needed partial 001.p/3 is a tile of the
   tree, is accepted by the parser, is present, and the hypotheses of the theorems hold *)
Definition ex_root : node :=
  Dir [(s2b "checkpoint", File 300);
       (s2b "tile", Dir [
         (s2b "0", Dir [(s2b "000", File 8192); (s2b "000.p", Dir [(s2b "5", File 160)]);
                        (s2b "001.p", Dir [(s2b "3", File 96)])]);
         (s2b "1", Dir [(s2b "000.p", Dir [(s2b "1", File 32)])]);
         (s2b "data", Dir [(s2b "000", File 9000); (s2b "000.p", Dir [(s2b "5", File 200)]);
                           (s2b "001.p", Dir [(s2b "3", File 120)])])])].

Example C18_example :
  deleted FlLog 259 ex_root =
    [s2b "tile/0/000.p/5"; s2b "tile/0/000.p"; s2b "tile/data/000.p/5"; s2b "tile/data/000.p"]
  /\ snd (clean_root FlLog (Some 259%Z) ex_root) = Ok
  /\ (259 <= Z.of_N 259)%Z
  /\ needed_tile 259 (mkTile 8 0 1 3)
  /\ parse_fl FlLog (s2b "tile/0/001.p/3") = Some (mkTile 8 0 1 3)
  /\ file_present ex_root (s2b "tile/0/001.p/3")
  /\ needed_tile 259 (mkTile 8 (-1) 1 3)
  /\ parse_fl FlLog (s2b "tile/data/001.p/3") = Some (mkTile 8 (-1) 1 3).
Proof.
  split; [vm_compute; reflexivity|]. split; [vm_compute; reflexivity|]. split; [lia|].
  split.
  { exists (mkT 0 1 3). split; [vm_compute; auto|]. cbn. auto 10. }
  split; [vm_compute; reflexivity|].
  split; [exists 96; vm_compute; reflexivity|].
  split.
  { exists (mkT 0 1 3). split; [vm_compute; auto|]. cbn. auto 10. }
  vm_compute; reflexivity.
Qed.
