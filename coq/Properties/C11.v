(* Properties/C11.v — statements only. Signed tree heads verify independently and the checkpoint
   verifier is strict. Model: Ckpt/Model.v, a transcription of /repo/checkpoint.go, of the
   checkpoint codec in filippo.io/torchwood (with Go's base64.StdEncoding and strconv.ParseInt),
   of ct-go's SerializeSTHSignatureInput, of digitallySign/signTreeHead in internal/ctlog/ctlog.go,
   of torchwood's ML-DSA cosigner and of the signature-line level of x/mod note.Sign/Open.
   Signatures are symbolic: every theorem is universally quantified over the primitives
   (raw_verify, raw_sign, w_verify, key hashes) and NOTHING is assumed about them except where a
   hypothesis says so. Tie: checks/c11.py (differential run of the extracted model against the Go
   functions, independent-verifier monitors on real signatures). *)
From SL Require Import Base.Bytes Base.Cryptobyte Codec.Leaf Ckpt.Model
  Ckpt.VerifierProofs Ckpt.Base64Proofs Ckpt.CodecProofs Ckpt.NameProofs Ckpt.NoteProofs
  Base.ReaderGen Gen.Readers Gen.Builders2 Ckpt.GenProofs.
Open Scope N_scope.

(* 1. what the note verifier of NewRFC6962Verifier checks, exactly: origin equality, no extension,
   the blob layout with nothing after the signature, the signature algorithm of the key type, and
   the primitive on the STH input of (size, timestamp, root) *)
Theorem C11_verifier_iff : forall (pubkey : Type) (sig_alg : pubkey -> option byte)
    (raw_verify : pubkey -> bytes -> bytes -> bool) name pk msg blob,
  rfc6962_verify pubkey sig_alg raw_verify name pk msg blob = true <->
  exists n root ts s a,
    parse_checkpoint msg = Some (mkCkpt name n root []) /\
    sig_alg pk = Some a /\ ts < two64N /\ blen s < two16N /\
    blob = be 8 ts ++ [x04; a] ++ be 2 (blen s) ++ s /\
    raw_verify pk (sth_signature_input (u64 n) ts root) s = true.
Proof. exact verifier_iff. Qed.
Print Assumptions C11_verifier_iff.

(* 2. the signed bytes determine the tuple *)
Theorem C11_sth_input_inj : forall n ts r n' ts' r',
  n < two64N -> ts < two64N -> n' < two64N -> ts' < two64N ->
  sth_signature_input n ts r = sth_signature_input n' ts' r' -> n = n' /\ ts = ts' /\ r = r'.
Proof. exact sth_input_inj. Qed.
Print Assumptions C11_sth_input_inj.

(* 3. strictness: acceptance means the primitive accepted exactly the claimed tuple *)
Theorem C11_strict_tuple : forall (pubkey : Type) sig_alg raw_verify name (pk : pubkey) msg blob c,
  rfc6962_verify pubkey sig_alg raw_verify name pk msg blob = true -> parse_checkpoint msg = Some c ->
  c_origin c = name /\ c_ext c = [] /\
  exists ts s a, sig_alg pk = Some a /\ blob = note_signature ts a s /\ ts < two64N /\ blen s < two16N /\
    raw_verify pk (sth_signature_input (u64 (c_n c)) ts (c_hash c)) s = true.
Proof. exact strict_tuple. Qed.
Print Assumptions C11_strict_tuple.

Theorem C11_strict_changed_tuple : forall (pubkey : Type) sig_alg raw_verify name (pk : pubkey) msg blob c ts s a n0 ts0 root0,
  rfc6962_verify pubkey sig_alg raw_verify name pk msg blob = true -> parse_checkpoint msg = Some c ->
  blob = note_signature ts a s -> ts < two64N -> blen s < two16N -> n0 < two64N -> ts0 < two64N ->
  (u64 (c_n c), ts, c_hash c) <> (n0, ts0, root0) ->
  sth_signature_input (u64 (c_n c)) ts (c_hash c) <> sth_signature_input n0 ts0 root0 /\
  raw_verify pk (sth_signature_input (u64 (c_n c)) ts (c_hash c)) s = true.
Proof. exact strict_changed_tuple. Qed.
Print Assumptions C11_strict_changed_tuple.

Theorem C11_strict_foreign_origin : forall (pubkey : Type) sig_alg raw_verify name (pk : pubkey) msg blob c,
  parse_checkpoint msg = Some c -> c_origin c <> name ->
  rfc6962_verify pubkey sig_alg raw_verify name pk msg blob = false.
Proof. exact strict_foreign_origin. Qed.
Print Assumptions C11_strict_foreign_origin.

Theorem C11_strict_extension : forall (pubkey : Type) sig_alg raw_verify name (pk : pubkey) msg blob c,
  parse_checkpoint msg = Some c -> c_ext c <> [] ->
  rfc6962_verify pubkey sig_alg raw_verify name pk msg blob = false.
Proof. exact strict_extension. Qed.
Print Assumptions C11_strict_extension.

Theorem C11_strict_unparsable : forall (pubkey : Type) sig_alg raw_verify name (pk : pubkey) msg blob,
  parse_checkpoint msg = None -> rfc6962_verify pubkey sig_alg raw_verify name pk msg blob = false.
Proof. exact strict_unparsable. Qed.
Print Assumptions C11_strict_unparsable.

Theorem C11_strict_trailing : forall (pubkey : Type) sig_alg raw_verify name (pk : pubkey) msg ts a s extra,
  ts < two64N -> blen s < two16N -> extra <> [] ->
  rfc6962_verify pubkey sig_alg raw_verify name pk msg (note_signature ts a s ++ extra) = false.
Proof. exact strict_trailing. Qed.
Print Assumptions C11_strict_trailing.

Theorem C11_strict_alg : forall (pubkey : Type) sig_alg raw_verify name (pk : pubkey) msg ts a s,
  sig_alg pk <> Some a ->
  rfc6962_verify pubkey sig_alg raw_verify name pk msg (note_signature ts a s) = false.
Proof. exact strict_alg. Qed.
Print Assumptions C11_strict_alg.

(* with unforgeability of the primitive as an explicit hypothesis: only signed tuples are accepted *)
Theorem C11_accepted_tuple_was_signed : forall (pubkey : Type) sig_alg raw_verify (signed : list bytes) name (pk : pubkey) msg blob c,
  (forall m s, raw_verify pk m s = true -> In m signed) ->
  rfc6962_verify pubkey sig_alg raw_verify name pk msg blob = true -> parse_checkpoint msg = Some c ->
  exists ts, rd_u 8 blob = Some (ts, skipn 8 blob) /\
    In (sth_signature_input (u64 (c_n c)) ts (c_hash c)) signed.
Proof. exact accepted_tuple_was_signed. Qed.
Print Assumptions C11_accepted_tuple_was_signed.

(* 4. the text codec *)
Theorem C11_parse_format : forall c, wf_ckpt c -> parse_checkpoint (format_checkpoint c) = Some c.
Proof. exact parse_format. Qed.
Print Assumptions C11_parse_format.

Theorem C11_valid_origin_one_line : forall name, is_valid_name name = true -> no_nl name = true.
Proof. exact valid_name_no_nl. Qed.
Print Assumptions C11_valid_origin_one_line.

Theorem C11_parse_inv : forall text c, parse_checkpoint text = Some c ->
  (0 <= c_n c < two63)%Z /\ length (c_hash c) = 32%nat /\ ext_ok (c_ext c) = true /\
  no_nl (c_origin c) = true /\ blen text <= max_checkpoint_size /\
  exists l2, no_nl l2 = true /\ b64_decode l2 = Some (c_hash c) /\
    text = c_origin c ++ nl :: decZ (c_n c) ++ nl :: l2 ++ nl :: c_ext c.
Proof. exact parse_inv. Qed.
Print Assumptions C11_parse_inv.

Theorem C11_parse_canonical_iff : forall text c, parse_checkpoint text = Some c ->
  (text = format_checkpoint c <->
   exists rest, text = c_origin c ++ nl :: decZ (c_n c) ++ nl :: b64_encode (c_hash c) ++ nl :: rest).
Proof. exact parse_canonical_iff. Qed.
Print Assumptions C11_parse_canonical_iff.

(* the converse canonicity is false of the code: base64.StdEncoding ignores unused trailing bits
   and CR/LF, so several texts parse to one checkpoint (and the RFC 6962 verifier, which signs
   the reconstructed tree head, accepts all of them) *)
Theorem C11_parse_injective_refuted :
  exists t1 t2 c, t1 <> t2 /\ parse_checkpoint t1 = Some c /\ parse_checkpoint t2 = Some c /\
                  t1 = format_checkpoint c /\ t2 <> format_checkpoint c.
Proof. exact parse_injective_refuted_trailing_bits. Qed.
Print Assumptions C11_parse_injective_refuted.

Theorem C11_parse_injective_refuted_cr :
  exists t1 t2 c, t1 <> t2 /\ parse_checkpoint t1 = Some c /\ parse_checkpoint t2 = Some c.
Proof. exact parse_injective_refuted_cr. Qed.
Print Assumptions C11_parse_injective_refuted_cr.

(* 5. every checkpoint signTreeHead produces opens, carries both signatures, embeds the tree time,
   and passes the independent verifier *)
Theorem C11_signed_head_opens : forall (pubkey : Type) sig_alg raw_verify rfc_key_hash (wpubkey : Type) w_verify w_key_hash
    (seckey : Type) pub raw_sign name (sk : seckey) (wpk : wpubkey) ws n hash time now rfc_first grease text lines v1 v2,
  sign_tree_head pubkey sig_alg raw_verify rfc_key_hash wpubkey w_key_hash seckey pub raw_sign
    name sk wpk ws n hash time now rfc_first grease = Some (text, lines) ->
  (0 <= n < two63)%Z -> length hash = 32%nat ->
  note_text_ok name = true ->
  (forall m, w_verify wpk m (ws m) = true) -> (forall m, blen (ws m) = mldsa44_sig_size) ->
  rfc_key_hash name (pub sk) <> w_key_hash name wpk ->
  new_rfc6962_verifier pubkey sig_alg raw_verify rfc_key_hash name (pub sk) = Some v1 ->
  new_cosig_verifier wpubkey w_verify w_key_hash name wpk = Some v2 ->
  Forall (unknown_to [v1; v2]) grease -> Forall line_wf grease -> (length grease <= 98)%nat ->
  let sig := raw_sign sk (sth_signature_input (Z.to_N n) (u64 time) hash) in
  exists rl wl,
    text = format_checkpoint (mkCkpt name n hash []) /\
    note_open [v1; v2] text lines = Some (if rfc_first then [rl; wl] else [wl; rl]) /\
    sl_name rl = name /\ sl_hash rl = v_hash v1 /\ sl_name wl = name /\ sl_hash wl = v_hash v2 /\
    sl_blob rl = be 8 (u64 time) ++ [x04; x03] ++ be 2 (blen sig) ++ sig /\
    ((0 <= time < two63)%Z -> rfc6962_signature_timestamp (sl_blob rl) = Some time) /\
    independent_sth_verify pubkey sig_alg raw_verify (pub sk) (Z.to_N n) (u64 time) hash x03 sig = true.
Proof. exact signed_head_opens. Qed.
Print Assumptions C11_signed_head_opens.

(* the hypothesis note_text_ok name cannot be dropped: isValidName admits C0 control characters,
   note.Open does not (finding C11-ctl-origin) *)
Theorem C11_signed_head_opens_refuted :
  let sts := sign_tree_head unit (fun _ => Some x03) (fun _ _ _ => true) (fun _ _ => 1)
               unit (fun _ _ => 2) unit (fun _ => tt) (fun _ _ => [x30]) in
  is_valid_name ctl_name = true /\
  exists text lines,
    sts ctl_name tt tt (fun _ => repeat x00 2420) 5%Z (repeat x07 32) 1000%Z 1700000000 true [] = Some (text, lines) /\
    forall v1 v2,
      new_rfc6962_verifier unit (fun _ => Some x03) (fun _ _ _ => true) (fun _ _ => 1) ctl_name tt = Some v1 ->
      new_cosig_verifier unit (fun _ _ _ => true) (fun _ _ => 2) ctl_name tt = Some v2 ->
      note_open [v1; v2] text lines = None.
Proof. exact signed_head_opens_refuted. Qed.
Print Assumptions C11_signed_head_opens_refuted.

(* 6. determinism (by construction: the primitive is a function; RFC 6979 is observed, not proved) *)
Theorem C11_sign_deterministic : forall (pubkey : Type) sig_alg raw_verify rfc_key_hash (wpubkey : Type) w_key_hash
    (seckey : Type) pub raw_sign name (sk : seckey) (wpk : wpubkey) ws ws' n hash time now now' o o' g g' text text' lines lines',
  sign_tree_head pubkey sig_alg raw_verify rfc_key_hash wpubkey w_key_hash seckey pub raw_sign
    name sk wpk ws n hash time now o g = Some (text, lines) ->
  sign_tree_head pubkey sig_alg raw_verify rfc_key_hash wpubkey w_key_hash seckey pub raw_sign
    name sk wpk ws' n hash time now' o' g' = Some (text', lines') ->
  text = text' /\
  exists rl, In rl lines /\ In rl lines' /\ sl_name rl = name /\ sl_hash rl = rfc_key_hash name (pub sk).
Proof. exact sign_deterministic. Qed.
Print Assumptions C11_sign_deterministic.

(* ---- non-vacuity ---- *)

(* a concrete checkpoint in the codec's domain, with an extension line *)
Example C11_wf_example :
  wf_ckpt (mkCkpt (s2b "example.com/log") 9223372036854775807 (repeat xfb 32) (s2b "ext" ++ [nl])).
Proof. repeat split; vm_compute; try reflexivity; intro H; discriminate H. Qed.

(* the verifier accepts something: with a primitive that accepts one (input, signature) pair *)
Example C11_verify_example :
  let msg := format_checkpoint (mkCkpt (s2b "example.com/log") 7 (repeat x00 32) []) in
  let input := sth_signature_input 7 1700000000000 (repeat x00 32) in
  let rv := fun (_ : unit) m s => bytes_eqb m input && bytes_eqb s [x30; x00] in
  rfc6962_verify unit (fun _ => Some x03) rv (s2b "example.com/log") tt msg
    (note_signature 1700000000000 x03 [x30; x00]) = true
  /\ rfc6962_verify unit (fun _ => Some x03) rv (s2b "example.com/log") tt msg
    (note_signature 1700000000001 x03 [x30; x00]) = false
  /\ rfc6962_verify unit (fun _ => Some x03) rv (s2b "example.com/log") tt msg
    (note_signature 1700000000000 x03 [x30; x00] ++ [x00]) = false.
Proof. cbv zeta. repeat split; vm_compute; reflexivity. Qed.

(* signTreeHead succeeds and all hypotheses of C11_signed_head_opens hold for an ordinary name *)
Example C11_sign_example :
  let v1 := mkVerifier (s2b "example.com/log") 1
              (rfc6962_verify unit (fun _ => Some x03) (fun _ _ _ => true) (s2b "example.com/log") tt) in
  let v2 := mkVerifier (s2b "example.com/log") 2
              (cosig_verify unit (fun _ _ _ => true) (s2b "example.com/log") tt) in
  exists text lines,
    sign_tree_head unit (fun _ => Some x03) (fun _ _ _ => true) (fun _ _ => 1)
      unit (fun _ _ => 2) unit (fun _ => tt) (fun _ _ => [x30])
      (s2b "example.com/log") tt tt (fun _ => repeat x00 2420) 5%Z (repeat x07 32) 1000%Z 1700000000 true [] = Some (text, lines)
    /\ note_text_ok (s2b "example.com/log") = true
    /\ new_rfc6962_verifier unit (fun _ => Some x03) (fun _ _ _ => true) (fun _ _ => 1) (s2b "example.com/log") tt = Some v1
    /\ new_cosig_verifier unit (fun _ _ _ => true) (fun _ _ => 2) (s2b "example.com/log") tt = Some v2
    /\ match note_open [v1; v2] text lines with Some sigs => length sigs = 2%nat | None => False end.
Proof.
  cbv zeta. do 2 eexists. split; [vm_compute; reflexivity|]. split; [vm_compute; reflexivity|].
  split; [unfold new_rfc6962_verifier;
          replace (is_valid_name (s2b "example.com/log")) with true by (vm_compute; reflexivity); reflexivity|].
  split; [unfold new_cosig_verifier;
          replace (is_valid_name (s2b "example.com/log")) with true by (vm_compute; reflexivity); reflexivity|].
  vm_compute. reflexivity.
Qed.

(* ---- the byte-level pieces as TRANSLATED from checkpoint.go / ctlog.go on every run ---- *)

(* the RFC6962NoteSignature reader inside NewRFC6962Verifier's closure (Gen/Readers.v): on every blob it
   yields exactly the (timestamp, signature algorithm, signature) of the model's parse_note_signature,
   or rejects — including the "nothing after the signature" and "hash algorithm 4" clauses *)
Theorem C11_note_signature_reader_code_is_model : forall blob,
  nsig_result (gen_nsig blob) = parse_note_signature blob.
Proof. exact gen_nsig_is_model. Qed.
Print Assumptions C11_note_signature_reader_code_is_model.

(* every rejection of that reader is the closure's `return false`; what follows the reader is the STH *)
Theorem C11_note_signature_reader_rejections : forall blob,
  match gen_nsig blob with Fail r => r = ret_false | Done r _ => r = ret_fragment_end | _ => False end.
Proof. exact gen_nsig_rejects_with_false. Qed.
Print Assumptions C11_note_signature_reader_rejections.

(* RFC6962SignatureTimestamp: skip the key hash, then the model's reader *)
Theorem C11_signature_timestamp_code_is_model : forall blob,
  sigts_result (gen_sigts blob) =
  match rd_bytes 4 blob with Some (_, r) => rfc6962_signature_timestamp r | None => None end.
Proof. exact gen_sigts_is_model. Qed.
Print Assumptions C11_signature_timestamp_code_is_model.

(* digitallySign's and the injected signer's builders *)
Theorem C11_digitally_sign_code_is_model : forall sig, gen_digitally_sign sig = digitally_signed x03 sig.
Proof. exact gen_digitally_sign_is_model. Qed.
Print Assumptions C11_digitally_sign_code_is_model.

Theorem C11_injected_blob_code_is_model : forall sig ts,
  gen_injected_blob sig (u64 ts) = Some (be 8 (u64 ts) ++ sig).
Proof. exact gen_injected_blob_is_model. Qed.
Print Assumptions C11_injected_blob_code_is_model.

(* non-vacuity: on a well-formed blob (timestamp, hash 4, ecdsa 3, a 3-byte signature) both sides accept with the same
   values; with one trailing byte both reject *)
Example C11_note_signature_reader_example :
  nsig_result (gen_nsig (be 8 1700000000000 ++ [x04; x03] ++ be 2 3 ++ [x30; x01; x02]))
    = Some (1700000000000, x03, [x30; x01; x02])
  /\ parse_note_signature (be 8 1700000000000 ++ [x04; x03] ++ be 2 3 ++ [x30; x01; x02]) = Some (1700000000000, x03, [x30; x01; x02])
  /\ nsig_result (gen_nsig (be 8 1700000000000 ++ [x04; x03] ++ be 2 3 ++ [x30; x01; x02; x00])) = None.
Proof. repeat split; vm_compute; reflexivity. Qed.
