(* C16 — Subtree cosignatures are issued only for subtrees of a cosigned tree.
   Model: Witness/Model.v process_sign_subtree (transcription of processSignSubtreeRequest);
   closed instances over the free hash algebra ih. Signatures are symbolic: In (mkSig k SValid) sigs
   = "the presented note carries a signature that verifies over its text under key k". *)
From SL Require Import Witness.Model Witness.Proofs Witness.Inv Witness.Theorems Witness.Ideal Witness.Reverify Merkle.Sound.
Open Scope N_scope.

(* an answer with signatures: the note parses as a checkpoint (no extension lines) of a known origin,
   [start, end) is a valid subtree, end <= size, the supplied hash IS the hash of that subtree of any
   leaf list the checkpoint's root commits to, there is at least one signer, and every signer is the
   witness's ML-DSA key or the mirror's key AND has a valid cosignature on the presented checkpoint *)
Theorem C16 : forall c m b sg,
  isign_subtree c m b = inr sg ->
  exists p size root sigs,
    b = SBody (ss_start ih sg) (ss_end ih sg) (ss_hash ih sg) p
              (NNote (TCkpt (ss_origin ih sg) size root false) sigs) /\
    meta_lookup m (ss_origin ih sg) <> None /\
    valid_subtree (ss_start ih sg) (ss_end ih sg) = true /\
    ss_end ih sg <= size /\ size < int64_bound /\
    icheck_subtree p size root (ss_start ih sg) (ss_end ih sg) (ss_hash ih sg) = Ok /\
    (forall L, N.of_nat (length L) = size -> root = imth L ->
       ss_hash ih sg = imth (firstn (N.to_nat (ss_end ih sg - ss_start ih sg)) (skipn (N.to_nat (ss_start ih sg)) L))) /\
    ss_keys ih sg <> [] /\
    forall k, In k (ss_keys ih sg) ->
      (k = wc_w2 c \/ wc_m c = Some k) /\ In (mkSig k SValid) sigs.
Proof. exact ideal_subtree. Qed.
Print Assumptions C16.

(* each refusal class yields an error, i.e. no signature: an invalid range (400); a checkpoint on
   which none of the witness's own ML-DSA keys has a valid cosignature; a checkpoint smaller than the
   subtree's end, a proof that does not verify, or a hash that is not the subtree's hash *)
Theorem C16_none : forall c m s e sh p (n : note ih),
  (valid_subtree s e = false -> isign_subtree c m (SBody s e sh p n) = inl EBadRequest) /\
  ((forall x, In x (note_sigs ih n) -> sg_kind x = SValid -> ~ In (sg_key x) (sub_verifiers c)) ->
     exists err, isign_subtree c m (SBody s e sh p n) = inl err) /\
  (forall o size root sigs, n = NNote (TCkpt o size root false) sigs ->
     (size < e \/
      icheck_subtree p size root s e sh <> Ok \/
      (exists L, N.of_nat (length L) = size /\ root = imth L /\
                 sh <> imth (firstn (N.to_nat (e - s)) (skipn (N.to_nat s) L)))) ->
     exists err, isign_subtree c m (SBody s e sh p n) = inl err).
Proof. exact ideal_subtree_none. Qed.
Print Assumptions C16_none.

(* the per-signer re-verification before signing never fails once the note opened: the refusal
   "internal error: failed to re-verify signature" is unreachable (and is never seen by the harness) *)
Theorem C16_reverify_never_fails : forall c m (b : sub_body ih),
  isign_subtree c m b <> inl (EInternal IReverify).
Proof. exact (reverify_dead ih INode ih_eqb). Qed.
Print Assumptions C16_reverify_never_fails.

(* ---- non-vacuity ---- *)
Definition ex_meta : meta := [(ex_o, [48])].
Definition sub_keys (r : werr + subsig ih) : list keyid := match r with inr s => ss_keys ih s | inl _ => [] end.
Definition sub_status (r : werr + subsig ih) : N := match r with inr _ => 200 | inl e => status_of e end.

(* subtree [0,2) of the tree of size 3, proof [lc]; signer sets follow the valid cosignatures *)
Example ex_sub_signers :
  sub_keys (isign_subtree ex_cfg ex_meta (SBody 0 2 r2 [lc] (ck 3 r3 [mkSig 48 SValid; mkSig 16 SValid; mkSig 17 SValid]))) = [17] /\
  sub_keys (isign_subtree ex_cfg ex_meta (SBody 0 2 r2 [lc] (ck 3 r3 [mkSig 32 SValid]))) = [32] /\
  sub_keys (isign_subtree ex_cfg ex_meta (SBody 0 2 r2 [lc] (ck 3 r3 [mkSig 32 SValid; mkSig 17 SValid]))) = [32; 17] /\
  sub_keys (isign_subtree ex_cfg ex_meta (SBody 2 3 lc [r2] (ck 3 r3 [mkSig 17 SValid; mkSig 17 SInvalid]))) = [17].
Proof. vm_compute. repeat split. Qed.

Example ex_sub_refusals :
  map (fun b => sub_status (isign_subtree ex_cfg ex_meta b))
    [SBody 0 2 r2 [lc] (ck 3 r3 [mkSig 48 SValid]);                       (* not cosigned by own keys *)
     SBody 0 2 r2 [lc] (ck 3 r3 [mkSig 16 SValid]);                       (* Ed25519 cosignature only *)
     SBody 0 2 r2 [lc] (ck 3 r3 [mkSig 80 SValid; mkSig 81 SValid]);      (* foreign witness *)
     SBody 0 2 r2 [lc] (ck 3 r3 [mkSig 17 SInvalid]);                     (* forged *)
     SBody 0 2 r2 [lc] (ck 3 r3 [mkSig 17 SValid; mkSig 32 SInvalid]);    (* one valid, mirror's forged *)
     SBody 0 2 (imth [la; ld]) [lc] (ck 3 r3 [mkSig 17 SValid]);          (* wrong hash *)
     SBody 0 2 r2 [ld] (ck 3 r3 [mkSig 17 SValid]);                       (* wrong proof *)
     SBody 1 3 r2 [lc] (ck 3 r3 [mkSig 17 SValid]);                       (* invalid range *)
     SBody 0 4 r2 [lc] (ck 3 r3 [mkSig 17 SValid]);                       (* beyond the checkpoint *)
     SBody 0 2 r2 [lc] (NNote (TCkpt (s2b "other") 3 r3 false) [mkSig 17 SValid]);
     SBody 0 2 r2 [lc] (NNote (TCkpt ex_o 3 r3 true) [mkSig 17 SValid]);
     SBad]
  = [403; 403; 403; 403; 403; 422; 422; 400; 400; 404; 400; 400].
Proof. vm_compute. reflexivity. Qed.
