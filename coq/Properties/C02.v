(* Properties/C02.v — statements only. An SCT is returned only for an entry already in the tree.
   Proved for ALL event lists (submissions new/duplicate/concurrent with sequencing, fault
   placements, crash points, cache loss, restarts, any number of instances, tampering of object
   storage): every acknowledgement (index, timestamp) — from a sequencing round or from the
   dedup cache — names an index that, in every committed checkpoint large enough to contain it
   (hence in every later one, by C01), holds an entry with the submitted entry's dedup identity
   (type, issuer key hash, certificate/TBS), exactly that timestamp and that leaf index; and
   acknowledgements are never retracted by later events (crashes included).
   Partial: "the checkpoint READABLE FROM OBJECT STORAGE at that moment covers the index" is not a
   theorem here: with two live instances it is false of the code (known finding C06); for one live
   instance it is checked on every acknowledgement by the harness monitor C02.ack, and the SCT
   signature check by ct-go is part of the C09 harness. *)
From SL Require Import Ctlog.Model Ctlog.Spec Ctlog.Inv2 Ctlog.Theorems2 Ctlog.Example.

Theorem C02_ack_names_committed_leaf_partial : forall (sha : bytes -> bytes) evs a idx ts,
  let w := run sha evs init in
  In a (w_acks w) -> a_res a = Some (idx, ts) ->
  (exists c ls, In (c, ls) (w_lockhist w) /\ (N.to_nat idx < length ls)%nat) /\
  forall c ls, In (c, ls) (w_lockhist w) -> (N.to_nat idx < length ls)%nat ->
    exists sl, nth_error ls (N.to_nat idx) = Some sl /\
      leaf_ckey sha (sl_leaf sl) = ckey sha (a_entry a) /\ l_ts (sl_leaf sl) = ts /\ l_idx (sl_leaf sl) = Z.of_N idx.
Proof. exact ack_names_committed_leaf. Qed.
Print Assumptions C02_ack_names_committed_leaf_partial.

Theorem C02_acks_never_retracted : forall (sha : bytes -> bytes) evs more a,
  In a (w_acks (run sha evs init)) -> In a (w_acks (run sha (evs ++ more) init)).
Proof. exact acks_never_retracted. Qed.
Print Assumptions C02_acks_never_retracted.

(* non-vacuity: the example history acknowledges entry 0 at index 0 *)
Example C02_example : exists a, In a (w_acks world1) /\ a_res a = Some (0%N, 20%Z).
Proof. vm_compute. eexists. split; [left; reflexivity|reflexivity]. Qed.
