(* Properties/C02.v — statements only. An SCT is returned only for an entry already in the published tree.
   (1) For ALL event lists (submissions new/duplicate/concurrent with sequencing, every fault
   placement, crash points, cache loss/take-over, any number of instances, tampering): every
   acknowledgement (index, timestamp) — from a sequencing round or from the dedup cache — names an
   index that, in every committed checkpoint large enough to contain it (hence in every later one,
   C01), holds an entry with the submitted entry's dedup identity, exactly that timestamp and that
   index; acknowledgements are never retracted by later events (crashes included).
   (2) For C02's own quantifier — one live instance at a time (crashes, restarts) and no tampering:
   the checkpoint READABLE FROM OBJECT STORAGE at the moment of the acknowledgement (recorded in the
   ack as a_pub) already covers that index, is a committed checkpoint, and the leaf it commits to at
   that index is the acknowledged entry (C02_acks_covered_by_published, C02_acks_covered_leaf).
   (3) With two live instances (2) is false of the code — the known finding under C06 —
   C02_acks_covered_two_live_instances_refuted.
   The SCT signature check by an independent RFC 6962 implementation (ct-go) is part of the C09
   harness (mon_sct); in the model signatures are symbolic. *)
From SL Require Import Ctlog.Model Ctlog.Spec Ctlog.Inv2 Ctlog.Theorems2 Ctlog.Solo Ctlog.Theorems3 Ctlog.Theorems4 Ctlog.Example.

Theorem C02_ack_names_committed_leaf : forall (sha : bytes -> bytes) evs a idx ts,
  let w := run sha evs init in
  In a (w_acks w) -> a_res a = Some (idx, ts) ->
  (exists c ls, In (c, ls) (w_lockhist w) /\ (N.to_nat idx < length ls)%nat) /\
  forall c ls, In (c, ls) (w_lockhist w) -> (N.to_nat idx < length ls)%nat ->
    exists sl, nth_error ls (N.to_nat idx) = Some sl /\
      leaf_ckey sha (sl_leaf sl) = ckey sha (a_entry a) /\ l_ts (sl_leaf sl) = ts /\ l_idx (sl_leaf sl) = Z.of_N idx.
Proof. exact ack_names_committed_leaf. Qed.
Print Assumptions C02_ack_names_committed_leaf.

Theorem C02_acks_never_retracted : forall (sha : bytes -> bytes) evs more a,
  In a (w_acks (run sha evs init)) -> In a (w_acks (run sha (evs ++ more) init)).
Proof. exact acks_never_retracted. Qed.
Print Assumptions C02_acks_never_retracted.

Theorem C02_acks_covered_by_published : forall (sha : bytes -> bytes) (evs : list ev),
  no_tamper evs -> solo_run sha evs init ->
  let w := run sha evs init in
  forall a idx ts, In a (w_acks w) -> a_res a = Some (idx, ts) ->
    exists P, a_pub a = Some P /\ (idx < cp_size P)%N /\ exists ls, In (P, ls) (w_lockhist w).
Proof. exact acks_covered_by_published. Qed.
Print Assumptions C02_acks_covered_by_published.

Theorem C02_acks_covered_leaf : forall (sha : bytes -> bytes) (evs : list ev),
  no_tamper evs -> solo_run sha evs init ->
  let w := run sha evs init in
  forall a idx ts, In a (w_acks w) -> a_res a = Some (idx, ts) ->
    exists P ls sl, a_pub a = Some P /\ (idx < cp_size P)%N /\ In (P, ls) (w_lockhist w) /\
      cp_size P = N.of_nat (length ls) /\ cp_root P = mroot sha (leaf_hashes sha ls) /\
      nth_error ls (N.to_nat idx) = Some sl /\
      leaf_ckey sha (sl_leaf sl) = ckey sha (a_entry a) /\ l_ts (sl_leaf sl) = ts /\ l_idx (sl_leaf sl) = Z.of_N idx.
Proof. exact acks_covered_leaf. Qed.
Print Assumptions C02_acks_covered_leaf.

(* with two live instances the sentence is false of the code (known finding C06) *)
Theorem C02_acks_covered_two_live_instances_refuted :
  exists a idx ts P,
    no_tamper history_rollback_resubmit /\
    In a (w_acks (run toy_sha history_rollback_resubmit init)) /\ a_res a = Some (idx, ts) /\
    a_pub a = Some P /\ (cp_size P <= idx)%N.
Proof. exact acks_covered_two_live_instances_refuted. Qed.
Print Assumptions C02_acks_covered_two_live_instances_refuted.

Example C02_example_hypotheses : no_tamper history1 /\ solo_run toy_sha history1 init.
Proof. split; [apply no_tamperb_ok; vm_compute; reflexivity|apply solo_run_b_sound; vm_compute; reflexivity]. Qed.

(* non-vacuity: the example history acknowledges entry 0 at index 0 *)
Example C02_example : exists a, In a (w_acks world1) /\ a_res a = Some (0%N, 20%Z).
Proof. vm_compute. eexists. split; [left; reflexivity|reflexivity]. Qed.
