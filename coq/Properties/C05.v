(* Properties/C05.v — statements only. Lock backends are linearizable compare-and-swap registers.
   Model: each backend (internal/ctlog/sqlite.go, dynamodb.go, etag.go) is a CLIENT PROTOCOL —
   which request, with which condition, how the reply is read — over a SERVER whose individual
   requests are atomic (Lock/Sqlite.v, Lock/Dynamo.v, Lock/Etag.v; the ETag server in two
   flavours: content-hash ETags for any injective hash, version-counter ETags).
   Specification: Lock/Register.v (reg : list (id * bytes); Fetch / Replace by value / Create).
   Schedules (Lock/Sched.v): any list of events of any number of clients — invoke, atomic server
   step (with the server's nondeterministic choice and possibly a lost reply), return, dropped
   request, reopen/restart — including calls that never return. Tie to /repo: checks/c05.py. *)
From SL Require Import Lock.Register Lock.Sched Lock.Sqlite Lock.Dynamo Lock.Etag Lock.Run
  Lock.RegisterProofs Lock.CheckerProofs Lock.SchedProofs Lock.RunProofs Lock.Proofs.
Open Scope N_scope.

(* Every schedule of every backend has a linearization that the register accepts and that
   respects real time. (step_of false = the strict by-value register; the version-counter ETag
   flavour is linearizable for step_of true, which lets a Replace be refused although the value is
   equal — the property's "succeeds ONLY IF" —, see C05_etag_version_by_value_refuted.) *)
Theorem C05_backend_linearizable : forall (b : backend_id) (sched : list sev),
  exists lin r', Permutation lin (history_of (proto b) sched) /\ rt_ordered lin /\
                 accepted_from (step_of (weak_of b)) [] (calls lin) r'.
Proof. exact backend_linearizable_unfolded. Qed.
Print Assumptions C05_backend_linearizable.

Theorem C05_sqlite_dynamo_etag_hash_strict : forall sched,
  linearizable reg_step (history_of sqlite sched) /\
  linearizable reg_step (history_of dynamo sched) /\
  forall hashfn, injective hashfn -> linearizable reg_step (history_of (etag_hash hashfn) sched).
Proof. exact strict_backends_linearizable. Qed.
Print Assumptions C05_sqlite_dynamo_etag_hash_strict.

(* the linearization point is the atomic server step: the history in the order of the server
   steps respects real time and is accepted *)
Theorem C05_linearization_point_is_server_step : forall (b : backend_id) (sched : list sev),
  let h := history_of (proto b) sched in
  rt_ordered h /\ (exists r', accepted_from (step_of (weak_of b)) [] (calls h) r') /\
  (forall x, In x h -> h_start x <= h_fin x).
Proof. exact backend_lin_order. Qed.
Print Assumptions C05_linearization_point_is_server_step.

(* "a replace succeeds only if the stored value is still the one the caller fetched" *)
Theorem C05_replace_success_implies_value_equal : forall (b : backend_id) s h new n s' h',
  genuine b s h -> exec (proto b) s (CReplace h new) n = (s', CReplaced h') ->
  lookup (value_of b s) (p_hid (proto b) h) = Some (p_hbody (proto b) h) /\
  lookup (value_of b s') (p_hid (proto b) h) = Some (norm new).
Proof. exact replace_success_implies_value_equal. Qed.
Print Assumptions C05_replace_success_implies_value_equal.

(* "so at most one replace per predecessor value succeeds" *)
Theorem C05_at_most_one_replace_per_value_until_change : forall (b : backend_id) s h1 n1 k1 s1 h1' h2 n2 k2 s2 cr2,
  genuine b s h1 -> genuine b s h2 ->
  p_hid (proto b) h2 = p_hid (proto b) h1 -> p_hbody (proto b) h2 = p_hbody (proto b) h1 ->
  norm n1 <> p_hbody (proto b) h1 ->
  exec (proto b) s (CReplace h1 n1) k1 = (s1, CReplaced h1') ->
  exec (proto b) s1 (CReplace h2 n2) k2 = (s2, cr2) ->
  (forall h2', cr2 <> CReplaced h2') /\ lookup (value_of b s2) (p_hid (proto b) h1) = Some (norm n1) \/ cr2 = CErr.
Proof. exact at_most_one_replace_per_value_until_change. Qed.
Print Assumptions C05_at_most_one_replace_per_value_until_change.

Theorem C05_two_successful_replaces_need_a_write_between : forall (b : backend_id) sched pre x mid y post i old n1 n2,
  history_of (proto b) sched = pre ++ x :: mid ++ y :: post ->
  h_op x = Replace i old n1 -> h_res x = Ok -> h_op y = Replace i old n2 -> h_res y = Ok ->
  n1 = old \/ exists z, In z mid /\ writes (h_op z) i old /\ (h_res z = Ok \/ h_res z = Unknown).
Proof. exact sched_two_replaces_need_a_write_between. Qed.
Print Assumptions C05_two_successful_replaces_need_a_write_between.

(* "a fetch started after a successful replace returned sees that value or a later one, also
   after the store is reopened" (schedules contain EReopen events anywhere) *)
Theorem C05_fetch_after_replace_sees_it_or_later : forall (b : backend_id) sched x y i old new,
  let h := history_of (proto b) sched in
  In x h -> In y h -> h_op x = Replace i old new -> h_res x = Ok -> h_op y = Fetch i ->
  h_fin x < h_start y ->
  h_res y = Unknown \/ exists v, h_res y = Val v /\
    (v = new \/ exists z, In z h /\ writes (h_op z) i v /\ (h_res z = Ok \/ h_res z = Unknown) /\
                          ~ (h_fin z < h_start x)).
Proof. exact fetch_after_replace_sees_it_or_later. Qed.
Print Assumptions C05_fetch_after_replace_sees_it_or_later.

(* "Create succeeds at most once per log ID and never overwrites an existing value" *)
Theorem C05_create_at_most_once_never_overwrites : forall (b : backend_id),
  (forall sched pre x mid y post i a c,
     history_of (proto b) sched = pre ++ x :: mid ++ y :: post ->
     h_op x = Create i a -> h_res x = Ok -> h_op y = Create i c -> h_res y <> Ok) /\
  (forall s i new n s' cr w,
     lookup (value_of b s) i = Some w -> exec (proto b) s (CCreate i new) n = (s', cr) ->
     lookup (value_of b s') i = Some w /\ cr <> CCreated).
Proof. exact create_at_most_once_never_overwrites. Qed.
Print Assumptions C05_create_at_most_once_never_overwrites.

Theorem C05_create_success_was_absent : forall (b : backend_id) s i new n s',
  exec (proto b) s (CCreate i new) n = (s', CCreated) ->
  lookup (value_of b s) i = None /\ lookup (value_of b s') i = Some (norm new).
Proof. exact create_success_was_absent. Qed.
Print Assumptions C05_create_success_was_absent.

(* "a missing log is reported with the dedicated not-found error" — all four backends, the ETag
   client as it is after commit "fix: ETag lock backend must report a missing log as ErrLogNotFound" *)
Theorem C05_missing_is_ErrLogNotFound : forall (b : backend_id) s i n,
  lookup (value_of b s) i = None -> snd (exec (proto b) s (CFetch i) n) = CNotFound.
Proof. exact missing_is_ErrLogNotFound. Qed.
Print Assumptions C05_missing_is_ErrLogNotFound.

Theorem C05_present_is_fetched : forall (b : backend_id) s i n v,
  lookup (value_of b s) i = Some v ->
  (exists h, snd (exec (proto b) s (CFetch i) n) = CVal h /\ p_hbody (proto b) h = v /\ p_hid (proto b) h = i)
  \/ snd (exec (proto b) s (CFetch i) n) = CErr.
Proof. exact present_is_fetched. Qed.
Print Assumptions C05_present_is_fetched.

(* the ETag client BEFORE that commit: Fetch of an absent key does not answer ErrLogNotFound
   (explains a regression of the differential run / mon_fetch) *)
Theorem C05_etag_prefix_missing_refuted :
  (exists s i n, lookup (et_abs s) i = None /\ snd (exec etag_version_prefix s (CFetch i) n) <> CNotFound) /\
  (forall hashfn, exists s i n, lookup (et_abs s) i = None /\
       snd (exec (etag_hash_prefix hashfn) s (CFetch i) n) <> CNotFound).
Proof. exact etag_prefix_missing_refuted. Qed.
Print Assumptions C05_etag_prefix_missing_refuted.

(* the theorem needs ConsistentRead = true: with eventually consistent reads there is a schedule
   without any linearization (not even for the weak register) *)
Theorem C05_dynamo_eventual_read_refuted :
  exists sched, ~ linearizable reg_step_weak (history_of dynamo_eventual sched).
Proof. exact dynamo_eventual_read_refuted. Qed.
Print Assumptions C05_dynamo_eventual_read_refuted.

(* version-counter ETags refuse an outdated handle whose value is equal again (A -> B -> A) *)
Theorem C05_etag_version_by_value_refuted :
  exists sched, ~ linearizable reg_step (history_of etag_version sched) /\
                linearizable reg_step_weak (history_of etag_version sched).
Proof. exact etag_version_by_value_refuted. Qed.
Print Assumptions C05_etag_version_by_value_refuted.

(* the theorems are about ONE request per call; with the SDK's automatic re-send of a write that
   the server applied but answered 5xx: (a) the call fails although it took effect, (b) after
   A -> B -> A by another client the by-value condition holds again, the write is applied twice
   and the history has no linearization (assumption "one request per call" in checks/c05.py) *)
Theorem C05_sdk_retry_refuted :
  (let s1 := fst (exec dynamo retry_s0 (CReplace retry_h (Some vB)) 1) in
   snd (exec dynamo s1 (CReplace retry_h (Some vB)) 1) = CRefused /\ lookup (dy_abs s1) idA = Some vB) /\
  (let s1 := fst (exec dynamo retry_s0 (CReplace retry_h (Some vB)) 1) in
   let '(s2, r2) := exec dynamo s1 (CReplace retry_hB (Some vA)) 1 in
   let '(s3, r3) := exec dynamo s2 (CReplace retry_h (Some vB)) 1 in
   r2 = CReplaced {| dy_id := idA; dy_body := Some vA |} /\
   r3 = CReplaced {| dy_id := idA; dy_body := Some vB |} /\
   lookup (dy_abs s3) idA = Some vB /\
   ~ linearizable reg_step_weak retry_aba_history).
Proof. exact sdk_retry_refuted. Qed.
Print Assumptions C05_sdk_retry_refuted.

(* the executable checker used on recorded real histories decides linearizability *)
Theorem C05_linearizable_b_sound : forall h, linearizable_b h = true -> linearizable reg_step h.
Proof. exact linearizable_b_sound. Qed.
Print Assumptions C05_linearizable_b_sound.

Theorem C05_linearizable_b_complete : forall h, linearizable reg_step h -> linearizable_b h = true.
Proof. exact linearizable_b_complete. Qed.
Print Assumptions C05_linearizable_b_complete.

(* ... and its window-by-window use by the driver (ocaml/lock.ml: fold of lin_step) is sound for
   the whole recorded history *)
Theorem C05_windows_sound : forall ws,
  lin_alive (fold_left lin_step ws lin_init) = true -> linearizable reg_step (concat ws).
Proof. exact lin_steps_sound. Qed.
Print Assumptions C05_windows_sound.

(* the driver's run_op IS exec (client request, one server step, interpretation) *)
Theorem C05_run_op_is_exec : forall P R s pool o n co,
  cop_of_sop P pool o = Some co ->
  fst (run_op P R (s, pool) o n) = (fst (exec P s co n), pool ++ new_handles P (snd (exec P s co n))).
Proof. exact run_op_exec. Qed.
Print Assumptions C05_run_op_is_exec.

(* non-vacuity: a schedule with three clients, overlapping calls, a lost reply, a dropped request,
   a reopen, a call that never returns, the empty value and a value containing NUL *)
Example C05_demo :
  map h_res (history_of sqlite sched_demo) =
    [Ok; Refused; Val vA; Val vA; Unknown; Val vC; Refused; Unknown; NotFound; Unknown]
  /\ linearizable_b (history_of sqlite sched_demo) = true
  /\ linearizable_b (history_of dynamo sched_demo) = true
  /\ linearizable_weak_b (history_of etag_version sched_demo) = true
  /\ linearizable_b (history_of (etag_hash (fun x => x)) sched_demo) = true.
Proof. exact demo_history_sqlite. Qed.

Example C05_injective_hash_exists : injective (fun x => x).
Proof. exact injective_id. Qed.
