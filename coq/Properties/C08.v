(* Properties/C08.v — statements only. Tampered object storage can stop the log but never make
   it sign a fork. EvTamper k o (any object replaced by anything, or deleted) may occur anywhere
   in the event list, between and during runs of any number of instances.
   Proved: whatever is done to object storage, the checkpoints committed to the lock store still
   form one append-only chain, every published checkpoint was committed first, every running
   instance holds exactly a committed tree, and what it is about to sign extends that tree.
   Level: the load-time authentication of the right-edge tiles (tlog.TileHashReader, per-leaf
   re-hash) enters the model as the SPECIFICATION of a verifying reader (accept exactly the
   tiles of the tree the lock checkpoint commits to); that the real reader meets it is what the
   tamper stream of the correspondence harness tests. Hence "C08_partial". *)
From SL Require Import Ctlog.Model Ctlog.Spec Ctlog.Theorems Ctlog.Origin Ctlog.Example.

Theorem C08_partial : forall (sha : bytes -> bytes) (evs : list ev),
  let w := run sha evs init in
  append_only sha (w_lockhist w) /\
  forall c k, In (c, k) (w_pubhist w) -> exists ls, In (c, ls) (firstn k (w_lockhist w)).
Proof.
  intros sha evs. split; [apply lock_history_append_only|apply published_was_committed_first].
Qed.
Print Assumptions C08_partial.

(* "continues from exactly the tree committed in the lock store": for every event list, tampering
   anywhere included, an instance that is idle or in a round holds a committed (checkpoint, leaf
   sequence) pair, equal to its lock checkpoint *)
Theorem C08_running_instance_holds_committed_tree : forall (sha : bytes -> bytes) evs i x,
  get_inst (w_insts (run sha evs init)) i = Some x ->
  (i_pc x = PIdle \/ exists ph, i_pc x = PRound ph) ->
  In (i_tree x, i_leaves x) (w_lockhist (run sha evs init)) /\ i_tree x = i_lockcp x.
Proof. exact running_instance_holds_committed_tree. Qed.
Print Assumptions C08_running_instance_holds_committed_tree.

(* "any checkpoint it signs afterwards extends that tree": the checkpoint an instance is about to
   upload-stage / compare-and-swap commits to an extension of its committed leaf sequence *)
Theorem C08_next_checkpoint_extends_committed_tree : forall (sha : bytes -> bytes) evs i x,
  get_inst (w_insts (run sha evs init)) i = Some x ->
  (i_pc x = PRound RStaging \/ i_pc x = PRound RCas) ->
  prefix (i_leaves x) (r_all (i_rctx x)) /\
  wfcp sha (r_new (i_rctx x)) (r_all (i_rctx x)) /\
  (cp_ts (i_tree x) < cp_ts (r_new (i_rctx x)))%Z /\
  In (i_tree x, i_leaves x) (w_lockhist (run sha evs init)).
Proof. exact next_checkpoint_extends_committed_tree. Qed.
Print Assumptions C08_next_checkpoint_extends_committed_tree.

(* "...by precisely the newly acknowledged entries": whatever was done to object storage, every leaf
   of every committed tree is built from an entry that an EvSubmit of this history carried — no
   content of a (tampered) stored object ever becomes a leaf *)
Theorem C08_committed_leaves_were_submitted : forall (sha : bytes -> bytes) evs c ls sl,
  In (c, ls) (w_lockhist (run sha evs init)) -> In sl ls ->
  exists e idx ts, submitted evs e /\ sl = mkSleaf (leaf_of sha e idx ts) (names_line (e_names e) ts).
Proof. exact committed_leaves_were_submitted. Qed.
Print Assumptions C08_committed_leaves_were_submitted.

(* non-vacuity: tampering is an ordinary event of the quantified-over event lists *)
Example C08_tamper_is_an_event : exists e : ev, e = EvTamper k_checkpoint None.
Proof. eexists; reflexivity. Qed.

(* non-vacuity: an instance about to compare-and-swap a new checkpoint, in a history that has a
   tampering event in the middle *)
Example C08_instance_in_cas_after_tampering :
  let evs := firstn 12 history1 ++ [EvTamper (s2b "tile/0/000") (Some (OB [x01]))] ++ firstn 4 (skipn 12 history1) in
  exists x, get_inst (w_insts (run toy_sha evs init)) 0 = Some x /\ i_pc x = PRound RCas /\
            r_all (i_rctx x) <> i_leaves x.
Proof. cbv zeta. eexists. vm_compute. repeat split; try reflexivity. discriminate. Qed.
