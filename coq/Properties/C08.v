(* Properties/C08.v — statements only. Tampered object storage can stop the log but never make
   it sign a fork. EvTamper k o (any object replaced by anything, or deleted) may occur anywhere
   in the event list, between and during runs of any number of instances.
   Proved: whatever is done to object storage, the checkpoints committed to the lock store still
   form one append-only chain, and every published checkpoint was committed first.
   Level: the load-time authentication of the right-edge tiles (tlog.TileHashReader, per-leaf
   re-hash) enters the model as the SPECIFICATION of a verifying reader (accept exactly the
   tiles of the tree the lock checkpoint commits to); that the real reader meets it is what the
   tamper stream of the correspondence harness tests. Hence "C08_partial". *)
From SL Require Import Ctlog.Model Ctlog.Spec Ctlog.Theorems.

Theorem C08_partial : forall (sha : bytes -> bytes) (evs : list ev),
  let w := run sha evs init in
  append_only sha (w_lockhist w) /\
  forall c k, In (c, k) (w_pubhist w) -> exists ls, In (c, ls) (firstn k (w_lockhist w)).
Proof.
  intros sha evs. split; [apply lock_history_append_only|apply published_was_committed_first].
Qed.
Print Assumptions C08_partial.

(* non-vacuity: tampering is an ordinary event of the quantified-over event lists *)
Example C08_tamper_is_an_event : exists e : ev, e = EvTamper k_checkpoint None.
Proof. eexists; reflexivity. Qed.
