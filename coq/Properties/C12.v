(* Properties/C12.v — statements only. The monitoring client never yields unauthenticated log
   content (model: Client/Model.v = client.go on top of the loops of torchwood's Client; proofs:
   Client/Proofs.v, Client/Fuel.v; closed in Client/Closed.v with the free hash algebra [ih] of
   Merkle/Sound.v and the injective leaf hash [ileaf]; tie: harness/client, checks/c12.py).

   The adversary [adv] is arbitrary: the served data tiles (a function of the request round and of
   the tile coordinates), the record proofs, the served checkpoint and the SCT. The only assumption,
   [iverifying adv], is the SPECIFICATION of the authenticated hash fetch of torchwood /
   tlog.TileHashReader (a dependency): it fails or returns, for each requested index, the leaf hash of
   SOME tree with that size and root. [icommits n root L]: L is any list of well-formed leaves with
   |L| = n and root = MTH(map (leaf_hash . MerkleTreeLeaf) L).

   What is authenticated is [covered e] = (entry type, certificate or TBS, issuer key hash of a
   precertificate, timestamp, archival flag, leaf index). PreCertificate and ChainFingerprints are
   NOT part of the Merkle leaf and are NOT authenticated by the client: see C12_uncovered_limit. *)
From SL Require Import Codec.Leaf Merkle.Tiles Merkle.Proofs Merkle.Sound
  Client.Model Client.Reader Client.Proofs Client.Closed.
Open Scope N_scope.

(* FINDING (see C12_entries_refuted_with_pinned_reader at the end): the tile hash reader that /repo's
   go.mod pins (golang.org/x/mod v0.37.0) does NOT satisfy [iverifying]; the iterators running on it
   yield forged entries. C12_entries / C12_all_entries below are therefore theorems about the client on
   a verifying reader (the x/mod v0.41.0 loop, Client/Reader.v with fixed = true, tied but not proved);
   C12_entry, C12_inclusion and C12_checkpoint need no such hypothesis and hold of the code as pinned. *)

(* Entries: whatever is served, every yielded (i, e) is in range and agrees with the committed
   leaf i on every Merkle-covered field, for every tree, start offset and archival setting *)
Theorem C12_entries : forall (adv : iadversary) (allow : bool) (n : N) (root : ih) (L : list leaf)
  (start : Z) (ys : list (N * leaf)) (r : option eclass) (i : N) (e : leaf),
  icommits n root L -> iverifying adv ->
  ientries adv allow n root start = (ys, r) -> In (i, e) ys ->
  i < n /\ exists l, nth_error L (N.to_nat i) = Some l /\ covered e = covered l.
Proof. exact c12_entries. Qed.
Print Assumptions C12_entries.

(* AllEntries (two passes; the server may answer differently in the second one) *)
Theorem C12_all_entries : forall (adv : iadversary) (allow : bool) (n : N) (root : ih) (L : list leaf)
  (start : Z) (ys : list (N * leaf)) (r : option eclass) (i : N) (e : leaf),
  icommits n root L -> iverifying adv ->
  iall_entries adv allow n root start = (ys, r) -> In (i, e) ys ->
  i < n /\ exists l, nth_error L (N.to_nat i) = Some l /\ covered e = covered l.
Proof. exact c12_all_entries. Qed.
Print Assumptions C12_all_entries.

(* the fuel of the batch loop is never exhausted (the EFuel outcome of the model is dead) *)
Theorem C12_entries_total : forall (adv : iadversary) allow n root start,
  snd (ientries adv allow n root start) <> Some EFuel /\
  snd (iall_entries adv allow n root start) <> Some EFuel.
Proof. exact c12_entries_total. Qed.
Print Assumptions C12_entries_total.

(* Entry: no assumption on the adversary at all. A returned entry is the one requested, comes with
   a record proof that tlog.CheckRecord accepts for it, and has the committed leaf's covered fields
   (hence the same MerkleTreeLeaf bytes) *)
Theorem C12_entry : forall (adv : iadversary) (allow : bool) (n : N) (root : ih) (L : list leaf)
  (index : Z) (le : leaf) (p : list ih),
  icommits n root L ->
  ientry adv allow n root index = Good (le, p) ->
  (0 <= index < Z.of_N n)%Z /\
  icheck_record p n root (Z.to_N index) (ileaf (mtl le)) = Ok /\
  (l_arch le = false -> l_idx le = index) /\
  exists l, nth_error L (Z.to_nat index) = Some l /\ covered le = covered l /\
            merkle_tree_leaf le = merkle_tree_leaf l.
Proof. exact c12_entry. Qed.
Print Assumptions C12_entry.

(* CheckInclusion: an SCT is confirmed only if it is a v1 SCT whose log ID is the hash of the
   configured key's SPKI, whose leaf_index extension points at a committed leaf with exactly the
   SCT's timestamp (and, unless archival, that leaf index), and whose signature is a signature BY
   THE CONFIGURED KEY over that leaf's MerkleTreeLeaf bytes (= the RFC 6962 SCT signature input),
   with the ECDSA algorithm. The hash algorithm is the one NAMED IN THE SCT (ct-go accepts MD5 ..
   SHA-512); the symbolic signature binds it. *)
Theorem C12_inclusion : forall (sha : bytes -> bytes) (spki : N -> bytes)
  (adv : iadversary) (allow : bool) (pk : N) (n : N) (root : ih) (L : list leaf)
  (s : option sct) (le : leaf) (p : list ih),
  icommits n root L ->
  check_inclusion ih INode ih_eqb ileaf sha spki adv allow pk n root s = Good (le, p) ->
  exists c idx l g,
    s = Some c /\ sct_version c = 0 /\
    sct_logid c = sha (spki pk) /\
    parse_extensions (sct_ext c) = Some idx /\ (0 <= idx < Z.of_N n)%Z /\
    nth_error L (Z.to_nat idx) = Some l /\ covered le = covered l /\
    (l_arch l = false -> l_idx l = idx) /\
    l_ts l = to_int64 (sct_ts c) /\
    sct_sig c = Some g /\ sg_key g = pk /\ sg_hashalg g = sct_hashalg c /\ sg_msg g = mtl l /\
    sct_sigalg c = 3 /\ 1 <= sct_hashalg c <= 6.
Proof. exact c12_inclusion. Qed.
Print Assumptions C12_inclusion.

(* Checkpoint: a checkpoint is returned only if the served note carries a signature line that is a
   TreeHeadSignature by the configured key over exactly the returned (size, root) (with the line's
   own timestamp), the origin equals the note's first line and there is no extension line *)
Theorem C12_checkpoint : forall (keyhash : bytes -> N -> N) (pk : N)
  (served : option (snote ih)) (c : cktext ih) (sigs : list (sigline ih)),
  checkpoint ih ih_eqb keyhash pk served = Good (c, sigs) ->
  exists nt, served = Some nt /\ nt_text ih nt = Some c /\
    ck_origin ih c = nt_name ih nt /\ ck_ext ih c = [] /\ sigs <> [] /\
    Forall (fun s => In s (nt_sigs ih nt) /\ signed_by ih pk c s) sigs.
Proof. exact c12_checkpoint. Qed.
Print Assumptions C12_checkpoint.

(* the reference reader with which the model is RUN next to the real client satisfies the
   specification the theorems assume (for any store contents and any leaf-hash list) *)
Theorem C12_reference_reader_verifying : forall served truth LH d p,
  iverifying (mkAdv ih d (fun _ => ref_reader ih INode IEmpty ih_eqb served truth LH) p).
Proof. exact (fun served truth LH d p =>
  ref_reader_verifying ih INode IEmpty ih_eqb ih_eqb_eq served truth LH d p). Qed.
Print Assumptions C12_reference_reader_verifying.

(* REFUTED for the dependency as pinned by /repo: with the transcription of tlog.TileHashReader of
   golang.org/x/mod <= v0.37.0 (Client/Reader.v, fixed = false: `for i := len(stx); ...` over
   de-duplicated tiles) there are a server, a tree head and a committed leaf list such that Entries
   yields an entry whose covered fields are NOT the committed leaf's (witness: 259 leaves, leaf 5 and
   slot 5 of the never-authenticated tile/0/000 replaced) *)
Theorem C12_entries_refuted_with_pinned_reader :
  exists (data : nat -> N -> N -> option bytes) (htiles : nat -> tcoord -> option (list ih))
         (n : N) (root : ih) (L : list leaf) (i : N) (e : leaf),
    icommits n root L /\
    In (i, e) (fst (ientries (reader_adv ih INode IEmpty ih_eqb false data htiles) false n root 0)) /\
    exists l, nth_error L (N.to_nat i) = Some l /\ covered e <> covered l.
Proof. exact c12_entries_refuted_with_pinned_reader. Qed.
Print Assumptions C12_entries_refuted_with_pinned_reader.

(* so that reader violates the specification, while the corrected loop rejects the same server *)
Theorem C12_pinned_reader_not_verifying :
  ~ iverifying (wadv false true) /\
  ientries (wadv true true) false 259 wroot 0 = ([], Some EHashes).
Proof. exact (conj pinned_reader_not_verifying w_fixed_rejects). Qed.
Print Assumptions C12_pinned_reader_not_verifying.

(* the documented limit: the client DOES yield an entry whose PreCertificate / ChainFingerprints
   were replaced by the server; its covered fields are the committed ones *)
Theorem C12_uncovered_limit :
  iall_entries (ex_adv [l0; l1_unc; l2]) false 3 exRoot 0 = ([(0, l0); (1, l1_unc); (2, l2)], None) /\
  covered l1_unc = covered l1 /\ l1_unc <> l1.
Proof. exact ex_tamper_uncovered. Qed.
Print Assumptions C12_uncovered_limit.

(* non-vacuity: the hypotheses are satisfiable and the honest run yields everything *)
Example C12_nonvacuous :
  icommits 3 exRoot exL /\ (forall ls, iverifying (ex_adv ls)) /\
  iall_entries (ex_adv exL) false 3 exRoot 0 = ([(0, l0); (1, l1); (2, l2)], None) /\
  iall_entries (ex_adv [l0; l1_cov; l2]) false 3 exRoot 0 = ([(0, l0)], Some EMismatch).
Proof.
  split; [exact ex_commits|]. split; [exact ex_verifying|].
  split; [exact (proj1 ex_honest)|exact ex_tamper_covered].
Qed.
