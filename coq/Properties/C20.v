(* Properties/C20.v — statements only. The health endpoint is green only for fresh, valid,
   consistent state (model: Sky/Health.v, a transcription of checkLog, loadVerifiers, hashes, check
   and the /health handler of cmd/skylight/skylight.go over parsed facts; tie: the unmodified
   skylight binary over generated directory states, facts computed by independent verifiers, see
   checks/c20.py). Line texts are the canonical class names of Health.lerr_text / werr_text. *)
From SL Require Import Base.Bytes Sky.Health Sky.HealthProofs.
Open Scope Z_scope.

(* 200 => every non-staging log is verified under the key and name of its metadata, names itself,
   and is fresh -- or is past its read-only date and equals the recorded final tree; every
   non-staging witness has usable keys and every origin-hash directory holds a checkpoint that
   verifies under them and sits under the hash of its own origin; every mirror additionally has
   valid right-edge tiles and a verified pending checkpoint of the same origin that is not behind *)
Theorem C20_green : forall logs wits now,
  fst (health logs wits now) = 200%N ->
  (forall l, In l logs -> l_staging l = false -> log_good l now) /\
  (forall w, In w wits -> w_staging w = false -> wit_good w).
Proof. exact c20_green. Qed.
Print Assumptions C20_green.

(* the conjuncts of C20_green, spelled out *)
Theorem C20_green_unfolded : forall logs wits now,
  fst (health logs wits now) = 200%N ->
  (forall l, In l logs -> l_staging l = false ->
     l_json_read l = true /\ l_json_parse l = true /\ l_key_ok l = true /\ l_verifier_ok l = true /\
     l_ckpt_read l = true /\ l_verifies l = true /\ l_ckpt_parse l = true /\
     l_origin l = l_name l /\ l_ts_ok l = true /\ l_limit_ok l = true /\
     ((now - l_limit l <= week_3s /\ now - l_ts l <= fresh_ms)
      \/ (now - l_limit l > week_3s /\ l_final_present l = true /\ l_final_hash l = l_hash l /\
          l_final_size l = l_size l /\ l_final_ts l = l_ts l))) /\
  (forall w, In w wits -> w_staging w = false ->
     w_keys w = VOk /\ (w_mirror w = true -> w_pend_keys w = VOk) /\ w_enum_ok w = true /\
     forall d, In d (w_dirs w) -> d_isdir d = true -> is_origin_hash (d_name d) = true ->
       d_ckpt_read d = true /\ d_verifies d = true /\ d_parse d = true /\ d_origin_hash d = d_name d /\
       (w_mirror w = true ->
          d_edge_ok d = true /\ d_pend_read d = true /\ d_pend_verifies d = true /\ d_pend_parse d = true /\
          d_pend_origin d = d_origin d /\ d_size d <= d_pend_size d)).
Proof. exact c20_green. Qed.
Print Assumptions C20_green_unfolded.

(* every condition is load bearing. Generic form: log_conds / dir_conds list the conditions in the
   order of the code; if exactly one of them is false on a non-staging entry the answer is 500 and
   a body line names the log with that condition *)
Theorem C20_single_log : forall logs wits now l e,
  In l logs -> l_staging l = false ->
  In (e, false) (log_conds l now) ->
  (forall e' b, In (e', b) (log_conds l now) -> e' <> e -> b = true) ->
  fst (health logs wits now) = 500%N /\
  In (l_short l ++ sep ++ lerr_text e) (snd (health logs wits now)).
Proof. exact c20_single_log. Qed.
Print Assumptions C20_single_log.

Theorem C20_single_dir : forall logs wits now w d e,
  In w wits -> w_staging w = false -> load_verifiers w = None -> w_enum_ok w = true ->
  In d (w_dirs w) -> d_isdir d = true -> is_origin_hash (d_name d) = true ->
  In (e, false) (dir_conds w d) ->
  (forall e' b, In (e', b) (dir_conds w d) -> e' <> e -> b = true) ->
  fst (health logs wits now) = 500%N /\
  In (dir_label w d ++ sep ++ werr_text e) (snd (health logs wits now)).
Proof. exact c20_single_dir. Qed.
Print Assumptions C20_single_dir.

(* staging entries are ignored *)
Theorem C20_staging_ignored : forall logs wits now,
  (forall l, In l logs -> l_staging l = true) -> (forall w, In w wits -> w_staging w = true) ->
  fst (health logs wits now) = 200%N.
Proof. exact c20_staging_ignored. Qed.
Print Assumptions C20_staging_ignored.

(* one lemma per condition, hypotheses spelled out: that condition violated, all others true *)

Theorem C20_single_missing_json : forall logs wits now l,
  In l logs -> l_staging l = false ->
  l_json_parse l = true -> l_key_ok l = true -> l_verifier_ok l = true -> l_ckpt_read l = true -> l_verifies l = true -> l_ckpt_parse l = true -> l_origin l = l_name l -> l_ts_ok l = true -> l_limit_ok l = true ->
  time_ok l now ->
  l_json_read l = false ->
  fst (health logs wits now) = 500%N /\ In (l_short l ++ sep ++ lerr_text EReadJSON) (snd (health logs wits now)).
Proof. exact single_missing_json. Qed.
Print Assumptions C20_single_missing_json.

Theorem C20_single_unparsable_json : forall logs wits now l,
  In l logs -> l_staging l = false ->
  l_json_read l = true -> l_key_ok l = true -> l_verifier_ok l = true -> l_ckpt_read l = true -> l_verifies l = true -> l_ckpt_parse l = true -> l_origin l = l_name l -> l_ts_ok l = true -> l_limit_ok l = true ->
  time_ok l now ->
  l_json_parse l = false ->
  fst (health logs wits now) = 500%N /\ In (l_short l ++ sep ++ lerr_text EParseJSON) (snd (health logs wits now)).
Proof. exact single_unparsable_json. Qed.
Print Assumptions C20_single_unparsable_json.

Theorem C20_single_bad_key : forall logs wits now l,
  In l logs -> l_staging l = false ->
  l_json_read l = true -> l_json_parse l = true -> l_verifier_ok l = true -> l_ckpt_read l = true -> l_verifies l = true -> l_ckpt_parse l = true -> l_origin l = l_name l -> l_ts_ok l = true -> l_limit_ok l = true ->
  time_ok l now ->
  l_key_ok l = false ->
  fst (health logs wits now) = 500%N /\ In (l_short l ++ sep ++ lerr_text EParseKey) (snd (health logs wits now)).
Proof. exact single_bad_key. Qed.
Print Assumptions C20_single_bad_key.

Theorem C20_single_no_verifier : forall logs wits now l,
  In l logs -> l_staging l = false ->
  l_json_read l = true -> l_json_parse l = true -> l_key_ok l = true -> l_ckpt_read l = true -> l_verifies l = true -> l_ckpt_parse l = true -> l_origin l = l_name l -> l_ts_ok l = true -> l_limit_ok l = true ->
  time_ok l now ->
  l_verifier_ok l = false ->
  fst (health logs wits now) = 500%N /\ In (l_short l ++ sep ++ lerr_text EVerifier) (snd (health logs wits now)).
Proof. exact single_no_verifier. Qed.
Print Assumptions C20_single_no_verifier.

Theorem C20_single_missing_checkpoint : forall logs wits now l,
  In l logs -> l_staging l = false ->
  l_json_read l = true -> l_json_parse l = true -> l_key_ok l = true -> l_verifier_ok l = true -> l_verifies l = true -> l_ckpt_parse l = true -> l_origin l = l_name l -> l_ts_ok l = true -> l_limit_ok l = true ->
  time_ok l now ->
  l_ckpt_read l = false ->
  fst (health logs wits now) = 500%N /\ In (l_short l ++ sep ++ lerr_text EReadCkpt) (snd (health logs wits now)).
Proof. exact single_missing_checkpoint. Qed.
Print Assumptions C20_single_missing_checkpoint.

Theorem C20_single_resigned : forall logs wits now l,
  In l logs -> l_staging l = false ->
  l_json_read l = true -> l_json_parse l = true -> l_key_ok l = true -> l_verifier_ok l = true -> l_ckpt_read l = true -> l_ckpt_parse l = true -> l_origin l = l_name l -> l_ts_ok l = true -> l_limit_ok l = true ->
  time_ok l now ->
  l_verifies l = false ->
  fst (health logs wits now) = 500%N /\ In (l_short l ++ sep ++ lerr_text EVerifyNote) (snd (health logs wits now)).
Proof. exact single_resigned. Qed.
Print Assumptions C20_single_resigned.

Theorem C20_single_truncated : forall logs wits now l,
  In l logs -> l_staging l = false ->
  l_json_read l = true -> l_json_parse l = true -> l_key_ok l = true -> l_verifier_ok l = true -> l_ckpt_read l = true -> l_verifies l = true -> l_origin l = l_name l -> l_ts_ok l = true -> l_limit_ok l = true ->
  time_ok l now ->
  l_ckpt_parse l = false ->
  fst (health logs wits now) = 500%N /\ In (l_short l ++ sep ++ lerr_text EParseCkpt) (snd (health logs wits now)).
Proof. exact single_truncated. Qed.
Print Assumptions C20_single_truncated.

Theorem C20_single_renamed : forall logs wits now l,
  In l logs -> l_staging l = false ->
  l_json_read l = true -> l_json_parse l = true -> l_key_ok l = true -> l_verifier_ok l = true -> l_ckpt_read l = true -> l_verifies l = true -> l_ckpt_parse l = true -> l_ts_ok l = true -> l_limit_ok l = true ->
  time_ok l now ->
  l_origin l <> l_name l ->
  fst (health logs wits now) = 500%N /\ In (l_short l ++ sep ++ lerr_text EOrigin) (snd (health logs wits now)).
Proof. exact single_renamed. Qed.
Print Assumptions C20_single_renamed.

Theorem C20_single_bad_signature_timestamp : forall logs wits now l,
  In l logs -> l_staging l = false ->
  l_json_read l = true -> l_json_parse l = true -> l_key_ok l = true -> l_verifier_ok l = true -> l_ckpt_read l = true -> l_verifies l = true -> l_ckpt_parse l = true -> l_origin l = l_name l -> l_limit_ok l = true ->
  time_ok l now ->
  l_ts_ok l = false ->
  fst (health logs wits now) = 500%N /\ In (l_short l ++ sep ++ lerr_text ESigTs) (snd (health logs wits now)).
Proof. exact single_bad_signature_timestamp. Qed.
Print Assumptions C20_single_bad_signature_timestamp.

Theorem C20_single_bad_limit : forall logs wits now l,
  In l logs -> l_staging l = false ->
  l_json_read l = true -> l_json_parse l = true -> l_key_ok l = true -> l_verifier_ok l = true -> l_ckpt_read l = true -> l_verifies l = true -> l_ckpt_parse l = true -> l_origin l = l_name l -> l_ts_ok l = true ->
  time_ok l now ->
  l_limit_ok l = false ->
  fst (health logs wits now) = 500%N /\ In (l_short l ++ sep ++ lerr_text ELimit) (snd (health logs wits now)).
Proof. exact single_bad_limit. Qed.
Print Assumptions C20_single_bad_limit.

Theorem C20_single_stale : forall logs wits now l,
  In l logs -> l_staging l = false ->
  l_json_read l = true -> l_json_parse l = true -> l_key_ok l = true -> l_verifier_ok l = true -> l_ckpt_read l = true -> l_verifies l = true -> l_ckpt_parse l = true -> l_origin l = l_name l -> l_ts_ok l = true -> l_limit_ok l = true ->
  now - l_limit l <= week_3s -> now - l_ts l > fresh_ms ->
  fst (health logs wits now) = 500%N /\ In (l_short l ++ sep ++ lerr_text ETooOld) (snd (health logs wits now)).
Proof. exact single_stale. Qed.
Print Assumptions C20_single_stale.

Theorem C20_single_sunset_no_final : forall logs wits now l,
  In l logs -> l_staging l = false ->
  l_json_read l = true -> l_json_parse l = true -> l_key_ok l = true -> l_verifier_ok l = true -> l_ckpt_read l = true -> l_verifies l = true -> l_ckpt_parse l = true -> l_origin l = l_name l -> l_ts_ok l = true -> l_limit_ok l = true ->
  now - l_limit l > week_3s -> l_final_present l = false -> l_final_hash l = l_hash l -> l_final_size l = l_size l -> l_final_ts l = l_ts l ->
  fst (health logs wits now) = 500%N /\ In (l_short l ++ sep ++ lerr_text ENoFinal) (snd (health logs wits now)).
Proof. exact single_sunset_no_final. Qed.
Print Assumptions C20_single_sunset_no_final.

Theorem C20_single_final_hash : forall logs wits now l,
  In l logs -> l_staging l = false ->
  l_json_read l = true -> l_json_parse l = true -> l_key_ok l = true -> l_verifier_ok l = true -> l_ckpt_read l = true -> l_verifies l = true -> l_ckpt_parse l = true -> l_origin l = l_name l -> l_ts_ok l = true -> l_limit_ok l = true ->
  now - l_limit l > week_3s -> l_final_present l = true -> l_final_hash l <> l_hash l -> l_final_size l = l_size l -> l_final_ts l = l_ts l ->
  fst (health logs wits now) = 500%N /\ In (l_short l ++ sep ++ lerr_text EFinalHash) (snd (health logs wits now)).
Proof. exact single_final_hash. Qed.
Print Assumptions C20_single_final_hash.

Theorem C20_single_final_size : forall logs wits now l,
  In l logs -> l_staging l = false ->
  l_json_read l = true -> l_json_parse l = true -> l_key_ok l = true -> l_verifier_ok l = true -> l_ckpt_read l = true -> l_verifies l = true -> l_ckpt_parse l = true -> l_origin l = l_name l -> l_ts_ok l = true -> l_limit_ok l = true ->
  now - l_limit l > week_3s -> l_final_present l = true -> l_final_hash l = l_hash l -> l_final_size l <> l_size l -> l_final_ts l = l_ts l ->
  fst (health logs wits now) = 500%N /\ In (l_short l ++ sep ++ lerr_text EFinalSize) (snd (health logs wits now)).
Proof. exact single_final_size. Qed.
Print Assumptions C20_single_final_size.

Theorem C20_single_final_timestamp : forall logs wits now l,
  In l logs -> l_staging l = false ->
  l_json_read l = true -> l_json_parse l = true -> l_key_ok l = true -> l_verifier_ok l = true -> l_ckpt_read l = true -> l_verifies l = true -> l_ckpt_parse l = true -> l_origin l = l_name l -> l_ts_ok l = true -> l_limit_ok l = true ->
  now - l_limit l > week_3s -> l_final_present l = true -> l_final_hash l = l_hash l -> l_final_size l = l_size l -> l_final_ts l <> l_ts l ->
  fst (health logs wits now) = 500%N /\ In (l_short l ++ sep ++ lerr_text EFinalTs) (snd (health logs wits now)).
Proof. exact single_final_timestamp. Qed.
Print Assumptions C20_single_final_timestamp.

Theorem C20_single_missing_witness_checkpoint : forall logs wits now w d,
  In w wits -> w_staging w = false -> w_keys w = VOk -> (w_mirror w = true -> w_pend_keys w = VOk) ->
  w_enum_ok w = true -> In d (w_dirs w) -> d_isdir d = true -> is_origin_hash (d_name d) = true ->
  d_verifies d = true -> d_parse d = true -> d_origin_hash d = d_name d -> mirror_part_ok w d ->
  d_ckpt_read d = false ->
  fst (health logs wits now) = 500%N /\ In (dir_label w d ++ sep ++ werr_text WReadCkpt) (snd (health logs wits now)).
Proof. exact single_missing_witness_checkpoint. Qed.
Print Assumptions C20_single_missing_witness_checkpoint.

Theorem C20_single_unverifiable_witness_checkpoint : forall logs wits now w d,
  In w wits -> w_staging w = false -> w_keys w = VOk -> (w_mirror w = true -> w_pend_keys w = VOk) ->
  w_enum_ok w = true -> In d (w_dirs w) -> d_isdir d = true -> is_origin_hash (d_name d) = true ->
  d_ckpt_read d = true -> d_parse d = true -> d_origin_hash d = d_name d -> mirror_part_ok w d ->
  d_verifies d = false ->
  fst (health logs wits now) = 500%N /\ In (dir_label w d ++ sep ++ werr_text WVerify) (snd (health logs wits now)).
Proof. exact single_unverifiable_witness_checkpoint. Qed.
Print Assumptions C20_single_unverifiable_witness_checkpoint.

Theorem C20_single_unparsable_witness_checkpoint : forall logs wits now w d,
  In w wits -> w_staging w = false -> w_keys w = VOk -> (w_mirror w = true -> w_pend_keys w = VOk) ->
  w_enum_ok w = true -> In d (w_dirs w) -> d_isdir d = true -> is_origin_hash (d_name d) = true ->
  d_ckpt_read d = true -> d_verifies d = true -> d_origin_hash d = d_name d -> mirror_part_ok w d ->
  d_parse d = false ->
  fst (health logs wits now) = 500%N /\ In (dir_label w d ++ sep ++ werr_text WParse) (snd (health logs wits now)).
Proof. exact single_unparsable_witness_checkpoint. Qed.
Print Assumptions C20_single_unparsable_witness_checkpoint.

Theorem C20_single_wrong_origin_directory : forall logs wits now w d,
  In w wits -> w_staging w = false -> w_keys w = VOk -> (w_mirror w = true -> w_pend_keys w = VOk) ->
  w_enum_ok w = true -> In d (w_dirs w) -> d_isdir d = true -> is_origin_hash (d_name d) = true ->
  d_ckpt_read d = true -> d_verifies d = true -> d_parse d = true -> mirror_part_ok w d ->
  d_origin_hash d <> d_name d ->
  fst (health logs wits now) = 500%N /\ In (dir_label w d ++ sep ++ werr_text WOriginHash) (snd (health logs wits now)).
Proof. exact single_wrong_origin_directory. Qed.
Print Assumptions C20_single_wrong_origin_directory.

Theorem C20_single_mirror_right_edge : forall logs wits now w d,
  In w wits -> w_staging w = false -> w_keys w = VOk -> (w_mirror w = true -> w_pend_keys w = VOk) ->
  w_enum_ok w = true -> In d (w_dirs w) -> d_isdir d = true -> is_origin_hash (d_name d) = true ->
  w_mirror w = true -> d_ckpt_read d = true -> d_verifies d = true -> d_parse d = true -> d_origin_hash d = d_name d ->
  d_pend_read d = true -> d_pend_verifies d = true -> d_pend_parse d = true -> d_pend_origin d = d_origin d -> d_size d <= d_pend_size d ->
  d_edge_ok d = false ->
  fst (health logs wits now) = 500%N /\ In (dir_label w d ++ sep ++ werr_text WEdge) (snd (health logs wits now)).
Proof. exact single_mirror_right_edge. Qed.
Print Assumptions C20_single_mirror_right_edge.

Theorem C20_single_mirror_pending_missing : forall logs wits now w d,
  In w wits -> w_staging w = false -> w_keys w = VOk -> (w_mirror w = true -> w_pend_keys w = VOk) ->
  w_enum_ok w = true -> In d (w_dirs w) -> d_isdir d = true -> is_origin_hash (d_name d) = true ->
  w_mirror w = true -> d_ckpt_read d = true -> d_verifies d = true -> d_parse d = true -> d_origin_hash d = d_name d ->
  d_edge_ok d = true -> d_pend_verifies d = true -> d_pend_parse d = true -> d_pend_origin d = d_origin d -> d_size d <= d_pend_size d ->
  d_pend_read d = false ->
  fst (health logs wits now) = 500%N /\ In (dir_label w d ++ sep ++ werr_text WReadPend) (snd (health logs wits now)).
Proof. exact single_mirror_pending_missing. Qed.
Print Assumptions C20_single_mirror_pending_missing.

Theorem C20_single_mirror_pending_unverifiable : forall logs wits now w d,
  In w wits -> w_staging w = false -> w_keys w = VOk -> (w_mirror w = true -> w_pend_keys w = VOk) ->
  w_enum_ok w = true -> In d (w_dirs w) -> d_isdir d = true -> is_origin_hash (d_name d) = true ->
  w_mirror w = true -> d_ckpt_read d = true -> d_verifies d = true -> d_parse d = true -> d_origin_hash d = d_name d ->
  d_edge_ok d = true -> d_pend_read d = true -> d_pend_parse d = true -> d_pend_origin d = d_origin d -> d_size d <= d_pend_size d ->
  d_pend_verifies d = false ->
  fst (health logs wits now) = 500%N /\ In (dir_label w d ++ sep ++ werr_text WVerifyPend) (snd (health logs wits now)).
Proof. exact single_mirror_pending_unverifiable. Qed.
Print Assumptions C20_single_mirror_pending_unverifiable.

Theorem C20_single_mirror_pending_unparsable : forall logs wits now w d,
  In w wits -> w_staging w = false -> w_keys w = VOk -> (w_mirror w = true -> w_pend_keys w = VOk) ->
  w_enum_ok w = true -> In d (w_dirs w) -> d_isdir d = true -> is_origin_hash (d_name d) = true ->
  w_mirror w = true -> d_ckpt_read d = true -> d_verifies d = true -> d_parse d = true -> d_origin_hash d = d_name d ->
  d_edge_ok d = true -> d_pend_read d = true -> d_pend_verifies d = true -> d_pend_origin d = d_origin d -> d_size d <= d_pend_size d ->
  d_pend_parse d = false ->
  fst (health logs wits now) = 500%N /\ In (dir_label w d ++ sep ++ werr_text WParsePend) (snd (health logs wits now)).
Proof. exact single_mirror_pending_unparsable. Qed.
Print Assumptions C20_single_mirror_pending_unparsable.

Theorem C20_single_mirror_pending_origin : forall logs wits now w d,
  In w wits -> w_staging w = false -> w_keys w = VOk -> (w_mirror w = true -> w_pend_keys w = VOk) ->
  w_enum_ok w = true -> In d (w_dirs w) -> d_isdir d = true -> is_origin_hash (d_name d) = true ->
  w_mirror w = true -> d_ckpt_read d = true -> d_verifies d = true -> d_parse d = true -> d_origin_hash d = d_name d ->
  d_edge_ok d = true -> d_pend_read d = true -> d_pend_verifies d = true -> d_pend_parse d = true -> d_size d <= d_pend_size d ->
  d_pend_origin d <> d_origin d ->
  fst (health logs wits now) = 500%N /\ In (dir_label w d ++ sep ++ werr_text WPendOrigin) (snd (health logs wits now)).
Proof. exact single_mirror_pending_origin. Qed.
Print Assumptions C20_single_mirror_pending_origin.

Theorem C20_single_mirror_ahead : forall logs wits now w d,
  In w wits -> w_staging w = false -> w_keys w = VOk -> (w_mirror w = true -> w_pend_keys w = VOk) ->
  w_enum_ok w = true -> In d (w_dirs w) -> d_isdir d = true -> is_origin_hash (d_name d) = true ->
  w_mirror w = true -> d_ckpt_read d = true -> d_verifies d = true -> d_parse d = true -> d_origin_hash d = d_name d ->
  d_edge_ok d = true -> d_pend_read d = true -> d_pend_verifies d = true -> d_pend_parse d = true -> d_pend_origin d = d_origin d ->
  d_size d > d_pend_size d ->
  fst (health logs wits now) = 500%N /\ In (dir_label w d ++ sep ++ werr_text WAhead) (snd (health logs wits now)).
Proof. exact single_mirror_ahead. Qed.
Print Assumptions C20_single_mirror_ahead.

Theorem C20_single_verifier_list : forall logs wits now w,
  In w wits -> w_staging w = false -> w_keys w <> VOk ->
  fst (health logs wits now) = 500%N /\
  In (kind_of w ++ sep ++ werr_text (WKeys (w_mirror w) (w_keys w))) (snd (health logs wits now)).
Proof. exact single_verifier_list. Qed.
Print Assumptions C20_single_verifier_list.

Theorem C20_single_pending_verifier_list : forall logs wits now w,
  In w wits -> w_staging w = false -> w_mirror w = true -> w_keys w = VOk -> w_pend_keys w <> VOk ->
  fst (health logs wits now) = 500%N /\
  In (kind_of w ++ sep ++ werr_text (WKeys false (w_pend_keys w))) (snd (health logs wits now)).
Proof. exact single_pending_verifier_list. Qed.
Print Assumptions C20_single_pending_verifier_list.

Theorem C20_single_enumeration : forall logs wits now w,
  In w wits -> w_staging w = false -> w_keys w = VOk -> (w_mirror w = true -> w_pend_keys w = VOk) ->
  w_enum_ok w = false ->
  fst (health logs wits now) = 500%N /\
  In (kind_of w ++ sep ++ werr_text WEnum) (snd (health logs wits now)).
Proof. exact single_enumeration. Qed.
Print Assumptions C20_single_enumeration.

(* ---- non-vacuity ---- *)
Definition ex_hash : bytes := repeat x07 32.
Definition ex_log (staging : bool) (ts : Z) : log_state :=
  mkLog (s2b "alpha") staging true true true true (s2b "alpha.example.org/log") true 4102444800000
        false [] 0 0 true true true (s2b "alpha.example.org/log") 300 ex_hash true ts.
Definition ex_sunset : log_state :=
  mkLog (s2b "beta") false true true true true (s2b "beta.example.org/log") true 1000000000000
        true ex_hash 300 1000000000500 true true true (s2b "beta.example.org/log") 300 ex_hash true 1000000000500.
Definition ex_name : bytes := s2b "9f86d081884c7d659a2feaa0c55ad015a3bf4f1b2b0b822cd15d6c15b0f00a08".
Definition ex_dir (size pend : Z) (edge : bool) : wdir :=
  mkDir ex_name true true true true (s2b "test") ex_name size edge true true true (s2b "test") pend.
Definition ex_wit (mirror : bool) (d : wdir) : wit_state := mkWit mirror false VOk VOk true [d; mkDir (s2b "mirror") true false false false [] [] 0 false false false false [] 0].

(* the hypotheses of C20_green are satisfiable, with a fresh log, a read-only log, a witness and a mirror *)
Example C20_green_example :
  health [ex_log false 1790000000000; ex_sunset] [ex_wit false (ex_dir 300 0 false); ex_wit true (ex_dir 300 305 true)] 1790000003000
  = (200%N, [s2b "alpha: OK"; s2b "beta: read-only"; s2b "witness test: OK"; s2b "mirror test: OK"]).
Proof. vm_compute. reflexivity. Qed.

(* each way of breaking one condition: 500 and the named line; the same state on a staging entry stays green *)
Example C20_single_examples :
  health [ex_log false 1790000000000] [] 1790000006000 = (500%N, [s2b "alpha: too-old"])
  /\ health [ex_log true 1790000000000] [] 1790000006000 = (200%N, [s2b "alpha: too-old (ignored)"])
  /\ health [] [ex_wit true (ex_dir 306 305 true)] 0 = (500%N, [s2b "mirror test: ahead-of-pending"])
  /\ health [] [ex_wit true (ex_dir 300 305 false)] 0 = (500%N, [s2b "mirror test: right-edge-tiles"])
  /\ health [] [mkWit false false VEmpty VOk true []] 0 = (500%N, [s2b "witness: no-verifier-keys-witness.v0.json"])
  /\ In (ETooOld, false) (log_conds (ex_log false 1790000000000) 1790000006000)
  /\ (forall e' b, In (e', b) (log_conds (ex_log false 1790000000000) 1790000006000) -> e' <> ETooOld -> b = true).
Proof.
  repeat split; try (vm_compute; reflexivity).
  - vm_compute. tauto.
  - vm_compute. intros e' b H. repeat (destruct H as [H|H]; [inversion H; subst; try reflexivity; congruence|]). contradiction.
Qed.
