(* Merkle/Sound.v — soundness of the Merkle proof verifiers modelled in Merkle/Proofs.v
   with respect to the RFC 6962 tree hash [mth] of Merkle/Tiles.v, for ALL leaf lists.
   Only hypothesis on the hash: node-hash injectivity [hnode_inj] (Section hypothesis),
   discharged at the end for the free term algebra [ih] (closed theorems). *)
From SL Require Import Merkle.Tiles Merkle.Proofs.
From Coq Require Import ZifyN ZifyNat ZifyBool Lia.
Ltac Zify.zify_post_hook ::= Z.div_mod_to_equations.
Open Scope N_scope.

(* ------------------------------------------------------------------------------------ *)
(* 1. maxpow2 : nat version (Tiles.v) and N version (Proofs.v)                           *)
(* ------------------------------------------------------------------------------------ *)

Lemma maxpow2_fuel_spec : forall fuel k n,
  (1 <= k)%nat -> (k < n)%nat -> (n <= k + fuel)%nat ->
  (maxpow2_fuel fuel k n < n <= 2 * maxpow2_fuel fuel k n)%nat /\
  exists i, maxpow2_fuel fuel k n = (k * 2 ^ i)%nat.
Proof.
  induction fuel as [|f IH]; intros k n Hk Hlt Hf; [lia|].
  cbn [maxpow2_fuel].
  destruct (2 * k <? n)%nat eqn:E.
  - destruct (IH (2 * k)%nat n) as [H1 [i Hi]]; try lia.
    split; [exact H1|]. exists (S i). rewrite Hi. rewrite Nat.pow_succ_r'. lia.
  - split; [lia|]. exists O. rewrite Nat.pow_0_r. lia.
Qed.

(* k = maxpow2 n is a power of two with k < n <= 2k  (n >= 2) *)
Lemma maxpow2_spec : forall n, (2 <= n)%nat ->
  (maxpow2 n < n <= 2 * maxpow2 n)%nat /\ exists i, maxpow2 n = (2 ^ i)%nat.
Proof.
  intros n Hn. unfold maxpow2.
  destruct (maxpow2_fuel_spec n 1%nat n) as [H1 [i Hi]]; try lia.
  split; [exact H1|]. exists i. rewrite Hi. lia.
Qed.

Lemma pow2_bracket_unique : forall a b n,
  (2 ^ a < n <= 2 * 2 ^ a)%nat -> (2 ^ b < n <= 2 * 2 ^ b)%nat -> (2 ^ a = 2 ^ b)%nat.
Proof.
  intros a b n Ha Hb.
  destruct (lt_eq_lt_dec a b) as [[H|H]|H].
  - assert (2 ^ S a <= 2 ^ b)%nat by (apply Nat.pow_le_mono_r; lia).
    rewrite Nat.pow_succ_r' in H0. lia.
  - subst. reflexivity.
  - assert (2 ^ S b <= 2 ^ a)%nat by (apply Nat.pow_le_mono_r; lia).
    rewrite Nat.pow_succ_r' in H0. lia.
Qed.

Lemma maxpow2_unique : forall n k i,
  (k = 2 ^ i)%nat -> (k < n <= 2 * k)%nat -> maxpow2 n = k.
Proof.
  intros n k i Hk Hb.
  assert (1 <= k)%nat by (subst k; pose proof (Nat.pow_nonzero 2 i); lia).
  destruct (maxpow2_spec n) as [H1 [j Hj]]; [lia|].
  rewrite Hj. subst k. apply (pow2_bracket_unique j i n); [rewrite <- Hj; exact H1 | exact Hb].
Qed.

(* the key fact for consistency proofs: the old tree [lo,n) splits at the same k *)
Lemma maxpow2_sub : forall m n, (2 <= m)%nat ->
  (maxpow2 m < n <= m)%nat -> maxpow2 n = maxpow2 m.
Proof.
  intros m n Hm Hn.
  destruct (maxpow2_spec m Hm) as [H1 [i Hi]].
  apply (maxpow2_unique n (maxpow2 m) i Hi). lia.
Qed.

Lemma maxpow2N_fuel_spec : forall fuel k n r,
  1 <= k -> k < n -> maxpow2N_fuel fuel k n = Some r ->
  r < n <= 2 * r /\ exists i : nat, r = k * 2 ^ N.of_nat i.
Proof.
  induction fuel as [|f IH]; intros k n r Hk Hlt H; cbn [maxpow2N_fuel] in H; [discriminate|].
  destruct (2 * k <? n) eqn:E.
  - destruct (IH (2 * k) n r) as [H1 [i Hi]]; try lia; [exact H|].
    split; [exact H1|]. exists (S i). rewrite Hi, Nat2N.inj_succ, N.pow_succ_r'. lia.
  - inversion H; subst r. split; [lia|]. exists O. cbn. lia.
Qed.

Lemma maxpow2N_small : forall n, n <= 2 -> maxpow2N n = Some 1.
Proof.
  intros n Hn. unfold maxpow2N. cbn [maxpow2N_fuel].
  destruct (2 * 1 <? n) eqn:E; [lia|reflexivity].
Qed.

Lemma maxpow2N_spec : forall n k, 2 <= n -> maxpow2N n = Some k ->
  k < n <= 2 * k /\ exists i : nat, k = 2 ^ N.of_nat i.
Proof.
  intros n k Hn H. unfold maxpow2N in H.
  destruct (maxpow2N_fuel_spec 64 1 n k) as [H1 [i Hi]]; [lia|lia|exact H|].
  split; [exact H1|]. exists i. lia.
Qed.

(* the N loop computes Tiles.maxpow2 *)
Lemma maxpow2N_nat : forall n k, 2 <= n -> maxpow2N n = Some k ->
  N.to_nat k = maxpow2 (N.to_nat n).
Proof.
  intros n k Hn H. destruct (maxpow2N_spec n k Hn H) as [H1 [i Hi]].
  symmetry. apply (maxpow2_unique _ _ i); [|lia].
  rewrite Hi, N2Nat.inj_pow, Nat2N.id. reflexivity.
Qed.

Lemma maxpow2N_fuel_enough : forall f k n,
  n <= k * 2 ^ N.of_nat f -> maxpow2N_fuel (S f) k n <> None.
Proof.
  induction f as [|f IH]; intros k n H.
  - cbn in H. cbn [maxpow2N_fuel]. destruct (2 * k <? n) eqn:E; [lia|discriminate].
  - cbn [maxpow2N_fuel]. destruct (2 * k <? n) eqn:E; [|discriminate].
    apply IH. rewrite Nat2N.inj_succ, N.pow_succ_r' in H. lia.
Qed.

Lemma maxpow2N_fuel_ok : forall n, n <= 2 ^ 63 -> maxpow2N n <> None.
Proof.
  intros n H. unfold maxpow2N. apply (maxpow2N_fuel_enough 63 1 n).
  change (N.of_nat 63) with 63. lia.
Qed.

(* ------------------------------------------------------------------------------------ *)
(* 2. lists: slices                                                                      *)
(* ------------------------------------------------------------------------------------ *)
Section Slices.
Context {A : Type}.

Definition slice (lo hi : nat) (l : list A) : list A := firstn (hi - lo) (skipn lo l).

Lemma skipn_skipn' : forall (a b : nat) (l : list A), skipn a (skipn b l) = skipn (b + a) l.
Proof.
  intros a b; revert a. induction b as [|b IH]; intros a l; [reflexivity|].
  destruct l as [|x l]; [now rewrite !skipn_nil|]. cbn [skipn plus]. apply IH.
Qed.

Lemma slice_length : forall lo hi (l : list A), (lo <= hi)%nat -> (hi <= length l)%nat ->
  length (slice lo hi l) = (hi - lo)%nat.
Proof. intros. unfold slice. rewrite firstn_length, skipn_length. lia. Qed.

Lemma firstn_slice : forall k lo hi (l : list A), (lo + k <= hi)%nat ->
  firstn k (slice lo hi l) = slice lo (lo + k) l.
Proof.
  intros. unfold slice. rewrite firstn_firstn. f_equal. lia.
Qed.

Lemma skipn_slice : forall k lo hi (l : list A),
  skipn k (slice lo hi l) = slice (lo + k) hi l.
Proof.
  intros. unfold slice. rewrite skipn_firstn_comm, skipn_skipn'. f_equal. lia.
Qed.

Lemma slice_full : forall (l : list A), slice 0 (length l) l = l.
Proof. intros. unfold slice. cbn [skipn]. rewrite Nat.sub_0_r. apply firstn_all. Qed.

Lemma slice_0 : forall n (l : list A), slice 0 n l = firstn n l.
Proof. intros. unfold slice. cbn [skipn]. now rewrite Nat.sub_0_r. Qed.

Lemma slice_one : forall i (l : list A) x, nth_error l i = Some x -> slice i (S i) l = [x].
Proof.
  intros i l; revert i. unfold slice. induction l as [|y l IH]; intros i x H.
  - destruct i; discriminate.
  - destruct i as [|i].
    + cbn in H. inversion H. reflexivity.
    + cbn [nth_error] in H. specialize (IH i x H). cbn [skipn].
      replace (S (S i) - S i)%nat with (S i - i)%nat by lia. exact IH.
Qed.
(* slices indexed by N *)
Definition sl (lo hi : N) (L : list A) : list A := slice (N.to_nat lo) (N.to_nat hi) L.
End Slices.


(* ------------------------------------------------------------------------------------ *)
(* 2b. alignment: what ValidSubtree means, and why a straddling subtree starts at lo      *)
(* ------------------------------------------------------------------------------------ *)

(* x is a multiple of some power of two that is >= m *)
Definition aligned (x m : N) : Prop :=
  exists j : nat, m <= 2 ^ N.of_nat j /\ (2 ^ N.of_nat j | x).

Lemma pow2_divide : forall i j : nat, (i <= j)%nat -> (2 ^ N.of_nat i | 2 ^ N.of_nat j).
Proof.
  intros i j H. exists (2 ^ N.of_nat (j - i)). rewrite <- N.pow_add_r. f_equal. lia.
Qed.

Lemma pow2_pos : forall i : nat, 0 < 2 ^ N.of_nat i.
Proof. intros. apply N.neq_0_lt_0, N.pow_nonzero. lia. Qed.

(* bitCeil n is the power of two with n <= bitCeil n < 2n  (n >= 1) *)
Lemma bit_ceil_spec : forall n, 1 <= n ->
  bit_ceil n = 2 ^ N.size (n - 1) /\ n <= bit_ceil n /\ bit_ceil n < 2 * n.
Proof.
  intros n Hn. unfold bit_ceil. rewrite N.shiftl_mul_pow2, N.mul_1_l.
  split; [reflexivity|]. pose proof (N.size_gt (n - 1)) as G. split; [lia|].
  destruct (N.eq_dec (n - 1) 0) as [Z|Z].
  - rewrite Z. change (N.size 0) with 0. rewrite N.pow_0_r. lia.
  - rewrite (N.size_log2 _ Z), N.pow_succ_r'.
    destruct (N.log2_spec (n - 1)) as [L1 _]; lia.
Qed.

Lemma valid_subtree_spec : forall s e, valid_subtree s e = true <->
  s < e /\ e - s <= 2 ^ 62 /\ s mod bit_ceil (e - s) = 0.
Proof.
  intros s e. unfold valid_subtree.
  destruct ((e <=? s) || (maxN <? e - s)) eqn:G.
  - unfold maxN in G. split; [discriminate|]. lia.
  - unfold maxN in G.
    destruct (bit_ceil_spec (e - s)) as [B _]; [lia|].
    rewrite B, N.sub_1_r, <- N.ones_equiv, N.land_ones, N.eqb_eq. split; [intros H|intros H]; lia.
Qed.

Lemma valid_subtree_aligned : forall s e, valid_subtree s e = true -> s < e /\ aligned s (e - s).
Proof.
  intros s e H. apply valid_subtree_spec in H. destruct H as (H1 & H2 & H3).
  split; [exact H1|].
  destruct (bit_ceil_spec (e - s)) as (B & B1 & B2); [lia|].
  exists (N.to_nat (N.size (e - s - 1))). rewrite N2Nat.id, <- B. split; [exact B1|].
  apply N.mod_divide; [lia|exact H3].
Qed.

Lemma aligned_0 : forall t, aligned 0 t.
Proof.
  intros t. exists (N.to_nat (N.size t)). rewrite N2Nat.id.
  split; [pose proof (N.size_gt t); lia | apply N.divide_0_r].
Qed.

(* both children of an aligned node [lo,hi) split at k = maxpow2 (hi-lo) are aligned *)
Lemma aligned_children : forall lo hi k (i : nat),
  aligned lo (hi - lo) -> k = 2 ^ N.of_nat i -> k < hi - lo <= 2 * k ->
  (2 * k | lo) /\ aligned lo k /\ forall e, lo + k < e <= hi -> aligned (lo + k) (e - (lo + k)).
Proof.
  intros lo hi k i [j [Hj Hd]] Hk Hb.
  assert (Hij : (S i <= j)%nat).
  { assert (N.of_nat i < N.of_nat j) by (apply (N.pow_lt_mono_r_iff 2); lia). lia. }
  assert (H2k : (2 * k | lo)).
  { apply N.divide_trans with (2 ^ N.of_nat j); [|exact Hd].
    replace (2 * k) with (2 ^ N.of_nat (S i)) by (rewrite Nat2N.inj_succ, N.pow_succ_r'; lia).
    now apply pow2_divide. }
  assert (Hklo : (2 ^ N.of_nat i | lo)).
  { apply N.divide_trans with (2 * k); [|exact H2k]. exists 2. lia. }
  split; [exact H2k|]. split.
  - exists i. split; [lia|exact Hklo].
  - intros e He. exists i. split; [lia|].
    apply N.divide_add_r; [exact Hklo|]. rewrite Hk. apply N.divide_refl.
Qed.

(* the `default:` case of runSubtreeProof: "subtree straddles the split, which implies
   start == lo" *)
Lemma straddle_start : forall lo k (i : nat) s e,
  (2 * k | lo) -> k = 2 ^ N.of_nat i -> aligned s (e - s) ->
  lo <= s -> s < lo + k -> lo + k < e -> s = lo.
Proof.
  intros lo k i s e [q Hq] Hk [j [Hj [z Hz]]] H1 H2 H3.
  pose proof (pow2_pos i) as Pi. pose proof (pow2_pos j) as Pj.
  destruct (le_lt_dec j i) as [Hji|Hji].
  - (* c = 2^j <= k: the block [s, s+c) ends at or before lo+k *)
    exfalso. destruct (pow2_divide j i Hji) as [d Hd].
    remember (2 ^ N.of_nat j) as c.
    assert (Hlk : lo + k = (2 * q * d + d) * c) by (rewrite Hq, Hk, Hd; lia).
    assert (Hz1 : z < 2 * q * d + d).
    { apply (N.mul_lt_mono_pos_r c); [exact Pj|]. lia. }
    assert (Hz2 : (z + 1) * c <= (2 * q * d + d) * c) by (apply N.mul_le_mono_r; lia).
    lia.
  - (* c = 2^j >= 2k: s is a multiple of 2k in [lo, lo+k) *)
    destruct (pow2_divide (S i) j Hji) as [d Hd].
    rewrite Nat2N.inj_succ, N.pow_succ_r', <- Hk in Hd by lia.
    assert (Hs : s = (z * d) * (2 * k)) by (rewrite Hz, Hd; lia).
    assert (P2k : 0 < 2 * k) by lia.
    assert (Hz1 : q <= z * d).
    { apply (N.mul_le_mono_pos_r _ _ (2 * k) P2k). lia. }
    assert (Hz2 : z * d < q + 1).
    { apply (N.mul_lt_mono_pos_r (2 * k) _ _ P2k). lia. }
    assert (z * d = q) by lia. rewrite Hs, Hq. f_equal. assumption.
Qed.

(* ------------------------------------------------------------------------------------ *)
(* 3. mth                                                                                *)
(* ------------------------------------------------------------------------------------ *)
Section MthFacts.
Variable Hsh : Type.
Variable hnode : Hsh -> Hsh -> Hsh.
Variable hempty : Hsh.
Notation mth := (mth Hsh hnode hempty).
Notation mth_fuel := (mth_fuel Hsh hnode hempty).


Lemma mth_fuel_S : forall f (l : list Hsh), (2 <= length l)%nat ->
  mth_fuel (S f) l =
  hnode (mth_fuel f (firstn (maxpow2 (length l)) l)) (mth_fuel f (skipn (maxpow2 (length l)) l)).
Proof.
  intros f l H. destruct l as [|x [|y r]]; cbn [length] in H; try lia. reflexivity.
Qed.

(* fuel irrelevance *)
Lemma mth_fuel_irrel : forall f1 f2 (l : list Hsh),
  (length l <= f1)%nat -> (length l <= f2)%nat -> mth_fuel f1 l = mth_fuel f2 l.
Proof.
  induction f1 as [|f1 IH]; intros f2 l H1 H2.
  - destruct l; [|cbn [length] in H1; lia]. destruct f2; reflexivity.
  - destruct f2 as [|f2].
    + destruct l; [reflexivity | cbn [length] in H2; lia].
    + destruct (le_lt_dec 2 (length l)) as [H|H].
      * rewrite !mth_fuel_S by exact H.
        destruct (maxpow2_spec (length l) H) as [Hk [i Hi]].
        assert (1 <= maxpow2 (length l))%nat
          by (rewrite Hi; pose proof (Nat.pow_nonzero 2 i); lia).
        f_equal; apply IH; rewrite ?firstn_length, ?skipn_length; lia.
      * destruct l as [|x [|y r]]; cbn [length] in H; try lia; reflexivity.
Qed.

Lemma mth_nil : mth [] = hempty.
Proof. reflexivity. Qed.

Lemma mth_one : forall x, mth [x] = x.
Proof. reflexivity. Qed.

(* RFC 6962: MTH(D[n]) = HASH(0x01 || MTH(D[0:k]) || MTH(D[k:n])),  k = maxpow2 n,  n >= 2 *)
Lemma mth_unfold : forall l : list Hsh, (2 <= length l)%nat ->
  mth l = hnode (mth (firstn (maxpow2 (length l)) l)) (mth (skipn (maxpow2 (length l)) l)).
Proof.
  intros l H. unfold Tiles.mth at 1.
  rewrite (mth_fuel_irrel (length l) (S (length l)) l) by lia.
  rewrite mth_fuel_S by exact H.
  destruct (maxpow2_spec (length l) H) as [Hk [i Hi]].
  assert (1 <= maxpow2 (length l))%nat
    by (rewrite Hi; pose proof (Nat.pow_nonzero 2 i); lia).
  unfold Tiles.mth.
  f_equal; apply mth_fuel_irrel; rewrite ?firstn_length, ?skipn_length; lia.
Qed.


(* ------------------------------------------------------------------------------------ *)
(* 4. slices indexed by N, splitting mth at maxpow2N                                     *)
(* ------------------------------------------------------------------------------------ *)

Lemma mth_split : forall (L : list Hsh) lo hi k,
  hi <= N.of_nat (length L) -> lo + 2 <= hi -> maxpow2N (hi - lo) = Some k ->
  0 < k /\ lo + k < hi /\ hi - lo <= 2 * k /\
  mth (sl lo hi L) = hnode (mth (sl lo (lo + k) L)) (mth (sl (lo + k) hi L)).
Proof.
  intros L lo hi k HL Hs Hk.
  assert (H2 : 2 <= hi - lo) by lia.
  destruct (maxpow2N_spec (hi - lo) k H2 Hk) as [H1 _].
  pose proof (maxpow2N_nat (hi - lo) k H2 Hk) as Hn.
  repeat split; try lia.
  unfold sl. rewrite mth_unfold by (rewrite slice_length; lia).
  rewrite slice_length by lia.
  replace (N.to_nat hi - N.to_nat lo)%nat with (N.to_nat (hi - lo)) by lia.
  rewrite <- Hn. rewrite firstn_slice by lia. rewrite skipn_slice.
  replace (N.to_nat lo + N.to_nat k)%nat with (N.to_nat (lo + k)) by lia. reflexivity.
Qed.

(* the prefix [lo,n) of the node [lo,hi) splits at the same k when it reaches past lo+k *)
Lemma mth_split_old : forall (L : list Hsh) lo hi k n,
  hi <= N.of_nat (length L) -> lo + 2 <= hi -> maxpow2N (hi - lo) = Some k ->
  lo + k < n <= hi ->
  mth (sl lo n L) = hnode (mth (sl lo (lo + k) L)) (mth (sl (lo + k) n L)).
Proof.
  intros L lo hi k n HL Hs Hk Hn'.
  assert (H2 : 2 <= hi - lo) by lia.
  destruct (maxpow2N_spec (hi - lo) k H2 Hk) as [H1 _].
  pose proof (maxpow2N_nat (hi - lo) k H2 Hk) as Hn.
  assert (Hm : maxpow2 (N.to_nat (n - lo)) = N.to_nat k).
  { rewrite Hn. apply maxpow2_sub; [lia|]. rewrite <- Hn. lia. }
  unfold sl. rewrite mth_unfold by (rewrite slice_length; lia).
  rewrite slice_length by lia.
  replace (N.to_nat n - N.to_nat lo)%nat with (N.to_nat (n - lo)) by lia.
  rewrite Hm. rewrite firstn_slice by lia. rewrite skipn_slice.
  replace (N.to_nat lo + N.to_nat k)%nat with (N.to_nat (lo + k)) by lia. reflexivity.
Qed.

(* ------------------------------------------------------------------------------------ *)
End MthFacts.

Section Sound.
Variable Hsh : Type.
Variable hnode : Hsh -> Hsh -> Hsh.
Variable hempty : Hsh.
Variable heqb : Hsh -> Hsh -> bool.
Hypothesis heqb_eq : forall a b, heqb a b = true <-> a = b.
Hypothesis hnode_inj : forall a b c d, hnode a b = hnode c d -> a = c /\ b = d.
Notation mth := (mth Hsh hnode hempty).
Notation mth_fuel := (mth_fuel Hsh hnode hempty).
Notation check_tree := (check_tree Hsh hnode heqb).
Notation check_record := (check_record Hsh hnode heqb).
Notation check_subtree := (check_subtree Hsh hnode heqb).
Notation run_tree_proof := (run_tree_proof Hsh hnode).
Notation run_record_proof := (run_record_proof Hsh hnode).
Notation run_subtree_proof := (run_subtree_proof Hsh hnode).
Notation mth_split := (mth_split Hsh hnode hempty).
Notation mth_split_old := (mth_split_old Hsh hnode hempty).
Notation mth_one := (mth_one Hsh hnode hempty).

(* 5. soundness of the three run*Proof functions (induction on the fuel = the recursion)  *)
(* ------------------------------------------------------------------------------------ *)

(* if the implied NEW hash is the real hash of node [lo,hi) then the implied OLD hash is the
   real hash of [lo,n) *)
Lemma run_tree_sound : forall (L : list Hsh) fuel p lo hi n old oh th,
  hi <= N.of_nat (length L) ->
  run_tree_proof fuel p lo hi n old = RVal (oh, th) ->
  th = mth (sl lo hi L) -> oh = mth (sl lo n L).
Proof.
  intros L. induction fuel as [|f IH]; intros p lo hi n old oh th HL H Hth;
    cbn [Proofs.run_tree_proof] in H; [discriminate|].
  destruct ((lo <? n) && (n <=? hi)) eqn:G; cbn [negb] in H; [|discriminate].
  destruct (n =? hi) eqn:E.
  - assert (n = hi) by lia. subst n. destruct (lo =? 0).
    + destruct p; [|discriminate]. inversion H; subst. reflexivity.
    + destruct p as [|x [|]]; try discriminate. inversion H; subst. reflexivity.
  - destruct (unsnoc p) as [[pi pl]|]; [|discriminate].
    destruct (maxpow2N (hi - lo)) as [k|] eqn:Hk; [|discriminate].
    assert (Hs : lo + 2 <= hi) by lia.
    destruct (mth_split L lo hi k HL Hs Hk) as (K0 & K1 & K2 & Hsplit).
    destruct (n <=? lo + k) eqn:C.
    + destruct (run_tree_proof f pi lo (lo + k) n old) as [[oh' th']| | |] eqn:R; try discriminate.
      injection H as Ho Ht. subst oh. rewrite <- Ht in Hth. rewrite Hsplit in Hth. apply hnode_inj in Hth.
      destruct Hth as [Ha Hb].
      eapply IH; [|exact R|exact Ha]. lia.
    + destruct (run_tree_proof f pi (lo + k) hi n old) as [[oh' th']| | |] eqn:R; try discriminate.
      injection H as Ho Ht. subst oh. rewrite <- Ht in Hth. rewrite Hsplit in Hth. apply hnode_inj in Hth.
      destruct Hth as [Ha Hb].
      rewrite (mth_split_old L lo hi k n HL Hs Hk) by lia.
      f_equal; [exact Ha|]. eapply IH; [|exact R|exact Hb]. lia.
Qed.

Lemma run_record_sound : forall (L : list Hsh) fuel p lo hi n leaf th,
  hi <= N.of_nat (length L) ->
  run_record_proof fuel p lo hi n leaf = RVal th ->
  th = mth (sl lo hi L) -> nth_error L (N.to_nat n) = Some leaf.
Proof.
  intros L. induction fuel as [|f IH]; intros p lo hi n leaf th HL H Hth;
    cbn [Proofs.run_record_proof] in H; [discriminate|].
  destruct ((lo <=? n) && (n <? hi)) eqn:G; cbn [negb] in H; [|discriminate].
  destruct (lo + 1 =? hi) eqn:E.
  - destruct p; [|discriminate]. injection H as Ht. rewrite <- Ht in Hth.
    assert (n = lo) by lia. subst lo.
    destruct (nth_error L (N.to_nat n)) as [x|] eqn:X; [|apply nth_error_None in X; lia].
    unfold sl in Hth. replace (N.to_nat hi) with (S (N.to_nat n)) in Hth by lia.
    rewrite (slice_one _ _ _ X), mth_one in Hth. now subst.
  - destruct (unsnoc p) as [[pi pl]|]; [|discriminate].
    destruct (maxpow2N (hi - lo)) as [k|] eqn:Hk; [|discriminate].
    assert (Hs : lo + 2 <= hi) by lia.
    destruct (mth_split L lo hi k HL Hs Hk) as (K0 & K1 & K2 & Hsplit).
    destruct (n <? lo + k) eqn:C.
    + destruct (run_record_proof f pi lo (lo + k) n leaf) as [th'| | |] eqn:R; try discriminate.
      injection H as Ht. rewrite <- Ht in Hth. rewrite Hsplit in Hth. apply hnode_inj in Hth.
      destruct Hth as [Ha Hb].
      eapply IH; [|exact R|exact Ha]. lia.
    + destruct (run_record_proof f pi (lo + k) hi n leaf) as [th'| | |] eqn:R; try discriminate.
      injection H as Ht. rewrite <- Ht in Hth. rewrite Hsplit in Hth. apply hnode_inj in Hth.
      destruct Hth as [Ha Hb].
      eapply IH; [|exact R|exact Hb]. lia.
Qed.

(* if the implied NODE hash is the real hash of [lo,hi) then the implied SUBTREE hash is the
   real hash of [s,e) *)
Lemma run_subtree_sound : forall (L : list Hsh) fuel p lo hi s e b sh sh2 nh,
  hi <= N.of_nat (length L) ->
  run_subtree_proof fuel p lo hi s e b sh = RVal (sh2, nh) ->
  nh = mth (sl lo hi L) -> sh2 = mth (sl s e L).
Proof.
  intros L. induction fuel as [|f IH]; intros p lo hi s e b sh sh2 nh HL H Hth;
    cbn [Proofs.run_subtree_proof] in H; [discriminate|].
  destruct ((lo <=? s) && (s <? e) && (e <=? hi)) eqn:G; cbn [negb] in H; [|discriminate].
  destruct ((lo =? s) && (hi =? e)) eqn:E.
  - assert (lo = s) by lia. assert (hi = e) by lia. subst s e. destruct b.
    + destruct p; [|discriminate]. inversion H; subst. reflexivity.
    + destruct p as [|x [|]]; try discriminate. inversion H; subst. reflexivity.
  - destruct (unsnoc p) as [[pi pl]|]; [|discriminate].
    destruct (maxpow2N (hi - lo)) as [k|] eqn:Hk; [|discriminate].
    assert (Hs : lo + 2 <= hi) by lia.
    destruct (mth_split L lo hi k HL Hs Hk) as (K0 & K1 & K2 & Hsplit).
    destruct (e <=? lo + k) eqn:C1; [|destruct (lo + k <=? s) eqn:C2].
    + destruct (run_subtree_proof f pi lo (lo + k) s e b sh) as [[s' n']| | |] eqn:R; try discriminate.
      injection H as Ho Ht. subst sh2. rewrite <- Ht in Hth. rewrite Hsplit in Hth. apply hnode_inj in Hth.
      destruct Hth as [Ha Hb].
      eapply IH; [|exact R|exact Ha]. lia.
    + destruct (run_subtree_proof f pi (lo + k) hi s e b sh) as [[s' n']| | |] eqn:R; try discriminate.
      injection H as Ho Ht. subst sh2. rewrite <- Ht in Hth. rewrite Hsplit in Hth. apply hnode_inj in Hth.
      destruct Hth as [Ha Hb].
      eapply IH; [|exact R|exact Hb]. lia.
    + destruct (s =? lo) eqn:C3; cbn [negb] in H; [|discriminate].
      assert (s = lo) by lia. subst s.
      destruct (run_subtree_proof f pi (lo + k) hi (lo + k) e false sh) as [[s' n']| | |] eqn:R;
        try discriminate.
      injection H as Ho Ht. subst sh2. rewrite <- Ht in Hth. rewrite Hsplit in Hth. apply hnode_inj in Hth.
      destruct Hth as [Ha Hb].
      rewrite (mth_split_old L lo hi k e HL Hs Hk) by lia.
      f_equal; [exact Ha|]. eapply IH; [|exact R|exact Hb]. lia.
Qed.

(* ------------------------------------------------------------------------------------ *)
(* 6. the theorems                                                                       *)
(* ------------------------------------------------------------------------------------ *)

(* CheckTree: an accepted consistency proof against the real root of L pins the old tree hash *)
Theorem check_tree_sound : forall (L : list Hsh) (p : list Hsh) (n : N) (h : Hsh),
  1 <= n <= N.of_nat (length L) ->
  check_tree p (N.of_nat (length L)) (mth L) n h = Ok ->
  h = mth (firstn (N.to_nat n) L).
Proof.
  intros L p n h Hn H. unfold Proofs.check_tree in H.
  destruct ((N.of_nat (length L) <? 1) || (n <? 1) || (N.of_nat (length L) <? n)); [discriminate|].
  destruct (run_tree_proof 64 p 0 (N.of_nat (length L)) n h) as [[h2 th2]| | |] eqn:R;
    try discriminate.
  destruct (heqb th2 (mth L) && heqb h2 h) eqn:Q; [|discriminate].
  apply andb_prop in Q. destruct Q as [Q1 Q2]. apply heqb_eq in Q1. apply heqb_eq in Q2.
  pose proof (run_tree_sound L _ _ _ _ _ _ _ _ (N.le_refl _) R) as S.
  unfold sl in S. rewrite Nat2N.id in S. change (N.to_nat 0) with O in S.
  rewrite slice_full, slice_0 in S. rewrite <- Q2. apply S. exact Q1.
Qed.

(* CheckRecord: an accepted inclusion proof against the real root of L pins the leaf hash *)
Theorem check_record_sound : forall (L : list Hsh) (p : list Hsh) (i : N) (h : Hsh),
  i < N.of_nat (length L) ->
  check_record p (N.of_nat (length L)) (mth L) i h = Ok ->
  nth_error L (N.to_nat i) = Some h.
Proof.
  intros L p i h Hi H. unfold Proofs.check_record in H.
  destruct (N.of_nat (length L) <=? i); [discriminate|].
  destruct (run_record_proof 64 p 0 (N.of_nat (length L)) i h) as [th2| | |] eqn:R;
    try discriminate.
  destruct (heqb th2 (mth L)) eqn:Q; [|discriminate]. apply heqb_eq in Q.
  apply (run_record_sound L _ _ _ _ _ _ _ (N.le_refl _) R).
  unfold sl. rewrite Nat2N.id. change (N.to_nat 0) with O. rewrite slice_full. exact Q.
Qed.

(* CheckSubtree: an accepted subtree proof against the real root of L pins the subtree hash *)
Theorem check_subtree_sound : forall (L : list Hsh) (p : list Hsh) (s e : N) (sh : Hsh),
  valid_subtree s e = true -> e <= N.of_nat (length L) ->
  check_subtree p (N.of_nat (length L)) (mth L) s e sh = Ok ->
  sh = mth (firstn (N.to_nat (e - s)) (skipn (N.to_nat s) L)).
Proof.
  intros L p s e sh _ _ H. unfold Proofs.check_subtree in H.
  destruct ((maxN <? N.of_nat (length L)) || (N.of_nat (length L) <? e) || negb (valid_subtree s e));
    [discriminate|].
  destruct (run_subtree_proof 64 p 0 (N.of_nat (length L)) s e true sh) as [[sh2 th2]| | |] eqn:R;
    try discriminate.
  destruct (heqb sh2 sh && heqb th2 (mth L)) eqn:Q; [|discriminate].
  apply andb_prop in Q. destruct Q as [Q1 Q2]. apply heqb_eq in Q1. apply heqb_eq in Q2.
  pose proof (run_subtree_sound L _ _ _ _ _ _ _ _ _ _ (N.le_refl _) R) as S.
  unfold sl at 1 in S. rewrite Nat2N.id in S. change (N.to_nat 0) with O in S.
  rewrite slice_full in S. rewrite <- Q1. rewrite (S Q2). unfold sl, slice.
  replace (N.to_nat e - N.to_nat s)%nat with (N.to_nat (e - s)) by lia. reflexivity.
Qed.

End Sound.

Section MthInj.
Variable Hsh : Type.
Variable hnode : Hsh -> Hsh -> Hsh.
Variable hempty : Hsh.
Hypothesis hnode_inj : forall a b c d, hnode a b = hnode c d -> a = c /\ b = d.
Notation mth := (mth Hsh hnode hempty).
Notation mth_fuel := (mth_fuel Hsh hnode hempty).
Notation mth_unfold := (mth_unfold Hsh hnode hempty).
Notation mth_one := (mth_one Hsh hnode hempty).

(* equal-length leaf lists with equal tree hash are equal (only hnode_inj is needed) *)
Theorem mth_inj : forall L1 L2 : list Hsh,
  length L1 = length L2 -> mth L1 = mth L2 -> L1 = L2.
Proof.
  intros L1. remember (length L1) as n eqn:E. revert L1 E.
  induction n as [n IH] using lt_wf_ind. intros L1 E L2 HL H.
  destruct (le_lt_dec 2 n) as [Hn|Hn].
  - rewrite (mth_unfold L1), (mth_unfold L2) in H by lia. rewrite <- HL, <- E in H.
    apply hnode_inj in H. destruct H as [Ha Hb].
    destruct (maxpow2_spec n Hn) as [Hk _].
    rewrite <- (firstn_skipn (maxpow2 n) L1), <- (firstn_skipn (maxpow2 n) L2).
    f_equal.
    + apply (IH (length (firstn (maxpow2 n) L1))); try reflexivity; try exact Ha;
        rewrite !firstn_length; lia.
    + apply (IH (length (skipn (maxpow2 n) L1))); try reflexivity; try exact Hb;
        rewrite !skipn_length; lia.
  - destruct L1 as [|x [|? ?]], L2 as [|y [|? ?]]; cbn [length] in *; try lia; try reflexivity.
    rewrite !mth_one in H. now subst.
Qed.


(* ------------------------------------------------------------------------------------ *)
End MthInj.

(* totality facts: they need no hypothesis on the hash at all *)
Section Totality.
Variable Hsh : Type.
Variable hnode : Hsh -> Hsh -> Hsh.
Variable heqb : Hsh -> Hsh -> bool.
Notation check_tree := (check_tree Hsh hnode heqb).
Notation check_record := (check_record Hsh hnode heqb).
Notation check_subtree := (check_subtree Hsh hnode heqb).
Notation run_tree_proof := (run_tree_proof Hsh hnode).
Notation run_record_proof := (run_record_proof Hsh hnode).
Notation run_subtree_proof := (run_subtree_proof Hsh hnode).

(* the hypotheses of the three theorems are implied by acceptance (the guards of the Go code) *)
Lemma check_tree_ok_range : forall p t th n h, check_tree p t th n h = Ok -> 1 <= n <= t.
Proof.
  intros p t th n h H. unfold Proofs.check_tree in H.
  destruct ((t <? 1) || (n <? 1) || (t <? n)) eqn:G; [discriminate|]. lia.
Qed.

Lemma check_record_ok_range : forall p t th n h, check_record p t th n h = Ok -> n < t.
Proof.
  intros p t th n h H. unfold Proofs.check_record in H.
  destruct (t <=? n) eqn:G; [discriminate|]. lia.
Qed.

Lemma check_subtree_ok_range : forall p t th s e sh, check_subtree p t th s e sh = Ok ->
  valid_subtree s e = true /\ e <= t /\ t <= maxN.
Proof.
  intros p t th s e sh H. unfold Proofs.check_subtree in H.
  destruct ((maxN <? t) || (t <? e) || negb (valid_subtree s e)) eqn:G; [discriminate|].
  destruct (valid_subtree s e); cbn [negb] in G; [|rewrite !orb_true_r in G; discriminate].
  split; [reflexivity|]. lia.
Qed.

(* 7. fuel: with the fuel 64 supplied by check_*, OutOfFuel never occurs for t <= 2^63   *)
(* ------------------------------------------------------------------------------------ *)
Lemma step_size : forall (f : nat) lo hi k,
  lo + 2 <= hi -> hi - lo <= 2 ^ N.of_nat (S f) -> maxpow2N (hi - lo) = Some k ->
  0 < k /\ lo + k < hi /\ k <= 2 ^ N.of_nat f /\ hi - (lo + k) <= 2 ^ N.of_nat f.
Proof.
  intros f lo hi k Hs Hf Hk.
  assert (H2 : 2 <= hi - lo) by lia.
  destruct (maxpow2N_spec (hi - lo) k H2 Hk) as [H1 [i Hi]].
  assert (k <= 2 ^ N.of_nat f).
  { rewrite Hi. apply N.pow_le_mono_r; [lia|].
    assert (N.of_nat i < N.of_nat (S f)) by (apply (N.pow_lt_mono_r_iff 2); lia). lia. }
  lia.
Qed.

Lemma run_tree_fuel : forall fuel p lo hi n old,
  (1 <= fuel)%nat -> hi - lo <= 2 ^ N.of_nat (fuel - 1) -> hi - lo <= 2 ^ 63 ->
  run_tree_proof fuel p lo hi n old <> ROutOfFuel.
Proof.
  induction fuel as [|f IH]; intros p lo hi n old H1 Hs H63; [lia|].
  cbn [Proofs.run_tree_proof].
  destruct ((lo <? n) && (n <=? hi)) eqn:G; cbn [negb]; [|discriminate].
  destruct (n =? hi) eqn:E.
  { destruct (lo =? 0); [destruct p; discriminate | destruct p as [|? [|]]; discriminate]. }
  destruct (unsnoc p) as [[pi pl]|]; [|discriminate].
  destruct (maxpow2N (hi - lo)) as [k|] eqn:Hk; [|exfalso; now apply (maxpow2N_fuel_ok (hi - lo))].
  replace (S f - 1)%nat with f in Hs by lia.
  destruct f as [|f]; [cbn in Hs; lia|].
  assert (Hs2 : lo + 2 <= hi) by lia.
  destruct (step_size f lo hi k Hs2 Hs Hk) as (K0 & K1 & K2 & K3).
  replace f with (S f - 1)%nat in K2, K3 by lia.
  destruct (n <=? lo + k).
  - specialize (IH pi lo (lo + k) n old).
    destruct (run_tree_proof (S f) pi lo (lo + k) n old) as [[? ?]| | |]; try discriminate.
    exfalso; apply IH; try reflexivity; lia.
  - specialize (IH pi (lo + k) hi n old).
    destruct (run_tree_proof (S f) pi (lo + k) hi n old) as [[? ?]| | |]; try discriminate.
    exfalso; apply IH; try reflexivity; lia.
Qed.

Lemma run_record_fuel : forall fuel p lo hi n leaf,
  (1 <= fuel)%nat -> hi - lo <= 2 ^ N.of_nat (fuel - 1) -> hi - lo <= 2 ^ 63 ->
  run_record_proof fuel p lo hi n leaf <> ROutOfFuel.
Proof.
  induction fuel as [|f IH]; intros p lo hi n leaf H1 Hs H63; [lia|].
  cbn [Proofs.run_record_proof].
  destruct ((lo <=? n) && (n <? hi)) eqn:G; cbn [negb]; [|discriminate].
  destruct (lo + 1 =? hi) eqn:E.
  { destruct p; discriminate. }
  destruct (unsnoc p) as [[pi pl]|]; [|discriminate].
  destruct (maxpow2N (hi - lo)) as [k|] eqn:Hk; [|exfalso; now apply (maxpow2N_fuel_ok (hi - lo))].
  replace (S f - 1)%nat with f in Hs by lia.
  destruct f as [|f]; [cbn in Hs; lia|].
  assert (Hs2 : lo + 2 <= hi) by lia.
  destruct (step_size f lo hi k Hs2 Hs Hk) as (K0 & K1 & K2 & K3).
  replace f with (S f - 1)%nat in K2, K3 by lia.
  destruct (n <? lo + k).
  - specialize (IH pi lo (lo + k) n leaf).
    destruct (run_record_proof (S f) pi lo (lo + k) n leaf) as [?| | |]; try discriminate.
    exfalso; apply IH; try reflexivity; lia.
  - specialize (IH pi (lo + k) hi n leaf).
    destruct (run_record_proof (S f) pi (lo + k) hi n leaf) as [?| | |]; try discriminate.
    exfalso; apply IH; try reflexivity; lia.
Qed.

Lemma run_subtree_fuel : forall fuel p lo hi s e b sh,
  (1 <= fuel)%nat -> hi - lo <= 2 ^ N.of_nat (fuel - 1) -> hi - lo <= 2 ^ 63 ->
  run_subtree_proof fuel p lo hi s e b sh <> ROutOfFuel.
Proof.
  induction fuel as [|f IH]; intros p lo hi s e b sh H1 Hs H63; [lia|].
  cbn [Proofs.run_subtree_proof].
  destruct ((lo <=? s) && (s <? e) && (e <=? hi)) eqn:G; cbn [negb]; [|discriminate].
  destruct ((lo =? s) && (hi =? e)) eqn:E.
  { destruct b; [destruct p; discriminate | destruct p as [|? [|]]; discriminate]. }
  destruct (unsnoc p) as [[pi pl]|]; [|discriminate].
  destruct (maxpow2N (hi - lo)) as [k|] eqn:Hk; [|exfalso; now apply (maxpow2N_fuel_ok (hi - lo))].
  replace (S f - 1)%nat with f in Hs by lia.
  destruct f as [|f]; [cbn in Hs; lia|].
  assert (Hs2 : lo + 2 <= hi) by lia.
  destruct (step_size f lo hi k Hs2 Hs Hk) as (K0 & K1 & K2 & K3).
  replace f with (S f - 1)%nat in K2, K3 by lia.
  destruct (e <=? lo + k); [|destruct (lo + k <=? s)].
  - specialize (IH pi lo (lo + k) s e b sh).
    destruct (run_subtree_proof (S f) pi lo (lo + k) s e b sh) as [[? ?]| | |]; try discriminate.
    exfalso; apply IH; try reflexivity; lia.
  - specialize (IH pi (lo + k) hi s e b sh).
    destruct (run_subtree_proof (S f) pi (lo + k) hi s e b sh) as [[? ?]| | |]; try discriminate.
    exfalso; apply IH; try reflexivity; lia.
  - destruct (s =? lo); cbn [negb]; [|discriminate].
    specialize (IH pi (lo + k) hi (lo + k) e false sh).
    destruct (run_subtree_proof (S f) pi (lo + k) hi (lo + k) e false sh) as [[? ?]| | |];
      try discriminate.
    exfalso; apply IH; try reflexivity; lia.
Qed.

Theorem check_tree_fuel : forall p t th n h, t <= 2 ^ 63 -> check_tree p t th n h <> OutOfFuel.
Proof.
  intros p t th n h Ht. unfold Proofs.check_tree.
  destruct ((t <? 1) || (n <? 1) || (t <? n)); [discriminate|].
  pose proof (run_tree_fuel 64 p 0 t n h) as F.
  destruct (run_tree_proof 64 p 0 t n h) as [[h2 th2]| | |]; try discriminate.
  - destruct (heqb th2 th && heqb h2 h); discriminate.
  - exfalso. apply F; try reflexivity; try lia.
    change (N.of_nat (64 - 1)) with 63. lia.
Qed.

Theorem check_record_fuel : forall p t th n h, t <= 2 ^ 63 -> check_record p t th n h <> OutOfFuel.
Proof.
  intros p t th n h Ht. unfold Proofs.check_record.
  destruct (t <=? n); [discriminate|].
  pose proof (run_record_fuel 64 p 0 t n h) as F.
  destruct (run_record_proof 64 p 0 t n h) as [th2| | |]; try discriminate.
  - destruct (heqb th2 th); discriminate.
  - exfalso. apply F; try reflexivity; try lia.
    change (N.of_nat (64 - 1)) with 63. lia.
Qed.

(* CheckSubtree rejects t > maxN = 2^62 itself, so no size hypothesis is needed *)
Theorem check_subtree_fuel : forall p t th s e sh, check_subtree p t th s e sh <> OutOfFuel.
Proof.
  intros p t th s e sh. unfold Proofs.check_subtree.
  destruct ((maxN <? t) || (t <? e) || negb (valid_subtree s e)) eqn:G; [discriminate|].
  assert (Ht : t <= 2 ^ 62) by (unfold maxN in G; lia).
  pose proof (run_subtree_fuel 64 p 0 t s e true sh) as F.
  destruct (run_subtree_proof 64 p 0 t s e true sh) as [[sh2 th2]| | |]; try discriminate.
  - destruct (heqb sh2 sh && heqb th2 th); discriminate.
  - exfalso. apply F; try reflexivity; try lia.
    change (N.of_nat (64 - 1)) with 63. lia.
Qed.

(* ------------------------------------------------------------------------------------ *)
(* 8. the `panic("bad math")` branches are unreachable from the Check* entry points      *)
(* ------------------------------------------------------------------------------------ *)
Lemma run_tree_no_panic : forall fuel p lo hi n old,
  lo < n <= hi -> run_tree_proof fuel p lo hi n old <> RPanic.
Proof.
  induction fuel as [|f IH]; intros p lo hi n old Hn; cbn [Proofs.run_tree_proof]; [discriminate|].
  destruct ((lo <? n) && (n <=? hi)) eqn:G; cbn [negb]; [|lia].
  destruct (n =? hi) eqn:E.
  { destruct (lo =? 0); [destruct p; discriminate | destruct p as [|? [|]]; discriminate]. }
  destruct (unsnoc p) as [[pi pl]|]; [|discriminate].
  destruct (maxpow2N (hi - lo)) as [k|] eqn:Hk; [|discriminate].
  assert (H2 : 2 <= hi - lo) by lia.
  destruct (maxpow2N_spec (hi - lo) k H2 Hk) as [H1 _].
  destruct (n <=? lo + k) eqn:C.
  - specialize (IH pi lo (lo + k) n old).
    destruct (run_tree_proof f pi lo (lo + k) n old) as [[? ?]| | |]; try discriminate.
    exfalso; apply IH; try reflexivity; lia.
  - specialize (IH pi (lo + k) hi n old).
    destruct (run_tree_proof f pi (lo + k) hi n old) as [[? ?]| | |]; try discriminate.
    exfalso; apply IH; try reflexivity; lia.
Qed.

Lemma run_record_no_panic : forall fuel p lo hi n leaf,
  lo <= n < hi -> run_record_proof fuel p lo hi n leaf <> RPanic.
Proof.
  induction fuel as [|f IH]; intros p lo hi n leaf Hn; cbn [Proofs.run_record_proof]; [discriminate|].
  destruct ((lo <=? n) && (n <? hi)) eqn:G; cbn [negb]; [|lia].
  destruct (lo + 1 =? hi) eqn:E.
  { destruct p; discriminate. }
  destruct (unsnoc p) as [[pi pl]|]; [|discriminate].
  destruct (maxpow2N (hi - lo)) as [k|] eqn:Hk; [|discriminate].
  assert (H2 : 2 <= hi - lo) by lia.
  destruct (maxpow2N_spec (hi - lo) k H2 Hk) as [H1 _].
  destruct (n <? lo + k) eqn:C.
  - specialize (IH pi lo (lo + k) n leaf).
    destruct (run_record_proof f pi lo (lo + k) n leaf) as [?| | |]; try discriminate.
    exfalso; apply IH; try reflexivity; lia.
  - specialize (IH pi (lo + k) hi n leaf).
    destruct (run_record_proof f pi (lo + k) hi n leaf) as [?| | |]; try discriminate.
    exfalso; apply IH; try reflexivity; lia.
Qed.

Theorem check_tree_no_panic : forall p t th n h, check_tree p t th n h <> Panic.
Proof.
  intros p t th n h. unfold Proofs.check_tree.
  destruct ((t <? 1) || (n <? 1) || (t <? n)) eqn:G; [discriminate|].
  pose proof (run_tree_no_panic 64 p 0 t n h) as F.
  destruct (run_tree_proof 64 p 0 t n h) as [[h2 th2]| | |]; try discriminate.
  - destruct (heqb th2 th && heqb h2 h); discriminate.
  - exfalso. apply F; try reflexivity; lia.
Qed.

Theorem check_record_no_panic : forall p t th n h, check_record p t th n h <> Panic.
Proof.
  intros p t th n h. unfold Proofs.check_record.
  destruct (t <=? n) eqn:G; [discriminate|].
  pose proof (run_record_no_panic 64 p 0 t n h) as F.
  destruct (run_record_proof 64 p 0 t n h) as [th2| | |]; try discriminate.
  - destruct (heqb th2 th); discriminate.
  - exfalso. apply F; try reflexivity; lia.
Qed.


Lemma run_subtree_no_panic : forall fuel p lo hi s e b sh,
  lo <= s -> s < e -> e <= hi -> aligned lo (hi - lo) -> aligned s (e - s) ->
  run_subtree_proof fuel p lo hi s e b sh <> RPanic.
Proof.
  induction fuel as [|f IH]; intros p lo hi s e b sh H1 H2 H3 Alo As;
    cbn [Proofs.run_subtree_proof]; [discriminate|].
  destruct ((lo <=? s) && (s <? e) && (e <=? hi)) eqn:G; cbn [negb]; [|lia].
  destruct ((lo =? s) && (hi =? e)) eqn:E.
  { destruct b; [destruct p; discriminate | destruct p as [|? [|]]; discriminate]. }
  destruct (unsnoc p) as [[pi pl]|]; [|discriminate].
  destruct (maxpow2N (hi - lo)) as [k|] eqn:Hk; [|discriminate].
  assert (Hs2 : 2 <= hi - lo) by lia.
  destruct (maxpow2N_spec (hi - lo) k Hs2 Hk) as [Hb [i Hi]].
  destruct (aligned_children lo hi k i Alo Hi Hb) as (D2k & Al & Ar).
  destruct (e <=? lo + k) eqn:C1; [|destruct (lo + k <=? s) eqn:C2].
  - specialize (IH pi lo (lo + k) s e b sh).
    destruct (run_subtree_proof f pi lo (lo + k) s e b sh) as [[? ?]| | |]; try discriminate.
    exfalso; apply IH; try reflexivity; try lia; try assumption.
    replace (lo + k - lo) with k by lia. exact Al.
  - specialize (IH pi (lo + k) hi s e b sh).
    destruct (run_subtree_proof f pi (lo + k) hi s e b sh) as [[? ?]| | |]; try discriminate.
    exfalso; apply IH; try reflexivity; try lia; try assumption.
    apply Ar. lia.
  - assert (s = lo) by (apply (straddle_start lo k i s e); try assumption; lia).
    destruct (s =? lo) eqn:C3; cbn [negb]; [|lia].
    specialize (IH pi (lo + k) hi (lo + k) e false sh).
    destruct (run_subtree_proof f pi (lo + k) hi (lo + k) e false sh) as [[? ?]| | |];
      try discriminate.
    exfalso; apply IH; try reflexivity; try lia.
    + apply Ar. lia.
    + apply Ar. lia.
Qed.

Theorem check_subtree_no_panic : forall p t th s e sh, check_subtree p t th s e sh <> Panic.
Proof.
  intros p t th s e sh. unfold Proofs.check_subtree.
  destruct ((maxN <? t) || (t <? e) || negb (valid_subtree s e)) eqn:G; [discriminate|].
  destruct (valid_subtree s e) eqn:V; cbn [negb] in G; [|rewrite !orb_true_r in G; discriminate].
  destruct (valid_subtree_aligned s e V) as [Hse As].
  pose proof (run_subtree_no_panic 64 p 0 t s e true sh) as F.
  destruct (run_subtree_proof 64 p 0 t s e true sh) as [[sh2 th2]| | |]; try discriminate.
  - destruct (heqb sh2 sh && heqb th2 th); discriminate.
  - exfalso. apply F; try reflexivity; try lia; try assumption.
    rewrite N.sub_0_r. apply aligned_0.
Qed.

End Totality.


(* ------------------------------------------------------------------------------------ *)
(* 9. the int64 entry points agree with the N models on non-negative arguments           *)
(* ------------------------------------------------------------------------------------ *)
Lemma check_treeZ_ok : forall Hsh hnode heqb p t th n h,
  check_treeZ Hsh hnode heqb p t th n h = Ok ->
  (1 <= n <= t)%Z /\ check_tree Hsh hnode heqb p (Z.to_N t) th (Z.to_N n) h = Ok.
Proof.
  intros *. unfold check_treeZ.
  destruct ((t <? 1) || (n <? 1) || (t <? n))%Z eqn:G; [discriminate|]. intros H. split; [lia|exact H].
Qed.

Lemma check_recordZ_ok : forall Hsh hnode heqb p t th n h,
  check_recordZ Hsh hnode heqb p t th n h = Ok ->
  (0 <= n < t)%Z /\ check_record Hsh hnode heqb p (Z.to_N t) th (Z.to_N n) h = Ok.
Proof.
  intros *. unfold check_recordZ.
  destruct ((t <? 0) || (n <? 0) || (t <=? n))%Z eqn:G; [discriminate|]. intros H. split; [lia|exact H].
Qed.

Lemma check_subtreeZ_ok : forall Hsh hnode heqb p t th s e sh,
  @check_subtreeZ Hsh hnode heqb p t th s e sh = Ok ->
  (0 <= s < e)%Z /\ (e <= t)%Z /\
  check_subtree Hsh hnode heqb p (Z.to_N t) th (Z.to_N s) (Z.to_N e) sh = Ok.
Proof.
  intros *. unfold check_subtreeZ, valid_subtreeZ.
  destruct ((t <? 0) || (Z.of_N maxN <? t) || (t <? e))%Z eqn:G; cbn [orb]; [discriminate|].
  destruct ((s <? 0) || (e <=? s))%Z eqn:G2; cbn [negb]; [discriminate|].
  destruct (valid_subtree (Z.to_N s) (Z.to_N e)); cbn [negb]; [|discriminate].
  intros H. repeat split; try lia. exact H.
Qed.

(* ------------------------------------------------------------------------------------ *)
(* 10. mth_inj without the length hypothesis needs leaf/node domain separation           *)
(* ------------------------------------------------------------------------------------ *)
Section LeafSeparation.
Variable Hsh : Type.
Variable hnode : Hsh -> Hsh -> Hsh.
Variable hempty : Hsh.
Hypothesis hnode_inj : forall a b c d, hnode a b = hnode c d -> a = c /\ b = d.
Variable isleaf : Hsh -> Prop.
Hypothesis leaf_node_disjoint : forall a b, ~ isleaf (hnode a b).
Hypothesis empty_not_leaf : ~ isleaf hempty.
Hypothesis empty_not_node : forall a b, hempty <> hnode a b.
Notation mth := (mth Hsh hnode hempty).

Theorem mth_inj_leaves : forall L1 L2 : list Hsh,
  Forall isleaf L1 -> Forall isleaf L2 -> mth L1 = mth L2 -> L1 = L2.
Proof.
  intros L1. remember (length L1) as n eqn:E. revert L1 E.
  induction n as [n IH] using lt_wf_ind. intros L1 E L2 F1 F2 H.
  destruct (le_lt_dec 2 (length L1)) as [H1|H1]; destruct (le_lt_dec 2 (length L2)) as [H2|H2].
  - rewrite (mth_unfold _ _ _ L1 H1), (mth_unfold _ _ _ L2 H2) in H.
    apply hnode_inj in H. destruct H as [Ha Hb].
    destruct (maxpow2_spec _ H1) as [K1 _].
    set (k1 := maxpow2 (length L1)) in *. set (k2 := maxpow2 (length L2)) in *.
    assert (G1 : Forall isleaf (firstn k1 L1) /\ Forall isleaf (skipn k1 L1))
      by (apply Forall_app; rewrite firstn_skipn; exact F1).
    assert (G2 : Forall isleaf (firstn k2 L2) /\ Forall isleaf (skipn k2 L2))
      by (apply Forall_app; rewrite firstn_skipn; exact F2).
    destruct G1 as [G1a G1b], G2 as [G2a G2b].
    rewrite <- (firstn_skipn k1 L1), <- (firstn_skipn k2 L2). f_equal.
    + apply (IH (length (firstn k1 L1))); try reflexivity; try assumption.
      rewrite firstn_length; lia.
    + apply (IH (length (skipn k1 L1))); try reflexivity; try assumption.
      rewrite skipn_length; lia.
  - exfalso. rewrite (mth_unfold _ _ _ L1 H1) in H.
    destruct L2 as [|y [|? ?]]; cbn [length] in H2; try lia.
    + symmetry in H. exact (empty_not_node _ _ H).
    + inversion F2; subst. rewrite mth_one in H. rewrite <- H in *. eapply leaf_node_disjoint; eassumption.
  - exfalso. rewrite (mth_unfold _ _ _ L2 H2) in H.
    destruct L1 as [|y [|? ?]]; cbn [length] in H1; try lia.
    + exact (empty_not_node _ _ H).
    + inversion F1; subst. rewrite mth_one in H. rewrite H in *. eapply leaf_node_disjoint; eassumption.
  - destruct L1 as [|x [|? ?]]; cbn [length] in H1; try lia;
    destruct L2 as [|y [|? ?]]; cbn [length] in H2; try lia.
    + reflexivity.
    + exfalso. inversion F2; subst. rewrite mth_one in H. change (mth []) with hempty in H.
      rewrite <- H in *. contradiction.
    + exfalso. inversion F1; subst. rewrite mth_one in H. change (mth []) with hempty in H.
      rewrite H in *. contradiction.
    + rewrite !mth_one in H. now subst.
Qed.
End LeafSeparation.

(* ------------------------------------------------------------------------------------ *)
(* 11. closed instance: the free term algebra, for which hnode_inj is a theorem          *)
(* ------------------------------------------------------------------------------------ *)
Inductive ih := ILeaf (n : N) | INode (a b : ih) | IEmpty.

Fixpoint ih_eqb (x y : ih) : bool :=
  match x, y with
  | ILeaf n, ILeaf m => n =? m
  | INode a b, INode c d => ih_eqb a c && ih_eqb b d
  | IEmpty, IEmpty => true
  | _, _ => false
  end.

Lemma ih_eqb_eq : forall a b, ih_eqb a b = true <-> a = b.
Proof.
  induction a as [n|a1 IH1 a2 IH2|]; intros [m|b1 b2|]; cbn [ih_eqb];
    try (split; intros; discriminate); try (split; reflexivity).
  - rewrite N.eqb_eq. split; [intros ->; reflexivity | intros H; inversion H; reflexivity].
  - rewrite andb_true_iff, IH1, IH2. split; [intros [-> ->]; reflexivity | intros H; inversion H; auto].
Qed.

Lemma INode_inj : forall a b c d, INode a b = INode c d -> a = c /\ b = d.
Proof. intros a b c d H. inversion H. auto. Qed.

Definition imth : list ih -> ih := mth ih INode IEmpty.
Definition icheck_tree := check_tree ih INode ih_eqb.
Definition icheck_record := check_record ih INode ih_eqb.
Definition icheck_subtree := check_subtree ih INode ih_eqb.
Definition ih_isleaf (x : ih) : Prop := exists n, x = ILeaf n.

Theorem ideal_check_tree_sound : forall (L p : list ih) (n : N) (h : ih),
  1 <= n <= N.of_nat (length L) ->
  icheck_tree p (N.of_nat (length L)) (imth L) n h = Ok ->
  h = imth (firstn (N.to_nat n) L).
Proof. exact (check_tree_sound ih INode IEmpty ih_eqb ih_eqb_eq INode_inj). Qed.

Theorem ideal_check_record_sound : forall (L p : list ih) (i : N) (h : ih),
  i < N.of_nat (length L) ->
  icheck_record p (N.of_nat (length L)) (imth L) i h = Ok ->
  nth_error L (N.to_nat i) = Some h.
Proof. exact (check_record_sound ih INode IEmpty ih_eqb ih_eqb_eq INode_inj). Qed.

Theorem ideal_check_subtree_sound : forall (L p : list ih) (s e : N) (sh : ih),
  valid_subtree s e = true -> e <= N.of_nat (length L) ->
  icheck_subtree p (N.of_nat (length L)) (imth L) s e sh = Ok ->
  sh = imth (firstn (N.to_nat (e - s)) (skipn (N.to_nat s) L)).
Proof. exact (check_subtree_sound ih INode IEmpty ih_eqb ih_eqb_eq INode_inj). Qed.

Theorem ideal_mth_inj : forall L1 L2 : list ih,
  length L1 = length L2 -> imth L1 = imth L2 -> L1 = L2.
Proof. exact (mth_inj ih INode IEmpty INode_inj). Qed.

Theorem ideal_mth_inj_leaves : forall L1 L2 : list ih,
  Forall ih_isleaf L1 -> Forall ih_isleaf L2 -> imth L1 = imth L2 -> L1 = L2.
Proof.
  apply (mth_inj_leaves ih INode IEmpty INode_inj ih_isleaf).
  - intros a b [n H]. discriminate.
  - intros [n H]. discriminate.
  - intros a b H. discriminate.
Qed.

(* without equal lengths AND without leaf/node separation the statement is false *)
Theorem mth_inj_without_length_refuted :
  exists L1 L2 : list ih, imth L1 = imth L2 /\ L1 <> L2.
Proof.
  exists [INode (ILeaf 0) (ILeaf 1)], [ILeaf 0; ILeaf 1]. split; [reflexivity|discriminate].
Qed.

(* non-vacuity: accepted proofs exist (tree of 5 leaves; proofs in tlog's order) *)
Definition exL : list ih := map ILeaf [0; 1; 2; 3; 4].
Definition h01 : ih := INode (ILeaf 0) (ILeaf 1).

Example ex_tree_ok :
  icheck_tree [ILeaf 2; ILeaf 3; h01; ILeaf 4] 5 (imth exL) 3 (imth (firstn 3 exL)) = Ok.
Proof. vm_compute. reflexivity. Qed.
Example ex_tree_failed :
  icheck_tree [ILeaf 2; ILeaf 3; h01; ILeaf 4] 5 (imth exL) 3 (imth (firstn 2 exL)) = Failed.
Proof. vm_compute. reflexivity. Qed.
Example ex_tree_invalid : icheck_tree [] 5 (imth exL) 6 IEmpty = Invalid.
Proof. vm_compute. reflexivity. Qed.
Example ex_record_ok :
  icheck_record [ILeaf 3; h01; ILeaf 4] 5 (imth exL) 2 (ILeaf 2) = Ok.
Proof. vm_compute. reflexivity. Qed.
Example ex_subtree_ok :
  valid_subtree 2 4 = true /\
  icheck_subtree [h01; ILeaf 4] 5 (imth exL) 2 4 (INode (ILeaf 2) (ILeaf 3)) = Ok.
Proof. vm_compute. split; reflexivity. Qed.
Example ex_subtree_straddle_ok :
  valid_subtree 0 3 = true /\
  icheck_subtree [ILeaf 2; ILeaf 3; h01; ILeaf 4] 5 (imth exL) 0 3 (imth (firstn 3 exL)) = Ok.
Proof. vm_compute. split; reflexivity. Qed.
Example ex_subtree_invalid : valid_subtree 2 5 = false /\ valid_subtree 1 3 = false /\
  icheck_subtree [] 5 (imth exL) 1 3 IEmpty = Invalid.
Proof. vm_compute. repeat split; reflexivity. Qed.
Example ex_mth_5 : imth exL =
  INode (INode h01 (INode (ILeaf 2) (ILeaf 3))) (ILeaf 4).
Proof. vm_compute. reflexivity. Qed.

Print Assumptions ideal_check_tree_sound.
Print Assumptions ideal_check_record_sound.
Print Assumptions ideal_check_subtree_sound.
Print Assumptions ideal_mth_inj.
Print Assumptions ideal_mth_inj_leaves.
Print Assumptions check_tree_fuel.
Print Assumptions check_record_fuel.
Print Assumptions check_subtree_fuel.
Print Assumptions check_tree_no_panic.
Print Assumptions check_record_no_panic.
Print Assumptions check_subtree_no_panic.
