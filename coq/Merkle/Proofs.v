(* Merkle/Proofs.v — executable models of the Merkle proof VERIFIERS sunlight depends on
   (third-party code, hand transcribed, tied to the real code by harness/merkle):

     golang.org/x/mod/sumdb/tlog (tlog.go):  maxpow2, runTreeProof / CheckTree,
                                             runRecordProof / CheckRecord
     filippo.io/torchwood (subtree.go):      bitCeil, ValidSubtree, runSubtreeProof / CheckSubtree

   Definitions only (theorems: Merkle/Sound.v). Hashes are an abstract type [Hsh]; proofs are
   [list Hsh] and are consumed from the END exactly as the Go code does (p[len(p)-1],
   p[:len(p)-1], see [unsnoc]); sizes and indexes are [N]. Every Go loop/recursion is a
   structural recursion on an explicit [nat] fuel; running out of fuel is the distinct result
   [OutOfFuel] (excluded for sizes <= 2^63 by Sound.check_*_fuel). The Go `panic("bad math")`
   branches are kept as the distinct result [Panic] (excluded by Sound.check_*_no_panic).
   Go int64 wrap-around is not modelled (the *Z wrappers model the sign guards). *)
From SL Require Export Merkle.Tiles.
Open Scope N_scope.

(* result of CheckTree / CheckRecord / CheckSubtree:
     Ok       nil
     Failed   errProofFailed ("invalid transparency proof")
     Invalid  the fmt.Errorf("tlog: invalid inputs in Check...") guard
     OutOfFuel, Panic: artefacts of totalisation, see above *)
Inductive cres := Ok | Failed | Invalid | OutOfFuel | Panic.

(* result of the run*Proof helpers: (hashes, nil) | (_, errProofFailed) | fuel | panic *)
Inductive rres (A : Type) := RVal (a : A) | RFailed | ROutOfFuel | RPanic.
Arguments RVal {A} a.
Arguments RFailed {A}.
Arguments ROutOfFuel {A}.
Arguments RPanic {A}.

(* p = init ++ [last]:  Some (p[:len(p)-1], p[len(p)-1]);  None iff len(p) == 0 *)
Fixpoint unsnoc {A : Type} (l : list A) : option (list A * A) :=
  match l with
  | [] => None
  | x :: r =>
    match r with
    | [] => Some ([], x)
    | _ => match unsnoc r with
           | Some (i, z) => Some (x :: i, z)
           | None => None
           end
    end
  end.

(* tlog.maxpow2:  l = 0; for 1<<uint(l+1) < n { l++ }; return 1<<l     (k stands for 1<<l) *)
Fixpoint maxpow2N_fuel (fuel : nat) (k n : N) : option N :=
  match fuel with
  | O => None
  | S f => if 2 * k <? n then maxpow2N_fuel f (2 * k) n else Some k
  end.
Definition maxpow2N (n : N) : option N := maxpow2N_fuel 64 1 n.

(* torchwood: const maxN = 1 << 62 *)
Definition maxN : N := 4611686018427387904.

(* torchwood.bitCeil:  1 << bits.Len64(uint64(n-1))      (bits.Len64 = N.size) *)
Definition bit_ceil (n : N) : N := N.shiftl 1 (N.size (n - 1)).

(* torchwood.ValidSubtree (start < 0 is handled by valid_subtreeZ):
     if start < 0 || end <= start || end-start > maxN { return false }
     return start&(bitCeil(end-start)-1) == 0 *)
Definition valid_subtree (s e : N) : bool :=
  if (e <=? s) || (maxN <? e - s) then false
  else N.land s (bit_ceil (e - s) - 1) =? 0.

Section Proofs.
Variable Hsh : Type.
Variable hnode : Hsh -> Hsh -> Hsh.
Variable hempty : Hsh.
Variable heqb : Hsh -> Hsh -> bool.
Hypothesis heqb_eq : forall a b, heqb a b = true <-> a = b.

(* ---------------- tlog.runTreeProof / CheckTree ---------------- *)
Fixpoint run_tree_proof (fuel : nat) (p : list Hsh) (lo hi n : N) (old : Hsh)
  : rres (Hsh * Hsh) :=
  match fuel with
  | O => ROutOfFuel
  | S f =>
    (* if !(lo < n && n <= hi) { panic } *)
    if negb ((lo <? n) && (n <=? hi)) then RPanic else
    if n =? hi then
      if lo =? 0 then
        match p with
        | [] => RVal (old, old)
        | _ => RFailed                       (* len(p) != 0 *)
        end
      else
        match p with
        | [x] => RVal (x, x)
        | _ => RFailed                       (* len(p) != 1 *)
        end
    else
    match unsnoc p with
    | None => RFailed                        (* len(p) == 0 *)
    | Some (pinit, plast) =>
      match maxpow2N (hi - lo) with
      | None => ROutOfFuel
      | Some k =>
        if n <=? lo + k then
          match run_tree_proof f pinit lo (lo + k) n old with
          | RVal (oh, th) => RVal (oh, hnode th plast)
          | e => e
          end
        else
          match run_tree_proof f pinit (lo + k) hi n old with
          | RVal (oh, th) => RVal (hnode plast oh, hnode plast th)
          | e => e
          end
      end
    end
  end.

Definition check_tree (p : list Hsh) (t : N) (th : Hsh) (n : N) (h : Hsh) : cres :=
  if (t <? 1) || (n <? 1) || (t <? n) then Invalid else
  match run_tree_proof 64 p 0 t n h with
  | RVal (h2, th2) => if heqb th2 th && heqb h2 h then Ok else Failed
  | RFailed => Failed
  | ROutOfFuel => OutOfFuel
  | RPanic => Panic
  end.

(* ---------------- tlog.runRecordProof / CheckRecord ---------------- *)
Fixpoint run_record_proof (fuel : nat) (p : list Hsh) (lo hi n : N) (leaf : Hsh) : rres Hsh :=
  match fuel with
  | O => ROutOfFuel
  | S f =>
    (* if !(lo <= n && n < hi) { panic } *)
    if negb ((lo <=? n) && (n <? hi)) then RPanic else
    if lo + 1 =? hi then
      match p with
      | [] => RVal leaf
      | _ => RFailed                         (* len(p) != 0 *)
      end
    else
    match unsnoc p with
    | None => RFailed
    | Some (pinit, plast) =>
      match maxpow2N (hi - lo) with
      | None => ROutOfFuel
      | Some k =>
        if n <? lo + k then
          match run_record_proof f pinit lo (lo + k) n leaf with
          | RVal th => RVal (hnode th plast)
          | e => e
          end
        else
          match run_record_proof f pinit (lo + k) hi n leaf with
          | RVal th => RVal (hnode plast th)
          | e => e
          end
      end
    end
  end.

Definition check_record (p : list Hsh) (t : N) (th : Hsh) (n : N) (h : Hsh) : cres :=
  if t <=? n then Invalid else                (* t < 0 || n < 0 || n >= t *)
  match run_record_proof 64 p 0 t n h with
  | RVal th2 => if heqb th2 th then Ok else Failed
  | RFailed => Failed
  | ROutOfFuel => OutOfFuel
  | RPanic => Panic
  end.

(* ---------------- torchwood.runSubtreeProof / CheckSubtree ---------------- *)
Fixpoint run_subtree_proof (fuel : nat) (p : list Hsh) (lo hi s e : N) (b : bool) (sh : Hsh)
  : rres (Hsh * Hsh) :=
  match fuel with
  | O => ROutOfFuel
  | S f =>
    (* if !(lo <= start && start < end && end <= hi) { panic } *)
    if negb ((lo <=? s) && (s <? e) && (e <=? hi)) then RPanic else
    if (lo =? s) && (hi =? e) then
      if b then
        match p with
        | [] => RVal (sh, sh)
        | _ => RFailed                       (* len(p) != 0 *)
        end
      else
        match p with
        | [x] => RVal (x, x)
        | _ => RFailed                       (* len(p) != 1 *)
        end
    else
    match unsnoc p with
    | None => RFailed                        (* len(p) == 0 *)
    | Some (pinit, plast) =>
      match maxpow2N (hi - lo) with
      | None => ROutOfFuel
      | Some k =>
        if e <=? lo + k then                 (* subtree in the left child *)
          match run_subtree_proof f pinit lo (lo + k) s e b sh with
          | RVal (sh2, nh) => RVal (sh2, hnode nh plast)
          | x => x
          end
        else if lo + k <=? s then            (* subtree in the right child *)
          match run_subtree_proof f pinit (lo + k) hi s e b sh with
          | RVal (sh2, nh) => RVal (sh2, hnode plast nh)
          | x => x
          end
        else                                 (* straddles the split *)
          if negb (s =? lo) then RPanic else
          match run_subtree_proof f pinit (lo + k) hi (lo + k) e false sh with
          | RVal (sh2, nh) => RVal (hnode plast sh2, hnode plast nh)
          | x => x
          end
      end
    end
  end.

Definition check_subtree (p : list Hsh) (t : N) (th : Hsh) (s e : N) (sh : Hsh) : cres :=
  (* t < 0 || t > maxN || end > t || !ValidSubtree(start, end) *)
  if (maxN <? t) || (t <? e) || negb (valid_subtree s e) then Invalid else
  match run_subtree_proof 64 p 0 t s e true sh with
  | RVal (sh2, th2) => if heqb sh2 sh && heqb th2 th then Ok else Failed
  | RFailed => Failed
  | ROutOfFuel => OutOfFuel
  | RPanic => Panic
  end.

(* ---------------- int64 entry points: the sign guards of the Go code ---------------- *)
Definition check_treeZ (p : list Hsh) (t : Z) (th : Hsh) (n : Z) (h : Hsh) : cres :=
  if ((t <? 1) || (n <? 1) || (t <? n))%Z then Invalid
  else check_tree p (Z.to_N t) th (Z.to_N n) h.

Definition check_recordZ (p : list Hsh) (t : Z) (th : Hsh) (n : Z) (h : Hsh) : cres :=
  if ((t <? 0) || (n <? 0) || (t <=? n))%Z then Invalid
  else check_record p (Z.to_N t) th (Z.to_N n) h.

End Proofs.

Definition valid_subtreeZ (s e : Z) : bool :=
  if ((s <? 0) || (e <=? s))%Z then false else valid_subtree (Z.to_N s) (Z.to_N e).

Definition check_subtreeZ {Hsh : Type} (hnode : Hsh -> Hsh -> Hsh) (heqb : Hsh -> Hsh -> bool)
  (p : list Hsh) (t : Z) (th : Hsh) (s e : Z) (sh : Hsh) : cres :=
  if ((t <? 0) || (Z.of_N maxN <? t) || (t <? e))%Z || negb (valid_subtreeZ s e) then Invalid
  else check_subtree Hsh hnode heqb p (Z.to_N t) th (Z.to_N s) (Z.to_N e) sh.

(* ---------------- rendering + the SHA-256 instance run by ocaml/merkle.ml ---------------- *)
Definition show_cres (r : cres) : bytes :=
  match r with
  | Ok => s2b "ok" | Failed => s2b "failed" | Invalid => s2b "invalid"
  | OutOfFuel => s2b "outoffuel" | Panic => s2b "panic"
  end.

Definition show_bool (b : bool) : bytes := if b then s2b "true" else s2b "false".

(* tlog.NodeHash: SHA-256(0x01 || left || right); [sha] is supplied by the driver *)
Definition sha_node (sha : bytes -> bytes) (l r : bytes) : bytes := sha (x01 :: l ++ r).

Definition run_tree (sha : bytes -> bytes) (p : list bytes) (t : Z) (th : bytes) (n : Z) (h : bytes) : bytes :=
  show_cres (check_treeZ bytes (sha_node sha) bytes_eqb p t th n h).
Definition run_record (sha : bytes -> bytes) (p : list bytes) (t : Z) (th : bytes) (n : Z) (h : bytes) : bytes :=
  show_cres (check_recordZ bytes (sha_node sha) bytes_eqb p t th n h).
Definition run_subtree (sha : bytes -> bytes) (p : list bytes) (t : Z) (th : bytes) (s e : Z) (sh : bytes) : bytes :=
  show_cres (check_subtreeZ (sha_node sha) bytes_eqb p t th s e sh).
Definition run_valid (s e : Z) : bytes := show_bool (valid_subtreeZ s e).

(* RFC 6962 MTH of a list of leaf hashes (Tiles.mth), emptyHash = SHA-256("") *)
Definition run_mth (sha : bytes -> bytes) (leaves : list bytes) : bytes :=
  hex (mth bytes (sha_node sha) (sha []) leaves).
