(* Merkle/Tiles.v — RFC 6962 Merkle tree hash, tile coordinates and tile contents
   (model of the parts of golang.org/x/mod/sumdb/tlog that sunlight relies on: TreeHash,
   NewTiles, ReadTileData, the right-edge tiles read by TileHashReader). Definitions only. *)
From SL Require Export Base.Bytes.
Open Scope N_scope.

Section Merkle.
Variable Hsh : Type.
Variable hnode : Hsh -> Hsh -> Hsh.
Variable hempty : Hsh.   (* hash of the empty tree: SHA-256 of the empty string *)

(* largest power of two strictly smaller than n (n >= 2), by doubling with fuel *)
Fixpoint maxpow2_fuel (fuel : nat) (k n : nat) : nat :=
  match fuel with
  | O => k
  | S f => if (2 * k <? n)%nat then maxpow2_fuel f (2 * k)%nat n else k
  end.
Definition maxpow2 (n : nat) : nat := maxpow2_fuel n 1%nat n.

(* RFC 6962 section 2.1, MTH over the list of leaf hashes *)
Fixpoint mth_fuel (fuel : nat) (l : list Hsh) : Hsh :=
  match fuel with
  | O => hempty
  | S f =>
    match l with
    | [] => hempty
    | [x] => x
    | _ => let k := maxpow2 (length l) in
           hnode (mth_fuel f (firstn k l)) (mth_fuel f (skipn k l))
    end
  end.
Definition mth (l : list Hsh) : Hsh := mth_fuel (length l) l.

(* one level up: hash complete pairs, drop an unpaired last element *)
Fixpoint pair_up (l : list Hsh) : list Hsh :=
  match l with
  | a :: b :: r => hnode a b :: pair_up r
  | _ => []
  end.

Fixpoint level_up (k : nat) (l : list Hsh) : list Hsh :=
  match k with O => l | S k' => level_up k' (pair_up l) end.

(* hashes stored at tile level L (tree level 8L): complete subtrees of 256^L leaves *)
Definition tile_level (L : nat) (leaves : list Hsh) : list Hsh := level_up (8 * L) leaves.

Definition tile_hashes (leaves : list Hsh) (L : nat) (n w : N) : list Hsh :=
  firstn (N.to_nat w) (skipn (N.to_nat (n * 256)) (tile_level L leaves)).

End Merkle.

(* ---- tile coordinates (hash tiles only: level L >= 0) ---- *)
Record tcoord := mkT { tc_L : nat; tc_N : N; tc_W : N }.

Definition tcoord_eqb (a b : tcoord) : bool :=
  (tc_L a =? tc_L b)%nat && (tc_N a =? tc_N b) && (tc_W a =? tc_W b).

Definition shr8 (L : nat) (n : N) : N := N.shiftr n (8 * N.of_nat L).

Definition full_tiles (L : nat) (from to : N) : list tcoord :=
  map (fun j => mkT L (from + N.of_nat j) 256) (seq 0 (N.to_nat (to - from))).

(* tlog.NewTiles(8, old, new) *)
Fixpoint new_tiles_fuel (fuel : nat) (L : nat) (old new : N) : list tcoord :=
  match fuel with
  | O => []
  | S f =>
    let oldN := shr8 L old in
    let newN := shr8 L new in
    if newN =? 0 then [] else
    (if oldN =? newN then [] else
       full_tiles L (oldN / 256) (newN / 256) ++
       (let n := newN / 256 in let w := newN - n * 256 in
        if 0 <? w then [mkT L n w] else []))
    ++ new_tiles_fuel f (S L) old new
  end.
Definition new_tiles (old new : N) : list tcoord := new_tiles_fuel 9 0 old new.

(* every tile of the tiled tree of size n: all full tiles plus the partial right edge per level *)
Definition tiles_needed (n : N) : list tcoord := new_tiles 0 n.

(* the right-most tile of every level (what LoadLog keeps in memory as edgeTiles) *)
Fixpoint edge_tiles_fuel (fuel : nat) (L : nat) (n : N) : list tcoord :=
  match fuel with
  | O => []
  | S f =>
    let hl := shr8 L n in
    if hl =? 0 then [] else
    (let w := hl mod 256 in
     if 0 <? w then mkT L (hl / 256) w else mkT L (hl / 256 - 1) 256)
    :: edge_tiles_fuel f (S L) n
  end.
Definition edge_tiles (n : N) : list tcoord := edge_tiles_fuel 9 0 n.
