(* Merkle/TilesProofs.v — tile arithmetic used by the storage invariant (Ctlog/Inv3*.v):
   (A) content stability: a tile that lies within a prefix of the leaf sequence has the same
       contents whether it is computed from the prefix or from the whole sequence;
   (B) the tiles of a tree of size [new] are the tiles of the tree of size [old] plus
       [new_tiles old new]; every needed tile lies within the tree and has width 1..256;
   (C) the structure of the upload bundle of a sequencing round ([round_uploads]);
   (D) the object keys: tile paths are injective on valid coordinates and disjoint from every
       other key the sequencer uses. *)
From SL Require Import Base.Bytes Base.BytesProofs Merkle.Tiles.
From SL Require Import Codec.Leaf Codec.LeafProofs Codec.PathProofs Ctlog.Model.
From Coq Require Import ZifyN ZifyNat ZifyBool.
Open Scope N_scope.
Ltac Zify.zify_post_hook ::= Z.div_mod_to_equations.

(* ================= (A) stability of hash tiles ================= *)
Section A.
Variable Hsh : Type.
Variable hnode : Hsh -> Hsh -> Hsh.
Notation pair_up := (pair_up Hsh hnode).
Notation level_up := (level_up Hsh hnode).
Notation tile_hashes := (tile_hashes Hsh hnode).

Lemma pair_up_firstn m : forall l l',
  firstn (2 * m) l = firstn (2 * m) l' -> firstn m (pair_up l) = firstn m (pair_up l').
Proof.
  induction m as [|m IH]; intros l l' H; [reflexivity|].
  replace (2 * S m)%nat with (S (S (2 * m))) in H by lia.
  destruct l as [|a [|b r]], l' as [|a' [|b' r']]; cbn [firstn] in H; try discriminate H; try reflexivity.
  injection H as -> -> H. cbn [Tiles.pair_up firstn]. f_equal. apply IH. exact H.
Qed.

Lemma level_up_firstn k : forall m l l',
  firstn (m * 2 ^ k) l = firstn (m * 2 ^ k) l' -> firstn m (level_up k l) = firstn m (level_up k l').
Proof.
  induction k as [|k IH]; intros m l l' H.
  - rewrite Nat.pow_0_r, Nat.mul_1_r in H. exact H.
  - cbn [Tiles.level_up]. apply IH. apply pair_up_firstn.
    rewrite Nat.pow_succ_r' in H.
    replace (2 * (m * 2 ^ k))%nat with (m * (2 * 2 ^ k))%nat by lia. exact H.
Qed.

Lemma tile_hashes_stable l e L n w :
  (N.to_nat (n * 256 + w) * 2 ^ (8 * L) <= length l)%nat ->
  tile_hashes (l ++ e) L n w = tile_hashes l L n w.
Proof.
  intro H. unfold Tiles.tile_hashes, tile_level. rewrite !firstn_skipn_comm. f_equal.
  replace (N.to_nat (n * 256) + N.to_nat w)%nat with (N.to_nat (n * 256 + w)) by lia.
  apply level_up_firstn. rewrite firstn_app.
  set (X := (N.to_nat (n * 256 + w) * 2 ^ (8 * L))%nat) in *.
  replace (X - length l)%nat with 0%nat by lia. cbn [firstn]. apply app_nil_r.
Qed.

End A.

(* ================= (B) tile coordinates ================= *)

(* the tile covers leaves below [len] only *)
Definition within (len : N) (t : tcoord) : Prop :=
  (tc_N t * 256 + tc_W t) * 256 ^ N.of_nat (tc_L t) <= len.

Lemma within_nat len t : within (N.of_nat len) t ->
  (N.to_nat (tc_N t * 256 + tc_W t) * 2 ^ (8 * tc_L t) <= len)%nat.
Proof.
  unfold within. intro H.
  assert (H0 : (N.to_nat ((tc_N t * 256 + tc_W t) * 256 ^ N.of_nat (tc_L t)) <= len)%nat) by lia.
  rewrite N2Nat.inj_mul, N2Nat.inj_pow, Nat2N.id in H0.
  change (N.to_nat 256) with (2 ^ 8)%nat in H0. rewrite <- Nat.pow_mul_r in H0. exact H0.
Qed.

Lemma within_mono a b t : a <= b -> within a t -> within b t.
Proof. unfold within. lia. Qed.

Lemma shr8_div L n : shr8 L n = n / 256 ^ N.of_nat L.
Proof.
  unfold shr8. rewrite N.shiftr_div_pow2. f_equal.
  change 256 with (2 ^ 8). rewrite <- N.pow_mul_r. reflexivity.
Qed.

Lemma pow256_pos L : 0 < 256 ^ N.of_nat L.
Proof. apply N.neq_0_lt_0. apply N.pow_nonzero. discriminate. Qed.

Lemma shr8_mono L L' n : (L <= L')%nat -> shr8 L' n <= shr8 L n.
Proof.
  intro H. rewrite !shr8_div. apply N.div_le_compat_l. split; [apply pow256_pos|].
  apply N.pow_le_mono_r; lia.
Qed.

Lemma shr8_le_mono L a b : a <= b -> shr8 L a <= shr8 L b.
Proof. intro H. rewrite !shr8_div. apply N.div_le_mono; [|assumption]. pose proof (pow256_pos L). lia. Qed.

Lemma shr8_0 L : shr8 L 0 = 0.
Proof. rewrite shr8_div. apply N.div_0_l. pose proof (pow256_pos L). lia. Qed.

Lemma shr8_mul_le L n : shr8 L n * 256 ^ N.of_nat L <= n.
Proof. rewrite shr8_div, N.mul_comm. apply N.mul_div_le. pose proof (pow256_pos L). lia. Qed.

(* the tiles NewTiles emits at level L *)
Definition lvl (old new : N) (L : nat) (t : tcoord) : Prop :=
  tc_L t = L /\ shr8 L old <> shr8 L new /\
  ((tc_W t = 256 /\ shr8 L old / 256 <= tc_N t < shr8 L new / 256) \/
   (tc_N t = shr8 L new / 256 /\ tc_W t = shr8 L new mod 256 /\ 0 < tc_W t)).

Lemma in_full_tiles t L from to :
  In t (full_tiles L from to) <-> tc_L t = L /\ tc_W t = 256 /\ from <= tc_N t < to.
Proof.
  unfold full_tiles. rewrite in_map_iff. split.
  - intros (j & E & Hj). apply in_seq in Hj. subst t. cbn [tc_L tc_N tc_W]. lia.
  - intros (H1 & H2 & H3). exists (N.to_nat (tc_N t - from)). split.
    + destruct t as [l n w]. cbn [tc_L tc_N tc_W] in *. subst. f_equal. lia.
    + apply in_seq. lia.
Qed.

Lemma new_tiles_fuel_spec f : forall L old new t,
  In t (new_tiles_fuel f L old new) <->
  exists L', (L <= L' < L + f)%nat /\ shr8 L' new <> 0 /\ lvl old new L' t.
Proof.
  induction f as [|f IH]; intros L old new t.
  - cbn [new_tiles_fuel In]. split; [intros []|intros (L' & H & _); lia].
  - cbn [new_tiles_fuel]. cbv zeta. destruct (N.eqb_spec (shr8 L new) 0) as [E0|E0].
    + cbn [In]. split; [intros []|]. intros (L' & H & Hnz & _).
      pose proof (shr8_mono L L' new ltac:(lia)). lia.
    + rewrite in_app_iff, IH. split.
      * intros [H|(L' & H & Hnz & Hl)].
        -- exists L. split; [lia|]. split; [assumption|].
           destruct (N.eqb_spec (shr8 L old) (shr8 L new)) as [E1|E1]; [destruct H|].
           apply in_app_or in H. destruct H as [H|H].
           ++ apply in_full_tiles in H. destruct H as (H1 & H2 & H3).
              split; [assumption|]. split; [assumption|]. left. split; assumption.
           ++ destruct (N.ltb_spec 0 (shr8 L new - shr8 L new / 256 * 256)) as [Hw|Hw]; [|destruct H].
              destruct H as [H|[]]. subst t. unfold lvl. cbn [tc_L tc_N tc_W]. split; [reflexivity|].
              split; [assumption|]. right. set (q := shr8 L new) in *.
              split; [reflexivity|]. split; [|exact Hw]. rewrite N.mod_eq by discriminate. lia.
        -- exists L'. split; [lia|]. split; assumption.
      * intros (L' & H & Hnz & Hl). destruct (Nat.eq_dec L' L) as [->|Hne].
        -- left. destruct Hl as (H1 & H2 & H3).
           destruct (N.eqb_spec (shr8 L old) (shr8 L new)) as [E1|E1]; [contradiction|].
           apply in_or_app. destruct H3 as [[Hw Hn]|(Hn & Hw & Hp)].
           ++ left. apply in_full_tiles. auto.
           ++ right. destruct (N.ltb_spec 0 (shr8 L new - shr8 L new / 256 * 256)) as [Hw'|Hw']; [|lia].
              left. destruct t as [l n w]. cbn [tc_L tc_N tc_W] in *. subst. f_equal.
              set (q := shr8 L new) in *. rewrite N.mod_eq by discriminate. lia.
        -- right. exists L'. split; [lia|]. split; assumption.
Qed.

Lemma in_new_tiles old new t :
  In t (new_tiles old new) <-> exists L, (L < 9)%nat /\ shr8 L new <> 0 /\ lvl old new L t.
Proof.
  unfold new_tiles. rewrite new_tiles_fuel_spec. split; intros (L & H & R); exists L; (split; [lia|exact R]).
Qed.

Lemma lvl_within old new L t : lvl old new L t -> within new t /\ 1 <= tc_W t <= 256.
Proof.
  intros (H1 & H2 & H3). unfold within. rewrite H1.
  pose proof (shr8_mul_le L new) as Hq. set (q := shr8 L new) in *. set (d := 256 ^ N.of_nat L) in *.
  assert (Hle : tc_N t * 256 + tc_W t <= q) by lia.
  split; [|lia]. eapply N.le_trans; [apply N.mul_le_mono_r; exact Hle|exact Hq].
Qed.

Lemma new_tiles_within old new t : In t (new_tiles old new) ->
  within new t /\ 1 <= tc_W t <= 256 /\ (tc_L t < 9)%nat.
Proof.
  rewrite in_new_tiles. intros (L & HL & Hnz & Hl).
  destruct (lvl_within _ _ _ _ Hl) as [A B]. destruct Hl as (E & _). split; [assumption|]. split; [assumption|lia].
Qed.

Lemma within_N_bound len t : within len t -> tc_N t * 256 + tc_W t <= len.
Proof.
  unfold within. pose proof (pow256_pos (tc_L t)). intro Hw.
  eapply N.le_trans; [|exact Hw].
  rewrite <- (N.mul_1_r (tc_N t * 256 + tc_W t)) at 1. apply N.mul_le_mono_l. lia.
Qed.

(* the tiles of the tree of size [new] are those of size [old] plus the new ones *)
Theorem needed_step old new t : old <= new ->
  In t (tiles_needed new) -> In t (tiles_needed old) \/ In t (new_tiles old new).
Proof.
  intros Hle. unfold tiles_needed. rewrite !in_new_tiles. unfold lvl.
  intros (L & HL & Hnz & (H1 & H2 & H3)).
  pose proof (shr8_le_mono L old new Hle) as Hmono. rewrite shr8_0 in *.
  destruct (N.eq_dec (shr8 L old) (shr8 L new)) as [E|E].
  - left. exists L. rewrite E, !shr8_0. repeat (split; [assumption|]). exact H3.
  - destruct H3 as [[Hw Hn]|Hp].
    + destruct (N.lt_ge_cases (tc_N t) (shr8 L old / 256)) as [Hlt|Hge].
      * left. exists L. rewrite !shr8_0. split; [assumption|]. split; [lia|]. split; [assumption|].
        split; [lia|]. left. split; [assumption|]. lia.
      * right. exists L. split; [assumption|]. split; [assumption|]. split; [assumption|].
        split; [assumption|]. left. split; [assumption|]. lia.
    + right. exists L. split; [assumption|]. split; [assumption|]. split; [assumption|].
      split; [assumption|]. right. exact Hp.
Qed.

Lemma new_tiles_needed old new t : In t (new_tiles old new) -> In t (tiles_needed new).
Proof.
  unfold tiles_needed. rewrite !in_new_tiles. unfold lvl. intros (L & HL & Hnz & H1 & H2 & H3).
  exists L. rewrite !shr8_0. split; [assumption|]. split; [assumption|]. split; [assumption|].
  split; [lia|]. destruct H3 as [[Hw Hn]|Hp]; [left; split; [assumption|lia]|right; exact Hp].
Qed.

Theorem tiles_needed_within n t : In t (tiles_needed n) ->
  within n t /\ 1 <= tc_W t <= 256 /\ (tc_L t < 9)%nat.
Proof. apply new_tiles_within. Qed.

Lemma tiles_needed_0 : tiles_needed 0 = [].
Proof. reflexivity. Qed.

(* ================= (D) object keys ================= *)

(* the three kinds of tiles under one type *)
Inductive tkey := TH (t : tcoord) | TD (n w : N) | TN (n w : N).

Notation n63 := 9223372036854775808%N.

Definition to_tile (a : tkey) : tile :=
  match a with
  | TH t => mkTile 8 (Z.of_nat (tc_L t)) (Z.of_N (tc_N t)) (Z.of_N (tc_W t))
  | TD n w => mkTile 8 (-1) (Z.of_N n) (Z.of_N w)
  | TN n w => mkTile 8 (-2) (Z.of_N n) (Z.of_N w)
  end.

Definition tpath (a : tkey) : bytes :=
  match a with
  | TH t => hash_tile_path t
  | TD n w => data_tile_path n w
  | TN n w => names_tile_path n w
  end.

(* coordinates in the domain of sunlight.TilePath / ParseTilePath (int64 N, width 1..256) *)
Definition tvalid (a : tkey) : Prop :=
  match a with
  | TH t => 1 <= tc_W t <= 256 /\ tc_N t < n63 /\ (Z.of_nat (tc_L t) < two63)%Z
  | TD n w | TN n w => 1 <= w <= 256 /\ n < n63
  end.

Lemma tpath_to_tile a : tpath a = match tile_path (to_tile a) with Some p => p | None => [] end.
Proof. destruct a; reflexivity. Qed.

Lemma tvalid_tile a : tvalid a -> valid_tile (to_tile a) = true.
Proof.
  unfold valid_tile. destruct a as [t|n w|n w]; cbn [tvalid to_tile t_H t_L t_N t_W]; unfold two63; lia.
Qed.

Lemma to_tile_inj a b : to_tile a = to_tile b -> a = b.
Proof.
  destruct a as [[l n w]|n w|n w], b as [[l' n' w']|n' w'|n' w']; cbn [to_tile tc_L tc_N tc_W];
    intro H; inversion H; try lia; f_equal; try f_equal; lia.
Qed.

Theorem tpath_inj a b : tvalid a -> tvalid b -> tpath a = tpath b -> a = b.
Proof.
  intros Ha Hb. rewrite !tpath_to_tile.
  destruct (path_roundtrip _ (tvalid_tile a Ha)) as (s & Es & Ps).
  destruct (path_roundtrip _ (tvalid_tile b Hb)) as (s' & Es' & Ps').
  rewrite Es, Es'. intro E. subst s'. rewrite Ps in Ps'. apply to_tile_inj. congruence.
Qed.

(* the first byte of a key tells the kind of object *)
Definition kclass (k : bytes) : N := match k with b :: _ => Byte.to_N b | [] => 0 end.

Lemma kclass_tpath a : kclass (tpath a) = 116.
Proof.
  rewrite tpath_to_tile. unfold tile_path.
  destruct a as [t|n w|n w]; cbn [to_tile t_H t_L t_N t_W]; change (negb (8 =? 8)%Z) with false; cbv iota;
    match goal with |- context [if ?b then _ else _] => destruct b end; reflexivity.
Qed.

Lemma kclass_staging n root : kclass (staging_path n root) = 115.
Proof. reflexivity. Qed.
Lemma kclass_issuer fp : kclass (issuer_path fp) = 105.
Proof. reflexivity. Qed.
Lemma kclass_checkpoint : kclass k_checkpoint = 99.
Proof. reflexivity. Qed.
Lemma kclass_roots : kclass k_roots = 95.
Proof. reflexivity. Qed.

(* staging keys *)
Lemma alldig_split a : forall a' b b', alldig a -> alldig a' ->
  a ++ x2d :: b = a' ++ x2d :: b' -> a = a' /\ b = b'.
Proof.
  unfold alldig. induction a as [|c a IH]; intros [|c' a'] b b' Ha Ha' E; cbn [app] in E.
  - inversion E. auto.
  - inversion E; subst. cbn [forallb] in Ha'. apply andb_true_iff in Ha'. destruct Ha' as [X _].
    vm_compute in X. discriminate X.
  - inversion E; subst. cbn [forallb] in Ha. apply andb_true_iff in Ha. destruct Ha as [X _].
    vm_compute in X. discriminate X.
  - inversion E; subst. cbn [forallb] in Ha, Ha'. apply andb_true_iff in Ha, Ha'.
    destruct Ha as [_ Ha], Ha' as [_ Ha']. destruct (IH a' b b' Ha Ha' H1) as [-> ->]. auto.
Qed.

Lemma dec_inj n n' : n < n63 -> n' < n63 -> dec n = dec n' -> n = n'.
Proof.
  intros H H' E. destruct (dec_spec n) as (_ & _ & V); [lia|]. destruct (dec_spec n') as (_ & _ & V'); [lia|].
  rewrite E in V. congruence.
Qed.

Definition hexval (c : byte) : N := let n := Byte.to_N c in if n <? 58 then n - 48 else n - 87.

Lemma unhex_byte b :
  byte_of_N (hexval (hexdigit (Byte.to_N b / 16)) * 16 + hexval (hexdigit (Byte.to_N b mod 16))) = b.
Proof. destruct b; vm_compute; reflexivity. Qed.

Lemma hex_inj a : forall b, hex a = hex b -> a = b.
Proof.
  induction a as [|x a IH]; intros [|y b] E; cbn [hex] in E; try discriminate E; [reflexivity|].
  inversion E as [[E1 E2 E3]]. f_equal; [|auto].
  rewrite <- (unhex_byte x), <- (unhex_byte y), E1, E2. reflexivity.
Qed.

Theorem staging_path_inj n root n' root' : n < n63 -> n' < n63 ->
  staging_path n root = staging_path n' root' -> n = n' /\ root = root'.
Proof.
  intros H H' E. unfold staging_path in E. apply app_inv_head in E.
  destruct (dec_spec n) as (_ & D & _); [lia|]. destruct (dec_spec n') as (_ & D' & _); [lia|].
  destruct (alldig_split _ _ _ _ D D' E) as [E1 E2].
  split; [apply dec_inj; assumption|apply hex_inj; assumption].
Qed.

(* ================= (C) the upload bundle of a round ================= *)
Section C.
Variable sha : bytes -> bytes.
Notation hash_tile_bytes := (hash_tile_bytes sha).
Notation round_uploads := (round_uploads sha).
Notation leaf_hashes := (leaf_hashes sha).

(* canonical contents of a tile, rendered from the leaf sequence ls *)
Definition tcanon (ls : list sleaf) (a : tkey) : bytes :=
  match a with
  | TH t => hash_tile_bytes ls t
  | TD n w => data_tile_bytes (slice ls (n * 256) w)
  | TN n w => names_tile_bytes (slice ls (n * 256) w)
  end.

Definition topt (a : tkey) : uopt := match a with TH _ => UHash | TD _ _ => UData | TN _ _ => UNames end.

Definition tup (ls : list sleaf) (a : tkey) : upload := mkUp (tpath a) (topt a) (tcanon ls a).

Definition twithin (len : N) (a : tkey) : Prop :=
  match a with TH t => within len t | TD n w | TN n w => n * 256 + w <= len end.

(* the tiles of a tree of [len] leaves *)
Definition tneeded (len : N) (a : tkey) : Prop :=
  match a with
  | TH t => In t (tiles_needed len)
  | TD n w | TN n w => n * 256 < len /\ w = N.min 256 (len - n * 256)
  end.

(* the tiles written when the tree grows from [old] to [new] leaves *)
Definition tnew (old new : N) (a : tkey) : Prop :=
  match a with
  | TH t => In t (new_tiles old new)
  | TD n w | TN n w => old / 256 <= n /\ n * 256 < new /\ w = N.min 256 (new - n * 256)
  end.

Lemma topt_immutable a : immutable (topt a) = true.
Proof. destruct a; reflexivity. Qed.

Lemma entry_tile_uploads_spec fuel : forall all j new u,
  In u (entry_tile_uploads fuel all j new) <->
  exists j', j <= j' < j + N.of_nat fuel /\ j' * 256 < new /\
    (u = tup all (TD j' (N.min 256 (new - j' * 256))) \/ u = tup all (TN j' (N.min 256 (new - j' * 256)))).
Proof.
  induction fuel as [|fuel IH]; intros all j new u.
  - cbn [entry_tile_uploads In]. split; [intros []|intros (j' & H & _); lia].
  - cbn [entry_tile_uploads]. destruct (N.ltb_spec (j * 256) new) as [Hlt|Hge].
    + cbv zeta. cbn [In]. rewrite IH. split.
      * intros [E|[E|(j' & Hr & Hl & Hu)]].
        -- exists j. split; [lia|]. split; [assumption|]. left. symmetry. exact E.
        -- exists j. split; [lia|]. split; [assumption|]. right. symmetry. exact E.
        -- exists j'. split; [lia|]. split; assumption.
      * intros (j' & Hr & Hl & Hu). destruct (N.eq_dec j' j) as [->|Hne].
        -- destruct Hu as [Hu|Hu]; [left|right; left]; symmetry; exact Hu.
        -- right. right. exists j'. split; [lia|]. split; assumption.
    + cbn [In]. split; [intros []|intros (j' & Hr & Hl & _); lia].
Qed.

Theorem round_uploads_spec all old new u : old <= new ->
  (In u (round_uploads all old new) <-> old <> new /\ exists a, tnew old new a /\ u = tup all a).
Proof.
  intro Hle. unfold Model.round_uploads. destruct (N.eqb_spec old new) as [E|E].
  - cbn [In]. split; [intros []|intros [H _]; contradiction].
  - rewrite in_app_iff, entry_tile_uploads_spec, in_map_iff. split.
    + intros [(j' & Hr & Hl & Hu)|(t & Et & Ht)]; (split; [assumption|]).
      * destruct Hu as [Hu|Hu]; [exists (TD j' (N.min 256 (new - j' * 256)))|exists (TN j' (N.min 256 (new - j' * 256)))];
          (split; [cbn [tnew]; lia|exact Hu]).
      * exists (TH t). split; [exact Ht|]. symmetry. exact Et.
    + intros (_ & a & Hn & Eu). destruct a as [t|n w|n w]; cbn [tnew] in Hn.
      * right. exists t. split; [symmetry; exact Eu|exact Hn].
      * left. exists n. destruct Hn as (H1 & H2 & H3). subst w. split; [lia|]. split; [assumption|]. left. exact Eu.
      * left. exists n. destruct Hn as (H1 & H2 & H3). subst w. split; [lia|]. split; [assumption|]. right. exact Eu.
Qed.

Lemma round_uploads_nil all old new : old <= new -> round_uploads all old new = [] -> old = new.
Proof.
  intros Hle E. destruct (N.eq_dec old new) as [|Hne]; [assumption|exfalso].
  assert (H : In (tup all (TD (old / 256) (N.min 256 (new - old / 256 * 256)))) (round_uploads all old new)).
  { apply round_uploads_spec; [assumption|]. split; [assumption|].
    eexists. split; [|reflexivity]. cbn [tnew]. lia. }
  rewrite E in H. destruct H.
Qed.

Lemma tnew_within old new a : tnew old new a -> twithin new a.
Proof.
  destruct a as [t|n w|n w]; cbn [tnew twithin].
  - intro H. apply new_tiles_within in H. tauto.
  - lia.
  - lia.
Qed.

Lemma tnew_valid old new a : new < n63 -> tnew old new a -> tvalid a.
Proof.
  intro Hs. destruct a as [t|n w|n w]; cbn [tnew tvalid]; unfold two63.
  - intro H. apply new_tiles_within in H. destruct H as (Hw & HW & HL).
    apply within_N_bound in Hw. lia.
  - lia.
  - lia.
Qed.

Lemma tneeded_within len a : tneeded len a -> twithin len a.
Proof.
  destruct a as [t|n w|n w]; cbn [tneeded twithin].
  - intro H. apply tiles_needed_within in H. tauto.
  - lia.
  - lia.
Qed.

Lemma tneeded_valid len a : len < n63 -> tneeded len a -> tvalid a.
Proof.
  intro Hs. destruct a as [t|n w|n w]; cbn [tneeded tvalid]; unfold two63.
  - intro H. apply tiles_needed_within in H. destruct H as (Hw & HW & HL).
    apply within_N_bound in Hw. lia.
  - lia.
  - lia.
Qed.

Theorem tneeded_step old new a : old <= new ->
  tneeded new a -> tneeded old a \/ (old <> new /\ tnew old new a).
Proof.
  intro Hle. destruct (N.eq_dec old new) as [->|Hne]; [auto|].
  destruct a as [t|n w|n w]; cbn [tneeded tnew].
  - intro H. destruct (needed_step old new t Hle H); auto.
  - intros [H1 H2]. destruct (N.lt_ge_cases n (old / 256)); [left|right]; lia.
  - intros [H1 H2]. destruct (N.lt_ge_cases n (old / 256)); [left|right]; lia.
Qed.

Lemma tnew_needed old new a : tnew old new a -> tneeded new a.
Proof.
  destruct a as [t|n w|n w]; cbn [tnew tneeded]; [apply new_tiles_needed|lia|lia].
Qed.

Lemma tneeded_0 a : ~ tneeded 0 a.
Proof. destruct a as [t|n w|n w]; cbn [tneeded]; [rewrite tiles_needed_0; intros []|lia|lia]. Qed.

Lemma slice_app_stable {A} (l e : list A) from cnt :
  from + cnt <= N.of_nat (length l) -> slice (l ++ e) from cnt = slice l from cnt.
Proof.
  intro H. unfold slice. rewrite skipn_app.
  replace (N.to_nat from - length l)%nat with 0%nat by lia. cbn [skipn].
  rewrite firstn_app, skipn_length.
  replace (N.to_nat cnt - (length l - N.to_nat from))%nat with 0%nat by lia. cbn [firstn]. apply app_nil_r.
Qed.

(* (A) for all three kinds of tiles *)
Theorem tcanon_stable ls e a : twithin (N.of_nat (length ls)) a -> tcanon (ls ++ e) a = tcanon ls a.
Proof.
  destruct a as [t|n w|n w]; cbn [twithin tcanon]; intro H.
  - unfold Model.hash_tile_bytes, Model.leaf_hashes. rewrite map_app. f_equal.
    apply tile_hashes_stable. rewrite map_length. apply within_nat. exact H.
  - rewrite slice_app_stable by lia. reflexivity.
  - rewrite slice_app_stable by lia. reflexivity.
Qed.

End C.

Print Assumptions needed_step.
Print Assumptions tneeded_step.
Print Assumptions tcanon_stable.
Print Assumptions round_uploads_spec.
Print Assumptions tpath_inj.
Print Assumptions staging_path_inj.
