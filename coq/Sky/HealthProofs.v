(* Sky/HealthProofs.v — proofs about the /health decision model (C20) *)
From SL Require Import Base.Bytes Base.BytesProofs Sky.Health.
From Coq Require Import ZifyN ZifyNat ZifyBool.
Open Scope Z_scope.

(* ---------------- what "fresh, valid, consistent" means, stated directly ---------------- *)

Definition log_good (l : log_state) (now : Z) : Prop :=
  l_json_read l = true /\ l_json_parse l = true /\ l_key_ok l = true /\ l_verifier_ok l = true /\
  l_ckpt_read l = true /\ l_verifies l = true /\ l_ckpt_parse l = true /\
  l_origin l = l_name l /\ l_ts_ok l = true /\ l_limit_ok l = true /\
  ((now - l_limit l <= week_3s /\ now - l_ts l <= fresh_ms)
   \/ (now - l_limit l > week_3s /\ l_final_present l = true /\ l_final_hash l = l_hash l /\
       l_final_size l = l_size l /\ l_final_ts l = l_ts l)).

Definition dir_good (w : wit_state) (d : wdir) : Prop :=
  d_ckpt_read d = true /\ d_verifies d = true /\ d_parse d = true /\ d_origin_hash d = d_name d /\
  (w_mirror w = true ->
     d_edge_ok d = true /\ d_pend_read d = true /\ d_pend_verifies d = true /\ d_pend_parse d = true /\
     d_pend_origin d = d_origin d /\ d_size d <= d_pend_size d).

Definition wit_good (w : wit_state) : Prop :=
  w_keys w = VOk /\ (w_mirror w = true -> w_pend_keys w = VOk) /\ w_enum_ok w = true /\
  forall d, In d (w_dirs w) -> d_isdir d = true -> is_origin_hash (d_name d) = true -> dir_good w d.

Ltac beq :=
  repeat match goal with
  | H : negb _ = false |- _ => apply negb_false_iff in H
  | H : negb _ = true |- _ => apply negb_true_iff in H
  | H : bytes_eqb _ _ = true |- _ => apply bytes_eqb_eq in H
  end.

(* ---------------- checkLog ---------------- *)

Lemma check_log_ok_or_sunset l now :
  (check_log l now = LOk \/ check_log l now = LSunset) <-> log_good l now.
Proof.
  unfold check_log, log_good, sunset, fresh. split.
  - intro H.
    destruct (l_json_read l); cbn [negb] in *; [|destruct H; discriminate].
    destruct (l_json_parse l); cbn [negb] in *; [|destruct H; discriminate].
    destruct (l_key_ok l); cbn [negb] in *; [|destruct H; discriminate].
    destruct (l_verifier_ok l); cbn [negb] in *; [|destruct H; discriminate].
    destruct (l_ckpt_read l); cbn [negb] in *; [|destruct H; discriminate].
    destruct (l_verifies l); cbn [negb] in *; [|destruct H; discriminate].
    destruct (l_ckpt_parse l); cbn [negb] in *; [|destruct H; discriminate].
    destruct (bytes_eqb (l_origin l) (l_name l)) eqn:Eo; cbn [negb] in *; [|destruct H; discriminate].
    destruct (l_ts_ok l); cbn [negb] in *; [|destruct H; discriminate].
    destruct (l_limit_ok l); cbn [negb] in *; [|destruct H; discriminate].
    apply bytes_eqb_eq in Eo.
    repeat (split; [reflexivity || assumption|]).
    destruct (now - l_limit l >? week_3s) eqn:Es.
    + right.
      destruct (l_final_present l); cbn [negb] in *; [|destruct H; discriminate].
      destruct (bytes_eqb (l_final_hash l) (l_hash l)) eqn:Eh; cbn [negb] in *; [|destruct H; discriminate].
      destruct (l_final_size l =? l_size l) eqn:Ez; cbn [negb] in *; [|destruct H; discriminate].
      destruct (l_final_ts l =? l_ts l) eqn:Et; cbn [negb] in *; [|destruct H; discriminate].
      apply bytes_eqb_eq in Eh. repeat split; try assumption; lia.
    + left. destruct (now - l_ts l <=? fresh_ms) eqn:Ef; cbn [negb] in *; [|destruct H; discriminate]. lia.
  - intros (A1 & A2 & A3 & A4 & A5 & A6 & A7 & A8 & A9 & A10 & B).
    rewrite A1, A2, A3, A4, A5, A6, A7, A9, A10, A8, bytes_eqb_refl. cbn [negb].
    destruct B as [[B1 B2]|(B1 & B2 & B3 & B4 & B5)].
    + replace (now - l_limit l >? week_3s) with false by lia.
      replace (now - l_ts l <=? fresh_ms) with true by lia. now left.
    + replace (now - l_limit l >? week_3s) with true by lia.
      rewrite B2, B3, B4, B5, bytes_eqb_refl, !Z.eqb_refl. now right.
Qed.

(* the conditions in the order of the code: (error reported, does the condition hold?) *)
Definition log_conds (l : log_state) (now : Z) : list (lerr * bool) :=
  [(EReadJSON, l_json_read l); (EParseJSON, l_json_parse l); (EParseKey, l_key_ok l);
   (EVerifier, l_verifier_ok l); (EReadCkpt, l_ckpt_read l); (EVerifyNote, l_verifies l);
   (EParseCkpt, l_ckpt_parse l); (EOrigin, bytes_eqb (l_origin l) (l_name l));
   (ESigTs, l_ts_ok l); (ELimit, l_limit_ok l)]
  ++ (if sunset l now
      then [(ENoFinal, l_final_present l); (EFinalHash, bytes_eqb (l_final_hash l) (l_hash l));
            (EFinalSize, l_final_size l =? l_size l); (EFinalTs, l_final_ts l =? l_ts l)]
      else [(ETooOld, fresh l now)]).

Definition first_failing (cs : list (lerr * bool)) : option lerr :=
  match find (fun c => negb (snd c)) cs with Some c => Some (fst c) | None => None end.

Lemma check_log_first l now :
  check_log l now =
  match first_failing (log_conds l now) with
  | Some e => LErr e
  | None => if sunset l now then LSunset else LOk
  end.
Proof.
  unfold check_log, log_conds, first_failing.
  destruct (l_json_read l); [|reflexivity].
  destruct (l_json_parse l); [|reflexivity].
  destruct (l_key_ok l); [|reflexivity].
  destruct (l_verifier_ok l); [|reflexivity].
  destruct (l_ckpt_read l); [|reflexivity].
  destruct (l_verifies l); [|reflexivity].
  destruct (l_ckpt_parse l); [|reflexivity].
  destruct (bytes_eqb (l_origin l) (l_name l)); [|reflexivity].
  destruct (l_ts_ok l); [|reflexivity].
  destruct (l_limit_ok l); [|reflexivity].
  destruct (sunset l now).
  - destruct (l_final_present l); [|reflexivity].
    destruct (bytes_eqb (l_final_hash l) (l_hash l)); [|reflexivity].
    destruct (l_final_size l =? l_size l); [|reflexivity].
    destruct (l_final_ts l =? l_ts l); reflexivity.
  - destruct (fresh l now); reflexivity.
Qed.

Lemma lerr_dec (a b : lerr) : {a = b} + {a <> b}.
Proof. decide equality. Qed.

Lemma first_failing_single (cs : list (lerr * bool)) e :
  NoDup (map fst cs) -> In (e, false) cs ->
  (forall e' b, In (e', b) cs -> e' <> e -> b = true) ->
  first_failing cs = Some e.
Proof.
  unfold first_failing. induction cs as [|[e0 b0] cs IH]; intros Hnd Hin Hoth; [contradiction|].
  cbn [find snd fst].
  destruct (lerr_dec e0 e) as [->|Hne].
  - destruct b0; cbn [negb]; [|reflexivity].
    destruct Hin as [Hin|Hin]; [congruence|].
    inversion Hnd as [|? ? Hni _]; subst. exfalso. apply Hni.
    change e with (fst (e, false)). now apply in_map.
  - rewrite (Hoth e0 b0 (or_introl eq_refl) Hne). cbn [negb].
    destruct Hin as [Hin|Hin]; [congruence|].
    inversion Hnd; subst. apply IH; auto. intros; eapply Hoth; eauto. now right.
Qed.

Lemma log_conds_nodup l now : NoDup (map fst (log_conds l now)).
Proof.
  unfold log_conds. destruct (sunset l now); cbn [map app fst];
  repeat (constructor; [cbn [In]; intuition discriminate|]); constructor.
Qed.

(* every condition is load bearing: if exactly that one fails, the log check reports it *)
Lemma check_log_single l now e :
  In (e, false) (log_conds l now) ->
  (forall e' b, In (e', b) (log_conds l now) -> e' <> e -> b = true) ->
  check_log l now = LErr e.
Proof.
  intros Hin Hoth. rewrite check_log_first.
  now rewrite (first_failing_single _ e (log_conds_nodup l now) Hin Hoth).
Qed.

(* ---------------- the aggregation ---------------- *)

Lemma existsb_app {A} (f : A -> bool) a b : existsb f (a ++ b) = existsb f a || existsb f b.
Proof. apply existsb_app. Qed.

Lemma health_status logs wits now :
  fst (health logs wits now) = 200%N \/ fst (health logs wits now) = 500%N.
Proof. unfold health. cbn [fst]. destruct (existsb _ _); auto. Qed.

Lemma health_green_iff logs wits now :
  fst (health logs wits now) = 200%N <-> forall x, In x (all_lines logs wits now) -> fst x = false.
Proof.
  unfold health. cbn [fst]. destruct (existsb fst (all_lines logs wits now)) eqn:E.
  - split; [discriminate|]. intro H. apply existsb_exists in E. destruct E as (x & Hx & Hf).
    rewrite (H x Hx) in Hf. discriminate.
  - split; [|reflexivity]. intros _ x Hx. destruct (fst x) eqn:Ef; [|reflexivity].
    assert (existsb fst (all_lines logs wits now) = true) by (apply existsb_exists; eauto). congruence.
Qed.

Lemma health_red_line logs wits now x :
  In x (all_lines logs wits now) -> fst x = true ->
  fst (health logs wits now) = 500%N /\ In (snd x) (snd (health logs wits now)).
Proof.
  intros Hin Hf. unfold health. cbn [fst snd]. split.
  - replace (existsb fst (all_lines logs wits now)) with true; [reflexivity|].
    symmetry. apply existsb_exists. eauto.
  - now apply in_map.
Qed.

Lemma log_line_in logs wits now l :
  In l logs -> In (log_line l now) (all_lines logs wits now).
Proof. intro H. unfold all_lines. apply in_or_app. left. exact (in_map (fun l => log_line l now) _ _ H). Qed.

Lemma wit_line_in logs wits now w x :
  In w wits -> In x (wit_lines w) -> In x (all_lines logs wits now).
Proof. intros H1 H2. unfold all_lines. apply in_or_app. right. apply in_flat_map. eauto. Qed.

(* a failing non-staging log turns the answer into a 500 that names it *)
Lemma health_log_failure logs wits now l e :
  In l logs -> l_staging l = false -> check_log l now = LErr e ->
  fst (health logs wits now) = 500%N /\
  In (l_short l ++ sep ++ lerr_text e) (snd (health logs wits now)).
Proof.
  intros Hin Hs He.
  assert (Hl : log_line l now = (true, l_short l ++ sep ++ lerr_text e))
    by (unfold log_line; now rewrite He, Hs).
  pose proof (health_red_line logs wits now _ (log_line_in logs wits now l Hin)) as H.
  rewrite Hl in H. now apply H.
Qed.

(* ---------------- witnesses ---------------- *)

Lemma check_dir_ok_iff w d : snd (check_dir w d) = None <-> dir_good w d.
Proof.
  unfold check_dir, dir_good. split.
  - intro H.
    destruct (d_ckpt_read d); cbn [negb] in *; [|discriminate].
    destruct (d_verifies d); cbn [negb] in *; [|discriminate].
    destruct (d_parse d); cbn [negb] in *; [|discriminate].
    destruct (bytes_eqb (d_origin_hash d) (d_name d)) eqn:Eh; cbn [negb] in *; [|discriminate].
    apply bytes_eqb_eq in Eh. repeat (split; [reflexivity || assumption|]).
    intro Hm. rewrite Hm in H. cbn [negb] in H.
    destruct (d_edge_ok d); cbn [negb] in *; [|discriminate].
    destruct (d_pend_read d); cbn [negb] in *; [|discriminate].
    destruct (d_pend_verifies d); cbn [negb] in *; [|discriminate].
    destruct (d_pend_parse d); cbn [negb] in *; [|discriminate].
    destruct (bytes_eqb (d_pend_origin d) (d_origin d)) eqn:Eo; cbn [negb] in *; [|discriminate].
    destruct (d_size d >? d_pend_size d) eqn:Ea; cbn [snd] in *; [discriminate|].
    apply bytes_eqb_eq in Eo. repeat split; try assumption; lia.
  - intros (A1 & A2 & A3 & A4 & B). rewrite A1, A2, A3, A4, bytes_eqb_refl. cbn [negb].
    destruct (w_mirror w); cbn [negb]; [|reflexivity].
    destruct (B eq_refl) as (B1 & B2 & B3 & B4 & B5 & B6).
    rewrite B1, B2, B3, B4, B5, bytes_eqb_refl. cbn [negb].
    replace (d_size d >? d_pend_size d) with false by lia. reflexivity.
Qed.

Lemma wit_green_good w :
  w_staging w = false -> (forall x, In x (wit_lines w) -> fst x = false) -> wit_good w.
Proof.
  intros Hs H. unfold wit_lines in H. unfold wit_good.
  assert (Herr : forall lbl e, fst (err_line w lbl e) = true)
    by (intros; unfold err_line; now rewrite Hs).
  destruct (load_verifiers w) as [e|] eqn:El.
  { specialize (H _ (or_introl eq_refl)). now rewrite Herr in H. }
  unfold load_verifiers in El.
  destruct (w_keys w) eqn:Ek; try discriminate.
  assert (Hp : w_mirror w = true -> w_pend_keys w = VOk).
  { intro Hm. rewrite Hm in El. destruct (w_pend_keys w); congruence. }
  destruct (w_enum_ok w) eqn:Ee; cbn [negb] in H.
  2:{ specialize (H _ (or_introl eq_refl)). now rewrite Herr in H. }
  split; [reflexivity|]. split; [exact Hp|]. split; [reflexivity|].
  intros d Hd Hdir Hh. apply check_dir_ok_iff.
  assert (Hin : In d (hashes w)) by (unfold hashes; apply filter_In; now rewrite Hdir, Hh).
  specialize (H _ (in_map (dir_line w) _ _ Hin)).
  unfold dir_line in H. destruct (snd (check_dir w d)); [now rewrite Herr in H|reflexivity].
Qed.

(* a non-staging witness / mirror whose metadata is unusable: 500, the line names the kind *)
Lemma health_wit_meta_failure logs wits now w e :
  In w wits -> w_staging w = false ->
  (load_verifiers w = Some e \/ (load_verifiers w = None /\ w_enum_ok w = false /\ e = WEnum)) ->
  fst (health logs wits now) = 500%N /\
  In (kind_of w ++ sep ++ werr_text e) (snd (health logs wits now)).
Proof.
  intros Hin Hs He.
  assert (Hl : In (true, kind_of w ++ sep ++ werr_text e) (wit_lines w)).
  { unfold wit_lines, err_line. destruct He as [He|(He & Hn & ->)]; rewrite He.
    - rewrite Hs. now left.
    - rewrite Hn. cbn [negb]. rewrite Hs. now left. }
  pose proof (health_red_line logs wits now _ (wit_line_in logs wits now w _ Hin Hl) eq_refl) as H.
  exact H.
Qed.

(* a non-staging witness / mirror with usable metadata and one bad log directory *)
Lemma health_dir_failure logs wits now w d e :
  In w wits -> w_staging w = false -> load_verifiers w = None -> w_enum_ok w = true ->
  In d (w_dirs w) -> d_isdir d = true -> is_origin_hash (d_name d) = true ->
  snd (check_dir w d) = Some e ->
  fst (health logs wits now) = 500%N /\
  In (dir_label w d ++ sep ++ werr_text e) (snd (health logs wits now)).
Proof.
  intros Hin Hs Hl He Hd Hdir Hh Hc.
  assert (Hx : In (true, dir_label w d ++ sep ++ werr_text e) (wit_lines w)).
  { unfold wit_lines. rewrite Hl, He. cbn [negb].
    replace (true, dir_label w d ++ sep ++ werr_text e) with (dir_line w d)
      by (unfold dir_line, err_line; now rewrite Hc, Hs).
    apply in_map. unfold hashes. apply filter_In. now rewrite Hdir, Hh. }
  exact (health_red_line logs wits now _ (wit_line_in logs wits now w _ Hin Hx) eq_refl).
Qed.

(* the conditions of check in code order *)
Definition dir_conds (w : wit_state) (d : wdir) : list (werr * bool) :=
  [(WReadCkpt, d_ckpt_read d); (WVerify, d_verifies d); (WParse, d_parse d);
   (WOriginHash, bytes_eqb (d_origin_hash d) (d_name d))]
  ++ (if w_mirror w
      then [(WEdge, d_edge_ok d); (WReadPend, d_pend_read d); (WVerifyPend, d_pend_verifies d);
            (WParsePend, d_pend_parse d); (WPendOrigin, bytes_eqb (d_pend_origin d) (d_origin d));
            (WAhead, negb (d_size d >? d_pend_size d))]
      else []).

Definition first_failing_w (cs : list (werr * bool)) : option werr :=
  match find (fun c => negb (snd c)) cs with Some c => Some (fst c) | None => None end.

Lemma check_dir_first w d : snd (check_dir w d) = first_failing_w (dir_conds w d).
Proof.
  unfold check_dir, dir_conds, first_failing_w.
  destruct (d_ckpt_read d); [|reflexivity].
  destruct (d_verifies d); [|reflexivity].
  destruct (d_parse d); [|reflexivity].
  destruct (bytes_eqb (d_origin_hash d) (d_name d)); [|reflexivity].
  destruct (w_mirror w); [|reflexivity].
  destruct (d_edge_ok d); [|reflexivity].
  destruct (d_pend_read d); [|reflexivity].
  destruct (d_pend_verifies d); [|reflexivity].
  destruct (d_pend_parse d); [|reflexivity].
  destruct (bytes_eqb (d_pend_origin d) (d_origin d)); [|reflexivity].
  destruct (d_size d >? d_pend_size d); reflexivity.
Qed.

Lemma werr_dec (a b : werr) : {a = b} + {a <> b}.
Proof. repeat decide equality. Qed.

Lemma first_failing_w_single (cs : list (werr * bool)) e :
  NoDup (map fst cs) -> In (e, false) cs ->
  (forall e' b, In (e', b) cs -> e' <> e -> b = true) ->
  first_failing_w cs = Some e.
Proof.
  unfold first_failing_w. induction cs as [|[e0 b0] cs IH]; intros Hnd Hin Hoth; [contradiction|].
  cbn [find snd fst].
  destruct (werr_dec e0 e) as [->|Hne].
  - destruct b0; cbn [negb]; [|reflexivity].
    destruct Hin as [Hin|Hin]; [congruence|].
    inversion Hnd as [|? ? Hni _]; subst. exfalso. apply Hni.
    change e with (fst (e, false)). now apply in_map.
  - rewrite (Hoth e0 b0 (or_introl eq_refl) Hne). cbn [negb].
    destruct Hin as [Hin|Hin]; [congruence|].
    inversion Hnd; subst. apply IH; auto. intros; eapply Hoth; eauto. now right.
Qed.

Lemma dir_conds_nodup w d : NoDup (map fst (dir_conds w d)).
Proof.
  unfold dir_conds. destruct (w_mirror w); cbn [map app fst];
  repeat (constructor; [cbn [In]; intuition discriminate|]); constructor.
Qed.

Lemma check_dir_single w d e :
  In (e, false) (dir_conds w d) ->
  (forall e' b, In (e', b) (dir_conds w d) -> e' <> e -> b = true) ->
  snd (check_dir w d) = Some e.
Proof.
  intros Hin Hoth. rewrite check_dir_first.
  exact (first_failing_w_single _ e (dir_conds_nodup w d) Hin Hoth).
Qed.

(* ---------------- C20_green ---------------- *)

Theorem c20_green logs wits now :
  fst (health logs wits now) = 200%N ->
  (forall l, In l logs -> l_staging l = false -> log_good l now) /\
  (forall w, In w wits -> w_staging w = false -> wit_good w).
Proof.
  intro H0. pose proof (proj1 (health_green_iff logs wits now) H0) as H. split.
  - intros l Hl Hs. apply check_log_ok_or_sunset.
    specialize (H _ (log_line_in logs wits now l Hl)).
    unfold log_line in H. rewrite Hs in H.
    destruct (check_log l now); [now left|now right|discriminate].
  - intros w Hw Hs. apply wit_green_good; [assumption|].
    intros x Hx. exact (H x (wit_line_in logs wits now w x Hw Hx)).
Qed.

(* ---------------- C20_single, logs: one statement for every condition ---------------- *)

Theorem c20_single_log logs wits now l e :
  In l logs -> l_staging l = false ->
  In (e, false) (log_conds l now) ->
  (forall e' b, In (e', b) (log_conds l now) -> e' <> e -> b = true) ->
  fst (health logs wits now) = 500%N /\
  In (l_short l ++ sep ++ lerr_text e) (snd (health logs wits now)).
Proof.
  intros Hin Hs Hc Hoth. eapply health_log_failure; eauto using check_log_single.
Qed.

Theorem c20_single_dir logs wits now w d e :
  In w wits -> w_staging w = false -> load_verifiers w = None -> w_enum_ok w = true ->
  In d (w_dirs w) -> d_isdir d = true -> is_origin_hash (d_name d) = true ->
  In (e, false) (dir_conds w d) ->
  (forall e' b, In (e', b) (dir_conds w d) -> e' <> e -> b = true) ->
  fst (health logs wits now) = 500%N /\
  In (dir_label w d ++ sep ++ werr_text e) (snd (health logs wits now)).
Proof.
  intros. eapply health_dir_failure; eauto using check_dir_single.
Qed.

(* staging entries never turn the answer red *)
Lemma staging_log_line l now : l_staging l = true -> fst (log_line l now) = false.
Proof. intro H. unfold log_line. rewrite H. destruct (check_log l now); reflexivity. Qed.

Lemma staging_wit_lines w x : w_staging w = true -> In x (wit_lines w) -> fst x = false.
Proof.
  intros Hs. unfold wit_lines.
  assert (Herr : forall lbl e, fst (err_line w lbl e) = false) by (intros; unfold err_line; now rewrite Hs).
  destruct (load_verifiers w); [intros [<-|[]]; apply Herr|].
  destruct (w_enum_ok w); cbn [negb]; [|intros [<-|[]]; apply Herr].
  intro H. apply in_map_iff in H. destruct H as (d & <- & _).
  unfold dir_line. destruct (snd (check_dir w d)); [apply Herr|reflexivity].
Qed.

Theorem c20_staging_ignored logs wits now :
  (forall l, In l logs -> l_staging l = true) -> (forall w, In w wits -> w_staging w = true) ->
  fst (health logs wits now) = 200%N.
Proof.
  intros Hl Hw. apply health_green_iff. intros x Hx. unfold all_lines in Hx.
  apply in_app_or in Hx. destruct Hx as [Hx|Hx].
  - apply in_map_iff in Hx. destruct Hx as (l & <- & Hin). apply staging_log_line; auto.
  - apply in_flat_map in Hx. destruct Hx as (w & Hin & Hx). eapply staging_wit_lines; eauto.
Qed.

(* ---------------- C20_single, one lemma per condition ---------------- *)

Lemma bytes_eqb_neq a b : a <> b -> bytes_eqb a b = false.
Proof. intro H. destruct (bytes_eqb a b) eqn:E; [|reflexivity]. apply bytes_eqb_eq in E. contradiction. Qed.

(* the time-dependent part of log_good *)
Definition time_ok (l : log_state) (now : Z) : Prop :=
  (now - l_limit l <= week_3s /\ now - l_ts l <= fresh_ms)
  \/ (now - l_limit l > week_3s /\ l_final_present l = true /\ l_final_hash l = l_hash l /\
      l_final_size l = l_size l /\ l_final_ts l = l_ts l).

Ltac use_hyps :=
  repeat match goal with
  | H : _ = true |- _ => rewrite H
  | H : _ = false |- _ => rewrite H
  | H : l_origin _ = l_name _ |- _ => rewrite H
  | H : l_final_hash _ = l_hash _ |- _ => rewrite H
  | H : l_final_size _ = l_size _ |- _ => rewrite H
  | H : l_final_ts _ = l_ts _ |- _ => rewrite H
  | H : l_origin _ <> l_name _ |- _ => rewrite (bytes_eqb_neq _ _ H)
  | H : l_final_hash _ <> l_hash _ |- _ => rewrite (bytes_eqb_neq _ _ H)
  end; rewrite ?bytes_eqb_refl, ?Z.eqb_refl; cbn [negb].

Ltac single_log :=
  intros; eapply health_log_failure; [eassumption|assumption|];
  unfold check_log, sunset, fresh; use_hyps; try reflexivity.

Lemma single_missing_json logs wits now l :
  In l logs -> l_staging l = false ->
  l_json_parse l = true -> l_key_ok l = true -> l_verifier_ok l = true -> l_ckpt_read l = true -> l_verifies l = true -> l_ckpt_parse l = true -> l_origin l = l_name l -> l_ts_ok l = true -> l_limit_ok l = true ->
  time_ok l now ->
  l_json_read l = false ->
  fst (health logs wits now) = 500%N /\ In (l_short l ++ sep ++ lerr_text EReadJSON) (snd (health logs wits now)).
Proof. single_log. Qed.

Lemma single_unparsable_json logs wits now l :
  In l logs -> l_staging l = false ->
  l_json_read l = true -> l_key_ok l = true -> l_verifier_ok l = true -> l_ckpt_read l = true -> l_verifies l = true -> l_ckpt_parse l = true -> l_origin l = l_name l -> l_ts_ok l = true -> l_limit_ok l = true ->
  time_ok l now ->
  l_json_parse l = false ->
  fst (health logs wits now) = 500%N /\ In (l_short l ++ sep ++ lerr_text EParseJSON) (snd (health logs wits now)).
Proof. single_log. Qed.

Lemma single_bad_key logs wits now l :
  In l logs -> l_staging l = false ->
  l_json_read l = true -> l_json_parse l = true -> l_verifier_ok l = true -> l_ckpt_read l = true -> l_verifies l = true -> l_ckpt_parse l = true -> l_origin l = l_name l -> l_ts_ok l = true -> l_limit_ok l = true ->
  time_ok l now ->
  l_key_ok l = false ->
  fst (health logs wits now) = 500%N /\ In (l_short l ++ sep ++ lerr_text EParseKey) (snd (health logs wits now)).
Proof. single_log. Qed.

Lemma single_no_verifier logs wits now l :
  In l logs -> l_staging l = false ->
  l_json_read l = true -> l_json_parse l = true -> l_key_ok l = true -> l_ckpt_read l = true -> l_verifies l = true -> l_ckpt_parse l = true -> l_origin l = l_name l -> l_ts_ok l = true -> l_limit_ok l = true ->
  time_ok l now ->
  l_verifier_ok l = false ->
  fst (health logs wits now) = 500%N /\ In (l_short l ++ sep ++ lerr_text EVerifier) (snd (health logs wits now)).
Proof. single_log. Qed.

Lemma single_missing_checkpoint logs wits now l :
  In l logs -> l_staging l = false ->
  l_json_read l = true -> l_json_parse l = true -> l_key_ok l = true -> l_verifier_ok l = true -> l_verifies l = true -> l_ckpt_parse l = true -> l_origin l = l_name l -> l_ts_ok l = true -> l_limit_ok l = true ->
  time_ok l now ->
  l_ckpt_read l = false ->
  fst (health logs wits now) = 500%N /\ In (l_short l ++ sep ++ lerr_text EReadCkpt) (snd (health logs wits now)).
Proof. single_log. Qed.

Lemma single_resigned logs wits now l :
  In l logs -> l_staging l = false ->
  l_json_read l = true -> l_json_parse l = true -> l_key_ok l = true -> l_verifier_ok l = true -> l_ckpt_read l = true -> l_ckpt_parse l = true -> l_origin l = l_name l -> l_ts_ok l = true -> l_limit_ok l = true ->
  time_ok l now ->
  l_verifies l = false ->
  fst (health logs wits now) = 500%N /\ In (l_short l ++ sep ++ lerr_text EVerifyNote) (snd (health logs wits now)).
Proof. single_log. Qed.

Lemma single_truncated logs wits now l :
  In l logs -> l_staging l = false ->
  l_json_read l = true -> l_json_parse l = true -> l_key_ok l = true -> l_verifier_ok l = true -> l_ckpt_read l = true -> l_verifies l = true -> l_origin l = l_name l -> l_ts_ok l = true -> l_limit_ok l = true ->
  time_ok l now ->
  l_ckpt_parse l = false ->
  fst (health logs wits now) = 500%N /\ In (l_short l ++ sep ++ lerr_text EParseCkpt) (snd (health logs wits now)).
Proof. single_log. Qed.

Lemma single_renamed logs wits now l :
  In l logs -> l_staging l = false ->
  l_json_read l = true -> l_json_parse l = true -> l_key_ok l = true -> l_verifier_ok l = true -> l_ckpt_read l = true -> l_verifies l = true -> l_ckpt_parse l = true -> l_ts_ok l = true -> l_limit_ok l = true ->
  time_ok l now ->
  l_origin l <> l_name l ->
  fst (health logs wits now) = 500%N /\ In (l_short l ++ sep ++ lerr_text EOrigin) (snd (health logs wits now)).
Proof. single_log. Qed.

Lemma single_bad_signature_timestamp logs wits now l :
  In l logs -> l_staging l = false ->
  l_json_read l = true -> l_json_parse l = true -> l_key_ok l = true -> l_verifier_ok l = true -> l_ckpt_read l = true -> l_verifies l = true -> l_ckpt_parse l = true -> l_origin l = l_name l -> l_limit_ok l = true ->
  time_ok l now ->
  l_ts_ok l = false ->
  fst (health logs wits now) = 500%N /\ In (l_short l ++ sep ++ lerr_text ESigTs) (snd (health logs wits now)).
Proof. single_log. Qed.

Lemma single_bad_limit logs wits now l :
  In l logs -> l_staging l = false ->
  l_json_read l = true -> l_json_parse l = true -> l_key_ok l = true -> l_verifier_ok l = true -> l_ckpt_read l = true -> l_verifies l = true -> l_ckpt_parse l = true -> l_origin l = l_name l -> l_ts_ok l = true ->
  time_ok l now ->
  l_limit_ok l = false ->
  fst (health logs wits now) = 500%N /\ In (l_short l ++ sep ++ lerr_text ELimit) (snd (health logs wits now)).
Proof. single_log. Qed.

Lemma single_stale logs wits now l :
  In l logs -> l_staging l = false ->
  l_json_read l = true -> l_json_parse l = true -> l_key_ok l = true -> l_verifier_ok l = true -> l_ckpt_read l = true -> l_verifies l = true -> l_ckpt_parse l = true -> l_origin l = l_name l -> l_ts_ok l = true -> l_limit_ok l = true ->
  now - l_limit l <= week_3s -> now - l_ts l > fresh_ms ->
  fst (health logs wits now) = 500%N /\ In (l_short l ++ sep ++ lerr_text ETooOld) (snd (health logs wits now)).
Proof.
  single_log.
  all: repeat match goal with
       | |- context [?a >? ?b] => let c := fresh in destruct (Z.gtb_spec a b) as [c|c]; try lia
       | |- context [?a <=? ?b] => let c := fresh in destruct (Z.leb_spec a b) as [c|c]; try lia
       | |- context [?a =? ?b] => let c := fresh in destruct (Z.eqb_spec a b) as [c|c]; try lia; try congruence
       end; use_hyps; try reflexivity.
Qed.

Lemma single_sunset_no_final logs wits now l :
  In l logs -> l_staging l = false ->
  l_json_read l = true -> l_json_parse l = true -> l_key_ok l = true -> l_verifier_ok l = true -> l_ckpt_read l = true -> l_verifies l = true -> l_ckpt_parse l = true -> l_origin l = l_name l -> l_ts_ok l = true -> l_limit_ok l = true ->
  now - l_limit l > week_3s -> l_final_present l = false -> l_final_hash l = l_hash l -> l_final_size l = l_size l -> l_final_ts l = l_ts l ->
  fst (health logs wits now) = 500%N /\ In (l_short l ++ sep ++ lerr_text ENoFinal) (snd (health logs wits now)).
Proof.
  single_log.
  all: repeat match goal with
       | |- context [?a >? ?b] => let c := fresh in destruct (Z.gtb_spec a b) as [c|c]; try lia
       | |- context [?a <=? ?b] => let c := fresh in destruct (Z.leb_spec a b) as [c|c]; try lia
       | |- context [?a =? ?b] => let c := fresh in destruct (Z.eqb_spec a b) as [c|c]; try lia; try congruence
       end; use_hyps; try reflexivity.
Qed.

Lemma single_final_hash logs wits now l :
  In l logs -> l_staging l = false ->
  l_json_read l = true -> l_json_parse l = true -> l_key_ok l = true -> l_verifier_ok l = true -> l_ckpt_read l = true -> l_verifies l = true -> l_ckpt_parse l = true -> l_origin l = l_name l -> l_ts_ok l = true -> l_limit_ok l = true ->
  now - l_limit l > week_3s -> l_final_present l = true -> l_final_hash l <> l_hash l -> l_final_size l = l_size l -> l_final_ts l = l_ts l ->
  fst (health logs wits now) = 500%N /\ In (l_short l ++ sep ++ lerr_text EFinalHash) (snd (health logs wits now)).
Proof.
  single_log.
  all: repeat match goal with
       | |- context [?a >? ?b] => let c := fresh in destruct (Z.gtb_spec a b) as [c|c]; try lia
       | |- context [?a <=? ?b] => let c := fresh in destruct (Z.leb_spec a b) as [c|c]; try lia
       | |- context [?a =? ?b] => let c := fresh in destruct (Z.eqb_spec a b) as [c|c]; try lia; try congruence
       end; use_hyps; try reflexivity.
Qed.

Lemma single_final_size logs wits now l :
  In l logs -> l_staging l = false ->
  l_json_read l = true -> l_json_parse l = true -> l_key_ok l = true -> l_verifier_ok l = true -> l_ckpt_read l = true -> l_verifies l = true -> l_ckpt_parse l = true -> l_origin l = l_name l -> l_ts_ok l = true -> l_limit_ok l = true ->
  now - l_limit l > week_3s -> l_final_present l = true -> l_final_hash l = l_hash l -> l_final_size l <> l_size l -> l_final_ts l = l_ts l ->
  fst (health logs wits now) = 500%N /\ In (l_short l ++ sep ++ lerr_text EFinalSize) (snd (health logs wits now)).
Proof.
  single_log.
  all: repeat match goal with
       | |- context [?a >? ?b] => let c := fresh in destruct (Z.gtb_spec a b) as [c|c]; try lia
       | |- context [?a <=? ?b] => let c := fresh in destruct (Z.leb_spec a b) as [c|c]; try lia
       | |- context [?a =? ?b] => let c := fresh in destruct (Z.eqb_spec a b) as [c|c]; try lia; try congruence
       end; use_hyps; try reflexivity.
Qed.

Lemma single_final_timestamp logs wits now l :
  In l logs -> l_staging l = false ->
  l_json_read l = true -> l_json_parse l = true -> l_key_ok l = true -> l_verifier_ok l = true -> l_ckpt_read l = true -> l_verifies l = true -> l_ckpt_parse l = true -> l_origin l = l_name l -> l_ts_ok l = true -> l_limit_ok l = true ->
  now - l_limit l > week_3s -> l_final_present l = true -> l_final_hash l = l_hash l -> l_final_size l = l_size l -> l_final_ts l <> l_ts l ->
  fst (health logs wits now) = 500%N /\ In (l_short l ++ sep ++ lerr_text EFinalTs) (snd (health logs wits now)).
Proof.
  single_log.
  all: repeat match goal with
       | |- context [?a >? ?b] => let c := fresh in destruct (Z.gtb_spec a b) as [c|c]; try lia
       | |- context [?a <=? ?b] => let c := fresh in destruct (Z.leb_spec a b) as [c|c]; try lia
       | |- context [?a =? ?b] => let c := fresh in destruct (Z.eqb_spec a b) as [c|c]; try lia; try congruence
       end; use_hyps; try reflexivity.
Qed.

(* ---------------- C20_single for witnesses and mirrors ---------------- *)

Lemma load_verifiers_ok w :
  w_keys w = VOk -> (w_mirror w = true -> w_pend_keys w = VOk) -> load_verifiers w = None.
Proof.
  intros H1 H2. unfold load_verifiers. rewrite H1. destruct (w_mirror w); [|reflexivity]. now rewrite H2.
Qed.

Definition mirror_part_ok (w : wit_state) (d : wdir) : Prop :=
  w_mirror w = true ->
  d_edge_ok d = true /\ d_pend_read d = true /\ d_pend_verifies d = true /\ d_pend_parse d = true /\
  d_pend_origin d = d_origin d /\ d_size d <= d_pend_size d.

Ltac use_dhyps :=
  repeat match goal with
  | H : _ = true |- _ => rewrite H
  | H : _ = false |- _ => rewrite H
  | H : d_origin_hash _ = d_name _ |- _ => rewrite H
  | H : d_pend_origin _ = d_origin _ |- _ => rewrite H
  | H : d_origin_hash _ <> d_name _ |- _ => rewrite (bytes_eqb_neq _ _ H)
  | H : d_pend_origin _ <> d_origin _ |- _ => rewrite (bytes_eqb_neq _ _ H)
  end; rewrite ?bytes_eqb_refl; cbn [negb snd].

Ltac single_dir :=
  intros; eapply health_dir_failure; try eassumption; [now apply load_verifiers_ok|];
  unfold check_dir; use_dhyps; try reflexivity.

Lemma single_missing_witness_checkpoint logs wits now w d :
  In w wits -> w_staging w = false -> w_keys w = VOk -> (w_mirror w = true -> w_pend_keys w = VOk) ->
  w_enum_ok w = true -> In d (w_dirs w) -> d_isdir d = true -> is_origin_hash (d_name d) = true ->
  d_verifies d = true -> d_parse d = true -> d_origin_hash d = d_name d -> mirror_part_ok w d ->
  d_ckpt_read d = false ->
  fst (health logs wits now) = 500%N /\ In (dir_label w d ++ sep ++ werr_text WReadCkpt) (snd (health logs wits now)).
Proof. single_dir. Qed.

Lemma single_unverifiable_witness_checkpoint logs wits now w d :
  In w wits -> w_staging w = false -> w_keys w = VOk -> (w_mirror w = true -> w_pend_keys w = VOk) ->
  w_enum_ok w = true -> In d (w_dirs w) -> d_isdir d = true -> is_origin_hash (d_name d) = true ->
  d_ckpt_read d = true -> d_parse d = true -> d_origin_hash d = d_name d -> mirror_part_ok w d ->
  d_verifies d = false ->
  fst (health logs wits now) = 500%N /\ In (dir_label w d ++ sep ++ werr_text WVerify) (snd (health logs wits now)).
Proof. single_dir. Qed.

Lemma single_unparsable_witness_checkpoint logs wits now w d :
  In w wits -> w_staging w = false -> w_keys w = VOk -> (w_mirror w = true -> w_pend_keys w = VOk) ->
  w_enum_ok w = true -> In d (w_dirs w) -> d_isdir d = true -> is_origin_hash (d_name d) = true ->
  d_ckpt_read d = true -> d_verifies d = true -> d_origin_hash d = d_name d -> mirror_part_ok w d ->
  d_parse d = false ->
  fst (health logs wits now) = 500%N /\ In (dir_label w d ++ sep ++ werr_text WParse) (snd (health logs wits now)).
Proof. single_dir. Qed.

Lemma single_wrong_origin_directory logs wits now w d :
  In w wits -> w_staging w = false -> w_keys w = VOk -> (w_mirror w = true -> w_pend_keys w = VOk) ->
  w_enum_ok w = true -> In d (w_dirs w) -> d_isdir d = true -> is_origin_hash (d_name d) = true ->
  d_ckpt_read d = true -> d_verifies d = true -> d_parse d = true -> mirror_part_ok w d ->
  d_origin_hash d <> d_name d ->
  fst (health logs wits now) = 500%N /\ In (dir_label w d ++ sep ++ werr_text WOriginHash) (snd (health logs wits now)).
Proof. single_dir. Qed.

Lemma single_mirror_right_edge logs wits now w d :
  In w wits -> w_staging w = false -> w_keys w = VOk -> (w_mirror w = true -> w_pend_keys w = VOk) ->
  w_enum_ok w = true -> In d (w_dirs w) -> d_isdir d = true -> is_origin_hash (d_name d) = true ->
  w_mirror w = true -> d_ckpt_read d = true -> d_verifies d = true -> d_parse d = true -> d_origin_hash d = d_name d ->
  d_pend_read d = true -> d_pend_verifies d = true -> d_pend_parse d = true -> d_pend_origin d = d_origin d -> d_size d <= d_pend_size d ->
  d_edge_ok d = false ->
  fst (health logs wits now) = 500%N /\ In (dir_label w d ++ sep ++ werr_text WEdge) (snd (health logs wits now)).
Proof.
  single_dir.
  all: repeat match goal with
       | |- context [?a >? ?b] => let c := fresh in destruct (Z.gtb_spec a b) as [c|c]; try lia
       end; try reflexivity.
Qed.

Lemma single_mirror_pending_missing logs wits now w d :
  In w wits -> w_staging w = false -> w_keys w = VOk -> (w_mirror w = true -> w_pend_keys w = VOk) ->
  w_enum_ok w = true -> In d (w_dirs w) -> d_isdir d = true -> is_origin_hash (d_name d) = true ->
  w_mirror w = true -> d_ckpt_read d = true -> d_verifies d = true -> d_parse d = true -> d_origin_hash d = d_name d ->
  d_edge_ok d = true -> d_pend_verifies d = true -> d_pend_parse d = true -> d_pend_origin d = d_origin d -> d_size d <= d_pend_size d ->
  d_pend_read d = false ->
  fst (health logs wits now) = 500%N /\ In (dir_label w d ++ sep ++ werr_text WReadPend) (snd (health logs wits now)).
Proof.
  single_dir.
  all: repeat match goal with
       | |- context [?a >? ?b] => let c := fresh in destruct (Z.gtb_spec a b) as [c|c]; try lia
       end; try reflexivity.
Qed.

Lemma single_mirror_pending_unverifiable logs wits now w d :
  In w wits -> w_staging w = false -> w_keys w = VOk -> (w_mirror w = true -> w_pend_keys w = VOk) ->
  w_enum_ok w = true -> In d (w_dirs w) -> d_isdir d = true -> is_origin_hash (d_name d) = true ->
  w_mirror w = true -> d_ckpt_read d = true -> d_verifies d = true -> d_parse d = true -> d_origin_hash d = d_name d ->
  d_edge_ok d = true -> d_pend_read d = true -> d_pend_parse d = true -> d_pend_origin d = d_origin d -> d_size d <= d_pend_size d ->
  d_pend_verifies d = false ->
  fst (health logs wits now) = 500%N /\ In (dir_label w d ++ sep ++ werr_text WVerifyPend) (snd (health logs wits now)).
Proof.
  single_dir.
  all: repeat match goal with
       | |- context [?a >? ?b] => let c := fresh in destruct (Z.gtb_spec a b) as [c|c]; try lia
       end; try reflexivity.
Qed.

Lemma single_mirror_pending_unparsable logs wits now w d :
  In w wits -> w_staging w = false -> w_keys w = VOk -> (w_mirror w = true -> w_pend_keys w = VOk) ->
  w_enum_ok w = true -> In d (w_dirs w) -> d_isdir d = true -> is_origin_hash (d_name d) = true ->
  w_mirror w = true -> d_ckpt_read d = true -> d_verifies d = true -> d_parse d = true -> d_origin_hash d = d_name d ->
  d_edge_ok d = true -> d_pend_read d = true -> d_pend_verifies d = true -> d_pend_origin d = d_origin d -> d_size d <= d_pend_size d ->
  d_pend_parse d = false ->
  fst (health logs wits now) = 500%N /\ In (dir_label w d ++ sep ++ werr_text WParsePend) (snd (health logs wits now)).
Proof.
  single_dir.
  all: repeat match goal with
       | |- context [?a >? ?b] => let c := fresh in destruct (Z.gtb_spec a b) as [c|c]; try lia
       end; try reflexivity.
Qed.

Lemma single_mirror_pending_origin logs wits now w d :
  In w wits -> w_staging w = false -> w_keys w = VOk -> (w_mirror w = true -> w_pend_keys w = VOk) ->
  w_enum_ok w = true -> In d (w_dirs w) -> d_isdir d = true -> is_origin_hash (d_name d) = true ->
  w_mirror w = true -> d_ckpt_read d = true -> d_verifies d = true -> d_parse d = true -> d_origin_hash d = d_name d ->
  d_edge_ok d = true -> d_pend_read d = true -> d_pend_verifies d = true -> d_pend_parse d = true -> d_size d <= d_pend_size d ->
  d_pend_origin d <> d_origin d ->
  fst (health logs wits now) = 500%N /\ In (dir_label w d ++ sep ++ werr_text WPendOrigin) (snd (health logs wits now)).
Proof.
  single_dir.
  all: repeat match goal with
       | |- context [?a >? ?b] => let c := fresh in destruct (Z.gtb_spec a b) as [c|c]; try lia
       end; try reflexivity.
Qed.

Lemma single_mirror_ahead logs wits now w d :
  In w wits -> w_staging w = false -> w_keys w = VOk -> (w_mirror w = true -> w_pend_keys w = VOk) ->
  w_enum_ok w = true -> In d (w_dirs w) -> d_isdir d = true -> is_origin_hash (d_name d) = true ->
  w_mirror w = true -> d_ckpt_read d = true -> d_verifies d = true -> d_parse d = true -> d_origin_hash d = d_name d ->
  d_edge_ok d = true -> d_pend_read d = true -> d_pend_verifies d = true -> d_pend_parse d = true -> d_pend_origin d = d_origin d ->
  d_size d > d_pend_size d ->
  fst (health logs wits now) = 500%N /\ In (dir_label w d ++ sep ++ werr_text WAhead) (snd (health logs wits now)).
Proof.
  single_dir.
  all: repeat match goal with
       | |- context [?a >? ?b] => let c := fresh in destruct (Z.gtb_spec a b) as [c|c]; try lia
       end; try reflexivity.
Qed.

Lemma single_verifier_list logs wits now w :
  In w wits -> w_staging w = false -> w_keys w <> VOk ->
  fst (health logs wits now) = 500%N /\
  In (kind_of w ++ sep ++ werr_text (WKeys (w_mirror w) (w_keys w))) (snd (health logs wits now)).
Proof.
  intros Hin Hs Hk. eapply health_wit_meta_failure; eauto. left.
  unfold load_verifiers. destruct (w_keys w); congruence.
Qed.

Lemma single_pending_verifier_list logs wits now w :
  In w wits -> w_staging w = false -> w_mirror w = true -> w_keys w = VOk -> w_pend_keys w <> VOk ->
  fst (health logs wits now) = 500%N /\
  In (kind_of w ++ sep ++ werr_text (WKeys false (w_pend_keys w))) (snd (health logs wits now)).
Proof.
  intros Hin Hs Hm Hk Hp. eapply health_wit_meta_failure; eauto. left.
  unfold load_verifiers. rewrite Hk, Hm. destruct (w_pend_keys w); congruence.
Qed.

Lemma single_enumeration logs wits now w :
  In w wits -> w_staging w = false -> w_keys w = VOk -> (w_mirror w = true -> w_pend_keys w = VOk) ->
  w_enum_ok w = false ->
  fst (health logs wits now) = 500%N /\
  In (kind_of w ++ sep ++ werr_text WEnum) (snd (health logs wits now)).
Proof.
  intros. eapply health_wit_meta_failure; eauto. right. split; [now apply load_verifiers_ok|auto].
Qed.
