(* Sky/Health.v — C20 model: the decision of skylight's /health endpoint (definitions only;
   proofs are in Sky/HealthProofs.v).

   The directory state enters as PARSED FACTS, computed by the harness with verifiers that are
   independent of skylight (harness/sky/facts.go): what log.v3.json says, whether the
   checkpoint note verifies under the key and name of log.v3.json, what the verified text says,
   the timestamp inside the RFC 6962 signature, the verifier key lists, the directory names,
   whether the right-edge tiles hash up to the checkpoint root, the pending checkpoint; and
   `now` (Unix milliseconds). Transcribed in the order of the code: checkLog, loadVerifiers,
   hashes, check, and the aggregation of the "/health" handler. *)
From SL Require Import Base.Bytes.
Open Scope Z_scope.

(* ---------------- logs: checkLog ---------------- *)
Record log_state := mkLog {
  l_short : bytes; l_staging : bool;
  (* log.v3.json *)
  l_json_read : bool;        (* fs.ReadFile ok *)
  l_json_parse : bool;       (* json.Unmarshal ok *)
  l_key_ok : bool;           (* x509.ParsePKIXPublicKey(key) ok *)
  l_verifier_ok : bool;      (* sunlight.NewRFC6962Verifier(description, key) ok *)
  l_name : bytes;            (* description *)
  l_limit_ok : bool;         (* temporal_interval.end_exclusive parses as RFC 3339 *)
  l_limit : Z;               (* ... in Unix ms *)
  l_final_present : bool;    (* final_tree_head.sha256_root_hash != nil *)
  l_final_hash : bytes; l_final_size : Z; l_final_ts : Z;
  (* checkpoint *)
  l_ckpt_read : bool;
  l_verifies : bool;         (* note.Open under the verifier built from log.v3.json *)
  l_ckpt_parse : bool;       (* torchwood.ParseCheckpoint of the verified text *)
  l_origin : bytes; l_size : Z; l_hash : bytes;
  l_ts_ok : bool;            (* RFC6962SignatureTimestamp ok *)
  l_ts : Z                   (* ... Unix ms *)
}.

Inductive lerr :=
| EReadJSON | EParseJSON | EParseKey | EVerifier | EReadCkpt | EVerifyNote | EParseCkpt
| EOrigin | ESigTs | ELimit | ENoFinal | EFinalHash | EFinalSize | EFinalTs | ETooOld.

Inductive lres := LOk | LSunset | LErr (e : lerr).

Definition week_3s : Z := 7 * 24 * 3600 * 1000 + 3000.
Definition fresh_ms : Z := 5000.

(* time.Since(notAfterLimit) > 7*24h + 3s *)
Definition sunset (l : log_state) (now : Z) : bool := now - l_limit l >? week_3s.
(* NOT (time.Since(checkpoint time) > 5s) *)
Definition fresh (l : log_state) (now : Z) : bool := now - l_ts l <=? fresh_ms.

Definition check_log (l : log_state) (now : Z) : lres :=
  if negb (l_json_read l) then LErr EReadJSON else
  if negb (l_json_parse l) then LErr EParseJSON else
  if negb (l_key_ok l) then LErr EParseKey else
  if negb (l_verifier_ok l) then LErr EVerifier else
  if negb (l_ckpt_read l) then LErr EReadCkpt else
  if negb (l_verifies l) then LErr EVerifyNote else
  if negb (l_ckpt_parse l) then LErr EParseCkpt else
  if negb (bytes_eqb (l_origin l) (l_name l)) then LErr EOrigin else
  if negb (l_ts_ok l) then LErr ESigTs else
  if negb (l_limit_ok l) then LErr ELimit else
  if sunset l now then
    if negb (l_final_present l) then LErr ENoFinal else
    if negb (bytes_eqb (l_final_hash l) (l_hash l)) then LErr EFinalHash else
    if negb (l_final_size l =? l_size l) then LErr EFinalSize else
    if negb (l_final_ts l =? l_ts l) then LErr EFinalTs else
    LSunset
  else
    if negb (fresh l now) then LErr ETooOld else LOk.

Definition lerr_text (e : lerr) : bytes :=
  s2b match e with
      | EReadJSON => "read-log.v3.json" | EParseJSON => "parse-log.v3.json"
      | EParseKey => "parse-public-key" | EVerifier => "create-verifier"
      | EReadCkpt => "read-checkpoint" | EVerifyNote => "verify-checkpoint-note"
      | EParseCkpt => "parse-checkpoint" | EOrigin => "origin-mismatch"
      | ESigTs => "parse-signature-timestamp" | ELimit => "parse-NotAfterLimit"
      | ENoFinal => "no-final-tree" | EFinalHash => "final-tree-hash"
      | EFinalSize => "final-tree-size" | EFinalTs => "final-tree-timestamp"
      | ETooOld => "too-old"
      end.

Definition sep : bytes := s2b ": ".
Definition ignored : bytes := s2b " (ignored)".

(* one iteration of the loop over roots: (does it turn the status to 500?, body line) *)
Definition log_line (l : log_state) (now : Z) : bool * bytes :=
  match check_log l now with
  | LOk => (false, l_short l ++ sep ++ s2b "OK")
  | LSunset => (false, l_short l ++ sep ++ s2b "read-only")
  | LErr e =>
    if l_staging l then (false, l_short l ++ sep ++ lerr_text e ++ ignored)
    else (true, l_short l ++ sep ++ lerr_text e)
  end.

(* ---------------- witnesses and mirrors ---------------- *)
Inductive vstate := VOk | VMissing | VUnparsable | VEmpty | VBadKey.   (* parseVerifiers *)

Record wdir := mkDir {
  d_name : bytes; d_isdir : bool;
  d_ckpt_read : bool;
  d_verifies : bool;          (* note.Open under the keys of witness.v0.json / mirror.v0.json *)
  d_parse : bool;
  d_origin : bytes;
  d_origin_hash : bytes;      (* hex sha256 of d_origin (witness.OriginHash) *)
  d_size : Z;
  d_edge_ok : bool;           (* the right-edge tiles exist and hash up to the checkpoint root *)
  d_pend_read : bool;
  d_pend_verifies : bool;     (* under the keys of the witness's witness.v0.json *)
  d_pend_parse : bool;
  d_pend_origin : bytes; d_pend_size : Z
}.

Record wit_state := mkWit {
  w_mirror : bool; w_staging : bool;
  w_keys : vstate;            (* witness.v0.json, or mirror.v0.json for a mirror *)
  w_pend_keys : vstate;       (* mirror only: witness.v0.json of the enclosing witness *)
  w_enum_ok : bool;           (* fs.ReadDir ok *)
  w_dirs : list wdir          (* directory entries in ReadDir (= name) order *)
}.

Inductive werr :=
| WKeys (file : bool (* true = mirror.v0.json *)) (v : vstate) | WEnum
| WReadCkpt | WVerify | WParse | WOriginHash | WEdge
| WReadPend | WVerifyPend | WParsePend | WPendOrigin | WAhead.

Definition is_lower_hex (b : byte) : bool :=
  let n := Byte.to_N b in ((48 <=? n) && (n <=? 57) || (97 <=? n) && (n <=? 102))%N.
(* isOriginHash: hex of 32 bytes, lower case *)
Definition is_origin_hash (name : bytes) : bool := (length name =? 64)%nat && forallb is_lower_hex name.

Definition load_verifiers (w : wit_state) : option werr :=
  match w_keys w with
  | VOk => if w_mirror w then match w_pend_keys w with VOk => None | v => Some (WKeys false v) end else None
  | v => Some (WKeys (w_mirror w) v)
  end.

Definition hashes (w : wit_state) : list wdir :=
  filter (fun d => d_isdir d && is_origin_hash (d_name d)) (w_dirs w).

(* witnessHealth.check: (origin returned for the label, error) *)
Definition check_dir (w : wit_state) (d : wdir) : bytes * option werr :=
  if negb (d_ckpt_read d) then ([], Some WReadCkpt) else
  if negb (d_verifies d) then ([], Some WVerify) else
  if negb (d_parse d) then ([], Some WParse) else
  let origin := d_origin d in
  if negb (bytes_eqb (d_origin_hash d) (d_name d)) then (origin, Some WOriginHash) else
  if negb (w_mirror w) then (origin, None) else
  if negb (d_edge_ok d) then (origin, Some WEdge) else
  if negb (d_pend_read d) then (origin, Some WReadPend) else
  if negb (d_pend_verifies d) then (origin, Some WVerifyPend) else
  if negb (d_pend_parse d) then (origin, Some WParsePend) else
  if negb (bytes_eqb (d_pend_origin d) origin) then (origin, Some WPendOrigin) else
  if d_size d >? d_pend_size d then (origin, Some WAhead) else
  (origin, None).

Definition vstate_text (v : vstate) : bytes :=
  s2b match v with VOk => "ok" | VMissing => "read" | VUnparsable => "parse" | VEmpty => "no-verifier-keys" | VBadKey => "invalid-verifier-key" end.

Definition werr_text (e : werr) : bytes :=
  match e with
  | WKeys f v => vstate_text v ++ s2b (if f then "-mirror.v0.json" else "-witness.v0.json")
  | WEnum => s2b "enumerate-logs"
  | WReadCkpt => s2b "read-checkpoint" | WVerify => s2b "verify-checkpoint" | WParse => s2b "parse-checkpoint"
  | WOriginHash => s2b "origin-hash" | WEdge => s2b "right-edge-tiles"
  | WReadPend => s2b "read-pending" | WVerifyPend => s2b "verify-pending" | WParsePend => s2b "parse-pending"
  | WPendOrigin => s2b "pending-origin" | WAhead => s2b "ahead-of-pending"
  end.

Definition kind_of (w : wit_state) : bytes := s2b (if w_mirror w then "mirror" else "witness").

Definition err_line (w : wit_state) (label : bytes) (e : werr) : bool * bytes :=
  if w_staging w then (false, label ++ sep ++ werr_text e ++ ignored)
  else (true, label ++ sep ++ werr_text e).

Definition dir_label (w : wit_state) (d : wdir) : bytes :=
  let origin := fst (check_dir w d) in
  kind_of w ++ x20 :: (if match origin with [] => true | _ => false end then d_name d else origin).

Definition dir_line (w : wit_state) (d : wdir) : bool * bytes :=
  match snd (check_dir w d) with
  | Some e => err_line w (dir_label w d) e
  | None => (false, dir_label w d ++ sep ++ s2b "OK")
  end.

Definition wit_lines (w : wit_state) : list (bool * bytes) :=
  match load_verifiers w with
  | Some e => [err_line w (kind_of w) e]
  | None =>
    if negb (w_enum_ok w) then [err_line w (kind_of w) WEnum]
    else map (dir_line w) (hashes w)
  end.

(* ---------------- the /health handler ---------------- *)
Definition all_lines (logs : list log_state) (wits : list wit_state) (now : Z) : list (bool * bytes) :=
  map (fun l => log_line l now) logs ++ flat_map wit_lines wits.

Definition health (logs : list log_state) (wits : list wit_state) (now : Z) : N * list bytes :=
  let ls := all_lines logs wits now in
  ((if existsb fst ls then 500 else 200)%N, map snd ls).
