(* Sky/Run.v — entry points of the C19/C20 models for the correspondence driver (ocaml/sky.ml):
   each renders its result exactly as the Go driver harness/sky does. *)
From SL Require Export Base.Bytes Sky.Routes Sky.Health.
Open Scope N_scope.

Definition dash (s : bytes) : bytes := match s with [] => [x2d] | _ => s end.
Definition bar : byte := x7c.

Definition show_resp (r : response) : bytes :=
  if r_status r =? 1 then s2b "special|metrics"
  else if r_status r =? 2 then s2b "special|health"
  else if r_status r =? 3 then s2b "special|logs.json"
  else join_with bar [dec (r_status r); hx (r_loc r); dash (r_ct r); dash (r_ce r); dash (r_cc r);
                      (if r_acao r then [x2a] else [x2d]);
                      match r_body r with Some d => d | None => [x2d] end].

Definition segs_of_prefix (p : bytes) : list bytes := match p with [] => [] | _ => split_slash (tl p) end.
Definition mk_entry (host prefixpath : bytes) (root : N) : entry := mkEntry host (segs_of_prefix prefixpath) root.
Definition mk_logsjson (host prefixpath : bytes) : bytes * list bytes := (host, segs_of_prefix prefixpath).
Definition mk_config (home : bytes) (logs wits : list entry) (lj : option (bytes * list bytes)) : config :=
  mkConfig home logs wits lj.
Definition mk_fs (root : N) (name : bytes) (kind : bytes) (digest : bytes) : N * bytes * fkind :=
  (root, name, if bytes_eqb kind (s2b "reg") then KReg digest else if bytes_eqb kind (s2b "dir") then KDir else KEsc).

Definition run_req (c : config) (t : fstab) (host target : bytes) : bytes := show_resp (serve c t host target).

(* what route alone says (used by the harness-independent vm_compute cross-check and samples) *)
Definition show_route (r : resolved) : bytes :=
  match r with
  | BadRequest => s2b "bad-request" | OutOfDomain => s2b "out-of-domain"
  | NotFound _ => s2b "not-found"
  | Redirect found loc _ _ => s2b "redirect:" ++ dec (if found then 302 else 301) ++ x3a :: hx loc
  | Special _ => s2b "special"
  | File root rel _ _ _ => s2b "file:" ++ dec root ++ x3a :: hx rel
  end.
Definition run_route (c : config) (host target : bytes) : bytes := show_route (route c host target).

(* ---- health ---- *)
Definition vstate_of (s : bytes) : vstate :=
  if bytes_eqb s (s2b "ok") then VOk else if bytes_eqb s (s2b "missing") then VMissing
  else if bytes_eqb s (s2b "unparsable") then VUnparsable else if bytes_eqb s (s2b "empty") then VEmpty
  else VBadKey.

Definition mk_wit (mirror staging : bool) (keys pend : bytes) (enum_ok : bool) (dirs : list wdir) : wit_state :=
  mkWit mirror staging (vstate_of keys) (vstate_of pend) enum_ok dirs.

Definition run_health (logs : list log_state) (wits : list wit_state) (now : Z) : bytes :=
  let r := health logs wits now in
  dec (fst r) ++ bar :: join_with x3b (snd r).
