(* Sky/RoutesProofs.v — proofs about the routing model (C19) *)
From SL Require Import Base.Bytes Base.BytesProofs Codec.Leaf Codec.LeafProofs Codec.PathProofs Sky.Routes.
From Coq Require Import ZifyN ZifyNat ZifyBool.
Open Scope N_scope.

(* ===================================================================================== *)
(* part 1: characters and strings that need no escaping                                   *)
(* ===================================================================================== *)

Definition plain_char (b : byte) : bool := is_alnum b || memb b (s2b "-_.").
Definition safe_char (b : byte) : bool := plain_char b || Byte.eqb b x2f.
Definition plain (s : bytes) : Prop := forallb plain_char s = true.
Definition safe (s : bytes) : Prop := forallb safe_char s = true.

(* a path segment that is itself: not empty, not "." or "..", only unreserved characters *)
Definition plain_seg (s : bytes) : Prop := plain s /\ s <> [] /\ s <> dot /\ s <> dotdot.

Definition char_ok (b : byte) : bool :=
  implb (safe_char b)
        (negb (should_escape b) && negb (Byte.eqb b x25) && negb (Byte.eqb b x3f)
         && negb ((bN b <? 33) || (bN b =? 127)))
  && implb (plain_char b) (negb (Byte.eqb b x2f)).

Lemma char_sweep b : char_ok b = true.
Proof. destruct b; reflexivity. Qed.

Lemma safe_char_facts b : safe_char b = true ->
  should_escape b = false /\ b <> x25 /\ b <> x3f /\ ((bN b <? 33) || (bN b =? 127)) = false.
Proof.
  intro H. pose proof (char_sweep b) as S. unfold char_ok in S. rewrite H in S. cbn [implb] in S.
  rewrite !andb_true_iff in S. destruct S as [[[[A B] C] D] _].
  apply negb_true_iff in A, B, C, D. repeat split; auto.
  - intro E. subst b. discriminate B.
  - intro E. subst b. discriminate C.
Qed.

Lemma plain_char_noslash b : plain_char b = true -> nsb b = true.
Proof.
  intro H. pose proof (char_sweep b) as S. unfold char_ok in S. rewrite H in S.
  rewrite andb_true_iff in S. destruct S as [_ S]. exact S.
Qed.

Lemma plain_safe_char b : plain_char b = true -> safe_char b = true.
Proof. intro H. unfold safe_char. now rewrite H. Qed.

Lemma plain_safe s : plain s -> safe s.
Proof.
  unfold plain, safe. induction s as [|b s IH]; cbn [forallb]; [reflexivity|].
  intro H. apply andb_true_iff in H. destruct H as [H1 H2]. now rewrite plain_safe_char, IH.
Qed.

Lemma plain_noslash s : plain s -> noslash s.
Proof.
  unfold plain, noslash. induction s as [|b s IH]; cbn [forallb]; [reflexivity|].
  intro H. apply andb_true_iff in H. destruct H as [H1 H2]. now rewrite plain_char_noslash, IH.
Qed.

Lemma safe_app a b : safe a -> safe b -> safe (a ++ b).
Proof. unfold safe. intros A B. now rewrite forallb_app, A, B. Qed.

Lemma safe_cons c a : safe_char c = true -> safe a -> safe (c :: a).
Proof. unfold safe. intros A B. cbn [forallb]. now rewrite A, B. Qed.

Lemma unescape_cons c r : c <> x25 ->
  unescape (c :: r) = match unescape r with Some t => Some (c :: t) | None => None end.
Proof. intro H. destruct c; try reflexivity. congruence. Qed.

Lemma unescape_safe s : safe s -> unescape s = Some s.
Proof.
  unfold safe. induction s as [|b s IH]; [reflexivity|]. cbn [forallb]. intro H.
  apply andb_true_iff in H. destruct H as [H1 H2].
  destruct (safe_char_facts b H1) as (_ & Hp & _). rewrite unescape_cons by assumption.
  now rewrite IH.
Qed.

Lemma escape_safe s : safe s -> escape s = s.
Proof.
  unfold safe, escape. induction s as [|b s IH]; [reflexivity|]. cbn [forallb flat_map]. intro H.
  apply andb_true_iff in H. destruct H as [H1 H2].
  destruct (safe_char_facts b H1) as (He & _). rewrite He. cbn [app]. now rewrite IH.
Qed.

Lemma path_unescape_safe s : safe s -> path_unescape s = s.
Proof. intro H. unfold path_unescape. now rewrite unescape_safe. Qed.

Lemma has_ctl_safe s : safe s -> has_ctl s = false.
Proof.
  unfold safe, has_ctl. induction s as [|b s IH]; [reflexivity|]. cbn [forallb existsb]. intro H.
  apply andb_true_iff in H. destruct H as [H1 H2].
  destruct (safe_char_facts b H1) as (_ & _ & _ & Hc). rewrite Hc. cbn [orb]. now apply IH.
Qed.

Lemma split_on_absent sep s : forall cur,
  forallb (fun b => negb (Byte.eqb b sep)) s = true -> split_on sep s cur = [rev cur ++ s].
Proof.
  induction s as [|b s IH]; intros cur H; cbn [split_on].
  - now rewrite app_nil_r.
  - cbn [forallb] in H. apply andb_true_iff in H. destruct H as [H1 H2].
    apply negb_true_iff in H1. rewrite H1. rewrite IH by assumption. cbn [rev]. now rewrite <- app_assoc.
Qed.

Lemma safe_no_question s : safe s -> forallb (fun b => negb (Byte.eqb b x3f)) s = true.
Proof.
  unfold safe. induction s as [|b s IH]; [reflexivity|]. cbn [forallb]. intro H.
  apply andb_true_iff in H. destruct H as [H1 H2].
  destruct (safe_char_facts b H1) as (_ & _ & Hq & _). rewrite IH by assumption.
  destruct (Byte.eqb b x3f) eqn:E; [apply byte_eqb_eq in E; contradiction|reflexivity].
Qed.

Lemma split_query_safe t : safe t -> split_query t = (t, []).
Proof. intro H. unfold split_query. rewrite split_on_absent by now apply safe_no_question. reflexivity. Qed.

Lemma set_path_safe raw : safe raw -> set_path raw = Some (raw, []).
Proof. intro H. unfold set_path. now rewrite unescape_safe, escape_safe, bytes_eqb_refl. Qed.

Lemma bytes_eqb_neq_false a b : a <> b -> bytes_eqb a b = false.
Proof. intro H. destruct (bytes_eqb a b) eqn:E; [|reflexivity]. apply bytes_eqb_eq in E. contradiction. Qed.

Lemma escaped_path_safe p : safe p -> p <> [x2a] -> escaped_path p [] = p.
Proof.
  intros H Hs. unfold escaped_path. cbn [is_nil negb andb].
  rewrite bytes_eqb_neq_false by assumption. now apply escape_safe.
Qed.

(* ===================================================================================== *)
(* part 2: joining and splitting at "/"                                                   *)
(* ===================================================================================== *)

Lemma prefix_path_app a b : prefix_path (a ++ b) = prefix_path a ++ prefix_path b.
Proof. unfold prefix_path. now rewrite map_app, concat_app. Qed.

Lemma prefix_path_join segs : segs <> [] -> prefix_path segs = x2f :: join_with x2f segs.
Proof.
  induction segs as [|s r IH]; [congruence|]. intros _. destruct r as [|s2 r].
  - unfold prefix_path. cbn [map concat join_with]. now rewrite app_nil_r.
  - change (prefix_path (s :: s2 :: r)) with ((x2f :: s) ++ prefix_path (s2 :: r)).
    rewrite IH by discriminate. reflexivity.
Qed.

Lemma split_join segs : segs <> [] -> Forall noslash segs -> split_slash (join_with x2f segs) = segs.
Proof.
  unfold split_slash. induction segs as [|s r IH]; [congruence|]. intros _ H.
  inversion H as [|? ? Hs Hr]; subst. destruct r as [|s2 r].
  - cbn [join_with]. now rewrite split_on_ns_end.
  - change (join_with x2f (s :: s2 :: r)) with (s ++ x2f :: join_with x2f (s2 :: r)).
    rewrite split_on_ns_sep by assumption. cbn [rev app]. f_equal. apply IH; [discriminate|assumption].
Qed.

Lemma join_snoc_empty segs : segs <> [] -> join_with x2f (segs ++ [[]]) = join_with x2f segs ++ [x2f].
Proof.
  induction segs as [|s r IH]; [congruence|]. intros _. destruct r as [|s2 r].
  - reflexivity.
  - change (join_with x2f ((s :: s2 :: r) ++ [[]])) with (s ++ x2f :: join_with x2f ((s2 :: r) ++ [[]])).
    rewrite IH by discriminate. change (join_with x2f (s :: s2 :: r)) with (s ++ x2f :: join_with x2f (s2 :: r)).
    now rewrite <- app_assoc.
Qed.

Lemma segs_of_prefix_path segs : segs <> [] -> Forall noslash segs -> segs_of (prefix_path segs) = segs.
Proof. intros H1 H2. unfold segs_of. rewrite prefix_path_join by assumption. cbn [tl]. now apply split_join. Qed.

Lemma segs_of_prefix_path_slash segs : segs <> [] -> Forall noslash segs ->
  segs_of (prefix_path segs ++ [x2f]) = segs ++ [[]].
Proof.
  intros H1 H2. unfold segs_of. rewrite prefix_path_join by assumption. cbn [tl app].
  rewrite <- join_snoc_empty by assumption. apply split_join.
  - destruct segs; discriminate.
  - apply Forall_app. split; [assumption|]. constructor; [reflexivity|constructor].
Qed.

Lemma plain_seg_noslash s : plain_seg s -> noslash s.
Proof. intros (H & _). now apply plain_noslash. Qed.

Lemma Forall_plain_noslash segs : Forall plain_seg segs -> Forall noslash segs.
Proof. intro H. eapply Forall_impl; [|exact H]. apply plain_seg_noslash. Qed.

Lemma safe_prefix_path segs : Forall plain_seg segs -> safe (prefix_path segs).
Proof.
  induction 1 as [|s r Hs Hr IH]; [reflexivity|].
  change (prefix_path (s :: r)) with ((x2f :: s) ++ prefix_path r).
  apply safe_app; [|assumption]. apply safe_cons; [reflexivity|]. apply plain_safe. apply Hs.
Qed.

Lemma last_is_slash_snoc a c : last_is_slash (a ++ [c]) = Byte.eqb c x2f.
Proof. unfold last_is_slash. rewrite rev_app_distr. cbn [rev app]. destruct c; reflexivity. Qed.

Lemma prefix_path_last segs : segs <> [] -> Forall plain_seg segs ->
  exists a c, prefix_path segs = a ++ [c] /\ plain_char c = true.
Proof.
  intros Hne H. destruct (exists_last Hne) as (init & l & ->).
  apply Forall_app in H. destruct H as [_ H]. inversion H as [|? ? (Hp & Hn & _) _]; subst.
  destruct (exists_last Hn) as (l' & c & ->).
  exists (prefix_path init ++ x2f :: l'), c. split.
  - rewrite prefix_path_app. unfold prefix_path at 2. cbn [map concat]. rewrite app_nil_r.
    now rewrite <- app_assoc.
  - unfold plain in Hp. rewrite forallb_app in Hp. apply andb_true_iff in Hp. destruct Hp as [_ Hp].
    cbn [forallb] in Hp. now rewrite andb_true_r in Hp.
Qed.

Lemma last_is_slash_prefix_path segs : segs <> [] -> Forall plain_seg segs ->
  last_is_slash (prefix_path segs) = false.
Proof.
  intros Hne H. destruct (prefix_path_last segs Hne H) as (a & c & -> & Hc).
  rewrite last_is_slash_snoc. apply plain_char_noslash in Hc. unfold nsb in Hc. now apply negb_true_iff in Hc.
Qed.

(* ===================================================================================== *)
(* part 3: path.Clean                                                                     *)
(* ===================================================================================== *)

Definition good_seg (s : bytes) : Prop := s <> [] /\ s <> dot /\ s <> dotdot /\ noslash s.

(* what "clean, rooted, no dot-dot" means for a name handed to the file system *)
Definition clean_rel (rel : bytes) : Prop :=
  exists segs, rel = x2f :: join_with x2f segs /\ Forall good_seg segs.

Lemma is_nil_false {A} (l : list A) : is_nil l = false -> l <> [].
Proof. destruct l; [discriminate|discriminate]. Qed.

Lemma clean_segs_good segs : forall stack, Forall noslash segs -> Forall good_seg stack ->
  Forall good_seg (clean_segs segs stack).
Proof.
  induction segs as [|s r IH]; intros stack Hs Hst; cbn [clean_segs].
  - now apply Forall_rev.
  - inversion Hs as [|? ? Hn Hr]; subst.
    destruct (is_nil s) eqn:E1; cbn [orb]; [now apply IH|].
    destruct (bytes_eqb s dot) eqn:E2; [now apply IH|].
    destruct (bytes_eqb s dotdot) eqn:E3.
    + apply IH; [assumption|]. destruct stack; [constructor|]. inversion Hst; assumption.
    + apply IH; [assumption|]. constructor; [|assumption].
      repeat split; try assumption.
      * now apply is_nil_false.
      * intro X. subst s. discriminate E2.
      * intro X. subst s. discriminate E3.
Qed.

Lemma split_on_noslash s : forall cur, noslash (rev cur) -> Forall noslash (split_on x2f s cur).
Proof.
  induction s as [|b s IH]; intros cur H; cbn [split_on].
  - constructor; [assumption|constructor].
  - destruct (Byte.eqb b x2f) eqn:E.
    + constructor; [assumption|]. apply IH. reflexivity.
    + apply IH. cbn [rev]. apply noslash_app; [assumption|].
      unfold noslash. cbn [forallb]. unfold nsb. now rewrite E.
Qed.

Lemma path_clean_clean p : clean_rel (path_clean p).
Proof.
  unfold path_clean, clean_rel. eexists. split; [reflexivity|].
  apply clean_segs_good; [|constructor]. unfold split_slash. apply split_on_noslash. reflexivity.
Qed.

Lemma clean_rel_no_dotdot rel : clean_rel rel -> ~ In dotdot (split_slash (tl rel)).
Proof.
  intros (segs & -> & H) Hin. cbn [tl] in Hin. destruct segs as [|s r].
  - cbn in Hin. destruct Hin as [Hin|[]]. discriminate Hin.
  - rewrite split_join in Hin; [|discriminate|].
    + rewrite Forall_forall in H. destruct (H _ Hin) as (_ & _ & X & _). now apply X.
    + eapply Forall_impl; [|exact H]. intros a (_ & _ & _ & X). exact X.
Qed.

Lemma plain_seg_flags s : plain_seg s -> is_nil s = false /\ bytes_eqb s dot = false /\ bytes_eqb s dotdot = false.
Proof.
  intros (_ & A & B & C). repeat split.
  - destruct s; [congruence|reflexivity].
  - now apply bytes_eqb_neq_false.
  - now apply bytes_eqb_neq_false.
Qed.

Lemma clean_segs_plain segs : forall stack, Forall plain_seg segs -> clean_segs segs stack = rev stack ++ segs.
Proof.
  induction segs as [|s r IH]; intros stack H; cbn [clean_segs]; [now rewrite app_nil_r|].
  inversion H as [|? ? Hs Hr]; subst. destruct (plain_seg_flags s Hs) as (A & B & C).
  rewrite A, B, C. cbn [orb]. rewrite IH by assumption. cbn [rev]. now rewrite <- app_assoc.
Qed.

Lemma path_clean_plain segs : segs <> [] -> Forall plain_seg segs -> path_clean (prefix_path segs) = prefix_path segs.
Proof.
  intros Hne H. unfold path_clean. rewrite prefix_path_join at 1 by assumption. cbn [tl].
  rewrite split_join by (auto using Forall_plain_noslash). rewrite clean_segs_plain by assumption.
  cbn [rev app]. now rewrite prefix_path_join.
Qed.

Lemma rooted_prefix_path segs : segs <> [] -> rooted (prefix_path segs) = prefix_path segs.
Proof. intro H. rewrite prefix_path_join by assumption. reflexivity. Qed.

Lemma clean_path_plain segs : segs <> [] -> Forall plain_seg segs -> clean_path (prefix_path segs) = prefix_path segs.
Proof.
  intros Hne H. unfold clean_path. rewrite rooted_prefix_path by assumption.
  rewrite path_clean_plain, last_is_slash_prefix_path by assumption. cbn [andb].
  rewrite prefix_path_join by assumption. reflexivity.
Qed.

(* ===================================================================================== *)
(* part 4: the routing tree                                                               *)
(* ===================================================================================== *)

Section TreeFacts.
  Context {A : Type}.
  Implicit Types cs : list (@cand A).

  Lemma filter_map_In {X Y} (f : X -> option Y) l y :
    In y (filter_map f l) -> exists x, In x l /\ f x = Some y.
  Proof.
    induction l as [|x l IH]; cbn [filter_map]; [contradiction|].
    destruct (f x) as [y'|] eqn:E.
    - intros [<-|H]; [exists x; split; [now left|assumption]|].
      destruct (IH H) as (x' & Hin & Hf). exists x'. split; [now right|assumption].
    - intro H. destruct (IH H) as (x' & Hin & Hf). exists x'. split; [now right|assumption].
  Qed.

  Lemma filter_map_app {X Y} (f : X -> option Y) a b :
    filter_map f (a ++ b) = filter_map f a ++ filter_map f b.
  Proof.
    induction a as [|x a IH]; cbn [app filter_map]; [reflexivity|].
    destruct (f x); [cbn [app]; now rewrite IH|assumption].
  Qed.

  Lemma filter_map_none {X Y} (f : X -> option Y) l :
    Forall (fun x => f x = None) l -> filter_map f l = [].
  Proof. induction 1 as [|x l Hx Hl IH]; cbn [filter_map]; [reflexivity|]. now rewrite Hx. Qed.

  Lemma adv_lit_snd seg (c c' : @cand A) : adv_lit seg c = Some c' -> snd c' = snd c.
  Proof.
    unfold adv_lit. destruct (fst c) as [|[l| |n] r]; try discriminate.
    destruct (bytes_eqb l seg); [|discriminate]. intro H. injection H as <-. reflexivity.
  Qed.

  Lemma adv_wild_snd (c c' : @cand A) : adv_wild c = Some c' -> snd c' = snd c.
  Proof.
    unfold adv_wild. destruct (fst c) as [|[l| |n] r]; try discriminate.
    intro H. injection H as <-. reflexivity.
  Qed.

  Lemma find_multi_In cs n pl : find_multi cs = Some (n, pl) -> exists c, In c cs /\ snd c = pl.
  Proof.
    induction cs as [|c cs IH]; cbn [find_multi]; [discriminate|].
    destruct (multi_of c).
    - intro H. injection H as _ <-. exists c. split; [now left|reflexivity].
    - intro H. destruct (IH H) as (c' & Hin & E). exists c'. split; [now right|assumption].
  Qed.

  (* whatever is matched is one of the candidates *)
  Lemma match_path_In rem : forall cs ms pl ms',
    match_path cs rem ms = Some (pl, ms') -> exists c, In c cs /\ snd c = pl.
  Proof.
    induction rem as [|s rest IH]; intros cs ms pl ms'; cbn [match_path].
    - destruct (find is_leaf cs) as [c|] eqn:E; [|discriminate].
      intro H. injection H as <- _. apply find_some in E. exists c. tauto.
    - set (seg := if is_nil s && is_nil rest then slash else path_unescape s).
      destruct (match_path (filter_map (adv_lit seg) cs) rest ms) as [[pl1 m1]|] eqn:E1.
      { intro H. injection H as <- _. destruct (IH _ _ _ _ E1) as (c' & Hin & Hs).
        destruct (filter_map_In _ _ _ Hin) as (c & Hc & Ha). exists c. split; [assumption|].
        rewrite <- Hs. symmetry. eapply adv_lit_snd; eauto. }
      destruct (if bytes_eqb seg slash then None else match_path (filter_map adv_wild cs) rest (ms ++ [seg]))
        as [[pl2 m2]|] eqn:E2.
      { intro H. injection H as <- _. destruct (bytes_eqb seg slash); [discriminate|].
        destruct (IH _ _ _ _ E2) as (c' & Hin & Hs).
        destruct (filter_map_In _ _ _ Hin) as (c & Hc & Ha). exists c. split; [assumption|].
        rewrite <- Hs. symmetry. eapply adv_wild_snd; eauto. }
      destruct (find_multi cs) as [[n pl3]|] eqn:E3; [|discriminate].
      intro H. injection H as <- _. eapply find_multi_In; eauto.
  Qed.

  Lemma match_path_nil rem : forall ms, match_path (@nil (@cand A)) rem ms = None.
  Proof.
    induction rem as [|s rest IH]; intro ms; cbn [match_path find filter_map find_multi]; [reflexivity|].
    rewrite !IH. destruct (bytes_eqb _ slash); reflexivity.
  Qed.

  (* consuming a literal prefix: if what is left after the literal children matches, that is the answer *)
  Definition residual cs (P : list bytes) : list (@cand A) :=
    fold_left (fun cs s => filter_map (adv_lit s) cs) P cs.

  Lemma match_path_consume P : forall cs R ms r,
    Forall plain_seg P ->
    match_path (residual cs P) R ms = Some r -> match_path cs (P ++ R) ms = Some r.
  Proof.
    induction P as [|p P IH]; intros cs R ms r HP H; [exact H|].
    inversion HP as [|? ? Hp HP']; subst. cbn [app match_path].
    destruct (plain_seg_flags p Hp) as (Hn & _). rewrite Hn. cbn [andb].
    rewrite path_unescape_safe by (apply plain_safe, Hp).
    cbn [residual fold_left] in H. fold (residual (filter_map (adv_lit p) cs) P) in H.
    now rewrite (IH _ _ _ _ HP' H).
  Qed.

  (* a lone multi wildcard swallows whatever is left *)
  Lemma match_path_multi n (pl : list pseg * A) s rest ms :
    match_path [([PMulti n], pl)] (s :: rest) ms
    = Some (pl, if n then ms ++ [path_unescape (join_with x2f (s :: rest))] else ms).
  Proof.
    cbn [match_path filter_map adv_lit adv_wild fst snd find_multi multi_of].
    rewrite !match_path_nil. destruct (bytes_eqb _ slash); reflexivity.
  Qed.
End TreeFacts.

Lemma class_of_In {H} (pats : list (pattern H)) host get c :
  In c (class_of pats host get) ->
  exists p, In p pats /\ p_host p = host /\ c = (p_segs p, (p_segs p, p_h p)).
Proof.
  unfold class_of. intro Hc. apply in_map_iff in Hc. destruct Hc as (p & <- & Hp).
  apply filter_In in Hp. destruct Hp as [Hp Hf]. apply andb_true_iff in Hf. destruct Hf as [Hf _].
  apply bytes_eqb_eq in Hf. exists p. auto.
Qed.

Lemma tree_match_In {H} (pats : list (pattern H)) host segs ps h ms :
  tree_match pats host segs = Some ((ps, h), ms) ->
  exists p, In p pats /\ (p_host p = host \/ p_host p = []) /\ p_h p = h.
Proof.
  unfold tree_match, orelse. intro E.
  assert (K : forall hh g, match_path (class_of pats hh g) segs [] = Some ((ps, h), ms) ->
              exists p, In p pats /\ p_host p = hh /\ p_h p = h).
  { intros hh g Hm. destruct (match_path_In _ _ _ _ _ Hm) as (c & Hc & Hs).
    destruct (class_of_In _ _ _ _ Hc) as (p & Hp & Hh & ->). cbn [snd] in Hs.
    injection Hs as _ Hs. exists p. auto. }
  destruct (is_nil host).
  - destruct (match_path (class_of pats [] true) segs []) as [r|] eqn:E1.
    + injection E as ->. destruct (K _ _ E1) as (p & ? & ? & ?). exists p. auto.
    + destruct (K _ _ E) as (p & ? & ? & ?). exists p. auto.
  - destruct (match_path (class_of pats host true) segs []) as [r|] eqn:E1.
    { injection E as ->. destruct (K _ _ E1) as (p & ? & ? & ?). exists p. auto. }
    destruct (match_path (class_of pats host false) segs []) as [r|] eqn:E2.
    { injection E as ->. destruct (K _ _ E2) as (p & ? & ? & ?). exists p. auto. }
    destruct (match_path (class_of pats [] true) segs []) as [r|] eqn:E3.
    + injection E as ->. destruct (K _ _ E3) as (p & ? & ? & ?). exists p. auto.
    + destruct (K _ _ E) as (p & ? & ? & ?). exists p. auto.
Qed.

Lemma mux_dispatch_found {H} (pats : list (pattern H)) host p rp qs h ms :
  mux_dispatch pats host p rp qs = MFound h ms ->
  exists pt, In pt pats /\ (p_host pt = host \/ p_host pt = []) /\ p_h pt = h.
Proof.
  unfold mux_dispatch. cbv zeta.
  destruct (negb (exact_match _ _) && negb (last_is_slash _) && exact_match _ _); [discriminate|].
  destruct (negb (bytes_eqb _ _)); [discriminate|].
  destruct (tree_match pats host (segs_of (clean_path (escaped_path p rp)))) as [[[ps h'] ms']|] eqn:E; [|discriminate].
  intro X. injection X as -> _. eapply tree_match_In; eauto.
Qed.

(* ===================================================================================== *)
(* part 5: C19_confined                                                                   *)
(* ===================================================================================== *)

Definition is_file (r : resolved) : Prop := match r with File _ _ _ _ _ => True | _ => False end.

Lemma file_server_File root up qs hs r rel hs' up' qs' :
  file_server root up qs hs = File r rel hs' up' qs' -> r = root /\ rel = path_clean (rooted up).
Proof.
  unfold file_server. destruct (has_suffix _ _); [discriminate|]. intro H. injection H as <- <- _ _ _. auto.
Qed.

Lemma log_mux_File c root fp host p rp qs r rel hs up qs' :
  log_mux c root fp host p rp qs = File r rel hs up qs' -> r = root /\ exists x, rel = path_clean x.
Proof.
  unfold log_mux. destruct (mux_dispatch _ _ _ _ _) as [loc| |h ms]; try discriminate.
  destruct h; try discriminate; intro H; apply file_server_File in H; destruct H as [-> ->]; eauto.
Qed.

Lemma strip_prefix_has prefix p rp p' rp' :
  strip_prefix prefix p rp = Some (p', rp') -> exists rest, p = prefix ++ rest.
Proof.
  unfold strip_prefix. destruct prefix as [|a prefix]; [intros _; now exists p|].
  destruct ((length (trim_prefix (a :: prefix) p) <? length p)%nat) eqn:E; cbn [andb]; [|discriminate].
  intros _. unfold trim_prefix in E. destruct (cut_prefix (a :: prefix) p) as [r|] eqn:Ec.
  - exists r. clear E. revert p Ec. generalize (a :: prefix) as q. induction q as [|x q IH]; intros p Ec.
    + cbn in Ec. now injection Ec as ->.
    + destruct p as [|y p]; [discriminate|]. cbn [cut_prefix] in Ec.
      destruct (Byte.eqb x y) eqn:Exy; [|discriminate]. apply byte_eqb_eq in Exy. subst y.
      cbn [app]. f_equal. now apply IH.
  - apply Nat.ltb_lt in E. lia.
Qed.

Lemma strip_then_File prefix p rp hs k r rel hs' up qs :
  strip_then prefix p rp hs k = File r rel hs' up qs ->
  exists p' rp', strip_prefix prefix p rp = Some (p', rp') /\ k p' rp' = File r rel hs' up qs.
Proof.
  unfold strip_then. destruct (strip_prefix prefix p rp) as [[p' rp']|]; [|discriminate]. eauto.
Qed.

Lemma top_patterns_entry c pt :
  In pt (top_patterns c) ->
  match p_h pt with
  | HLog e => In e (c_logs c) /\ p_host pt = e_host e
  | HWitOrigin e | HWitMirror e | HWitMeta e | HMirMeta e => In e (c_wits c) /\ p_host pt = e_host e
  | _ => True
  end.
Proof.
  unfold top_patterns. intro H.
  repeat (apply in_app_or in H; destruct H as [H|H]).
  - destruct H as [<-|[]]. exact I.
  - destruct (is_nil (c_home c)); [contradiction|]. destruct H as [<-|[]]. exact I.
  - apply in_flat_map in H. destruct H as (e & He & Hp). destruct Hp as [<-|[]]. cbn. auto.
  - apply in_flat_map in H. destruct H as (e & He & Hp).
    cbn [wit_patterns_of In] in Hp. destruct Hp as [<-|[<-|[<-|[<-|[]]]]]; cbn; auto.
  - destruct H as [<-|[]]. destruct (c_logsjson c) as [[h s]|]; exact I.
  - destruct H as [<-|[]]. exact I.
Qed.

(* the directory a File result is served from belongs to a configured entry whose host is the
   request's (or empty) and whose prefix starts the decoded request path *)
Definition served_by (c : config) (host target : bytes) (root : N) : Prop :=
  exists e p rp rest,
    (In e (c_logs c) \/ In e (c_wits c)) /\ e_root e = root /\
    (e_host e = strip_host_port host \/ e_host e = []) /\
    set_path (fst (split_query target)) = Some (p, rp) /\
    p = prefix_path (e_prefix e) ++ rest.

Theorem c19_confined c host target root rel hs up qs :
  route c host target = File root rel hs up qs ->
  clean_rel rel /\ ~ In dotdot (split_slash (tl rel)) /\ served_by c host target root.
Proof.
  unfold route. destruct target as [|b t]; [discriminate|].
  destruct b; try discriminate.
  destruct (has_ctl _); [discriminate|].
  destruct (split_query (x2f :: t)) as [raw q] eqn:Eq.
  destruct (set_path raw) as [[p rp]|] eqn:Es; [|discriminate].
  unfold top_mux.
  destruct (mux_dispatch (top_patterns c) (strip_host_port host) p rp (query_suffix q)) as [loc| |h ms] eqn:Em;
    try discriminate.
  destruct (mux_dispatch_found _ _ _ _ _ _ _ Em) as (pt & Hpt & Hhost & Hh).
  pose proof (top_patterns_entry c pt Hpt) as He. rewrite Hh in He.
  assert (Hclean : forall x, clean_rel (path_clean x) /\ ~ In dotdot (split_slash (tl (path_clean x)))).
  { intro x. split; [apply path_clean_clean|apply clean_rel_no_dotdot, path_clean_clean]. }
  assert (Hsb : forall e rest, (In e (c_logs c) \/ In e (c_wits c)) -> p_host pt = e_host e ->
            p = prefix_path (e_prefix e) ++ rest -> served_by c host (x2f :: t) (e_root e)).
  { intros e rest Hin Hph Hp. exists e, p, rp, rest. rewrite Eq. cbn [fst].
    repeat split; auto. rewrite <- Hph. exact Hhost. }
  unfold top_handle. destruct h as [k| |e|e|e|e|e]; try discriminate.
  - (* log *)
    intro H. apply strip_then_File in H. destruct H as (p' & rp' & Hs & H).
    apply log_mux_File in H. destruct H as [-> (x & ->)].
    destruct (strip_prefix_has _ _ _ _ _ Hs) as (rest & Hp). destruct He as [He1 He2].
    destruct (Hclean x). repeat split; eauto.
  - intro H. apply strip_then_File in H. destruct H as (p' & rp' & Hs & H).
    apply log_mux_File in H. destruct H as [-> (x & ->)].
    destruct (strip_prefix_has _ _ _ _ _ Hs) as (rest & Hp). destruct He as [He1 He2].
    rewrite <- app_assoc in Hp. destruct (Hclean x). repeat split; eauto.
  - intro H. apply strip_then_File in H. destruct H as (p' & rp' & Hs & H).
    apply log_mux_File in H. destruct H as [-> (x & ->)].
    destruct (strip_prefix_has _ _ _ _ _ Hs) as (rest & Hp). destruct He as [He1 He2].
    rewrite <- app_assoc in Hp. destruct (Hclean x). repeat split; eauto.
  - intro H. apply strip_then_File in H. destruct H as (p' & rp' & Hs & H).
    apply file_server_File in H. destruct H as [-> ->].
    destruct (strip_prefix_has _ _ _ _ _ Hs) as (rest & Hp). destruct He as [He1 He2].
    destruct (Hclean (rooted p')). repeat split; eauto.
  - intro H. apply strip_then_File in H. destruct H as (p' & rp' & Hs & H).
    apply file_server_File in H. destruct H as [-> ->].
    destruct (strip_prefix_has _ _ _ _ _ Hs) as (rest & Hp). destruct He as [He1 He2].
    destruct (Hclean (rooted p')). repeat split; eauto.
Qed.

(* ===================================================================================== *)
(* part 6: routing of plain paths                                                         *)
(* ===================================================================================== *)

Lemma match_path_cons_plain {A} (cs : list (@cand A)) s rest ms : plain_seg s ->
  match_path cs (s :: rest) ms =
  match match_path (filter_map (adv_lit s) cs) rest ms with
  | Some r => Some r
  | None =>
    match match_path (filter_map adv_wild cs) rest (ms ++ [s]) with
    | Some r => Some r
    | None =>
      match find_multi cs with
      | Some (named, pl) => Some (pl, if named then ms ++ [path_unescape (join_with x2f (s :: rest))] else ms)
      | None => None
      end
    end
  end.
Proof.
  intro Hs. cbn [match_path]. destruct (plain_seg_flags s Hs) as (Hn & _). rewrite Hn. cbn [andb].
  rewrite path_unescape_safe by (apply plain_safe, Hs).
  assert (E : bytes_eqb s slash = false).
  { apply bytes_eqb_neq_false. intro X. subst s. destruct Hs as (Hp & _). discriminate Hp. }
  now rewrite E.
Qed.

(* candidates whose next segment is a literal other than seg: they do not take part in matching seg *)
Definition lit_other {A} (seg : bytes) (c : @cand A) : bool :=
  match fst c with PLit y :: _ => negb (bytes_eqb y seg) | _ => false end.

Lemma lit_other_adv {A} seg (l : list (@cand A)) :
  Forall (fun c => lit_other seg c = true) l ->
  filter_map (adv_lit seg) l = [] /\ filter_map adv_wild l = [] /\ find_multi l = None.
Proof.
  induction 1 as [|c l Hc Hl (I1 & I2 & I3)]; [auto|].
  unfold lit_other in Hc. cbn [filter_map find_multi]. unfold adv_lit, adv_wild, multi_of.
  destruct (fst c) as [|[y| |n] r]; try discriminate.
  apply negb_true_iff in Hc. rewrite Hc. destruct r; auto.
Qed.

Lemma find_multi_app {A} (a b : list (@cand A)) :
  find_multi (a ++ b) = match find_multi a with Some r => Some r | None => find_multi b end.
Proof. induction a as [|c a IH]; cbn [app find_multi]; [reflexivity|]. destruct (multi_of c); auto. Qed.

(* one multi-wildcard candidate among literals that do not match: the multi takes the rest *)
Lemma step_multi {A} (l1 l2 : list (@cand A)) n pl seg rest ms :
  plain_seg seg -> Forall (fun c => lit_other seg c = true) (l1 ++ l2) ->
  match_path (l1 ++ ([PMulti n], pl) :: l2) (seg :: rest) ms
  = Some (pl, if n then ms ++ [path_unescape (join_with x2f (seg :: rest))] else ms).
Proof.
  intros Hs H. apply Forall_app in H. destruct H as [H1 H2].
  destruct (lit_other_adv seg l1 H1) as (A1 & A2 & A3). destruct (lit_other_adv seg l2 H2) as (B1 & B2 & B3).
  rewrite match_path_cons_plain by assumption.
  rewrite !filter_map_app. cbn [filter_map adv_lit adv_wild fst]. rewrite A1, A2, B1, B2. cbn [app].
  rewrite !match_path_nil. rewrite find_multi_app, A3. cbn [find_multi multi_of fst snd]. reflexivity.
Qed.

(* one single-wildcard candidate among literals that do not match *)
Lemma step_wild {A} (l1 l2 : list (@cand A)) tail pl seg rest ms :
  plain_seg seg -> Forall (fun c => lit_other seg c = true) (l1 ++ l2) ->
  match_path (l1 ++ (PWild :: tail, pl) :: l2) (seg :: rest) ms
  = match_path [(tail, pl)] rest (ms ++ [seg]).
Proof.
  intros Hs H. apply Forall_app in H. destruct H as [H1 H2].
  destruct (lit_other_adv seg l1 H1) as (A1 & A2 & A3). destruct (lit_other_adv seg l2 H2) as (B1 & B2 & B3).
  rewrite match_path_cons_plain by assumption.
  rewrite !filter_map_app. cbn [filter_map adv_lit adv_wild fst snd]. rewrite A1, A2, B1, B2. cbn [app].
  rewrite match_path_nil. rewrite find_multi_app, A3. cbn [find_multi multi_of fst]. rewrite B3.
  match goal with |- match ?x with Some _ => _ | None => _ end = ?y => change y with x; destruct x; reflexivity end.
Qed.

Lemma filter_map_In_intro {X Y} (f : X -> option Y) l x y : In x l -> f x = Some y -> In y (filter_map f l).
Proof.
  induction l as [|a l IH]; [contradiction|]. intros [->|H] E; cbn [filter_map].
  - rewrite E. now left.
  - destruct (f a); [right|]; now apply IH.
Qed.

Lemma residual_keeps {A} P : forall (cs : list (@cand A)) tail pl,
  In (lits P ++ tail, pl) cs -> In (tail, pl) (residual cs P).
Proof.
  induction P as [|p P IH]; intros cs tail pl H; [exact H|].
  cbn [residual fold_left]. fold (residual (filter_map (adv_lit p) cs) P). apply IH.
  eapply filter_map_In_intro; [exact H|]. unfold adv_lit. cbn [lits map app fst snd].
  now rewrite bytes_eqb_refl.
Qed.

Lemma filter_nil_Forall {X} (f : X -> bool) l : filter f l = [] -> Forall (fun x => f x = false) l.
Proof.
  induction l as [|x l IH]; [constructor|]. cbn [filter]. destruct (f x) eqn:E; [discriminate|].
  intro H. constructor; auto.
Qed.

Lemma unique_split {X} (f : X -> bool) l x :
  In x l -> f x = true -> length (filter f l) = 1%nat ->
  exists l1 l2, l = l1 ++ x :: l2 /\ Forall (fun y => f y = false) (l1 ++ l2).
Proof.
  intros Hin Hf Hl. destruct (in_split _ _ Hin) as (l1 & l2 & ->). exists l1, l2. split; [reflexivity|].
  rewrite filter_app in Hl. cbn [filter] in Hl. rewrite Hf in Hl. rewrite app_length in Hl. cbn [length] in Hl.
  apply Forall_app. split; apply filter_nil_Forall.
  - destruct (filter f l1); [reflexivity|cbn [length] in Hl; lia].
  - destruct (filter f l2); [reflexivity|cbn [length] in Hl; lia].
Qed.

Lemma class_of_intro {H} (pats : list (pattern H)) p :
  In p pats -> In (p_segs p, (p_segs p, p_h p)) (class_of pats (p_host p) (p_get p)).
Proof.
  intro Hin. unfold class_of.
  apply (in_map (fun p => (p_segs p, (p_segs p, p_h p)))). apply filter_In. split; [assumption|].
  rewrite bytes_eqb_refl. destruct (p_get p); reflexivity.
Qed.

Lemma tree_match_host {H} (pats : list (pattern H)) host segs r :
  host <> [] -> match_path (class_of pats host true) segs [] = Some r -> tree_match pats host segs = Some r.
Proof.
  intros Hh Hm. unfold tree_match. destruct host; [congruence|]. cbn [is_nil]. now rewrite Hm.
Qed.

(* ServeMux.findHandler on a clean, plain path: no redirect *)
Lemma mux_dispatch_plain {H} (pats : list (pattern H)) host segs qs full h ms :
  segs <> [] -> Forall plain_seg segs ->
  tree_match pats host segs = Some ((full, h), ms) ->
  (last_multi full = false \/
   exists full2 h2 ms2, tree_match pats host (segs ++ [[]]) = Some ((full2, h2), ms2) /\
                        last_multi full2 = true /\ length full2 <> S (length segs)) ->
  mux_dispatch pats host (prefix_path segs) [] qs = MFound h ms.
Proof.
  intros Hne Hp Hm Hx. unfold mux_dispatch. cbv zeta.
  assert (Hsafe : safe (prefix_path segs)) by now apply safe_prefix_path.
  assert (Hstar : prefix_path segs <> [x2a]) by (rewrite prefix_path_join by assumption; discriminate).
  rewrite escaped_path_safe by assumption. rewrite clean_path_plain by assumption.
  rewrite segs_of_prefix_path by auto using Forall_plain_noslash.
  rewrite segs_of_prefix_path_slash by auto using Forall_plain_noslash.
  rewrite Hm, bytes_eqb_refl. cbn [negb].
  replace (negb (exact_match (Some (full, h, ms)) (prefix_path segs)) && negb (last_is_slash (prefix_path segs))
           && exact_match (tree_match pats host (segs ++ [[]])) (prefix_path segs ++ [x2f])) with false; [reflexivity|].
  symmetry. destruct Hx as [Hx|(full2 & h2 & ms2 & Hm2 & Hl2 & Hlen)].
  - unfold exact_match at 1. now rewrite Hx.
  - rewrite Hm2. unfold exact_match at 2. rewrite Hl2. cbn [negb].
    rewrite last_is_slash_snoc. cbn [negb andb]. rewrite segs_of_prefix_path_slash by auto using Forall_plain_noslash.
    rewrite app_length. cbn [length]. rewrite andb_false_iff. right.
    change (Byte.eqb x2f x2f) with true. cbn [negb]. rewrite andb_false_r.
    apply Nat.eqb_neq. lia.
Qed.

(* ===================================================================================== *)
(* part 7: the file server on plain names                                                 *)
(* ===================================================================================== *)

Lemma noslash_rev s : noslash s -> noslash (rev s).
Proof.
  unfold noslash. rewrite !forallb_forall. intros H x Hx. apply H. now apply in_rev.
Qed.

Lemma cut_prefix_slash_eq A : forall B C, noslash A -> noslash B ->
  cut_prefix (A ++ [x2f]) (B ++ x2f :: C) <> None -> A = B.
Proof.
  induction A as [|a A IH]; intros B C HA HB H.
  - destruct B as [|b B]; [reflexivity|]. exfalso. apply H. cbn [app cut_prefix].
    unfold noslash in HB. cbn [forallb] in HB. apply andb_true_iff in HB. destruct HB as [Hb _].
    unfold nsb in Hb. apply negb_true_iff in Hb.
    destruct (Byte.eqb x2f b) eqn:E; [|reflexivity]. apply byte_eqb_eq in E. subst b. discriminate Hb.
  - unfold noslash in HA. cbn [forallb] in HA. apply andb_true_iff in HA. destruct HA as [Ha HA].
    destruct B as [|b B].
    + exfalso. apply H. cbn [app cut_prefix]. unfold nsb in Ha. apply negb_true_iff in Ha. now rewrite Ha.
    + unfold noslash in HB. cbn [forallb] in HB. apply andb_true_iff in HB. destruct HB as [_ HB].
      cbn [app cut_prefix] in H. destruct (Byte.eqb a b) eqn:E; [|congruence].
      apply byte_eqb_eq in E. subst b. f_equal. eapply IH; eauto.
Qed.

Definition index_html : bytes := s2b "index.html".

Lemma no_index_suffix init l : noslash l -> l <> index_html ->
  has_suffix (s2b "/index.html") (prefix_path (init ++ [l])) = false.
Proof.
  intros Hl Hne. unfold has_suffix.
  destruct (cut_prefix (rev (s2b "/index.html")) (rev (prefix_path (init ++ [l])))) eqn:E; [|reflexivity].
  exfalso. apply Hne.
  rewrite prefix_path_app in E. unfold prefix_path at 2 in E. cbn [map concat] in E. rewrite app_nil_r in E.
  rewrite rev_app_distr in E. change (rev (x2f :: l)) with (rev l ++ [x2f]) in E. rewrite <- app_assoc in E.
  cbn [app] in E.
  change (rev (s2b "/index.html")) with (rev index_html ++ [x2f]) in E.
  assert (X : rev index_html = rev l).
  { eapply cut_prefix_slash_eq; [reflexivity|now apply noslash_rev|]. rewrite E. discriminate. }
  rewrite <- (rev_involutive l), <- X. reflexivity.
Qed.

Lemma file_server_plain root F L hs l init :
  L <> [] -> Forall plain_seg (F ++ L) -> F ++ L = init ++ [l] -> l <> index_html ->
  file_server root (prefix_path F ++ prefix_path L) [] hs
  = File root (prefix_path (F ++ L)) hs (prefix_path (F ++ L)) [].
Proof.
  intros HL Hp Hi Hl. unfold file_server. rewrite <- prefix_path_app.
  assert (Hne : F ++ L <> []) by (destruct F; [assumption|discriminate]).
  rewrite rooted_prefix_path by assumption.
  assert (Hnl : noslash l).
  { rewrite Hi in Hp. apply Forall_app in Hp. destruct Hp as [_ Hp]. inversion Hp; subst. now apply plain_seg_noslash. }
  rewrite Hi at 1. rewrite no_index_suffix by assumption.
  now rewrite path_clean_plain.
Qed.

(* ===================================================================================== *)
(* part 8: the inner mux                                                                  *)
(* ===================================================================================== *)

Lemma tree_match_log b host segs :
  tree_match (log_patterns b) host segs =
  orelse (match_path (class_of (log_patterns b) [] true) segs [])
         (match_path (class_of (log_patterns b) [] false) segs []).
Proof.
  unfold tree_match. destruct host as [|h0 host]; [reflexivity|]. cbn [is_nil].
  replace (class_of (log_patterns b) (h0 :: host) true) with (@nil (@cand log_h)) by (destruct b; reflexivity).
  replace (class_of (log_patterns b) (h0 :: host) false) with (@nil (@cand log_h)) by (destruct b; reflexivity).
  now rewrite !match_path_nil.
Qed.

Definition seg_checkpoint := s2b "checkpoint".
Definition seg_logjson := s2b "log.v3.json".
Definition seg_issuer := s2b "issuer".
Definition seg_tile := s2b "tile".

Lemma plain_seg_concrete s :
  forallb plain_char s = true -> is_nil s = false -> bytes_eqb s dot = false -> bytes_eqb s dotdot = false -> plain_seg s.
Proof.
  intros A B C D. repeat split; [exact A| | |]; intro X; subst s; discriminate.
Qed.

Ltac concrete_plain := apply plain_seg_concrete; vm_compute; reflexivity.

Lemma log_tree_checkpoint b host :
  tree_match (log_patterns b) host [seg_checkpoint] = Some (([PLit seg_checkpoint], LCheckpoint), []).
Proof. rewrite tree_match_log. destruct b; vm_compute; reflexivity. Qed.

Lemma log_tree_logjson b host :
  tree_match (log_patterns b) host [seg_logjson] = Some (([PLit seg_logjson], LLogJSON), []).
Proof. rewrite tree_match_log. destruct b; vm_compute; reflexivity. Qed.

Lemma log_tree_issuer b host fp : plain_seg fp ->
  tree_match (log_patterns b) host [seg_issuer; fp] = Some (([PLit seg_issuer; PWild], LIssuer), [fp]).
Proof.
  intro Hfp. rewrite tree_match_log. unfold orelse.
  rewrite match_path_cons_plain by concrete_plain.
  replace (filter_map (adv_lit seg_issuer) (class_of (log_patterns b) [] true))
    with [([PWild], ([PLit seg_issuer; PWild], LIssuer))] by (destruct b; vm_compute; reflexivity).
  rewrite match_path_cons_plain by assumption.
  cbn [filter_map adv_lit adv_wild fst snd]. rewrite match_path_nil.
  cbn [match_path find is_leaf is_nil fst snd app]. reflexivity.
Qed.

Lemma log_tree_tile b host t0 T :
  tree_match (log_patterns b) host (seg_tile :: t0 :: T)
  = Some (([PLit seg_tile; PMulti true], LTile), [path_unescape (join_with x2f (t0 :: T))]).
Proof.
  rewrite tree_match_log. unfold orelse.
  rewrite match_path_cons_plain by concrete_plain.
  replace (filter_map (adv_lit seg_tile) (class_of (log_patterns b) [] true))
    with [([PMulti true], ([PLit seg_tile; PMulti true], LTile))] by (destruct b; vm_compute; reflexivity).
  rewrite match_path_multi. reflexivity.
Qed.

(* ---- the inner mux on layout paths ---- *)

Lemma log_mux_checkpoint c root F host : Forall plain_seg F ->
  log_mux c root (prefix_path F) host (prefix_path [seg_checkpoint]) [] []
  = File root (prefix_path (F ++ [seg_checkpoint])) hs_checkpoint (prefix_path (F ++ [seg_checkpoint])) [].
Proof.
  intro HF. unfold log_mux.
  assert (Hp : Forall plain_seg [seg_checkpoint]) by (constructor; [concrete_plain|constructor]).
  rewrite (mux_dispatch_plain _ host [seg_checkpoint] [] _ LCheckpoint [])
    by (try discriminate; try assumption; try apply log_tree_checkpoint; left; reflexivity).
  apply (file_server_plain root F [seg_checkpoint] hs_checkpoint seg_checkpoint F);
    [discriminate|apply Forall_app; auto|reflexivity|discriminate].
Qed.

Lemma log_mux_logjson c root F host : Forall plain_seg F ->
  log_mux c root (prefix_path F) host (prefix_path [seg_logjson]) [] []
  = File root (prefix_path (F ++ [seg_logjson])) hs_json (prefix_path (F ++ [seg_logjson])) [].
Proof.
  intro HF. unfold log_mux.
  assert (Hp : Forall plain_seg [seg_logjson]) by (constructor; [concrete_plain|constructor]).
  rewrite (mux_dispatch_plain _ host [seg_logjson] [] _ LLogJSON [])
    by (try discriminate; try assumption; try apply log_tree_logjson; left; reflexivity).
  apply (file_server_plain root F [seg_logjson] hs_json seg_logjson F);
    [discriminate|apply Forall_app; auto|reflexivity|discriminate].
Qed.

Lemma log_mux_issuer c root F host fp : Forall plain_seg F -> plain_seg fp -> fp <> index_html ->
  log_mux c root (prefix_path F) host (prefix_path [seg_issuer; fp]) [] []
  = File root (prefix_path (F ++ [seg_issuer; fp])) hs_issuer (prefix_path (F ++ [seg_issuer; fp])) [].
Proof.
  intros HF Hfp Hni. unfold log_mux.
  assert (Hp : Forall plain_seg [seg_issuer; fp]) by (constructor; [concrete_plain|constructor; [assumption|constructor]]).
  rewrite (mux_dispatch_plain _ host [seg_issuer; fp] [] _ LIssuer [fp])
    by (try discriminate; try assumption; try (now apply log_tree_issuer); left; reflexivity).
  apply (file_server_plain root F [seg_issuer; fp] hs_issuer fp (F ++ [seg_issuer]));
    [discriminate|apply Forall_app; auto|now rewrite <- app_assoc|assumption].
Qed.

Lemma log_mux_tile c root F host t0 T init l :
  Forall plain_seg F -> Forall plain_seg (t0 :: T) -> t0 :: T = init ++ [l] -> l <> index_html ->
  log_mux c root (prefix_path F) host (prefix_path (seg_tile :: t0 :: T)) [] []
  = File root (prefix_path (F ++ seg_tile :: t0 :: T)) (tile_headers (join_with x2f (t0 :: T)))
         (prefix_path (F ++ seg_tile :: t0 :: T)) [].
Proof.
  intros HF HT Hi Hl. unfold log_mux.
  assert (Hp : Forall plain_seg (seg_tile :: t0 :: T)) by (constructor; [concrete_plain|assumption]).
  assert (Hsafe : safe (join_with x2f (t0 :: T))).
  { pose proof (safe_prefix_path (t0 :: T) HT) as S. rewrite prefix_path_join in S by discriminate.
    unfold safe in S. cbn [forallb] in S. apply andb_true_iff in S. apply S. }
  rewrite (mux_dispatch_plain _ host (seg_tile :: t0 :: T) [] [PLit seg_tile; PMulti true] LTile [join_with x2f (t0 :: T)]).
  - cbn [nth].
    apply (file_server_plain root F (seg_tile :: t0 :: T) _ l (F ++ seg_tile :: init));
      [discriminate|apply Forall_app; auto| |assumption].
    rewrite Hi. now rewrite <- app_assoc.
  - discriminate.
  - assumption.
  - rewrite log_tree_tile. now rewrite path_unescape_safe.
  - right. exists [PLit seg_tile; PMulti true], LTile.
    change ((seg_tile :: t0 :: T) ++ [[]]) with (seg_tile :: t0 :: (T ++ [[]])).
    rewrite log_tree_tile. eexists. split; [reflexivity|]. split; [reflexivity|]. cbn [length]. lia.
Qed.

(* ===================================================================================== *)
(* part 9: the outer mux on layout paths                                                  *)
(* ===================================================================================== *)

Definition reserved : list bytes := [seg_tile; seg_checkpoint; seg_issuer; seg_logjson].
Definition in_list (x : bytes) (l : list bytes) : bool := existsb (bytes_eqb x) l.

Definition host_get (c : config) (host : bytes) : list (@cand top_h) := class_of (top_patterns c) host true.

(* a candidate that cannot capture a log's layout: its next segment is a literal that is not
   one of tile, checkpoint, issuer, log.v3.json *)
Definition harmless_log (cd : @cand top_h) : bool :=
  match fst cd with PLit x :: _ => negb (in_list x reserved) | _ => false end.

(* nothing else registered for the host shadows the layout below the log's prefix *)
Definition log_unshadowed (c : config) (e : entry) : Prop :=
  length (filter (fun cd => negb (harmless_log cd)) (residual (host_get c (e_host e)) (e_prefix e))) = 1%nat.

Lemma route_plain c host segs : segs <> [] -> Forall plain_seg segs ->
  route c host (prefix_path segs) = top_mux c (strip_host_port host) (prefix_path segs) [] [].
Proof.
  intros Hne Hp. unfold route.
  pose proof (safe_prefix_path segs Hp) as Hs.
  destruct (prefix_path segs) as [|b t] eqn:E; [rewrite prefix_path_join in E by assumption; discriminate|].
  assert (b = x2f) by (rewrite prefix_path_join in E by assumption; now injection E). subst b.
  rewrite has_ctl_safe, split_query_safe, set_path_safe by assumption. reflexivity.
Qed.

Lemma strip_prefix_plain Q R : strip_prefix (prefix_path Q) (prefix_path Q ++ prefix_path R) [] = Some (prefix_path R, []) \/ (Q = [] /\ True).
Proof.
  destruct Q as [|q Q]; [right; auto|left].
  unfold strip_prefix. destruct (prefix_path (q :: Q)) as [|a pp] eqn:E; [discriminate E|].
  rewrite trim_prefix_app. cbn [is_nil orb andb].
  replace (length (prefix_path R) <? length ((a :: pp) ++ prefix_path R))%nat with true.
  - cbn [andb]. reflexivity.
  - symmetry. apply Nat.ltb_lt. rewrite app_length. cbn [length]. lia.
Qed.

Lemma strip_then_plain Q R hs k :
  strip_then (prefix_path Q) (prefix_path (Q ++ R)) [] hs k = k (prefix_path R) [].
Proof.
  unfold strip_then. rewrite prefix_path_app. destruct (strip_prefix_plain Q R) as [E|[-> _]].
  - now rewrite E.
  - reflexivity.
Qed.

Lemma In_top_log c e : In e (c_logs c) ->
  In (mkPat true (e_host e) (lits (e_prefix e) ++ [PMulti false]) (HLog e)) (top_patterns c).
Proof.
  intro H. unfold top_patterns. apply in_or_app. right. apply in_or_app. right. apply in_or_app. left.
  apply in_flat_map. exists e. split; [assumption|now left].
Qed.

Lemma In_top_wit c e pt : In e (c_wits c) -> In pt (wit_patterns_of e) -> In pt (top_patterns c).
Proof.
  intros H Hp. unfold top_patterns. apply in_or_app. right. apply in_or_app. right. apply in_or_app. right.
  apply in_or_app. left. apply in_flat_map. exists e. split; assumption.
Qed.

Lemma harmless_log_other l0 (l : list (@cand top_h)) : in_list l0 reserved = true ->
  Forall (fun y => negb (harmless_log y) = false) l -> Forall (fun cd => lit_other l0 cd = true) l.
Proof.
  intros Hr H. eapply Forall_impl; [|exact H]. intros cd Hc. apply negb_false_iff in Hc.
  unfold harmless_log in Hc. unfold lit_other. destruct (fst cd) as [|[y| |n] r]; try discriminate.
  apply negb_true_iff in Hc. apply negb_true_iff.
  destruct (bytes_eqb y l0) eqn:E; [|reflexivity]. apply bytes_eqb_eq in E. subst y. congruence.
Qed.

(* the outer tree sends prefix ++ layout path to the log *)
Lemma top_tree_log c e l0 L host :
  In e (c_logs c) -> e_host e <> [] -> host = e_host e -> Forall plain_seg (e_prefix e) -> log_unshadowed c e ->
  in_list l0 reserved = true -> plain_seg l0 ->
  tree_match (top_patterns c) host (e_prefix e ++ l0 :: L)
  = Some ((lits (e_prefix e) ++ [PMulti false], HLog e), []).
Proof.
  intros Hin Hh -> HP Hu Hr Hl0. apply tree_match_host; [assumption|].
  apply match_path_consume; [assumption|].
  set (x := ([PMulti false], (lits (e_prefix e) ++ [PMulti false], HLog e)) : @cand top_h).
  assert (Hx : In x (residual (class_of (top_patterns c) (e_host e) true) (e_prefix e))).
  { apply residual_keeps. exact (class_of_intro _ _ (In_top_log c e Hin)). }
  destruct (unique_split _ _ x Hx eq_refl Hu) as (l1 & l2 & E & Hoth).
  unfold host_get in E. rewrite E. unfold x.
  apply (step_multi l1 l2 false (lits (e_prefix e) ++ [PMulti false], HLog e) l0 L []); [assumption|].
  now apply harmless_log_other.
Qed.

Lemma top_mux_log c e L l0 L' host :
  In e (c_logs c) -> e_host e <> [] -> strip_host_port host = e_host e ->
  Forall plain_seg (e_prefix e) -> log_unshadowed c e ->
  L = l0 :: L' -> Forall plain_seg L -> in_list l0 reserved = true ->
  route c host (prefix_path (e_prefix e ++ L))
  = log_mux c (e_root e) [] (e_host e) (prefix_path L) [] [].
Proof.
  intros Hin Hh Hs HP Hu -> HL Hr.
  assert (Hl0 : plain_seg l0) by now inversion HL.
  assert (Hall : Forall plain_seg (e_prefix e ++ l0 :: L')) by (apply Forall_app; auto).
  assert (Hne : e_prefix e ++ l0 :: L' <> []) by (destruct (e_prefix e); discriminate).
  rewrite route_plain by assumption. rewrite Hs. unfold top_mux.
  rewrite (mux_dispatch_plain _ (e_host e) (e_prefix e ++ l0 :: L') [] (lits (e_prefix e) ++ [PMulti false]) (HLog e) []); try assumption.
  - unfold top_handle. now rewrite strip_then_plain.
  - now apply top_tree_log.
  - right. exists (lits (e_prefix e) ++ [PMulti false]), (HLog e), [].
    rewrite <- app_assoc. cbn [app]. split; [now apply top_tree_log|]. split.
    + unfold last_multi. rewrite rev_app_distr. reflexivity.
    + rewrite !app_length. unfold lits. rewrite map_length. cbn [length]. lia.
Qed.

(* ===================================================================================== *)
(* part 10: tile coordinates as path segments                                             *)
(* ===================================================================================== *)

Definition tile_first (t : tile) : bytes := if (t_L t =? -2)%Z then s2b "names" else lstr (t_L t).
Definition tile_segs (t : tile) : list bytes := tile_first t :: xgroups 30 (t_N t) ++ tailf (t_N t) (t_W t).

Lemma join_flat gs : forall rest, rest <> [] -> join_with x2f (gs ++ rest) = flat gs ++ join_with x2f rest.
Proof.
  induction gs as [|g gs IH]; intros rest Hr; [reflexivity|].
  cbn [app]. destruct (gs ++ rest) as [|y ys] eqn:E.
  - destruct gs; [cbn in E; congruence|discriminate].
  - change (join_with x2f (g :: y :: ys)) with (g ++ x2f :: join_with x2f (y :: ys)).
    rewrite <- E. rewrite (IH rest Hr). unfold flat. cbn [map concat]. rewrite <- !app_assoc. reflexivity.
Qed.

Lemma tailf_join n w : join_with x2f (tailf n w) = lastg n ++ wtail w.
Proof.
  unfold tailf, wtail. destruct (w =? 256)%Z.
  - cbn [join_with]. now rewrite app_nil_r.
  - cbn [join_with]. rewrite <- app_assoc. reflexivity.
Qed.

Lemma tailf_nonempty n w : tailf n w <> [].
Proof. unfold tailf. destruct (w =? 256)%Z; discriminate. Qed.

Lemma nstr_join n w : nstr n ++ wtail w = join_with x2f (xgroups 30 n ++ tailf n w).
Proof.
  rewrite join_flat by apply tailf_nonempty. rewrite tailf_join, nstr_spec. now rewrite <- app_assoc.
Qed.

Lemma valid_tile_inv t : valid_tile t = true ->
  t_H t = 8%Z /\ (-2 <= t_L t < two63)%Z /\ (0 <= t_N t < two63)%Z /\ (1 <= t_W t <= 256)%Z.
Proof. unfold valid_tile. rewrite !andb_true_iff. lia. Qed.

Lemma tile_path_segs t : valid_tile t = true ->
  tile_path t = Some (join_with x2f (seg_tile :: tile_segs t)).
Proof.
  intro Hv. destruct (valid_tile_inv t Hv) as (Hh & Hl & Hn & Hw). destruct t as [h l n w].
  cbn [t_H t_L t_N t_W] in *. subst h. unfold tile_path, tile_segs, tile_first. cbn [t_H t_L t_N t_W].
  change (negb (8 =? 8)%Z) with false. cbv iota.
  assert (J : forall first, join_with x2f (seg_tile :: first :: xgroups 30 n ++ tailf n w)
                      = seg_tile ++ x2f :: first ++ x2f :: join_with x2f (xgroups 30 n ++ tailf n w)).
  { intro first. destruct (xgroups 30 n ++ tailf n w) eqn:E; [|reflexivity].
    exfalso. destruct (xgroups 30 n); [now apply (tailf_nonempty n w)|discriminate]. }
  destruct (Z.eqb_spec l (-2)).
  - f_equal. rewrite tlog_path_8.
    change (s2b "tile/8/" ++ lstr (-1) ++ x2f :: nstr n ++ wtail w) with (s2b "tile/8/data/" ++ nstr n ++ wtail w).
    rewrite trim_prefix_app, J, nstr_join. reflexivity.
  - f_equal. rewrite tlog_path_8, trim_prefix_app, J, <- nstr_join. reflexivity.
Qed.

Definition digit_plain (b : byte) : bool := implb (is_digit b) (plain_char b && negb (Byte.eqb b x2e) && negb (Byte.eqb b x69)).
Lemma digit_sweep b : digit_plain b = true.
Proof. destruct b; reflexivity. Qed.

Lemma digit_facts b : is_digit b = true -> plain_char b = true /\ b <> x2e /\ b <> x69.
Proof.
  intro H. pose proof (digit_sweep b) as S. unfold digit_plain in S. rewrite H in S. cbn [implb] in S.
  rewrite !andb_true_iff in S. destruct S as [[A B] C]. apply negb_true_iff in B, C.
  repeat split; [assumption| |]; intro X; subst b; discriminate.
Qed.

Lemma alldig_plain s : alldig s -> plain s.
Proof.
  unfold alldig, plain. induction s as [|b s IH]; cbn [forallb]; [reflexivity|]. intro H.
  apply andb_true_iff in H. destruct H as [H1 H2]. destruct (digit_facts b H1) as (A & _). now rewrite A, IH.
Qed.

(* a string that starts with a byte other than "." is not "." or ".." *)
Lemma first_not_dot b r : b <> x2e -> plain (b :: r) -> plain_seg (b :: r).
Proof.
  intros Hb Hp. repeat split; [assumption|discriminate| |]; intro X; injection X as X _; contradiction.
Qed.

Lemma digits_plain_seg s : alldig s -> s <> [] -> plain_seg s /\ s <> index_html.
Proof.
  intros Hd Hne. destruct s as [|b r]; [congruence|].
  assert (Hb : is_digit b = true) by (unfold alldig in Hd; cbn [forallb] in Hd; apply andb_true_iff in Hd; tauto).
  destruct (digit_facts b Hb) as (_ & H1 & H2). split.
  - apply first_not_dot; [assumption|now apply alldig_plain].
  - intro X. injection X as X _. contradiction.
Qed.

Lemma plain_app a b : plain a -> plain b -> plain (a ++ b).
Proof. unfold plain. intros A B. now rewrite forallb_app, A, B. Qed.

Lemma lastg_seg n : plain_seg (lastg n) /\ lastg n <> index_html.
Proof.
  unfold lastg. destruct (group_facts (Z.to_N (n mod 1000))) as [A _]; [lia|].
  apply digits_plain_seg; [assumption|].
  destruct (pad3_nonempty (Z.to_N (n mod 1000))) as (b & r & E & _); [lia|]. rewrite E. discriminate.
Qed.

Lemma decZ_seg z : (0 <= z < two63)%Z -> plain_seg (decZ z) /\ decZ z <> index_html.
Proof.
  intro H. rewrite decZ_nonneg by lia.
  destruct (dec_spec (Z.to_N z)) as (Hne & Hd & _); [unfold two63 in H; lia|].
  now apply digits_plain_seg.
Qed.

Lemma xgroup_seg m : plain_seg (xgroup m).
Proof.
  unfold xgroup. apply first_not_dot; [discriminate|].
  change (x78 :: pad3 (Z.to_N (m mod 1000))) with ([x78] ++ pad3 (Z.to_N (m mod 1000))).
  apply plain_app; [reflexivity|]. apply alldig_plain. apply group_facts. lia.
Qed.

Lemma xgroups_seg fuel : forall n, Forall plain_seg (xgroups fuel n).
Proof.
  induction fuel as [|f IH]; intro n; cbn [xgroups]; [constructor|].
  destruct (n >=? 1000)%Z; [|constructor].
  apply Forall_app. split; [apply IH|]. constructor; [apply xgroup_seg|constructor].
Qed.

Lemma lstr_seg l : (-1 <= l < two63)%Z -> plain_seg (lstr l).
Proof.
  intro H. unfold lstr. destruct (Z.eqb_spec l (-1)); [concrete_plain|]. apply decZ_seg. lia.
Qed.

Lemma tailf_seg n w : (1 <= w <= 256)%Z ->
  Forall plain_seg (tailf n w) /\ exists init l, tailf n w = init ++ [l] /\ l <> index_html.
Proof.
  intro Hw. unfold tailf. destruct (lastg_seg n) as [A B]. destruct (Z.eqb_spec w 256).
  - split; [constructor; [assumption|constructor]|]. exists [], (lastg n). auto.
  - destruct (decZ_seg w) as [C D]; [unfold two63; lia|]. split.
    + constructor; [|constructor; [assumption|constructor]].
      destruct (lastg n) as [|b r] eqn:E; [destruct A as (_ & X & _); congruence|].
      cbn [app]. apply first_not_dot.
      * intro X. subst b. destruct A as (_ & _ & A1 & A2).
        destruct (group_facts (Z.to_N (n mod 1000))) as [G _]; [lia|]. unfold lastg in E. rewrite E in G.
        unfold alldig in G. cbn [forallb] in G. apply andb_true_iff in G. destruct G as [G _]. discriminate G.
      * change (b :: r ++ s2b ".p") with ((b :: r) ++ s2b ".p"). apply plain_app; [apply A|reflexivity].
    + exists [lastg n ++ s2b ".p"], (decZ w). auto.
Qed.

Lemma tile_segs_facts t : valid_tile t = true ->
  Forall plain_seg (tile_segs t) /\ exists init l, tile_segs t = init ++ [l] /\ l <> index_html.
Proof.
  intro Hv. destruct (valid_tile_inv t Hv) as (Hh & Hl & Hn & Hw). unfold tile_segs.
  destruct (tailf_seg (t_N t) (t_W t) Hw) as [A (init & l & E & Hl')]. split.
  - constructor.
    + unfold tile_first. destruct (Z.eqb_spec (t_L t) (-2)); [concrete_plain|apply lstr_seg; lia].
    + apply Forall_app. split; [apply xgroups_seg|assumption].
  - exists (tile_first t :: xgroups 30 (t_N t) ++ init), l. split; [|assumption].
    rewrite E. cbn [app]. now rewrite app_assoc.
Qed.

Lemma Some_inj {X} (a b : X) : Some a = Some b -> a = b.
Proof. intro H. now injection H. Qed.

Lemma tile_level_segs t : valid_tile t = true ->
  tile_level (s2b "tile/" ++ join_with x2f (tile_segs t)) = t_L t.
Proof.
  intro Hv. destruct (path_roundtrip t Hv) as (s & Hs & Hp).
  rewrite tile_path_segs in Hs by assumption. apply Some_inj in Hs. subst s.
  unfold tile_level.
  replace (s2b "tile/" ++ join_with x2f (tile_segs t)) with (join_with x2f (seg_tile :: tile_segs t)).
  - now rewrite Hp.
  - unfold tile_segs. reflexivity.
Qed.

(* ===================================================================================== *)
(* part 11: C19_layout for logs                                                           *)
(* ===================================================================================== *)

(* what the theorems ask of a configured log: a host, a plain prefix, nothing shadowing it *)
Definition log_ok (c : config) (e : entry) (host : bytes) : Prop :=
  In e (c_logs c) /\ e_host e <> [] /\ strip_host_port host = e_host e /\
  Forall plain_seg (e_prefix e) /\ log_unshadowed c e.

Lemma layout_target P L : L <> [] -> prefix_path P ++ x2f :: join_with x2f L = prefix_path (P ++ L).
Proof. intro H. rewrite prefix_path_app, (prefix_path_join L) by assumption. reflexivity. Qed.

Theorem c19_layout_tile c e host t : log_ok c e host -> valid_tile t = true ->
  exists s, tile_path t = Some s /\
    route c host (prefix_path (e_prefix e) ++ x2f :: s)
    = File (e_root e) (x2f :: s) (headers_for_level (t_L t)) (x2f :: s) [].
Proof.
  intros (Hin & Hh & Hs & HP & Hu) Hv. exists (join_with x2f (seg_tile :: tile_segs t)).
  split; [now apply tile_path_segs|].
  destruct (tile_segs_facts t Hv) as (Hpl & init & l & Hi & Hl).
  rewrite layout_target by discriminate.
  rewrite (top_mux_log c e (seg_tile :: tile_segs t) seg_tile (tile_segs t) host); auto.
  2:{ constructor; [concrete_plain|assumption]. }
  unfold tile_segs in *. change (@nil byte) with (prefix_path []) at 1.
  rewrite (log_mux_tile c (e_root e) [] (e_host e) _ _ init l); auto.
  cbn [app]. rewrite <- prefix_path_join by discriminate.
  unfold tile_headers. fold (tile_segs t). rewrite tile_level_segs by assumption. reflexivity.
Qed.

Theorem c19_layout_checkpoint c e host : log_ok c e host ->
  route c host (prefix_path (e_prefix e) ++ s2b "/checkpoint")
  = File (e_root e) (s2b "/checkpoint") hs_checkpoint (s2b "/checkpoint") [].
Proof.
  intros (Hin & Hh & Hs & HP & Hu).
  change (s2b "/checkpoint") with (x2f :: join_with x2f [seg_checkpoint]).
  rewrite layout_target by discriminate.
  rewrite (top_mux_log c e [seg_checkpoint] seg_checkpoint [] host); auto.
  2:{ constructor; [concrete_plain|constructor]. }
  change (@nil byte) with (prefix_path []) at 1. now rewrite log_mux_checkpoint.
Qed.

Theorem c19_layout_logjson c e host : log_ok c e host ->
  route c host (prefix_path (e_prefix e) ++ s2b "/log.v3.json")
  = File (e_root e) (s2b "/log.v3.json") hs_json (s2b "/log.v3.json") [].
Proof.
  intros (Hin & Hh & Hs & HP & Hu).
  change (s2b "/log.v3.json") with (x2f :: join_with x2f [seg_logjson]).
  rewrite layout_target by discriminate.
  rewrite (top_mux_log c e [seg_logjson] seg_logjson [] host); auto.
  2:{ constructor; [concrete_plain|constructor]. }
  change (@nil byte) with (prefix_path []) at 1. now rewrite log_mux_logjson.
Qed.

Theorem c19_layout_issuer c e host fp : log_ok c e host -> plain_seg fp -> fp <> index_html ->
  route c host (prefix_path (e_prefix e) ++ s2b "/issuer/" ++ fp)
  = File (e_root e) (s2b "/issuer/" ++ fp) hs_issuer (s2b "/issuer/" ++ fp) [].
Proof.
  intros (Hin & Hh & Hs & HP & Hu) Hfp Hni.
  change (s2b "/issuer/" ++ fp) with (x2f :: join_with x2f [seg_issuer; fp]).
  rewrite layout_target by discriminate.
  rewrite (top_mux_log c e [seg_issuer; fp] seg_issuer [fp] host); auto.
  2:{ constructor; [concrete_plain|constructor; [assumption|constructor]]. }
  change (@nil byte) with (prefix_path []) at 1. rewrite log_mux_issuer by auto.
  cbn [app]. rewrite prefix_path_join by discriminate. reflexivity.
Qed.

(* ===================================================================================== *)
(* part 12: C19_layout for witnesses and mirrors                                          *)
(* ===================================================================================== *)

Definition is_lower_hex (b : byte) : bool := in_range 48 57 b || in_range 97 102 b.
(* the name of a log below a witness prefix: hex of a SHA-256, lower case *)
Definition hash_seg (s : bytes) : bool := (length s =? 64)%nat && forallb is_lower_hex s.

Definition hex_plain (b : byte) : bool := implb (is_lower_hex b) (plain_char b).
Lemma hex_sweep b : hex_plain b = true.
Proof. destruct b; reflexivity. Qed.

Lemma hash_seg_plain o : hash_seg o = true -> plain_seg o /\ o <> index_html.
Proof.
  unfold hash_seg. rewrite andb_true_iff. intros [Hl Hh]. apply Nat.eqb_eq in Hl.
  assert (Hp : plain o).
  { unfold plain. rewrite forallb_forall in *. intros b Hb. specialize (Hh b Hb).
    pose proof (hex_sweep b) as S. unfold hex_plain in S. now rewrite Hh in S. }
  repeat split; try assumption; intro X; subst o; discriminate Hl.
Qed.

Definition harmless_wit (cd : @cand top_h) : bool :=
  match fst cd with PLit x :: _ => negb (hash_seg x) | _ => false end.

(* below the literal prefix Q of the host, exactly one registered pattern continues with a wildcard *)
Definition wild_unshadowed (c : config) (host : bytes) (Q : list bytes) : Prop :=
  length (filter (fun cd => negb (harmless_wit cd)) (residual (host_get c host) Q)) = 1%nat.

(* exactly one registered pattern of the host is the literal path Q *)
Definition leaf_unshadowed (c : config) (host : bytes) (Q : list bytes) : Prop :=
  length (filter is_leaf (residual (host_get c host) Q)) = 1%nat.

Lemma harmless_wit_other o (l : list (@cand top_h)) : hash_seg o = true ->
  Forall (fun y => negb (harmless_wit y) = false) l -> Forall (fun cd => lit_other o cd = true) l.
Proof.
  intros Ho H. eapply Forall_impl; [|exact H]. intros cd Hc. apply negb_false_iff in Hc.
  unfold harmless_wit in Hc. unfold lit_other. destruct (fst cd) as [|[y| |n] r]; try discriminate.
  apply negb_true_iff in Hc. apply negb_true_iff.
  destruct (bytes_eqb y o) eqn:E; [|reflexivity]. apply bytes_eqb_eq in E. subst y. congruence.
Qed.

Lemma top_tree_wild c hh Q h o r0 R :
  In (mkPat true hh (lits Q ++ [PWild; PMulti false]) h) (top_patterns c) ->
  hh <> [] -> Forall plain_seg Q -> wild_unshadowed c hh Q -> hash_seg o = true ->
  tree_match (top_patterns c) hh (Q ++ o :: r0 :: R) = Some ((lits Q ++ [PWild; PMulti false], h), [o]).
Proof.
  intros Hin Hh HQ Hu Ho. apply tree_match_host; [assumption|].
  apply match_path_consume; [assumption|].
  set (full := lits Q ++ [PWild; PMulti false]).
  set (x := ([PWild; PMulti false], (full, h)) : @cand top_h).
  assert (Hx : In x (residual (class_of (top_patterns c) hh true) Q)).
  { apply residual_keeps. exact (class_of_intro _ _ Hin). }
  destruct (unique_split _ _ x Hx eq_refl Hu) as (l1 & l2 & E & Hoth).
  unfold host_get in E. rewrite E. unfold x.
  destruct (hash_seg_plain o Ho) as [Hop _].
  etransitivity; [apply (step_wild l1 l2 [PMulti false] (full, h) o (r0 :: R) []);
                  [assumption|now apply harmless_wit_other]|].
  apply (match_path_multi false (full, h) r0 R ([] ++ [o])).
Qed.

Lemma find_skip {X} (f : X -> bool) l1 x l2 :
  Forall (fun y => f y = false) l1 -> f x = true -> find f (l1 ++ x :: l2) = Some x.
Proof.
  induction 1 as [|y l Hy Hl IH]; intro Hx; cbn [app find]; [now rewrite Hx|]. rewrite Hy. now apply IH.
Qed.

Lemma top_tree_leaf c hh Q h :
  In (mkPat true hh (lits Q) h) (top_patterns c) ->
  hh <> [] -> Forall plain_seg Q -> leaf_unshadowed c hh Q ->
  tree_match (top_patterns c) hh Q = Some ((lits Q, h), []).
Proof.
  intros Hin Hh HQ Hu. apply tree_match_host; [assumption|].
  rewrite <- (app_nil_r Q) at 1. apply match_path_consume; [assumption|].
  set (x := ([], (lits Q, h)) : @cand top_h).
  assert (Hx : In x (residual (class_of (top_patterns c) hh true) Q)).
  { apply residual_keeps. rewrite app_nil_r. exact (class_of_intro _ _ Hin). }
  destruct (unique_split _ _ x Hx eq_refl Hu) as (l1 & l2 & E & Hoth).
  unfold host_get in E. rewrite E. cbn [match_path].
  apply Forall_app in Hoth. destruct Hoth as [H1 _].
  rewrite (find_skip is_leaf l1 x l2 H1 eq_refl). reflexivity.
Qed.

Lemma lits_app a b : lits (a ++ b) = lits a ++ lits b.
Proof. unfold lits. apply map_app. Qed.

Lemma last_multi_lits Q : last_multi (lits Q) = false.
Proof.
  unfold last_multi, lits. rewrite <- map_rev. destruct (rev Q); reflexivity.
Qed.

Lemma prefix_path_one s : prefix_path [s] = x2f :: s.
Proof. unfold prefix_path. cbn [map concat]. now rewrite app_nil_r. Qed.

Definition seg_mirror := s2b "mirror".
Definition seg_witness_json := s2b "witness.v0.json".
Definition seg_mirror_json := s2b "mirror.v0.json".

(* what the theorems ask of a configured witness *)
Definition wit_ok (c : config) (e : entry) (host : bytes) : Prop :=
  In e (c_wits c) /\ e_host e <> [] /\ strip_host_port host = e_host e /\ Forall plain_seg (e_prefix e).

(* generic: a "{origin}/" subtree below the literal prefix Q, files re-prefixed with F ++ [origin] *)
Lemma route_wild_subtree c e host Q F h o L r0 R :
  wit_ok c e host ->
  In (mkPat true (e_host e) (lits Q ++ [PWild; PMulti false]) h) (top_patterns c) ->
  Forall plain_seg Q -> wild_unshadowed c (e_host e) Q -> hash_seg o = true ->
  L = r0 :: R -> Forall plain_seg L ->
  (forall p rp qs ms, top_handle c (e_host e) p rp qs h ms =
     strip_then (prefix_path Q ++ x2f :: nth 0 ms []) p rp hs0
       (fun p' rp' => log_mux c (e_root e) (prefix_path F ++ x2f :: nth 0 ms []) (e_host e) p' rp' qs)) ->
  route c host (prefix_path (Q ++ o :: L))
  = log_mux c (e_root e) (prefix_path (F ++ [o])) (e_host e) (prefix_path L) [] [].
Proof.
  intros (Hin & Hh & Hs & HP) Hpat HQ Hu Ho -> HL Hhandle.
  destruct (hash_seg_plain o Ho) as [Hop _].
  assert (Hall : Forall plain_seg (Q ++ o :: r0 :: R)) by (apply Forall_app; split; [assumption|now constructor]).
  assert (Hne : Q ++ o :: r0 :: R <> []) by (destruct Q; discriminate).
  rewrite route_plain by assumption. rewrite Hs. unfold top_mux.
  rewrite (mux_dispatch_plain _ (e_host e) (Q ++ o :: r0 :: R) [] (lits Q ++ [PWild; PMulti false]) h [o]); try assumption.
  - rewrite Hhandle. cbn [nth].
    replace (prefix_path Q ++ x2f :: o) with (prefix_path (Q ++ [o])) by (now rewrite prefix_path_app, prefix_path_one).
    replace (Q ++ o :: r0 :: R) with ((Q ++ [o]) ++ r0 :: R) by (now rewrite <- app_assoc).
    rewrite strip_then_plain. now rewrite prefix_path_app, prefix_path_one.
  - now apply top_tree_wild.
  - right. exists (lits Q ++ [PWild; PMulti false]), h, [o].
    rewrite <- app_assoc. cbn [app]. split; [now apply top_tree_wild|]. split.
    + unfold last_multi. rewrite rev_app_distr. reflexivity.
    + rewrite !app_length. unfold lits. rewrite map_length. cbn [length]. lia.
Qed.

Lemma In_wit_origin c e : In e (c_wits c) ->
  In (mkPat true (e_host e) (lits (e_prefix e) ++ [PWild; PMulti false]) (HWitOrigin e)) (top_patterns c).
Proof. intro H. apply (In_top_wit c e _ H). cbn. auto. Qed.

Lemma In_wit_mirror c e : In e (c_wits c) ->
  In (mkPat true (e_host e) (lits (e_prefix e ++ [seg_mirror]) ++ [PWild; PMulti false]) (HWitMirror e)) (top_patterns c).
Proof.
  intro H. apply (In_top_wit c e _ H). rewrite lits_app, <- app_assoc. cbn. auto.
Qed.

Theorem c19_layout_witness_checkpoint c e host o :
  wit_ok c e host -> wild_unshadowed c (e_host e) (e_prefix e) -> hash_seg o = true ->
  route c host (prefix_path (e_prefix e) ++ x2f :: o ++ s2b "/checkpoint")
  = File (e_root e) (x2f :: o ++ s2b "/checkpoint") hs_checkpoint (x2f :: o ++ s2b "/checkpoint") [].
Proof.
  intros Hok Hu Ho. pose proof Hok as (Hin & Hh & Hs & HP).
  destruct (hash_seg_plain o Ho) as [Hop _].
  assert (E : x2f :: o ++ s2b "/checkpoint" = prefix_path [o; seg_checkpoint])
    by (unfold prefix_path; cbn [map concat]; now rewrite app_nil_r).
  rewrite E, <- prefix_path_app.
  rewrite (route_wild_subtree c e host (e_prefix e) [] (HWitOrigin e) o [seg_checkpoint] seg_checkpoint []); auto.
  - rewrite log_mux_checkpoint by (constructor; [assumption|constructor]). reflexivity.
  - now apply In_wit_origin.
  - constructor; [concrete_plain|constructor].
Qed.

Theorem c19_layout_mirror_checkpoint c e host o :
  wit_ok c e host -> wild_unshadowed c (e_host e) (e_prefix e ++ [seg_mirror]) -> hash_seg o = true ->
  route c host (prefix_path (e_prefix e) ++ s2b "/mirror/" ++ o ++ s2b "/checkpoint")
  = File (e_root e) (s2b "/mirror/" ++ o ++ s2b "/checkpoint") hs_checkpoint (s2b "/mirror/" ++ o ++ s2b "/checkpoint") [].
Proof.
  intros Hok Hu Ho. pose proof Hok as (Hin & Hh & Hs & HP).
  destruct (hash_seg_plain o Ho) as [Hop _].
  assert (Hm : plain_seg seg_mirror) by concrete_plain.
  assert (E : s2b "/mirror/" ++ o ++ s2b "/checkpoint" = prefix_path [seg_mirror; o; seg_checkpoint])
    by (unfold prefix_path; cbn [map concat]; now rewrite app_nil_r).
  rewrite E, <- prefix_path_app.
  replace (e_prefix e ++ [seg_mirror; o; seg_checkpoint]) with ((e_prefix e ++ [seg_mirror]) ++ o :: [seg_checkpoint])
    by (now rewrite <- app_assoc).
  rewrite (route_wild_subtree c e host (e_prefix e ++ [seg_mirror]) [seg_mirror] (HWitMirror e) o [seg_checkpoint] seg_checkpoint []); auto.
  - rewrite log_mux_checkpoint by (constructor; [assumption|constructor; [assumption|constructor]]). reflexivity.
  - now apply In_wit_mirror.
  - apply Forall_app. split; [assumption|constructor; [assumption|constructor]].
  - constructor; [concrete_plain|constructor].
  - intros p rp qs ms. unfold top_handle. cbv zeta.
    rewrite prefix_path_app, !prefix_path_one, <- !app_assoc. reflexivity.
Qed.

Theorem c19_layout_mirror_tile c e host o t :
  wit_ok c e host -> wild_unshadowed c (e_host e) (e_prefix e ++ [seg_mirror]) -> hash_seg o = true ->
  valid_tile t = true ->
  exists s, tile_path t = Some s /\
    route c host (prefix_path (e_prefix e) ++ s2b "/mirror/" ++ o ++ x2f :: s)
    = File (e_root e) (s2b "/mirror/" ++ o ++ x2f :: s) (headers_for_level (t_L t)) (s2b "/mirror/" ++ o ++ x2f :: s) [].
Proof.
  intros Hok Hu Ho Hv. pose proof Hok as (Hin & Hh & Hs & HP).
  exists (join_with x2f (seg_tile :: tile_segs t)). split; [now apply tile_path_segs|].
  destruct (hash_seg_plain o Ho) as [Hop _].
  destruct (tile_segs_facts t Hv) as (Hpl & init & l & Hi & Hl).
  assert (Hm : plain_seg seg_mirror) by concrete_plain.
  assert (E : s2b "/mirror/" ++ o ++ x2f :: join_with x2f (seg_tile :: tile_segs t)
              = prefix_path ([seg_mirror; o] ++ seg_tile :: tile_segs t)).
  { rewrite prefix_path_app, (prefix_path_join (seg_tile :: tile_segs t)) by discriminate.
    unfold prefix_path at 1. cbn [map concat]. now rewrite app_nil_r, <- app_assoc. }
  rewrite E, <- prefix_path_app.
  replace (e_prefix e ++ [seg_mirror; o] ++ seg_tile :: tile_segs t)
    with ((e_prefix e ++ [seg_mirror]) ++ o :: seg_tile :: tile_segs t) by (now rewrite <- app_assoc).
  rewrite (route_wild_subtree c e host (e_prefix e ++ [seg_mirror]) [seg_mirror] (HWitMirror e) o
             (seg_tile :: tile_segs t) seg_tile (tile_segs t)); auto.
  - unfold tile_segs in *.
    rewrite (log_mux_tile c (e_root e) [seg_mirror; o] (e_host e) _ _ init l); auto;
      try (constructor; [assumption|constructor; [assumption|constructor]]).
    unfold tile_headers. fold (tile_segs t). rewrite tile_level_segs by assumption. reflexivity.
  - now apply In_wit_mirror.
  - apply Forall_app. split; [assumption|constructor; [assumption|constructor]].
  - constructor; [concrete_plain|assumption].
  - intros p rp qs ms. unfold top_handle. cbv zeta.
    rewrite prefix_path_app, !prefix_path_one, <- !app_assoc. reflexivity.
Qed.

(* the metadata files *)
Lemma route_meta c e host Q name h :
  wit_ok c e host ->
  In (mkPat true (e_host e) (lits (e_prefix e ++ Q ++ [name])) h) (top_patterns c) ->
  Forall plain_seg (Q ++ [name]) -> name <> index_html -> leaf_unshadowed c (e_host e) (e_prefix e ++ Q ++ [name]) ->
  (forall p rp qs ms, top_handle c (e_host e) p rp qs h ms =
     strip_then (prefix_path (e_prefix e)) p rp hs_json (fun p' _ => file_server (e_root e) p' qs hs_json)) ->
  route c host (prefix_path (e_prefix e ++ Q ++ [name]))
  = File (e_root e) (prefix_path (Q ++ [name])) hs_json (prefix_path (Q ++ [name])) [].
Proof.
  intros (Hin & Hh & Hs & HP) Hpat HQ Hn Hu Hhandle.
  assert (Hall : Forall plain_seg (e_prefix e ++ Q ++ [name])) by (apply Forall_app; auto).
  assert (Hne : e_prefix e ++ Q ++ [name] <> []) by (destruct (e_prefix e); [destruct Q; discriminate|discriminate]).
  rewrite route_plain by assumption. rewrite Hs. unfold top_mux.
  rewrite (mux_dispatch_plain _ (e_host e) (e_prefix e ++ Q ++ [name]) [] (lits (e_prefix e ++ Q ++ [name])) h []); try assumption.
  - rewrite Hhandle, strip_then_plain.
    rewrite <- (app_nil_l (prefix_path (Q ++ [name]))) at 1. change (@nil byte) with (prefix_path []) at 1.
    apply (file_server_plain (e_root e) [] (Q ++ [name]) hs_json name Q); auto.
    destruct Q; discriminate.
  - now apply top_tree_leaf.
  - left. apply last_multi_lits.
Qed.

Theorem c19_layout_witness_json c e host :
  wit_ok c e host -> leaf_unshadowed c (e_host e) (e_prefix e ++ [seg_witness_json]) ->
  route c host (prefix_path (e_prefix e) ++ s2b "/witness.v0.json")
  = File (e_root e) (s2b "/witness.v0.json") hs_json (s2b "/witness.v0.json") [].
Proof.
  intros Hok Hu. pose proof Hok as (Hin & Hh & Hs & HP).
  change (s2b "/witness.v0.json") with (x2f :: join_with x2f [seg_witness_json]).
  rewrite layout_target by discriminate. rewrite <- prefix_path_join by discriminate.
  apply (route_meta c e host [] seg_witness_json (HWitMeta e)); auto.
  - apply (In_top_wit c e _ Hin). cbn [app]. rewrite lits_app. cbn. auto.
  - constructor; [concrete_plain|constructor].
  - discriminate.
Qed.

Theorem c19_layout_mirror_json c e host :
  wit_ok c e host -> leaf_unshadowed c (e_host e) (e_prefix e ++ [seg_mirror; seg_mirror_json]) ->
  route c host (prefix_path (e_prefix e) ++ s2b "/mirror/mirror.v0.json")
  = File (e_root e) (s2b "/mirror/mirror.v0.json") hs_json (s2b "/mirror/mirror.v0.json") [].
Proof.
  intros Hok Hu. pose proof Hok as (Hin & Hh & Hs & HP).
  change (s2b "/mirror/mirror.v0.json") with (x2f :: join_with x2f [seg_mirror; seg_mirror_json]).
  rewrite layout_target by discriminate. rewrite <- prefix_path_join by discriminate.
  apply (route_meta c e host [seg_mirror] seg_mirror_json (HMirMeta e)); auto.
  - apply (In_top_wit c e _ Hin). cbn [app]. rewrite lits_app. cbn. auto.
  - constructor; [concrete_plain|constructor; [concrete_plain|constructor]].
  - discriminate.
Qed.

(* ===================================================================================== *)
(* part 13: successful responses, the header table                                        *)
(* ===================================================================================== *)

(* a 200 is always a stored regular file (never a directory, a listing, or anything outside
   the table of the root), served with exactly the headers the handler chose *)
Theorem c19_success t r :
  r_status (respond t r) = 200 ->
  exists root rel hs up qs d,
    r = File root rel hs up qs /\ fs_lookup t root (tl rel) = Some (KReg d) /\
    respond t r = mkResp 200 [] (h_ct hs) (h_ce hs) (h_cc hs) (h_acao hs) (Some d).
Proof.
  destruct r as [| |hs|found loc hs html|k|root rel hs up qs]; cbn [respond error_resp r_status];
    try discriminate.
  - destruct found; discriminate.
  - destruct k; discriminate.
  - unfold fs_open.
    destruct (is_nil (tl rel)); [discriminate|].
    destruct (negb (utf8_valid (tl rel))).
    { destruct (match split_slash (tl rel) with f :: _ :: _ => _ | _ => false end); discriminate. }
    match goal with |- context [if ?b then (if _ then OpNotExist else OpError) else _] => destruct b end.
    { destruct (match split_slash (tl rel) with f :: _ :: _ => _ | _ => false end); discriminate. }
    destruct (fs_lookup t root (tl rel)) as [[d| |]|] eqn:E.
    + destruct (last_is_slash up).
      * destruct (bytes_eqb (path_base up) [x2f] || bytes_eqb (path_base up) dot); discriminate.
      * intros _. exists root, rel, hs, up, qs, d. auto.
    + discriminate.
    + discriminate.
    + destruct (existsb _ (proper_prefixes (tl rel))).
      { destruct (match split_slash (tl rel) with f :: _ :: _ => _ | _ => false end); discriminate. }
      destruct (existsb _ (proper_prefixes (tl rel))); discriminate.
Qed.

Theorem c19_headers :
  (forall l, (0 <= l)%Z ->
     headers_for_level l = mkHs (s2b "application/octet-stream") [] (s2b "public, max-age=604800, immutable") true) /\
  headers_for_level (-1) = mkHs (s2b "application/octet-stream") (s2b "gzip") (s2b "public, max-age=604800, immutable") true /\
  headers_for_level (-2) = mkHs (s2b "application/jsonl; charset=utf-8") (s2b "gzip") (s2b "public, max-age=604800, immutable") true /\
  hs_issuer = mkHs (s2b "application/pkix-cert") [] (s2b "public, max-age=604800, immutable") true /\
  hs_checkpoint = mkHs (s2b "text/plain; charset=utf-8") [] (s2b "no-store") true /\
  hs_json = mkHs (s2b "application/json") [] [] true.
Proof.
  repeat split; try reflexivity.
  intros l Hl. unfold headers_for_level.
  destruct (Z.eqb_spec l (-1)); [lia|]. destruct (Z.eqb_spec l (-2)); [lia|]. reflexivity.
Qed.
