(* Sky/Routes.v — C19 model: the read path of cmd/skylight/skylight.go as a pure function
     route : config -> host -> request-target -> resolved
   (definitions only; proofs are in Sky/RoutesProofs.v).

   Transcribed from skylight.go: the pattern table registered on the outer ServeMux (per log
   "GET host+prefix/", per witness "GET host+prefix/{origin}/", ".../mirror/{origin}/",
   ".../witness.v0.json", ".../mirror/mirror.v0.json", plus /metrics, /{$}, /health, logs.json),
   http.StripPrefix, the inner logMux (/{$}, /checkpoint, /log.v3.json, /issuer/{issuer},
   /tile/{tile...}), the tile-coordinate -> header switch, and the witness handler that puts
   "/{origin}" or "/mirror/{origin}" back in front of the path.

   The standard-library behaviour it relies on is written down as explicit SPECIFICATION
   functions (transcribed from go1.25 net/url, net/http, path; held to the real thing by the
   differential run of checks/c19.py, not proved about Go):
     net/url      unescape / escape / shouldEscape(encodePath) / validEncoded / setPath / EscapedPath
     path         Clean (rooted paths), Base
     net/http     ServeMux: cleanPath, stripHostPort, the routing tree (literal > single wildcard >
                  multi wildcard, host before no host, method before no method), exactMatch, the
                  trailing-slash and clean-path redirects, Redirect; StripPrefix; FileServerFS
                  (path.Clean, /index.html and trailing-slash redirects, serveError dropping
                  Cache-Control / Content-Encoding, toHTTPError, mapOpenError)
     skylight     filesOnlyFS (directories are fs.ErrNotExist)
     os.Root+kernel  a lookup table: name -> regular file (digest) | directory | escapes the root *)
From SL Require Import Base.Bytes Codec.Leaf.
Open Scope N_scope.

(* ------------------------------------------------------------------------------------- *)
(* characters                                                                            *)
(* ------------------------------------------------------------------------------------- *)
Definition bN (b : byte) : N := Byte.to_N b.
Definition in_range (lo hi : N) (b : byte) : bool := (lo <=? bN b) && (bN b <=? hi).
Definition is_alnum (b : byte) : bool := in_range 48 57 b || in_range 65 90 b || in_range 97 122 b.
Definition memb (b : byte) (s : bytes) : bool := existsb (Byte.eqb b) s.
Definition ishex (b : byte) : bool := in_range 48 57 b || in_range 65 70 b || in_range 97 102 b.
Definition unhex (b : byte) : N :=
  if in_range 48 57 b then bN b - 48 else if in_range 97 102 b then bN b - 87 else bN b - 55.
Definition upperhex (n : N) : byte := if n <? 10 then byte_of_N (48 + n) else byte_of_N (55 + n).
Definition lowerhex (n : N) : byte := if n <? 10 then byte_of_N (48 + n) else byte_of_N (87 + n).
Definition is_nil {A} (l : list A) : bool := match l with [] => true | _ => false end.
Definition last_is_slash (s : bytes) : bool := match rev s with x2f :: _ => true | _ => false end.
Definition rooted (p : bytes) : bytes := match p with x2f :: _ => p | _ => x2f :: p end.

(* ------------------------------------------------------------------------------------- *)
(* net/url (mode encodePath)                                                             *)
(* ------------------------------------------------------------------------------------- *)
Definition should_escape (c : byte) : bool :=
  if is_alnum c then false
  else if memb c (s2b "-_.~") then false
  else if memb c (s2b "$&+,/:;=@") then false      (* '?' is the one reserved byte escaped in paths *)
  else true.

Fixpoint unescape (s : bytes) : option bytes :=
  match s with
  | [] => Some []
  | x25 :: a :: b :: r =>
    if ishex a && ishex b then
      match unescape r with Some t => Some (byte_of_N (16 * unhex a + unhex b) :: t) | None => None end
    else None
  | x25 :: _ => None
  | c :: r => match unescape r with Some t => Some (c :: t) | None => None end
  end.

Definition escape (s : bytes) : bytes :=
  flat_map (fun c => if should_escape c then [x25; upperhex (bN c / 16); upperhex (bN c mod 16)] else [c]) s.

Definition valid_encoded (s : bytes) : bool :=
  forallb (fun c => memb c (s2b "!$&'()*+,;=:@[]%") || negb (should_escape c)) s.

(* http.pathUnescape: url.PathUnescape, the input itself when that fails *)
Definition path_unescape (s : bytes) : bytes := match unescape s with Some t => t | None => s end.

(* URL.Path / URL.RawPath as set by setPath *)
Definition set_path (raw : bytes) : option (bytes * bytes) :=
  match unescape raw with
  | None => None
  | Some p => Some (p, if bytes_eqb (escape p) raw then [] else raw)
  end.

Definition escaped_path (p rp : bytes) : bytes :=
  if negb (is_nil rp) && valid_encoded rp
     && match unescape rp with Some q => bytes_eqb q p | None => false end
  then rp
  else if bytes_eqb p [x2a] then [x2a] else escape p.

(* ------------------------------------------------------------------------------------- *)
(* package path                                                                          *)
(* ------------------------------------------------------------------------------------- *)
Definition dot : bytes := [x2e].
Definition dotdot : bytes := [x2e; x2e].

Fixpoint clean_segs (segs : list bytes) (stack : list bytes) : list bytes :=
  match segs with
  | [] => rev stack
  | s :: r =>
    if is_nil s || bytes_eqb s dot then clean_segs r stack
    else if bytes_eqb s dotdot then clean_segs r (tl stack)
    else clean_segs r (s :: stack)
  end.

(* path.Clean of a path that starts with "/" *)
Definition path_clean (p : bytes) : bytes := x2f :: join_with x2f (clean_segs (split_slash (tl p)) []).

(* path.Base of a path that starts with "/" *)
Definition path_base (p : bytes) : bytes :=
  match filter (fun s => negb (is_nil s)) (split_slash p) with
  | [] => [x2f]
  | l => last l []
  end.

(* ------------------------------------------------------------------------------------- *)
(* net/http ServeMux                                                                     *)
(* ------------------------------------------------------------------------------------- *)
Definition clean_path (p : bytes) : bytes :=
  match p with
  | [] => [x2f]
  | _ =>
    let p := rooted p in
    let np := path_clean p in
    if last_is_slash p && negb (bytes_eqb np [x2f]) then np ++ [x2f] else np
  end.

(* stripHostPort for hosts that are not bracketed IPv6 literals: "name:port" -> "name" when
   there is exactly one colon (net.SplitHostPort fails otherwise and the host is kept) *)
Definition strip_host_port (h : bytes) : bytes :=
  match split_on x3a h [] with
  | [a; _] => if memb x5b h || memb x5d h then h else a
  | _ => h
  end.

Inductive pseg := PLit (s : bytes) | PWild | PMulti (named : bool).
(* "{$}" is the literal segment "/" as in net/http/pattern.go *)
Definition PEnd : pseg := PLit [x2f].

Definition slash : bytes := [x2f].

Section Tree.
  Context {A : Type}.
  (* a candidate = what is left of its segments, the full segment list (for exactMatch), payload *)
  Definition cand := (list pseg * (list pseg * A))%type.

  Definition adv_lit (seg : bytes) (c : cand) : option cand :=
    match fst c with PLit l :: r => if bytes_eqb l seg then Some (r, snd c) else None | _ => None end.
  Definition adv_wild (c : cand) : option cand :=
    match fst c with PWild :: r => Some (r, snd c) | _ => None end.
  Definition is_leaf (c : cand) : bool := is_nil (fst c).
  Definition multi_of (c : cand) : option bool :=
    match fst c with [PMulti n] => Some n | _ => None end.

  Fixpoint filter_map {X Y} (f : X -> option Y) (l : list X) : list Y :=
    match l with
    | [] => []
    | x :: r => match f x with Some y => y :: filter_map f r | None => filter_map f r end
    end.

  Fixpoint find_multi (cs : list cand) : option (bool * (list pseg * A)) :=
    match cs with
    | [] => None
    | c :: r => match multi_of c with Some n => Some (n, snd c) | None => find_multi r end
    end.

  (* routingNode.matchPath. rem is the escaped path split at "/": [] is "", [""] is "/",
     ["a";""] is "/a/". *)
  Fixpoint match_path (cs : list cand) (rem : list bytes) (ms : list bytes)
    : option ((list pseg * A) * list bytes) :=
    match rem with
    | [] => match find is_leaf cs with Some c => Some (snd c, ms) | None => None end
    | s :: rest =>
      let seg := if is_nil s && is_nil rest then slash else path_unescape s in
      match match_path (filter_map (adv_lit seg) cs) rest ms with
      | Some r => Some r
      | None =>
        match (if bytes_eqb seg slash then None
               else match_path (filter_map adv_wild cs) rest (ms ++ [seg])) with
        | Some r => Some r
        | None =>
          match find_multi cs with
          | Some (named, pl) =>
            Some (pl, if named then ms ++ [path_unescape (join_with x2f rem)] else ms)
          | None => None
          end
        end
      end
    end.
End Tree.

Record pattern (H : Type) := mkPat { p_get : bool; p_host : bytes; p_segs : list pseg; p_h : H }.
Arguments mkPat {H}. Arguments p_get {H}. Arguments p_host {H}. Arguments p_segs {H}. Arguments p_h {H}.

Definition class_of {H} (pats : list (pattern H)) (host : bytes) (get : bool) : list (@cand H) :=
  map (fun p => (p_segs p, (p_segs p, p_h p)))
      (filter (fun p => bytes_eqb (p_host p) host && Bool.eqb (p_get p) get) pats).

Definition orelse {X} (a : option X) (b : option X) : option X := match a with Some _ => a | None => b end.

(* routingNode.match for a GET request *)
Definition tree_match {H} (pats : list (pattern H)) (host : bytes) (segs : list bytes)
  : option ((list pseg * H) * list bytes) :=
  orelse (if is_nil host then None
          else orelse (match_path (class_of pats host true) segs [])
                      (match_path (class_of pats host false) segs []))
         (orelse (match_path (class_of pats [] true) segs [])
                 (match_path (class_of pats [] false) segs [])).

Definition segs_of (path : bytes) : list bytes := split_slash (tl path).

Definition last_multi (ps : list pseg) : bool :=
  match rev ps with PMulti _ :: _ => true | _ => false end.

(* exactMatch; strings.Count(path, "/") of a rooted path is the number of its segments *)
Definition exact_match {H} (n : option ((list pseg * H) * list bytes)) (path : bytes) : bool :=
  match n with
  | None => false
  | Some ((ps, _), _) =>
    if negb (last_multi ps) then true
    else if negb (is_nil path) && negb (last_is_slash path) then false
    else (length ps =? length (segs_of path))%nat
  end.

Definition hex_escape_non_ascii (s : bytes) : bytes :=
  flat_map (fun c => if 128 <=? bN c then [x25; lowerhex (bN c / 16); lowerhex (bN c mod 16)] else [c]) s.

(* http.Redirect's treatment of a Location that is a rooted path (optionally with ?query) *)
Definition redirect_loc (url : bytes) (qs : bytes) : bytes :=
  let u := path_clean url in
  hex_escape_non_ascii ((if last_is_slash url && negb (last_is_slash u) then u ++ [x2f] else u) ++ qs).

Inductive mux_res (H : Type) :=
| MRedirect (loc : bytes)
| MNotFound
| MFound (h : H) (ms : list bytes).
Arguments MRedirect {H}. Arguments MNotFound {H}. Arguments MFound {H}.

(* ServeMux.findHandler for a GET request whose URL has Path p, RawPath rp, query suffix qs *)
Definition mux_dispatch {H} (pats : list (pattern H)) (host p rp qs : bytes) : mux_res H :=
  let ep := escaped_path p rp in
  let cp := clean_path ep in
  let n := tree_match pats host (segs_of cp) in
  let n2 := tree_match pats host (segs_of (cp ++ [x2f])) in
  if negb (exact_match n cp) && negb (last_is_slash cp) && exact_match n2 (cp ++ [x2f])
  then MRedirect (redirect_loc (escape (clean_path p ++ [x2f])) qs)
  else if negb (bytes_eqb cp ep) then MRedirect (redirect_loc (escape cp) qs)
  else match n with
       | None => MNotFound
       | Some ((_, h), ms) => MFound h ms
       end.

(* http.StripPrefix *)
Definition strip_prefix (prefix p rp : bytes) : option (bytes * bytes) :=
  match prefix with
  | [] => Some (p, rp)
  | _ =>
    let p' := trim_prefix prefix p in
    let rp' := trim_prefix prefix rp in
    if (length p' <? length p)%nat && (is_nil rp || (length rp' <? length rp)%nat)
    then Some (p', rp') else None
  end.

(* ------------------------------------------------------------------------------------- *)
(* skylight configuration and handlers                                                   *)
(* ------------------------------------------------------------------------------------- *)
Record entry := mkEntry { e_host : bytes; e_prefix : list bytes; e_root : N }.
Record config := mkConfig {
  c_home : bytes;                       (* HomeRedirect, [] = unset *)
  c_logs : list entry;
  c_wits : list entry;
  c_logsjson : option (bytes * list bytes)   (* LogsJSONPrefix host and path segments *)
}.

Definition prefix_path (segs : list bytes) : bytes := concat (map (fun s => x2f :: s) segs).
Definition lits (segs : list bytes) : list pseg := map PLit segs.

Inductive special := SMetrics | SHealth | SLogsJSON.

Inductive top_h :=
| HSpecial (k : special)
| HHome
| HLog (e : entry)
| HWitOrigin (e : entry)
| HWitMirror (e : entry)
| HWitMeta (e : entry)
| HMirMeta (e : entry).

Definition log_patterns_of (e : entry) : list (pattern top_h) :=
  [mkPat true (e_host e) (lits (e_prefix e) ++ [PMulti false]) (HLog e)].

Definition wit_patterns_of (e : entry) : list (pattern top_h) :=
  [mkPat true (e_host e) (lits (e_prefix e) ++ [PWild; PMulti false]) (HWitOrigin e);
   mkPat true (e_host e) (lits (e_prefix e) ++ [PLit (s2b "mirror"); PWild; PMulti false]) (HWitMirror e);
   mkPat true (e_host e) (lits (e_prefix e) ++ [PLit (s2b "witness.v0.json")]) (HWitMeta e);
   mkPat true (e_host e) (lits (e_prefix e) ++ [PLit (s2b "mirror"); PLit (s2b "mirror.v0.json")]) (HMirMeta e)].

Definition top_patterns (c : config) : list (pattern top_h) :=
  [mkPat false [] [PLit (s2b "metrics")] (HSpecial SMetrics)]
  ++ (if is_nil (c_home c) then [] else [mkPat false [] [PEnd] HHome])
  ++ flat_map log_patterns_of (c_logs c)
  ++ flat_map wit_patterns_of (c_wits c)
  ++ [match c_logsjson c with
      | Some (h, segs) => mkPat true h (lits segs ++ [PLit (s2b "logs.json")]) (HSpecial SLogsJSON)
      | None => mkPat true [] [PLit (s2b "logs.json")] (HSpecial SLogsJSON)
      end]
  ++ [mkPat false [] [PLit (s2b "health")] (HSpecial SHealth)].

Inductive log_h := LHome | LCheckpoint | LLogJSON | LIssuer | LTile.

Definition log_patterns (home : bool) : list (pattern log_h) :=
  (if home then [mkPat false [] [PEnd] LHome] else [])
  ++ [mkPat true [] [PLit (s2b "checkpoint")] LCheckpoint;
      mkPat true [] [PLit (s2b "log.v3.json")] LLogJSON;
      mkPat true [] [PLit (s2b "issuer"); PWild] LIssuer;
      mkPat true [] [PLit (s2b "tile"); PMulti true] LTile].

(* the response headers the handlers set before dispatching to the file server *)
Record headers := mkHs { h_ct : bytes; h_ce : bytes; h_cc : bytes; h_acao : bool }.
Definition hs0 : headers := mkHs [] [] [] false.

Definition ct_text := s2b "text/plain; charset=utf-8".
Definition ct_html := s2b "text/html; charset=utf-8".
Definition ct_json := s2b "application/json".
Definition ct_octet := s2b "application/octet-stream".
Definition ct_pkix := s2b "application/pkix-cert".
Definition ct_jsonl := s2b "application/jsonl; charset=utf-8".
Definition cc_immutable := s2b "public, max-age=604800, immutable".
Definition cc_nostore := s2b "no-store".
Definition ce_gzip := s2b "gzip".

Definition hs_checkpoint := mkHs ct_text [] cc_nostore true.
Definition hs_json := mkHs ct_json [] [] true.
Definition hs_issuer := mkHs ct_pkix [] cc_immutable true.
Definition hs_hash_tile := mkHs ct_octet [] cc_immutable true.
Definition hs_data_tile := mkHs ct_octet ce_gzip cc_immutable true.
Definition hs_names_tile := mkHs ct_jsonl ce_gzip cc_immutable true.

(* torchwood.ParseTilePath (c2sp.org/tlog-tiles) *)
Definition torchwood_parse_tile_path (path : bytes) : option tile :=
  match cut_prefix (s2b "tile/entries/") path with
  | Some rest => tlog_parse_tile_path (s2b "tile/8/data/" ++ rest)
  | None =>
    match cut_prefix (s2b "tile/") path with
    | Some rest => tlog_parse_tile_path (s2b "tile/8/" ++ rest)
    | None => None
    end
  end.

(* the level the "switch tile.L" of the /tile/ handler sees (the zero Tile when neither parser accepts) *)
Definition tile_level (tile_path : bytes) : Z :=
  match parse_tile_path tile_path with
  | Some t => t_L t
  | None => match torchwood_parse_tile_path tile_path with Some t => t_L t | None => 0%Z end
  end.

Definition headers_for_level (l : Z) : headers :=
  if (l =? -1)%Z then hs_data_tile else if (l =? -2)%Z then hs_names_tile else hs_hash_tile.

Definition tile_headers (wild : bytes) : headers := headers_for_level (tile_level (s2b "tile/" ++ wild)).

Inductive resolved :=
| BadRequest                                   (* the server answers 400 before any handler runs *)
| OutOfDomain                                  (* request-target not in origin form: not modelled *)
| NotFound (hs : headers)                      (* http.NotFound with these headers already set *)
| Redirect (found : bool) (loc : bytes) (hs : headers) (html : bool)   (* 302 Found / 301 Moved Permanently *)
| Special (k : special)
| File (root : N) (rel : bytes) (hs : headers) (upath : bytes) (qs : bytes).
   (* the file server of directory `root` is asked for the cleaned name rel; upath is the
      URL path it saw (only its "/index.html" suffix and trailing slash matter), qs the
      "?query" suffix that localRedirect re-attaches *)

(* FileServer.ServeHTTP up to the Open call *)
Definition file_server (root : N) (upath : bytes) (qs : bytes) (hs : headers) : resolved :=
  let upath := rooted upath in
  if has_suffix (s2b "/index.html") upath then Redirect false (s2b "./" ++ qs) hs false
  else File root (path_clean upath) hs upath qs.

(* the inner logMux, reached with URL.Path p / RawPath rp; fprefix is what the witness
   handler puts back in front of the path ("" for logs) *)
Definition log_mux (c : config) (root : N) (fprefix : bytes) (host p rp qs : bytes) : resolved :=
  match mux_dispatch (log_patterns (negb (is_nil (c_home c)))) host p rp qs with
  | MRedirect loc => Redirect false loc hs0 true
  | MNotFound => NotFound hs0
  | MFound h ms =>
    match h with
    | LHome => Redirect true (c_home c) hs0 true
    | LCheckpoint => file_server root (fprefix ++ p) qs hs_checkpoint
    | LLogJSON => file_server root (fprefix ++ p) qs hs_json
    | LIssuer => file_server root (fprefix ++ p) qs hs_issuer
    | LTile => file_server root (fprefix ++ p) qs (tile_headers (nth 0 ms []))
    end
  end.

Definition strip_then (prefix p rp : bytes) (hs : headers) (k : bytes -> bytes -> resolved) : resolved :=
  match strip_prefix prefix p rp with
  | Some (p', rp') => k p' rp'
  | None => NotFound hs
  end.

Definition has_ctl (s : bytes) : bool := existsb (fun b => (bN b <? 33) || (bN b =? 127)) s.

Definition split_query (t : bytes) : bytes * bytes :=
  match split_on x3f t [] with
  | p :: q :: r => (p, x3f :: join_with x3f (q :: r))
  | _ => (t, [])
  end.
(* "?..." suffix re-attached to redirects: only when the query is not empty *)
Definition query_suffix (q : bytes) : bytes := match q with [_] => [] | _ => q end.

(* the handlers registered on the outer mux *)
Definition top_handle (c : config) (host p rp qs : bytes) (h : top_h) (ms : list bytes) : resolved :=
  match h with
  | HSpecial k => Special k
  | HHome => Redirect true (c_home c) hs0 true
  | HLog e =>
    strip_then (prefix_path (e_prefix e)) p rp hs0 (fun p' rp' => log_mux c (e_root e) [] host p' rp' qs)
  | HWitOrigin e =>
    let origin := nth 0 ms [] in
    strip_then (prefix_path (e_prefix e) ++ x2f :: origin) p rp hs0
      (fun p' rp' => log_mux c (e_root e) (x2f :: origin) host p' rp' qs)
  | HWitMirror e =>
    let origin := nth 0 ms [] in
    strip_then (prefix_path (e_prefix e) ++ s2b "/mirror/" ++ origin) p rp hs0
      (fun p' rp' => log_mux c (e_root e) (s2b "/mirror/" ++ origin) host p' rp' qs)
  | HWitMeta e | HMirMeta e =>
    strip_then (prefix_path (e_prefix e)) p rp hs_json (fun p' _ => file_server (e_root e) p' qs hs_json)
  end.

(* the outer mux, for a parsed URL *)
Definition top_mux (c : config) (host p rp qs : bytes) : resolved :=
  match mux_dispatch (top_patterns c) host p rp qs with
  | MRedirect loc => Redirect false loc hs0 true
  | MNotFound => NotFound hs0
  | MFound h ms => top_handle c host p rp qs h ms
  end.

Definition route (c : config) (host : bytes) (target : bytes) : resolved :=
  match target with
  | x2f :: _ =>
    if has_ctl target then BadRequest else
    let '(raw, q) := split_query target in
    match set_path raw with
    | None => BadRequest
    | Some (p, rp) => top_mux c (strip_host_port host) p rp (query_suffix q)
    end
  | _ => OutOfDomain
  end.

(* ------------------------------------------------------------------------------------- *)
(* the file system as seen through os.Root + filesOnlyFS + http.FileServerFS             *)
(* ------------------------------------------------------------------------------------- *)
Inductive fkind := KReg (digest : bytes) | KDir | KEsc.   (* symlinks resolved; KEsc: resolves outside the root *)
Definition fstab := list (N * bytes * fkind).             (* root, name without leading "/" *)

Fixpoint fs_lookup (t : fstab) (root : N) (name : bytes) : option fkind :=
  match t with
  | [] => None
  | (r, n, k) :: rest => if (r =? root) && bytes_eqb n name then Some k else fs_lookup rest root name
  end.

(* utf8.Valid *)
Fixpoint utf8_valid_fuel (fuel : nat) (s : bytes) : bool :=
  match fuel with
  | O => is_nil s
  | S f =>
    let cont b := in_range 128 191 b in
    match s with
    | [] => true
    | a :: r =>
      if bN a <? 128 then utf8_valid_fuel f r
      else if in_range 194 223 a then
        match r with b :: r' => cont b && utf8_valid_fuel f r' | _ => false end
      else if in_range 224 239 a then
        match r with
        | b :: c :: r' =>
          (if bN a =? 224 then in_range 160 191 b else if bN a =? 237 then in_range 128 159 b else cont b)
          && cont c && utf8_valid_fuel f r'
        | _ => false
        end
      else if in_range 240 244 a then
        match r with
        | b :: c :: d :: r' =>
          (if bN a =? 240 then in_range 144 191 b else if bN a =? 244 then in_range 128 143 b else cont b)
          && cont c && cont d && utf8_valid_fuel f r'
        | _ => false
        end
      else false
    end
  end.
Definition utf8_valid (s : bytes) : bool := utf8_valid_fuel (S (length s)) s.

(* a name the kernel can look up at all: valid UTF-8 (fs.ValidPath), no NUL, components <= 255 bytes *)
Definition valid_name (name : bytes) : bool :=
  utf8_valid name && negb (memb x00 name)
  && forallb (fun s => (length s <=? 255)%nat) (split_slash name).

(* a component the kernel refuses by itself (EINVAL for a NUL, ENAMETOOLONG) *)
Definition bad_component (s : bytes) : bool := memb x00 s || negb (length s <=? 255)%nat.

Definition proper_prefixes (name : bytes) : list bytes :=
  (fix go (segs : list bytes) (cur : bytes) (first : bool) : list bytes :=
     match segs with
     | [] => []
     | [_] => []
     | s :: r => let cur' := if first then s else cur ++ x2f :: s in cur' :: go r cur' false
     end) (split_slash name) [] true.

Inductive open_res := OpFile (digest : bytes) | OpNotExist | OpError.

(* ioFS.Open over filesOnlyFS over os.Root.FS: what FileServer's Open returns, after mapOpenError
   and classified by toHTTPError (OpNotExist = 404, OpError = 500).
   mapOpenError stats the first component through filesOnlyFS: a regular file there turns any
   error into ErrNotExist, anything else (directories are hidden!) keeps the original error. *)
Definition fs_open (t : fstab) (root : N) (rel : bytes) : open_res :=
  let name := tl rel in
  let first_is_file :=
    match split_slash name with
    | f :: _ :: _ => match fs_lookup t root f with Some (KReg _) => true | _ => false end
    | _ => false
    end in
  let hard_error := if first_is_file then OpNotExist else OpError in
  (* os.Root walks the name component by component: a component with a NUL or longer than 255 bytes
     fails (EINVAL / ENAMETOOLONG) only when the walk gets there, i.e. when everything before it is
     a directory; a missing earlier component answers ENOENT first *)
  let reaches_bad :=
    (fix go (segs : list bytes) (cur : bytes) (first : bool) : bool :=
       match segs with
       | [] => false
       | s :: r =>
         if bad_component s then true
         else let cur' := if first then s else cur ++ x2f :: s in
              match fs_lookup t root cur' with Some KDir => go r cur' false | _ => false end
       end) (split_slash name) [] true in
  if is_nil name then OpNotExist                      (* the root directory itself: hidden *)
  else if negb (utf8_valid name) then hard_error      (* fs.ValidPath: ErrInvalid, before any lookup *)
  else if reaches_bad then hard_error                 (* EINVAL / ENAMETOOLONG at that component *)
  else match fs_lookup t root name with
       | Some (KReg d) => OpFile d
       | Some KDir => OpNotExist                      (* filesOnlyFS *)
       | Some KEsc => OpError                         (* os.Root: path escapes from parent *)
       | None =>
         if existsb (fun pre => match fs_lookup t root pre with Some (KReg _) => true | _ => false end)
                    (proper_prefixes name)
         then hard_error                              (* ENOTDIR *)
         else if existsb (fun pre => match fs_lookup t root pre with Some KEsc => true | _ => false end)
                    (proper_prefixes name)
         then OpError
         else OpNotExist                              (* ENOENT *)
       end.

Record response := mkResp {
  r_status : N; r_loc : bytes; r_ct : bytes; r_ce : bytes; r_cc : bytes; r_acao : bool;
  r_body : option bytes     (* digest of the body of a 200 response that is a stored file *)
}.

Definition error_resp (code : N) (hs : headers) (drop : bool) : response :=
  mkResp code [] ct_text (if drop then [] else h_ce hs) (if drop then [] else h_cc hs) (h_acao hs) None.

Definition special_resp (k : special) : response :=
  mkResp (match k with SMetrics => 1 | SHealth => 2 | SLogsJSON => 3 end) [] [] [] [] false None.

(* serveFile after Open *)
Definition respond (t : fstab) (r : resolved) : response :=
  match r with
  | BadRequest => mkResp 400 [] ct_text [] [] false None
  | OutOfDomain => mkResp 0 [] [] [] [] false None
  | NotFound hs => error_resp 404 hs false
  | Redirect found loc hs html =>
    mkResp (if found then 302 else 301) loc (if html then ct_html else h_ct hs) (h_ce hs) (h_cc hs) (h_acao hs) None
  | Special k => special_resp k
  | File root rel hs upath qs =>
    match fs_open t root rel with
    | OpNotExist => error_resp 404 hs true
    | OpError => error_resp 500 hs true
    | OpFile d =>
      if last_is_slash upath then
        let base := path_base upath in
        if bytes_eqb base [x2f] || bytes_eqb base dot then error_resp 500 hs true
        else mkResp 301 (s2b "../" ++ base ++ qs) (h_ct hs) (h_ce hs) (h_cc hs) (h_acao hs) None
      else mkResp 200 [] (h_ct hs) (h_ce hs) (h_cc hs) (h_acao hs) (Some d)
    end
  end.

Definition serve (c : config) (t : fstab) (host target : bytes) : response := respond t (route c host target).
