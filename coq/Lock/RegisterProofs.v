(* Lock/RegisterProofs.v — C05: facts about the register specification itself: the property's
   sentences as consequences of acceptance by the register (for the weak step relation, hence
   also for the strict one). *)
From SL Require Import Base.BytesProofs Lock.Register.
Open Scope N_scope.

(* ---- association lists ---- *)
Lemma alookup_aset_same {V} (m : amap V) i v : alookup (aset m i v) i = Some v.
Proof.
  induction m as [|[k x] m IH]; cbn.
  - now rewrite bytes_eqb_refl.
  - destruct (bytes_eqb k i) eqn:E; cbn; rewrite E; auto.
Qed.

Lemma alookup_aset_other {V} (m : amap V) i j v : i <> j -> alookup (aset m i v) j = alookup m j.
Proof.
  intro N. induction m as [|[k x] m IH]; cbn.
  - destruct (bytes_eqb i j) eqn:E; [apply bytes_eqb_eq in E; contradiction | reflexivity].
  - destruct (bytes_eqb k i) eqn:E; cbn.
    + apply bytes_eqb_eq in E; subst k.
      destruct (bytes_eqb i j) eqn:E2; [apply bytes_eqb_eq in E2; contradiction | reflexivity].
    + destruct (bytes_eqb k j); auto.
Qed.

Lemma alookup_aset {V} (m : amap V) i j v :
  alookup (aset m i v) j = if bytes_eqb i j then Some v else alookup m j.
Proof.
  destruct (bytes_eqb i j) eqn:E.
  - apply bytes_eqb_eq in E; subst. apply alookup_aset_same.
  - apply alookup_aset_other. intro X; subst. now rewrite bytes_eqb_refl in E.
Qed.

Lemma amap_map_aset {A B} (f : A -> B) (m : amap A) i v :
  amap_map f (aset m i v) = aset (amap_map f m) i (f v).
Proof.
  unfold amap_map. induction m as [|[k x] m IH]; cbn; [reflexivity|].
  destruct (bytes_eqb k i); cbn; [reflexivity | now rewrite IH].
Qed.

Lemma alookup_amap_map {A B} (f : A -> B) (m : amap A) i :
  alookup (amap_map f m) i = option_map f (alookup m i).
Proof.
  unfold amap_map. induction m as [|[k x] m IH]; cbn; [reflexivity|]. destruct (bytes_eqb k i); auto.
Qed.

Lemma bytes_eqb_neq a b : bytes_eqb a b = false <-> a <> b.
Proof.
  split.
  - intros E X; subst. now rewrite bytes_eqb_refl in E.
  - intro N. destruct (bytes_eqb a b) eqn:E; [apply bytes_eqb_eq in E; contradiction | reflexivity].
Qed.

(* ---- steps ---- *)
Lemma reg_step_weaken r o res r' : reg_step r o res r' -> reg_step_weak r o res r'.
Proof. intro H; left; exact H. Qed.

Lemma step_of_weaken weak r o res r' : step_of weak r o res r' -> reg_step_weak r o res r'.
Proof. destruct weak; cbn; [auto | apply reg_step_weaken]. Qed.

Lemma accepted_mono (s1 s2 : reg -> op -> result -> reg -> Prop) :
  (forall r o res r', s1 r o res r' -> s2 r o res r') ->
  forall l r r', accepted_from s1 r l r' -> accepted_from s2 r l r'.
Proof.
  intros M l. induction l as [|[o res] l IH]; cbn; intros r r' H; [exact H|].
  destruct H as (r1 & H1 & H2). exists r1. split; [apply M, H1 | apply IH, H2].
Qed.

Lemma accepted_app st r l1 l2 r' :
  accepted_from st r (l1 ++ l2) r' <-> exists rm, accepted_from st r l1 rm /\ accepted_from st rm l2 r'.
Proof.
  revert r. induction l1 as [|[o res] l1 IH]; cbn; intro r.
  - split; [intro H; exists r; auto | intros (rm & -> & H); exact H].
  - split.
    + intros (r1 & H1 & H2). apply IH in H2. destruct H2 as (rm & A & B).
      exists rm. split; [exists r1; auto | exact B].
    + intros (rm & (r1 & H1 & A) & B). exists r1. split; [exact H1|]. apply IH. exists rm; auto.
Qed.

(* a call whose outcome is forgotten (it never returned) is still explained by the same step *)
Lemma step_forget_result weak r o res r' : step_of weak r o res r' -> step_of weak r o Unknown r'.
Proof.
  assert (S : reg_step r o res r' -> reg_step r o Unknown r').
  { unfold reg_step. destruct res; intro H; try (right; now rewrite H); exact H. }
  destruct weak; cbn.
  - intros [H | [_ ->]]; left; [apply S, H | left; reflexivity].
  - apply S.
Qed.

Lemma step_unknown_noop weak r o : step_of weak r o Unknown r.
Proof. destruct weak; cbn; [left|]; left; reflexivity. Qed.

(* what one executed operation does to the value of log [i] *)
Lemma reg_exec_value r o r1 res i v :
  reg_exec r o = (r1, res) -> lookup r i = Some v ->
  exists w, lookup r1 i = Some w /\ (w = v \/ (writes o i w /\ res = Ok)).
Proof.
  unfold lookup. intros X L. destruct o as [j | j old new | j new]; cbn in X.
  - inversion X; subst. exists v; auto.
  - unfold lookup in X. destruct (alookup r j) as [x|] eqn:Lj.
    + destruct (bytes_eqb x old) eqn:Eo; inversion X; subst; [|exists v; auto].
      rewrite alookup_aset. destruct (bytes_eqb j i) eqn:Eji.
      * apply bytes_eqb_eq in Eji; subst. exists new. split; [reflexivity|]. right. cbn; auto.
      * exists v; auto.
    + inversion X; subst. exists v; auto.
  - unfold lookup in X. destruct (alookup r j) as [x|] eqn:Lj; inversion X; subst; [exists v; auto|].
    rewrite alookup_aset. destruct (bytes_eqb j i) eqn:Eji.
    + apply bytes_eqb_eq in Eji; subst. congruence.
    + exists v; auto.
Qed.

Lemma reg_step_weak_value r o res r1 i v :
  reg_step_weak r o res r1 -> lookup r i = Some v ->
  exists w, lookup r1 i = Some w /\ (w = v \/ (writes o i w /\ (res = Ok \/ res = Unknown))).
Proof.
  intros [H | [_ ->]] L; [| exists v; auto].
  unfold reg_step in H.
  assert (D : forall res', reg_exec r o = (r1, res') -> (res' = Ok -> res = Ok \/ res = Unknown) ->
              exists w, lookup r1 i = Some w /\ (w = v \/ (writes o i w /\ (res = Ok \/ res = Unknown)))).
  { intros res' X I. destruct (reg_exec_value _ _ _ _ _ _ X L) as (w & Lw & [-> | [W R]]).
    - exists v; auto.
    - exists w. split; [exact Lw|]. right. split; [exact W | apply I, R]. }
  destruct res.
  1-4: (eapply D; [exact H | intro; subst; auto; try discriminate]).
  destruct H as [-> | H]; [exists v; auto|].
  destruct (reg_exec r o) as [r2 res2] eqn:X. cbn in H. subst r1. eapply D; [reflexivity | auto].
Qed.

(* once a log has a value it always has one, and a different value needs a successful
   (or possibly effective) write of that value *)
Lemma value_persists l : forall r r' i v,
  accepted_from reg_step_weak r l r' -> lookup r i = Some v ->
  exists w, lookup r' i = Some w /\
    (w = v \/ exists o res, In (o, res) l /\ writes o i w /\ (res = Ok \/ res = Unknown)).
Proof.
  induction l as [|[o res] l IH]; cbn; intros r r' i v H L.
  - subst. exists v; auto.
  - destruct H as (r1 & H1 & H2).
    destruct (reg_step_weak_value _ _ _ _ _ _ H1 L) as (w1 & L1 & D1).
    destruct (IH _ _ _ _ H2 L1) as (w & Lw & D).
    exists w. split; [exact Lw|].
    destruct D as [-> | (o' & res' & I & W & R)].
    + destruct D1 as [-> | [W R]]; [left; reflexivity|]. right. exists o, res. auto.
    + right. exists o', res'. auto.
Qed.

(* ---- the property's sentences, at the level of the register ---- *)

(* "a replace succeeds only if the stored value is still the one the caller fetched" *)
Lemma replace_ok_value_equal r i old new r' :
  reg_step_weak r (Replace i old new) Ok r' -> lookup r i = Some old /\ lookup r' i = Some new.
Proof.
  intros [H | [[] _]]. cbn in H. unfold lookup in *.
  destruct (alookup r i) as [x|]; [|discriminate].
  destruct (bytes_eqb x old) eqn:E; [|discriminate].
  apply bytes_eqb_eq in E; subst x. inversion H; subst. split; [reflexivity | apply alookup_aset_same].
Qed.

(* "so at most one replace per predecessor value succeeds": a second successful replace of the
   same predecessor value needs the value to have been written back in between *)
Lemma at_most_one_replace_reg r0 pre i old n1 mid n2 post r' :
  accepted_from reg_step_weak r0
    (pre ++ (Replace i old n1, Ok) :: mid ++ (Replace i old n2, Ok) :: post) r' ->
  n1 = old \/ exists o res, In (o, res) mid /\ writes o i old /\ (res = Ok \/ res = Unknown).
Proof.
  intro H. apply accepted_app in H. destruct H as (ra & _ & H). cbn in H.
  destruct H as (rb & S1 & H). apply accepted_app in H. destruct H as (rc & M & H). cbn in H.
  destruct H as (rd & S2 & _).
  apply replace_ok_value_equal in S1. destruct S1 as [_ Lb].
  apply replace_ok_value_equal in S2. destruct S2 as [Lc _].
  destruct (value_persists _ _ _ _ _ M Lb) as (w & Lw & D).
  rewrite Lc in Lw. inversion Lw; subst w.
  destruct D as [-> | D]; [left; reflexivity | right; exact D].
Qed.

(* "a fetch after a successful replace sees that value or a later one" *)
Lemma fetch_after_replace_reg r0 pre i old new mid res post r' :
  accepted_from reg_step_weak r0
    (pre ++ (Replace i old new, Ok) :: mid ++ (Fetch i, res) :: post) r' ->
  res = Unknown \/ exists v, res = Val v /\
    (v = new \/ exists o r, In (o, r) mid /\ writes o i v /\ (r = Ok \/ r = Unknown)).
Proof.
  intro H. apply accepted_app in H. destruct H as (ra & _ & H). cbn in H.
  destruct H as (rb & S1 & H). apply accepted_app in H. destruct H as (rc & M & H). cbn in H.
  destruct H as (rd & S2 & _).
  apply replace_ok_value_equal in S1. destruct S1 as [_ Lb].
  destruct (value_persists _ _ _ _ _ M Lb) as (w & Lw & D).
  destruct S2 as [S2 | [[] _]]. unfold reg_step in S2.
  destruct res; cbn in S2; rewrite ?Lw in S2; try discriminate; [|left; reflexivity].
  inversion S2; subst. right. exists v. split; [reflexivity|].
  destruct D as [-> | D]; [left; reflexivity | right; exact D].
Qed.

(* Create never overwrites, and fails on an existing log *)
Lemma create_existing r i v res r' w :
  reg_step_weak r (Create i v) res r' -> lookup r i = Some w ->
  lookup r' i = Some w /\ (res = Refused \/ res = Unknown).
Proof.
  intros [H | [X _]] L; [|destruct res; destruct X].
  unfold reg_step in H. destruct res; cbn in H; rewrite ?L in H; try discriminate.
  - inversion H; subst. auto.
  - cbn in H. destruct H as [-> | ->]; auto.
Qed.

Lemma create_ok_absent r i v r' :
  reg_step_weak r (Create i v) Ok r' -> lookup r i = None /\ lookup r' i = Some v.
Proof.
  intros [H | [[] _]]. cbn in H. unfold lookup in *. destruct (alookup r i); [discriminate|].
  inversion H; subst. split; [reflexivity | apply alookup_aset_same].
Qed.

(* "Create succeeds at most once per log ID" *)
Lemma create_at_most_once_reg r0 pre i a mid b res post r' :
  accepted_from reg_step_weak r0
    (pre ++ (Create i a, Ok) :: mid ++ (Create i b, res) :: post) r' ->
  res = Refused \/ res = Unknown.
Proof.
  intro H. apply accepted_app in H. destruct H as (ra & _ & H). cbn in H.
  destruct H as (rb & S1 & H). apply accepted_app in H. destruct H as (rc & M & H). cbn in H.
  destruct H as (rd & S2 & _).
  apply create_ok_absent in S1. destruct S1 as [_ Lb].
  destruct (value_persists _ _ _ _ _ M Lb) as (w & Lw & _).
  exact (proj2 (create_existing _ _ _ _ _ _ S2 Lw)).
Qed.

(* "a missing log is reported with the dedicated not-found error" *)
Lemma fetch_missing_reg r i res r' :
  reg_step_weak r (Fetch i) res r' -> lookup r i = None -> res = NotFound \/ res = Unknown.
Proof.
  intros [H | [X _]] L; [|destruct res; destruct X].
  unfold reg_step in H. destruct res; cbn in H; rewrite ?L in H; try discriminate; auto.
Qed.

Lemma fetch_present_reg r i res r' v :
  reg_step_weak r (Fetch i) res r' -> lookup r i = Some v -> res = Val v \/ res = Unknown.
Proof.
  intros [H | [X _]] L; [|destruct res; destruct X].
  unfold reg_step in H. destruct res; cbn in H; rewrite ?L in H; try discriminate; auto.
  inversion H; auto.
Qed.

(* ---- real-time order ---- *)
Lemma rt_ordered_app l1 l2 :
  rt_ordered (l1 ++ l2) <->
  rt_ordered l1 /\ rt_ordered l2 /\ forall x y, In x l1 -> In y l2 -> ~ (h_fin y < h_start x).
Proof.
  induction l1 as [|a l1 IH]; cbn.
  - split; [intro H; repeat split; auto; intros ? ? [] | intros (_ & H & _); exact H].
  - rewrite IH. split.
    + intros (A & B & C & D). repeat split; auto.
      * intros y I. apply A, in_or_app; auto.
      * intros x y [<- | I] J; [apply A, in_or_app; auto | apply D; auto].
    + intros ((A & B) & C & D). repeat split; auto.
      intros y I. apply in_app_or in I. destruct I as [I | I]; [apply A, I | apply D; auto].
Qed.

(* in a real-time ordered list, a call that finished before another began stands before it *)
Lemma rt_ordered_before l x y :
  rt_ordered l -> In x l -> In y l -> h_start x <= h_fin x -> h_fin x < h_start y ->
  exists pre mid post, l = pre ++ x :: mid ++ y :: post.
Proof.
  intros R Ix Iy Wx Lt.
  destruct (in_split _ _ Ix) as (l1 & l2 & ->).
  apply in_app_or in Iy. destruct Iy as [Iy | [<- | Iy]].
  - exfalso. destruct (in_split _ _ Iy) as (a & b & ->).
    rewrite <- app_assoc in R. cbn in R.
    apply rt_ordered_app in R. destruct R as (_ & R & _). cbn in R. destruct R as [A _].
    apply (A x); [apply in_or_app; right; left; reflexivity | exact Lt].
  - exfalso. lia.
  - destruct (in_split _ _ Iy) as (a & b & ->). exists l1, a, b. reflexivity.
Qed.
