(* Lock/Sqlite.v — C05: internal/ctlog/sqlite.go as a client protocol over a SQLite database
   whose individual statements are atomic (and durable: synchronous=FULL, fullfsync).
   Table:  CREATE TABLE checkpoints (logID BLOB PRIMARY KEY, body BLOB NOT NULL) STRICT
   Definitions only. *)
From SL Require Export Lock.Sched.
Open Scope N_scope.

(* a bound parameter: crawshaw BindBytes binds a nil slice as NULL, an empty one as zeroblob(0) *)
Inductive sqlval := VNull | VBlob (b : bytes).

Definition bind (g : gobytes) : sqlval := match g with None => VNull | Some b => VBlob b end.

Inductive sq_req :=
| SqSelect (i : id)                         (* SELECT body FROM checkpoints WHERE logID = ? *)
| SqUpdate (new : sqlval) (i : id) (old : sqlval)
                                            (* UPDATE checkpoints SET body = ? WHERE logID = ? AND body = ? ; then changes() *)
| SqInsert (i : id) (new : sqlval).         (* INSERT INTO checkpoints (logID, body) VALUES (?, ?) ON CONFLICT(logID) DO NOTHING ; then changes() *)

Inductive sq_rep :=
| SqRows (row : option bytes)               (* the result callback ran once with this body / did not run *)
| SqChanges (n : N)
| SqError.                                  (* the statement failed (constraint violation); nothing changed *)

Definition sq_state := amap bytes.          (* rows: logID -> body; PRIMARY KEY = at most one row per logID *)

(* body = ? : NULL never compares equal; blobs compare bytewise *)
Definition sq_body_eq (stored : bytes) (v : sqlval) : bool :=
  match v with VNull => false | VBlob b => bytes_eqb stored b end.

Definition sq_server (s : sq_state) (q : sq_req) (_ : nat) : sq_state * sq_rep :=
  match q with
  | SqSelect i => (s, SqRows (alookup s i))
  | SqUpdate new i old =>
      match alookup s i with
      | Some stored =>
          if sq_body_eq stored old then
            match new with
            | VNull => (s, SqError)                      (* NOT NULL constraint failed *)
            | VBlob b => (aset s i b, SqChanges 1)       (* counts also when b = stored *)
            end
          else (s, SqChanges 0)
      | None => (s, SqChanges 0)
      end
  | SqInsert i new =>
      match new with
      | VNull => (s, SqError)                            (* NOT NULL is checked before the conflict clause *)
      | VBlob b =>
          match alookup s i with
          | Some _ => (s, SqChanges 0)                   (* ON CONFLICT(logID) DO NOTHING *)
          | None => (aset s i b, SqChanges 1)
          end
      end
  end.

(* sqliteCheckpoint{logID, body}; body is never nil: Fetch builds it with []byte(string) of a row
   that exists, Replace stores the normalised new value *)
Record sq_handle := { sq_id : id; sq_body : bytes }.

(* "if new == nil { new = []byte{} }"  (NULL does not compare equal to an empty blob) *)
Definition sq_norm (g : gobytes) : gobytes := Some (norm g).

Definition sq_request (o : cop sq_handle) : sq_req :=
  match o with
  | CFetch i => SqSelect i
  | CReplace h new => SqUpdate (bind (sq_norm new)) (sq_id h) (bind (Some (sq_body h)))
  | CCreate i new => SqInsert i (bind (sq_norm new))
  end.

Definition sq_interp (o : cop sq_handle) (r : sq_rep) : cres sq_handle :=
  match o, r with
  | CFetch i, SqRows (Some b) => CVal {| sq_id := i; sq_body := b |}   (* GetText: the bytes as stored, incl. NUL and empty *)
  | CFetch i, SqRows None => CNotFound                                  (* body == nil => ErrLogNotFound *)
  | CReplace h new, SqChanges n =>
      if n =? 0 then CRefused                                           (* "SQLite checkpoint not found or has changed" *)
      else CReplaced {| sq_id := sq_id h; sq_body := norm new |}
  | CCreate i new, SqChanges n =>
      if n =? 0 then CRefused                                           (* "checkpoint already exists" *)
      else CCreated
  | _, _ => CErr
  end.

Definition sqlite : protocol := {|
  p_state := sq_state; p_req := sq_req; p_rep := sq_rep; p_handle := sq_handle;
  p_init := [];
  p_server := sq_server;
  p_reopen := fun s => s;               (* the database file is the state; a connection holds none *)
  p_request := sq_request;
  p_interp := sq_interp;
  p_hid := sq_id; p_hbody := sq_body |}.

(* the client without the nil -> empty normalisation, to show what it is needed for *)
Definition sq_request_nonorm (o : cop sq_handle) : sq_req :=
  match o with
  | CFetch i => SqSelect i
  | CReplace h new => SqUpdate (bind new) (sq_id h) (bind (Some (sq_body h)))
  | CCreate i new => SqInsert i (bind new)
  end.
