(* Lock/CheckerProofs.v — C05: the executable checker [linearizable_b] is sound and complete for
   "the history has a linearization accepted by the register that respects real time", and the
   window-by-window check of a long history is sound for the concatenated history. *)
From SL Require Import Base.BytesProofs Lock.Register Lock.RegisterProofs.
Open Scope N_scope.

Lemma result_eqb_eq a b : result_eqb a b = true <-> a = b.
Proof.
  destruct a, b; cbn; try (split; congruence).
  rewrite bytes_eqb_eq. split; congruence.
Qed.

Lemma reg_eqb_eq a : forall b, reg_eqb a b = true <-> a = b.
Proof.
  induction a as [|[k v] a IH]; destruct b as [|[k' v'] b]; cbn; try (split; congruence).
  rewrite !andb_true_iff, !bytes_eqb_eq, IH. split; [intros [[-> ->] ->]; reflexivity | intro E; inversion E; auto].
Qed.

Lemma reg_mem_in r l : reg_mem r l = true <-> In r l.
Proof.
  induction l as [|x l IH]; cbn; [split; [discriminate | intros []]|].
  rewrite orb_true_iff, reg_eqb_eq, IH. split; intros [H | H]; auto.
Qed.

Lemma dedup_in x l : In x (dedup l) <-> In x l.
Proof.
  induction l as [|y l IH]; cbn; [reflexivity|].
  destruct (reg_mem y (dedup l)) eqn:M.
  - rewrite IH. split; [auto|]. intros [<- | H]; [|exact H]. apply IH, reg_mem_in, M.
  - cbn. rewrite IH. reflexivity.
Qed.

Lemma picks_perm {A} (l : list A) x rest : In (x, rest) (picks l) -> Permutation (x :: rest) l.
Proof.
  revert x rest. induction l as [|a l IH]; cbn; intros x rest H; [destruct H|].
  destruct H as [H | H].
  - inversion H; subst. reflexivity.
  - apply in_map_iff in H. destruct H as ([y r] & E & I). cbn in E. inversion E; subst.
    apply IH in I. rewrite perm_swap. now constructor.
Qed.

Lemma picks_complete {A} (l : list A) x : In x l -> exists rest, In (x, rest) (picks l).
Proof.
  induction l as [|a l IH]; cbn; intros H; [destruct H|].
  destruct H as [-> | H].
  - exists l. left; reflexivity.
  - destruct (IH H) as (rest & I). exists (a :: rest). right.
    apply in_map_iff. exists (x, rest). auto.
Qed.

Lemma minimal_spec x rest : minimal x rest = true <-> forall y, In y rest -> ~ (h_fin y < h_start x).
Proof.
  unfold minimal. rewrite forallb_forall. split; intros H y I; specialize (H y I).
  - apply negb_true_iff, N.ltb_ge in H. lia.
  - apply negb_true_iff, N.ltb_ge. lia.
Qed.

Lemma replace_refused_same r i old new r1 : reg_exec r (Replace i old new) = (r1, Refused) -> r1 = r.
Proof.
  cbn. destruct (lookup r i); [destruct (bytes_eqb b old)|]; intro H; inversion H; reflexivity.
Qed.

Lemma spurious_spec o res : spurious_refusal o res <-> is_replace o = true /\ res = Refused.
Proof.
  destruct o, res; cbn; split; try tauto; try (intros [? ?]; discriminate).
Qed.

Lemma outcomes_spec weak r o res r' : In r' (outcomes weak r o res) <-> step_of weak r o res r'.
Proof.
  assert (U : res = Unknown -> (In r' (outcomes weak r o res) <-> step_of weak r o res r')).
  { intros ->. cbn. destruct weak; cbn; unfold reg_step_weak, reg_step.
    - split; [intros [<- | [<- | []]]; left; auto | intros [[-> | ->] | [X _]]; auto; destruct o; destruct X].
    - split; [intros [<- | [<- | []]]; auto | intros [-> | ->]; auto]. }
  assert (K : res <> Unknown -> (In r' (outcomes weak r o res) <-> step_of weak r o res r')).
  { intro NU.
    assert (S : reg_step r o res r' <-> reg_exec r o = (r', res)) by (unfold reg_step; destruct res; tauto).
    assert (O : outcomes weak r o res =
                let '(r1, res1) := reg_exec r o in
                if result_eqb res res1 then [r1]
                else if weak && is_replace o && result_eqb res Refused then [r] else [])
      by (unfold outcomes; destruct res; try reflexivity; congruence).
    rewrite O. clear O. destruct (reg_exec r o) as [r1 res1] eqn:X.
    destruct (result_eqb res res1) eqn:E.
    - apply result_eqb_eq in E. subst res1. cbn. destruct weak; cbn; unfold reg_step_weak; rewrite ?S.
      + split; [intros [<- | []]; left; reflexivity|].
        intros [H | [Sp ->]]; [inversion H; auto|].
        apply spurious_spec in Sp. destruct Sp as [Ir ->]. destruct o; try discriminate.
        left. eapply replace_refused_same; eauto.
      + split; [intros [<- | []]; reflexivity | intro H; inversion H; auto].
    - assert (NS : ~ reg_exec r o = (r', res)).
      { assert (NE : res <> res1) by (intro Q; apply result_eqb_eq in Q; congruence).
        rewrite X. intro H. inversion H; congruence. }
      destruct weak; cbn [andb step_of]; unfold reg_step_weak; rewrite ?S.
      + destruct (is_replace o && result_eqb res Refused) eqn:C.
        * apply andb_true_iff in C. destruct C as [Ir Er]. apply result_eqb_eq in Er.
          split; [intros [<- | []]; right; split; [apply spurious_spec; auto | reflexivity]|].
          intros [H | [_ ->]]; [rewrite <- X in H; contradiction | left; reflexivity].
        * split; [intros []|]. intros [H | [Sp _]]; [rewrite <- X in H; contradiction|].
          apply spurious_spec in Sp. destruct Sp as [Ir ->]. rewrite Ir in C. cbn in C. discriminate.
      + split; [intros [] | intro H; rewrite <- X in H; contradiction]. }
  destruct res; try (apply K; discriminate). apply U; reflexivity.
Qed.

Lemma search_nil weak fuel r : search weak fuel r [] = [r].
Proof. destruct fuel; reflexivity. Qed.

Theorem search_sound weak : forall fuel r h r',
  In r' (search weak fuel r h) -> linearizable_from (step_of weak) r h r'.
Proof.
  induction fuel as [|f IH]; intros r h r' H.
  - destruct h; [|destruct H]. destruct H as [<- | []]. exists []. cbn. auto.
  - destruct h as [|a h]; [destruct H as [<- | []]; exists []; cbn; auto|].
    cbn [search] in H. apply dedup_in, in_flat_map in H. destruct H as ([x rest] & Ip & H). cbn [fst snd] in H.
    destruct (minimal x rest) eqn:M; [|destruct H].
    apply in_flat_map in H. destruct H as (r1 & O & H).
    apply outcomes_spec in O. apply IH in H. destruct H as (lin & P & R & A).
    exists (x :: lin). split; [|split].
    + rewrite P. apply picks_perm, Ip.
    + cbn. split; [|exact R]. intros y I. apply (proj1 (minimal_spec x rest) M).
      eapply Permutation_in; eauto.
    + cbn. exists r1. auto.
Qed.

Theorem search_complete weak : forall lin h r r' fuel,
  Permutation lin h -> rt_ordered lin -> accepted_from (step_of weak) r (calls lin) r' ->
  (length h <= fuel)%nat -> In r' (search weak fuel r h).
Proof.
  induction lin as [|x t IH]; intros h r r' fuel P R A Lf.
  - apply Permutation_nil in P. subst h. rewrite search_nil. cbn in A. left; auto.
  - assert (Ix : In x h) by (eapply Permutation_in; [exact P | left; reflexivity]).
    destruct (picks_complete h x Ix) as (rest & Ip).
    assert (P2 : Permutation t rest).
    { apply Permutation_cons_inv with (a := x). rewrite P. symmetry. apply picks_perm, Ip. }
    destruct h as [|a h]; [destruct Ix|]. destruct fuel as [|f]; [cbn in Lf; lia|].
    cbn [search]. apply dedup_in, in_flat_map. exists (x, rest). split; [exact Ip|]. cbn [fst snd].
    cbn in R. destruct R as [Rx Rt]. cbn in A. destruct A as (r1 & S1 & A).
    assert (M : minimal x rest = true).
    { apply minimal_spec. intros y I. apply Rx. eapply Permutation_in; [symmetry; exact P2 | exact I]. }
    rewrite M. apply in_flat_map. exists r1. split; [apply outcomes_spec, S1|].
    apply IH; auto.
    apply Permutation_length in P2. apply picks_perm, Permutation_length in Ip. cbn in *. lia.
Qed.

Lemma search_nonempty_iff weak h :
  (exists r', In r' (search weak (length h) [] h)) <-> linearizable (step_of weak) h.
Proof.
  split.
  - intros (r' & H). exists r'. eapply search_sound; eauto.
  - intros (r' & lin & P & R & A). exists r'. eapply search_complete; eauto.
Qed.

(* the checker decides linearizability with respect to the by-value register *)
Theorem linearizable_b_sound h : linearizable_b h = true -> linearizable reg_step h.
Proof.
  unfold linearizable_b. intro H. apply (search_nonempty_iff false).
  destruct (search false (length h) [] h) as [|r' l]; [discriminate|]. exists r'. left; reflexivity.
Qed.

Theorem linearizable_b_complete h : linearizable reg_step h -> linearizable_b h = true.
Proof.
  intro H. apply (search_nonempty_iff false) in H. destruct H as (r' & H).
  unfold linearizable_b. destruct (search false (length h) [] h); [destruct H | reflexivity].
Qed.

Theorem linearizable_weak_b_sound h : linearizable_weak_b h = true -> linearizable reg_step_weak h.
Proof.
  unfold linearizable_weak_b. intro H. apply (search_nonempty_iff true).
  destruct (search true (length h) [] h) as [|r' l]; [discriminate|]. exists r'. left; reflexivity.
Qed.

Theorem linearizable_weak_b_complete h : linearizable reg_step_weak h -> linearizable_weak_b h = true.
Proof.
  intro H. apply (search_nonempty_iff true) in H. destruct H as (r' & H).
  unfold linearizable_weak_b. destruct (search true (length h) [] h); [destruct H | reflexivity].
Qed.

(* ---- windows ---- *)
Lemma window_bound_ge w : forall b, b <= window_bound b w.
Proof.
  unfold window_bound. induction w as [|x w IH]; cbn; intro b; [lia|].
  specialize (IH (N.max b (h_fin x))). lia.
Qed.

Lemma window_bound_fin w : forall b x, In x w -> h_fin x <= window_bound b w.
Proof.
  unfold window_bound. induction w as [|y w IH]; cbn; intros b x H; [destruct H|].
  destruct H as [<- | H].
  - pose proof (window_bound_ge w (N.max b (h_fin y))) as G. unfold window_bound in G. lia.
  - apply IH, H.
Qed.

Lemma calls_app a b : calls (a ++ b) = calls a ++ calls b.
Proof. apply map_app. Qed.

Lemma search_windows_sound weak : forall ws bound rs r',
  In r' (search_windows weak bound rs ws) ->
  exists r lin, In r rs /\ Permutation lin (concat ws) /\ rt_ordered lin /\
    accepted_from (step_of weak) r (calls lin) r' /\
    forall x, In x lin -> bound < h_start x /\ h_start x <= h_fin x.
Proof.
  induction ws as [|w t IH]; intros bound rs r' H.
  - cbn in H. exists r', []. cbn. split; [exact H|]. split; [constructor|]. split; [exact I|].
    split; [reflexivity|]. intros x [].
  - cbn [search_windows] in H. destruct (window_ok bound w) eqn:W; [|destruct H].
    apply IH in H. destruct H as (r1 & lin2 & I1 & P2 & R2 & A2 & B2).
    unfold search_all in I1. apply dedup_in, in_flat_map in I1. destruct I1 as (r & Ir & S).
    apply search_sound in S. destruct S as (lin1 & P1 & R1 & A1).
    assert (B1 : forall x, In x lin1 -> bound < h_start x /\ h_start x <= h_fin x).
    { intros x I. unfold window_ok in W. rewrite forallb_forall in W.
      assert (Iw : In x w) by (eapply Permutation_in; eauto).
      specialize (W x Iw). apply andb_true_iff in W. destruct W as [W1 W2].
      apply N.ltb_lt in W1. apply N.leb_le in W2. auto. }
    exists r, (lin1 ++ lin2). split; [exact Ir|]. split; [|split; [|split]].
    + cbn. apply Permutation_app; auto.
    + apply rt_ordered_app. split; [exact R1|]. split; [exact R2|].
      intros x y Ix Iy.
      assert (Iw : In x w) by (eapply Permutation_in; eauto).
      pose proof (window_bound_fin w bound x Iw) as G. destruct (B1 x Ix) as [G1 G2]. destruct (B2 y Iy) as [G3 G4]. lia.
    + rewrite calls_app. apply accepted_app. exists r1. auto.
    + intros x I. apply in_app_or in I. destruct I as [I | I]; [apply B1, I|].
      destruct (B2 x I) as [G1 G2]. pose proof (window_bound_ge w bound) as G. split; lia.
Qed.

(* the check applied to recorded histories: sound for the whole (concatenated) history *)
Theorem linearizable_windows_b_sound ws :
  linearizable_windows_b ws = true -> linearizable reg_step (concat ws).
Proof.
  unfold linearizable_windows_b. intro H.
  destruct (search_windows false 0 [[]] ws) as [|r' l] eqn:E; [discriminate|].
  assert (I : In r' (search_windows false 0 [[]] ws)) by (rewrite E; left; reflexivity).
  apply search_windows_sound in I. destruct I as (r & lin & Ir & P & R & A & _).
  destruct Ir as [<- | []]. exists r', lin. auto.
Qed.
