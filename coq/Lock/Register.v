(* Lock/Register.v — C05 specification: the compare-and-swap register a lock backend must
   implement, histories with real-time intervals, linearizability, and the executable
   checker [linearizable_b] (exhaustive search over linearization orders that respect real
   time). Definitions only; proofs are in Lock/Proofs.v and Lock/CheckerProofs.v. *)
From SL Require Export Base.Bytes.
From Coq Require Export Sorting.Permutation.
Open Scope N_scope.

(* ---- association lists keyed by log ID (first occurrence wins; [aset] keeps the key order) ---- *)
Definition id := bytes.

Definition amap (V : Type) := list (id * V).

Fixpoint alookup {V} (m : amap V) (i : id) : option V :=
  match m with
  | [] => None
  | (k, v) :: r => if bytes_eqb k i then Some v else alookup r i
  end.

Fixpoint aset {V} (m : amap V) (i : id) (v : V) : amap V :=
  match m with
  | [] => [(i, v)]
  | (k, x) :: r => if bytes_eqb k i then (k, v) :: r else (k, x) :: aset r i v
  end.

Definition amap_map {A B} (f : A -> B) (m : amap A) : amap B :=
  map (fun kv => (fst kv, f (snd kv))) m.

(* ---- the register ---- *)
Definition reg := list (id * bytes).
Definition lookup (r : reg) (i : id) : option bytes := alookup r i.

Inductive op :=
| Fetch (i : id)
| Replace (i : id) (old new : bytes)   (* succeeds iff the stored value equals [old], BY VALUE *)
| Create (i : id) (new : bytes).       (* succeeds iff [i] is absent *)

Inductive result :=
| Val (v : bytes)
| NotFound
| Ok
| Refused
| Unknown.    (* an error after which the effect may or may not have happened *)

Definition reg_exec (r : reg) (o : op) : reg * result :=
  match o with
  | Fetch i => (r, match lookup r i with Some v => Val v | None => NotFound end)
  | Replace i old new =>
      match lookup r i with
      | Some v => if bytes_eqb v old then (aset r i new, Ok) else (r, Refused)
      | None => (r, Refused)
      end
  | Create i new =>
      match lookup r i with
      | Some _ => (r, Refused)
      | None => (aset r i new, Ok)
      end
  end.

(* one register step with the visible result [res]. [Unknown]: either nothing happened or the
   operation took effect. *)
Definition reg_step (r : reg) (o : op) (res : result) (r' : reg) : Prop :=
  match res with
  | Unknown => r' = r \/ r' = fst (reg_exec r o)
  | _ => reg_exec r o = (r', res)
  end.

(* the weaker reading of the property's sentence "a replace succeeds ONLY IF the stored value is
   still the one the caller fetched": a Replace may additionally be refused although the values
   are equal (needed for version-counter ETags, where a handle is stale after an A->B->A) *)
Definition spurious_refusal (o : op) (res : result) : Prop :=
  match o, res with Replace _ _ _, Refused => True | _, _ => False end.

Definition reg_step_weak (r : reg) (o : op) (res : result) (r' : reg) : Prop :=
  reg_step r o res r' \/ (spurious_refusal o res /\ r' = r).

Definition step_of (weak : bool) := if weak then reg_step_weak else reg_step.

Fixpoint accepted_from (step : reg -> op -> result -> reg -> Prop)
         (r : reg) (l : list (op * result)) (r' : reg) : Prop :=
  match l with
  | [] => r' = r
  | (o, res) :: t => exists r1, step r o res r1 /\ accepted_from step r1 t r'
  end.

Definition writes (o : op) (i : id) (v : bytes) : Prop :=
  match o with
  | Fetch _ => False
  | Replace j _ new => j = i /\ new = v
  | Create j new => j = i /\ new = v
  end.

(* ---- histories: one entry per call, with the real-time interval of the call ---- *)
Definition hop := (op * N * N * result)%type.     (* call, start, finish, result *)
Definition h_op (x : hop) : op := fst (fst (fst x)).
Definition h_start (x : hop) : N := snd (fst (fst x)).
Definition h_fin (x : hop) : N := snd (fst x).
Definition h_res (x : hop) : result := snd x.
Definition history := list hop.

Definition calls (l : history) : list (op * result) := map (fun x => (h_op x, h_res x)) l.

(* [x :: t] is in an order that respects real time iff no later element finished before x began *)
Fixpoint rt_ordered (l : history) : Prop :=
  match l with
  | [] => True
  | x :: t => (forall y, In y t -> ~ (h_fin y < h_start x)) /\ rt_ordered t
  end.

Definition linearizable_from (step : reg -> op -> result -> reg -> Prop) (r0 : reg) (h : history) (r' : reg) : Prop :=
  exists lin, Permutation lin h /\ rt_ordered lin /\ accepted_from step r0 (calls lin) r'.

Definition linearizable (step : reg -> op -> result -> reg -> Prop) (h : history) : Prop :=
  exists r', linearizable_from step [] h r'.

(* ---- the executable checker ---- *)
Definition result_eqb (a b : result) : bool :=
  match a, b with
  | Val x, Val y => bytes_eqb x y
  | NotFound, NotFound | Ok, Ok | Refused, Refused | Unknown, Unknown => true
  | _, _ => false
  end.

Fixpoint reg_eqb (a b : reg) : bool :=
  match a, b with
  | [], [] => true
  | (k, v) :: a', (k', v') :: b' => bytes_eqb k k' && bytes_eqb v v' && reg_eqb a' b'
  | _, _ => false
  end.

Fixpoint reg_mem (r : reg) (l : list reg) : bool :=
  match l with [] => false | x :: t => reg_eqb r x || reg_mem r t end.

Fixpoint dedup (l : list reg) : list reg :=
  match l with
  | [] => []
  | x :: t => let d := dedup t in if reg_mem x d then d else x :: d
  end.

(* every way of taking one element out of a list *)
Fixpoint picks {A} (l : list A) : list (A * list A) :=
  match l with
  | [] => []
  | x :: t => (x, t) :: map (fun p => (fst p, x :: snd p)) (picks t)
  end.

(* [x] may be linearized before everything in [rest] *)
Definition minimal (x : hop) (rest : history) : bool :=
  forallb (fun y => negb (h_fin y <? h_start x)) rest.

Definition is_replace (o : op) : bool := match o with Replace _ _ _ => true | _ => false end.

(* the register states one step can lead to, given the observed result *)
Definition outcomes (weak : bool) (r : reg) (o : op) (res : result) : list reg :=
  match res with
  | Unknown => [r; fst (reg_exec r o)]
  | _ =>
    let '(r', res') := reg_exec r o in
    if result_eqb res res' then [r']
    else if weak && is_replace o && result_eqb res Refused then [r] else []
  end.

(* all final register states reachable by some real-time-respecting linearization of [h] *)
Fixpoint search (weak : bool) (fuel : nat) (r : reg) (h : history) : list reg :=
  match h with
  | [] => [r]
  | _ :: _ =>
    match fuel with
    | O => []
    | S f =>
      dedup (flat_map (fun p =>
               if minimal (fst p) (snd p)
               then flat_map (fun r1 => search weak f r1 (snd p)) (outcomes weak r (h_op (fst p)) (h_res (fst p)))
               else []) (picks h))
    end
  end.

Definition search_all (weak : bool) (rs : list reg) (h : history) : list reg :=
  dedup (flat_map (fun r => search weak (length h) r h) rs).

Definition linearizable_b (h : history) : bool :=
  match search false (length h) [] h with [] => false | _ :: _ => true end.

Definition linearizable_weak_b (h : history) : bool :=
  match search true (length h) [] h with [] => false | _ :: _ => true end.

(* long recorded histories are checked window by window: every call of a window starts after
   every call of the earlier windows has finished (a quiescent point lies between them), and
   the set of possible register states is threaded through *)
Definition window_ok (bound : N) (w : history) : bool :=
  forallb (fun x => (bound <? h_start x) && (h_start x <=? h_fin x)) w.

Definition window_bound (bound : N) (w : history) : N :=
  fold_left (fun b x => N.max b (h_fin x)) w bound.

Fixpoint search_windows (weak : bool) (bound : N) (rs : list reg) (ws : list history) : list reg :=
  match ws with
  | [] => rs
  | w :: t =>
    if window_ok bound w
    then search_windows weak (window_bound bound w) (search_all weak rs w) t
    else []
  end.

Definition linearizable_windows_b (ws : list history) : bool :=
  match search_windows false 0 [[]] ws with [] => false | _ :: _ => true end.
