(* Lock/Run.v — C05: entry points of the model for the correspondence drivers. [run_op] runs one
   harness line (client operation = request, ONE server step, interpretation) and renders the
   result, the request the client put on the wire and the server's reply exactly as the Go
   driver does; [lin_step] is the window-by-window use of the checker on recorded histories. *)
From SL Require Export Lock.Sched Lock.Sqlite Lock.Dynamo Lock.Etag.
Open Scope N_scope.

Record renderer (P : protocol) := { r_req : p_req P -> bytes; r_rep : p_rep P -> bytes }.
Arguments r_req {P}. Arguments r_rep {P}.

(* model state of one backend in a sequential run: server state and all handles handed out *)
Definition mstate (P : protocol) := (p_state P * list (p_handle P))%type.
Definition mstate_init (P : protocol) : mstate P := (p_init P, []).

Definition semi : bytes := [x3b].
Definition comma : bytes := [x2c].
Definition colon : bytes := [x3a].
Definition dec_nat (n : nat) : bytes := dec (N.of_nat n).
Definition gohx (g : gobytes) : bytes := match g with None => s2b "nil" | Some b => hx b end.

Definition render_cres (P : protocol) (k : nat) (c : cres (p_handle P)) : bytes :=
  match c with
  | CVal h => s2b "val:" ++ hx (p_hbody P h) ++ s2b ":h" ++ dec_nat k
  | CNotFound => s2b "notfound"
  | CReplaced h => s2b "ok:h" ++ dec_nat k
  | CCreated => s2b "ok"
  | CRefused => s2b "refused"
  | CErr => s2b "err"
  end.

Definition run_op (P : protocol) (R : renderer P) (st : mstate P) (o : sop) (n : nat) : mstate P * bytes :=
  match cop_of_sop P (snd st) o with
  | None => (st, s2b "badhandle")
  | Some co =>
    let q := p_request P co in
    let '(s', rep) := p_server P (fst st) q n in
    let cr := p_interp P co rep in
    ((s', snd st ++ new_handles P cr),
     render_cres P (length (snd st)) cr ++ semi ++ r_req R q ++ semi ++ r_rep R rep)
  end.

(* ---- SQLite: nothing on a wire ---- *)
Definition render_sqlite : renderer sqlite := {| r_req := fun _ => [x2d]; r_rep := fun _ => [x2d] |}.
Definition run_sqlite := run_op sqlite render_sqlite.

(* ---- DynamoDB ---- *)
Definition dy_cond_text (c : dy_cond) : bytes :=
  match c with
  | DyNoCond => []
  | DyCheckpointEq _ => s2b "checkpoint = :old"
  | DyNotExists => s2b "attribute_not_exists(logID)"
  end.

Definition dy_render_req (q : dy_req) : bytes :=
  match q with
  | DyGetItem i consistent => s2b "GetItem," ++ hx i ++ s2b ",cr=" ++ b2i consistent
  | DyPutItem i v c =>
      s2b "PutItem," ++ hx i ++ comma ++ gohx v ++ comma ++ hx (dy_cond_text c) ++ comma ++
      match c with DyCheckpointEq old => gohx old | _ => s2b "none" end
  end.

Definition dy_render_rep (r : dy_rep) : bytes :=
  match r with
  | DyItem (Some b) => s2b "item:" ++ hx b
  | DyItem None => s2b "noitem"
  | DyPutOk => s2b "putok"
  | DyCondFailed => s2b "ccf"
  | DyInvalid => s2b "invalid"
  end.

Definition render_dynamo (c : bool) : renderer (dynamo_client c) :=
  {| r_req := (dy_render_req : p_req (dynamo_client c) -> bytes);
     r_rep := (dy_render_rep : p_rep (dynamo_client c) -> bytes) |}.
Definition run_dynamo := run_op dynamo (render_dynamo true).

(* a GetItem with ConsistentRead = false on the same table (the harness' own client): value only *)
Definition run_ecfetch (st : mstate dynamo) (i : id) (n : nat) : bytes :=
  let q := DyGetItem i false in
  let '(_, rep) := dy_server (fst st) q n in
  (match rep with
   | DyItem (Some b) => s2b "val:" ++ hx b
   | DyItem None => s2b "notfound"
   | _ => s2b "err"
   end) ++ semi ++ dy_render_req q ++ semi ++ dy_render_rep rep.

(* ---- ETag ---- *)
Section RenderEtag.
  Variable E : Type.
  Variable wire : E -> bytes.      (* the ETag as it appears in the ETag / If-Match headers *)

  Definition et_render_tag (e : option E) : bytes :=
    match e with Some x => hx (wire x) | None => s2b "noetag" end.

  Definition et_render_req (q : et_req E) : bytes :=
    match q with
    | EtGet k => s2b "GET," ++ hex k
    | EtPut k body im =>
        s2b "PUT," ++ hex k ++ comma ++ hx body ++ comma ++
        match im with
        | IfAbsent => s2b "absent"
        | IfEmpty => s2b "empty"
        | IfTag e => s2b "tag:" ++ hx (wire e)
        end
    end.

  Definition et_render_rep (r : et_rep E) : bytes :=
    match r with
    | EtObject body e => s2b "obj:" ++ hx body ++ colon ++ et_render_tag e
    | EtNoSuchKey => s2b "nosuchkey"
    | EtPutOk e => s2b "putok:" ++ et_render_tag e
    | EtPrecondFailed => s2b "412"
    end.
End RenderEtag.

Definition quote (b : bytes) : bytes := x22 :: b ++ [x22].

(* content hash: "<hex of the digest>" *)
Definition render_etagh (hashfn : bytes -> bytes) : renderer (etag_hash hashfn) :=
  {| r_req := (et_render_req bytes (fun d => quote (hex d)) : p_req (etag_hash hashfn) -> bytes);
     r_rep := (et_render_rep bytes (fun d => quote (hex d)) : p_rep (etag_hash hashfn) -> bytes) |}.
Definition run_etagh (hashfn : bytes -> bytes) := run_op (etag_hash hashfn) (render_etagh hashfn).
Definition init_etagh (hashfn : bytes -> bytes) : mstate (etag_hash hashfn) := mstate_init (etag_hash hashfn).

(* version counter: "v<n>" *)
Definition vwire (v : N) : bytes := quote (x76 :: dec v).
Definition render_etagv : renderer etag_version :=
  {| r_req := (et_render_req N vwire : p_req etag_version -> bytes);
     r_rep := (et_render_rep N vwire : p_rep etag_version -> bytes) |}.
Definition run_etagv := run_op etag_version render_etagv.

Definition init_sqlite : mstate sqlite := mstate_init sqlite.
Definition init_dynamo : mstate dynamo := mstate_init dynamo.
Definition init_etagv : mstate etag_version := mstate_init etag_version.

(* ---- the checker on recorded histories ---- *)
Definition mk_hop (o : op) (s f : N) (r : result) : hop := (o, s, f, r).

Definition lin_state := (N * list reg)%type.       (* latest finish so far, possible register states *)
Definition lin_init : lin_state := (0, [[]]).
Definition lin_step (st : lin_state) (w : history) : lin_state :=
  (window_bound (fst st) w, search_windows false (fst st) (snd st) [w]).
Definition lin_alive (st : lin_state) : bool := match snd st with [] => false | _ :: _ => true end.
Definition lin_count (st : lin_state) : N := N.of_nat (length (snd st)).
Definition z_to_n (z : Z) : N := Z.to_N z.
Definition n_to_nat (n : N) : nat := N.to_nat n.

(* whole scripts, for the vm_compute cross-check inside Coq *)
Fixpoint run_script (P : protocol) (R : renderer P) (st : mstate P) (l : list (sop * nat)) : list bytes :=
  match l with
  | [] => []
  | (o, n) :: t => let '(st', line) := run_op P R st o n in line :: run_script P R st' t
  end.
