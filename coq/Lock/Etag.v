(* Lock/Etag.v — C05: internal/ctlog/etag.go as a client protocol over an S3-compatible object
   store with conditional writes (If-Match), whose individual requests are atomic.
   The server assigns ETags; two flavours are instances: a content hash, or a version counter.
   An empty-valued If-Match header means "create only" (Tigris; assumption of the model).
   Definitions only. *)
From SL Require Export Lock.Sched.
Open Scope N_scope.

Section ETag.
  Variable E : Type.                          (* ETag values as the server hands them out (never the empty string) *)
  Variable E_eqb : E -> E -> bool.
  Variable mk_etag : bytes -> N -> E.         (* from the object's body and its version (number of writes so far) *)

  Inductive if_match :=
  | IfAbsent                                  (* no If-Match header: unconditional write (not used by sunlight) *)
  | IfEmpty                                   (* If-Match: ""  — create only *)
  | IfTag (e : E).                            (* If-Match: <etag> *)

  Inductive et_req :=
  | EtGet (key : id)                          (* GetObject (Cache-Control: no-cache, x-tigris-cas: true) *)
  | EtPut (key : id) (body : bytes) (im : if_match).

  Inductive et_rep :=
  | EtObject (body : bytes) (etag : option E) (* 200; the ETag header may be missing *)
  | EtNoSuchKey                               (* 404 <Code>NoSuchKey</Code> *)
  | EtPutOk (etag : option E)                 (* 200 *)
  | EtPrecondFailed.                          (* 412 PreconditionFailed *)

  (* per key: body and version *)
  Definition et_state := amap (bytes * N).

  Definition et_tag (x : bytes * N) : E := mk_etag (fst x) (snd x).

  (* choice n = 1: the server leaves the ETag header out of this reply *)
  Definition et_hdr (n : nat) (e : E) : option E := match n with 1%nat => None | _ => Some e end.

  Definition et_server (s : et_state) (q : et_req) (n : nat) : et_state * et_rep :=
    match q with
    | EtGet k =>
        match alookup s k with
        | Some x => (s, EtObject (fst x) (et_hdr n (et_tag x)))
        | None => (s, EtNoSuchKey)
        end
    | EtPut k body im =>
        let cur := alookup s k in
        let write := let x := (body, match cur with Some y => snd y + 1 | None => 1 end) in
                     (aset s k x, EtPutOk (et_hdr n (et_tag x))) in
        match im, cur with
        | IfAbsent, _ => write
        | IfEmpty, None => write
        | IfEmpty, Some _ => (s, EtPrecondFailed)
        | IfTag e, Some y => if E_eqb (et_tag y) e then write else (s, EtPrecondFailed)
        | IfTag e, None => (s, EtPrecondFailed)
        end
    end.

  (* eTagCheckpoint{key, body, eTag} *)
  Record et_handle := { et_key : id; et_body : bytes; et_etag : E }.

  Definition et_request (o : cop et_handle) : et_req :=
    match o with
    | CFetch i => EtGet i
    | CReplace h new => EtPut (et_key h) (norm new) (IfTag (et_etag h))
    | CCreate i new => EtPut i (norm new) IfEmpty
    end.

  (* [fixed] = true: etag.go as it is now (errors.As(err, *types.NoSuchKey) => ErrLogNotFound);
     false: the client before commit "fix: ETag lock backend must report a missing log as
     ErrLogNotFound", which wrapped the S3 error *)
  Definition et_interp (fixed : bool) (o : cop et_handle) (r : et_rep) : cres et_handle :=
    match o, r with
    | CFetch i, EtObject body (Some e) => CVal {| et_key := i; et_body := body; et_etag := e |}
    | CFetch i, EtObject body None => CErr                 (* "no ETag in response" *)
    | CFetch i, EtNoSuchKey => if fixed then CNotFound else CErr
    | CReplace h new, EtPutOk (Some e) => CReplaced {| et_key := et_key h; et_body := norm new; et_etag := e |}
    | CReplace h new, EtPutOk None => CErr                 (* written, but "no ETag in response": an error *)
    | CReplace h new, EtPrecondFailed => CRefused
    | CCreate i new, EtPutOk _ => CCreated
    | CCreate i new, EtPrecondFailed => CRefused
    | _, _ => CErr
    end.

  Definition etag_client (fixed : bool) : protocol := {|
    p_state := et_state; p_req := et_req; p_rep := et_rep; p_handle := et_handle;
    p_init := [];
    p_server := et_server;
    p_reopen := fun s => s;
    p_request := et_request;
    p_interp := et_interp fixed;
    p_hid := et_key; p_hbody := et_body |}.
End ETag.

Arguments IfAbsent {E}. Arguments IfEmpty {E}. Arguments IfTag {E}.
Arguments EtGet {E}. Arguments EtPut {E}.
Arguments EtObject {E}. Arguments EtNoSuchKey {E}. Arguments EtPutOk {E}. Arguments EtPrecondFailed {E}.
Arguments et_key {E}. Arguments et_body {E}. Arguments et_etag {E}.

(* flavour 1: the ETag is a hash of the content (S3: MD5), [hashfn] given *)
Definition etag_hash (hashfn : bytes -> bytes) : protocol :=
  etag_client bytes bytes_eqb (fun body _ => hashfn body) true.
Definition etag_hash_prefix (hashfn : bytes -> bytes) : protocol :=
  etag_client bytes bytes_eqb (fun body _ => hashfn body) false.

(* flavour 2: the ETag is a version counter *)
Definition etag_version : protocol := etag_client N N.eqb (fun _ v => v) true.
Definition etag_version_prefix : protocol := etag_client N N.eqb (fun _ v => v) false.
