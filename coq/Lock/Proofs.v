(* Lock/Proofs.v — C05: each lock backend (client protocol over its server) simulates the
   compare-and-swap register, hence all its schedules are linearizable; the property's sentences
   per backend; and the refutations that show which ingredients are needed (ConsistentRead, the
   NoSuchKey -> ErrLogNotFound mapping, by-value comparison vs. version ETags, nil normalisation). *)
From SL Require Import Base.BytesProofs Lock.Register Lock.RegisterProofs Lock.CheckerProofs
  Lock.Sched Lock.SchedProofs Lock.Sqlite Lock.Dynamo Lock.Etag.
Open Scope N_scope.

Definition injective (f : bytes -> bytes) : Prop := forall a b, f a = f b -> a = b.

(* ================= SQLite ================= *)
Lemma sqlite_step s o n s' cr :
  exec sqlite s o n = (s', cr) -> reg_step s (aop sqlite o) (ares sqlite cr) s'.
Proof.
  unfold exec. destruct o as [i | h new | i new]; cbn.
  - destruct (alookup s i) eqn:L; intro H; inversion H; subst; cbn; unfold lookup; rewrite L; reflexivity.
  - destruct (alookup s (sq_id h)) as [st|] eqn:L.
    + destruct (bytes_eqb st (sq_body h)) eqn:E; intro H; inversion H; subst; cbn; unfold lookup; rewrite L, E; reflexivity.
    + intro H; inversion H; subst; cbn; unfold lookup; rewrite L; reflexivity.
  - destruct (alookup s i) eqn:L; intro H; inversion H; subst; cbn; unfold lookup; rewrite L; reflexivity.
Qed.

Definition sim_sqlite : simulation sqlite false.
Proof.
  refine {| abs := fun s : p_state sqlite => (s : reg); hok := fun _ _ => True |}; auto.
  intros s o n s' cr _ X. split; [exact (sqlite_step _ _ _ _ _ X) | auto].
Defined.

(* ================= DynamoDB ================= *)
Definition dy_abs (s : dy_state) : reg := amap_map fst s.

Lemma dy_lookup s i : lookup (dy_abs s) i = option_map fst (alookup s i).
Proof. apply alookup_amap_map. Qed.

Lemma dynamo_step s o n s' cr :
  exec dynamo s o n = (s', cr) -> reg_step (dy_abs s) (aop dynamo o) (ares dynamo cr) (dy_abs s').
Proof.
  unfold exec. destruct o as [i | h new | i new]; cbn.
  - destruct (alookup s i) as [[v olds]|] eqn:L; intro H; inversion H; subst; cbn; rewrite dy_lookup, L; reflexivity.
  - destruct (dy_has_null new (DyCheckpointEq (dy_body h)) && Nat.eqb n 0).
    { intro H; inversion H; subst; cbn. left; reflexivity. }
    destruct (alookup s (dy_id h)) as [[v olds]|] eqn:L; cbn.
    + destruct (bytes_eqb v (norm (dy_body h))) eqn:E; intro H; inversion H; subst; cbn; rewrite dy_lookup, L; cbn; rewrite E;
        [unfold dy_abs; rewrite amap_map_aset|]; reflexivity.
    + intro H; inversion H; subst; cbn; rewrite dy_lookup, L; reflexivity.
  - destruct (dy_has_null new DyNotExists && Nat.eqb n 0).
    { intro H; inversion H; subst; cbn. left; reflexivity. }
    destruct (alookup s i) as [[v olds]|] eqn:L; cbn; intro H; inversion H; subst; cbn; rewrite dy_lookup, L;
      [|unfold dy_abs; rewrite amap_map_aset]; reflexivity.
Qed.

Definition sim_dynamo : simulation dynamo false.
Proof.
  refine {| abs := (dy_abs : p_state dynamo -> reg); hok := fun _ _ => True |}; auto.
  intros s o n s' cr _ X. split; [exact (dynamo_step _ _ _ _ _ X) | auto].
Defined.

(* ================= ETag, content-hash flavour ================= *)
Definition et_abs (s : et_state) : reg := amap_map fst s.

Lemma et_lookup s i : lookup (et_abs s) i = option_map fst (alookup s i).
Proof. apply alookup_amap_map. Qed.

Section Hash.
  Variable hashfn : bytes -> bytes.
  Hypothesis hash_inj : injective hashfn.

  Definition eh_hok (_ : p_state (etag_hash hashfn)) (h : p_handle (etag_hash hashfn)) : Prop :=
    et_etag h = hashfn (et_body h).

  Lemma etag_hash_step s o n s' cr :
    cop_ok (etag_hash hashfn) eh_hok s o -> exec (etag_hash hashfn) s o n = (s', cr) ->
    reg_step (et_abs s) (aop (etag_hash hashfn) o) (ares (etag_hash hashfn) cr) (et_abs s') /\
    (forall h, In h (new_handles (etag_hash hashfn) cr) -> eh_hok s' h).
  Proof.
    unfold exec, eh_hok. destruct o as [i | h new | i new]; cbn; intro K.
    - destruct (alookup s i) as [[b v]|] eqn:L; cbn.
      + destruct n as [|[|n]]; cbn; intro H; inversion H; subst; cbn; rewrite ?et_lookup, ?L; cbn;
          (split; [auto | first [intros h [<- | []]; reflexivity | intros h []]]).
      + intro H; inversion H; subst; cbn; rewrite et_lookup, L. split; [reflexivity | intros h []].
    - destruct (alookup s (et_key h)) as [[b v]|] eqn:L; cbn.
      + unfold et_tag; cbn. destruct (bytes_eqb (hashfn b) (et_etag h)) eqn:E.
        * apply bytes_eqb_eq in E. rewrite K in E. apply hash_inj in E. subst b.
          destruct n as [|[|n]]; cbn; intro H; inversion H; subst; cbn; rewrite ?et_lookup, ?L; cbn;
            rewrite ?bytes_eqb_refl; unfold et_abs; rewrite ?amap_map_aset; cbn;
            (split; [auto | first [intros h0 [<- | []]; reflexivity | intros h0 []]]).
        * assert (Nb : bytes_eqb b (et_body h) = false).
          { apply bytes_eqb_neq. intro X; subst b. rewrite K, bytes_eqb_refl in E. discriminate. }
          intro H; inversion H; subst; cbn; rewrite et_lookup, L; cbn; rewrite Nb.
          split; [reflexivity | intros h0 []].
      + intro H; inversion H; subst; cbn; rewrite et_lookup, L. split; [reflexivity | intros h0 []].
    - destruct (alookup s i) as [[b v]|] eqn:L; cbn; intro H; inversion H; subst; cbn; rewrite et_lookup, L; cbn;
        unfold et_abs; rewrite ?amap_map_aset; split; try reflexivity; intros h0 [].
  Qed.

  Definition sim_etag_hash : simulation (etag_hash hashfn) false.
  Proof.
    refine {| abs := (et_abs : p_state (etag_hash hashfn) -> reg); hok := eh_hok |}; auto.
    intros s o n s' cr K X. exact (etag_hash_step _ _ _ _ _ K X).
  Defined.
End Hash.

(* ================= ETag, version-counter flavour ================= *)
(* a handle (key, body, v) can have been handed out up to state s: the object exists, its version
   is at least v, and if it is exactly v the body is the handle's *)
Definition ev_hok (s : p_state etag_version) (h : p_handle etag_version) : Prop :=
  match alookup (s : et_state) (et_key h) with
  | Some (b, v) => et_etag h <= v /\ (et_etag h = v -> et_body h = b)
  | None => False
  end.

Lemma ev_hok_mono s q n h : ev_hok s h -> ev_hok (fst (p_server etag_version s q n)) h.
Proof.
  unfold ev_hok. cbn. destruct q as [k | k body im]; cbn.
  - destruct (alookup s k); auto.
  - assert (W : forall x,
      match alookup s (et_key h) with Some (b, v) => et_etag h <= v /\ (et_etag h = v -> et_body h = b) | None => False end ->
      match alookup (aset s k (x, match alookup s k with Some y => snd y + 1 | None => 1 end)) (et_key h) with
      | Some (b, v) => et_etag h <= v /\ (et_etag h = v -> et_body h = b) | None => False end).
    { intros x H. rewrite alookup_aset. destruct (bytes_eqb k (et_key h)) eqn:E; [|exact H].
      apply bytes_eqb_eq in E. subst k. destruct (alookup s (et_key h)) as [[b v]|]; [|destruct H].
      cbn. destruct H as [H1 H2]. split; lia. }
    destruct im as [| | e]; destruct (alookup s k) as [[b0 v0]|] eqn:L; cbn; auto;
      try (intro H; exact (W body H)).
    unfold et_tag; cbn. destruct (v0 =? e); cbn; auto.
    intro H; exact (W body H).
Qed.

Lemma etag_version_step s o n s' cr :
  cop_ok etag_version ev_hok s o -> exec etag_version s o n = (s', cr) ->
  reg_step_weak (et_abs s) (aop etag_version o) (ares etag_version cr) (et_abs s') /\
  (forall h, In h (new_handles etag_version cr) -> ev_hok s' h).
Proof.
  unfold exec. destruct o as [i | h new | i new]; cbn; intro K.
  - destruct (alookup s i) as [[b v]|] eqn:L; cbn.
    + destruct n as [|[|n]]; cbn; intro H; inversion H; subst; cbn.
      1,3: (split; [left; cbn; rewrite et_lookup, L; reflexivity|]; intros h [<- | []];
            unfold ev_hok; cbn; rewrite L; split; [lia | auto]).
      split; [left; left; reflexivity | intros h []].
    + intro H; inversion H; subst; cbn. split; [left; cbn; rewrite et_lookup, L; reflexivity | intros h []].
  - unfold ev_hok in K. destruct (alookup s (et_key h)) as [[b v]|] eqn:L; [|destruct K]. cbn.
    unfold et_tag; cbn. destruct (v =? et_etag h) eqn:E.
    + apply N.eqb_eq in E. destruct K as [_ K]. specialize (K (eq_sym E)). subst b.
      destruct n as [|[|n]]; cbn; intro H; inversion H; subst; cbn.
      1,3: (split; [left; cbn; rewrite et_lookup, L; cbn; rewrite bytes_eqb_refl; unfold et_abs; rewrite amap_map_aset; reflexivity|];
            intros h0 [<- | []]; unfold ev_hok; cbn; rewrite alookup_aset_same; split; [lia | auto]).
      split; [|intros h0 []]. left. right. cbn. rewrite et_lookup, L. cbn. rewrite bytes_eqb_refl.
      unfold et_abs. rewrite amap_map_aset. reflexivity.
    + intro H; inversion H; subst; cbn. split; [right; split; [exact I | reflexivity] | intros h0 []].
  - destruct (alookup s i) as [[b v]|] eqn:L; cbn; intro H; inversion H; subst; cbn;
      (split; [left; cbn; rewrite et_lookup, L; cbn; unfold et_abs; rewrite ?amap_map_aset; reflexivity | intros h0 []]).
Qed.

Definition sim_etag_version : simulation etag_version true.
Proof.
  refine {| abs := (et_abs : p_state etag_version -> reg); hok := ev_hok |}; auto.
  - exact ev_hok_mono.
  - intros s o n s' cr K X. exact (etag_version_step _ _ _ _ _ K X).
Defined.

(* ================= the four backends together ================= *)
Inductive backend_id :=
| Sqlite
| Dynamo
| EtagHash (hashfn : bytes -> bytes) (inj : injective hashfn)
| EtagVersion.

Definition proto (b : backend_id) : protocol :=
  match b with
  | Sqlite => sqlite
  | Dynamo => dynamo
  | EtagHash f _ => etag_hash f
  | EtagVersion => etag_version
  end.

(* EtagVersion refuses a by-value-matching but outdated handle: "succeeds only if", not "iff" *)
Definition weak_of (b : backend_id) : bool := match b with EtagVersion => true | _ => false end.

Definition sim_of (b : backend_id) : simulation (proto b) (weak_of b) :=
  match b with
  | Sqlite => sim_sqlite
  | Dynamo => sim_dynamo
  | EtagHash f inj => sim_etag_hash f inj
  | EtagVersion => sim_etag_version
  end.

(* the register content of a server state, and the handles that can exist in it *)
Definition value_of (b : backend_id) : p_state (proto b) -> reg := abs (sim_of b).
Definition genuine (b : backend_id) : p_state (proto b) -> p_handle (proto b) -> Prop := hok (sim_of b).

Theorem backend_linearizable (b : backend_id) :
  forall sched : list sev, linearizable (step_of (weak_of b)) (history_of (proto b) sched).
Proof. intro sched. apply protocol_linearizable, sim_of. Qed.

Theorem backend_lin_order (b : backend_id) : forall sched,
  let h := history_of (proto b) sched in
  rt_ordered h /\ (exists r', accepted_from (step_of (weak_of b)) [] (calls h) r') /\
  (forall x, In x h -> h_start x <= h_fin x).
Proof. intro sched. apply history_in_lin_order, sim_of. Qed.

Theorem strict_backend_linearizable (b : backend_id) : weak_of b = false ->
  forall sched, linearizable reg_step (history_of (proto b) sched).
Proof. intros W sched. pose proof (backend_linearizable b sched) as H. rewrite W in H. exact H. Qed.

Theorem backend_linearizable_unfolded : forall (b : backend_id) (sched : list sev),
  exists lin r', Permutation lin (history_of (proto b) sched) /\ rt_ordered lin /\
                 accepted_from (step_of (weak_of b)) [] (calls lin) r'.
Proof. intros b sched. destruct (backend_linearizable b sched) as (r' & lin & H). exists lin, r'. exact H. Qed.

Theorem strict_backends_linearizable : forall sched,
  linearizable reg_step (history_of sqlite sched) /\
  linearizable reg_step (history_of dynamo sched) /\
  forall hashfn, injective hashfn -> linearizable reg_step (history_of (etag_hash hashfn) sched).
Proof.
  intro sched. split; [exact (strict_backend_linearizable Sqlite eq_refl sched)|].
  split; [exact (strict_backend_linearizable Dynamo eq_refl sched)|].
  intros hashfn inj. exact (strict_backend_linearizable (EtagHash hashfn inj) eq_refl sched).
Qed.

(* ---- the property's sentences ---- *)
Section Sentences.
  Variable b : backend_id.
  Let P := proto b.

  Lemma exec_step s o n s' cr : cop_ok P (genuine b) s o -> exec P s o n = (s', cr) ->
    reg_step_weak (value_of b s) (aop P o) (ares P cr) (value_of b s').
  Proof.
    intros K X. eapply step_of_weaken. exact (proj1 (step_sim (sim_of b) _ _ _ _ _ K X)).
  Qed.

  Theorem replace_success_implies_value_equal s h new n s' h' :
    genuine b s h -> exec P s (CReplace h new) n = (s', CReplaced h') ->
    lookup (value_of b s) (p_hid P h) = Some (p_hbody P h) /\
    lookup (value_of b s') (p_hid P h) = Some (norm new).
  Proof.
    intros K X. pose proof (exec_step s (CReplace h new) n s' _ K X) as H. cbn in H.
    apply replace_ok_value_equal in H. exact H.
  Qed.

  (* of two clients that hold the same predecessor value, the second to be served is refused
     (unless the first wrote the predecessor value back) *)
  Theorem at_most_one_replace_per_value_until_change s h1 n1 k1 s1 h1' h2 n2 k2 s2 cr2 :
    genuine b s h1 -> genuine b s h2 ->
    p_hid P h2 = p_hid P h1 -> p_hbody P h2 = p_hbody P h1 -> norm n1 <> p_hbody P h1 ->
    exec P s (CReplace h1 n1) k1 = (s1, CReplaced h1') ->
    exec P s1 (CReplace h2 n2) k2 = (s2, cr2) ->
    (forall h2', cr2 <> CReplaced h2') /\ lookup (value_of b s2) (p_hid P h1) = Some (norm n1) \/ cr2 = CErr.
  Proof.
    intros K1 K2 Ei Eb Ne X1 X2.
    destruct (replace_success_implies_value_equal _ _ _ _ _ _ K1 X1) as [_ L1].
    assert (K2' : genuine b s1 h2).
    { replace s1 with (fst (exec P s (CReplace h1 n1) k1)) by (rewrite X1; reflexivity).
      rewrite exec_state. apply (hok_mono (sim_of b)), K2. }
    pose proof (exec_step s1 (CReplace h2 n2) k2 s2 _ K2' X2) as H. cbn in H. rewrite Ei, Eb in H.
    destruct cr2; cbn in H; try (right; reflexivity); left.
    - split; [discriminate|]. destruct H as [H | [[] _]]. cbn in H. rewrite L1 in H.
      destruct (bytes_eqb (norm n1) (p_hbody P h1)); inversion H.
    - split; [discriminate|]. destruct H as [H | [[] _]]. cbn in H. rewrite L1 in H.
      destruct (bytes_eqb (norm n1) (p_hbody P h1)); inversion H.
    - exfalso. apply replace_ok_value_equal in H. destruct H as [H _]. rewrite L1 in H. congruence.
    - exfalso. apply replace_ok_value_equal in H. destruct H as [H _]. rewrite L1 in H. congruence.
    - split; [discriminate|]. destruct H as [H | [_ ->]]; [|exact L1]. cbn in H. rewrite L1 in H.
      destruct (bytes_eqb (norm n1) (p_hbody P h1)) eqn:E; inversion H; subst; exact L1.
  Qed.

  Theorem sched_two_replaces_need_a_write_between sched pre x mid y post i old n1 n2 :
    history_of P sched = pre ++ x :: mid ++ y :: post ->
    h_op x = Replace i old n1 -> h_res x = Ok -> h_op y = Replace i old n2 -> h_res y = Ok ->
    n1 = old \/ exists z, In z mid /\ writes (h_op z) i old /\ (h_res z = Ok \/ h_res z = Unknown).
  Proof. apply (sched_at_most_one_replace P _ (sim_of b)). Qed.

  Theorem fetch_after_replace_sees_it_or_later sched x y i old new :
    let h := history_of P sched in
    In x h -> In y h -> h_op x = Replace i old new -> h_res x = Ok -> h_op y = Fetch i ->
    h_fin x < h_start y ->
    h_res y = Unknown \/ exists v, h_res y = Val v /\
      (v = new \/ exists z, In z h /\ writes (h_op z) i v /\ (h_res z = Ok \/ h_res z = Unknown) /\
                            ~ (h_fin z < h_start x)).
  Proof. apply (sched_fetch_after_replace P _ (sim_of b)). Qed.

  Theorem create_at_most_once sched pre x mid y post i a c :
    history_of P sched = pre ++ x :: mid ++ y :: post ->
    h_op x = Create i a -> h_res x = Ok -> h_op y = Create i c -> h_res y <> Ok.
  Proof. apply (sched_create_at_most_once P _ (sim_of b)). Qed.

  Theorem create_never_overwrites s i new n s' cr w :
    lookup (value_of b s) i = Some w -> exec P s (CCreate i new) n = (s', cr) ->
    lookup (value_of b s') i = Some w /\ cr <> CCreated.
  Proof.
    intros L X. pose proof (exec_step s (CCreate i new) n s' _ I X) as H. cbn in H.
    destruct (create_existing _ _ _ _ _ _ H L) as [L' R]. split; [exact L'|].
    intro E; subst cr. cbn in R. destruct R; discriminate.
  Qed.

  Theorem create_at_most_once_never_overwrites :
    (forall sched pre x mid y post i a c,
       history_of P sched = pre ++ x :: mid ++ y :: post ->
       h_op x = Create i a -> h_res x = Ok -> h_op y = Create i c -> h_res y <> Ok) /\
    (forall s i new n s' cr w,
       lookup (value_of b s) i = Some w -> exec P s (CCreate i new) n = (s', cr) ->
       lookup (value_of b s') i = Some w /\ cr <> CCreated).
  Proof. split; [exact create_at_most_once | exact create_never_overwrites]. Qed.

  Theorem create_success_was_absent s i new n s' :
    exec P s (CCreate i new) n = (s', CCreated) ->
    lookup (value_of b s) i = None /\ lookup (value_of b s') i = Some (norm new).
  Proof.
    intro X. pose proof (exec_step s (CCreate i new) n s' _ I X) as H. cbn in H. apply create_ok_absent in H. exact H.
  Qed.
End Sentences.

(* a missing log is reported with ErrLogNotFound: per backend, by computation on the client *)
Theorem missing_is_ErrLogNotFound (b : backend_id) s i n :
  lookup (value_of b s) i = None -> snd (exec (proto b) s (CFetch i) n) = CNotFound.
Proof.
  destruct b; cbn; unfold exec; cbn.
  - unfold lookup. intros ->. reflexivity.
  - rewrite dy_lookup. destruct (alookup s i) as [[v o]|]; cbn; [discriminate | reflexivity].
  - rewrite et_lookup. destruct (alookup s i) as [[v o]|]; cbn; [discriminate | reflexivity].
  - rewrite et_lookup. destruct (alookup s i) as [[v o]|]; cbn; [discriminate | reflexivity].
Qed.

Theorem present_is_fetched (b : backend_id) s i n v :
  lookup (value_of b s) i = Some v ->
  (exists h, snd (exec (proto b) s (CFetch i) n) = CVal h /\ p_hbody (proto b) h = v /\ p_hid (proto b) h = i)
  \/ snd (exec (proto b) s (CFetch i) n) = CErr.
Proof.
  destruct b; cbn; unfold exec; cbn.
  - unfold lookup. intros ->. left. eexists; split; [reflexivity | auto].
  - rewrite dy_lookup. destruct (alookup s i) as [[w o]|]; cbn; [|discriminate]. intro H; inversion H; subst.
    left. eexists; split; [reflexivity | auto].
  - rewrite et_lookup. destruct (alookup s i) as [[w o]|]; cbn; [|discriminate]. intro H; inversion H; subst.
    destruct n as [|[|n]]; cbn; [left | right; reflexivity | left]; eexists; split; try reflexivity; auto.
  - rewrite et_lookup. destruct (alookup s i) as [[w o]|]; cbn; [|discriminate]. intro H; inversion H; subst.
    destruct n as [|[|n]]; cbn; [left | right; reflexivity | left]; eexists; split; try reflexivity; auto.
Qed.

(* ================= refutations ================= *)
Open Scope byte_scope.
Definition idA : id := [x01].
Definition vA : bytes := [x41].
Definition vB : bytes := [x42; x00].       (* contains a NUL byte *)
Definition vC : bytes := [].               (* the empty value *)
Close Scope byte_scope.

(* 1. the ETag client before the fix: Fetch of an absent key does not answer ErrLogNotFound *)
Theorem etag_prefix_missing_refuted :
  (exists s i n, lookup (et_abs s) i = None /\ snd (exec etag_version_prefix s (CFetch i) n) <> CNotFound) /\
  (forall hashfn, exists s i n, lookup (et_abs s) i = None /\
       snd (exec (etag_hash_prefix hashfn) s (CFetch i) n) <> CNotFound).
Proof.
  split; [|intro hashfn]; exists [], idA, 0%nat; (split; [reflexivity | cbn; discriminate]).
Qed.

(* 2. without ConsistentRead the DynamoDB client is not linearizable: a fetch that starts after
   a successful replace returned may still see the old value *)
Definition sched_stale_read : list sev :=
  [ EInv 0 (SCreate idA (Some vA)); ESrv 0 0 false; ERet 0;
    EInv 1 (SFetch idA); ESrv 1 0 false; ERet 1;
    EInv 1 (SReplace 0 (Some vB)); ESrv 1 0 false; ERet 1;
    EReopen;
    EInv 2 (SFetch idA); ESrv 2 1 false; ERet 2 ].

Theorem dynamo_eventual_read_refuted :
  exists sched, ~ linearizable reg_step_weak (history_of dynamo_eventual sched).
Proof.
  exists sched_stale_read. intro H. apply linearizable_weak_b_complete in H.
  vm_compute in H. discriminate.
Qed.

(* the same schedule with the real client (ConsistentRead = true) is fine, of course *)
Example dynamo_consistent_read_ok : linearizable_b (history_of dynamo sched_stale_read) = true.
Proof. vm_compute. reflexivity. Qed.

(* 3. version-counter ETags are stricter than the by-value register: after A -> B -> A an old
   handle for A is refused. Not linearizable for the strict register, linearizable for "only if". *)
Definition sched_aba : list sev :=
  [ EInv 0 (SCreate idA (Some vA)); ESrv 0 0 false; ERet 0;
    EInv 1 (SFetch idA); ESrv 1 0 false; ERet 1;               (* handle 0: (A, version 1) *)
    EInv 2 (SReplace 0 (Some vB)); ESrv 2 0 false; ERet 2;     (* handle 1: (B, version 2) *)
    EInv 2 (SReplace 1 (Some vA)); ESrv 2 0 false; ERet 2;     (* handle 2: (A, version 3) *)
    EInv 1 (SReplace 0 (Some vC)); ESrv 1 0 false; ERet 1 ].   (* old handle, value equal: refused *)

Theorem etag_version_by_value_refuted :
  exists sched, ~ linearizable reg_step (history_of etag_version sched) /\
                linearizable reg_step_weak (history_of etag_version sched).
Proof.
  exists sched_aba. split.
  - intro H. apply linearizable_b_complete in H. vm_compute in H. discriminate.
  - apply (backend_linearizable EtagVersion).
Qed.

(* with by-value backends the same schedule ends with a successful replace *)
Example aba_by_value_succeeds :
  map h_res (history_of sqlite sched_aba) = [Ok; Val vA; Ok; Ok; Ok] /\
  map h_res (history_of dynamo sched_aba) = [Ok; Val vA; Ok; Ok; Ok] /\
  map h_res (history_of etag_version sched_aba) = [Ok; Val vA; Ok; Ok; Refused].
Proof. vm_compute. auto. Qed.

(* 4. what the nil -> []byte{} normalisation in sqlite.go is for: without it Create(nil) would
   fail on the NOT NULL constraint instead of storing the empty value *)
Theorem sqlite_nonorm_create_nil_refuted :
  exists s i, lookup s i = None /\
    snd (let '(s', rep) := sq_server s (sq_request_nonorm (CCreate i None)) 0 in (s', sq_interp (CCreate i None) rep)) = CErr /\
    snd (exec sqlite s (CCreate i None) 0) = CCreated.
Proof. exists [], idA. repeat split. Qed.

(* the client never binds NULL *)
Lemma sqlite_never_binds_null o :
  match sq_request o with
  | SqSelect _ => True
  | SqUpdate new _ old => new <> VNull /\ old <> VNull
  | SqInsert _ new => new <> VNull
  end.
Proof. destruct o; cbn; auto; try split; discriminate. Qed.

(* 5. the models (and theorems) are about ONE request per call. The backends configure the AWS
   SDK retryer, which re-sends a write that was answered 5xx. If the server had applied it:
   (a) the re-sent request is refused: the call fails although it took effect (= Unknown);
   (b) if another client restored the predecessor value in between (A -> B -> A), a by-value
       condition holds again, the write is applied a second time and the call succeeds: the
       history (create A; c1: replace A->B ok over [3,8]; c2: replace B->A ok over [5,6];
       fetch = B) has no linearization. (Observed on the real backends by harness/lock
       -mode=retry; excluded for sunlight because checkpoint values never repeat.) *)
Definition retry_s0 : dy_state := [(idA, (vA, []))].
Definition retry_h : dy_handle := {| dy_id := idA; dy_body := Some vA |}.
Definition retry_hB : dy_handle := {| dy_id := idA; dy_body := Some vB |}.
Definition retry_aba_history : history :=
  [ (Create idA vA, 1, 2, Ok); (Replace idA vA vB, 3, 8, Ok); (Replace idA vB vA, 5, 6, Ok);
    (Fetch idA, 9, 10, Val vB) ].

Theorem sdk_retry_refuted :
  (* (a) *)
  (let s1 := fst (exec dynamo retry_s0 (CReplace retry_h (Some vB)) 1) in
   snd (exec dynamo s1 (CReplace retry_h (Some vB)) 1) = CRefused /\ lookup (dy_abs s1) idA = Some vB) /\
  (* (b) *)
  (let s1 := fst (exec dynamo retry_s0 (CReplace retry_h (Some vB)) 1) in
   let '(s2, r2) := exec dynamo s1 (CReplace retry_hB (Some vA)) 1 in
   let '(s3, r3) := exec dynamo s2 (CReplace retry_h (Some vB)) 1 in
   r2 = CReplaced {| dy_id := idA; dy_body := Some vA |} /\
   r3 = CReplaced {| dy_id := idA; dy_body := Some vB |} /\
   lookup (dy_abs s3) idA = Some vB /\
   ~ linearizable reg_step_weak retry_aba_history).
Proof.
  split; [vm_compute; auto|]. vm_compute exec. repeat split.
  intro H. apply linearizable_weak_b_complete in H. vm_compute in H. discriminate.
Qed.

(* ================= non-vacuity ================= *)
(* a schedule with three clients, overlapping calls, a lost reply, a dropped request, a reopen
   and a call that never returns; empty and NUL-containing values *)
Definition sched_demo : list sev :=
  [ EInv 0 (SCreate idA (Some vC)); EInv 1 (SCreate idA (Some vA)); ESrv 1 0 false; ESrv 0 0 false; ERet 0; ERet 1;
    EInv 0 (SFetch idA); EInv 1 (SFetch idA); ESrv 0 0 false; ESrv 1 0 false; ERet 1; ERet 0;
    EInv 0 (SReplace 0 (Some vB)); EInv 1 (SReplace 1 None); EInv 2 (SFetch idA);
    ESrv 1 0 true; ESrv 2 0 false; EReopen; ESrv 0 0 false; ERet 2; ERet 0; ERet 1;
    EInv 2 (SFetch [x02]); EFail 2; EInv 2 (SFetch [x02]); ESrv 2 0 false; ERet 2;
    EInv 1 (SFetch idA); ESrv 1 0 false ].

Example demo_history_sqlite :
  map h_res (history_of sqlite sched_demo) =
    [Ok; Refused; Val vA; Val vA; Unknown; Val vC; Refused; Unknown; NotFound; Unknown]
  /\ linearizable_b (history_of sqlite sched_demo) = true
  /\ linearizable_b (history_of dynamo sched_demo) = true
  /\ linearizable_weak_b (history_of etag_version sched_demo) = true
  /\ linearizable_b (history_of (etag_hash (fun x => x)) sched_demo) = true.
Proof. vm_compute. repeat split. Qed.

Example injective_id : injective (fun x => x).
Proof. intros a b0 H; exact H. Qed.
