(* Lock/Sched.v — C05: a lock backend as a CLIENT PROTOCOL over a SERVER with atomic requests,
   and the concurrent executions (schedules) of any number of clients of one backend.
   Definitions only. *)
From SL Require Export Lock.Register.
Open Scope N_scope.

(* a Go []byte argument: nil or a (possibly empty) byte string *)
Definition gobytes := option bytes.
Definition norm (g : gobytes) : bytes := match g with Some b => b | None => [] end.

(* the LockBackend interface (ctlog.go), parameterised by the backend's LockedCheckpoint type *)
Inductive cop (H : Type) :=
| CFetch (i : id)
| CReplace (h : H) (new : gobytes)
| CCreate (i : id) (new : gobytes).
Arguments CFetch {H}. Arguments CReplace {H}. Arguments CCreate {H}.

Inductive cres (H : Type) :=
| CVal (h : H)          (* Fetch: (LockedCheckpoint, nil) *)
| CNotFound             (* Fetch: errors.Is(err, ErrLogNotFound) *)
| CReplaced (h : H)     (* Replace: (LockedCheckpoint, nil) *)
| CCreated              (* Create: nil *)
| CRefused              (* an error that reports the server's refusal (conflict) *)
| CErr.                 (* any other error: the effect may or may not have happened *)
Arguments CVal {H}. Arguments CNotFound {H}. Arguments CReplaced {H}.
Arguments CCreated {H}. Arguments CRefused {H}. Arguments CErr {H}.

Record protocol := {
  p_state : Type;                    (* server state (durable) *)
  p_req : Type;                      (* one request *)
  p_rep : Type;                      (* its reply *)
  p_handle : Type;                   (* the LockedCheckpoint implementation *)
  p_init : p_state;
  (* ONE atomic server step. The nat is the server's/scheduler's nondeterministic choice
     (which older value an eventually consistent read returns, whether a header is omitted);
     deterministic requests ignore it. *)
  p_server : p_state -> p_req -> nat -> p_state * p_rep;
  p_reopen : p_state -> p_state;     (* close + reopen / process restart: what survives *)
  p_request : cop p_handle -> p_req;                    (* client: which request, which condition *)
  p_interp : cop p_handle -> p_rep -> cres p_handle;    (* client: how the reply is read *)
  p_hid : p_handle -> id;
  p_hbody : p_handle -> bytes;       (* LockedCheckpoint.Bytes() *)
}.

(* a client operation = request, one atomic server step, interpretation of the reply. This is
   the function the Go backends are compared with in the sequential differential run. *)
Definition exec (P : protocol) (s : p_state P) (o : cop (p_handle P)) (n : nat) : p_state P * cres (p_handle P) :=
  let '(s', rep) := p_server P s (p_request P o) n in (s', p_interp P o rep).

(* abstraction of calls and results to the register's vocabulary *)
Definition aop (P : protocol) (o : cop (p_handle P)) : op :=
  match o with
  | CFetch i => Fetch i
  | CReplace h new => Replace (p_hid P h) (p_hbody P h) (norm new)
  | CCreate i new => Create i (norm new)
  end.

Definition ares (P : protocol) (c : cres (p_handle P)) : result :=
  match c with
  | CVal h => Val (p_hbody P h)
  | CNotFound => NotFound
  | CReplaced _ => Ok
  | CCreated => Ok
  | CRefused => Refused
  | CErr => Unknown
  end.

Definition new_handles (P : protocol) (c : cres (p_handle P)) : list (p_handle P) :=
  match c with CVal h => [h] | CReplaced h => [h] | _ => [] end.

(* ---- schedules ---- *)
(* operations as issued in a schedule: a Replace names a handle that some earlier call of some
   client returned (index into the pool of all handles handed out so far, so arbitrarily stale) *)
Inductive sop :=
| SFetch (i : id)
| SReplace (k : nat) (new : gobytes)
| SCreate (i : id) (new : gobytes).

Inductive sev :=
| EInv (c : nat) (o : sop)              (* client c calls the backend; the request is on its way *)
| ESrv (c : nat) (n : nat) (lost : bool) (* the server executes c's request atomically (choice n);
                                            [lost]: the reply will not reach the client *)
| ERet (c : nat)                         (* c's call returns (with the reply, or with an error if it was lost) *)
| EFail (c : nat)                        (* c's request is dropped before reaching the server: the call returns an error *)
| EReopen.                               (* the store is closed and reopened / the server or a process restarts *)

Record orec := {
  o_client : nat; o_op : op; o_res : result;
  o_start : N; o_lp : N;            (* o_lp: the linearization point (time of the atomic server step) *)
  o_fin : option N }.               (* None: the call has not returned yet *)

Record sys (P : protocol) := {
  y_srv : p_state P;
  y_pool : list (p_handle P);
  y_wait : list (nat * (cop (p_handle P) * N));   (* invoked, request not yet executed: client -> (op, start) *)
  y_trace : list orec;                             (* executed operations, in the order of their server steps *)
  y_now : N }.
Arguments y_srv {P}. Arguments y_pool {P}. Arguments y_wait {P}. Arguments y_trace {P}. Arguments y_now {P}.

Definition sys_init (P : protocol) : sys P :=
  {| y_srv := p_init P; y_pool := []; y_wait := []; y_trace := []; y_now := 1 |}.

Fixpoint wait_find {A} (w : list (nat * A)) (c : nat) : option A :=
  match w with [] => None | (k, a) :: r => if Nat.eqb k c then Some a else wait_find r c end.

Fixpoint wait_del {A} (w : list (nat * A)) (c : nat) : list (nat * A) :=
  match w with [] => [] | (k, a) :: r => if Nat.eqb k c then r else (k, a) :: wait_del r c end.

Definition is_open (c : nat) (x : orec) : bool :=
  Nat.eqb (o_client x) c && match o_fin x with None => true | Some _ => false end.

Definition has_open (c : nat) (tr : list orec) : bool := existsb (is_open c) tr.

Definition close_rec (t : N) (x : orec) : orec :=
  {| o_client := o_client x; o_op := o_op x; o_res := o_res x;
     o_start := o_start x; o_lp := o_lp x; o_fin := Some t |}.

Definition close_client (c : nat) (t : N) (tr : list orec) : list orec :=
  map (fun x => if is_open c x then close_rec t x else x) tr.

Definition cop_of_sop (P : protocol) (pool : list (p_handle P)) (o : sop) : option (cop (p_handle P)) :=
  match o with
  | SFetch i => Some (CFetch i)
  | SReplace k new => match nth_error pool k with Some h => Some (CReplace h new) | None => None end
  | SCreate i new => Some (CCreate i new)
  end.

(* events that do not apply (a second call of a busy client, a server step without a request, a
   Replace naming a handle that does not exist) leave everything unchanged except the clock, so
   that the theorems hold for ALL event lists *)
Definition sys_step (P : protocol) (y : sys P) (e : sev) : sys P :=
  let now := y_now y in
  let tick (z : sys P) : sys P :=
      {| y_srv := y_srv z; y_pool := y_pool z; y_wait := y_wait z; y_trace := y_trace z; y_now := now + 1 |} in
  match e with
  | EInv c o =>
    match wait_find (y_wait y) c, has_open c (y_trace y), cop_of_sop P (y_pool y) o with
    | None, false, Some co =>
      tick {| y_srv := y_srv y; y_pool := y_pool y; y_wait := (c, (co, now)) :: y_wait y;
              y_trace := y_trace y; y_now := now |}
    | _, _, _ => tick y
    end
  | ESrv c n lost =>
    match wait_find (y_wait y) c with
    | Some (co, st) =>
      let '(s', cr) := exec P (y_srv y) co n in
      let rec_ := {| o_client := c; o_op := aop P co;
                     o_res := if lost then Unknown else ares P cr;
                     o_start := st; o_lp := now; o_fin := None |} in
      tick {| y_srv := s'; y_pool := if lost then y_pool y else y_pool y ++ new_handles P cr;
              y_wait := wait_del (y_wait y) c; y_trace := y_trace y ++ [rec_]; y_now := now |}
    | None => tick y
    end
  | ERet c =>
    tick {| y_srv := y_srv y; y_pool := y_pool y; y_wait := y_wait y;
            y_trace := close_client c now (y_trace y); y_now := now |}
  | EFail c =>
    match wait_find (y_wait y) c with
    | Some (co, st) =>
      let rec_ := {| o_client := c; o_op := aop P co; o_res := Unknown;
                     o_start := st; o_lp := now; o_fin := Some now |} in
      tick {| y_srv := y_srv y; y_pool := y_pool y; y_wait := wait_del (y_wait y) c;
              y_trace := y_trace y ++ [rec_]; y_now := now |}
    | None => tick y
    end
  | EReopen =>
    tick {| y_srv := p_reopen P (y_srv y); y_pool := y_pool y; y_wait := y_wait y;
            y_trace := y_trace y; y_now := now |}
  end.

Definition sys_run (P : protocol) (sched : list sev) : sys P := fold_left (sys_step P) sched (sys_init P).

(* at the end of the schedule: calls that never returned are pending; they appear in the history
   with result Unknown and the end of the schedule as their finish (a pending call whose request
   was executed may have taken effect; one whose request was never executed did nothing) *)
Definition rec_of_wait (P : protocol) (t : N) (w : nat * (cop (p_handle P) * N)) : orec :=
  {| o_client := fst w; o_op := aop P (fst (snd w)); o_res := Unknown;
     o_start := snd (snd w); o_lp := t; o_fin := Some t |}.

Definition close_pending (t : N) (x : orec) : orec :=
  match o_fin x with
  | Some _ => x
  | None => {| o_client := o_client x; o_op := o_op x; o_res := Unknown;
               o_start := o_start x; o_lp := o_lp x; o_fin := Some t |}
  end.

Definition final_trace (P : protocol) (y : sys P) : list orec :=
  map (close_pending (y_now y)) (y_trace y) ++ map (rec_of_wait P (y_now y)) (y_wait y).

Definition hop_of (x : orec) : hop :=
  (o_op x, o_start x, match o_fin x with Some t => t | None => o_lp x end, o_res x).

(* the history of a schedule: every call with its invocation time, return time and result.
   (As a list it is ordered by the time of the calls' server steps; linearizability does not
   look at the order of the list.) *)
Definition history_of (P : protocol) (sched : list sev) : history :=
  map hop_of (final_trace P (sys_run P sched)).
