(* Lock/RunProofs.v — C05: the driver entry points of Lock/Run.v are the functions the theorems
   are about: [run_op] performs exactly [exec], and the window-by-window run of the checker is
   [search_windows], hence sound for the whole recorded history. *)
From SL Require Import Base.BytesProofs Lock.Register Lock.RegisterProofs Lock.CheckerProofs
  Lock.Sched Lock.Run.
Open Scope N_scope.

Lemma run_op_exec P R s pool o n co :
  cop_of_sop P pool o = Some co ->
  fst (run_op P R (s, pool) o n) = (fst (exec P s co n), pool ++ new_handles P (snd (exec P s co n))).
Proof.
  intro C. unfold run_op, exec. cbn [fst snd]. rewrite C.
  destruct (p_server P s (p_request P co) n) as [s' rep]. reflexivity.
Qed.

Lemma search_windows_nil weak : forall ws b, search_windows weak b [] ws = [].
Proof.
  induction ws as [|w t IH]; cbn; intro b; [reflexivity|].
  destruct (window_ok b w); [|reflexivity]. unfold search_all. cbn. apply IH.
Qed.

Lemma lin_fold_eq : forall ws b rs,
  snd (fold_left lin_step ws (b, rs)) = search_windows false b rs ws.
Proof.
  induction ws as [|w t IH]; intros b rs; [reflexivity|].
  cbn [fold_left]. unfold lin_step at 2. cbn [fst snd]. rewrite IH. cbn [search_windows].
  destruct (window_ok b w); [reflexivity | apply search_windows_nil].
Qed.

(* if the state set is still non-empty after the last window, the whole recorded history has a
   linearization accepted by the (strict, by-value) register that respects real time *)
Theorem lin_steps_sound ws :
  lin_alive (fold_left lin_step ws lin_init) = true -> linearizable reg_step (concat ws).
Proof.
  unfold lin_alive, lin_init. rewrite lin_fold_eq. intro H.
  apply linearizable_windows_b_sound. unfold linearizable_windows_b.
  destruct (search_windows false 0 [[]] ws); [discriminate | reflexivity].
Qed.

(* once dead, always dead: the first window after which [lin_alive] is false is the offending one *)
Lemma lin_dead_stays st w : lin_alive st = false -> lin_alive (lin_step st w) = false.
Proof.
  destruct st as [b rs]. unfold lin_alive, lin_step. cbn [fst snd]. destruct rs; [|discriminate].
  intros _. cbn [search_windows]. destruct (window_ok b w); reflexivity.
Qed.
