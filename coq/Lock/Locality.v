(* Lock/Locality.v — C05: the easy half of locality of linearizability for the register of
   Lock/Register.v. If a recorded history has a linearization accepted by the register, then so
   has its projection on any one log ID (operations on other IDs never touch that ID's entry).
   Contrapositive = what the shared-instance stress stage of checks/c05.py relies on when it
   hands the history of each log ID separately to [linearizable_b]: a projection WITHOUT a
   linearization proves that the whole recorded history has none. *)
From SL Require Import Base.BytesProofs Lock.Register Lock.RegisterProofs Lock.CheckerProofs.
Open Scope N_scope.

Definition op_id (o : op) : id :=
  match o with Fetch i => i | Replace i _ _ => i | Create i _ => i end.

Definition on_id (i : id) (x : hop) : bool := bytes_eqb (op_id (h_op x)) i.

Definition project (i : id) (h : history) : history := filter (on_id i) h.

(* two registers hold the same thing for log [i] *)
Definition agree (i : id) (r s : reg) : Prop := lookup r i = lookup s i.

Lemma reg_exec_other i r o : op_id o <> i -> lookup (fst (reg_exec r o)) i = lookup r i.
Proof.
  destruct o as [j | j old new | j new]; cbn; intro N; [reflexivity | |].
  - destruct (lookup r j) as [v|]; [destruct (bytes_eqb v old)|]; cbn; try reflexivity.
    unfold lookup. now apply alookup_aset_other.
  - destruct (lookup r j) as [v|]; cbn; try reflexivity.
    unfold lookup. now apply alookup_aset_other.
Qed.

Lemma reg_exec_agree i r s o :
  op_id o = i -> agree i r s ->
  snd (reg_exec r o) = snd (reg_exec s o) /\ agree i (fst (reg_exec r o)) (fst (reg_exec s o)).
Proof.
  unfold agree. intros E A. assert (L : lookup s i = lookup r i) by (symmetry; exact A).
  destruct o as [j | j old new | j new]; cbn [op_id] in E; subst j; unfold reg_exec; rewrite L.
  - cbn [fst snd]. split; [reflexivity | exact A].
  - destruct (lookup r i) as [v|] eqn:E1; [destruct (bytes_eqb v old)|]; cbn [fst snd]; split; try reflexivity; try congruence.
    unfold lookup. now rewrite !alookup_aset_same.
  - destruct (lookup r i) as [v|] eqn:E1; cbn [fst snd]; split; try reflexivity; try congruence.
    unfold lookup. now rewrite !alookup_aset_same.
Qed.

Lemma reg_step_fst r o res r' : reg_step r o res r' -> r' = r \/ r' = fst (reg_exec r o).
Proof.
  unfold reg_step. destruct res; intro H; try (right; now rewrite H); exact H.
Qed.

Lemma step_other weak i r o res r' : op_id o <> i -> step_of weak r o res r' -> lookup r' i = lookup r i.
Proof.
  intros N H.
  assert (K : r' = r \/ r' = fst (reg_exec r o)).
  { destruct weak; cbn in H.
    - destruct H as [H | [_ ->]]; [exact (reg_step_fst _ _ _ _ H) | now left].
    - exact (reg_step_fst _ _ _ _ H). }
  destruct K as [-> | ->]; [reflexivity | now apply reg_exec_other].
Qed.

Lemma reg_step_same i r s o res r' :
  op_id o = i -> agree i r s -> reg_step r o res r' -> exists s', reg_step s o res s' /\ agree i r' s'.
Proof.
  intros E A H. destruct (reg_exec_agree i r s o E A) as [R G].
  assert (D : res = Unknown \/ res <> Unknown) by (destruct res; auto; right; discriminate).
  destruct D as [-> | NU].
  - cbn in H. destruct H as [-> | ->].
    + exists s. split; [cbn; now left | exact A].
    + exists (fst (reg_exec s o)). split; [cbn; now right | exact G].
  - assert (X : reg_exec r o = (r', res)) by (unfold reg_step in H; destruct res; tauto).
    exists (fst (reg_exec s o)). split.
    + assert (Y : reg_exec s o = (fst (reg_exec s o), res)).
      { rewrite (surjective_pairing (reg_exec s o)) at 1. f_equal. rewrite <- R, X. reflexivity. }
      unfold reg_step. destruct res; try exact Y. now contradiction NU.
    + rewrite X in G. exact G.
Qed.

Lemma step_same weak i r s o res r' :
  op_id o = i -> agree i r s -> step_of weak r o res r' -> exists s', step_of weak s o res s' /\ agree i r' s'.
Proof.
  intros E A H. destruct weak; cbn in *.
  - destruct H as [H | [S ->]].
    + destruct (reg_step_same i r s o res r' E A H) as (s' & H' & A'). exists s'. split; [now left | exact A'].
    + exists s. split; [right; now split | exact A].
  - now apply (reg_step_same i r s o res r').
Qed.

Lemma accepted_project weak i : forall lin r s r',
  agree i r s -> accepted_from (step_of weak) r (calls lin) r' ->
  exists s', accepted_from (step_of weak) s (calls (project i lin)) s' /\ agree i r' s'.
Proof.
  induction lin as [|x lin IH]; cbn; intros r s r' A H.
  - subst r'. exists s. split; [reflexivity | exact A].
  - destruct H as (r1 & H1 & H2). unfold on_id at 1.
    destruct (bytes_eqb (op_id (h_op x)) i) eqn:B.
    + apply bytes_eqb_eq in B.
      destruct (step_same weak i r s _ _ r1 B A H1) as (s1 & S1 & A1).
      destruct (IH r1 s1 r' A1 H2) as (s' & S' & A').
      exists s'. split; [cbn; exists s1; split; assumption | exact A'].
    + apply bytes_eqb_neq in B.
      assert (A1 : agree i r1 s) by (unfold agree in *; rewrite (step_other weak i r _ _ r1 B H1); exact A).
      exact (IH r1 s r' A1 H2).
Qed.

Lemma filter_perm {A} (f : A -> bool) l l' : Permutation l l' -> Permutation (filter f l) (filter f l').
Proof.
  induction 1; cbn.
  - constructor.
  - destruct (f x); [now constructor | assumption].
  - destruct (f x), (f y); try reflexivity; apply perm_swap.
  - etransitivity; eassumption.
Qed.

Lemma rt_ordered_filter f : forall l, rt_ordered l -> rt_ordered (filter f l).
Proof.
  induction l as [|x l IH]; cbn; [auto|]. intros [H1 H2].
  destruct (f x); cbn; [|now apply IH].
  split; [|now apply IH]. intros y I. apply H1. apply filter_In in I. tauto.
Qed.

Theorem project_linearizable weak i h :
  linearizable (step_of weak) h -> linearizable (step_of weak) (project i h).
Proof.
  intros (r' & lin & P & O & Acc).
  destruct (accepted_project weak i lin [] [] r' eq_refl Acc) as (s' & S & _).
  exists s', (project i lin). split; [now apply filter_perm | split; [now apply rt_ordered_filter | exact S]].
Qed.

(* the form used by the check: one log ID whose own history is rejected by the (complete) checker
   refutes the whole recorded history *)
Theorem projection_rejected_refutes i h :
  linearizable_b (project i h) = false -> ~ linearizable reg_step h.
Proof.
  intros B L. apply (project_linearizable false i) in L. cbn in L.
  apply linearizable_b_complete in L. congruence.
Qed.

(* non-vacuity: a history over two log IDs that is rejected because of ONE of them: on log "a" a
   Replace through the superseded handle "x" reports success after Replace("x"->"y") did; the
   calls on log "b" are fine *)
Open Scope byte_scope.
Definition loc_a : id := [x61].
Definition loc_b : id := [x62].
Definition loc_demo : history :=
  [ (Create loc_a [x78], 1, 2, Ok);  (Create loc_b [x78], 1, 3, Ok);
    (Replace loc_a [x78] [x79], 4, 6, Ok); (Replace loc_b [x78] [x79], 5, 9, Ok);
    (Replace loc_a [x78] [x7a], 7, 8, Ok); (Fetch loc_b, 10, 11, Val [x79]) ]%N.

Example loc_demo_projection :
  linearizable_b (project loc_a loc_demo) = false /\ linearizable_b (project loc_b loc_demo) = true
  /\ length (project loc_a loc_demo) = 3%nat /\ linearizable_b loc_demo = false.
Proof. vm_compute. repeat split. Qed.

Example loc_demo_refuted : ~ linearizable reg_step loc_demo.
Proof. apply (projection_rejected_refutes loc_a). vm_compute. reflexivity. Qed.

Print Assumptions project_linearizable.
Print Assumptions projection_rejected_refutes.
