(* Lock/SchedProofs.v — C05: if every atomic server step of a protocol corresponds to one step
   of the register (a simulation through an abstraction function), then EVERY schedule of any
   number of clients has a linearization accepted by the register that respects real time:
   the linearization point of a call is its atomic server step. *)
From SL Require Import Base.BytesProofs Lock.Register Lock.RegisterProofs Lock.Sched.
Open Scope N_scope.

Definition cop_ok (P : protocol) (hok : p_state P -> p_handle P -> Prop) (s : p_state P) (o : cop (p_handle P)) : Prop :=
  match o with CReplace h _ => hok s h | _ => True end.

(* the proof obligation per backend *)
Record simulation (P : protocol) (weak : bool) := {
  abs : p_state P -> reg;
  (* [hok s h]: the handle h can have been handed out by the server up to state s *)
  hok : p_state P -> p_handle P -> Prop;
  abs_init : abs (p_init P) = [];
  abs_reopen : forall s, abs (p_reopen P s) = abs s;
  hok_reopen : forall s h, hok s h -> hok (p_reopen P s) h;
  hok_mono : forall s q n h, hok s h -> hok (fst (p_server P s q n)) h;
  step_sim : forall s o n s' cr, cop_ok P hok s o -> exec P s o n = (s', cr) ->
      step_of weak (abs s) (aop P o) (ares P cr) (abs s') /\
      (forall h, In h (new_handles P cr) -> hok s' h)
}.
Arguments abs {P weak}. Arguments hok {P weak}. Arguments abs_init {P weak}. Arguments abs_reopen {P weak}.
Arguments hok_reopen {P weak}. Arguments hok_mono {P weak}. Arguments step_sim {P weak}.

Definition call_of (x : orec) : op * result := (o_op x, o_res x).

Fixpoint lp_sorted (l : list orec) : Prop :=
  match l with [] => True | x :: t => (forall y, In y t -> o_lp x <= o_lp y) /\ lp_sorted t end.

Definition time_ok (now : N) (x : orec) : Prop :=
  o_start x <= o_lp x /\ o_lp x < now /\
  match o_fin x with Some t => o_lp x <= t /\ t < now | None => True end.

Lemma wait_find_in {A} (w : list (nat * A)) c a : wait_find w c = Some a -> In (c, a) w.
Proof.
  induction w as [|[k x] w IH]; cbn; [discriminate|].
  destruct (Nat.eqb k c) eqn:E; intro H.
  - apply Nat.eqb_eq in E. inversion H; subst. left; reflexivity.
  - right; auto.
Qed.

Lemma wait_del_in {A} (w : list (nat * A)) c x : In x (wait_del w c) -> In x w.
Proof.
  induction w as [|[k a] w IH]; cbn; [auto|].
  destruct (Nat.eqb k c); cbn; [auto|]. intros [H | H]; auto.
Qed.

Lemma lp_sorted_snoc l z : lp_sorted l -> (forall y, In y l -> o_lp y <= o_lp z) -> lp_sorted (l ++ [z]).
Proof.
  induction l as [|x l IH]; cbn; intros S B; [split; [intros y []|exact I]|].
  destruct S as [S1 S2]. split.
  - intros y I. apply in_app_or in I. destruct I as [I | [<- | []]]; [apply S1, I | apply B; left; reflexivity].
  - apply IH; auto.
Qed.

Lemma lp_sorted_app l1 l2 :
  lp_sorted l1 -> lp_sorted l2 -> (forall x y, In x l1 -> In y l2 -> o_lp x <= o_lp y) -> lp_sorted (l1 ++ l2).
Proof.
  induction l1 as [|x l IH]; cbn; intros S1 S2 B; [exact S2|].
  destruct S1 as [A S1]. split.
  - intros y I. apply in_app_or in I. destruct I as [I | I]; [apply A, I | apply B; auto].
  - apply IH; auto.
Qed.

Lemma lp_sorted_map f l : (forall x, o_lp (f x) = o_lp x) -> lp_sorted l -> lp_sorted (map f l).
Proof.
  intro E. induction l as [|x l IH]; cbn; [auto|]. intros [A S]. split; [|auto].
  intros y I. apply in_map_iff in I. destruct I as (y0 & <- & I). rewrite !E. auto.
Qed.

Lemma lp_sorted_const t l : (forall x, In x l -> o_lp x = t) -> lp_sorted l.
Proof.
  induction l as [|x l IH]; cbn; intro H; [exact I|]. split.
  - intros y Iy. rewrite (H x), (H y); auto. lia.
  - apply IH. auto.
Qed.

Lemma exec_state P s o n : fst (exec P s o n) = fst (p_server P s (p_request P o) n).
Proof. unfold exec. destruct (p_server P s (p_request P o) n); reflexivity. Qed.

Section Sim.
  Variable P : protocol.
  Variable weak : bool.
  Variable S : simulation P weak.

  Record inv (y : sys P) : Prop := {
    i_acc : accepted_from (step_of weak) [] (map call_of (y_trace y)) (abs S (y_srv y));
    i_pool : forall h, In h (y_pool y) -> hok S (y_srv y) h;
    i_wait : forall c co st, In (c, (co, st)) (y_wait y) -> cop_ok P (hok S) (y_srv y) co /\ st < y_now y;
    i_time : forall x, In x (y_trace y) -> time_ok (y_now y) x;
    i_sorted : lp_sorted (y_trace y) }.

  Lemma inv_init : inv (sys_init P).
  Proof.
    constructor; cbn.
    - apply abs_init.
    - intros h [].
    - intros c co st [].
    - intros x [].
    - exact I.
  Qed.

  Lemma time_ok_tick now x : time_ok now x -> time_ok (now + 1) x.
  Proof.
    unfold time_ok. destruct (o_fin x); intros (A & B & C); repeat split; try lia; tauto.
  Qed.

  Lemma cop_ok_mono s q n co : cop_ok P (hok S) s co -> cop_ok P (hok S) (fst (p_server P s q n)) co.
  Proof. destruct co; cbn; auto. apply hok_mono. Qed.

  Lemma cop_of_sop_ok y o co : inv y -> cop_of_sop P (y_pool y) o = Some co -> cop_ok P (hok S) (y_srv y) co.
  Proof.
    intros I. destruct o as [i | k new | i new]; cbn; intro H.
    - inversion H; subst; exact Logic.I.
    - destruct (nth_error (y_pool y) k) as [h|] eqn:E; [|discriminate]. inversion H; subst. cbn.
      apply (i_pool _ I). eapply nth_error_In; eauto.
    - inversion H; subst; exact Logic.I.
  Qed.

  (* a system state that differs from an invariant one only by the clock tick *)
  Lemma inv_tick y : inv y ->
    inv {| y_srv := y_srv y; y_pool := y_pool y; y_wait := y_wait y; y_trace := y_trace y; y_now := y_now y + 1 |}.
  Proof.
    intros [A B C D E]. constructor; cbn; auto.
    - intros c co st H. destruct (C _ _ _ H). split; [auto | lia].
    - intros x H. apply time_ok_tick; auto.
  Qed.

  Lemma close_client_calls c t tr : map call_of (close_client c t tr) = map call_of tr.
  Proof.
    unfold close_client. rewrite map_map. apply map_ext. intro x. destruct (is_open c x); reflexivity.
  Qed.

  Lemma inv_step y e : inv y -> inv (sys_step P y e).
  Proof.
    intro I. destruct e as [c o | c n lost | c | c |]; cbn [sys_step].
    - (* EInv *)
      destruct (wait_find (y_wait y) c) eqn:W; [apply inv_tick, I|].
      destruct (has_open c (y_trace y)) eqn:O; [apply inv_tick, I|].
      destruct (cop_of_sop P (y_pool y) o) as [co|] eqn:C; [|apply inv_tick, I].
      pose proof (cop_of_sop_ok _ _ _ I C) as K. destruct I as [A B Cw D E].
      constructor; cbn; auto.
      + intros c' co' st' [H | H].
        * inversion H; subst. split; [exact K | lia].
        * destruct (Cw _ _ _ H). split; [auto | lia].
      + intros x H. apply time_ok_tick; auto.
    - (* ESrv *)
      destruct (wait_find (y_wait y) c) as [[co st]|] eqn:W; [|apply inv_tick, I].
      apply wait_find_in in W.
      destruct (exec P (y_srv y) co n) as [s' cr] eqn:X.
      destruct I as [A B Cw D E]. destruct (Cw _ _ _ W) as [K St].
      destruct (step_sim S _ _ _ _ _ K X) as [Sim NH].
      assert (Es : s' = fst (p_server P (y_srv y) (p_request P co) n)).
      { rewrite <- exec_state, X. reflexivity. }
      constructor; cbn.
      + rewrite map_app. apply accepted_app. exists (abs S (y_srv y)). split; [exact A|].
        cbn. exists (abs S s'). split; [|reflexivity].
        destruct lost; [eapply step_forget_result; exact Sim | exact Sim].
      + assert (M : forall h, In h (y_pool y) -> hok S s' h) by (intros h H; rewrite Es; apply hok_mono, B, H).
        destruct lost; [exact M|]. intros h H. apply in_app_or in H. destruct H as [H | H]; [apply M, H | apply NH, H].
      + intros c' co' st' H. apply wait_del_in in H. destruct (Cw _ _ _ H) as [K' St']. split; [|lia].
        rewrite Es. apply cop_ok_mono, K'.
      + intros x H. apply in_app_or in H. destruct H as [H | [<- | []]].
        * apply time_ok_tick; auto.
        * unfold time_ok; cbn. repeat split; lia.
      + apply lp_sorted_snoc; [exact E|]. intros z H. cbn. destruct (D z H) as (_ & L & _). lia.
    - (* ERet *)
      destruct I as [A B Cw D E]. constructor; cbn; auto.
      + rewrite close_client_calls. exact A.
      + intros c' co' st' H. destruct (Cw _ _ _ H). split; [auto | lia].
      + intros x H. unfold close_client in H. apply in_map_iff in H. destruct H as (x0 & <- & H).
        pose proof (D x0 H) as T. destruct (is_open c x0); [|apply time_ok_tick, T].
        unfold time_ok in *. cbn. destruct T as (T1 & T2 & _). repeat split; lia.
      + unfold close_client. apply lp_sorted_map; [|exact E]. intro x. destruct (is_open c x); reflexivity.
    - (* EFail *)
      destruct (wait_find (y_wait y) c) as [[co st]|] eqn:W; [|apply inv_tick, I].
      apply wait_find_in in W. destruct I as [A B Cw D E]. destruct (Cw _ _ _ W) as [K St].
      constructor; cbn; auto.
      + rewrite map_app. apply accepted_app. exists (abs S (y_srv y)). split; [exact A|].
        cbn. exists (abs S (y_srv y)). split; [apply step_unknown_noop | reflexivity].
      + intros c' co' st' H. apply wait_del_in in H. destruct (Cw _ _ _ H). split; [auto | lia].
      + intros x H. apply in_app_or in H. destruct H as [H | [<- | []]].
        * apply time_ok_tick; auto.
        * unfold time_ok; cbn. repeat split; lia.
      + apply lp_sorted_snoc; [exact E|]. intros z H. cbn. destruct (D z H) as (_ & L & _). lia.
    - (* EReopen *)
      destruct I as [A B Cw D E]. constructor; cbn; auto.
      + rewrite abs_reopen. exact A.
      + intros h H. apply hok_reopen, B, H.
      + intros c' co' st' H. destruct (Cw _ _ _ H) as [K St]. split; [|lia].
        destruct co'; cbn in *; auto. apply hok_reopen, K.
      + intros x H. apply time_ok_tick; auto.
  Qed.

  Lemma inv_run sched : inv (sys_run P sched).
  Proof.
    unfold sys_run. assert (G : forall l y, inv y -> inv (fold_left (sys_step P) l y)).
    { induction l as [|e l IH]; cbn; intros y I; [exact I|]. apply IH, inv_step, I. }
    apply G, inv_init.
  Qed.

  (* ---- from the final state to the history ---- *)
  Lemma calls_hop_of l : calls (map hop_of l) = map call_of l.
  Proof. unfold calls. rewrite map_map. apply map_ext. intro x. reflexivity. Qed.

  Lemma accepted_close t : forall tr r r',
    accepted_from (step_of weak) r (map call_of tr) r' ->
    accepted_from (step_of weak) r (map call_of (map (close_pending t) tr)) r'.
  Proof.
    induction tr as [|x tr IH]; cbn; intros r r' H; [exact H|].
    destruct H as (r1 & H1 & H2). exists r1. split; [|apply IH, H2].
    unfold close_pending. destruct (o_fin x); cbn; [exact H1|]. eapply step_forget_result; exact H1.
  Qed.

  Lemma accepted_waits t : forall (w : list (nat * (cop (p_handle P) * N))) r,
    accepted_from (step_of weak) r (map call_of (map (rec_of_wait P t) w)) r.
  Proof.
    induction w as [|x w IH]; cbn; intro r; [reflexivity|].
    exists r. split; [apply step_unknown_noop | apply IH].
  Qed.

  Definition final_ok (x : orec) : Prop :=
    o_start x <= o_lp x /\ exists t, o_fin x = Some t /\ o_lp x <= t.

  Lemma rt_ordered_of_sorted l :
    lp_sorted l -> (forall x, In x l -> final_ok x) -> rt_ordered (map hop_of l).
  Proof.
    induction l as [|x l IH]; cbn; intros Srt F; [exact I|]. destruct Srt as [A Srt]. split.
    - intros y Iy. apply in_map_iff in Iy. destruct Iy as (y0 & <- & Iy).
      destruct (F x (or_introl eq_refl)) as (Sx & _).
      destruct (F y0 (or_intror Iy)) as (_ & t & Ft & Lt).
      unfold hop_of, h_fin, h_start. cbn. rewrite Ft. specialize (A y0 Iy). lia.
    - apply IH; auto.
  Qed.

  Lemma final_trace_facts y : inv y ->
    lp_sorted (final_trace P y) /\ (forall x, In x (final_trace P y) -> final_ok x) /\
    exists r', accepted_from (step_of weak) [] (map call_of (final_trace P y)) r'.
  Proof.
    intros [A B Cw D E]. unfold final_trace. split; [|split].
    - apply lp_sorted_app.
      + apply lp_sorted_map; [|exact E]. intro x. unfold close_pending. destruct (o_fin x); reflexivity.
      + apply lp_sorted_const with (t := y_now y). intros x H. apply in_map_iff in H.
        destruct H as (w & <- & _). reflexivity.
      + intros x z Hx Hz. apply in_map_iff in Hx. destruct Hx as (x0 & <- & Hx).
        apply in_map_iff in Hz. destruct Hz as (w & <- & _). cbn.
        destruct (D x0 Hx) as (_ & L & _). unfold close_pending. destruct (o_fin x0); cbn; lia.
    - intros x H. apply in_app_or in H. destruct H as [H | H].
      + apply in_map_iff in H. destruct H as (x0 & <- & H). destruct (D x0 H) as (T1 & T2 & T3).
        unfold close_pending, final_ok. destruct (o_fin x0) as [t|] eqn:F.
        * split; [exact T1|]. exists t. split; [exact F | tauto].
        * cbn. split; [exact T1|]. exists (y_now y). split; [reflexivity | lia].
      + apply in_map_iff in H. destruct H as ([c [co st]] & <- & H). destruct (Cw _ _ _ H) as [_ St].
        unfold final_ok, rec_of_wait. cbn. split; [lia|]. exists (y_now y). split; [reflexivity | lia].
    - exists (abs S (y_srv y)). rewrite map_app. apply accepted_app. exists (abs S (y_srv y)).
      split; [apply accepted_close, A | apply accepted_waits].
  Qed.

  (* the history of any schedule, read in the order of the calls' server steps, IS a
     linearization: it respects real time and the register accepts it *)
  Theorem history_in_lin_order sched :
    let h := history_of P sched in
    rt_ordered h /\ (exists r', accepted_from (step_of weak) [] (calls h) r') /\
    (forall x, In x h -> h_start x <= h_fin x).
  Proof.
    cbn. unfold history_of. destruct (final_trace_facts _ (inv_run sched)) as (Srt & F & r' & A).
    split; [apply rt_ordered_of_sorted; auto|]. split.
    - exists r'. rewrite calls_hop_of. exact A.
    - intros x H. apply in_map_iff in H. destruct H as (x0 & <- & H).
      destruct (F x0 H) as (Sx & t & Ft & Lt). unfold hop_of, h_fin, h_start. cbn. rewrite Ft. lia.
  Qed.

  Theorem protocol_linearizable sched : linearizable (step_of weak) (history_of P sched).
  Proof.
    destruct (history_in_lin_order sched) as (R & (r' & A) & _).
    exists r', (history_of P sched). split; [apply Permutation_refl | auto].
  Qed.

  (* ---- the property's sentences for every schedule ---- *)
  Lemma weak_accept sched : exists r', accepted_from reg_step_weak [] (calls (history_of P sched)) r'.
  Proof.
    destruct (history_in_lin_order sched) as (_ & (r' & A) & _). exists r'.
    eapply accepted_mono; [|exact A]. intros; eapply step_of_weaken; eauto.
  Qed.

  Lemma split_calls pre x mid y post :
    calls (pre ++ x :: mid ++ y :: post) =
    calls pre ++ (h_op x, h_res x) :: calls mid ++ (h_op y, h_res y) :: calls post.
  Proof. unfold calls. rewrite map_app. cbn. rewrite map_app. reflexivity. Qed.

  Lemma in_calls o r mid : In (o, r) (calls mid) -> exists z, In z mid /\ h_op z = o /\ h_res z = r.
  Proof.
    unfold calls. intro H. apply in_map_iff in H. destruct H as (z & E & I). inversion E; subst. eauto.
  Qed.

  (* a fetch that starts after a successful replace returned sees that value or a later one:
     the value of a write that is not before the replace in real time *)
  Theorem sched_fetch_after_replace sched x y i old new :
    let h := history_of P sched in
    In x h -> In y h -> h_op x = Replace i old new -> h_res x = Ok -> h_op y = Fetch i ->
    h_fin x < h_start y ->
    h_res y = Unknown \/ exists v, h_res y = Val v /\
      (v = new \/ exists z, In z h /\ writes (h_op z) i v /\ (h_res z = Ok \/ h_res z = Unknown) /\
                            ~ (h_fin z < h_start x)).
  Proof.
    cbn. intros Ix Iy Ox Rx Oy Lt.
    destruct (history_in_lin_order sched) as (R & _ & Wf). cbn in R, Wf.
    destruct (rt_ordered_before _ _ _ R Ix Iy (Wf x Ix) Lt) as (pre & mid & post & Eh).
    destruct (weak_accept sched) as (r' & A). rewrite Eh, split_calls, Ox, Rx, Oy in A.
    apply fetch_after_replace_reg in A. destruct A as [U | (v & Ev & D)]; [left; exact U|].
    right. exists v. split; [exact Ev|]. destruct D as [-> | (o & r & Im & W & Rr)]; [left; reflexivity|].
    right. apply in_calls in Im. destruct Im as (z & Iz & <- & <-).
    exists z. split; [rewrite Eh; apply in_or_app; right; right; apply in_or_app; left; exact Iz|].
    split; [exact W|]. split; [exact Rr|].
    rewrite Eh in R. apply rt_ordered_app in R. destruct R as (_ & R & _). cbn in R. destruct R as [R _].
    apply R. apply in_or_app; left; exact Iz.
  Qed.

  (* in the order of the server steps: two successful replaces of the same predecessor value
     need a write of that value in between; create succeeds at most once *)
  Theorem sched_at_most_one_replace sched pre x mid y post i old n1 n2 :
    history_of P sched = pre ++ x :: mid ++ y :: post ->
    h_op x = Replace i old n1 -> h_res x = Ok -> h_op y = Replace i old n2 -> h_res y = Ok ->
    n1 = old \/ exists z, In z mid /\ writes (h_op z) i old /\ (h_res z = Ok \/ h_res z = Unknown).
  Proof.
    intros Eh Ox Rx Oy Ry. destruct (weak_accept sched) as (r' & A).
    rewrite Eh, split_calls, Ox, Rx, Oy, Ry in A. apply at_most_one_replace_reg in A.
    destruct A as [-> | (o & r & Im & W & Rr)]; [left; reflexivity|].
    right. apply in_calls in Im. destruct Im as (z & Iz & <- & <-). eauto.
  Qed.

  Theorem sched_create_at_most_once sched pre x mid y post i a b :
    history_of P sched = pre ++ x :: mid ++ y :: post ->
    h_op x = Create i a -> h_res x = Ok -> h_op y = Create i b -> h_res y <> Ok.
  Proof.
    intros Eh Ox Rx Oy. destruct (weak_accept sched) as (r' & A).
    rewrite Eh, split_calls, Ox, Rx, Oy in A. apply create_at_most_once_reg in A.
    destruct A as [-> | ->]; discriminate.
  Qed.
End Sim.
