(* Lock/Dynamo.v — C05: internal/ctlog/dynamodb.go as a client protocol over a DynamoDB table
   (key attribute logID : B, attribute checkpoint : B) whose individual requests are atomic.
   A read that is not strongly consistent may return any earlier state of the item.
   Definitions only. *)
From SL Require Export Lock.Sched.
Open Scope N_scope.

(* a binary attribute value as the SDK serialises a Go []byte: a nil slice becomes {"B": null},
   a non-nil one {"B": "<base64>"} (observed on the wire by harness/lock) *)
Inductive dy_cond :=
| DyNoCond
| DyCheckpointEq (old : gobytes)   (* ConditionExpression "checkpoint = :old", :old = B old *)
| DyNotExists.                     (* ConditionExpression "attribute_not_exists(logID)" *)

Inductive dy_req :=
| DyGetItem (i : id) (consistent : bool)
| DyPutItem (i : id) (checkpoint : gobytes) (c : dy_cond).

Inductive dy_rep :=
| DyItem (item : option bytes)     (* GetItem output: Item = {logID, checkpoint} or no Item *)
| DyPutOk
| DyCondFailed                     (* ConditionalCheckFailedException *)
| DyInvalid.                       (* ValidationException: the request is rejected, nothing happens *)

(* per logID: the current checkpoint and the earlier ones, newest first *)
Definition dy_state := amap (bytes * list bytes).

(* What DynamoDB answers to {"B": null} is not known to this model: the server either rejects
   the request (choice 0) or reads it as the empty value (any other choice). *)
Definition dy_has_null (v : gobytes) (c : dy_cond) : bool :=
  match v, c with
  | None, _ => true
  | _, DyCheckpointEq None => true
  | _, _ => false
  end.

Definition dy_cond_holds (cur : option (bytes * list bytes)) (c : dy_cond) : bool :=
  match c, cur with
  | DyNoCond, _ => true
  | DyCheckpointEq old, Some (v, _) => bytes_eqb v (norm old)
  | DyCheckpointEq _, None => false          (* the attribute does not exist: the comparison is false *)
  | DyNotExists, Some _ => false
  | DyNotExists, None => true
  end.

Definition dy_server (s : dy_state) (q : dy_req) (n : nat) : dy_state * dy_rep :=
  match q with
  | DyGetItem i consistent =>
      match alookup s i with
      | None => (s, DyItem None)
      | Some (v, olds) =>
          if consistent then (s, DyItem (Some v))
          else match n with
               | O => (s, DyItem (Some v))
               | S k => (s, DyItem (nth_error olds k))     (* an earlier value, or "no item yet" *)
               end
      end
  | DyPutItem i v c =>
      if dy_has_null v c && Nat.eqb n 0 then (s, DyInvalid) else
      let cur := alookup s i in
      if dy_cond_holds cur c then
        (aset s i (norm v, match cur with Some (w, olds) => w :: olds | None => [] end), DyPutOk)
      else (s, DyCondFailed)
  end.

(* dynamoDBCheckpoint{logID, body}; body is nil after a successful Replace(old, nil) *)
Record dy_handle := { dy_id : id; dy_body : gobytes }.

(* the client, parameterised by the value it passes as ConsistentRead (the code passes true) *)
Definition dy_request (consistent : bool) (o : cop dy_handle) : dy_req :=
  match o with
  | CFetch i => DyGetItem i consistent
  | CReplace h new => DyPutItem (dy_id h) new (DyCheckpointEq (dy_body h))
  | CCreate i new => DyPutItem i new DyNotExists
  end.

Definition dy_interp (o : cop dy_handle) (r : dy_rep) : cres dy_handle :=
  match o, r with
  | CFetch i, DyItem (Some b) => CVal {| dy_id := i; dy_body := Some b |}
  | CFetch i, DyItem None => CNotFound               (* resp.Item == nil => ErrLogNotFound *)
  | CReplace h new, DyPutOk => CReplaced {| dy_id := dy_id h; dy_body := new |}
  | CReplace h new, DyCondFailed => CRefused
  | CCreate i new, DyPutOk => CCreated
  | CCreate i new, DyCondFailed => CRefused
  | _, _ => CErr
  end.

Definition dynamo_client (consistent : bool) : protocol := {|
  p_state := dy_state; p_req := dy_req; p_rep := dy_rep; p_handle := dy_handle;
  p_init := [];
  p_server := dy_server;
  p_reopen := fun s => s;
  p_request := dy_request consistent;
  p_interp := dy_interp;
  p_hid := dy_id; p_hbody := fun h => norm (dy_body h) |}.

Definition dynamo : protocol := dynamo_client true.            (* dynamodb.go: ConsistentRead: aws.Bool(true) *)
Definition dynamo_eventual : protocol := dynamo_client false.  (* what the backend would be without it *)
