(* Client/Model.v — executable model of sunlight's monitoring client (client.go: cutEntry,
   Client.Entries / AllEntries / Entry / CheckInclusion / Checkpoint) on top of the loops of
   filippo.io/torchwood's Client (tlogclient.go: Entries, AllEntries, Entry). Definitions only.

   THE ADVERSARY.  Everything that comes from the network is an arbitrary function:
     adv_data r N W      the bytes served for data tile tile/data/<N>[.p/<W>] at request round r
                         (None = the fetch fails); r makes the server STATEFUL: it may answer
                         differently in every batch of the iterator and in the second pass of AllEntries;
     adv_hashes r n root idxs
                         what the authenticated hash fetch  torchwood.TileHashReaderWithContext(tree, tr)
                         .ReadHashes(StoredHashIndex(0, i) for i in idxs)  returns. The loop of
                         tlog.TileHashReader (fetch the right-edge tiles, recompute the tree hash, verify
                         every other tile against its parent) is a DEPENDENCY: in THIS file it is
                         SPECIFIED by [verifying] below (it returns hashes only if they are the hashes the
                         root commits to). Client/Reader.v transcribes the loop (both published versions)
                         for RUNNING the model; harness/client ties it to the real reader. The version
                         pinned by /repo's go.mod does NOT meet the specification (Properties/C12.v);
     adv_proof n root i  the record proof tlog.ProveRecord assembles from that reader: an arbitrary
                         hash list (it is checked by tlog.CheckRecord, modelled in Merkle/Proofs.v);
     the served checkpoint and the SCT are symbolic values (signatures are symbolic, Dolev-Yao).

   Sizes and indexes are N, the caller's start / index arguments are Z (Go int64; wrap-around is not
   modelled). Go's context cancellation / timeouts and the caller breaking out of the range loop
   are not modelled (they only shorten the yielded sequence). *)
From SL Require Export Codec.Leaf Merkle.Proofs.
Open Scope N_scope.

(* error classes (what harness/client derives from the error text) *)
Inductive eclass :=
| EFetch       (* TileReader.ReadTiles failed for a data tile / ReadEndpoint failed *)
| EHashes      (* the authenticated hash reader returned an error *)
| EEof         (* torchwood: "unexpected end of tile data" *)
| ECut         (* torchwood: "failed to cut entry": ReadTileLeafMaybeArchival failed *)
| EMismatch    (* torchwood: "hash mismatch for entry" *)
| ELeftover    (* torchwood: "unexpected leftover data in tile" *)
| EParse       (* sunlight: ReadTileLeaf of a yielded entry failed (archival leaf not allowed) *)
| ETrailing    (* sunlight: "unexpected trailing data in entry" *)
| ERange       (* Entry: "invalid index" *)
| ENoEntry     (* Entry: "no entry at index" *)
| EProve       (* Entry: tlog.ProveRecord failed *)
| ECheck       (* Entry: tlog.CheckRecord failed: "does not match Merkle tree" *)
| EIndex       (* sunlight Entry: "log entry index does not match requested index" *)
| ESctParse    (* CheckInclusion: tls.Unmarshal failed *)
| ESctVersion  (* CheckInclusion: unsupported SCT version *)
| ELogID       (* CheckInclusion: ErrWrongLogID *)
| ESctExt      (* CheckInclusion: ParseExtensions failed *)
| ETimestamp   (* CheckInclusion: SCT timestamp does not match entry timestamp *)
| ESig         (* CheckInclusion: tls.VerifySignature failed *)
| ECkVerifier  (* Checkpoint: NewRFC6962Verifier refused the name *)
| ECkMalformed (* Checkpoint: note.Open: malformed note *)
| ECkUnverified(* Checkpoint: note.Open: no signature by the configured key *)
| ECkInvalidSig(* Checkpoint: note.Open: a signature by the configured (name, key hash) does not verify *)
| ECkParse     (* Checkpoint: torchwood.ParseCheckpoint failed *)
| ECkOrigin    (* Checkpoint: origin does not match the name *)
| EUnmodelled  (* start <= -256: negative tile numbers are outside the modelled domain *)
| EFuel        (* totalisation of the batch loop; excluded by Proofs.entries_fuel *)
| EPanic       (* MerkleTreeLeaf builder error = BytesOrPanic panics; excluded by Proofs.cut_no_panic *)
| EInternal.   (* result-slice length mismatch; excluded for readers that return one hash per index *)

Inductive res (A : Type) := Good (a : A) | Bad (e : eclass).
Arguments Good {A} a.
Arguments Bad {A} e.

(* int64(x) of a uint64 *)
Definition to_int64 (v : N) : Z :=
  if v <? 9223372036854775808 then Z.of_N v else (Z.of_N v - two64)%Z.

(* ---- symbolic signatures ---------------------------------------------------------------- *)
(* A public key is a number; a signature VALUE records who produced it, with which hash
   algorithm, over which message: it can only be produced by signing, and verification is
   structural equality. *)
Record ssig := mkSig { sg_key : N; sg_hashalg : N; sg_msg : bytes }.

Definition ssig_verify (pk hashalg : N) (msg : bytes) (s : ssig) : bool :=
  (sg_key s =? pk) && (sg_hashalg s =? hashalg) && bytes_eqb (sg_msg s) msg.

(* ct.SignedCertificateTimestamp as tls.Unmarshal returns it *)
Record sct := mkSct {
  sct_version : N;       (* SCTVersion, V1 = 0 *)
  sct_logid : bytes;     (* LogID.KeyID *)
  sct_ts : N;            (* Timestamp uint64 *)
  sct_ext : bytes;       (* Extensions *)
  sct_hashalg : N;       (* Signature.Algorithm.Hash      (SHA256 = 4) *)
  sct_sigalg : N;        (* Signature.Algorithm.Signature (ECDSA = 3) *)
  sct_sig : option ssig  (* Signature.Signature: None = bytes that are no signature by any key *)
}.

Section Client.
Variable Hsh : Type.
Variable hnode : Hsh -> Hsh -> Hsh.
Variable hempty : Hsh.
Variable heqb : Hsh -> Hsh -> bool.
Variable leaf_hash : bytes -> Hsh.       (* tlog.RecordHash: SHA-256(0x00 || data) *)
Variable sha : bytes -> bytes.           (* SHA-256 on bytes (log ID) *)
Variable spki : N -> bytes.              (* x509.MarshalPKIXPublicKey of key k *)
Variable keyhash : bytes -> N -> N.      (* note key hash of (name, 0x05 || SHA-256(spki k)) *)

Record adversary := mkAdv {
  adv_data : nat -> N -> N -> option bytes;
  adv_hashes : nat -> N -> Hsh -> list N -> option (list Hsh);
  adv_proof : N -> Hsh -> N -> option (list Hsh)
}.

(* ---- the specification of the verifying hash reader --------------------------------------- *)
(* h is the hash the tree head (n, root) commits to at leaf index i *)
Definition authentic (n : N) (root : Hsh) (i : N) (h : Hsh) : Prop :=
  exists LH : list Hsh, N.of_nat (length LH) = n /\ mth Hsh hnode hempty LH = root /\
                        nth_error LH (N.to_nat i) = Some h.

Definition verifying (adv : adversary) : Prop :=
  forall r n root idxs hs, adv_hashes adv r n root idxs = Some hs ->
    Forall2 (authentic n root) idxs hs.

(* ---- client.go cutEntry -------------------------------------------------------------------- *)
(* e, rest, err := ReadTileLeafMaybeArchival(tile); rh = RecordHash(e.MerkleTreeLeaf());
   entry = tile[:len(tile)-len(rest)] *)
Definition cut_entry (tile : bytes) : res (bytes * Hsh * bytes) :=
  match read_tile_leaf_maybe_archival tile with
  | None => Bad ECut
  | Some (e, rest) =>
    match merkle_tree_leaf e with
    | None => Bad EPanic
    | Some ml => Good (firstn (length tile - length rest) tile, leaf_hash ml, rest)
    end
  end.

(* client.go, body of the range loops of Entries / AllEntries / Entry: re-parse the entry bytes *)
Definition parse_entry (allow : bool) (eb : bytes) : res leaf :=
  match (if allow then read_tile_leaf_maybe_archival eb else read_tile_leaf eb) with
  | None => Bad EParse
  | Some (e, []) => Good e
  | Some (_, _ :: _) => Bad ETrailing
  end.

(* ---- torchwood Client.Entries: one data tile ---------------------------------------------- *)
(* for i := tileStart; i < tileEnd; i++ { ... }; hs are hashes[i-base] for this tile (one per
   entry of the tile), the loop runs once per element. Returns the yielded (index, entry) pairs and
   the error that stopped the iteration, if any. *)
Fixpoint scan_tile (allow : bool) (start : Z) (i : N) (hs : list Hsh) (data : bytes)
  : list (N * leaf) * option eclass :=
  match hs with
  | [] => ([], match data with [] => None | _ :: _ => Some ELeftover end)
  | h :: hs' =>
    match data with
    | [] => ([], Some EEof)
    | _ :: _ =>
      match cut_entry data with
      | Bad e => ([], Some e)
      | Good (eb, rh, rest) =>
        if negb (heqb rh h) then ([], Some EMismatch) else
        if (Z.of_N i <? start)%Z then scan_tile allow start (i + 1) hs' rest else
        match parse_entry allow eb with
        | Bad e => ([], Some e)
        | Good le =>
          let '(ys, r) := scan_tile allow start (i + 1) hs' rest in ((i, le) :: ys, r)
        end
      end
    end
  end.

(* for ti, t := range tiles { ...; start = tileEnd }   (tiles: (N, W) pairs) *)
Fixpoint scan_tiles (allow : bool) (start : Z) (tiles : list (N * N)) (datas : list bytes)
  (hs : list Hsh) : list (N * leaf) * option eclass * Z :=
  match tiles with
  | [] => ([], None, start)
  | (tn, tw) :: ts =>
    match datas with
    | [] => ([], Some EInternal, start)
    | d :: ds =>
      let '(ys, r) := scan_tile allow start (tn * 256) (firstn (N.to_nat tw) hs) d in
      match r with
      | Some e => (ys, Some e, start)
      | None =>
        let '(ys2, r2, s2) :=
          scan_tiles allow (Z.of_N (tn * 256 + tw)) ts ds (skipn (N.to_nat tw) hs) in
        (ys ++ ys2, r2, s2)
      end
    end
  end.

(* for i := 0; i < 50; i++ { tileStart := base + i*256; if tileStart >= top { break }; ... } *)
Fixpoint gen_tiles (k : nat) (tile_start top : N) : list (N * N) :=
  match k with
  | O => []
  | S k' =>
    if top <=? tile_start then [] else
    (tile_start / 256, N.min (tile_start + 256) top - tile_start)
      :: gen_tiles k' (tile_start + 256) top
  end.

Fixpoint fetch_all (f : N -> N -> option bytes) (tiles : list (N * N)) : option (list bytes) :=
  match tiles with
  | [] => Some []
  | (tn, tw) :: ts =>
    match f tn tw, fetch_all f ts with
    | Some d, Some ds => Some (d :: ds)
    | _, _ => None
    end
  end.

Definition tile_indexes (tiles : list (N * N)) : list N :=
  concat (map (fun t => map (fun j => fst t * 256 + N.of_nat j) (seq 0 (N.to_nat (snd t)))) tiles).

Inductive bres :=
| BDone (ys : list (N * leaf)) (r : option eclass)
| BMore (ys : list (N * leaf)) (start : N).

(* one iteration of the outer  for { ... }  of torchwood Client.Entries *)
Definition batch (adv : adversary) (allow : bool) (n : N) (root : Hsh) (round : nat) (start : Z) : bres :=
  let zbase := (Z.quot start 256 * 256)%Z in
  if (zbase <? 0)%Z then BDone [] (Some EUnmodelled) else
  let base := Z.to_N zbase in
  let top0 := n / 256 * 256 in
  let top := if top0 =? base then n else top0 in          (* if top-base == 0 { top = tree.N } *)
  let tiles := gen_tiles 50 base top in
  match tiles with
  | [] => BDone [] None                                   (* if len(tiles) == 0 { return } *)
  | _ :: _ =>
    match fetch_all (adv_data adv round) tiles with
    | None => BDone [] (Some EFetch)
    | Some datas =>
      let idxs := tile_indexes tiles in
      match adv_hashes adv round n root idxs with
      | None => BDone [] (Some EHashes)
      | Some hs =>
        if negb (length hs =? length idxs)%nat then BDone [] (Some EInternal) else
        let '(ys, r, s') := scan_tiles allow start tiles datas hs in
        match r with
        | Some e => BDone ys (Some e)
        | None => if (s' =? Z.of_N top)%Z then BDone ys None else BMore ys (Z.to_N s')
        end
      end
    end
  end.

Fixpoint entries_loop (fuel : nat) (adv : adversary) (allow : bool) (n : N) (root : Hsh)
  (round : nat) (start : Z) : list (N * leaf) * option eclass :=
  match fuel with
  | O => ([], Some EFuel)
  | S f =>
    match batch adv allow n root round start with
    | BDone ys r => (ys, r)
    | BMore ys s' =>
      let '(ys2, r) := entries_loop f adv allow n root (S round) (Z.of_N s') in (ys ++ ys2, r)
    end
  end.

(* every batch that does not end the iteration advances the aligned start by 50 tiles *)
Definition entries_fuel (n : N) : nat := N.to_nat (n / 12800) + 2.

(* sunlight Client.Entries(ctx, tree, start) consumed to the end + Client.Err() *)
Definition entries (adv : adversary) (allow : bool) (n : N) (root : Hsh) (start : Z)
  : list (N * leaf) * option eclass :=
  entries_loop (entries_fuel n) adv allow n root O start.

Definition shift_adv (k : nat) (adv : adversary) : adversary :=
  mkAdv (fun r => adv_data adv (k + r)%nat) (fun r => adv_hashes adv (k + r)%nat) (adv_proof adv).

Fixpoint last_index (ys : list (N * leaf)) (d : Z) : Z :=
  match ys with
  | [] => d
  | (i, _) :: r => last_index r (Z.of_N i + 1)%Z
  end.

(* torchwood Client.AllEntries: a first pass (start = i+1 after every yielded entry) and, if it
   ended without error and start < tree.N, a second pass from there *)
Definition all_entries (adv : adversary) (allow : bool) (n : N) (root : Hsh) (start : Z)
  : list (N * leaf) * option eclass :=
  let '(ys, r) := entries adv allow n root start in
  match r with
  | Some e => (ys, Some e)
  | None =>
    let start2 := last_index ys start in
    if (start2 <? Z.of_N n)%Z then
      let '(ys2, r2) := entries (shift_adv (entries_fuel n) adv) allow n root start2 in
      (ys ++ ys2, r2)
    else (ys, None)
  end.

(* ---- torchwood Client.Entry + sunlight Client.Entry ------------------------------------------ *)
(* for range index - dataTile.N*TileWidth + 1 { if len(tile) == 0 {...}; entry, rh, tile, err = cut(tile) } *)
Fixpoint cut_nth (k : nat) (tile : bytes) : res (bytes * Hsh) :=
  match tile with
  | [] => Bad ENoEntry
  | _ :: _ =>
    match cut_entry tile with
    | Bad e => Bad e
    | Good (eb, rh, rest) =>
      match k with
      | O => Good (eb, rh)
      | S k' => cut_nth k' rest
      end
    end
  end.

Definition entry (adv : adversary) (allow : bool) (n : N) (root : Hsh) (index : Z)
  : res (leaf * list Hsh) :=
  if (index <? 0)%Z || (Z.of_N n <=? index)%Z then Bad ERange else
  let idx := Z.to_N index in
  let tn := idx / 256 in
  let tw := N.min 256 (n - tn * 256) in
  match adv_data adv O tn tw with
  | None => Bad EFetch
  | Some tile =>
    match cut_nth (N.to_nat (idx - tn * 256)) tile with
    | Bad e => Bad e
    | Good (eb, rh) =>
      match adv_proof adv n root idx with
      | None => Bad EProve
      | Some p =>
        match check_record Hsh hnode heqb p n root idx rh with
        | Ok =>
          match parse_entry allow eb with
          | Bad e => Bad e
          | Good le =>
            if negb (l_arch le) && negb (l_idx le =? index)%Z then Bad EIndex
            else Good (le, p)
          end
        | _ => Bad ECheck
        end
      end
    end
  end.

(* ---- sunlight Client.CheckInclusion ------------------------------------------------------------ *)
(* tls.VerifySignature(pub, data, sig) for an ECDSA key: the hash algorithm NAMED IN THE SCT is
   used (MD5 .. SHA512 = 1 .. 6 are all accepted by ct-go), the signature algorithm must be ECDSA *)
Definition sct_sig_ok (pk : N) (s : sct) (msg : bytes) : bool :=
  (1 <=? sct_hashalg s) && (sct_hashalg s <=? 6) && (sct_sigalg s =? 3) &&
  match sct_sig s with
  | Some g => ssig_verify pk (sct_hashalg s) msg g
  | None => false
  end.

Definition check_inclusion (adv : adversary) (allow : bool) (pk : N) (n : N) (root : Hsh)
  (s : option sct) : res (leaf * list Hsh) :=
  match s with
  | None => Bad ESctParse
  | Some s =>
    if negb (sct_version s =? 0) then Bad ESctVersion else
    if negb (bytes_eqb (sct_logid s) (sha (spki pk))) then Bad ELogID else
    match parse_extensions (sct_ext s) with
    | None => Bad ESctExt
    | Some idx =>
      match entry adv allow n root idx with
      | Bad e => Bad e
      | Good (le, p) =>
        if negb (l_ts le =? to_int64 (sct_ts s))%Z then Bad ETimestamp else
        match merkle_tree_leaf le with
        | None => Bad EPanic
        | Some ml => if sct_sig_ok pk s ml then Good (le, p) else Bad ESig
        end
      end
    end
  end.

(* ---- sunlight Client.Checkpoint (symbolic note) -------------------------------------------------- *)
(* a TreeHeadSignature value: who signed which (size, timestamp, root) *)
Record sthsig := mkSthSig { ss_key : N; ss_size : N; ss_ts : N; ss_root : Hsh }.

(* the RFC6962NoteSignature blob of a signature line, as the verifier parses it
   (None = the blob does not parse) *)
Record noteblob := mkBlob { nb_ts : N; nb_hashalg : N; nb_sigalg : N; nb_sig : option sthsig }.

Record sigline := mkSigLine { sl_name : bytes; sl_hash : N; sl_blob : option noteblob }.

(* the note text as torchwood.ParseCheckpoint sees it *)
Record cktext := mkCkText { ck_origin : bytes; ck_size : N; ck_root : Hsh; ck_ext : bytes }.

Record snote := mkNote {
  nt_wellformed : bool;       (* note.Open's syntactic checks pass (utf-8, blank line, "— name b64" lines, <= 100) *)
  nt_name : bytes;            (* first line of the served bytes *)
  nt_name_valid : bool;       (* isValidName(name) *)
  nt_text : option cktext;    (* ParseCheckpoint(text) *)
  nt_sigs : list sigline
}.

(* the verify closure of NewRFC6962Verifier(name, key) for an ECDSA key *)
Definition rfc6962_verify (name : bytes) (pk : N) (text : option cktext) (blob : option noteblob) : bool :=
  match text, blob with
  | Some c, Some b =>
    bytes_eqb (ck_origin c) name &&
    match ck_ext c with [] => true | _ :: _ => false end &&
    (nb_hashalg b =? 4) && (nb_sigalg b =? 3) &&
    match nb_sig b with
    | Some g => (ss_key g =? pk) && (ss_size g =? ck_size c) && (ss_ts g =? nb_ts b) &&
                heqb (ss_root g) (ck_root c)
    | None => false
    end
  | _, _ => false
  end.

(* the signature loop of note.Open with the one-element verifier list; returns the verified lines *)
Fixpoint open_sigs (name : bytes) (pk : N) (text : option cktext) (seen : bool)
  (sigs : list sigline) : res (list sigline) :=
  match sigs with
  | [] => Good []
  | s :: r =>
    if bytes_eqb (sl_name s) name && (sl_hash s =? keyhash name pk) then
      if seen then open_sigs name pk text seen r else
      if rfc6962_verify name pk text (sl_blob s) then
        match open_sigs name pk text true r with
        | Good l => Good (s :: l)
        | Bad e => Bad e
        end
      else Bad ECkInvalidSig
    else open_sigs name pk text seen r                  (* unknown verifier: UnverifiedSigs *)
  end.

Definition checkpoint (pk : N) (served : option snote) : res (cktext * list sigline) :=
  match served with
  | None => Bad EFetch
  | Some nt =>
    if negb (nt_name_valid nt) then Bad ECkVerifier else
    if negb (nt_wellformed nt) then Bad ECkMalformed else
    match open_sigs (nt_name nt) pk (nt_text nt) false (nt_sigs nt) with
    | Bad e => Bad e
    | Good [] => Bad ECkUnverified
    | Good (s :: l) =>
      match nt_text nt with
      | None => Bad ECkParse
      | Some c =>
        if negb (bytes_eqb (ck_origin c) (nt_name nt)) then Bad ECkOrigin
        else Good (c, s :: l)
      end
    end
  end.

End Client.

(* ==================================================================================================
   An IDEAL verifying reader (used by the non-vacuity examples of Client/Closed.v, where it is proved
   to satisfy [verifying]): it knows the true hashes and answers with them iff every hash tile of the
   fetch plan is served unmodified. The helpers sub_tree_index / leaf_proof_index / clamp_tile are
   shared with the transcription of the real reader in Client/Reader.v, which is what the model is
   RUN with next to the implementation.
   ================================================================================================== *)

(* a stored hash: (level, k) = the hash of leaves [k * 2^level, (k+1) * 2^level) *)
Definition hcoord := (N * N)%type.

(* tlog.subTreeIndex(lo, hi): the maximal complete subtrees tiling [lo, hi), left to right *)
Fixpoint sub_tree_index (fuel : nat) (lo hi : N) : list hcoord :=
  match fuel with
  | O => []
  | S f =>
    if hi <=? lo then [] else
    let level := N.log2 (hi - lo) in
    let k := 2 ^ level in
    (level, lo / k) :: sub_tree_index f (lo + k) hi
  end.

(* tlog.leafProofIndex(lo, hi, n) *)
Fixpoint leaf_proof_index (fuel : nat) (lo hi n : N) : list hcoord :=
  match fuel with
  | O => []
  | S f =>
    if lo + 1 =? hi then [] else
    match maxpow2N (hi - lo) with
    | None => []
    | Some k =>
      if n <? lo + k then leaf_proof_index f lo (lo + k) n ++ sub_tree_index 70 (lo + k) hi
      else sub_tree_index 70 lo (lo + k) ++ leaf_proof_index f (lo + k) hi n
    end
  end.

(* tileParent(t, 0, n) of a tile at level L, number tn: the width the tree of size n gives it
   (None = the zero Tile{}: no such tile in this tree) *)
Definition clamp_tile (L : nat) (tn n : N) : option tcoord :=
  let mx := shr8 L n in
  if mx <=? tn * 256 then None else Some (mkT L tn (N.min 256 (mx - tn * 256))).

(* tileForIndex(8, StoredHashIndex(level, k)) followed by tileParent(_, 0, n) *)
Definition tile_of_coord (n : N) (c : hcoord) : option tcoord :=
  let '(level, k) := c in
  let L := level / 8 in
  let l' := level mod 8 in
  clamp_tile (N.to_nat L) (N.shiftr (N.shiftl k l') 8) n.

Definition tmem (t : tcoord) (l : list tcoord) : bool := existsb (tcoord_eqb t) l.

Definition add_tile (t : tcoord) (l : list tcoord) : list tcoord := if tmem t l then l else l ++ [t].

(* walk up the parents of t until one that is already planned, then plan the ones in between *)
Fixpoint plan_up (fuel : nat) (n : N) (t : tcoord) (planned : list tcoord) : list tcoord :=
  if tmem t planned then planned else
  match fuel with
  | O => add_tile t planned
  | S f =>
    match clamp_tile (S (tc_L t)) (tc_N t / 256) n with
    | Some p => add_tile t (plan_up f n p planned)
    | None =>
      (* a zero parent: the real loop goes on upwards; tiles of a tree always reach a planned one *)
      add_tile t (plan_up f n (mkT (S (tc_L t)) (tc_N t / 256) 0) planned)
    end
  end.

Fixpoint opt_tiles (l : list (option tcoord)) : list tcoord :=
  match l with
  | [] => []
  | Some t :: r => t :: opt_tiles r
  | None :: r => opt_tiles r
  end.

(* every tile ReadHashes fetches for the stored hashes [coords] in the tree of size n *)
Definition reader_tiles (n : N) (coords : list hcoord) : list tcoord :=
  let stx := fold_left (fun acc t => add_tile t acc)
                       (opt_tiles (map (tile_of_coord n) (sub_tree_index 70 0 n))) [] in
  fold_left (fun acc t => filter (fun x => negb (tc_W x =? 0)) (plan_up 10 n t acc))
            (opt_tiles (map (tile_of_coord n) coords)) stx.

Definition hash_tile_path (t : tcoord) : bytes :=
  match tile_path (mkTile 8 (Z.of_nat (tc_L t)) (Z.of_N (tc_N t)) (Z.of_N (tc_W t))) with
  | Some p => p
  | None => []
  end.

Definition data_tile_path (tn tw : N) : bytes :=
  match tile_path (mkTile 8 (-1) (Z.of_N tn) (Z.of_N tw)) with
  | Some p => p
  | None => []
  end.

Definition obytes_eqb (a b : option bytes) : bool :=
  match a, b with
  | Some x, Some y => bytes_eqb x y
  | _, _ => false
  end.

Section Reference.
Variable Hsh : Type.
Variable hnode : Hsh -> Hsh -> Hsh.
Variable hempty : Hsh.
Variable heqb : Hsh -> Hsh -> bool.

Definition tiles_intact (served truth : bytes -> option bytes) (ts : list tcoord) : bool :=
  forallb (fun t => obytes_eqb (served (hash_tile_path t)) (truth (hash_tile_path t))) ts.

Fixpoint nth_all (LH : list Hsh) (idxs : list N) : option (list Hsh) :=
  match idxs with
  | [] => Some []
  | i :: r =>
    match nth_error LH (N.to_nat i), nth_all LH r with
    | Some h, Some hs => Some (h :: hs)
    | _, _ => None
    end
  end.

(* LH: the true leaf hashes of the tree (n, root) *)
Definition ref_reader (served truth : bytes -> option bytes) (LH : list Hsh)
  (n : N) (root : Hsh) (idxs : list N) : option (list Hsh) :=
  if negb ((N.of_nat (length LH) =? n) && heqb (mth Hsh hnode hempty LH) root) then None else
  if negb (forallb (fun i => i <? n) idxs) then None else
  if tiles_intact served truth (reader_tiles n (map (fun i => (0, i)) idxs))
  then nth_all LH idxs else None.

Definition slice_h (lo hi : N) (LH : list Hsh) : list Hsh :=
  firstn (N.to_nat (hi - lo)) (skipn (N.to_nat lo) LH).

(* tlog.leafProof over the true hashes *)
Fixpoint true_proof (fuel : nat) (LH : list Hsh) (lo hi i : N) : list Hsh :=
  match fuel with
  | O => []
  | S f =>
    if lo + 1 =? hi then [] else
    match maxpow2N (hi - lo) with
    | None => []
    | Some k =>
      if i <? lo + k
      then true_proof f LH lo (lo + k) i ++ [mth Hsh hnode hempty (slice_h (lo + k) hi LH)]
      else true_proof f LH (lo + k) hi i ++ [mth Hsh hnode hempty (slice_h lo (lo + k) LH)]
    end
  end.

(* tlog.ProveRecord(n, i, reader): no reader call at all when the proof is empty (n = 1) *)
Definition ref_prover (served truth : bytes -> option bytes) (LH : list Hsh)
  (n : N) (root : Hsh) (i : N) : option (list Hsh) :=
  if n <=? i then None else
  let coords := leaf_proof_index 70 0 n i in
  match coords with
  | [] => Some []
  | _ :: _ =>
    if negb ((N.of_nat (length LH) =? n) && heqb (mth Hsh hnode hempty LH) root) then None else
    if tiles_intact served truth (reader_tiles n coords)
    then Some (true_proof 70 LH 0 n i) else None
  end.

End Reference.
