(* Client/Reader.v — executable transcription of the authenticated hash fetch the client depends on:
     golang.org/x/mod/sumdb/tlog (tile.go):  tileHashReader.ReadHashes, HashFromTile, tileHash,
                                             tileParent, tileForIndex
     golang.org/x/mod/sumdb/tlog (tlog.go):  ProveRecord = leafProofIndex + ReadHashes + leafProof,
                                             subTreeIndex, subTreeHash
   for tile height 8. Definitions only. A stored hash is addressed by its coordinate
   (level, k) instead of its StoredHashIndex; a hash tile is the list of its hashes.

   [fixed] selects between the two versions of the loop "Authenticate full tiles against their
   parents" that exist in x/mod:
     fixed = false   for i := len(stx); i < len(tiles); i++                      (x/mod <= v0.37.0,
                     the version /repo's go.mod pins). The tiles needed for the tree hash are
                     de-duplicated, so there are FEWER of them than len(stx) whenever two of the
                     subtree roots of the tree-hash decomposition live in the same tile; the first
                     (popcount(n) - #stx tiles) tiles planned for the requested indexes are then never
                     compared with their parent: their content is used UNAUTHENTICATED.
     fixed = true    for i := stxTileOrder[len(stx)-1] + 1; i < len(tiles); i++  (x/mod v0.41.0)
   Which one the implementation under test behaves like is reported by harness/client ("reader"
   line); the model is run with the same choice and every case of the tamper stream is compared. *)
From SL Require Export Client.Model.
Open Scope N_scope.

Section Reader.
Variable Hsh : Type.
Variable hnode : Hsh -> Hsh -> Hsh.
Variable hempty : Hsh.
Variable heqb : Hsh -> Hsh -> bool.
Variable fixed : bool.
Variable serve : tcoord -> option (list Hsh).     (* the served hash tiles *)

Notation mth := (mth Hsh hnode hempty).

(* x < StoredHashIndex(0, n): the hash is stored before leaf n is *)
Definition coord_in_tree (n : N) (c : hcoord) : bool := (snd c + 1) * 2 ^ fst c <=? n.

(* tileForIndex: level and number of the tile holding the hash (its width comes from the tree) *)
Definition coord_tile (c : hcoord) : nat * N :=
  (N.to_nat (fst c / 8), N.shiftr (N.shiftl (snd c) (fst c mod 8)) 8).

(* the upward walk "until we find one we've requested" followed by the downward pass that plans
   the tiles in between, parents first; every planned tile must be full. None = "bad math". *)
Fixpoint walk_up (fuel : nat) (n : N) (L : nat) (tn : N) (planned : list tcoord) : option (list tcoord) :=
  match clamp_tile L tn n with
  | None => None
  | Some t =>
    if tmem t planned then Some [] else
    match fuel with
    | O => None
    | S f =>
      match walk_up f n (S L) (tn / 256) planned with
      | Some above => if tc_W t =? 256 then Some (above ++ [t]) else None
      | None => None
      end
    end
  end.

Fixpoint plan_stx (n : N) (cs : list hcoord) (tiles : list tcoord) : option (list tcoord) :=
  match cs with
  | [] => Some tiles
  | c :: r =>
    match clamp_tile (fst (coord_tile c)) (snd (coord_tile c)) n with
    | None => None
    | Some t => plan_stx n r (add_tile t tiles)
    end
  end.

Fixpoint plan_idx (n : N) (cs : list hcoord) (tiles : list tcoord) : option (list tcoord) :=
  match cs with
  | [] => Some tiles
  | c :: r =>
    if negb (coord_in_tree n c) then None else         (* "indexes not in tree" *)
    match walk_up 10 n (fst (coord_tile c)) (snd (coord_tile c)) tiles with
    | None => None
    | Some add => plan_idx n r (tiles ++ add)
    end
  end.

(* fetch: every tile must be served with exactly W hashes *)
Fixpoint fetch_tiles (tiles : list tcoord) : option (list (tcoord * list Hsh)) :=
  match tiles with
  | [] => Some []
  | t :: r =>
    match serve t, fetch_tiles r with
    | Some d, Some ds => if N.of_nat (length d) =? tc_W t then Some ((t, d) :: ds) else None
    | _, _ => None
    end
  end.

Fixpoint find_tile (L : nat) (tn : N) (ds : list (tcoord * list Hsh)) : option (tcoord * list Hsh) :=
  match ds with
  | [] => None
  | (t, d) :: r => if (tc_L t =? L)%nat && (tc_N t =? tn) then Some (t, d) else find_tile L tn r
  end.

(* HashFromTile(t, data, StoredHashIndex(level, k)) for the tile of that hash in [ds] *)
Definition hash_from (ds : list (tcoord * list Hsh)) (c : hcoord) : option Hsh :=
  let '(L, tn) := coord_tile c in
  match find_tile L tn ds with
  | None => None
  | Some (t, d) =>
    let l' := fst c mod 8 in
    let n' := snd c - N.shiftr (N.shiftl tn 8) l' in
    let start := N.shiftl n' l' in
    let cnt := 2 ^ l' in
    if tc_W t <? start + cnt then None
    else Some (mth (firstn (N.to_nat cnt) (skipn (N.to_nat start) d)))      (* tileHash *)
  end.

Fixpoint hashes_from (ds : list (tcoord * list Hsh)) (cs : list hcoord) : option (list Hsh) :=
  match cs with
  | [] => Some []
  | c :: r =>
    match hash_from ds c, hashes_from ds r with
    | Some h, Some hs => Some (h :: hs)
    | _, _ => None
    end
  end.

(* th = hashes[last]; for i := len-2 .. 0 { th = NodeHash(hashes[i], th) } *)
Fixpoint fold_right_hash (hs : list Hsh) : option Hsh :=
  match hs with
  | [] => None
  | [h] => Some h
  | h :: r => match fold_right_hash r with Some a => Some (hnode h a) | None => None end
  end.

(* a full tile against the slot of its parent *)
Definition parent_ok (n : N) (ds : list (tcoord * list Hsh)) (td : tcoord * list Hsh) : bool :=
  let '(t, d) := td in
  match hash_from ds (8 * N.of_nat (S (tc_L t)), tc_N t) with
  | Some h => heqb h (mth d)
  | None => false
  end.

Definition read_hashes (n : N) (root : Hsh) (cs : list hcoord) : option (list Hsh) :=
  let stx := sub_tree_index 70 0 n in
  match plan_stx n stx [] with
  | None => None
  | Some stx_tiles =>
    match plan_idx n cs stx_tiles with
    | None => None
    | Some tiles =>
      match fetch_tiles tiles with
      | None => None
      | Some ds =>
        match hashes_from ds stx with
        | None => None
        | Some sh =>
          match fold_right_hash sh with
          | None => None
          | Some th =>
            if negb (heqb th root) then None else           (* "downloaded inconsistent tile" *)
            let first := if fixed then length stx_tiles else length stx in
            if forallb (parent_ok n ds) (skipn first ds)
            then hashes_from ds cs
            else None
          end
        end
      end
    end
  end.

(* ---- tlog.ProveRecord ------------------------------------------------------------------------- *)
(* subTreeHash(lo, hi, hashes): consumes one hash per tree of the decomposition of [lo, hi) *)
Definition sub_tree_hash (lo hi : N) (hs : list Hsh) : option (Hsh * list Hsh) :=
  let k := length (sub_tree_index 70 lo hi) in
  if (length hs <? k)%nat then None else
  match fold_right_hash (firstn k hs) with
  | Some h => Some (h, skipn k hs)
  | None => None
  end.

Fixpoint leaf_proof (fuel : nat) (lo hi i : N) (hs : list Hsh) : option (list Hsh * list Hsh) :=
  match fuel with
  | O => None
  | S f =>
    if lo + 1 =? hi then Some ([], hs) else
    match maxpow2N (hi - lo) with
    | None => None
    | Some k =>
      if i <? lo + k then
        match leaf_proof f lo (lo + k) i hs with
        | None => None
        | Some (p, hs1) =>
          match sub_tree_hash (lo + k) hi hs1 with
          | Some (th, hs2) => Some (p ++ [th], hs2)
          | None => None
          end
        end
      else
        match sub_tree_hash lo (lo + k) hs with
        | None => None
        | Some (th, hs1) =>
          match leaf_proof f (lo + k) hi i hs1 with
          | Some (p, hs2) => Some (p ++ [th], hs2)
          | None => None
          end
        end
    end
  end.

Definition prove_record (n : N) (root : Hsh) (i : N) : option (list Hsh) :=
  if n <=? i then None else
  match leaf_proof_index 70 0 n i with
  | [] => Some []                                   (* no reader call at all *)
  | cs =>
    match read_hashes n root cs with
    | None => None
    | Some hs =>
      match leaf_proof 70 0 n i hs with
      | Some (p, []) => Some p
      | _ => None
      end
    end
  end.

End Reader.

(* the adversary that serves data tiles AND hash tiles, read through the transcription above *)
Definition reader_adv (Hsh : Type) (hnode : Hsh -> Hsh -> Hsh) (hempty : Hsh) (heqb : Hsh -> Hsh -> bool)
  (fixed : bool) (data : nat -> N -> N -> option bytes) (htiles : nat -> tcoord -> option (list Hsh))
  : adversary Hsh :=
  mkAdv Hsh data
    (fun r n root idxs => read_hashes Hsh hnode hempty heqb fixed (htiles r) n root (map (fun i => (0, i)) idxs))
    (fun n root i => prove_record Hsh hnode hempty heqb fixed (htiles O) n root i).
