(* Client/Closed.v — the C12 theorems closed with the free term algebra [ih] of Merkle/Sound.v
   (for which hash injectivity is a theorem), the proof that the reference reader used to RUN the
   model satisfies the verifying-reader specification, and non-vacuity examples. *)
From SL Require Import Base.Bytes Base.BytesProofs Codec.Leaf Codec.LeafProofs
  Merkle.Tiles Merkle.Proofs Merkle.Sound Client.Model Client.Proofs Client.Fuel.
From Coq Require Import ZifyN ZifyNat ZifyBool Lia.
Open Scope N_scope.

(* ---- an injective leaf hash into the free algebra: bytes -> N, then ILeaf ----------------------- *)
Fixpoint enc_bytes (b : bytes) : N :=
  match b with
  | [] => 1
  | x :: r => Byte.to_N x + 256 * enc_bytes r
  end.

Lemma enc_bytes_pos b : 1 <= enc_bytes b.
Proof. induction b as [|x r IH]; cbn [enc_bytes]; lia. Qed.

Lemma to_N_inj (a b : byte) : Byte.to_N a = Byte.to_N b -> a = b.
Proof. intro H. rewrite <- (byte_of_N_to_N a), <- (byte_of_N_to_N b). now rewrite H. Qed.

Lemma enc_bytes_inj : forall a b, enc_bytes a = enc_bytes b -> a = b.
Proof.
  induction a as [|x a IH]; intros [|y b] H; cbn [enc_bytes] in H.
  - reflexivity.
  - pose proof (enc_bytes_pos b). pose proof (to_N_lt y). lia.
  - pose proof (enc_bytes_pos a). pose proof (to_N_lt x). lia.
  - pose proof (to_N_lt x). pose proof (to_N_lt y).
    assert (Byte.to_N x = Byte.to_N y /\ enc_bytes a = enc_bytes b) as [E1 E2] by lia.
    f_equal; [now apply to_N_inj|now apply IH].
Qed.

Definition ileaf (b : bytes) : ih := ILeaf (enc_bytes b).

Lemma ileaf_inj : forall a b, ileaf a = ileaf b -> a = b.
Proof. intros a b H. unfold ileaf in H. inversion H. now apply enc_bytes_inj. Qed.

(* ---- the closed instance ------------------------------------------------------------------------ *)
(* the lemmas of Client/Proofs.v are generalised over every Section variable; the ones a lemma does
   not use are instantiated with these dummies *)
Definition dsha : bytes -> bytes := fun b => b.
Definition dspki : N -> bytes := fun _ => [].
Definition dkeyhash : bytes -> N -> N := fun _ k => k.

Definition iadversary := adversary ih.
Definition icommits : N -> ih -> list leaf -> Prop := commits ih INode IEmpty ileaf.
Definition iverifying : iadversary -> Prop := verifying ih INode IEmpty.
Definition ientries := entries ih ih_eqb ileaf.
Definition iall_entries := all_entries ih ih_eqb ileaf.
Definition ientry := entry ih INode ih_eqb ileaf.

Theorem c12_entries : forall (adv : iadversary) allow n root L start ys r i e,
  icommits n root L -> iverifying adv ->
  ientries adv allow n root start = (ys, r) -> In (i, e) ys ->
  i < n /\ exists l, nth_error L (N.to_nat i) = Some l /\ covered e = covered l.
Proof.
  intros adv allow n root L start ys r i e C V H I.
  pose proof (entries_authentic ih INode IEmpty ih_eqb ileaf dsha dspki dkeyhash ih_eqb_eq INode_inj ileaf_inj
                n root L adv allow start ys r C V H) as F.
  rewrite Forall_forall in F.
  exact (good_spec ih INode IEmpty ih_eqb ileaf dsha dspki dkeyhash ih_eqb_eq INode_inj ileaf_inj n root L i e C (F _ I)).
Qed.

Theorem c12_all_entries : forall (adv : iadversary) allow n root L start ys r i e,
  icommits n root L -> iverifying adv ->
  iall_entries adv allow n root start = (ys, r) -> In (i, e) ys ->
  i < n /\ exists l, nth_error L (N.to_nat i) = Some l /\ covered e = covered l.
Proof.
  intros adv allow n root L start ys r i e C V H I.
  pose proof (all_entries_authentic ih INode IEmpty ih_eqb ileaf dsha dspki dkeyhash ih_eqb_eq INode_inj ileaf_inj
                n root L adv allow start ys r C V H) as F.
  rewrite Forall_forall in F.
  exact (good_spec ih INode IEmpty ih_eqb ileaf dsha dspki dkeyhash ih_eqb_eq INode_inj ileaf_inj n root L i e C (F _ I)).
Qed.

Theorem c12_entries_total : forall (adv : iadversary) allow n root start,
  snd (ientries adv allow n root start) <> Some EFuel /\
  snd (iall_entries adv allow n root start) <> Some EFuel.
Proof.
  intros. split; [apply entries_fuel_enough|apply all_entries_fuel_enough].
Qed.

(* Entry: NO assumption on the adversary at all (the record proof is checked by CheckRecord) *)
Theorem c12_entry : forall (adv : iadversary) allow n root L index le p,
  icommits n root L ->
  ientry adv allow n root index = Good (le, p) ->
  (0 <= index < Z.of_N n)%Z /\
  icheck_record p n root (Z.to_N index) (ileaf (mtl le)) = Ok /\
  (l_arch le = false -> l_idx le = index) /\
  exists l, nth_error L (Z.to_nat index) = Some l /\ covered le = covered l /\
            merkle_tree_leaf le = merkle_tree_leaf l.
Proof.
  intros. eapply (entry_authentic ih INode IEmpty ih_eqb ileaf dsha dspki dkeyhash ih_eqb_eq INode_inj ileaf_inj); eauto.
Qed.

Theorem c12_inclusion : forall (sha : bytes -> bytes) (spki : N -> bytes)
  (adv : iadversary) allow pk n root L s le p,
  icommits n root L ->
  check_inclusion ih INode ih_eqb ileaf sha spki adv allow pk n root s = Good (le, p) ->
  exists c idx l g,
    s = Some c /\ sct_version c = 0 /\
    sct_logid c = sha (spki pk) /\
    parse_extensions (sct_ext c) = Some idx /\ (0 <= idx < Z.of_N n)%Z /\
    nth_error L (Z.to_nat idx) = Some l /\ covered le = covered l /\
    (l_arch l = false -> l_idx l = idx) /\
    l_ts l = to_int64 (sct_ts c) /\
    sct_sig c = Some g /\ sg_key g = pk /\ sg_hashalg g = sct_hashalg c /\ sg_msg g = mtl l /\
    sct_sigalg c = 3 /\ 1 <= sct_hashalg c <= 6.
Proof.
  intros. eapply (inclusion_authentic ih INode IEmpty ih_eqb ileaf sha spki dkeyhash
                    ih_eqb_eq INode_inj ileaf_inj); eauto.
Qed.

Theorem c12_checkpoint : forall (keyhash : bytes -> N -> N) pk served c sigs,
  checkpoint ih ih_eqb keyhash pk served = Good (c, sigs) ->
  exists nt, served = Some nt /\ nt_text ih nt = Some c /\
    ck_origin ih c = nt_name ih nt /\ ck_ext ih c = [] /\ sigs <> [] /\
    Forall (fun s => In s (nt_sigs ih nt) /\ signed_by ih pk c s) sigs.
Proof. intros. eapply (checkpoint_signed ih INode ih_eqb ileaf dsha dspki keyhash ih_eqb_eq INode_inj ileaf_inj); eauto. Qed.

(* ---- the reference reader of Model.v satisfies the specification ---------------------------------- *)
Section Ref.
Variable Hsh : Type.
Variable hnode : Hsh -> Hsh -> Hsh.
Variable hempty : Hsh.
Variable heqb : Hsh -> Hsh -> bool.
Hypothesis heqb_eq : forall a b, heqb a b = true <-> a = b.

Lemma nth_all_spec LH : forall idxs hs, nth_all Hsh LH idxs = Some hs ->
  Forall2 (fun i h => nth_error LH (N.to_nat i) = Some h) idxs hs.
Proof.
  induction idxs as [|i r IH]; intros hs H; cbn [nth_all] in H.
  - inversion H. constructor.
  - destruct (nth_error LH (N.to_nat i)) as [h|] eqn:E; [|discriminate].
    destruct (nth_all Hsh LH r) as [hs'|]; [|discriminate].
    inversion H; subst. constructor; auto.
Qed.

Lemma Forall2_imp {A B} (P Q : A -> B -> Prop) l1 l2 :
  (forall a b, P a b -> Q a b) -> Forall2 P l1 l2 -> Forall2 Q l1 l2.
Proof. intros I F. induction F; constructor; auto. Qed.

Lemma ref_reader_verifying served truth LH d p :
  verifying Hsh hnode hempty
    (mkAdv Hsh d (fun _ => ref_reader Hsh hnode hempty heqb served truth LH) p).
Proof.
  intros r n root idxs hs H. cbn [adv_hashes] in H. unfold ref_reader in H.
  destruct ((N.of_nat (length LH) =? n) && heqb (mth Hsh hnode hempty LH) root) eqn:G;
    cbn [negb] in H; [|discriminate].
  apply andb_true_iff in G. destruct G as [G1 G2]. apply heqb_eq in G2.
  destruct (negb (forallb (fun i => i <? n) idxs)); [discriminate|].
  destruct (tiles_intact served truth (reader_tiles n (map (fun i => (0, i)) idxs))); [|discriminate].
  apply nth_all_spec in H. eapply Forall2_imp; [|exact H].
  intros i h E. exists LH. repeat split; try assumption. lia.
Qed.
End Ref.

(* ---- non-vacuity ------------------------------------------------------------------------------------ *)
Open Scope byte_scope.
Definition l0 : leaf := mkLeaf [x30; x01] false (zeros 32) [repeat x01 32] [] 0 false 1000.
Definition l1 : leaf := mkLeaf [x30; x02] true (repeat x07 32) [] [xaa; xbb] 1 false 1001.
Definition l2 : leaf := mkLeaf [x30; x03] false (zeros 32) [] [] 2 false 1002.
(* l1 with a different certificate (covered) / a different PreCertificate and chain (NOT covered) *)
Definition l1_cov : leaf := mkLeaf [x30; x99] true (repeat x07 32) [] [xaa; xbb] 1 false 1001.
Definition l1_unc : leaf := mkLeaf [x30; x02] true (repeat x07 32) [repeat x05 32] [xaa; xcc] 1 false 1001.
Close Scope byte_scope.

Definition exL : list leaf := [l0; l1; l2].
Definition exLH : list ih := leaf_hashes ih ileaf exL.
Definition exRoot : ih := imth exLH.

Fixpoint enc_tile (t : bytes) (ls : list leaf) : bytes :=
  match ls with
  | [] => t
  | l :: r => match append_tile_leaf t l with Some t' => enc_tile t' r | None => t end
  end.

Definition const_store : bytes -> option bytes := fun _ => Some [].

(* serves [ls] as data tile 0 (width 3); the hash reader and the prover are the reference ones *)
Definition ex_adv (ls : list leaf) : iadversary :=
  mkAdv ih (fun _ tn tw => if (tn =? 0) && (tw =? 3) then Some (enc_tile [] ls) else None)
        (fun _ => ref_reader ih INode IEmpty ih_eqb const_store const_store exLH)
        (ref_prover ih INode IEmpty ih_eqb const_store const_store exLH).

Example ex_commits : icommits 3 exRoot exL.
Proof.
  split; [reflexivity|]. split; [reflexivity|].
  repeat constructor; vm_compute; reflexivity.
Qed.

Example ex_verifying : forall ls, iverifying (ex_adv ls).
Proof. intro ls. apply ref_reader_verifying. exact ih_eqb_eq. Qed.

(* an honest server: every entry is yielded, by both iterators and from every start *)
Example ex_honest :
  iall_entries (ex_adv exL) false 3 exRoot 0 = ([(0, l0); (1, l1); (2, l2)], None) /\
  ientries (ex_adv exL) false 3 exRoot 1 = ([(1, l1); (2, l2)], None) /\
  ientries (ex_adv exL) false 3 exRoot 3 = ([], None).
Proof. vm_compute. repeat split; reflexivity. Qed.

(* a covered field changed in the served tile: the entry before it is yielded, then the hash
   mismatch stops the iterator *)
Example ex_tamper_covered :
  iall_entries (ex_adv [l0; l1_cov; l2]) false 3 exRoot 0 = ([(0, l0)], Some EMismatch).
Proof. vm_compute. reflexivity. Qed.

(* the documented limit of the Merkle leaf: PreCertificate and ChainFingerprints are not covered;
   an entry whose uncovered fields were replaced IS yielded (and satisfies the theorem, which
   speaks about [covered] only) *)
Example ex_tamper_uncovered :
  iall_entries (ex_adv [l0; l1_unc; l2]) false 3 exRoot 0 = ([(0, l0); (1, l1_unc); (2, l2)], None) /\
  covered l1_unc = covered l1 /\ l1_unc <> l1.
Proof. split; [vm_compute; reflexivity|]. split; [reflexivity|discriminate]. Qed.

(* two leaves reordered, a truncated tile, a tile with an extra leaf *)
Example ex_tamper_shape :
  iall_entries (ex_adv [l1; l0; l2]) false 3 exRoot 0 = ([], Some EMismatch) /\
  iall_entries (ex_adv [l0; l1]) false 3 exRoot 0 = ([(0, l0); (1, l1)], Some EEof) /\
  iall_entries (ex_adv [l0; l1; l2; l2]) false 3 exRoot 0 = ([(0, l0); (1, l1); (2, l2)], Some ELeftover).
Proof. vm_compute. repeat split; reflexivity. Qed.

Example ex_entry :
  exists p, ientry (ex_adv exL) false 3 exRoot 1 = Good (l1, p) /\
            ientry (ex_adv [l0; l1_cov; l2]) false 3 exRoot 1 = Bad ECheck /\
            ientry (ex_adv [l1; l0; l2]) false 3 exRoot 1 = Bad ECheck /\
            ientry (ex_adv exL) false 3 exRoot 3 = Bad ERange.
Proof. eexists. vm_compute. repeat split; reflexivity. Qed.

(* CheckInclusion: key 7 is the configured key; log ID = sha (spki 7) with toy sha / spki *)
Definition ex_sha (b : bytes) : bytes := rev b.
Definition ex_spki (k : N) : bytes := be 2 k.
Definition ex_ext (i : Z) : bytes := match marshal_extensions i with Some b => b | None => [] end.
Definition ex_sct (key : N) (ts : N) (idx : Z) (signer : N) (msg : bytes) : sct :=
  mkSct 0 (ex_sha (ex_spki key)) ts (ex_ext idx) 4 3 (Some (mkSig signer 4 msg)).
Definition ex_incl (s : sct) :=
  check_inclusion ih INode ih_eqb ileaf ex_sha ex_spki (ex_adv exL) false 7 3 exRoot (Some s).

Example ex_inclusion :
  (exists p, ex_incl (ex_sct 7 1001 1 7 (mtl l1)) = Good (l1, p)) /\
  ex_incl (ex_sct 8 1001 1 7 (mtl l1)) = Bad ELogID /\         (* SCT of another log *)
  ex_incl (ex_sct 7 1002 1 7 (mtl l1)) = Bad ETimestamp /\     (* wrong timestamp *)
  ex_incl (ex_sct 7 1001 2 7 (mtl l1)) = Bad ETimestamp /\     (* wrong leaf index: entry 2 has another timestamp *)
  ex_incl (ex_sct 7 1001 1 8 (mtl l1)) = Bad ESig /\           (* signed by another key *)
  ex_incl (ex_sct 7 1001 1 7 (mtl l1_cov)) = Bad ESig /\       (* signature over another leaf *)
  ex_incl (ex_sct 7 1001 5 7 (mtl l1)) = Bad ERange.
Proof. split; [eexists|]; vm_compute; repeat split; reflexivity. Qed.

(* Checkpoint *)
Definition ex_name : bytes := s2b "example.com/log".
Definition ex_keyhash (name : bytes) (k : N) : N := blen name + k.
Definition ex_text : cktext ih := mkCkText ih ex_name 3 exRoot [].
Definition ex_line (name : bytes) (hash signer : N) : sigline ih :=
  mkSigLine ih name hash (Some (mkBlob ih 5 4 3 (Some (mkSthSig ih signer 3 5 exRoot)))).
Definition ex_note (sigs : list (sigline ih)) : snote ih :=
  mkNote ih true ex_name true (Some ex_text) sigs.
Definition ex_ckpt (sigs : list (sigline ih)) := checkpoint ih ih_eqb ex_keyhash 7 (Some (ex_note sigs)).

Example ex_checkpoint :
  ex_ckpt [ex_line ex_name (ex_keyhash ex_name 7) 7] =
    Good (ex_text, [ex_line ex_name (ex_keyhash ex_name 7) 7]) /\
  (* an additional cosignature by an unknown key is ignored *)
  ex_ckpt [ex_line (s2b "witness") 99 9; ex_line ex_name (ex_keyhash ex_name 7) 7] =
    Good (ex_text, [ex_line ex_name (ex_keyhash ex_name 7) 7]) /\
  (* signed by a foreign key only (its own key hash): no verified signature *)
  ex_ckpt [ex_line ex_name (ex_keyhash ex_name 8) 8] = Bad ECkUnverified /\
  (* forged: claims the configured key hash but is not a signature by that key *)
  ex_ckpt [ex_line ex_name (ex_keyhash ex_name 7) 8] = Bad ECkInvalidSig /\
  checkpoint ih ih_eqb ex_keyhash 7 None = Bad EFetch.
Proof. vm_compute. repeat split; reflexivity. Qed.

(* ---- the tile hash reader PINNED by /repo's go.mod does NOT meet the specification ------------------ *)
(* Client/Reader.v with fixed = false is the loop of golang.org/x/mod <= v0.37.0. Witness: a tree of
   259 = 256 + 2 + 1 leaves. The tree-hash decomposition has three subtree roots but only two tiles
   (tile/1/000.p/1 and tile/0/001.p/3), so the first tile planned for the requested indexes, the full
   tile/0/000, is never compared with its parent. The server replaces leaf 5 in data tile 000 and
   writes the forged leaf's hash into slot 5 of tile/0/000: the iterator yields the forged entry. *)
From SL Require Import Client.Reader.

Definition wleaf (i : N) : leaf :=
  mkLeaf [byte_of_N i] false (zeros 32) [] [] (Z.of_N i) false 1700000000000.
Definition wL : list leaf := map (fun j => wleaf (N.of_nat j)) (seq 0 259).
Definition wLH : list ih := leaf_hashes ih ileaf wL.
Definition wroot : ih := imth wLH.
Definition wforged : leaf :=
  mkLeaf (s2b "forged certificate") false (zeros 32) [] [] 5 false 1700000000000.

Fixpoint set_nth {A : Type} (k : nat) (x : A) (l : list A) : list A :=
  match l, k with
  | [], _ => []
  | _ :: r, O => x :: r
  | y :: r, S k' => y :: set_nth k' x r
  end.

Definition wdata (forge : bool) : nat -> N -> N -> option bytes :=
  fun _ tn tw =>
    if (tn =? 0) && (tw =? 256)
    then Some (enc_tile [] (firstn 256 (if forge then set_nth 5 wforged wL else wL)))
    else if (tn =? 1) && (tw =? 3) then Some (enc_tile [] (skipn 256 wL))
    else None.

Definition whtiles (forge : bool) : nat -> tcoord -> option (list ih) :=
  fun _ t =>
    if tcoord_eqb t (mkT 0 0 256)
    then Some (firstn 256 (if forge then set_nth 5 (ileaf (mtl wforged)) wLH else wLH))
    else if tcoord_eqb t (mkT 0 1 3) then Some (skipn 256 wLH)
    else if tcoord_eqb t (mkT 1 0 1) then Some [imth (firstn 256 wLH)]
    else None.

Definition wadv (fixed forge : bool) : iadversary :=
  reader_adv ih INode IEmpty ih_eqb fixed (wdata forge) (whtiles forge).

Lemma w_commits : icommits 259 wroot wL.
Proof.
  split; [reflexivity|]. split; [reflexivity|].
  apply Forall_forall. apply forallb_forall. vm_compute. reflexivity.
Qed.

(* both versions serve the honest log completely *)
Example w_honest :
  length (fst (ientries (wadv false false) false 259 wroot 0)) = 256%nat /\
  snd (ientries (wadv false false) false 259 wroot 0) = None /\
  length (fst (iall_entries (wadv true false) false 259 wroot 0)) = 259%nat /\
  snd (iall_entries (wadv true false) false 259 wroot 0) = None.
Proof. vm_compute. repeat split; reflexivity. Qed.

Lemma w_forged_yielded :
  nth_error (fst (ientries (wadv false true) false 259 wroot 0)) 5 = Some (5, wforged) /\
  snd (ientries (wadv false true) false 259 wroot 0) = None.
Proof. vm_compute. split; reflexivity. Qed.

(* the corrected loop (x/mod v0.41.0) rejects the same server *)
Example w_fixed_rejects :
  ientries (wadv true true) false 259 wroot 0 = ([], Some EHashes).
Proof. vm_compute. reflexivity. Qed.

(* C12 is FALSE of the client running on the pinned reader: an entry is yielded whose covered fields
   differ from the committed leaf's *)
Theorem c12_entries_refuted_with_pinned_reader :
  exists (data : nat -> N -> N -> option bytes) (htiles : nat -> tcoord -> option (list ih))
         (n : N) (root : ih) (L : list leaf) (i : N) (e : leaf),
    icommits n root L /\
    In (i, e) (fst (ientries (reader_adv ih INode IEmpty ih_eqb false data htiles) false n root 0)) /\
    exists l, nth_error L (N.to_nat i) = Some l /\ covered e <> covered l.
Proof.
  exists (wdata true), (whtiles true), 259, wroot, wL, 5, wforged.
  split; [exact w_commits|]. split.
  - eapply nth_error_In. exact (proj1 w_forged_yielded).
  - exists (wleaf 5). split; [reflexivity|]. vm_compute. discriminate.
Qed.

(* hence that reader does not satisfy the specification the positive theorems assume *)
Theorem pinned_reader_not_verifying : ~ iverifying (wadv false true).
Proof.
  intro V.
  destruct (ientries (wadv false true) false 259 wroot 0) as [ys r] eqn:E.
  assert (I : In (5, wforged) ys).
  { pose proof (proj1 w_forged_yielded) as H. rewrite E in H. eapply nth_error_In. exact H. }
  destruct (c12_entries (wadv false true) false 259 wroot wL 0 ys r 5 wforged w_commits V E I)
    as (_ & l & Hl & Hc).
  change (nth_error wL (N.to_nat 5)) with (Some (wleaf 5)) in Hl. inversion Hl; subst l.
  vm_compute in Hc. discriminate.
Qed.
