(* Client/Fuel.v — totalisation artefacts of Client/Model.v are dead code:
   the batch loop of the entry iterators never runs out of the fuel Model.entries_fuel gives it
   (every batch that does not end the iteration moves the aligned start forward by 50 tiles). *)
From SL Require Import Base.Bytes Codec.Leaf Merkle.Tiles Merkle.Proofs Client.Model.
From Coq Require Import ZifyN ZifyNat ZifyBool Lia.
Ltac Zify.zify_post_hook ::= Z.to_euclidean_division_equations.
Open Scope N_scope.

Section Fuel.
Variable Hsh : Type.
Variable heqb : Hsh -> Hsh -> bool.
Variable leaf_hash : bytes -> Hsh.

Notation cut_entry := (cut_entry Hsh leaf_hash).
Notation scan_tile := (scan_tile Hsh heqb leaf_hash).
Notation scan_tiles := (scan_tiles Hsh heqb leaf_hash).
Notation batch := (batch Hsh heqb leaf_hash).
Notation entries_loop := (entries_loop Hsh heqb leaf_hash).
Notation entries := (entries Hsh heqb leaf_hash).
Notation all_entries := (all_entries Hsh heqb leaf_hash).

Lemma scan_tile_no_fuel allow start : forall hs i data ys,
  scan_tile allow start i hs data <> (ys, Some EFuel).
Proof.
  induction hs as [|h hs IH]; intros i data ys H.
  - cbn in H. destruct data; inversion H.
  - cbn [Model.scan_tile] in H. destruct data as [|d0 data']; [inversion H|].
    destruct (cut_entry (d0 :: data')) as [[[eb rh] rest]|e] eqn:Hc.
    + destruct (heqb rh h); cbn [negb] in H; [|inversion H].
      destruct (Z.of_N i <? start)%Z; [eapply IH; eauto|].
      unfold parse_entry in H.
      destruct (if allow then read_tile_leaf_maybe_archival eb else read_tile_leaf eb) as [[le [|? ?]]|];
        try (inversion H; fail).
      destruct (scan_tile allow start (i + 1) hs rest) as [ys' r'] eqn:Hs.
      inversion H; subst. eapply IH; eauto.
    + inversion H; subst. unfold Model.cut_entry in Hc.
      destruct (read_tile_leaf_maybe_archival (d0 :: data')) as [[? ?]|]; [|discriminate].
      destruct (merkle_tree_leaf l); discriminate.
Qed.

Lemma scan_tiles_no_fuel allow : forall tiles start datas hs ys s',
  scan_tiles allow start tiles datas hs <> (ys, Some EFuel, s').
Proof.
  induction tiles as [|[tn tw] ts IH]; intros start datas hs ys s' H.
  - cbn in H. inversion H.
  - cbn [Model.scan_tiles] in H. destruct datas as [|d ds]; [inversion H|].
    destruct (scan_tile allow start (tn * 256) (firstn (N.to_nat tw) hs) d) as [ys1 r1] eqn:H1.
    destruct r1 as [e|].
    + inversion H; subst. eapply scan_tile_no_fuel; eauto.
    + destruct (scan_tiles allow (Z.of_N (tn * 256 + tw)) ts ds (skipn (N.to_nat tw) hs))
        as [[ys2 r2] s2] eqn:H2.
      inversion H; subst. eapply IH; eauto.
Qed.

(* where the tile loop leaves [start] when it completes without error *)
Fixpoint tiles_end (tiles : list (N * N)) (s : Z) : Z :=
  match tiles with
  | [] => s
  | (tn, tw) :: ts => tiles_end ts (Z.of_N (tn * 256 + tw))
  end.

Lemma scan_tiles_end allow : forall tiles start datas hs ys s',
  scan_tiles allow start tiles datas hs = (ys, None, s') -> s' = tiles_end tiles start.
Proof.
  induction tiles as [|[tn tw] ts IH]; intros start datas hs ys s' H.
  - cbn in H. inversion H. reflexivity.
  - cbn [Model.scan_tiles] in H. destruct datas as [|d ds]; [inversion H|].
    destruct (scan_tile allow start (tn * 256) (firstn (N.to_nat tw) hs) d) as [ys1 r1] eqn:H1.
    destruct r1 as [e|]; [inversion H|].
    destruct (scan_tiles allow (Z.of_N (tn * 256 + tw)) ts ds (skipn (N.to_nat tw) hs))
      as [[ys2 r2] s2] eqn:H2.
    inversion H; subst. cbn [tiles_end]. eapply IH; eauto.
Qed.

Lemma gen_tiles_end top : forall k ts s, ts mod 256 = 0 -> ts < top -> (0 < k)%nat ->
  tiles_end (gen_tiles k ts top) s = Z.of_N (N.min (ts + 256 * N.of_nat k) top).
Proof.
  induction k as [|k IH]; intros ts s Ha Hlt Hk; [lia|].
  cbn [gen_tiles]. destruct (top <=? ts) eqn:E; [lia|]. cbn [tiles_end].
  destruct k as [|k'].
  - cbn [gen_tiles tiles_end]. f_equal. lia.
  - destruct (top <=? ts + 256) eqn:E2.
    + cbn [gen_tiles]. rewrite E2. cbn [tiles_end]. f_equal. lia.
    + rewrite IH by lia. f_equal. lia.
Qed.

Lemma batch_no_fuel adv allow n root round start ys :
  batch adv allow n root round start <> BDone ys (Some EFuel).
Proof.
  unfold Model.batch. intro H.
  destruct (Z.quot start 256 * 256 <? 0)%Z; [discriminate|].
  set (base := Z.to_N (Z.quot start 256 * 256)) in *.
  set (top := if n / 256 * 256 =? base then n else n / 256 * 256) in *.
  destruct (gen_tiles 50 base top) as [|t0 ts] eqn:G; [discriminate|].
  destruct (fetch_all (adv_data Hsh adv round) (t0 :: ts)) as [datas|]; [|discriminate].
  destruct (adv_hashes Hsh adv round n root (tile_indexes (t0 :: ts))) as [hs|]; [|discriminate].
  destruct (negb (length hs =? length (tile_indexes (t0 :: ts)))%nat); [discriminate|].
  destruct (scan_tiles allow start (t0 :: ts) datas hs) as [[ys' r] s'] eqn:S.
  destruct r as [e|].
  - inversion H; subst. eapply scan_tiles_no_fuel; eauto.
  - destruct (s' =? Z.of_N top)%Z; discriminate.
Qed.

(* a batch that asks for another round has consumed exactly 50 full tiles and is not at the end *)
Lemma batch_more adv allow n root round start ys s1 :
  batch adv allow n root round start = BMore ys s1 ->
  (0 <= Z.quot start 256 * 256)%Z /\
  s1 = Z.to_N (Z.quot start 256 * 256) + 12800 /\ s1 < n.
Proof.
  unfold Model.batch. intro H.
  destruct (Z.quot start 256 * 256 <? 0)%Z eqn:Hneg; [discriminate|].
  set (base := Z.to_N (Z.quot start 256 * 256)) in *.
  set (top := if n / 256 * 256 =? base then n else n / 256 * 256) in *.
  destruct (gen_tiles 50 base top) as [|t0 ts] eqn:G; [discriminate|].
  destruct (fetch_all (adv_data Hsh adv round) (t0 :: ts)) as [datas|]; [|discriminate].
  destruct (adv_hashes Hsh adv round n root (tile_indexes (t0 :: ts))) as [hs|]; [|discriminate].
  destruct (negb (length hs =? length (tile_indexes (t0 :: ts)))%nat); [discriminate|].
  destruct (scan_tiles allow start (t0 :: ts) datas hs) as [[ys' r] s'] eqn:S.
  destruct r as [e|]; [discriminate|].
  destruct (s' =? Z.of_N top)%Z eqn:Ht; [discriminate|].
  inversion H; subst ys' s1. clear H.
  apply scan_tiles_end in S. rewrite <- G in S.
  assert (Hb : base mod 256 = 0) by (unfold base; lia).
  assert (Hlt : base < top).
  { destruct (top <=? base) eqn:E; [|lia]. cbn [gen_tiles] in G. rewrite E in G. discriminate. }
  rewrite (gen_tiles_end top 50 base start Hb Hlt) in S by lia.
  assert (Htop : top <= n) by (unfold top; destruct (n / 256 * 256 =? base); lia).
  split; [lia|]. subst s'. change (N.of_nat 50) with 50 in *. lia.
Qed.

Lemma entries_loop_fuel adv allow n root : forall fuel round start,
  (N.to_nat ((n - Z.to_N (Z.quot start 256 * 256)) / 12800) < fuel)%nat ->
  snd (entries_loop fuel adv allow n root round start) <> Some EFuel.
Proof.
  induction fuel as [|f IH]; intros round start Hm; [lia|].
  cbn [Model.entries_loop].
  destruct (batch adv allow n root round start) as [ys r|ys s1] eqn:B.
  - cbn [snd]. intro E. subst r. eapply batch_no_fuel; eauto.
  - destruct (batch_more _ _ _ _ _ _ _ _ B) as (H0 & Hs & Hn).
    specialize (IH (S round) (Z.of_N s1)).
    destruct (entries_loop f adv allow n root (S round) (Z.of_N s1)) as [ys2 r2]. cbn [snd] in *.
    apply IH. clear IH.
    assert (Hal : Z.to_N (Z.quot (Z.of_N s1) 256 * 256) = s1) by lia.
    rewrite Hal. lia.
Qed.

Theorem entries_fuel_enough adv allow n root start :
  snd (entries adv allow n root start) <> Some EFuel.
Proof. unfold Model.entries, entries_fuel. apply entries_loop_fuel. lia. Qed.

Theorem all_entries_fuel_enough adv allow n root start :
  snd (all_entries adv allow n root start) <> Some EFuel.
Proof.
  unfold Model.all_entries.
  pose proof (entries_fuel_enough adv allow n root start) as H1.
  destruct (entries adv allow n root start) as [ys r]. cbn [snd] in H1.
  destruct r as [e|]; [cbn [snd]; exact H1|].
  destruct (last_index ys start <? Z.of_N n)%Z; [|cbn; discriminate].
  pose proof (entries_fuel_enough (shift_adv Hsh (entries_fuel n) adv) allow n root
                (last_index ys start)) as H2.
  destruct (entries (shift_adv Hsh (entries_fuel n) adv) allow n root (last_index ys start)) as [ys2 r2].
  exact H2.
Qed.

End Fuel.
