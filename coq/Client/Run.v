(* Client/Run.v — the client model instantiated with real bytes for RUNNING it next to the
   implementation (extracted by Extract/Client.v, driven by ocaml/client.ml). Hashes are [bytes];
   [sha] (SHA-256) is supplied by the driver; leaf hash = sha (0x00 || d), node hash =
   sha (0x01 || l || r) (Merkle.Proofs.sha_node), empty hash = sha "". The stores [serve] (what the
   tampering server answers) and [truth] (the fixture log as the sequencer wrote it) are functions
   from the object path to its bytes. Results are rendered as [bytes] so that vm_compute and
   the extracted code print the same text. Definitions only. *)
From SL Require Export Client.Model Client.Reader.
Open Scope N_scope.

Definition store := bytes -> option bytes.

Section Run.
Variable sha : bytes -> bytes.

Definition sleaf (d : bytes) : bytes := sha (x00 :: d).
Definition snode : bytes -> bytes -> bytes := sha_node sha.
Definition sempty : bytes := sha [].
Definition smth : list bytes -> bytes := mth bytes snode sempty.

(* ---- the fixture: the true leaves of the first n entries, read from the true data tiles ------- *)
Fixpoint tile_leaves (fuel : nat) (data : bytes) : list leaf :=
  match fuel with
  | O => []
  | S f =>
    match data with
    | [] => []
    | _ :: _ =>
      match read_tile_leaf_maybe_archival data with
      | Some (e, rest) => e :: tile_leaves f rest
      | None => []
      end
    end
  end.

Definition true_leaves (truth : store) (n : N) : list leaf :=
  concat (map (fun t => match truth (data_tile_path (fst t) (snd t)) with
                        | Some d => tile_leaves (length d) d
                        | None => []
                        end)
              (gen_tiles (S (N.to_nat (n / 256))) 0 n)).

Definition mleaf (e : leaf) : bytes :=
  match merkle_tree_leaf e with Some m => m | None => [] end.

Definition leaf_hashes_of (ls : list leaf) : list bytes := map (fun e => sleaf (mleaf e)) ls.

(* the root the data tiles of the store give for size n (printed for every tree head: it must be
   the root the real sequencer signed) *)
Definition run_root (truth : store) (n : N) : bytes := hex (smth (leaf_hashes_of (true_leaves truth n))).

(* ---- the adversary: the tampering server, read through the transcribed tile hash reader -------- *)
Fixpoint chunks32 (fuel : nat) (b : bytes) : list bytes :=
  match fuel with
  | O => []
  | S f => match b with [] => [] | _ :: _ => firstn 32 b :: chunks32 f (skipn 32 b) end
  end.

(* a served hash tile as a list of hashes; a wrong length is the reader's "bad result slice" error *)
Definition serve_htile (serve : store) (t : tcoord) : option (list bytes) :=
  match serve (hash_tile_path t) with
  | None => None
  | Some b => if blen b =? tc_W t * 32 then Some (chunks32 (length b) b) else Some []
  end.

Definition run_adv (fixed : bool) (serve : store) : adversary bytes :=
  reader_adv bytes snode sempty bytes_eqb fixed
    (fun _ tn tw => serve (data_tile_path tn tw)) (fun _ => serve_htile serve).

(* ---- rendering ------------------------------------------------------------------------------------ *)
Definition show_eclass (e : eclass) : bytes :=
  match e with
  | EFetch => s2b "fetch" | EHashes => s2b "hashes" | EEof => s2b "eof" | ECut => s2b "cut"
  | EMismatch => s2b "mismatch" | ELeftover => s2b "leftover" | EParse => s2b "parse"
  | ETrailing => s2b "trailing" | ERange => s2b "range" | ENoEntry => s2b "noentry"
  | EProve => s2b "prove" | ECheck => s2b "check" | EIndex => s2b "index"
  | ESctParse => s2b "sctparse" | ESctVersion => s2b "sctversion" | ELogID => s2b "logid"
  | ESctExt => s2b "sctext" | ETimestamp => s2b "timestamp" | ESig => s2b "sig"
  | ECkVerifier => s2b "ckverifier" | ECkMalformed => s2b "ckmalformed"
  | ECkUnverified => s2b "ckunverified" | ECkInvalidSig => s2b "ckinvalidsig"
  | ECkParse => s2b "ckparse" | ECkOrigin => s2b "ckorigin"
  | EUnmodelled => s2b "unmodelled" | EFuel => s2b "FUEL" | EPanic => s2b "PANIC"
  | EInternal => s2b "INTERNAL"
  end.

(* the Merkle-covered part of a yielded pair: index and MerkleTreeLeaf bytes *)
Definition cov_bytes (i : N) (e : leaf) : bytes :=
  be 8 i ++ match merkle_tree_leaf e with
            | Some m => be 4 (blen m) ++ m
            | None => s2b "PANIC"
            end.

(* the part of an entry that the Merkle leaf does not cover *)
Definition unc_bytes (e : leaf) : bytes :=
  be 4 (blen (l_precert e)) ++ l_precert e ++ be 4 (N.of_nat (length (l_fps e))) ++ concat (l_fps e).

Definition digest16 (b : bytes) : bytes := hex (firstn 8 (sha b)).

Definition colon : byte := x3a.

Fixpoint join_colon (l : list bytes) : bytes :=
  match l with
  | [] => []
  | [x] => x
  | x :: r => x ++ colon :: join_colon r
  end.

(* number of yielded entries whose uncovered fields differ from the true leaf at that index *)
Definition unc_diffs (trueL : list leaf) (ys : list (N * leaf)) : N :=
  N.of_nat (length (filter (fun ie =>
    match nth_error trueL (N.to_nat (fst ie)) with
    | Some l => negb (bytes_eqb (unc_bytes (snd ie)) (unc_bytes l))
    | None => true
    end) ys)).

Definition first_idx (ys : list (N * leaf)) : bytes :=
  match ys with [] => [x2d] | (i, _) :: _ => dec i end.
Definition last_idx (ys : list (N * leaf)) : bytes :=
  match rev ys with [] => [x2d] | (i, _) :: _ => dec i end.

(* end:count:first:last:covered-digest:uncovered-digest:uncovered-diffs *)
Definition show_yield (trueL : list leaf) (ys : list (N * leaf)) (r : option eclass) : bytes :=
  join_colon [ match r with None => s2b "ok" | Some e => show_eclass e end;
               dec (N.of_nat (length ys)); first_idx ys; last_idx ys;
               digest16 (concat (map (fun ie => cov_bytes (fst ie) (snd ie)) ys));
               digest16 (concat (map (fun ie => unc_bytes (snd ie)) ys));
               dec (unc_diffs trueL ys) ].

Definition run_entries (fixed : bool) (serve : store) (trueL : list leaf)
  (n : N) (root : bytes) (allow all : bool) (start : Z) : bytes :=
  let adv := run_adv fixed serve in
  let '(ys, r) := if all then all_entries bytes bytes_eqb sleaf adv allow n root start
                  else entries bytes bytes_eqb sleaf adv allow n root start in
  show_yield trueL ys r.

(* ok:covered-digest:uncovered-digest:uncovered-diffs:proof-digest *)
Definition show_entry (trueL : list leaf) (index : Z) (x : res (leaf * list bytes)) : bytes :=
  match x with
  | Bad e => s2b "err:" ++ show_eclass e
  | Good (le, p) =>
    join_colon [ s2b "ok"; digest16 (cov_bytes (Z.to_N index) le); digest16 (unc_bytes le);
                 dec (unc_diffs trueL [(Z.to_N index, le)]); digest16 (concat p) ]
  end.

Definition run_entry (fixed : bool) (serve : store) (trueL : list leaf)
  (n : N) (root : bytes) (allow : bool) (index : Z) : bytes :=
  show_entry trueL index
    (entry bytes snode bytes_eqb sleaf (run_adv fixed serve) allow n root index).

Definition mk_sct (ver : N) (logid : bytes) (ts : N) (ext : bytes) (hashalg sigalg : N)
  (sig : option (N * N * bytes)) : sct :=
  mkSct ver logid ts ext hashalg sigalg
    (match sig with Some (k, h, m) => Some (mkSig k h m) | None => None end).

Definition run_incl (fixed : bool) (spki : N -> bytes) (serve : store) (trueL : list leaf)
  (n : N) (root : bytes) (allow : bool) (pk : N) (s : option sct) : bytes :=
  let x := check_inclusion bytes snode bytes_eqb sleaf sha spki (run_adv fixed serve) allow pk n root s in
  show_entry trueL (match x with Good (le, _) => l_idx le | Bad _ => 0%Z end) x.

(* note key hash of an RFC 6962 verifier: first 4 bytes of SHA-256(name || "\n" || 0x05 || SHA-256(spki)) *)
Definition run_keyhash (spki : N -> bytes) (name : bytes) (pk : N) : N :=
  be_dec (firstn 4 (sha (name ++ x0a :: x05 :: sha (spki pk)))).

Definition run_logid (spki : N -> bytes) (pk : N) : bytes := hex (sha (spki pk)).

Definition mk_sigline (name : bytes) (hash : N) (blob : option (N * N * N * option (N * N * N * bytes)))
  : sigline bytes :=
  mkSigLine bytes name hash
    (match blob with
     | Some (ts, ha, sa, g) =>
       Some (mkBlob bytes ts ha sa
               (match g with Some (k, sz, t, r) => Some (mkSthSig bytes k sz t r) | None => None end))
     | None => None
     end).

Definition mk_note (wf : bool) (name : bytes) (name_valid : bool)
  (text : option (bytes * N * bytes * bytes)) (sigs : list (sigline bytes)) : snote bytes :=
  mkNote bytes wf name name_valid
    (match text with Some (o, sz, r, e) => Some (mkCkText bytes o sz r e) | None => None end) sigs.

(* ok:size:root-digest:number of verified signatures *)
Definition run_ckpt (spki : N -> bytes) (pk : N) (served : option (snote bytes)) : bytes :=
  match checkpoint bytes bytes_eqb (run_keyhash spki) pk served with
  | Bad e => s2b "err:" ++ show_eclass e
  | Good (c, sigs) =>
    join_colon [ s2b "ok"; dec (ck_size bytes c); hex (firstn 8 (ck_root bytes c));
                 dec (N.of_nat (length sigs)) ]
  end.

(* the tiles ReadHashes plans to fetch, in order (ties the fetch plan of Client/Reader.v) *)
Definition plan_paths (n : N) (cs : list hcoord) : list bytes :=
  match plan_stx n (sub_tree_index 70 0 n) [] with
  | None => [s2b "ERROR"]
  | Some st =>
    match plan_idx n cs st with
    | None => [s2b "ERROR"]
    | Some tiles => map hash_tile_path tiles
    end
  end.
Definition run_plan (n lo hi : N) : list bytes :=
  plan_paths n (map (fun j => (0, lo + N.of_nat j)) (seq 0 (N.to_nat (hi - lo)))).
Definition run_plan_proof (n i : N) : list bytes :=
  match leaf_proof_index 70 0 n i with
  | [] => []
  | cs => plan_paths n cs
  end.

(* the same, rendered as the harness prints them (used by the vm_compute cross-check) *)
Definition show_paths (l : list bytes) : bytes :=
  match l with [] => [x2d] | _ :: _ => join_with x2c l end.
Definition run_plan_s (n lo hi : N) : bytes := show_paths (run_plan n lo hi).
Definition run_plan_proof_s (n i : N) : bytes := show_paths (run_plan_proof n i).

End Run.
