(* Client/Proofs.v — the monitoring client never yields unauthenticated log content (C12).
   Section hypotheses: hash injectivity (hnode: tlog.NodeHash, leaf_hash: tlog.RecordHash) and the
   boolean hash equality; closed at the end with the free term algebra [ih] of Merkle/Sound.v. *)
From SL Require Import Base.Bytes Base.BytesProofs Codec.Leaf Codec.LeafProofs
  Merkle.Tiles Merkle.Proofs Merkle.Sound Client.Model.
From Coq Require Import ZifyN ZifyNat ZifyBool Lia.
Ltac Zify.zify_post_hook ::= Z.div_mod_to_equations.
Open Scope N_scope.

(* the MerkleTreeLeaf bytes of a leaf (total: [] where the builder fails, never for wf leaves) *)
Definition mtl (l : leaf) : bytes :=
  match merkle_tree_leaf l with Some b => b | None => [] end.

Lemma wf_mtl l : wf_leaf l = true -> merkle_tree_leaf l = Some (mtl l).
Proof. intro H. unfold mtl. rewrite (c10_merkle_spec l H). reflexivity. Qed.

Section ClientProofs.
Variable Hsh : Type.
Variable hnode : Hsh -> Hsh -> Hsh.
Variable hempty : Hsh.
Variable heqb : Hsh -> Hsh -> bool.
Variable leaf_hash : bytes -> Hsh.
Variable sha : bytes -> bytes.
Variable spki : N -> bytes.
Variable keyhash : bytes -> N -> N.
Hypothesis heqb_eq : forall a b, heqb a b = true <-> a = b.
Hypothesis hnode_inj : forall a b c d, hnode a b = hnode c d -> a = c /\ b = d.
Hypothesis leaf_hash_inj : forall a b, leaf_hash a = leaf_hash b -> a = b.

Notation mth := (mth Hsh hnode hempty).
Notation adversary := (adversary Hsh).
Notation authentic := (authentic Hsh hnode hempty).
Notation verifying := (verifying Hsh hnode hempty).
Notation cut_entry := (cut_entry Hsh leaf_hash).
Notation scan_tile := (scan_tile Hsh heqb leaf_hash).
Notation scan_tiles := (scan_tiles Hsh heqb leaf_hash).
Notation batch := (batch Hsh heqb leaf_hash).
Notation entries_loop := (entries_loop Hsh heqb leaf_hash).
Notation entries := (entries Hsh heqb leaf_hash).
Notation all_entries := (all_entries Hsh heqb leaf_hash).
Notation cut_nth := (cut_nth Hsh leaf_hash).
Notation entry := (entry Hsh hnode heqb leaf_hash).
Notation check_inclusion := (check_inclusion Hsh hnode heqb leaf_hash sha spki).
Notation checkpoint := (checkpoint Hsh heqb keyhash).
Notation open_sigs := (open_sigs Hsh heqb keyhash).
Notation rfc6962_verify := (rfc6962_verify Hsh heqb).

(* the leaf hashes of a leaf list *)
Definition leaf_hashes (L : list leaf) : list Hsh := map (fun l => leaf_hash (mtl l)) L.

(* the tree head (n, root) commits to the leaf list L *)
Definition commits (n : N) (root : Hsh) (L : list leaf) : Prop :=
  N.of_nat (length L) = n /\ root = mth (leaf_hashes L) /\ Forall (fun l => wf_leaf l = true) L.

(* entry e is acceptable at index i: the committed leaf there has the same covered fields *)
Definition good (L : list leaf) (ie : N * leaf) : Prop :=
  exists l, nth_error L (N.to_nat (fst ie)) = Some l /\ covered (snd ie) = covered l.

(* ---- cutEntry ------------------------------------------------------------------------------- *)
Lemma cut_inv data eb rh rest :
  cut_entry data = Good (eb, rh, rest) ->
  exists e, wf_leaf e = true /\ rh = leaf_hash (mtl e) /\ eb = enc_leaf e /\ data = eb ++ rest.
Proof.
  unfold Model.cut_entry, read_tile_leaf_maybe_archival.
  destruct (read_tile_leaf_raw data) as [[e r]|] eqn:R; [|discriminate].
  destruct (merkle_tree_leaf e) as [ml|] eqn:M; [|discriminate].
  destruct (read_inv _ _ _ R) as [W E]. subst data.
  assert (Hl : (length (enc_leaf e ++ r) - length r = length (enc_leaf e))%nat).
  { rewrite app_length. lia. }
  rewrite Hl, firstn_app, Nat.sub_diag, firstn_all. cbn [firstn]. rewrite app_nil_r.
  intro H. inversion H; subst; clear H.
  exists e. split; [now apply wf_leaf_WF|]. split; [unfold mtl; now rewrite M|].
  split; reflexivity.
Qed.

(* MerkleTreeLeaf never fails on a parsed entry: the EPanic branch of cutEntry is dead *)
Lemma cut_no_panic data : cut_entry data <> Bad EPanic.
Proof.
  unfold Model.cut_entry, read_tile_leaf_maybe_archival.
  destruct (read_tile_leaf_raw data) as [[e r]|] eqn:R; [|discriminate].
  destruct (read_inv _ _ _ R) as [W _]. rewrite (merkle_spec e W). discriminate.
Qed.

(* re-parsing the cut bytes gives back the same entry (so the hash that was checked is the hash of
   the entry that is yielded) *)
Lemma parse_cut allow e le :
  wf_leaf e = true -> parse_entry allow (enc_leaf e) = Good le -> le = e.
Proof.
  intros W. apply wf_leaf_WF in W. unfold parse_entry, read_tile_leaf, read_tile_leaf_maybe_archival.
  pose proof (read_enc e [] W) as R. rewrite app_nil_r in R. rewrite R.
  destruct allow.
  - intro H. now inversion H.
  - destruct (l_arch e); [discriminate|]. intro H. now inversion H.
Qed.

(* ---- authenticity ------------------------------------------------------------------------------ *)
Lemma authentic_committed n root L i h :
  commits n root L -> authentic n root i h ->
  exists l, nth_error L (N.to_nat i) = Some l /\ h = leaf_hash (mtl l).
Proof.
  intros (Hn & Hr & _) (LH & Hlen & Hm & Hnth).
  assert (E : LH = leaf_hashes L).
  { apply (mth_inj Hsh hnode hempty hnode_inj).
    - unfold leaf_hashes. rewrite map_length. lia.
    - congruence. }
  subst LH. unfold leaf_hashes in Hnth. rewrite nth_error_map in Hnth.
  destruct (nth_error L (N.to_nat i)) as [l|]; [|discriminate].
  exists l. split; [reflexivity|]. cbn in Hnth. congruence.
Qed.

Lemma same_hash_covered L e l :
  Forall (fun l => wf_leaf l = true) L -> In l L -> wf_leaf e = true ->
  leaf_hash (mtl e) = leaf_hash (mtl l) -> covered e = covered l.
Proof.
  intros F I W H. rewrite Forall_forall in F. specialize (F l I).
  apply leaf_hash_inj in H. apply c10_merkle_inj; try assumption.
  rewrite (wf_mtl e W), (wf_mtl l F). congruence.
Qed.

(* accepted hash comparison against an authentic hash *)
Lemma cut_good n root L data eb rh rest i h allow le :
  commits n root L -> cut_entry data = Good (eb, rh, rest) -> authentic n root i h ->
  heqb rh h = true -> parse_entry allow eb = Good le -> good L (i, le).
Proof.
  intros C Hc Ha Hq Hp.
  destruct (cut_inv _ _ _ _ Hc) as (e & W & Hrh & Heb & _). subst eb.
  apply (parse_cut allow e le W) in Hp. subst le.
  destruct (authentic_committed _ _ _ _ _ C Ha) as (l & Hn & Hh).
  apply heqb_eq in Hq. exists l. split; [exact Hn|]. cbn [snd].
  destruct C as (_ & _ & F). eapply same_hash_covered; eauto.
  - eapply nth_error_In; eauto.
  - congruence.
Qed.

(* ---- one tile ------------------------------------------------------------------------------------ *)
Definition idx_from (b : N) (s k : nat) : list N := map (fun j => b + N.of_nat j) (seq s k).

Lemma scan_tile_good n root L allow start b : commits n root L ->
  forall hs s data ys r,
  Forall2 (authentic n root) (idx_from b s (length hs)) hs ->
  scan_tile allow start (b + N.of_nat s) hs data = (ys, r) ->
  Forall (good L) ys.
Proof.
  intros C. induction hs as [|h hs IH]; intros s data ys r HF H.
  - cbn in H. inversion H. constructor.
  - cbn [Model.scan_tile] in H.
    destruct data as [|d0 data']; [inversion H; constructor|].
    destruct (cut_entry (d0 :: data')) as [[[eb rh] rest]|e] eqn:Hc; [|inversion H; constructor].
    destruct (heqb rh h) eqn:Hq; cbn [negb] in H; [|inversion H; constructor].
    cbn [length idx_from seq map] in HF. inversion HF as [|? ? ? ? Ha HF']; subst.
    replace (b + N.of_nat s + 1) with (b + N.of_nat (S s)) in H by lia.
    destruct (Z.of_N (b + N.of_nat s) <? start)%Z.
    + eapply IH; eauto.
    + destruct (parse_entry allow eb) as [le|e] eqn:Hp; [|inversion H; constructor].
      destruct (scan_tile allow start (b + N.of_nat (S s)) hs rest) as [ys' r'] eqn:Hs.
      inversion H; subst. constructor.
      * eapply cut_good; eauto.
      * eapply IH; eauto.
Qed.

(* ---- the tiles of one batch ---------------------------------------------------------------------- *)
Lemma Forall2_len {A B} (P : A -> B -> Prop) l1 l2 : Forall2 P l1 l2 -> length l1 = length l2.
Proof. induction 1; cbn; congruence. Qed.

Lemma idx_from_0 t : map (fun j => fst t * 256 + N.of_nat j) (seq 0 (N.to_nat (snd t)))
  = idx_from (fst t * 256) 0 (N.to_nat (snd t)).
Proof. reflexivity. Qed.

Lemma scan_tiles_good n root L allow : commits n root L ->
  forall tiles start datas hs ys r s',
  Forall2 (authentic n root) (tile_indexes tiles) hs ->
  scan_tiles allow start tiles datas hs = (ys, r, s') ->
  Forall (good L) ys.
Proof.
  intros C. induction tiles as [|[tn tw] ts IH]; intros start datas hs ys r s' HF H.
  - cbn in H. inversion H. constructor.
  - cbn [Model.scan_tiles] in H. destruct datas as [|d ds]; [inversion H; constructor|].
    unfold tile_indexes in HF. cbn [map concat fst snd] in HF.
    apply Forall2_app_inv_l in HF. destruct HF as (h1 & h2 & F1 & F2 & ->).
    assert (Hl : length h1 = N.to_nat tw).
    { apply Forall2_len in F1. rewrite map_length, seq_length in F1. lia. }
    rewrite firstn_app, Hl, Nat.sub_diag in H. rewrite <- Hl, firstn_all in H. cbn [firstn] in H.
    rewrite app_nil_r in H. rewrite skipn_app, skipn_all, Nat.sub_diag in H. cbn [skipn app] in H.
    destruct (scan_tile allow start (tn * 256) h1 d) as [ys1 r1] eqn:H1.
    assert (G1 : Forall (good L) ys1).
    { eapply (scan_tile_good n root L allow start (tn * 256) C h1 O).
      - unfold idx_from. rewrite Hl. exact F1.
      - rewrite N.add_0_r. exact H1. }
    destruct r1 as [e|]; [inversion H; subst; exact G1|].
    destruct (scan_tiles allow (Z.of_N (tn * 256 + tw)) ts ds h2) as [[ys2 r2] s2] eqn:H2.
    inversion H; subst. apply Forall_app. split; [exact G1|]. eapply IH; eauto.
Qed.

(* ---- one batch, the loop, the iterators ---------------------------------------------------------- *)
Definition bres_ys (b : bres) : list (N * leaf) :=
  match b with BDone ys _ => ys | BMore ys _ => ys end.

Lemma batch_good n root L adv allow round start :
  commits n root L -> verifying adv ->
  Forall (good L) (bres_ys (batch adv allow n root round start)).
Proof.
  intros C V. unfold Model.batch.
  destruct (Z.quot start 256 * 256 <? 0)%Z; [constructor|].
  set (base := Z.to_N (Z.quot start 256 * 256)).
  set (top := if n / 256 * 256 =? base then n else n / 256 * 256).
  destruct (gen_tiles 50 base top) as [|t0 ts] eqn:G; [constructor|].
  destruct (fetch_all (adv_data Hsh adv round) (t0 :: ts)) as [datas|]; [|constructor].
  destruct (adv_hashes Hsh adv round n root (tile_indexes (t0 :: ts))) as [hs|] eqn:A; [|constructor].
  destruct (negb (length hs =? length (tile_indexes (t0 :: ts)))%nat); [constructor|].
  destruct (scan_tiles allow start (t0 :: ts) datas hs) as [[ys r] s'] eqn:S.
  assert (Gd : Forall (good L) ys) by (eapply scan_tiles_good; eauto).
  destruct r; [exact Gd|]. destruct (s' =? Z.of_N top)%Z; exact Gd.
Qed.

Lemma entries_loop_good n root L adv allow : commits n root L -> verifying adv ->
  forall fuel round start ys r,
  entries_loop fuel adv allow n root round start = (ys, r) -> Forall (good L) ys.
Proof.
  intros C V. induction fuel as [|f IH]; intros round start ys r H.
  - cbn in H. inversion H. constructor.
  - cbn [Model.entries_loop] in H.
    pose proof (batch_good n root L adv allow round start C V) as B.
    destruct (batch adv allow n root round start) as [ys1 r1|ys1 s1]; cbn [bres_ys] in B.
    + inversion H; subst. exact B.
    + destruct (entries_loop f adv allow n root (S round) (Z.of_N s1)) as [ys2 r2] eqn:E.
      inversion H; subst. apply Forall_app. split; [exact B|]. eapply IH; eauto.
Qed.

Lemma shift_verifying k adv : verifying adv -> verifying (shift_adv Hsh k adv).
Proof. intros V r n root idxs hs H. cbn in H. eapply V; eauto. Qed.

Theorem entries_authentic n root L adv allow start ys r :
  commits n root L -> verifying adv ->
  entries adv allow n root start = (ys, r) -> Forall (good L) ys.
Proof. intros C V H. eapply entries_loop_good; eauto. Qed.

Theorem all_entries_authentic n root L adv allow start ys r :
  commits n root L -> verifying adv ->
  all_entries adv allow n root start = (ys, r) -> Forall (good L) ys.
Proof.
  intros C V H. unfold Model.all_entries in H.
  destruct (entries adv allow n root start) as [ys1 r1] eqn:E1.
  assert (G1 : Forall (good L) ys1) by (eapply entries_authentic; eauto).
  destruct r1; [inversion H; subst; exact G1|].
  destruct (last_index ys1 start <? Z.of_N n)%Z; [|inversion H; subst; exact G1].
  destruct (entries (shift_adv Hsh (entries_fuel n) adv) allow n root (last_index ys1 start))
    as [ys2 r2] eqn:E2.
  inversion H; subst. apply Forall_app. split; [exact G1|].
  eapply entries_authentic; [exact C | apply shift_verifying; exact V | exact E2].
Qed.

(* a yielded entry: in range, and its covered fields are those of the committed leaf *)
Lemma good_spec n root L i e : commits n root L -> good L (i, e) ->
  i < n /\ exists l, nth_error L (N.to_nat i) = Some l /\ covered e = covered l.
Proof.
  intros (Hn & _ & _) (l & Hl & Hc). cbn [fst snd] in *. split; [|eauto].
  assert (N.to_nat i < length L)%nat by (apply nth_error_Some; congruence). lia.
Qed.

(* ---- Entry ------------------------------------------------------------------------------------------ *)
Lemma cut_nth_inv : forall k tile eb rh,
  cut_nth k tile = Good (eb, rh) ->
  exists e, wf_leaf e = true /\ rh = leaf_hash (mtl e) /\ eb = enc_leaf e.
Proof.
  induction k as [|k IH]; intros tile eb rh H; destruct tile as [|t0 tile']; cbn [Model.cut_nth] in H;
    try discriminate;
    destruct (cut_entry (t0 :: tile')) as [[[eb' rh'] rest]|e] eqn:Hc; try discriminate.
  - inversion H; subst. destruct (cut_inv _ _ _ _ Hc) as (e & W & Hr & He & _). eauto.
  - eapply IH; eauto.
Qed.

Theorem entry_authentic n root L adv allow index le p :
  commits n root L ->
  entry adv allow n root index = Good (le, p) ->
  (0 <= index < Z.of_N n)%Z /\
  check_record Hsh hnode heqb p n root (Z.to_N index) (leaf_hash (mtl le)) = Ok /\
  (l_arch le = false -> l_idx le = index) /\
  exists l, nth_error L (Z.to_nat index) = Some l /\ covered le = covered l /\
            merkle_tree_leaf le = merkle_tree_leaf l.
Proof.
  intros C H. unfold Model.entry in H.
  destruct ((index <? 0)%Z || (Z.of_N n <=? index)%Z) eqn:Rg; [discriminate|].
  set (idx := Z.to_N index) in *.
  destruct (adv_data Hsh adv 0 (idx / 256) (N.min 256 (n - idx / 256 * 256))) as [tile|]; [|discriminate].
  destruct (cut_nth (N.to_nat (idx - idx / 256 * 256)) tile) as [[eb rh]|] eqn:Hc; [|discriminate].
  destruct (adv_proof Hsh adv n root idx) as [pr|]; [|discriminate].
  destruct (check_record Hsh hnode heqb pr n root idx rh) eqn:CR; try discriminate.
  destruct (parse_entry allow eb) as [le'|] eqn:Hp; [|discriminate].
  destruct (negb (l_arch le') && negb (l_idx le' =? index)%Z) eqn:Hi; [discriminate|].
  inversion H; subst le' pr. clear H.
  destruct (cut_nth_inv _ _ _ _ Hc) as (e & W & Hrh & Heb). subst eb.
  apply (parse_cut allow e le W) in Hp. subst le.
  split; [lia|]. split; [rewrite <- Hrh; exact CR|]. split.
  { intro Ha. rewrite Ha in Hi. cbn in Hi. lia. }
  destruct C as (Hn & Hr & F).
  assert (Hnth : nth_error (leaf_hashes L) (N.to_nat idx) = Some rh).
  { apply (check_record_sound Hsh hnode hempty heqb heqb_eq hnode_inj (leaf_hashes L) p idx rh).
    - unfold leaf_hashes. rewrite map_length. lia.
    - unfold leaf_hashes at 1. rewrite map_length, Hn, <- Hr. exact CR. }
  unfold leaf_hashes in Hnth. rewrite nth_error_map in Hnth.
  replace (Z.to_nat index) with (N.to_nat idx) by (unfold idx; lia).
  destruct (nth_error L (N.to_nat idx)) as [l|] eqn:Hl; [|discriminate].
  cbn in Hnth. exists l. split; [reflexivity|].
  assert (Wl : wf_leaf l = true).
  { rewrite Forall_forall in F. apply F. eapply nth_error_In; eauto. }
  assert (Hm : mtl e = mtl l) by (apply leaf_hash_inj; congruence).
  assert (Hml : merkle_tree_leaf e = merkle_tree_leaf l).
  { rewrite (wf_mtl e W), (wf_mtl l Wl). congruence. }
  split; [|exact Hml]. now apply c10_merkle_inj.
Qed.

(* ---- CheckInclusion ----------------------------------------------------------------------------------- *)
Theorem inclusion_authentic n root L adv allow pk s le p :
  commits n root L ->
  check_inclusion adv allow pk n root s = Good (le, p) ->
  exists c idx l g,
    s = Some c /\ sct_version c = 0 /\
    sct_logid c = sha (spki pk) /\
    parse_extensions (sct_ext c) = Some idx /\ (0 <= idx < Z.of_N n)%Z /\
    nth_error L (Z.to_nat idx) = Some l /\ covered le = covered l /\
    (l_arch l = false -> l_idx l = idx) /\
    l_ts l = to_int64 (sct_ts c) /\
    sct_sig c = Some g /\ sg_key g = pk /\ sg_hashalg g = sct_hashalg c /\ sg_msg g = mtl l /\
    sct_sigalg c = 3 /\ 1 <= sct_hashalg c <= 6.
Proof.
  intros C H. unfold Model.check_inclusion in H.
  destruct s as [c|]; [|discriminate].
  destruct (negb (sct_version c =? 0)) eqn:Hv; [discriminate|].
  destruct (negb (bytes_eqb (sct_logid c) (sha (spki pk)))) eqn:Hid; [discriminate|].
  destruct (parse_extensions (sct_ext c)) as [idx|] eqn:Hx; [|discriminate].
  destruct (entry adv allow n root idx) as [[le' p']|] eqn:He; [|discriminate].
  destruct (negb (l_ts le' =? to_int64 (sct_ts c))%Z) eqn:Ht; [discriminate|].
  destruct (merkle_tree_leaf le') as [ml|] eqn:Hm; [|discriminate].
  destruct (sct_sig_ok pk c ml) eqn:Hs; [|discriminate].
  inversion H; subst le' p'. clear H.
  destruct (entry_authentic _ _ _ _ _ _ _ _ C He) as (Hr & _ & Hidx & l & Hl & Hc & Hml).
  unfold sct_sig_ok in Hs. destruct (sct_sig c) as [g|] eqn:Hg.
  2:{ rewrite andb_false_r in Hs. discriminate. }
  unfold ssig_verify in Hs. rewrite !andb_true_iff in Hs.
  destruct Hs as [[[A1 A2] A3] [[B1 B2] B3]].
  apply bytes_eqb_eq in B3.
  assert (Wl : wf_leaf l = true).
  { destruct C as (_ & _ & F). rewrite Forall_forall in F. apply F. eapply nth_error_In; eauto. }
  assert (Ecov : covered le = covered l) by exact Hc.
  unfold covered in Ecov. inversion Ecov as [[E1 E2 E3 E4 E5 E6]].
  exists c, idx, l, g.
  split; [reflexivity|]. split; [lia|].
  split; [apply bytes_eqb_eq; destruct (bytes_eqb (sct_logid c) (sha (spki pk))); [reflexivity|discriminate]|].
  split; [exact Hx|]. split; [exact Hr|]. split; [exact Hl|]. split; [exact Hc|].
  split; [intro Ha; rewrite <- E6; apply Hidx; congruence|].
  split; [lia|]. split; [exact Hg|]. split; [lia|]. split; [lia|].
  split; [rewrite B3; unfold mtl; rewrite <- Hml, Hm; reflexivity|].
  split; lia.
Qed.

(* ---- Checkpoint ------------------------------------------------------------------------------------------ *)
(* a signature line that the RFC 6962 verifier of (name, pk) accepts for the text c *)
Definition signed_by (pk : N) (c : cktext Hsh) (s : sigline Hsh) : Prop :=
  exists b g, sl_blob Hsh s = Some b /\ nb_sig Hsh b = Some g /\
    ss_key Hsh g = pk /\ ss_size Hsh g = ck_size Hsh c /\ ss_ts Hsh g = nb_ts Hsh b /\
    ss_root Hsh g = ck_root Hsh c /\ nb_hashalg Hsh b = 4 /\ nb_sigalg Hsh b = 3.

Lemma verify_signed name pk c s :
  rfc6962_verify name pk (Some c) (sl_blob Hsh s) = true ->
  signed_by pk c s /\ ck_origin Hsh c = name /\ ck_ext Hsh c = [].
Proof.
  unfold Model.rfc6962_verify. destruct (sl_blob Hsh s) as [b|] eqn:Hb; [|discriminate].
  rewrite !andb_true_iff. intros [[[[A1 A2] A3] A4] A5].
  destruct (nb_sig Hsh b) as [g|] eqn:Hg; [|discriminate].
  rewrite !andb_true_iff in A5. destruct A5 as [[[B1 B2] B3] B4].
  apply bytes_eqb_eq in A1. apply heqb_eq in B4.
  split; [|split; [exact A1|destruct (ck_ext Hsh c); [reflexivity|discriminate]]].
  exists b, g. repeat split; try reflexivity; try assumption; lia.
Qed.

Lemma open_sigs_inv name pk text : forall sigs seen l,
  open_sigs name pk text seen sigs = Good l ->
  Forall (fun s => In s sigs /\ sl_name Hsh s = name /\ sl_hash Hsh s = keyhash name pk /\
                   rfc6962_verify name pk text (sl_blob Hsh s) = true) l.
Proof.
  induction sigs as [|s r IH]; intros seen l H; cbn [Model.open_sigs] in H.
  - inversion H. constructor.
  - assert (W : forall l', Forall (fun s0 => In s0 r /\ sl_name Hsh s0 = name /\
                 sl_hash Hsh s0 = keyhash name pk /\
                 rfc6962_verify name pk text (sl_blob Hsh s0) = true) l' ->
               Forall (fun s0 => In s0 (s :: r) /\ sl_name Hsh s0 = name /\
                 sl_hash Hsh s0 = keyhash name pk /\
                 rfc6962_verify name pk text (sl_blob Hsh s0) = true) l').
    { intros l' F. eapply Forall_impl; [|exact F]. cbn. intros a (I & R). split; [now right|exact R]. }
    destruct (bytes_eqb (sl_name Hsh s) name && (sl_hash Hsh s =? keyhash name pk)) eqn:K.
    + destruct seen; [apply W; eapply IH; eauto|].
      destruct (rfc6962_verify name pk text (sl_blob Hsh s)) eqn:V; [|discriminate].
      destruct (open_sigs name pk text true r) as [l'|] eqn:O; [|discriminate].
      inversion H; subst. constructor.
      * apply andb_true_iff in K. destruct K as [K1 K2]. apply bytes_eqb_eq in K1.
        split; [now left|]. repeat split; try assumption. lia.
      * apply W. eapply IH; eauto.
    + apply W. eapply IH; eauto.
Qed.

Theorem checkpoint_signed pk served c sigs :
  checkpoint pk served = Good (c, sigs) ->
  exists nt, served = Some nt /\ nt_text Hsh nt = Some c /\
    ck_origin Hsh c = nt_name Hsh nt /\ ck_ext Hsh c = [] /\ sigs <> [] /\
    Forall (fun s => In s (nt_sigs Hsh nt) /\ signed_by pk c s) sigs.
Proof.
  unfold Model.checkpoint. destruct served as [nt|]; [|discriminate].
  destruct (negb (nt_name_valid Hsh nt)); [discriminate|].
  destruct (negb (nt_wellformed Hsh nt)); [discriminate|].
  destruct (open_sigs (nt_name Hsh nt) pk (nt_text Hsh nt) false (nt_sigs Hsh nt)) as [[|s l]|] eqn:O;
    try discriminate.
  destruct (nt_text Hsh nt) as [c'|] eqn:T; [|discriminate].
  destruct (negb (bytes_eqb (ck_origin Hsh c') (nt_name Hsh nt))); [discriminate|].
  intro H. inversion H; subst c' sigs. clear H.
  pose proof (open_sigs_inv _ _ _ _ _ _ O) as F.
  exists nt. split; [reflexivity|]. split; [exact T|].
  assert (F' : Forall (fun s0 => In s0 (nt_sigs Hsh nt) /\ signed_by pk c s0 /\
                                 ck_origin Hsh c = nt_name Hsh nt /\ ck_ext Hsh c = []) (s :: l)).
  { eapply Forall_impl; [|exact F]. cbn. intros a (I & _ & _ & V).
    destruct (verify_signed _ _ _ _ V) as (S1 & S2 & S3). auto. }
  inversion F' as [|? ? (_ & _ & O1 & O2) _]; subst.
  split; [exact O1|]. split; [exact O2|]. split; [discriminate|].
  eapply Forall_impl; [|exact F']. cbn. intros a (I & S & _). auto.
Qed.

End ClientProofs.
