(* GC/Multi.v — one RUN of cmd/partial-aftersun: main walks every log of the config and then every
   mirrored log of the witness directory, each with the size of ITS OWN checkpoint. Definitions
   only (proofs in GC/MultiProofs.v). [clean_run] transcribes the two loops of main:

     logs    : logSize fails, or "tile" cannot be listed (it exists but is not a directory)
               -> fatalError: exit status 1 at once, no later directory is looked at;
               cleanDir returns an error -> exitCode = 1, the remaining levels of THIS directory
               are skipped, the next directory is processed;
     mirrors : every failure -> exitCode = 1, next directory; a mirror without a checkpoint is
               skipped;
     both    : a run-time panic (tile-size computation at an absurd level) kills the process:
               exit status 2, no later directory is looked at.

   Nothing is carried from one directory to the next: there is no state in the model besides the
   exit status. That this is also true of the binary is what the multi-tree runs of harness/gc
   check (gcmulti lines and the per-tree gc lines and monitors of one run). *)
From SL Require Export GC.Model.
Open Scope N_scope.

Record tree_in := mkTreeIn {
  ti_fl : flavour;
  ti_size : option Z;      (* None: logSize / mirroredLogSize failed *)
  ti_skip : bool;          (* mirror directory without a checkpoint *)
  ti_root : node }.

(* the directory cleaned on its own *)
Definition clean_one (d : tree_in) : result :=
  if ti_skip d then ([], Ok) else clean_root (ti_fl d) (ti_size d) (ti_root d).

(* fatalError in the loop over the logs *)
Definition fatal (d : tree_in) : bool :=
  match ti_fl d with
  | FlMirror => false
  | FlLog =>
    match ti_size d with
    | None => true
    | Some _ => match stat (ti_root d) (s2b "tile") with Some (File _) => true | _ => false end
    end
  end.

Definition worse (a b : status) : status :=
  match a, b with
  | Panic, _ | _, Panic => Panic
  | Err, _ | _, Err => Err
  | Ok, Ok => Ok
  end.

Definition untouched (ds : list tree_in) : list (list bytes) := map (fun _ => []) ds.

(* the paths removed from every directory (same order as the input) and the exit status of the
   process (Ok: 0, Err: 1, Panic: 2 with a Go panic trace) *)
Fixpoint clean_run (ds : list tree_in) : list (list bytes) * status :=
  match ds with
  | [] => ([], Ok)
  | d :: r =>
    if fatal d then ([] :: untouched r, Err)
    else
      let '(del, s) := clean_one d in
      match s with
      | Panic => (del :: untouched r, Panic)
      | _ => let '(dels, s2) := clean_run r in (del :: dels, worse s s2)
      end
  end.

(* what the run removed from its i-th directory *)
Definition deleted_in_run (ds : list tree_in) (i : nat) : list bytes := nth i (fst (clean_run ds)) [].

(* the run reaches and finishes every directory *)
Definition no_abort (ds : list tree_in) : Prop :=
  Forall (fun d => fatal d = false /\ snd (clean_one d) <> Panic) ds.

(* ---------- rendering for the correspondence driver ---------- *)

Definition tree_of_args (a : bool * bool * bool * Z * node) : tree_in :=
  let '(mirror, has_size, skip, size, root) := a in
  mkTreeIn (flavour_of mirror) (if has_size then Some size else None) skip root.

(* gcmulti|<fl>|<size>|<tree>|<fl>|<size>|<tree>|...|=>|<status>:<removed of 1st>;<removed of 2nd>;... *)
Definition run_gcmulti (args : list (bool * bool * bool * Z * node)) : bytes :=
  let '(dels, s) := clean_run (map tree_of_args args) in
  show_status s ++ x3a :: join_with x3b (map (fun d => join_with x2c (map hx d)) dels).
