(* GC/Proofs.v — C18: what partial-aftersun removes, and what it can never remove. *)
From SL Require Import Base.Bytes Base.Cryptobyte Base.BytesProofs Codec.Leaf Codec.LeafProofs
  Codec.PathProofs Merkle.Tiles GC.Model.
From Coq Require Import ZifyN ZifyNat ZifyBool.
Open Scope N_scope.
Ltac Zify.zify_post_hook ::= Z.div_mod_to_equations.

(* ================= part 1: strings without '.' ================= *)

Definition ndb (b : byte) : bool := negb (Byte.eqb b x2e).
Definition nodot (s : bytes) : Prop := forallb ndb s = true.

Lemma nodot_app a b : nodot (a ++ b) <-> nodot a /\ nodot b.
Proof. unfold nodot. rewrite forallb_app, andb_true_iff. tauto. Qed.

Lemma nodot_cons x a : nodot (x :: a) <-> ndb x = true /\ nodot a.
Proof. unfold nodot. cbn [forallb]. rewrite andb_true_iff. tauto. Qed.

Lemma nodot_dot r : ~ nodot (x2e :: r).
Proof. intro H. apply nodot_cons in H. destruct H as [H _]. discriminate H. Qed.

Lemma nodot_has_dot a r : ~ nodot (a ++ x2e :: r).
Proof. intro H. apply nodot_app in H. destruct H as [_ H]. now apply nodot_dot in H. Qed.

Lemma first_dot a1 : forall a2 r1 r2, nodot a1 -> nodot a2 ->
  a1 ++ x2e :: r1 = a2 ++ x2e :: r2 -> a1 = a2 /\ r1 = r2.
Proof.
  induction a1 as [|x a1 IH]; intros a2 r1 r2 H1 H2 E.
  - destruct a2 as [|y a2].
    + cbn [app] in E. inversion E. auto.
    + cbn [app] in E. inversion E; subst y. exfalso. now apply nodot_dot in H2.
  - destruct a2 as [|y a2].
    + cbn [app] in E. inversion E; subst x. exfalso. now apply nodot_dot in H1.
    + cbn [app] in E. inversion E; subst y.
      apply nodot_cons in H1. apply nodot_cons in H2.
      destruct (IH a2 r1 r2) as [A B]; try tauto. subst. auto.
Qed.

Lemma digit_ndb b : is_digit b = true -> ndb b = true.
Proof. intro H. destruct b; try (exfalso; vm_compute in H; discriminate H); reflexivity. Qed.

Lemma alldig_nodot s : alldig s -> nodot s.
Proof.
  unfold alldig, nodot. induction s as [|b s IH]; cbn [forallb]; [reflexivity|].
  intro H. apply andb_true_iff in H. destruct H as [H1 H2]. now rewrite digit_ndb, IH.
Qed.

Lemma alldig_noslash s : alldig s -> noslash s.
Proof. intro H. apply clean_noslash. now apply alldig_clean. Qed.

Lemma noslash_has_slash a r : ~ noslash (a ++ x2f :: r).
Proof.
  unfold noslash. rewrite forallb_app. cbn [forallb]. change (nsb x2f) with false.
  cbn [andb]. rewrite andb_false_r. discriminate.
Qed.

Lemma decZ_alldig z : (0 <= z < two63)%Z -> alldig (decZ z).
Proof. intro H. rewrite decZ_nonneg by lia. apply dec_spec. unfold two63 in H. lia. Qed.

Lemma xgroup_nodot m : nodot (xgroup m).
Proof.
  unfold xgroup. apply nodot_cons. split; [reflexivity|].
  apply alldig_nodot. apply group_facts. lia.
Qed.

Lemma flat_nodot gs : Forall nodot gs -> nodot (flat gs).
Proof.
  induction 1 as [|g gs Hg _ IH]; [reflexivity|].
  unfold flat. cbn [map concat]. fold (flat gs).
  apply nodot_app. split; [|exact IH]. apply nodot_app. split; [exact Hg|reflexivity].
Qed.

Lemma xgroups_nodot fuel : forall n, Forall nodot (xgroups fuel n).
Proof.
  induction fuel as [|f IH]; intro n; cbn [xgroups]; [constructor|].
  destruct (n >=? 1000)%Z; [|constructor].
  apply Forall_app. split; [apply IH|]. constructor; [apply xgroup_nodot|constructor].
Qed.

Lemma nstr_nodot n : nodot (nstr n).
Proof.
  rewrite nstr_spec. apply nodot_app. split.
  - apply flat_nodot, xgroups_nodot.
  - apply alldig_nodot. apply group_facts. lia.
Qed.

Lemma lstr_nodot l : (-1 <= l < two63)%Z -> nodot (lstr l).
Proof.
  intro H. unfold lstr. destruct (Z.eqb_spec l (-1)); [reflexivity|].
  apply alldig_nodot, decZ_alldig. lia.
Qed.

(* ================= part 2: accepted paths are canonical, in both flavours ================= *)

(* the path of the full tile with the coordinates of an accepted path, below "tile/8/" *)
Definition rest_full (l n : Z) : bytes := lstr l ++ x2f :: nstr n.

Lemma rest_full_nodot l n : (-1 <= l < two63)%Z -> nodot (rest_full l n).
Proof.
  intro H. unfold rest_full. apply nodot_app. split; [now apply lstr_nodot|].
  apply nodot_cons. split; [reflexivity|apply nstr_nodot].
Qed.

Lemma tlog_canon8 rest t :
  tlog_parse_tile_path (s2b "tile/8/" ++ rest) = Some t ->
  t_H t = 8%Z /\ (-1 <= t_L t < two63)%Z /\ (0 <= t_N t < two63)%Z /\ (1 <= t_W t <= 256)%Z /\
  rest = rest_full (t_L t) (t_N t) ++ wtail (t_W t) /\
  (bytes_eqb (nth 0 (split_slash rest) []) (s2b "data") = true -> t_L t = (-1)%Z) /\
  tlog_parse_tile_path (s2b "tile/8/" ++ rest_full (t_L t) (t_N t))
    = Some (mkTile 8 (t_L t) (t_N t) 256).
Proof.
  intro H. apply tlog_parse_inv in H. rewrite split_tile8 in H. cbn [nth] in H.
  destruct H as (Hh & Hl & Hn & Hw & _ & Hp).
  change (atoi (s2b "8")) with (Some 8%Z) in Hh.
  destruct t as [h l n w]; cbn [t_H t_L t_N t_W] in *.
  assert (h = 8%Z) by congruence. subst h.
  change (2 ^ 8)%Z with 256%Z in Hw.
  assert (HL : (-1 <= l < two63)%Z).
  { destruct (bytes_eqb _ _); unfold two63 in *; lia. }
  rewrite tlog_path_8 in Hp. apply app_inv_head in Hp.
  repeat split; try lia.
  - unfold rest_full. rewrite <- app_assoc. cbn [app]. exact Hp.
  - intro E. rewrite E in Hl. exact Hl.
  - unfold rest_full.
    assert (E : s2b "tile/8/" ++ (lstr l ++ x2f :: nstr n)
                = tlog_tile_path (mkTile 8 l n 256)).
    { rewrite tlog_path_8. unfold wtail. cbn [Z.eqb Pos.eqb]. now rewrite app_nil_r. }
    rewrite E. apply tlog_roundtrip; lia.
Qed.

Lemma cut_prefix_none_app q : forall a c, cut_prefix q (a ++ c) = None -> cut_prefix q a = None.
Proof.
  induction q as [|x q IH]; intros a c H; cbn [cut_prefix] in *; [discriminate|].
  destruct a as [|y a]; [reflexivity|]. cbn [app] in H.
  destruct (Byte.eqb x y); [now apply IH with c|reflexivity].
Qed.

(* Every accepted path is  b ++ wtail W  for a '.'-free b which is itself the accepted path of
   the full tile with the same level and index. *)
Lemma parse_fl_canon fl p t : parse_fl fl p = Some t ->
  exists b, nodot b /\ p = b ++ wtail (t_W t) /\
    t_H t = 8%Z /\ (-2 <= t_L t < two63)%Z /\ (0 <= t_N t < two63)%Z /\ (1 <= t_W t <= 256)%Z /\
    parse_fl fl b = Some (mkTile 8 (t_L t) (t_N t) 256).
Proof.
  destruct fl; cbn [parse_fl].
  - (* sunlight.ParseTilePath *)
    unfold parse_tile_path.
    destruct (cut_prefix (s2b "tile/names/") p) as [rest|] eqn:E1.
    + apply cut_prefix_inv in E1. subst p.
      destruct (tlog_parse_tile_path (s2b "tile/8/data/" ++ rest)) as [t'|] eqn:E2; [|discriminate].
      intro H; inversion H; subst t; clear H. cbn [t_H t_L t_N t_W].
      change (s2b "tile/8/data/" ++ rest) with (s2b "tile/8/" ++ (s2b "data/" ++ rest)) in E2.
      apply tlog_canon8 in E2. destruct E2 as (Hh & Hl & Hn & Hw & Hr & Hd & Hp).
      assert (HL : t_L t' = (-1)%Z) by (apply Hd; reflexivity).
      rewrite HL in Hr, Hp.
      change (rest_full (-1) (t_N t')) with (s2b "data/" ++ nstr (t_N t')) in Hr, Hp.
      rewrite <- app_assoc in Hr. apply app_inv_head in Hr.
      exists (s2b "tile/names/" ++ nstr (t_N t')). repeat split; try lia.
      * apply nodot_app. split; [reflexivity|apply nstr_nodot].
      * rewrite <- app_assoc. now f_equal.
      * rewrite cut_prefix_app.
        change (s2b "tile/8/data/" ++ nstr (t_N t'))
          with (s2b "tile/8/" ++ s2b "data/" ++ nstr (t_N t')).
        rewrite Hp. reflexivity.
    + destruct (cut_prefix (s2b "tile/") p) as [rest|] eqn:E3; [|discriminate].
      apply cut_prefix_inv in E3. subst p. intro E2.
      apply tlog_canon8 in E2. destruct E2 as (Hh & Hl & Hn & Hw & Hr & _ & Hp).
      exists (s2b "tile/" ++ rest_full (t_L t) (t_N t)). repeat split; try lia.
      * apply nodot_app. split; [reflexivity|now apply rest_full_nodot].
      * rewrite <- app_assoc. now f_equal.
      * rewrite Hr, app_assoc in E1. apply cut_prefix_none_app in E1. rewrite E1.
        rewrite cut_prefix_app. exact Hp.
  - (* torchwood.ParseTilePath *)
    unfold tw_parse_tile_path.
    destruct (cut_prefix (s2b "tile/entries/") p) as [rest|] eqn:E1.
    + apply cut_prefix_inv in E1. subst p. intro E2.
      change (s2b "tile/8/data/" ++ rest) with (s2b "tile/8/" ++ (s2b "data/" ++ rest)) in E2.
      apply tlog_canon8 in E2. destruct E2 as (Hh & Hl & Hn & Hw & Hr & Hd & Hp).
      assert (HL : t_L t = (-1)%Z) by (apply Hd; reflexivity).
      rewrite HL in Hr, Hp.
      change (rest_full (-1) (t_N t)) with (s2b "data/" ++ nstr (t_N t)) in Hr, Hp.
      rewrite <- app_assoc in Hr. apply app_inv_head in Hr.
      exists (s2b "tile/entries/" ++ nstr (t_N t)). repeat split; try lia.
      * apply nodot_app. split; [reflexivity|apply nstr_nodot].
      * rewrite <- app_assoc. now f_equal.
      * rewrite cut_prefix_app.
        change (s2b "tile/8/data/" ++ nstr (t_N t))
          with (s2b "tile/8/" ++ s2b "data/" ++ nstr (t_N t)).
        rewrite Hp, HL. reflexivity.
    + destruct (cut_prefix (s2b "tile/") p) as [rest|] eqn:E3; [|discriminate].
      apply cut_prefix_inv in E3. subst p. intro E2.
      apply tlog_canon8 in E2. destruct E2 as (Hh & Hl & Hn & Hw & Hr & _ & Hp).
      exists (s2b "tile/" ++ rest_full (t_L t) (t_N t)). repeat split; try lia.
      * apply nodot_app. split; [reflexivity|now apply rest_full_nodot].
      * rewrite <- app_assoc. now f_equal.
      * rewrite Hr, app_assoc in E1. apply cut_prefix_none_app in E1. rewrite E1.
        rewrite cut_prefix_app. exact Hp.
Qed.

Lemma wtail_256 : wtail 256 = [].
Proof. reflexivity. Qed.

Lemma wtail_partial w : w <> 256%Z -> wtail w = dotps ++ decZ w.
Proof. intro H. unfold wtail. destruct (Z.eqb_spec w 256); [contradiction|reflexivity]. Qed.

(* ================= part 3: a ".p" directory and its entries name the same tile ================= *)

Lemma partial_coords fl p1 pn t1 t2 :
  parse_fl fl p1 = Some t1 -> parse_fl fl (p1 ++ dotps ++ pn) = Some t2 ->
  t_W t1 = 256%Z /\ t_W t2 <> 256%Z /\ t1 = mkTile 8 (t_L t2) (t_N t2) 256 /\
  pn = decZ (t_W t2) /\ nodot p1.
Proof.
  intros H1 H2.
  destruct (parse_fl_canon _ _ _ H1) as (b1 & Hb1 & E1 & _ & _ & _ & Hw1 & _).
  destruct (parse_fl_canon _ _ _ H2) as (b2 & Hb2 & E2 & _ & _ & _ & Hw2 & P2).
  assert (W2 : t_W t2 <> 256%Z).
  { intro E. rewrite E, wtail_256, app_nil_r in E2. rewrite <- E2 in Hb2.
    change (dotps ++ pn) with (x2e :: x70 :: x2f :: pn) in Hb2. now apply nodot_has_dot in Hb2. }
  rewrite wtail_partial in E2 by assumption.
  change (dotps ++ pn) with (x2e :: x70 :: x2f :: pn) in E2.
  change (dotps ++ decZ (t_W t2)) with (x2e :: x70 :: x2f :: decZ (t_W t2)) in E2.
  destruct (Z.eq_dec (t_W t1) 256) as [W1|W1].
  - rewrite W1, wtail_256, app_nil_r in E1. subst b1.
    destruct (first_dot _ _ _ _ Hb1 Hb2 E2) as [A B]. subst b2.
    inversion B; subst pn.
    rewrite H1 in P2. inversion P2. repeat split; auto.
  - exfalso. rewrite wtail_partial in E1 by assumption. subst p1.
    rewrite <- app_assoc in E2.
    change (dotps ++ decZ (t_W t1)) with (x2e :: x70 :: x2f :: decZ (t_W t1)) in E2.
    cbn [app] in E2.
    destruct (first_dot _ _ _ _ Hb1 Hb2 E2) as [_ B].
    inversion B as [B'].
    assert (D : nodot (decZ (t_W t2))) by (apply alldig_nodot, decZ_alldig; unfold two63; lia).
    rewrite <- B' in D. now apply nodot_has_dot in D.
Qed.

(* ================= part 4: the tile size computed with Go's integers ================= *)

Definition wrap_level : Z := 2305843009213693951%Z.   (* 2^61 - 1 *)

Fixpoint pow256 (k : nat) : Z := match k with O => 1%Z | S k' => (256 * pow256 k')%Z end.

(* entries per tile of level l (data and names tiles count as level 0) *)
Definition tile_span (l : Z) : Z := (256 ^ (Z.max 0 l + 1))%Z.

Lemma tile_size_sane l ts : (l < wrap_level)%Z -> tile_size_go l = Some ts -> ts <> 0%Z ->
  (l <= 6)%Z /\ ts = tile_span l.
Proof.
  unfold wrap_level, tile_size_go, tile_span. intros Hl.
  set (m := (Z.max 0 l + 1)%Z).
  assert (Hm : (1 <= m <= 2305843009213693951)%Z) by (unfold m; lia).
  assert (W1 : wrap64 m = m) by (unfold wrap64, two63, two64; lia).
  rewrite W1. cbv zeta.
  destruct (Z.ltb_spec (wrap64 (8 * m)) 0); [discriminate|].
  destruct (Z.geb_spec (wrap64 (8 * m)) 64).
  - intros E Hne. inversion E. congruence.
  - assert (Hs : (m <= 7)%Z /\ wrap64 (8 * m) = (8 * m)%Z) by (unfold wrap64, two63, two64 in *; lia).
    destruct Hs as [Hm7 Hs]. rewrite Hs. intros E _. inversion E; subst ts. clear E.
    split; [unfold m in Hm7; lia|].
    assert (C : (m = 1 \/ m = 2 \/ m = 3 \/ m = 4 \/ m = 5 \/ m = 6 \/ m = 7)%Z) by lia.
    destruct C as [C|[C|[C|[C|[C|[C|C]]]]]]; rewrite C; reflexivity.
Qed.

(* a tile strictly left of the right edge of the tree of the given size, as cleanDir decides it *)
Definition strictly_left (size : Z) (t : tile) : Prop :=
  exists ts, tile_size_go (t_L t) = Some ts /\ ts <> 0%Z /\ (t_N t < Z.quot size ts)%Z.

Lemma strictly_left_coords size t t' : t_L t = t_L t' -> t_N t = t_N t' ->
  strictly_left size t -> strictly_left size t'.
Proof. unfold strictly_left. intros -> ->. auto. Qed.

Lemma strictly_left_sane size t : (t_L t < wrap_level)%Z -> (0 <= t_N t)%Z -> strictly_left size t ->
  (t_L t <= 6)%Z /\ (t_N t < size / tile_span (t_L t))%Z.
Proof.
  intros Hl Hn (ts & E & Hne & Hlt).
  destruct (tile_size_sane _ _ Hl E Hne) as [A B]. split; [exact A|]. subst ts.
  assert (P : (0 < tile_span (t_L t))%Z) by (unfold tile_span; apply Z.pow_pos_nonneg; lia).
  destruct (Z_lt_le_dec size 0) as [Hs|Hs].
  - exfalso.
    assert (Q : (Z.quot size (tile_span (t_L t)) <= 0)%Z).
    { rewrite <- (Z.opp_involutive size). rewrite Z.quot_opp_l by lia.
      pose proof (Z.quot_pos (- size) (tile_span (t_L t))). lia. }
    lia.
  - rewrite Z.quot_div_nonneg in Hlt by lia. exact Hlt.
Qed.

(* ================= part 5: the shape of everything cleanDir removes ================= *)

Lemma has_suffix_inv suf s : has_suffix suf s = true -> exists a, s = a ++ suf.
Proof.
  unfold has_suffix. destruct (cut_prefix (rev suf) (rev s)) as [r|] eqn:E; [|discriminate].
  intros _. apply cut_prefix_inv in E. exists (rev r).
  rewrite <- (rev_involutive s), E, rev_app_distr, rev_involutive. reflexivity.
Qed.

Lemma cut_suffix_p_inv nm full : cut_suffix_p nm = Some full -> nm = full ++ dotp.
Proof.
  unfold cut_suffix_p. destruct (has_suffix dotp nm) eqn:E; [|discriminate].
  destruct (has_suffix_inv _ _ E) as [a Ha]. subst nm.
  unfold dotp. rewrite strip_last2_app. congruence.
Qed.

Lemma trim_suffix_p_app a : trim_suffix_p (a ++ dotp) = a.
Proof. unfold trim_suffix_p. rewrite has_suffix_app. unfold dotp. apply strip_last2_app. Qed.

Lemma join_dotp prefix full : join prefix (full ++ dotp) = join prefix full ++ dotp.
Proof. unfold join. now rewrite <- app_assoc. Qed.

Lemma join_partial p1 pn : join (p1 ++ dotp) pn = p1 ++ dotps ++ pn.
Proof. unfold join, dotp, dotps. rewrite <- app_assoc. reflexivity. Qed.

(* what is known of a removed path: it is the ".p" directory of an accepted full-tile path p1
   strictly left of the edge, or an accepted partial-tile path directly inside it that passed
   the checks of overrideImmutable *)
Definition del_ok (fl : flavour) (root : node) (size : Z) (p : bytes) : Prop :=
  exists p1 t1, parse_fl fl p1 = Some t1 /\ strictly_left size t1 /\
    (p = p1 ++ dotp \/
     exists pn t2, p = p1 ++ dotps ++ pn /\ parse_fl fl p = Some t2 /\ t_W t2 <> 256%Z /\
                   override_immutable root p = true).

Lemma clean_partials_ok fl root dir : forall ps p,
  In p (fst (clean_partials fl root dir ps)) ->
  exists pn t2, p = join dir pn /\ parse_fl fl p = Some t2 /\ t_W t2 <> 256%Z /\
                override_immutable root p = true.
Proof.
  induction ps as [|[pn pc] r IH]; intros p H; cbn [clean_partials] in H; [destruct H|].
  cbv zeta in H.
  destruct (parse_fl fl (join dir pn)) as [t|] eqn:E; [|destruct H].
  destruct (Z.eqb_spec (t_W t) 256); [destruct H|].
  destruct (override_immutable root (join dir pn)) eqn:O; cbn [negb] in H; [|destruct H].
  destruct (removable pc); cbn [negb] in H; [|destruct H].
  destruct (clean_partials fl root dir r) as [d s] eqn:R. cbn [fst] in *.
  destruct H as [H|H].
  - subst p. exists pn, t. auto.
  - apply IH. exact H.
Qed.

Lemma clean_entry_ok fl root size prefix sib nm c p :
  In p (fst (clean_entry fl root size prefix sib nm c)) -> del_ok fl root size p.
Proof.
  unfold clean_entry. cbv zeta.
  destruct (cut_suffix_p nm) as [full|] eqn:E; [|intros []].
  apply cut_suffix_p_inv in E. subst nm.
  destruct (find_entry full sib); [|intros []].
  rewrite join_dotp, trim_suffix_p_app.
  set (p1 := join prefix full).
  destruct (parse_fl fl p1) as [t1|] eqn:P1; [|intros []].
  destruct (tile_size_go (t_L t1)) as [ts|] eqn:T; [|intros []].
  destruct (Z.eqb_spec ts 0); [intros []|].
  destruct (Z.geb_spec (t_N t1) (Z.quot size ts)); [intros []|].
  assert (SL : strictly_left size t1) by (exists ts; auto).
  destruct c as [sz|ps]; [intros []|].
  destruct (clean_partials fl root (p1 ++ dotp) ps) as [d s] eqn:R.
  assert (D : forall q, In q d -> del_ok fl root size q).
  { intros q Hq. pose proof (clean_partials_ok fl root (p1 ++ dotp) ps q) as K.
    rewrite R in K. destruct (K Hq) as (pn & t2 & A & B & C & O).
    rewrite join_partial in A.
    exists p1, t1. split; [exact P1|]. split; [exact SL|]. right. exists pn, t2. auto. }
  destruct (is_ok s); cbn [fst]; intro Hin.
  - apply in_app_or in Hin. destruct Hin as [H1|[H2|[]]]; [now apply D|].
    subst p. exists p1, t1. auto.
  - now apply D.
Qed.

(* induction principle for the nested type *)
Section NodeInd.
  Variable P : node -> Prop.
  Hypothesis HF : forall s, P (File s).
  Hypothesis HD : forall es, Forall (fun e => P (snd e)) es -> P (Dir es).
  Fixpoint node_ind' (n : node) : P n :=
    match n with
    | File s => HF s
    | Dir es =>
      HD es ((fix go (l : list (bytes * node)) : Forall (fun e => P (snd e)) l :=
                match l with
                | [] => Forall_nil _
                | e :: r => Forall_cons e (node_ind' (snd e)) (go r)
                end) es)
    end.
End NodeInd.

Lemma clean_dir_ok fl root size p : forall n prefix,
  In p (fst (clean_dir fl root size prefix n)) -> del_ok fl root size p.
Proof.
  induction n as [sz|es IH] using node_ind'; intros prefix H.
  - destruct H.
  - cbn [clean_dir] in H.
    set (loop := fix loop (l : list (bytes * node)) : result :=
       match l with
       | [] => ([], Ok)
       | (nm, c) :: r =>
         let '(d, s) :=
           if has_prefix_x nm then clean_dir fl root size (join prefix nm) c
           else clean_entry fl root size prefix es nm c in
         if is_ok s then let '(d2, s2) := loop r in (d ++ d2, s2) else (d, s)
       end) in H.
    assert (G : forall l, Forall (fun e => forall prefix,
                  In p (fst (clean_dir fl root size prefix (snd e))) -> del_ok fl root size p) l ->
                In p (fst (loop l)) -> del_ok fl root size p).
    { induction l as [|[nm c] r IHl]; intros F Hl; [destruct Hl|].
      inversion F as [|? ? Fc Fr]; subst. cbn [snd] in Fc.
      cbn [loop] in Hl. fold loop in Hl.
      set (step := if has_prefix_x nm then clean_dir fl root size (join prefix nm) c
                   else clean_entry fl root size prefix es nm c) in Hl.
      assert (S : In p (fst step) -> del_ok fl root size p).
      { unfold step. destruct (has_prefix_x nm); [apply Fc|apply clean_entry_ok]. }
      destruct step as [d s]. cbn [fst] in S.
      destruct (is_ok s).
      - destruct (loop r) as [d2 s2] eqn:R. cbn [fst] in *.
        apply in_app_or in Hl. destruct Hl as [Hl|Hl]; [now apply S|now apply IHl]. 
      - now apply S. }
    apply (G es); assumption.
Qed.

Lemma clean_levels_ok fl root size p : forall levels,
  In p (fst (clean_levels fl root size levels)) -> del_ok fl root size p.
Proof.
  induction levels as [|[nm c] r IH]; intro H; cbn [clean_levels] in H; [destruct H|].
  destruct (clean_dir fl root size (join (s2b "tile") nm) c) as [d s] eqn:E.
  assert (S : In p d -> del_ok fl root size p).
  { intro Hd. apply (clean_dir_ok fl root size p c (join (s2b "tile") nm)). now rewrite E. }
  destruct (is_ok s).
  - destruct (clean_levels fl root size r) as [d2 s2]. cbn [fst] in *.
    apply in_app_or in H. destruct H; auto.
  - now apply S.
Qed.

Lemma deleted_ok fl root size p : In p (deleted fl size root) -> del_ok fl root size p.
Proof.
  unfold deleted, clean_root.
  destruct (stat root (s2b "tile")) as [[sz|levels]|]; try (intros []).
  apply clean_levels_ok.
Qed.

Lemma clean_root_none fl root : clean_root fl None root = ([], Err).
Proof. reflexivity. Qed.

(* ================= part 6: coordinates of the tiles of a tree (Merkle/Tiles.v) ================= *)

Lemma shr8_S L n : shr8 (S L) n = shr8 L n / 256.
Proof.
  unfold shr8. replace (8 * N.of_nat (S L)) with (8 * N.of_nat L + 8) by lia.
  rewrite <- N.shiftr_shiftr. rewrite (N.shiftr_div_pow2 _ 8). reflexivity.
Qed.

Lemma shr8_0 L : shr8 L 0 = 0.
Proof. unfold shr8. apply N.shiftr_0_l. Qed.

Lemma in_full_tiles L a b t : In t (full_tiles L a b) ->
  tc_L t = L /\ tc_W t = 256 /\ a <= tc_N t < b.
Proof.
  unfold full_tiles. rewrite in_map_iff. intros (j & E & Hj). apply in_seq in Hj.
  subst t. cbn [tc_L tc_N tc_W]. repeat split; lia.
Qed.

Lemma new_tiles_fuel_coords f : forall L n t, In t (new_tiles_fuel f L 0 n) ->
  (L <= tc_L t)%nat /\ (tc_L t < L + f)%nat /\
  ((tc_W t = 256 /\ tc_N t < shr8 (S (tc_L t)) n) \/
   (0 < tc_W t < 256 /\ tc_N t = shr8 (S (tc_L t)) n)).
Proof.
  induction f as [|f IH]; intros L n t H; cbn [new_tiles_fuel] in H; [destruct H|].
  cbv zeta in H. rewrite shr8_0 in H.
  destruct (N.eqb_spec (shr8 L n) 0) as [E0|E0]; [destruct H|].
  apply in_app_or in H. destruct H as [H|H].
  - destruct (N.eqb_spec 0 (shr8 L n)) as [E1|E1]; [destruct H|].
    apply in_app_or in H. destruct H as [H|H].
    + apply in_full_tiles in H. destruct H as (A & B & C).
      rewrite A. split; [lia|]. split; [lia|]. left. split; [exact B|].
      rewrite shr8_S. change (0 / 256) with 0 in C. lia.
    + destruct (N.ltb_spec 0 (shr8 L n - shr8 L n / 256 * 256)) as [Hw|Hw]; [|destruct H].
      destruct H as [H|[]]. subst t. cbn [tc_L tc_N tc_W].
      split; [lia|]. split; [lia|]. right. rewrite shr8_S. split; [|reflexivity].
      assert (shr8 L n mod 256 < 256) by (apply N.mod_lt; lia). lia.
  - apply IH in H. destruct H as (A & B & C). split; [lia|]. split; [lia|]. exact C.
Qed.

Lemma needed_coords n t : In t (tiles_needed n) ->
  (tc_L t < 9)%nat /\
  ((tc_W t = 256 /\ tc_N t < shr8 (S (tc_L t)) n) \/
   (0 < tc_W t < 256 /\ tc_N t = shr8 (S (tc_L t)) n)).
Proof.
  unfold tiles_needed, new_tiles. intro H. apply new_tiles_fuel_coords in H.
  destruct H as (_ & B & C). split; [lia|exact C].
Qed.

Lemma shr8_Z L n : Z.of_N (shr8 L n) = (Z.of_N n / 256 ^ Z.of_nat L)%Z.
Proof.
  unfold shr8. rewrite N.shiftr_div_pow2, N2Z.inj_div, N2Z.inj_pow.
  change (Z.of_N 2) with 2%Z.
  replace (Z.of_N (8 * N.of_nat L)) with (8 * Z.of_nat L)%Z by lia.
  rewrite Z.pow_mul_r by lia. reflexivity.
Qed.

Lemma shr8_le L n : shr8 L n <= n.
Proof.
  unfold shr8. rewrite N.shiftr_div_pow2.
  assert (0 < 2 ^ (8 * N.of_nat L)) by (apply N.neq_0_lt_0, N.pow_nonzero; lia).
  apply N.div_le_upper_bound; [lia|]. nia.
Qed.

(* the tiles (hash tiles of every level, and the data and names tiles, which live at the level-0
   coordinates) that make up the tiled tree of size n, as tlog.Tile values *)
Definition needed_tile (n : N) (t : tile) : Prop :=
  exists c, In c (tiles_needed n) /\ t_H t = 8%Z /\
    t_N t = Z.of_N (tc_N c) /\ t_W t = Z.of_N (tc_W c) /\
    (t_L t = Z.of_nat (tc_L c) \/ (tc_L c = O /\ (t_L t = (-1)%Z \/ t_L t = (-2)%Z))).

(* superseded_safe (DESIGN 2.4): the partial tile of a level of any tree at least as large as
   [size] is not strictly left of the right edge of the tree of size [size] *)
Lemma needed_not_left size n t : (size <= Z.of_N n)%Z -> needed_tile n t ->
  t_W t <> 256%Z -> ~ strictly_left size t.
Proof.
  intros Hs (c & Hc & _ & HN & HW & HL) Hw SL.
  apply needed_coords in Hc. destruct Hc as (Hl9 & [[W _]|[W E]]); [rewrite W in HW; now apply Hw|].
  assert (Hlv : (t_L t < wrap_level)%Z) by (unfold wrap_level; lia).
  apply strictly_left_sane in SL; [|exact Hlv|lia]. destruct SL as [_ SL].
  assert (Sp : tile_span (t_L t) = (256 ^ Z.of_nat (S (tc_L c)))%Z).
  { unfold tile_span. f_equal. destruct HL as [HL|(H0 & [HL|HL])]; rewrite HL; try rewrite H0; lia. }
  rewrite Sp in SL. rewrite HN, E, shr8_Z in SL.
  assert (P : (0 < 256 ^ Z.of_nat (S (tc_L c)))%Z) by (apply Z.pow_pos_nonneg; lia).
  pose proof (Z.div_le_mono size (Z.of_N n) _ P Hs). lia.
Qed.

(* ================= part 7: C18 ================= *)

(* neither p nor a directory above p is removed *)
Definition survives (dels : list bytes) (p : bytes) : Prop :=
  ~ In p dels /\ forall anc rest, p = anc ++ x2f :: rest -> ~ In anc dels.

Lemma dir_not_accepted fl p1 t1 t :
  parse_fl fl p1 = Some t1 -> parse_fl fl (p1 ++ dotp) = Some t -> False.
Proof.
  intros H1 H2.
  destruct (parse_fl_canon _ _ _ H1) as (b1 & Hb1 & E1 & _ & _ & _ & Hw1 & _).
  destruct (parse_fl_canon _ _ _ H2) as (b2 & Hb2 & E2 & _ & _ & _ & Hw2 & _).
  destruct (Z.eq_dec (t_W t) 256) as [W2|W2].
  - rewrite W2, wtail_256, app_nil_r in E2. rewrite <- E2 in Hb2.
    change dotp with (x2e :: [x70]) in Hb2. now apply nodot_has_dot in Hb2.
  - rewrite wtail_partial in E2 by assumption.
    change (dotps ++ decZ (t_W t)) with (x2e :: x70 :: x2f :: decZ (t_W t)) in E2.
    assert (D : nodot (decZ (t_W t))) by (apply alldig_nodot, decZ_alldig; unfold two63; lia).
    destruct (Z.eq_dec (t_W t1) 256) as [W1|W1].
    + rewrite W1, wtail_256, app_nil_r in E1. subst b1.
      change dotp with (x2e :: [x70]) in E2.
      destruct (first_dot _ _ _ _ Hb1 Hb2 E2) as [_ B]. discriminate B.
    + rewrite wtail_partial in E1 by assumption. subst p1.
      rewrite <- app_assoc in E2.
      change ((dotps ++ decZ (t_W t1)) ++ dotp)
        with (x2e :: x70 :: x2f :: decZ (t_W t1) ++ x2e :: [x70]) in E2.
      destruct (first_dot _ _ _ _ Hb1 Hb2 E2) as [_ B]. inversion B as [B'].
      rewrite <- B' in D. now apply nodot_has_dot in D.
Qed.

Lemma c18_preserves fl root size n t q :
  (size <= Z.of_N n)%Z -> needed_tile n t -> parse_fl fl q = Some t ->
  survives (deleted fl size root) q.
Proof.
  intros Hs Hn Pq. split.
  - intro Hin. apply deleted_ok in Hin.
    destruct Hin as (p1 & t1 & P1 & SL & [E|(pn & t2 & E & P2 & W2 & _)]).
    + subst q. exact (dir_not_accepted _ _ _ _ P1 Pq).
    + rewrite Pq in P2. inversion P2; subst t2. subst q.
      destruct (partial_coords _ _ _ _ _ P1 Pq) as (_ & _ & T1 & _ & _).
      apply (needed_not_left size n t Hs Hn W2).
      apply (strictly_left_coords size t1 t); [now rewrite T1|now rewrite T1|exact SL].
  - intros anc rest E Hin. apply deleted_ok in Hin.
    destruct Hin as (p1 & t1 & P1 & SL & [Ea|(pn & t2 & Ea & P2 & W2 & _)]).
    + subst anc. rewrite <- app_assoc in E.
      change (dotp ++ x2f :: rest) with (dotps ++ rest) in E. subst q.
      destruct (partial_coords _ _ _ _ _ P1 Pq) as (_ & W & T1 & _ & _).
      apply (needed_not_left size n t Hs Hn W).
      apply (strictly_left_coords size t1 t); [now rewrite T1|now rewrite T1|exact SL].
    + subst anc. rewrite <- !app_assoc in E. subst q.
      destruct (partial_coords _ _ _ _ _ P1 Pq) as (_ & _ & _ & Epn & _).
      destruct (parse_fl_canon _ _ _ Pq) as (_ & _ & _ & _ & _ & _ & Hw & _).
      assert (D : noslash (decZ (t_W t))) by (apply alldig_noslash, decZ_alldig; unfold two63; lia).
      rewrite <- Epn in D. now apply noslash_has_slash in D.
Qed.

Lemma cut_first_nodot a : forall r, nodot a -> cut_first dotps (a ++ dotps ++ r) = Some (a, r).
Proof.
  induction a as [|x a IH]; intros r H.
  - cbn [app]. unfold dotps at 2. cbn [app]. reflexivity.
  - apply nodot_cons in H. destruct H as [Hx Ha].
    cbn [app cut_first]. unfold dotps at 1. cbn [cut_prefix].
    destruct (Byte.eqb x2e x) eqn:E.
    + apply byte_eqb_eq in E. subst x. discriminate Hx.
    + fold dotps. rewrite IH by exact Ha. reflexivity.
Qed.

Lemma c18_only fl root size p : In p (deleted fl size root) ->
  exists p1 t1, parse_fl fl p1 = Some t1 /\ strictly_left size t1 /\
    ((t_L t1 < wrap_level)%Z -> (t_L t1 <= 6)%Z /\ (t_N t1 < size / tile_span (t_L t1))%Z) /\
    (p = p1 ++ dotp \/
     exists t2, parse_fl fl p = Some t2 /\ (1 <= t_W t2 < 256)%Z /\
       p = p1 ++ dotps ++ decZ (t_W t2) /\ t1 = mkTile 8 (t_L t2) (t_N t2) 256 /\
       exists sz, stat root p1 = Some (File sz) /\ 0 < sz).
Proof.
  intro Hin. apply deleted_ok in Hin.
  destruct Hin as (p1 & t1 & P1 & SL & Hsh).
  exists p1, t1. split; [exact P1|]. split; [exact SL|]. split.
  - intro Hl. destruct (parse_fl_canon _ _ _ P1) as (_ & _ & _ & _ & _ & HN & _ & _).
    apply strictly_left_sane; [exact Hl|lia|exact SL].
  - destruct Hsh as [E|(pn & t2 & E & P2 & W2 & O)]; [now left|right].
    rewrite E in P2.
    destruct (partial_coords _ _ _ _ _ P1 P2) as (_ & _ & T1 & Epn & Hnd).
    destruct (parse_fl_canon _ _ _ P2) as (_ & _ & _ & _ & _ & _ & Hw & _).
    rewrite <- E in P2. subst pn.
    exists t2. split; [exact P2|]. split; [lia|]. split; [exact E|]. split; [exact T1|].
    unfold override_immutable in O. rewrite E, cut_first_nodot in O by exact Hnd.
    destruct (atoi (decZ (t_W t2))); [|discriminate].
    destruct (stat root p1) as [[sz|es]|]; try discriminate.
    exists sz. split; [reflexivity|]. destruct (N.eqb_spec sz 0); [discriminate|lia].
Qed.

(* ---- readability ---- *)

Definition file_present (root : node) (p : bytes) : Prop := exists sz, stat root p = Some (File sz).

(* the file is there before the run, and neither it nor a directory above it is removed *)
Definition present_after (fl : flavour) (size : Z) (root : node) (p : bytes) : Prop :=
  file_present root p /\ survives (deleted fl size root) p.

(* every tile of the tree of size n is stored (under a path the flavour's parser accepts) *)
Definition complete (fl : flavour) (root : node) (n : N) : Prop :=
  forall t, needed_tile n t -> exists q, parse_fl fl q = Some t /\ file_present root q.

Definition complete_after (fl : flavour) (size : Z) (root : node) (n : N) : Prop :=
  forall t, needed_tile n t -> exists q, parse_fl fl q = Some t /\ present_after fl size root q.

Lemma c18_readable fl root size n : (size <= Z.of_N n)%Z ->
  complete fl root n -> complete_after fl size root n.
Proof.
  intros Hs C t Ht. destruct (C t Ht) as (q & Pq & Fq). exists q. split; [exact Pq|].
  split; [exact Fq|]. exact (c18_preserves fl root size n t q Hs Ht Pq).
Qed.

(* the same for a log directory, in terms of sunlight.TilePath and the coordinates of
   Merkle/Tiles.v; l is the level of a hash tile, or -1 / -2 for the data / names tile that
   accompanies a level-0 tile *)
Lemma c18_preserves_log_paths root size n c l q :
  (size <= Z.of_N n)%Z -> (Z.of_N n < two63)%Z -> In c (tiles_needed n) ->
  (l = Z.of_nat (tc_L c) \/ (tc_L c = O /\ (l = (-1)%Z \/ l = (-2)%Z))) ->
  tile_path (mkTile 8 l (Z.of_N (tc_N c)) (Z.of_N (tc_W c))) = Some q ->
  survives (deleted FlLog size root) q.
Proof.
  intros Hs Hb Hc Hl Hq.
  set (t := mkTile 8 l (Z.of_N (tc_N c)) (Z.of_N (tc_W c))) in *.
  assert (V : valid_tile t = true).
  { pose proof (needed_coords n c Hc) as (L9 & K).
    pose proof (shr8_le (S (tc_L c)) n).
    unfold valid_tile, t. cbn [t_H t_L t_N t_W]. unfold two63 in *.
    destruct K as [[W N']|[W N']]; destruct Hl as [Hl|(H0 & [Hl|Hl])]; subst l; lia. }
  destruct (path_roundtrip t V) as (s & Es & Ps). rewrite Hq in Es. inversion Es; subst s.
  apply (c18_preserves FlLog root size n t q Hs); [|exact Ps].
  exists c. unfold t. cbn [t_H t_L t_N t_W]. repeat split; auto.
Qed.

(* ---- the one place where the guard of cleanDir is not the guard of C18 ---- *)

(* a stray level directory named 2^61-1: TileHeight * (L + 1) wraps to 0, tileSize is 1, and the
   "right edge" guard degenerates to N >= size *)
Definition wrap_root : node :=
  Dir [(s2b "tile", Dir [(s2b "2305843009213693951",
         Dir [(s2b "000", File 1); (s2b "000.p", Dir [(s2b "5", File 1)])])])].

Lemma c18_only_wrapping_level_refuted :
  exists root size p t, In p (deleted FlLog size root) /\ parse_fl FlLog p = Some t /\
    (t_W t < 256)%Z /\ (8 < t_L t)%Z.
Proof.
  exists wrap_root, 1%Z, (s2b "tile/2305843009213693951/000.p/5"),
         (mkTile 8 2305843009213693951 0 5).
  split; [vm_compute; auto|]. split; [vm_compute; reflexivity|]. split; reflexivity.
Qed.
