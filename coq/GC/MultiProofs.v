(* GC/MultiProofs.v — a run over several directories cleans each one as if it were alone. *)
From SL Require Import Base.Bytes Codec.Leaf Merkle.Tiles GC.Model GC.Proofs GC.Multi.
Open Scope N_scope.

Lemma untouched_length ds : length (untouched ds) = length ds.
Proof. apply map_length. Qed.

Lemma untouched_nth ds i : nth i (untouched ds) [] = [].
Proof.
  revert i. induction ds as [|d r IH]; intros [|i]; cbn; auto.
Qed.

Lemma clean_run_length ds : length (fst (clean_run ds)) = length ds.
Proof.
  induction ds as [|d r IH]; [reflexivity|]. cbn [clean_run].
  destruct (fatal d); [cbn; now rewrite untouched_length|].
  destruct (clean_one d) as [del s]. destruct (clean_run r) as [dels s2]. cbn [fst] in IH.
  destruct s; cbn; now rewrite ?untouched_length, ?IH.
Qed.

(* every directory of a run loses what [clean_one] removes from it, or (the process ended before
   it got there) nothing at all: no directory's result depends on the other directories, except
   through "was it reached" *)
Lemma clean_run_each ds : forall i d, nth_error ds i = Some d ->
  deleted_in_run ds i = fst (clean_one d) \/ deleted_in_run ds i = [].
Proof.
  unfold deleted_in_run. induction ds as [|d0 r IH]; intros i d Hi; [destruct i; discriminate|].
  cbn [clean_run]. destruct (fatal d0) eqn:F.
  { right. cbn [fst]. destruct i; [reflexivity|]. cbn [nth]. apply untouched_nth. }
  destruct (clean_one d0) as [del s] eqn:C1. destruct (clean_run r) as [dels s2] eqn:CR.
  cbn [fst] in IH.
  destruct i as [|i].
  - cbn in Hi. inversion Hi; subst d0. left. rewrite C1. destruct s; reflexivity.
  - cbn [nth_error] in Hi. destruct s; cbn [fst nth].
    + apply IH; exact Hi.
    + apply IH; exact Hi.
    + right. apply untouched_nth.
Qed.

(* a run that is not cut short = cleaning each directory on its own *)
Lemma clean_run_all ds : no_abort ds ->
  fst (clean_run ds) = map (fun d => fst (clean_one d)) ds.
Proof.
  induction 1 as [|d r (F & P) _ IH]; [reflexivity|]. cbn [clean_run map]. rewrite F.
  destruct (clean_one d) as [del s] eqn:C1. destruct (clean_run r) as [dels s2].
  cbn [fst snd] in *. destruct s; try (exfalso; now apply P); cbn [fst]; now rewrite IH.
Qed.

Lemma no_abort_single d : no_abort [d] <-> fatal d = false /\ snd (clean_one d) <> Panic.
Proof.
  split; [intros H; now inversion H|]. intros H. constructor; [exact H|constructor].
Qed.

(* independence: in a run that is not cut short, the i-th directory loses exactly what a run over
   that directory alone removes, whatever the other directories (and their sizes) are *)
Lemma clean_run_independent ds i d : no_abort ds -> nth_error ds i = Some d ->
  deleted_in_run ds i = deleted_in_run [d] 0.
Proof.
  intros NA Hi. unfold deleted_in_run.
  assert (NA1 : no_abort [d]).
  { apply no_abort_single. unfold no_abort in NA. rewrite Forall_forall in NA.
    apply NA. eapply nth_error_In; exact Hi. }
  rewrite (clean_run_all ds NA), (clean_run_all [d] NA1). cbn [map nth].
  apply nth_error_split in Hi. destruct Hi as (l1 & l2 & -> & <-).
  rewrite map_app. cbn [map]. rewrite app_nth2; rewrite map_length; [|lia].
  now rewrite Nat.sub_diag.
Qed.

Lemma clean_one_deleted d p : In p (fst (clean_one d)) ->
  exists size, ti_size d = Some size /\ In p (deleted (ti_fl d) size (ti_root d)).
Proof.
  unfold clean_one, deleted. destruct (ti_skip d); [intros []|].
  destruct (ti_size d) as [size|]; [|intros []]. intros H. exists size. split; [reflexivity|exact H].
Qed.

(* whatever else the run walks over, what it removes from its i-th directory is removed by the
   single-directory model with that directory's own size *)
Lemma c18_run_sub ds i d p : nth_error ds i = Some d -> In p (deleted_in_run ds i) ->
  exists size, ti_size d = Some size /\ In p (deleted (ti_fl d) size (ti_root d)).
Proof.
  intros Hi Hp. destruct (clean_run_each ds i d Hi) as [E|E]; rewrite E in Hp; [|destruct Hp].
  now apply clean_one_deleted.
Qed.

(* C18_only for every directory of a run *)
Lemma c18_run_only ds i d p : nth_error ds i = Some d -> In p (deleted_in_run ds i) ->
  exists size, ti_size d = Some size /\
  exists p1 t1, parse_fl (ti_fl d) p1 = Some t1 /\ strictly_left size t1 /\
    ((t_L t1 < wrap_level)%Z -> (t_L t1 <= 6)%Z /\ (t_N t1 < size / tile_span (t_L t1))%Z) /\
    (p = p1 ++ dotp \/
     exists t2, parse_fl (ti_fl d) p = Some t2 /\ (1 <= t_W t2 < 256)%Z /\
       p = p1 ++ dotps ++ decZ (t_W t2) /\ t1 = mkTile 8 (t_L t2) (t_N t2) 256 /\
       exists sz, stat (ti_root d) p1 = Some (File sz) /\ 0 < sz).
Proof.
  intros Hi Hp. destruct (c18_run_sub ds i d p Hi Hp) as (size & Hs & Hd).
  exists size. split; [exact Hs|]. exact (c18_only _ _ _ _ Hd).
Qed.

Lemma survives_sub dels dels' p : (forall q, In q dels' -> In q dels) ->
  survives dels p -> survives dels' p.
Proof.
  intros S (A & B). split; [intro H; apply A, S, H|]. intros anc rest E H. exact (B anc rest E (S _ H)).
Qed.

(* C18_preserves / C18_readable for every directory of a run: no tile of a tree at least as large
   as the directory's OWN published size is removed, whatever the other directories are *)
Lemma c18_run_preserves ds i d size n t q : nth_error ds i = Some d -> ti_size d = Some size ->
  (size <= Z.of_N n)%Z -> needed_tile n t -> parse_fl (ti_fl d) q = Some t ->
  survives (deleted_in_run ds i) q.
Proof.
  intros Hi Hs Hn Ht Hq.
  apply (survives_sub (deleted (ti_fl d) size (ti_root d))).
  - intros p Hp. destruct (c18_run_sub ds i d p Hi Hp) as (size' & Hs' & Hd).
    rewrite Hs in Hs'. inversion Hs'; subst size'. exact Hd.
  - exact (c18_preserves _ _ _ _ _ _ Hn Ht Hq).
Qed.

Definition complete_after_run (ds : list tree_in) (i : nat) (d : tree_in) (n : N) : Prop :=
  forall t, needed_tile n t ->
    exists q, parse_fl (ti_fl d) q = Some t /\ file_present (ti_root d) q /\
              survives (deleted_in_run ds i) q.

Lemma c18_run_readable ds i d size n : nth_error ds i = Some d -> ti_size d = Some size ->
  (size <= Z.of_N n)%Z -> complete (ti_fl d) (ti_root d) n -> complete_after_run ds i d n.
Proof.
  intros Hi Hs Hn C t Ht. destruct (C t Ht) as (q & Pq & Fq). exists q.
  split; [exact Pq|]. split; [exact Fq|]. exact (c18_run_preserves ds i d size n t q Hi Hs Hn Ht Pq).
Qed.
