(* GC/Model.v — executable model of cmd/partial-aftersun (the partial-tile garbage collector).

   A directory is a finite tree of named entries; [clean_dir] transcribes cleanDir and
   [override_immutable] the decision part of overrideImmutable, in the order in which the Go code
   takes its decisions, including the early error returns that stop the walk and the run-time
   panic of the tile-size computation at absurd levels. Output: the paths removed so far (in the
   order of removal) and how the walk ended. Definitions only; proofs are in GC/Proofs.v.

   What is NOT modelled (specified instead): os.Root / io/fs.ReadDir (entries sorted by name: the
   directory tree is given in that order), symbolic links, concurrent writers, signal handling
   (ctx.Err), the statistics counters and the FS_IOC_SETFLAGS ioctl itself. *)
From SL Require Export Base.Bytes Codec.Leaf.
Open Scope N_scope.

(* ---------- directories ---------- *)

Inductive node :=
| File (size : N)                          (* regular file with its length in bytes *)
| Dir (entries : list (bytes * node)).     (* fs.ReadDir order *)

Fixpoint find_entry (nm : bytes) (es : list (bytes * node)) : option node :=
  match es with
  | [] => None
  | (n, c) :: r => if bytes_eqb n nm then Some c else find_entry nm r
  end.

(* resolve a list of path elements below a node *)
Fixpoint lookup (segs : list bytes) (n : node) : option node :=
  match segs with
  | [] => Some n
  | s :: r =>
    match n with
    | File _ => None
    | Dir es => match find_entry s es with Some c => lookup r c | None => None end
    end
  end.

Definition stat (root : node) (path : bytes) : option node := lookup (split_slash path) root.

(* ---------- strings ---------- *)

Definition dotp : bytes := [x2e; x70].          (* ".p"  *)
Definition dotps : bytes := [x2e; x70; x2f].    (* ".p/" *)

(* filepath.Join(a, b) for a clean a and a directory entry name b *)
Definition join (a b : bytes) : bytes := a ++ x2f :: b.

(* strings.CutSuffix(s, ".p") *)
Definition cut_suffix_p (s : bytes) : option bytes :=
  if has_suffix dotp s then Some (strip_last2 s) else None.

(* strings.TrimSuffix(s, ".p") *)
Definition trim_suffix_p (s : bytes) : bytes :=
  if has_suffix dotp s then strip_last2 s else s.

(* strings.Cut(s, sep): split around the FIRST occurrence of sep *)
Fixpoint cut_first (sep s : bytes) : option (bytes * bytes) :=
  match cut_prefix sep s with
  | Some r => Some ([], r)
  | None =>
    match s with
    | [] => None
    | b :: r => match cut_first sep r with Some (a, c) => Some (b :: a, c) | None => None end
    end
  end.

Definition has_prefix_x (s : bytes) : bool :=
  match s with b :: _ => Byte.eqb b x78 | [] => false end.

(* ---------- the two path flavours ---------- *)

Inductive flavour := FlLog | FlMirror.

(* torchwood.ParseTilePath (c2sp.org/tlog-tiles: tile/<L>/<N>[.p/<W>] and tile/entries/<N>[.p/<W>]) *)
Definition tw_parse_tile_path (path : bytes) : option tile :=
  match cut_prefix (s2b "tile/entries/") path with
  | Some rest => tlog_parse_tile_path (s2b "tile/8/data/" ++ rest)
  | None =>
    match cut_prefix (s2b "tile/") path with
    | Some rest => tlog_parse_tile_path (s2b "tile/8/" ++ rest)
    | None => None
    end
  end.

(* logs: sunlight.ParseTilePath; witness mirrors: torchwood.ParseTilePath *)
Definition parse_fl (fl : flavour) : bytes -> option tile :=
  match fl with FlLog => parse_tile_path | FlMirror => tw_parse_tile_path end.

(* ---------- Go integer arithmetic ---------- *)

(* two's complement wrap-around of int / int64 (64-bit platform) *)
Definition wrap64 (z : Z) : Z := ((z + two63) mod two64 - two63)%Z.

(* tileSize := int64(1) << (sunlight.TileHeight * (max(0, t.L) + 1))
   None: run-time panic (negative shift amount). A shift count >= 64 yields 0. *)
Definition tile_size_go (l : Z) : option Z :=
  let sh := wrap64 (8 * wrap64 (Z.max 0 l + 1)) in
  if (sh <? 0)%Z then None
  else if (sh >=? 64)%Z then Some 0%Z
  else Some (wrap64 (2 ^ sh)).

(* ---------- outcome of a walk ---------- *)

Inductive status := Ok | Err | Panic.

Definition result := (list bytes * status)%type.

Definition is_ok (s : status) : bool := match s with Ok => true | _ => false end.

(* ---------- overrideImmutable: the checks before the flag is cleared ---------- *)

Definition override_immutable (root : node) (name : bytes) : bool :=
  match cut_first dotps name with
  | None => false                                   (* "failed to parse partial tile path" *)
  | Some (full, size) =>
    match atoi size with
    | None => false                                 (* "failed to parse partial tile size" *)
    | Some _ =>
      match stat root full with
      | None => false                               (* "failed to stat full tile" *)
      | Some (Dir _) => false                       (* "full tile ... is a directory" *)
      | Some (File sz) => negb (sz =? 0)            (* "full tile ... is empty" *)
      end
    end
  end.

(* root.Remove(name) of an entry of a ".p" directory: files and empty directories go away *)
Definition removable (c : node) : bool :=
  match c with File _ => true | Dir [] => true | Dir (_ :: _) => false end.

(* the loop over the entries of one ".p" directory *)
Fixpoint clean_partials (fl : flavour) (root : node) (dir : bytes) (ps : list (bytes * node))
  : result :=
  match ps with
  | [] => ([], Ok)
  | (pn, pc) :: r =>
    let name := join dir pn in
    match parse_fl fl name with
    | None => ([], Err)                             (* "failed to parse tile path" *)
    | Some t =>
      if (t_W t =? 256)%Z then ([], Err)            (* "... is not a partial tile" *)
      else if negb (override_immutable root name) then ([], Err)
      else if negb (removable pc) then ([], Err)    (* root.Remove: directory not empty *)
      else let '(d, s) := clean_partials fl root dir r in (name :: d, s)
    end
  end.

(* the body of cleanDir's loop for an entry whose name does not start with "x" *)
Definition clean_entry (fl : flavour) (root : node) (size : Z) (prefix : bytes)
    (siblings : list (bytes * node)) (nm : bytes) (c : node) : result :=
  let name := join prefix nm in
  (* first level of safety: a sibling with the name of the full tile must exist *)
  match cut_suffix_p nm with
  | None => ([], Ok)
  | Some full =>
    match find_entry full siblings with
    | None => ([], Ok)
    | Some _ =>
      (* second level of safety: not at the right edge of the tree *)
      match parse_fl fl (trim_suffix_p name) with
      | None => ([], Err)
      | Some t =>
        match tile_size_go (t_L t) with
        | None => ([], Panic)
        | Some ts =>
          if (ts =? 0)%Z then ([], Panic)           (* integer divide by zero *)
          else if (t_N t >=? Z.quot size ts)%Z then ([], Ok)
          else
            match c with
            | File _ => ([], Err)                   (* fs.ReadDir of a non-directory *)
            | Dir ps =>
              let '(d, s) := clean_partials fl root name ps in
              if is_ok s then (d ++ [name], Ok) else (d, s)
            end
        end
      end
    end
  end.

(* cleanDir(ctx, logger, root, prefix, size, parseTilePath); n is the entry found at prefix *)
Fixpoint clean_dir (fl : flavour) (root : node) (size : Z) (prefix : bytes) (n : node) {struct n}
  : result :=
  match n with
  | File _ => ([], Err)                             (* fs.ReadDir fails *)
  | Dir es =>
    (fix loop (l : list (bytes * node)) : result :=
       match l with
       | [] => ([], Ok)
       | (nm, c) :: r =>
         let '(d, s) :=
           if has_prefix_x nm then clean_dir fl root size (join prefix nm) c
           else clean_entry fl root size prefix es nm c in
         if is_ok s then let '(d2, s2) := loop r in (d ++ d2, s2) else (d, s)
       end) es
  end.

(* the loop over the entries of "tile" in main (both the log and the mirror variant): the first
   failing level ends the processing of this directory *)
Fixpoint clean_levels (fl : flavour) (root : node) (size : Z) (levels : list (bytes * node))
  : result :=
  match levels with
  | [] => ([], Ok)
  | (nm, c) :: r =>
    let '(d, s) := clean_dir fl root size (join (s2b "tile") nm) c in
    if is_ok s then let '(d2, s2) := clean_levels fl root size r in (d ++ d2, s2) else (d, s)
  end.

(* one log / mirror directory. size = None: the checkpoint could not be read or verified
   (logSize / mirroredLogSize failed), nothing is touched *)
Definition clean_root (fl : flavour) (size : option Z) (root : node) : result :=
  match size with
  | None => ([], Err)
  | Some sz =>
    match stat root (s2b "tile") with
    | None => ([], Ok)                              (* "tile directory does not exist, skipping" *)
    | Some (File _) => ([], Err)
    | Some (Dir levels) => clean_levels fl root sz levels
    end
  end.

Definition deleted (fl : flavour) (size : Z) (root : node) : list bytes :=
  fst (clean_root fl (Some size) root).

(* ---------- rendering for the correspondence driver ---------- *)

Definition show_status (s : status) : bytes :=
  match s with Ok => s2b "ok" | Err => s2b "err" | Panic => s2b "panic" end.

Definition show_result (r : result) : bytes :=
  show_status (snd r) ++ x3a :: join_with x2c (map hx (fst r)).

Definition flavour_of (b : bool) : flavour := if b then FlMirror else FlLog.

(* has_size = false: the size field of the harness line is "-" (checkpoint unreadable or not
   verifiable). skip: the size field is "skip" (main skips a mirror directory that has no
   checkpoint yet, before cleanDir is reached). *)
Definition run_gc (mirror : bool) (has_size : bool) (skip : bool) (size : Z) (root : node) : bytes :=
  if skip then show_result ([], Ok) else
  show_result (clean_root (flavour_of mirror) (if has_size then Some size else None) root).

Definition run_twpath (p : bytes) : bytes :=
  match tw_parse_tile_path p with
  | Some t => s2b "ok:" ++ join_with x2c [decZ (t_H t); decZ (t_L t); decZ (t_N t); decZ (t_W t)]
  | None => s2b "err"
  end.

Definition run_tilesize (l : Z) : bytes :=
  match tile_size_go l with Some z => s2b "ok:" ++ decZ z | None => s2b "panic" end.
