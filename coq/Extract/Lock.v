From Coq Require Import Extraction ExtrOcamlBasic.
From SL Require Import Lock.Run.
Extraction Language OCaml.
Extraction "lock_gen.ml" byte_of_N byte_to_N parse_dec_Z decZ
  SFetch Fetch Val
  init_sqlite init_dynamo init_etagh init_etagv
  run_sqlite run_dynamo run_ecfetch run_etagh run_etagv
  mk_hop lin_init lin_step lin_alive lin_count z_to_n linearizable_b linearizable_weak_b.
