From Coq Require Import Extraction ExtrOcamlBasic.
From SL Require Import Mirror.Run.
Extraction Language OCaml.
Extraction "mirror_gen.ml" byte_of_N byte_to_N parse_dec_Z decZ dec
  binit step_show show_world store_lines
  EvPending EvBegin EvPkg EvCommit EvRestart EvGC mkReq mkPkg PProof PBadCount PCut
  OSelf OUnknown ONotMirrored HCtype HOrigin HStart HEnd HTicket TkNone TkIssued TkGarbage
  FOk FFailNotApplied FFailApplied.
