From Coq Require Import Extraction ExtrOcamlBasic.
From SL Require Import Ckpt.Run.
Extraction Language OCaml.
Extraction "ckpt_gen.ml" byte_of_N byte_to_N parse_dec_Z decZ
  run_parse run_format run_b64d run_b64e run_name run_textok run_sthin run_dsig run_verify
  run_inject run_ts run_sign.
