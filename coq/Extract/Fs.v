From Coq Require Import Extraction ExtrOcamlBasic.
From SL Require Import Base.Bytes FS.Model FS.Run.
Extraction Language OCaml.
Extraction "fs_gen.ml" byte_of_N byte_to_N parse_dec_Z decZ dec split_slash
  init_fs step exec run_reset run_up run_fetch run_discard gen_data digest
  render trace_up trace_discard trace_up_fault check_op durable_ok render_failure spec_get spec_set key_path
  localize store tmp_name base upload tree.
