From Coq Require Import Extraction ExtrOcamlBasic.
From SL Require Import Merkle.Proofs.
Extraction Language OCaml.
Extraction "merkle_gen.ml" byte_of_N byte_to_N parse_dec_Z decZ
  run_tree run_record run_subtree run_valid run_mth.
