From Coq Require Import Extraction ExtrOcamlBasic.
From SL Require Import Submit.Run.
Extraction Language OCaml.
Extraction "submit_gen.ml" byte_of_N byte_to_N parse_dec_Z decZ
  mk_acert run_submit run_load run_setroots run_upissuers run_submit_dedup run_cachekey.
