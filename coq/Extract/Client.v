From Coq Require Import Extraction ExtrOcamlBasic.
From SL Require Import Client.Run.
Extraction Language OCaml.
Extraction "client_gen.ml" byte_of_N byte_to_N parse_dec_Z decZ
  true_leaves run_root run_entries run_entry mk_sct run_incl run_keyhash run_logid
  mk_sigline mk_note run_ckpt run_plan run_plan_proof.
