From Coq Require Import Extraction ExtrOcamlBasic.
From SL Require Import GC.Model GC.Multi.
Extraction Language OCaml.
Extraction "gc_gen.ml" byte_of_N byte_to_N parse_dec_Z decZ
  File Dir run_gc run_twpath run_tilesize run_gcmulti.
