From Coq Require Import Extraction ExtrOcamlBasic.
From SL Require Import Codec.Run.
Extraction Language OCaml.
Extraction "codec_gen.ml" byte_of_N byte_to_N parse_dec_Z decZ
  mk_leaf run_append run_mleaf run_read run_readarch run_mext run_pext run_tpath run_ppath.
