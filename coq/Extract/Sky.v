From Coq Require Import Extraction ExtrOcamlBasic.
From SL Require Import Sky.Run.
Extraction Language OCaml.
Extraction "sky_gen.ml" byte_of_N byte_to_N parse_dec_Z decZ
  mk_entry mk_logsjson mk_config mk_fs run_req run_route
  mkLog mkDir mk_wit run_health.
