From Coq Require Import Extraction ExtrOcamlBasic.
From SL Require Import Ctlog.Run Ctlog.Legacy Ctlog.Example.
Extraction Language OCaml.
Extraction "seq_gen.ml" byte_of_N byte_to_N parse_dec_Z decZ dec
  init step_show show_world store_keys store_digest mkEntry mkCfg mkCp
  EvClock FOk OB UHash SCancel
  cache_get2 lc_load lc_drop truncate_rows show_get mkLc toy_sha.
