From Coq Require Import Extraction ExtrOcamlBasic.
From SL Require Import Witness.Run.
Extraction Language OCaml.
Extraction "witness_gen.ml" byte_of_N byte_to_N parse_dec_Z decZ
  n_of_dec bcfg w_init decode_add decode_sub show_output show_writes add_seq step_held full bstep
  NMalformed NNote TCkpt TBad mkSig SValid SInvalid FOk FFailNotApplied FFailApplied
  ERestart EAddLog EAdd ESub.
