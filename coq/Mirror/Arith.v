(* Mirror/Arith.v — powers of two and 256, and what tlog.NewTiles (Tiles.new_tiles) contains. *)
From SL Require Import Merkle.Tiles Mirror.Model.
From Coq Require Import ZifyN ZifyNat ZifyBool Lia.
Ltac Zify.zify_post_hook ::= Z.div_mod_to_equations.
Open Scope N_scope.

Lemma p2_pos i : 0 < p2 i.
Proof. unfold p2. apply N.neq_0_lt_0, N.pow_nonzero. lia. Qed.

Lemma p2_0 : p2 0 = 1.
Proof. reflexivity. Qed.

Lemma p2_S i : p2 (S i) = 2 * p2 i.
Proof. unfold p2. rewrite Nat2N.inj_succ, N.pow_succ_r'. reflexivity. Qed.

Lemma p2_add a b : p2 (a + b) = p2 a * p2 b.
Proof. unfold p2. rewrite Nat2N.inj_add, N.pow_add_r. reflexivity. Qed.

Lemma p2_8 : p2 8 = 256.
Proof. reflexivity. Qed.

Lemma p2_nat i : N.to_nat (p2 i) = (2 ^ i)%nat.
Proof. unfold p2. rewrite N2Nat.inj_pow, Nat2N.id. reflexivity. Qed.

Lemma p256_pos L : 0 < p256 L.
Proof. unfold p256. apply N.neq_0_lt_0, N.pow_nonzero. lia. Qed.

Lemma p256_0 : p256 0 = 1.
Proof. reflexivity. Qed.

Lemma p256_S L : p256 (S L) = 256 * p256 L.
Proof. unfold p256. rewrite Nat2N.inj_succ, N.pow_succ_r'. reflexivity. Qed.

Lemma p256_p2 L : p256 L = p2 (8 * L).
Proof.
  unfold p256, p2. change 256 with (2 ^ 8). rewrite <- N.pow_mul_r. f_equal. lia.
Qed.

Lemma p256_ge1 L : 1 <= p256 L.
Proof. pose proof (p256_pos L). lia. Qed.

Lemma p256_mono a b : (a <= b)%nat -> p256 a <= p256 b.
Proof. intro H. unfold p256. apply N.pow_le_mono_r; lia. Qed.

Lemma p256_ge256 L : (1 <= L)%nat -> 256 <= p256 L.
Proof. intro H. change 256 with (p256 1). now apply p256_mono. Qed.

Lemma p256_divides_256 L : (1 <= L)%nat -> exists c, p256 L = c * 256.
Proof.
  intro H. destruct L as [|L]; [lia|]. exists (p256 L). rewrite p256_S. lia.
Qed.

Lemma shr8_div L n : shr8 L n = n / p256 L.
Proof.
  unfold shr8, p256. rewrite N.shiftr_div_pow2. f_equal.
  change 256 with (2 ^ 8). rewrite <- N.pow_mul_r. reflexivity.
Qed.

Lemma div_p256_S L n : n / p256 (S L) = n / p256 L / 256.
Proof.
  rewrite p256_S, N.mul_comm, N.div_div; [reflexivity| |lia].
  pose proof (p256_pos L). lia.
Qed.

Lemma div_p256_mono L L' n : (L <= L')%nat -> n / p256 L' <= n / p256 L.
Proof.
  intro H. apply N.div_le_compat_l. split; [apply p256_pos|now apply p256_mono].
Qed.

(* k complete nodes of 256^L leaves fit below n *)
Lemma div_p256_ge L n k : k * p256 L <= n <-> k <= n / p256 L.
Proof.
  pose proof (p256_pos L) as P. split; intro H.
  - apply N.div_le_lower_bound; lia.
  - pose proof (N.mul_div_le n (p256 L)). nia.
Qed.

Lemma div_p256_exact L k : k * p256 L / p256 L = k.
Proof. apply N.div_mul. pose proof (p256_pos L). lia. Qed.

(* a level-L boundary that is 256 below another multiple ... : the size 256 earlier has one
   complete level-L node less (L >= 1) *)
Lemma div_p256_pred L k : (1 <= L)%nat -> 1 <= k -> (k * p256 L - 256) / p256 L = k - 1.
Proof.
  intros HL Hk. pose proof (p256_ge256 L HL) as G.
  symmetry. apply (N.div_unique _ _ _ (p256 L - 256)); nia.
Qed.

(* ---------- tlog.NewTiles ---------- *)
Lemma in_full_tiles L a b t : In t (full_tiles L a b) <->
  tc_L t = L /\ tc_W t = 256 /\ a <= tc_N t < b.
Proof.
  unfold full_tiles. rewrite in_map_iff. split.
  - intros (j & E & Hj). apply in_seq in Hj. subst t. cbn [tc_L tc_N tc_W]. repeat split; lia.
  - intros (A & B & C). exists (N.to_nat (tc_N t - a)). split.
    + destruct t as [l n w]. cbn [tc_L tc_N tc_W] in *. subst. f_equal. lia.
    + apply in_seq. lia.
Qed.

Definition level_part (L : nat) (old new : N) : list tcoord :=
  let oldN := old / p256 L in
  let newN := new / p256 L in
  if oldN =? newN then [] else
    full_tiles L (oldN / 256) (newN / 256) ++
    (if 0 <? newN mod 256 then [mkT L (newN / 256) (newN mod 256)] else []).

Lemma new_tiles_fuel_unfold f L old new :
  new_tiles_fuel (S f) L old new =
  if new / p256 L =? 0 then [] else level_part L old new ++ new_tiles_fuel f (S L) old new.
Proof.
  cbn [new_tiles_fuel]. cbv zeta. rewrite !shr8_div. unfold level_part. cbv zeta.
  destruct (new / p256 L =? 0); [reflexivity|].
  f_equal. destruct (old / p256 L =? new / p256 L); [reflexivity|].
  f_equal. generalize (new / p256 L). intro x.
  replace (x - x / 256 * 256) with (x mod 256) by lia.
  reflexivity.
Qed.

Lemma in_level_part L old new t : In t (level_part L old new) <->
  tc_L t = L /\ old / p256 L <> new / p256 L /\
  ((tc_W t = 256 /\ old / p256 L / 256 <= tc_N t < new / p256 L / 256) \/
   (tc_N t = new / p256 L / 256 /\ tc_W t = (new / p256 L) mod 256 /\ 0 < tc_W t)).
Proof.
  unfold level_part. cbv zeta.
  destruct (N.eqb_spec (old / p256 L) (new / p256 L)) as [E|E].
  - split; [intros []|]. intros (_ & A & _). now elim A.
  - rewrite in_app_iff, in_full_tiles. split.
    + intros [(A & B & C)|H].
      * split; [exact A|]. split; [exact E|]. left. split; [exact B|exact C].
      * destruct (N.ltb_spec 0 ((new / p256 L) mod 256)) as [W|W]; [|destruct H].
        destruct H as [H|[]]. subst t. cbn [tc_L tc_N tc_W].
        split; [reflexivity|]. split; [exact E|]. right. repeat split. exact W.
    + intros (A & _ & [(B & C)|(B & C & D)]).
      * left. repeat split; try assumption; apply C.
      * right. destruct (N.ltb_spec 0 ((new / p256 L) mod 256)) as [W|W]; [|lia].
        left. destruct t as [l n w]. cbn [tc_L tc_N tc_W] in *. subst. reflexivity.
Qed.

Lemma in_new_tiles_fuel f : forall L old new t, In t (new_tiles_fuel f L old new) ->
  exists L', (L <= L' < L + f)%nat /\ new / p256 L' <> 0 /\ In t (level_part L' old new).
Proof.
  induction f as [|f IH]; intros L old new t H; [destruct H|].
  rewrite new_tiles_fuel_unfold in H.
  destruct (N.eqb_spec (new / p256 L) 0) as [E|E]; [destruct H|].
  apply in_app_or in H. destruct H as [H|H].
  - exists L. split; [lia|]. split; assumption.
  - apply IH in H. destruct H as (L' & A & B & C). exists L'. split; [lia|]. split; assumption.
Qed.

Lemma new_tiles_fuel_complete f : forall L old new L' t, (L <= L' < L + f)%nat ->
  new / p256 L' <> 0 -> In t (level_part L' old new) -> In t (new_tiles_fuel f L old new).
Proof.
  induction f as [|f IH]; intros L old new L' t HL Hn H; [lia|].
  rewrite new_tiles_fuel_unfold.
  assert (G : new / p256 L <> 0).
  { pose proof (div_p256_mono L L' new ltac:(lia)) as X. intro Z. rewrite Z in X.
    apply N.le_0_r in X. contradiction. }
  destruct (N.eqb_spec (new / p256 L) 0) as [E|E]; [contradiction|].
  apply in_or_app. destruct (Nat.eq_dec L L') as [->|D]; [left; exact H|].
  right. apply (IH (S L) old new L'); [lia|assumption|assumption].
Qed.

(* every tile NewTiles lists lies within the new tree *)
Lemma new_tiles_bounds old new t : In t (new_tiles old new) ->
  1 <= tc_W t <= 256 /\ (tc_N t * 256 + tc_W t) * p256 (tc_L t) <= new.
Proof.
  intro H. apply in_new_tiles_fuel in H. destruct H as (L' & _ & Hn & H).
  apply in_level_part in H. destruct H as (A & E & H). rewrite A.
  pose proof (p256_pos L') as P.
  set (nn := new / p256 L') in *.
  assert (Hnn : nn * p256 L' <= new) by (apply div_p256_ge; unfold nn; lia).
  destruct H as [(B & C)|(B & C & D)].
  - rewrite B. split; [lia|]. nia.
  - rewrite B, C. assert (nn mod 256 < 256) by (apply N.mod_lt; lia).
    split; [lia|].
    replace (nn / 256 * 256 + nn mod 256) with nn by lia. exact Hnn.
Qed.

Lemma in_new_tiles old new L t : (L < 9)%nat -> new / p256 L <> 0 ->
  In t (level_part L old new) -> In t (new_tiles old new).
Proof.
  intros HL Hn H. unfold new_tiles. apply (new_tiles_fuel_complete 9 0 old new L); [lia|assumption|assumption].
Qed.
