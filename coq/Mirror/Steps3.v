(* Mirror/Steps3.v — MInv is preserved by the processing of one entry package (part 3), hence by
   every event; authentication before write. *)
From SL Require Import Merkle.Tiles Merkle.Proofs Merkle.Sound Mirror.Model Mirror.Arith Mirror.Trees
  Mirror.Inv Mirror.Reader Mirror.Writer Mirror.InvDef Mirror.Steps Mirror.Steps2.
From Coq Require Import ZifyN ZifyNat ZifyBool Lia.
Ltac Zify.zify_post_hook ::= Z.div_mod_to_equations.
Open Scope N_scope.

Section Steps3.
Variable Ent : Type.
Variable Hsh : Type.
Variable hleaf : Ent -> Hsh.
Variable hnode : Hsh -> Hsh -> Hsh.
Variable hempty : Hsh.
Variable heqb : Hsh -> Hsh -> bool.
Variable eeqb : Ent -> Ent -> bool.
Variable LOG : list Ent.
Hypothesis heqb_eq : forall a b, heqb a b = true <-> a = b.
Hypothesis hnode_inj : forall a b c d, hnode a b = hnode c d -> a = c /\ b = d.
Hypothesis hleaf_inj : forall a b, hleaf a = hleaf b -> a = b.
Hypothesis LOG_small : N.of_nat (length LOG) < 2 ^ 62.

Notation store := (store Ent Hsh).
Notation world := (world Ent Hsh).
Notation session := (session Ent Hsh).
Notation ckpt := (ckpt Hsh).
Notation LHs := (LH Ent Hsh hleaf LOG).
Notation nlog := (nlog Ent LOG).
Notation node := (node Ent Hsh hleaf hnode LOG).
Notation store_ok := (store_ok Ent Hsh hleaf hnode LOG).
Notation data_ok := (data_ok Ent LOG).
Notation hi_ok := (hi_ok Ent Hsh hleaf hnode LOG).
Notation cache_ok := (cache_ok Ent Hsh hleaf hnode LOG).
Notation dbh := (dbh Ent Hsh).
Notation grows := (grows Ent Hsh).
Notation pres := (pres Ent Hsh).
Notation rows_ok := (rows_ok Ent Hsh).
Notation cut_ok := (cut_ok Ent Hsh).
Notation MInv := (MInv Ent Hsh hleaf hnode hempty LOG).
Notation IS := (IS Ent Hsh hleaf hnode LOG).
Notation ck_ok := (ck_ok Ent Hsh hleaf hnode hempty LOG).
Notation sess_ok := (sess_ok Ent Hsh hleaf hnode hempty LOG).
Notation enext := (enext Ent Hsh).
Notation sess_ok_mono := (sess_ok_mono Ent Hsh hleaf hnode hempty heqb LOG).
Notation get_del := (get_del Ent Hsh hnode hempty heqb).
Notation get_set := (get_set Ent Hsh hnode hempty heqb).
Notation end_sess_inv := (end_sess_inv Ent Hsh hleaf hnode hempty heqb LOG).
Notation conflict_next_inv := (conflict_next_inv Ent Hsh hleaf hnode hempty heqb LOG).
Notation write_tiles_sound := (write_tiles_sound Ent Hsh hleaf hnode hempty heqb eeqb LOG).
Notation write_tiles_ckpt := (write_tiles_ckpt Ent Hsh hleaf hnode hempty heqb eeqb).
Notation upd_store := (upd_store Ent Hsh).
Notation upd_next := (upd_next Ent Hsh).
Notation upd_sess := (upd_sess Ent Hsh).
Notation end_sess := (end_sess Ent Hsh).
Notation pkg_step := (pkg_step Ent Hsh hleaf hnode hempty heqb eeqb).
Notation mth := (mth Hsh hnode hempty).
Notation check_leaves := (check_leaves Ent Hsh hleaf hnode hempty heqb LOG heqb_eq hnode_inj hleaf_inj LOG_small).
Notation rows_extend := (rows_extend Ent Hsh).

Ltac unf := unfold Model.end_sess in *;
            unfold Model.upd_store, Model.upd_pcache, Model.upd_mcache, Model.upd_next, Model.upd_sess,
                   Model.upd_issued, InvDef.enext in *;
            cbn [w_store w_plock w_mlock w_pcache w_mcache w_next w_epoch w_sess w_issued w_hi w_signed] in *.

Lemma pkg_inv w sid s fs : MInv w -> get_sess (w_sess w) sid = Some s ->
  s_i s < num_packages (s_start s) (s_end s) -> MInv (fst (pkg_step w sid s fs)).
Proof.
  intros Hi Hs Hlt. pose proof (i_sess _ _ _ _ _ _ _ Hi sid s Hs) as Sok.
  destruct Sok as (S1 & S2 & S3 & S4 & S5 & (x & Nx & S6) & S7 & S8). specialize (S6 Hlt).
  destruct (pkg_arith (s_start s) (s_end s) (s_i s) S5 Hlt) as (T1 & T2 & T3 & T4).
  cbv zeta in T1, T2, T4. rewrite <- S4 in T1, T2, T4.
  unfold Model.pkg_step. cbv zeta.
  pose proof (end_sess_inv w sid Hi) as Hi0. set (w0 := end_sess w sid) in *.
  set (ts := s_base s + s_i s * 256) in *.
  set (pstart := N.max (s_start s) ts). set (pend := N.min (s_end s) (ts + 256)).
  assert (P1 : ts < pend) by (unfold pend; lia).
  assert (P2 : pend <= ts + 256) by (unfold pend; lia).
  assert (P3 : pend <= s_end s) by (unfold pend; lia).
  assert (Hnl : s_end s <= nlog) by (destruct S1 as [_ X]; lia).
  assert (Hsmall : pend < 2 ^ 62) by (unfold Inv.nlog in Hnl; lia).
  destruct (read_pkg Ent Hsh (pend - pstart) (s_body s)) as [| |es proof rest] eqn:RP.
  - destruct (s_i s =? 0); [exact Hi0|]. apply conflict_next_inv; [exact Hi0|].
    intros _. split; [exact S1|]. rewrite S2. exact S3.
  - exact Hi0.
  - apply read_pkg_len in RP.
    (* completeTileFromBackend: only the number of entries matters here *)
    match goal with |- context [let '(a, b) := ?X in _] => destruct X as [all fs1] eqn:EA end.
    assert (Hlen : forall a, all = Some a -> length a = N.to_nat (pend - ts)).
    { intros a ->. destruct (0 <? pstart - ts) eqn:Nd.
      - apply N.ltb_lt in Nd. rewrite Nx in EA. destruct (x <=? ts); [discriminate|].
        destruct (pop fs) as [f fs'].
        destruct (do_fetch Ent Hsh (w_store w) _ f) as [[|old|]|]; try discriminate.
        destruct (N.of_nat (length old) <? pstart - ts) eqn:Lo; [discriminate|]. apply N.ltb_ge in Lo.
        inversion EA; subst. rewrite app_length, firstn_length, RP. unfold pstart in *. lia.
      - apply N.ltb_ge in Nd. inversion EA; subst. rewrite RP. unfold pstart in *. lia. }
    destruct all as [all|]; [|exact Hi0]. specialize (Hlen all eq_refl).
    set (leaves := map hleaf all). set (sh := mth leaves).
    match goal with |- context [match ?X with Some _ => _ | None => fail _ _ _ _ _ _ end] =>
      destruct X as [[[hi cache] fs2]|] eqn:EO end; [|exact Hi0].
    destruct (check_subtree Hsh hnode heqb proof (ck_size (s_res s)) (ck_root (s_res s)) ts pend sh) eqn:CS;
      try exact Hi0.
    (* the proof verified: the entries are the log's *)
    assert (Hall : all = firstn (N.to_nat (pend - ts)) (skipn (N.to_nat ts) LOG)).
    { apply (check_leaves (s_res s) proof); [exact S1|exact P1|lia|exact CS|exact Hlen]. }
    assert (Hd : data_ok (ts / 256) (N.of_nat (length all)) all).
    { rewrite Hlen, N2Nat.id. split; [lia|]. split; [lia|].
      rewrite Hall at 1. f_equal. f_equal. lia. }
    assert (Hleaves : leaves = firstn (N.to_nat (pend - ts)) (skipn (N.to_nat ts) LHs)).
    { unfold leaves. rewrite Hall at 1. apply map_firstn_skipn. }
    assert (Hov : hi_ok hi /\ cache_ok cache).
    { destruct (pend =? ts + 256) eqn:Full.
      - apply N.eqb_eq in Full.
        assert (N8 : node 8 (pend / 256 - 1) = Some sh).
        { unfold Inv.node, sh. rewrite Hleaves.
          replace (N.to_nat (pend - ts)) with (2 ^ 8)%nat by (rewrite Full; cbn; lia).
          replace (N.to_nat ts) with (N.to_nat (pend / 256 - 1) * 2 ^ 8)%nat by (cbn; lia).
          apply mth_aligned. rewrite LHs_length. unfold Inv.nlog in Hnl. cbn. lia. }
        eapply (climb_sound Ent Hsh hleaf hnode hempty heqb LOG); [exact (proj1 (i_store _ _ _ _ _ _ _ Hi))| |
          |exact S8| |exact N8|exact EO].
        + lia.
        + constructor; [exact N8|exact S7].
        + change (p2 8) with 256. lia.
      - inversion EO; subst. split; assumption. }
    destruct Hov as [Hhi Hca].
    destruct (write_tiles Ent Hsh hleaf hnode hempty heqb eeqb (new_tiles ts pend) (w_store w)
                          (s_base s) ts all hi cache fs2) as [[st' o] r] eqn:WT.
    destruct (i_store _ _ _ _ _ _ _ Hi) as (I1 & I2 & I3 & I4 & I5 & I6 & I7 & I8).
    assert (Hb : forall t, In t (new_tiles ts pend) ->
               1 <= tc_W t <= 256 /\ (tc_N t * 256 + tc_W t) * p256 (tc_L t) <= nlog).
    { intros t Ht. destruct (new_tiles_bounds ts pend t Ht) as [B1 B2]. split; [exact B1|lia]. }
    destruct (write_tiles_sound (s_base s) ts all hi Hhi Hd _ _ _ _ _ _ _ Hb I1 I2 Hca WT)
      as (St' & Db' & Gr' & R').
    pose proof (write_tiles_ckpt _ _ _ _ _ _ _ _ _ _ _ WT) as Ck'.
    assert (Ex : enext w = x) by (unfold InvDef.enext; now rewrite Nx).
    rewrite Ex in *.
    assert (IS' : IS st' (w_hi w) (osize (w_mlock w)) x).
    { apply (IS_grows Ent Hsh hleaf hnode LOG (w_store w)); try assumption.
      repeat (split; [assumption|]). assumption. }
    destruct r as [[cache' fs3]|].
    2:{ (* an upload or a base read failed *)
        cbn [fst fail]. subst w0. destruct Hi0 as [J1 J2 J3 J4 J5 J6 J7 J8 J9 J10 J11].
        constructor; unf; auto; [rewrite Nx; exact IS'|].
        intros r0 Hr0. apply (serves_ext_grows Ent Hsh (w_store w)); [exact Gr'|now apply J11]. }
    destruct (R' cache' fs3 eq_refl) as [Hca' Hpres].
    (* the package is in the store: nextEntry advances *)
    rewrite Nx. cbn [fst].
    set (next' := if x <? pend then pend else x).
    assert (En : next' = N.max x pend) by (unfold next'; destruct (N.ltb_spec x pend); lia).
    pose proof (i_hi _ _ _ _ _ _ _ Hi) as Hhi'.
    destruct Hi as [J1 J2 J3 J4 J5 J6 J7 J8 J9 J10 J11].
    constructor; unf; auto.
    + (* the store part *)
      destruct IS' as (K1 & K2 & K3 & K4 & K5 & K6 & K7 & K8).
      split; [exact K1|]. split; [exact K2|]. split.
      { replace (N.max (w_hi w) next') with (N.max (w_hi w) pend) by lia.
        apply (rows_extend (w_store w) st' (w_hi w) _ ts pend); try assumption; lia. }
      split.
      { unfold next'. destruct (N.ltb_spec x pend) as [Lt|Ge]; [|exact K4].
        intro Z. assert (pend < ts + 256) by lia.
        destruct (Hpres (mkT 0 (pend / 256) (pend mod 256))) as [Q1 Q2]; [now apply cut_tile_in|].
        split; [exact Q1|now apply Q2]. }
      split; [exact K5|]. split; [exact K6|]. lia.
    + lia.
    + intros sid' s' Hs'. apply get_set in Hs'. destruct Hs' as [[-> ->]|Hs'].
      * unfold InvDef.sess_ok. cbn [s_res s_kind s_start s_end s_base s_i s_hi s_cache].
        repeat (split; [assumption|]). split; [|split; assumption].
        exists next'. split; [reflexivity|]. intro Z. specialize (T4 Z). fold ts in T4.
        replace (s_base s + (s_i s + 1) * 256) with (ts + 256) by (unfold ts; lia).
        unfold pend in En. lia.
      * apply (sess_ok_mono _ _ _ _ _ (J7 sid' s' Hs') (N.le_refl _)).
        intros y Hy. rewrite Nx in Hy. inversion Hy; subst y. exists next'. split; [reflexivity|lia].
    + intros r0 Hr0. apply (serves_ext_grows Ent Hsh (w_store w)); [exact Gr'|now apply J11].
Qed.

End Steps3.
