(* Mirror/Steps2.v — MInv is preserved by the commit stage and by a package (part 2), and what
   the invariant gives at the moment a mirror checkpoint is signed: the whole tree is served. *)
From SL Require Import Merkle.Tiles Merkle.Proofs Merkle.Sound Mirror.Model Mirror.Arith Mirror.Trees
  Mirror.Inv Mirror.Reader Mirror.Writer Mirror.InvDef Mirror.Steps.
From Coq Require Import ZifyN ZifyNat ZifyBool Lia.
Ltac Zify.zify_post_hook ::= Z.div_mod_to_equations.
Open Scope N_scope.

Lemma p256_9_big : 2 ^ 62 < p256 9.
Proof. vm_compute. reflexivity. Qed.
Lemma level_lt9 L x : 1 <= x -> x * p256 L < 2 ^ 62 -> (L < 9)%nat.
Proof.
  intros Hx H. destruct (le_lt_dec 9 L) as [G|G]; [|exact G]. exfalso.
  pose proof (p256_mono 9 L G). pose proof p256_9_big. nia.
Qed.
Lemma full_tile_in ts L j : ts mod 256 = 0 -> ts + 256 = (j + 1) * 256 * p256 L -> ts + 256 < 2 ^ 62 ->
  In (mkT L j 256) (new_tiles ts (ts + 256)).
Proof.
  intros Hts HX Hs.
  assert (HL : (L < 9)%nat) by (apply (level_lt9 L ((j + 1) * 256)); lia).
  assert (Hn : (ts + 256) / p256 L = (j + 1) * 256) by (rewrite HX; apply div_p256_exact).
  apply (in_new_tiles ts (ts + 256) L); [exact HL|rewrite Hn; lia|].
  apply in_level_part. cbn [tc_L tc_N tc_W]. split; [reflexivity|]. rewrite Hn.
  assert (Ho : ts / p256 L / 256 = j /\ ts / p256 L <> (j + 1) * 256).
  { destruct L as [|L].
    - rewrite p256_0 in *. rewrite N.div_1_r. lia.
    - replace ts with ((j + 1) * 256 * p256 (S L) - 256) by lia.
      rewrite div_p256_pred by lia. lia. }
  destruct Ho as [Ho1 Ho2]. split; [exact Ho2|]. left. split; [reflexivity|]. lia.
Qed.
Lemma partial_tile_in ts L k : ts mod 256 = 0 -> (1 <= L)%nat -> ts + 256 = k * p256 L ->
  0 < k mod 256 -> ts + 256 < 2 ^ 62 ->
  In (mkT L (k / 256) (k mod 256)) (new_tiles ts (ts + 256)).
Proof.
  intros Hts HL1 HX Hk Hs.
  assert (HL : (L < 9)%nat) by (apply (level_lt9 L k); lia).
  assert (Hn : (ts + 256) / p256 L = k) by (rewrite HX; apply div_p256_exact).
  apply (in_new_tiles ts (ts + 256) L); [exact HL|rewrite Hn; lia|].
  apply in_level_part. cbn [tc_L tc_N tc_W]. split; [reflexivity|]. rewrite Hn.
  assert (Ho : ts / p256 L = k - 1).
  { replace ts with (k * p256 L - 256) by lia. apply div_p256_pred; [exact HL1|lia]. }
  rewrite Ho. split; [lia|]. right. repeat split. exact Hk.
Qed.
Lemma cut_tile_in ts pend : ts mod 256 = 0 -> ts < pend -> pend < ts + 256 ->
  In (mkT 0 (pend / 256) (pend mod 256)) (new_tiles ts pend).
Proof.
  intros Hts H1 H2.
  apply (in_new_tiles ts pend 0); [lia|rewrite p256_0, N.div_1_r; lia|].
  apply in_level_part. cbn [tc_L tc_N tc_W]. rewrite p256_0, !N.div_1_r.
  split; [reflexivity|]. split; [lia|]. right. repeat split. lia.
Qed.
Lemma pkg_arith start e i : start <= e -> i < num_packages start e ->
  let base := start - start mod 256 in let ts := base + i * 256 in
  ts mod 256 = 0 /\ ts < e /\ start < e /\ (i + 1 < num_packages start e -> ts + 256 < e).
Proof.
  intro Hse. unfold num_packages. destruct (N.eqb_spec start e) as [->|Hne]; [lia|].
  intros H. cbv zeta. lia.
Qed.

Section Pure.
Variable Ent : Type.
Variable Hsh : Type.
Notation store := (store Ent Hsh).
Notation grows := (grows Ent Hsh).
Notation pres := (pres Ent Hsh).
Notation rows_ok := (rows_ok Ent Hsh).

Lemma rows_extend st st' hi mN ts pend :
  rows_ok st hi mN -> grows st st' -> ts mod 256 = 0 -> ts <= hi -> ts < pend -> pend <= ts + 256 ->
  pend < 2 ^ 62 ->
  (forall t, In t (new_tiles ts pend) ->
     pres st' (KHash t) /\ (tc_L t = O -> pres st' (KData (tc_N t) (tc_W t)))) ->
  rows_ok st' (N.max hi pend) mN.
Proof.
  intros R G Hts Hhi H1 H2 Hs W.
  destruct (N.le_gt_cases pend hi) as [Hle|Hgt].
  { replace (N.max hi pend) with hi by lia. now apply (rows_ok_grows Ent Hsh st). }
  replace (N.max hi pend) with pend by lia.
  destruct R as (C1 & C2 & C3).
  (* a multiple of 256 in (hi, pend] is ts + 256 = pend *)
  assert (Bd : forall X, X mod 256 = 0 -> hi < X -> X <= pend -> X = ts + 256 /\ pend = ts + 256) by (intros; lia).
  split; [|split].
  - intros L j Hj. destruct (N.le_gt_cases ((j + 1) * 256 * p256 L) hi) as [Ho|Hn].
    + apply G. now apply C1.
    + destruct (Bd ((j + 1) * 256 * p256 L)) as [EX Ep]; [|exact Hn|exact Hj|].
      { replace ((j + 1) * 256 * p256 L) with ((j + 1) * p256 L * 256) by lia. apply N.mod_mul. lia. }
      rewrite Ep in W. apply (W (mkT L j 256)). apply full_tile_in; [exact Hts|lia|lia].
  - intros j Hj. destruct (N.le_gt_cases ((j + 1) * 256) hi) as [Ho|Hn].
    + apply G. now apply C2.
    + destruct (Bd ((j + 1) * 256)) as [EX Ep]; [apply N.mod_mul; lia|exact Hn|exact Hj|].
      rewrite Ep in W. apply (W (mkT 0 j 256)); [|reflexivity].
      apply full_tile_in; [exact Hts|rewrite p256_0; lia|lia].
  - intros L k HL Hk Hm. destruct (N.le_gt_cases (k * p256 L) hi) as [Ho|Hn].
    + destruct (C3 L k HL Ho Hm) as [P|P]; [left; now apply G|now right].
    + destruct (p256_divides_256 L HL) as [c Hc].
      destruct (Bd (k * p256 L)) as [EX Ep]; [|exact Hn|exact Hk|].
      { rewrite Hc. replace (k * (c * 256)) with (k * c * 256) by lia. apply N.mod_mul. lia. }
      left. rewrite Ep in W. apply (W (mkT L (k / 256) (k mod 256))).
      apply partial_tile_in; try assumption; lia.
Qed.

Lemma read_pkg_len cnt body es p rest : read_pkg Ent Hsh cnt body = RdOk Ent Hsh es p rest ->
  length es = N.to_nat cnt.
Proof.
  unfold Model.read_pkg. destruct body as [|x r]; [discriminate|].
  destruct (N.of_nat (length (p_entries x)) <? cnt) eqn:E; [discriminate|]. apply N.ltb_ge in E.
  destruct (p_tail x); try discriminate. intro H. inversion H; subst.
  rewrite firstn_length. lia.
Qed.

Lemma rec_sizes_app (l : list (srec Ent Hsh)) r :
  rec_sizes Ent Hsh (l ++ [r]) =
  rec_sizes Ent Hsh l ++ (if sr_recorded r then [ck_size (sr_ck r)] else []).
Proof.
  unfold rec_sizes. rewrite filter_app, map_app. cbn [filter]. now destruct (sr_recorded r).
Qed.

End Pure.

Section Steps2a.
Variable Ent : Type.
Variable Hsh : Type.
Variable hleaf : Ent -> Hsh.
Variable hnode : Hsh -> Hsh -> Hsh.
Variable hempty : Hsh.
Variable heqb : Hsh -> Hsh -> bool.
Variable eeqb : Ent -> Ent -> bool.
Variable LOG : list Ent.
Notation store := (store Ent Hsh).
Notation world := (world Ent Hsh).
Notation session := (session Ent Hsh).
Notation ckpt := (ckpt Hsh).
Notation LHs := (LH Ent Hsh hleaf LOG).
Notation cp_of := (cp_of Ent Hsh hleaf hnode hempty LOG).
Notation nlog := (nlog Ent LOG).
Notation node := (node Ent Hsh hleaf hnode LOG).
Notation store_ok := (store_ok Ent Hsh hleaf hnode LOG).
Notation data_ok := (data_ok Ent LOG).
Notation hi_ok := (hi_ok Ent Hsh hleaf hnode LOG).
Notation cache_ok := (cache_ok Ent Hsh hleaf hnode LOG).
Notation dbh := (dbh Ent Hsh).
Notation grows := (grows Ent Hsh).
Notation pres := (pres Ent Hsh).
Notation rows_ok := (rows_ok Ent Hsh).
Notation cut_ok := (cut_ok Ent Hsh).
Notation serves := (serves Ent Hsh).
Notation MInv := (MInv Ent Hsh hleaf hnode hempty LOG).
Notation IS := (IS Ent Hsh hleaf hnode LOG).
Notation ck_ok := (ck_ok Ent Hsh hleaf hnode hempty LOG).
Notation ock_ok := (ock_ok Ent Hsh hleaf hnode hempty LOG).
Notation sess_ok := (sess_ok Ent Hsh hleaf hnode hempty LOG).
Notation srec_ok := (srec_ok Ent Hsh hleaf hnode hempty LOG).
Notation enext := (enext Ent Hsh).
Notation same_core := (same_core Ent Hsh).
Notation sess_ok_mono := (sess_ok_mono Ent Hsh hleaf hnode hempty heqb LOG).
Notation get_del := (get_del Ent Hsh hnode hempty heqb).
Notation get_set := (get_set Ent Hsh hnode hempty heqb).
Notation rows_ok_mN := (rows_ok_mN Ent Hsh hnode hempty heqb).
Notation get_pending_spec := (get_pending_spec Ent Hsh hleaf hnode hempty LOG).
Notation get_mirror_spec := (get_mirror_spec Ent Hsh hleaf hnode hempty heqb LOG).
Notation conflict_inv := (conflict_inv Ent Hsh hleaf hnode hempty LOG).
Notation end_sess_inv := (end_sess_inv Ent Hsh hleaf hnode hempty heqb LOG).
Notation conflict_next_inv := (conflict_next_inv Ent Hsh hleaf hnode hempty heqb LOG).
Notation ensure_cut_sound := (ensure_cut_sound Ent Hsh hleaf hnode hempty heqb eeqb LOG).
Notation ensure_cut_ckpt := (ensure_cut_ckpt Ent Hsh hleaf heqb eeqb).
Notation write_tiles_sound := (write_tiles_sound Ent Hsh hleaf hnode hempty heqb eeqb LOG).
Notation write_tiles_ckpt := (write_tiles_ckpt Ent Hsh hleaf hnode hempty heqb eeqb).
Notation upd_store := (upd_store Ent Hsh).
Notation upd_next := (upd_next Ent Hsh).
Notation upd_sess := (upd_sess Ent Hsh).
Notation end_sess := (end_sess Ent Hsh).
Notation get_pending := (get_pending Ent Hsh).
Notation get_mirror := (get_mirror Ent Hsh).
Notation conflict := (conflict Ent Hsh).
Notation commit_step := (commit_step Ent Hsh hleaf hempty heqb eeqb).
Notation pkg_step := (pkg_step Ent Hsh hleaf hnode hempty heqb eeqb).
Notation mth := (mth Hsh hnode hempty).

Ltac unf := unfold Model.end_sess in *;
            unfold Model.upd_store, Model.upd_pcache, Model.upd_mcache, Model.upd_next, Model.upd_sess,
                   Model.upd_issued, InvDef.enext in *;
            cbn [w_store w_plock w_mlock w_pcache w_mcache w_next w_epoch w_sess w_issued w_hi w_signed] in *.


Lemma serves_from_IS st hi mN nx n : IS st hi mN nx -> mN <= n -> n <= nx -> cut_ok st n ->
  serves st n.
Proof.
  intros (A & B & (C1 & C2 & C3) & D & E & F & G & H) Hm Hn Hc. split.
  - intros t Ht. unfold tiles_needed, new_tiles in Ht. apply in_new_tiles_fuel in Ht.
    destruct Ht as (L & _ & Hnz & Ht). apply in_level_part in Ht.
    destruct Ht as (EL & _ & Ht). set (nn := n / p256 L) in *.
    assert (Hnn : nn * p256 L <= n) by (apply div_p256_ge; unfold nn; lia).
    destruct t as [l j w]. cbn [tc_L tc_N tc_W] in *. subst l.
    destruct Ht as [(-> & Hj)|(-> & -> & Hw)].
    + apply C1. pose proof (p256_pos L). nia.
    + destruct L as [|L].
      * rewrite p256_0 in *. unfold nn in *. rewrite N.div_1_r in *.
        apply Hc. lia.
      * destruct (C3 (S L) nn ltac:(lia) ltac:(lia) Hw) as [P|P]; [exact P|]. exfalso.
        assert (Q : mN / p256 (S (S L)) <= n / p256 (S (S L))).
        { apply N.div_le_mono; [pose proof (p256_pos (S (S L))); lia|exact Hm]. }
        rewrite (div_p256_S (S L) n) in Q. fold nn in Q. lia.
  - intros j Hj. destruct (N.le_gt_cases ((j + 1) * 256) n) as [Hf|Hf].
    + replace (N.min 256 (n - j * 256)) with 256 by lia. apply C2. lia.
    + assert (Ej : j = n / 256) by lia. assert (Z : n mod 256 <> 0) by lia.
      replace (N.min 256 (n - j * 256)) with (n mod 256) by lia. rewrite Ej. now apply Hc.
Qed.

Lemma IS_put_ckpt st hi mN nx (c : ckpt) f st4 ok4 : IS st hi mN nx -> ck_size c <= mN ->
  do_upload Ent Hsh heqb eeqb st KCkpt (OCk c) false f = (st4, ok4) -> IS st4 hi mN nx.
Proof.
  intros (A & B & C & D & E & F & G & H) Hc U.
  assert (Est : st4 = fst (do_upload Ent Hsh heqb eeqb st KCkpt (OCk c) false f)) by now rewrite U.
  assert (Gr : grows st st4) by (rewrite Est; apply do_upload_grows).
  split; [rewrite Est; apply do_upload_store_ok; [exact A|exact I]|].
  split; [rewrite Est; now apply dbh_upload_ckpt|].
  split; [now apply (rows_ok_grows Ent Hsh st)|].
  split; [now apply (cut_ok_grows Ent Hsh st)|]. split; [now apply (cut_ok_grows Ent Hsh st)|].
  split; [|split; assumption].
  intros c' Hc'. rewrite Est in Hc'.
  destruct (do_upload_store Ent Hsh heqb eeqb st KCkpt (OCk c) false f) as [E1|E1]; rewrite E1 in Hc'.
  - now apply F.
  - rewrite lookup_put_same in Hc'. inversion Hc'; subst. exact Hc.
Qed.

Lemma commit_inv w sid s fs : MInv w -> get_sess (w_sess w) sid = Some s ->
  MInv (fst (commit_step w sid s fs)).
Proof.
  intros Hi Hs. pose proof (i_sess _ _ _ _ _ _ _ Hi sid s Hs) as Sok.
  destruct Sok as (S1 & S2 & S3 & _).
  unfold Model.commit_step. cbv zeta.
  pose proof (end_sess_inv w sid Hi) as Hi0.
  set (w0 := end_sess w sid) in *.
  assert (Pl0 : w_plock w0 = w_plock w) by reflexivity.
  destruct (get_mirror w0 fs) as [[m w1] fs1] eqn:GM.
  destruct (get_mirror_spec _ _ _ _ _ Hi0 GM) as (Hi1 & Sc1 & Hm).
  destruct m as [[mv next]|]; [|exact Hi1].
  destruct (Hm mv next eq_refl) as (Hmv & Hnx & Hne).
  destruct Sc1 as (A1 & A2 & A3 & A4 & A5 & A6 & A7 & A8 & A9 & A10).
  destruct (next <? ck_size (s_res s)) eqn:E1; [exact Hi1|]. apply N.ltb_ge in E1.
  destruct (ck_size (s_res s) <? osize mv) eqn:E2.
  { destruct (get_pending w1 fs1) as [[p w2] fs2] eqn:GP.
    destruct (get_pending_spec _ _ _ _ _ Hi1 GP) as (Hi2 & Sc2 & Hp).
    destruct p as [[pend|]|]; [| |exact Hi2].
    - apply conflict_inv; [exact Hi2|]. intros _. specialize (Hp _ eq_refl).
      destruct Sc2 as (_ & B2 & _). pose proof (i_plock _ _ _ _ _ _ _ Hi2) as X.
      rewrite B2, <- Hp in X. split; [exact X|]. rewrite B2, <- Hp. cbn. lia.
    - apply conflict_inv; [exact Hi2|]. discriminate. }
  apply N.ltb_ge in E2.
  destruct (ensure_cut Ent Hsh hleaf heqb eeqb (w_store w1) (s_res s) next fs1) as [[st' o] r] eqn:EC.
  pose proof (i_store _ _ _ _ _ _ _ Hi1) as IS1.
  assert (Hml : w_mlock w1 = mv) by (rewrite A3; auto).
  assert (Hne1 : enext w1 = next) by (unfold InvDef.enext; now rewrite Hnx).
  rewrite Hml, Hne1 in IS1.
  destruct IS1 as (I1 & I2 & I3 & I4 & I5 & I6 & I7 & I8).
  destruct (ensure_cut_sound _ _ _ _ _ _ _ I1 I2 (proj2 S1) EC)
    as (St' & Db' & Gr' & Cut').
  pose proof (ensure_cut_ckpt _ _ _ _ _ _ _ EC) as Ck'.
  assert (IS' : IS st' (w_hi w1) (osize mv) next).
  { apply (IS_grows Ent Hsh hleaf hnode LOG (w_store w1)); try assumption.
    repeat (split; [assumption|]). assumption. }
  assert (Hi2 : MInv (upd_store w1 st')).
  { destruct Hi1. constructor; unf; auto; [rewrite Hml; rewrite Hnx; exact IS'|].
    intros r0 Hr0. apply (serves_ext_grows Ent Hsh (w_store w1)); [exact Gr'|now apply i_persist]. }
  destruct r as [fs2|]; [|exact Hi2].
  (* the checkpoint is signed *)
  set (c := s_res s) in *.
  assert (CutC : cut_ok st' (ck_size c)) by (intro Z; exact (Cut' fs2 eq_refl Z)).
  assert (Srv : serves st' (ck_size c)) by (apply (serves_from_IS st' (w_hi w1) (osize mv) next); assumption).
  destruct (pop fs2) as [f fs3].
  set (can := ock_eqb Hsh heqb mv (w_mlock (upd_store w1 st'))).
  set (eff := can && applied f). set (ok := can && succeeded f).
  assert (Hok : ok = true -> eff = true) by (unfold ok, eff; destruct can, f; cbn; auto).
  set (w2 := upd_store w1 st') in *.
  set (rec_ := mkSr c st' (w_plock w2) eff).
  set (w3 := mkW (w_store w2) (w_plock w2) (if eff then Some c else w_mlock w2) (w_pcache w2)
                 (if ok then Some (Some c) else None) (w_next w2) (w_epoch w2) (w_sess w2)
                 (w_issued w2) (w_hi w2) (w_signed w2 ++ [rec_])).
  assert (Pl2 : w_plock w2 = w_plock w) by (unfold w2; unf; rewrite A2; exact Pl0).
  assert (Ml2 : w_mlock w2 = mv) by (unfold w2; unf; exact Hml).
  assert (mN3 : osize mv <= osize (w_mlock w3) /\ (osize (w_mlock w3) = osize mv \/ osize (w_mlock w3) = ck_size c)).
  { unfold w3. cbn [w_mlock]. rewrite Ml2. destruct eff; cbn; lia. }
  assert (Hi3 : MInv w3).
  { destruct Hi2 as [J1 J2 J3 J4 J5 J6 J7 J8 J9 J10 J11]. fold w2 in J1, J2, J3, J4, J5, J6, J7, J8, J9, J10, J11.
    constructor; unfold w3; cbn [w_store w_plock w_mlock w_pcache w_mcache w_next w_epoch w_sess w_issued w_hi w_signed]; auto.
    - (* the store part with the new mirror size *)
      unfold InvDef.enext. cbn [w_next w_mlock].
      assert (Nx2 : w_next w2 = Some next) by (unfold w2; unf; exact Hnx). rewrite Nx2.
      assert (Hw2 : w_store w2 = st') by reflexivity. assert (Hh2 : w_hi w2 = w_hi w1) by reflexivity.
      rewrite Hw2, Hh2. destruct IS' as (K1 & K2 & K3 & K4 & K5 & K6 & K7 & K8).
      rewrite Ml2. destruct eff; cbn [osize].
      + split; [exact K1|]. split; [exact K2|]. split; [now apply (rows_ok_mN st' _ (osize mv))|].
        split; [exact K4|]. split; [exact CutC|]. split; [|split; [exact E1|exact K8]].
        intros c' Hc'. specialize (K6 c' Hc'). lia.
      + repeat (split; [assumption|]). assumption.
    - rewrite Ml2. destruct eff; [exact S1|]. rewrite <- Ml2. exact J3.
    - intros v E. destruct ok eqn:O; [|discriminate]. inversion E; subst. now rewrite (Hok eq_refl).
    - apply Forall_app. split; [exact J9|]. constructor; [|constructor].
      unfold rec_, InvDef.srec_ok. cbn [sr_ck sr_store sr_pending].
      split; [exact S1|]. split; [exact St'|]. split; [exact Srv|].
      rewrite Pl2. split; [lia|]. rewrite <- Pl2. exact J2.
    - rewrite rec_sizes_app. unfold rec_. cbn [sr_recorded sr_ck]. destruct J10 as [M1 M2].
      rewrite Ml2 in *. destruct eff; cbn [osize].
      + split.
        * apply mono_app_last; [exact M1|]. intros x Hx. specialize (M2 x Hx). lia.
        * intros x Hx. apply in_app_or in Hx. destruct Hx as [Hx|[<-|[]]]; [|lia].
          specialize (M2 x Hx). lia.
      + rewrite app_nil_r. split; [exact M1|exact M2].
    - intros r0 Hr0. apply in_app_or in Hr0. destruct Hr0 as [Hr0|[<-|[]]]; [now apply J11|].
      unfold rec_. cbn [sr_ck]. now apply serves_serves_ext. }
  destruct (negb ok) eqn:Nok; [exact Hi3|]. apply negb_false_iff in Nok.
  destruct (pop fs3) as [f4 fs4].
  destruct (do_upload Ent Hsh heqb eeqb (w_store w3) KCkpt (OCk c) false f4) as [st4 ok4] eqn:U4.
  assert (Hi4 : MInv (upd_store w3 st4)).
  { destruct Hi3 as [J1 J2 J3 J4 J5 J6 J7 J8 J9 J10 J11]. constructor; unf; auto.
    - eapply IS_put_ckpt; [exact J1| |exact U4].
      unfold w3. cbn [w_mlock]. rewrite (Hok Nok). cbn. lia.
    - intros r0 Hr0. apply (serves_ext_grows Ent Hsh (w_store w3)); [|now apply J11].
      replace st4 with (fst (do_upload Ent Hsh heqb eeqb (w_store w3) KCkpt (OCk c) false f4)) by now rewrite U4.
      apply do_upload_grows. }
  destruct (negb ok4); exact Hi4.
Qed.

End Steps2a.

Section Steps2.
Variable Ent : Type.
Variable Hsh : Type.
Variable hleaf : Ent -> Hsh.
Variable hnode : Hsh -> Hsh -> Hsh.
Variable hempty : Hsh.
Variable heqb : Hsh -> Hsh -> bool.
Variable eeqb : Ent -> Ent -> bool.
Variable LOG : list Ent.
Hypothesis heqb_eq : forall a b, heqb a b = true <-> a = b.
Hypothesis hnode_inj : forall a b c d, hnode a b = hnode c d -> a = c /\ b = d.
Hypothesis hleaf_inj : forall a b, hleaf a = hleaf b -> a = b.
Hypothesis LOG_small : N.of_nat (length LOG) < 2 ^ 62.

Notation store := (store Ent Hsh).
Notation world := (world Ent Hsh).
Notation session := (session Ent Hsh).
Notation ckpt := (ckpt Hsh).
Notation LHs := (LH Ent Hsh hleaf LOG).
Notation cp_of := (cp_of Ent Hsh hleaf hnode hempty LOG).
Notation nlog := (nlog Ent LOG).
Notation node := (node Ent Hsh hleaf hnode LOG).
Notation store_ok := (store_ok Ent Hsh hleaf hnode LOG).
Notation data_ok := (data_ok Ent LOG).
Notation hi_ok := (hi_ok Ent Hsh hleaf hnode LOG).
Notation cache_ok := (cache_ok Ent Hsh hleaf hnode LOG).
Notation dbh := (dbh Ent Hsh).
Notation grows := (grows Ent Hsh).
Notation pres := (pres Ent Hsh).
Notation rows_ok := (rows_ok Ent Hsh).
Notation cut_ok := (cut_ok Ent Hsh).
Notation serves := (serves Ent Hsh).
Notation MInv := (MInv Ent Hsh hleaf hnode hempty LOG).
Notation IS := (IS Ent Hsh hleaf hnode LOG).
Notation ck_ok := (ck_ok Ent Hsh hleaf hnode hempty LOG).
Notation ock_ok := (ock_ok Ent Hsh hleaf hnode hempty LOG).
Notation sess_ok := (sess_ok Ent Hsh hleaf hnode hempty LOG).
Notation srec_ok := (srec_ok Ent Hsh hleaf hnode hempty LOG).
Notation enext := (enext Ent Hsh).
Notation same_core := (same_core Ent Hsh).
Notation sess_ok_mono := (sess_ok_mono Ent Hsh hleaf hnode hempty heqb LOG).
Notation get_del := (get_del Ent Hsh hnode hempty heqb).
Notation get_set := (get_set Ent Hsh hnode hempty heqb).
Notation rows_ok_mN := (rows_ok_mN Ent Hsh hnode hempty heqb).
Notation get_pending_spec := (get_pending_spec Ent Hsh hleaf hnode hempty LOG).
Notation get_mirror_spec := (get_mirror_spec Ent Hsh hleaf hnode hempty heqb LOG).
Notation conflict_inv := (conflict_inv Ent Hsh hleaf hnode hempty LOG).
Notation end_sess_inv := (end_sess_inv Ent Hsh hleaf hnode hempty heqb LOG).
Notation conflict_next_inv := (conflict_next_inv Ent Hsh hleaf hnode hempty heqb LOG).
Notation ensure_cut_sound := (ensure_cut_sound Ent Hsh hleaf hnode hempty heqb eeqb LOG).
Notation ensure_cut_ckpt := (ensure_cut_ckpt Ent Hsh hleaf heqb eeqb).
Notation write_tiles_sound := (write_tiles_sound Ent Hsh hleaf hnode hempty heqb eeqb LOG).
Notation write_tiles_ckpt := (write_tiles_ckpt Ent Hsh hleaf hnode hempty heqb eeqb).
Notation upd_store := (upd_store Ent Hsh).
Notation upd_next := (upd_next Ent Hsh).
Notation upd_sess := (upd_sess Ent Hsh).
Notation end_sess := (end_sess Ent Hsh).
Notation get_pending := (get_pending Ent Hsh).
Notation get_mirror := (get_mirror Ent Hsh).
Notation conflict := (conflict Ent Hsh).
Notation commit_step := (commit_step Ent Hsh hleaf hempty heqb eeqb).
Notation pkg_step := (pkg_step Ent Hsh hleaf hnode hempty heqb eeqb).
Notation mth := (mth Hsh hnode hempty).

Ltac unf := unfold Model.end_sess in *;
            unfold Model.upd_store, Model.upd_pcache, Model.upd_mcache, Model.upd_next, Model.upd_sess,
                   Model.upd_issued, InvDef.enext in *;
            cbn [w_store w_plock w_mlock w_pcache w_mcache w_next w_epoch w_sess w_issued w_hi w_signed] in *.


Lemma check_leaves (res : ckpt) proof ts pend all :
  ck_ok res -> ts < pend -> pend <= ck_size res ->
  check_subtree Hsh hnode heqb proof (ck_size res) (ck_root res) ts pend (mth (map hleaf all)) = Ok ->
  length all = N.to_nat (pend - ts) ->
  all = firstn (N.to_nat (pend - ts)) (skipn (N.to_nat ts) LOG).
Proof.
  intros [Er Hr] H1 H2 Hc Hl. set (rN := ck_size res) in *.
  set (L := firstn (N.to_nat rN) LHs).
  assert (HL : N.of_nat (length L) = rN).
  { unfold L. rewrite firstn_length, LHs_length. unfold Inv.nlog in Hr. lia. }
  assert (Hroot : ck_root res = mth L) by (rewrite Er; reflexivity).
  rewrite Hroot, <- HL in Hc.
  destruct (check_subtree_ok_range Hsh hnode heqb _ _ _ _ _ _ Hc) as (V & Le & _).
  pose proof (check_subtree_sound Hsh hnode hempty heqb heqb_eq hnode_inj L proof ts pend _ V Le Hc) as S.
  unfold L in S. rewrite firstn_skipn_firstn in S by lia.
  assert (Hm : map hleaf all = firstn (N.to_nat (pend - ts)) (skipn (N.to_nat ts) LHs)).
  { apply (mth_inj Hsh hnode hempty hnode_inj); [|exact S].
    rewrite map_length, Hl, firstn_length, skipn_length, LHs_length. unfold Inv.nlog in Hr. lia. }
  unfold LH in Hm. rewrite <- map_firstn_skipn in Hm. now apply (map_inj hleaf hleaf_inj).
Qed.

End Steps2.
