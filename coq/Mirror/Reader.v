(* Mirror/Reader.v — soundness of the overlay hash reader of the mirror model: whatever it reads
   from correct backend tiles (store_ok, cache_ok) or from a correct overlay (hi_ok) is the true
   node hash of the honest log; hence the hashes appended by a full package (climb) and the tile
   rows read for the level >= 1 tiles (read_row) are correct. *)
From SL Require Import Merkle.Tiles Merkle.Proofs Merkle.Sound Mirror.Model Mirror.Arith Mirror.Trees Mirror.Inv.
From Coq Require Import ZifyN ZifyNat ZifyBool Lia.
Ltac Zify.zify_post_hook ::= Z.div_mod_to_equations.
Open Scope N_scope.

Section Reader.
Variable Ent : Type.
Variable Hsh : Type.
Variable hleaf : Ent -> Hsh.
Variable hnode : Hsh -> Hsh -> Hsh.
Variable hempty : Hsh.
Variable heqb : Hsh -> Hsh -> bool.
Variable eeqb : Ent -> Ent -> bool.
Variable LOG : list Ent.

Notation store := (store Ent Hsh).
Notation LHs := (LH Ent Hsh hleaf LOG).
Notation level_up := (level_up Hsh hnode).
Notation mth := (mth Hsh hnode hempty).
Notation node := (node Ent Hsh hleaf hnode LOG).
Notation nlog := (nlog Ent LOG).
Notation tile_ok := (tile_ok Ent Hsh hleaf hnode LOG).
Notation store_ok := (store_ok Ent Hsh hleaf hnode LOG).
Notation hi_ok := (hi_ok Ent Hsh hleaf hnode LOG).
Notation cache_ok := (cache_ok Ent Hsh hleaf hnode LOG).
Notation read_base := (read_base Ent Hsh hnode hempty).
Notation read_node := (read_node Ent Hsh hnode hempty).
Notation read_row := (read_row Ent Hsh hnode hempty).
Notation climb := (climb Ent Hsh hnode hempty).
Notation ctree := (ctree Hsh hnode hempty).

(* tlog.HashFromTile on a correct tile wide enough for the node *)
Lemma ctree_of_tile i q (t : tcoord) hs :
  let L := (i / 8)%nat in let lv := (i mod 8)%nat in
  let n := q * p2 lv / 256 in let n' := q - n * p2 (8 - lv) in
  tc_L t = L -> tc_N t = n -> tile_ok t hs ->
  n * 256 + (n' + 1) * p2 lv <= n * 256 + tc_W t ->
  node i q = Some (ctree lv (firstn (N.to_nat (p2 lv)) (skipn (N.to_nat (n' * p2 lv)) hs))).
Proof.
  intros L lv n n' HL HN (Hw & Hb & Hhs) Hfit.
  assert (Hi : i = (8 * L + lv)%nat) by (unfold L, lv; apply Nat.div_mod; lia).
  assert (Hlv : (lv < 8)%nat) by (unfold lv; apply Nat.mod_upper_bound; lia).
  pose proof (p2_pos lv) as Pa. pose proof (p2_pos (8 - lv)) as Pb.
  assert (Hab : p2 lv * p2 (8 - lv) = 256).
  { rewrite <- p2_add. replace (lv + (8 - lv))%nat with 8%nat by lia. reflexivity. }
  set (a := p2 lv) in *. set (b := p2 (8 - lv)) in *.
  rewrite HL, HN in Hb.
  (* q = n*b + n', n' < b *)
  assert (Hn1 : n * 256 <= q * a) by (unfold n; pose proof (N.mul_div_le (q * a) 256); lia).
  assert (Hn2 : q * a < (n + 1) * 256).
  { unfold n. pose proof (N.mul_succ_div_gt (q * a) 256). lia. }
  assert (Hq : n * b <= q) by nia.
  assert (Hq' : q = n * b + n') by (unfold n'; lia).
  assert (Hqa : q * a = n * 256 + n' * a) by nia.
  set (row := level_up (8 * L) LHs).
  assert (Hrow : n * 256 + tc_W t <= N.of_nat (length row)).
  { unfold row. rewrite level_len, <- p256_p2. now apply div_p256_ge. }
  assert (Ea : N.to_nat a = (2 ^ lv)%nat) by apply p2_nat.
  (* the slice of the tile is a slice of the row *)
  assert (Hs : firstn (N.to_nat a) (skipn (N.to_nat (n' * a)) hs)
               = firstn (2 ^ lv) (skipn (N.to_nat q * 2 ^ lv) row)).
  { rewrite Hhs, HL, HN. unfold tile_hashes, tile_level. fold row.
    rewrite firstn_skipn_firstn by lia. rewrite skipn_skipn_add. rewrite Ea. f_equal. f_equal.
    rewrite <- Ea. lia. }
  rewrite Hs. unfold Inv.node.
  replace (level_up i LHs) with (level_up lv row)
    by (unfold row; rewrite <- level_up_add; f_equal; lia).
  assert (Hfit2 : ((N.to_nat q + 1) * 2 ^ lv <= length row)%nat) by (rewrite <- Ea; nia).
  rewrite <- (level_up_slice Hsh hnode hempty lv row (N.to_nat q) Hfit2).
  destruct (level_up_nth_some Hsh hnode hempty lv row (N.to_nat q) Hfit2) as [h Hh].
  rewrite <- (level_up_slice Hsh hnode hempty lv row (N.to_nat q) Hfit2) in Hh.
  rewrite Hh. f_equal. unfold Model.ctree. symmetry. now apply hd_nth_error.
Qed.

Lemma read_base_sound st B cache fs i q h cache' fs' :
  store_ok st -> cache_ok cache -> in_base B i q = true ->
  read_base st B cache fs i q = (Some h, cache', fs') ->
  node i q = Some h /\ cache_ok cache'.
Proof.
  intros Hst Hc Hin H. unfold Model.read_base in H. cbv zeta in H.
  set (L := (i / 8)%nat) in *. set (lv := (i mod 8)%nat) in *.
  set (n := q * p2 lv / 256) in *. set (n' := q - n * p2 (8 - lv)) in *.
  set (wd := N.min (B / p256 L - n * 256) 256) in *.
  set (t := mkT L n wd) in *.
  (* the tile data and its correctness *)
  assert (G : forall data c2 f2,
    match cache_get Hsh cache t with
    | Some hs => (Some hs, cache, fs)
    | None => let '(f, fs1) := pop fs in
              match do_fetch Ent Hsh st (KHash t) f with
              | Some (OHash hs) => (Some hs, (t, hs) :: cache, fs1)
              | _ => (None, cache, fs1)
              end
    end = (Some data, c2, f2) -> tile_ok t data /\ cache_ok c2).
  { intros data c2 f2 E. destruct (cache_get Hsh cache t) as [hs|] eqn:C.
    - inversion E; subst. split; [now apply (cache_get_ok _ _ _ _ _ _ _ _ Hc C)|exact Hc].
    - destruct (pop fs) as [f fs1]. destruct (do_fetch Ent Hsh st (KHash t) f) as [[hs| |]|] eqn:F;
        try discriminate.
      inversion E; subst. apply do_fetch_some in F. apply Hst in F. cbn in F.
      split; [exact F|]. constructor; [exact F|exact Hc]. }
  destruct (match cache_get Hsh cache t with
            | Some hs => (Some hs, cache, fs)
            | None => let '(f, fs1) := pop fs in
                      match do_fetch Ent Hsh st (KHash t) f with
                      | Some (OHash hs) => (Some hs, (t, hs) :: cache, fs1)
                      | _ => (None, cache, fs1)
                      end
            end) as [[data c2] f2] eqn:E.
  destruct data as [hs|]; [|discriminate].
  destruct (G hs c2 f2 eq_refl) as [Ht Hc2].
  destruct ((wd <? 1) || (N.of_nat (length hs) <? wd)) eqn:W; [discriminate|].
  inversion H; subst. split; [|exact Hc2].
  apply (ctree_of_tile i q t hs); try reflexivity; [exact Ht|].
  (* the node fits into the widened tile *)
  fold L lv n n'. cbn [tc_W t].
  unfold in_base in Hin. apply N.leb_le in Hin.
  assert (Hi : i = (8 * L + lv)%nat) by (unfold L, lv; apply Nat.div_mod; lia).
  assert (Hlv : (lv < 8)%nat) by (unfold lv; apply Nat.mod_upper_bound; lia).
  pose proof (p2_pos lv) as Pa. pose proof (p2_pos (8 - lv)) as Pb. pose proof (p256_pos L) as PL.
  assert (Hab : p2 lv * p2 (8 - lv) = 256).
  { rewrite <- p2_add. replace (lv + (8 - lv))%nat with 8%nat by lia. reflexivity. }
  assert (Hpi : p2 i = p2 lv * p256 L).
  { rewrite Hi, p2_add, p256_p2. lia. }
  set (a := p2 lv) in *. set (b := p2 (8 - lv)) in *.
  assert (Hn1 : n * 256 <= q * a) by (unfold n; pose proof (N.mul_div_le (q * a) 256); lia).
  assert (Hn2 : q * a < (n + 1) * 256).
  { unfold n. pose proof (N.mul_succ_div_gt (q * a) 256). lia. }
  assert (Hq : n * b <= q) by nia.
  assert (Hq' : q = n * b + n') by (unfold n'; lia).
  assert (Hnb : n' < b) by nia.
  assert (H1 : (n' + 1) * a <= 256) by nia.
  assert (H2 : (q + 1) * a <= B / p256 L).
  { apply div_p256_ge. rewrite Hpi in Hin. lia. }
  unfold wd. nia.
Qed.

Lemma read_node_sound st B hi cache fs i q h cache' fs' :
  store_ok st -> cache_ok cache -> hi_ok hi ->
  read_node st B hi cache fs i q = (Some h, cache', fs') ->
  node i q = Some h /\ cache_ok cache'.
Proof.
  intros Hst Hc Hh H. unfold Model.read_node in H.
  destruct (in_base B i q) eqn:E.
  - now apply (read_base_sound st B cache fs i q h cache' fs').
  - destruct (hi_get Hsh hi i q) as [x|] eqn:G; [|discriminate]. inversion H; subst.
    split; [|exact Hc]. now apply (hi_get_ok Ent Hsh hleaf hnode LOG hi).
Qed.

Lemma read_row_sound st B hi : store_ok st -> hi_ok hi ->
  forall k cache fs i q hs cache' fs', cache_ok cache ->
  read_row st B hi cache fs i q k = (Some hs, cache', fs') ->
  length hs = k /\ cache_ok cache' /\
  forall j, (j < k)%nat -> nth_error hs j = node i (q + N.of_nat j).
Proof.
  intros Hst Hh. induction k as [|k IH]; intros cache fs i q hs cache' fs' Hc H.
  - cbn in H. inversion H; subst. split; [reflexivity|]. split; [exact Hc|]. intros j Hj. lia.
  - cbn [Model.read_row] in H.
    destruct (read_node st B hi cache fs i q) as [[x c1] f1] eqn:R.
    destruct x as [h|]; [|discriminate].
    destruct (read_node_sound _ _ _ _ _ _ _ _ _ _ Hst Hc Hh R) as [Hn Hc1].
    destruct (read_row st B hi c1 f1 i (q + 1) k) as [[r c2] f2] eqn:R2.
    destruct r as [hs'|]; [|discriminate]. inversion H; subst.
    destruct (IH _ _ _ _ _ _ _ Hc1 R2) as (Hl & Hc2 & Hnth).
    split; [cbn; lia|]. split; [exact Hc2|].
    intros [|j] Hj; cbn [nth_error].
    + rewrite <- Hn. f_equal. lia.
    + rewrite Hnth by lia. f_equal. lia.
Qed.

(* the hashes appended by the last record of a full package *)
Lemma climb_sound st B e : store_ok st -> 0 < e ->
  forall fuel i h hi cache fs hi' cache' fs',
  hi_ok hi -> cache_ok cache -> e mod p2 i = 0 ->
  node i (e / p2 i - 1) = Some h ->
  climb fuel st B e i h hi cache fs = Some (hi', cache', fs') ->
  hi_ok hi' /\ cache_ok cache'.
Proof.
  intros Hst He. induction fuel as [|fuel IH]; intros i h hi cache fs hi' cache' fs' Hh Hc Hd Hn H.
  - cbn in H. inversion H; subst. auto.
  - cbn [Model.climb] in H.
    destruct (e mod p2 (S i) =? 0) eqn:E; [|inversion H; subst; auto].
    apply N.eqb_eq in E.
    destruct (read_node st B hi cache fs i (e / p2 i - 2)) as [[l c1] f1] eqn:R.
    destruct l as [lf|]; [|discriminate].
    destruct (read_node_sound _ _ _ _ _ _ _ _ _ _ Hst Hc Hh R) as [Hl Hc1].
    pose proof (p2_pos i) as Pi.
    assert (Hdiv : e / p2 i = 2 * (e / p2 (S i))).
    { rewrite p2_S in *. set (a := p2 i) in *.
      assert (e = a * (e / a)) by (pose proof (N.div_mod e a); lia).
      assert (e = 2 * a * (e / (2 * a))) by (pose proof (N.div_mod e (2 * a)); lia).
      nia. }
    assert (Hpos : 1 <= e / p2 (S i)).
    { rewrite p2_S in *. set (a := p2 i) in *.
      assert (e = 2 * a * (e / (2 * a))) by (pose proof (N.div_mod e (2 * a)); lia).
      nia. }
    assert (Hnew : node (S i) (e / p2 (S i) - 1) = Some (hnode lf h)).
    { unfold Inv.node. apply level_up_parent.
      - unfold Inv.node in Hl. rewrite <- Hl. f_equal. lia.
      - unfold Inv.node in Hn. rewrite <- Hn. f_equal. lia. }
    eapply IH; [ | exact Hc1 | exact E | exact Hnew | exact H].
    constructor; [exact Hnew|exact Hh].
Qed.

End Reader.
