(* Mirror/Ideal.v — the theorems of Mirror/Proofs.v closed for the free term algebra [ih] of
   Merkle/Sound.v (entries are numbers, RecordHash = ILeaf, NodeHash = INode: injectivity is a
   theorem there, it stands for SHA-256 collision resistance), and a concrete multi-package upload
   that reaches a commit (non-vacuity). *)
From SL Require Import Merkle.Tiles Merkle.Proofs Merkle.Sound Mirror.Model Mirror.InvDef Mirror.Proofs.
Open Scope N_scope.

Definition iworld := world N ih.
Definition iev := ev N ih.
Definition istep (LOG : list N) : iworld -> iev -> iworld * list (obs N ih) :=
  step N ih ILeaf INode IEmpty ih_eqb N.eqb LOG.
Definition irun (LOG : list N) (evs : list iev) : iworld :=
  run N ih ILeaf INode IEmpty ih_eqb N.eqb LOG evs init.
Definition ipkg_step := pkg_step N ih ILeaf INode IEmpty ih_eqb N.eqb.
Definition iLH (LOG : list N) : list ih := map ILeaf LOG.
Definition irec_sizes := rec_sizes N ih.

Lemma ILeaf_inj : forall a b, ILeaf a = ILeaf b -> a = b.
Proof. intros a b H. now inversion H. Qed.

Theorem ideal_c15 (LOG : list N) (evs : list iev) : N.of_nat (length LOG) < 2 ^ 62 ->
  let w := irun LOG evs in
  (forall r, In r (w_signed w) ->
     let n := ck_size (sr_ck r) in
     (forall t, In t (tiles_needed n) ->
        lookup (sr_store r) (KHash t) =
        Some (OHash (tile_hashes ih INode (iLH LOG) (tc_L t) (tc_N t) (tc_W t)))) /\
     (forall j, j * 256 < n ->
        lookup (sr_store r) (KData j (N.min 256 (n - j * 256))) =
        Some (OData (firstn (N.to_nat (N.min 256 (n - j * 256))) (skipn (N.to_nat (j * 256)) LOG)))) /\
     n <= N.of_nat (length LOG) /\
     ck_root (sr_ck r) = imth (firstn (N.to_nat n) (iLH LOG)) /\
     n <= osize (sr_pending r)) /\
  mono (irec_sizes (w_signed w)) /\
  (forall x, In x (irec_sizes (w_signed w)) -> x <= osize (w_mlock w)).
Proof.
  intro H. exact (c15 N ih ILeaf INode IEmpty ih_eqb N.eqb LOG ih_eqb_eq INode_inj ILeaf_inj H evs).
Qed.

Theorem ideal_c15_persist (LOG : list N) (evs : list iev) : N.of_nat (length LOG) < 2 ^ 62 ->
  let w := irun LOG evs in
  forall r, In r (w_signed w) ->
    let n := ck_size (sr_ck r) in
    (forall t, In t (tiles_needed n) ->
       lookup (w_store w) (KHash t) =
         Some (OHash (tile_hashes ih INode (iLH LOG) (tc_L t) (tc_N t) (tc_W t))) \/
       lookup (w_store w) (KHash (mkT (tc_L t) (tc_N t) 256)) =
         Some (OHash (tile_hashes ih INode (iLH LOG) (tc_L t) (tc_N t) 256))) /\
    (forall j, j * 256 < n ->
       lookup (w_store w) (KData j (N.min 256 (n - j * 256))) =
         Some (OData (firstn (N.to_nat (N.min 256 (n - j * 256))) (skipn (N.to_nat (j * 256)) LOG))) \/
       lookup (w_store w) (KData j 256) =
         Some (OData (firstn (N.to_nat 256) (skipn (N.to_nat (j * 256)) LOG)))).
Proof.
  intro H. exact (c15_persist N ih ILeaf INode IEmpty ih_eqb N.eqb LOG ih_eqb_eq INode_inj ILeaf_inj H evs).
Qed.

Theorem ideal_c15_auth (w : iworld) sid (s : session N ih) fs :
  let ts := s_base s + s_i s * 256 in
  let pstart := N.max (s_start s) ts in
  let pend := N.min (s_end s) (ts + 256) in
  w_store (fst (ipkg_step w sid s fs)) <> w_store w ->
  exists es proof rest pre,
    read_pkg N ih (pend - pstart) (s_body s) = RdOk N ih es proof rest /\
    icheck_subtree proof (ck_size (s_res s)) (ck_root (s_res s)) ts pend
                   (imth (map ILeaf (pre ++ es))) = Ok.
Proof. exact (c15_auth N ih ILeaf INode IEmpty ih_eqb N.eqb w sid s fs). Qed.

Theorem ideal_c15_resume (LOG : list N) (evs : list iev) sid body :
  N.of_nat (length LOG) < 2 ^ 62 ->
  let w := fst (istep LOG (irun LOG evs) EvRestart) in
  forall p, w_plock w = Some p ->
  let mN := osize (w_mlock w) in
  let r := mkReq None OSelf mN (ck_size p) TkNone body in
  let res := istep LOG w (EvBegin sid r []) in
  snd res = [OResp sid RGate] /\
  w_next (fst res) = Some mN /\
  (exists s, get_sess (w_sess (fst res)) sid = Some s /\ s_res s = p /\ s_start s = mN /\
             s_end s = ck_size p /\ s_i s = 0) /\
  (mN mod 256 <> 0 -> present (w_store w) (KData (mN / 256) (mN mod 256)) = true).
Proof.
  intro H.
  exact (c15_resume N ih ILeaf INode IEmpty ih_eqb N.eqb LOG ih_eqb_eq INode_inj ILeaf_inj H evs sid body).
Qed.

(* ---------- non-vacuity: a three-package upload of a 600-entry log, committed; a restart; a
   resumed upload of the next 100 entries starting inside a tile, committed ---------- *)
Definition sl (lo hi : N) (L : list ih) : list ih :=
  firstn (N.to_nat (hi - lo)) (skipn (N.to_nat lo) L).

(* an honest prover for torchwood.CheckSubtree (only used to build the example) *)
Fixpoint prove_sub (fuel : nat) (L : list ih) (lo hi s e : N) (b : bool) : list ih :=
  match fuel with
  | O => []
  | S f =>
    if (lo =? s) && (hi =? e) then (if b then [] else [imth (sl s e L)]) else
    match maxpow2N (hi - lo) with
    | None => []
    | Some k =>
      if e <=? lo + k then prove_sub f L lo (lo + k) s e b ++ [imth (sl (lo + k) hi L)]
      else if lo + k <=? s then prove_sub f L (lo + k) hi s e b ++ [imth (sl lo (lo + k) L)]
      else prove_sub f L (lo + k) hi (lo + k) e false ++ [imth (sl lo (lo + k) L)]
    end
  end.

Definition ex_log : list N := map N.of_nat (seq 0 700).
Definition ex_proof (t s e : N) : list ih := prove_sub 64 (firstn (N.to_nat t) (iLH ex_log)) 0 t s e true.
Definition ex_pkg (t s e a b : N) : pkg N ih :=
  mkPkg (firstn (N.to_nat (b - a)) (skipn (N.to_nat a) ex_log)) (PProof (ex_proof t s e)).

Definition ex_evs : list iev :=
  [ EvPending 600 [];
    EvBegin 0 (mkReq None OSelf 0 600 TkNone
                 [ex_pkg 600 0 256 0 256; ex_pkg 600 256 512 256 512; ex_pkg 600 512 600 512 600]) [];
    EvPkg 0 []; EvPkg 0 []; EvPkg 0 []; EvCommit 0 [];
    EvPending 700 []; EvRestart; EvGC;
    EvBegin 1 (mkReq None OSelf 600 700 TkNone [ex_pkg 700 512 700 600 700]) [];
    EvPkg 1 []; EvCommit 1 [] ].

Definition ex_w : iworld := irun ex_log ex_evs.

Example ex_committed :
  map (fun r => (ck_size (sr_ck r), sr_recorded r)) (w_signed ex_w) = [(600, true); (700, true)]
  /\ osize (w_mlock ex_w) = 700 /\ w_next ex_w = Some 700
  /\ present (w_store ex_w) (KHash (mkT 1 0 2)) = true
  /\ present (w_store ex_w) (KHash (mkT 0 2 188)) = true
  /\ present (w_store ex_w) (KData 2 88) = true
  /\ present (w_store ex_w) (KCkpt) = true.
Proof. vm_compute. repeat split. Qed.

(* a wrong entry in the second package: 422, nothing written by that step *)
Definition ex_bad : list iev :=
  [ EvPending 600 [];
    EvBegin 0 (mkReq None OSelf 0 600 TkNone
                 [ex_pkg 600 0 256 0 256;
                  mkPkg (9999 :: firstn 255 (skipn 257 ex_log)) (PProof (ex_proof 600 256 512))]) [];
    EvPkg 0 [] ].

Example ex_rejected :
  let w := irun ex_log ex_bad in
  snd (istep ex_log w (EvPkg 0 [])) = [OResp 0 (RStatus 422 "invalidproof")]
  /\ w_store (fst (istep ex_log w (EvPkg 0 []))) = w_store w
  /\ w_next w = Some 256.
Proof. vm_compute. repeat split. Qed.
