(* Mirror/Run.v — the SHA-256 instance of the mirror model (entries and hashes are [bytes]) and
   the rendering of its observations, exactly as harness/mirror prints the implementation's.
   Glue for the correspondence check; no property depends on it. *)
From SL Require Export Mirror.Model.
Open Scope N_scope.

Section R.
Variable sha : bytes -> bytes.

Definition b_hleaf (b : bytes) : bytes := sha (x00 :: b).          (* tlog.RecordHash *)
Definition b_hnode (l r : bytes) : bytes := sha (x01 :: l ++ r).    (* tlog.NodeHash *)
Definition b_hempty : bytes := sha [].

Definition bworld := world bytes bytes.
Definition bev := ev bytes bytes.
Definition binit : bworld := init.

Definition bstep (log : list bytes) (w : bworld) (e : bev) : bworld * list (obs bytes bytes) :=
  step bytes bytes b_hleaf b_hnode b_hempty bytes_eqb bytes_eqb log w e.

Definition sp : byte := x20.
Definition words (l : list bytes) : bytes := join_with sp l.
Definition show_nat (n : nat) : bytes := dec (N.of_nat n).
Definition show_fault (f : fault) : bytes :=
  match f with FOk => s2b "ok" | FFailNotApplied => s2b "fail" | FFailApplied => s2b "failapplied" end.
Definition show_bool (b : bool) : bytes := if b then s2b "true" else s2b "false".

Definition show_key (k : key) : bytes :=
  match k with
  | KHash t => s2b "h/" ++ dec (N.of_nat (tc_L t)) ++ x2f :: dec (tc_N t) ++ x2f :: dec (tc_W t)
  | KData n w => s2b "d/" ++ dec n ++ x2f :: dec w
  | KCkpt => s2b "ckpt"
  end.

(* torchwood.AppendTileEntry *)
Definition frame (e : bytes) : bytes := be 2 (blen e) ++ e.

Definition show_ck (c : ckpt bytes) : bytes := dec (ck_size c) ++ x3a :: hx (ck_root c).

Definition show_obj (o : obj bytes bytes) : bytes :=
  match o with
  | OHash hs => hex (sha (concat hs))
  | OData es => hex (sha (concat (map frame es)))
  | OCk c => s2b "ck:" ++ show_ck c
  end.

Definition show_kind (k : ckind) : bytes := match k with KW => s2b "w" | KM => s2b "m" end.

Definition show_ticket (t : ticket bytes) : bytes :=
  s2b "e" ++ dec (t_epoch t) ++ x3a :: show_kind (t_kind t) ++ x3a :: show_ck (t_ck t).

Definition show_resp (sid : nat) (r : resp bytes) : bytes :=
  match r with
  | RStatus code cls => words [s2b "resp"; show_nat sid; dec code; s2b cls]
  | RInfo code p n t => words [s2b "resp"; show_nat sid; dec code; s2b "info"; dec p; dec n; show_ticket t]
  | RSigned c => words [s2b "resp"; show_nat sid; s2b "200"; s2b "signed"; show_ck c]
  | RGate => words [s2b "resp"; show_nat sid; s2b "gate"]
  end.

Definition show_obs (o : obs bytes bytes) : bytes :=
  match o with
  | OResp sid r => show_resp sid r
  | OUpload k ob f ok => words [s2b "up"; show_key k; show_obj ob; show_fault f; show_bool ok]
  | OLockM c f ok => words [s2b "lockm"; show_ck c; show_fault f; show_bool ok]
  | OLockP c f ok => words [s2b "lockp"; show_ck c; show_fault f; show_bool ok]
  | OPend code => words [s2b "pend"; dec code]
  | ONote s => words [s2b "note"; s2b s]
  end.

Definition step_show (log : list bytes) (w : bworld) (e : bev) : bworld * list bytes :=
  let '(w1, o) := bstep log w e in (w1, map show_obs o).

(* the state after an event list, for the final cross-check *)
Definition show_ock (c : option (ckpt bytes)) : bytes :=
  match c with Some x => show_ck x | None => [x2d] end.

Definition show_world (w : bworld) : list bytes :=
  [words [s2b "plock"; show_ock (w_plock w)];
   words [s2b "mlock"; show_ock (w_mlock w)];
   words [s2b "next"; match w_next w with Some x => dec x | None => [x2d] end];
   words [s2b "objects"; dec (N.of_nat (length (w_store w)))];
   words [s2b "signed"; dec (N.of_nat (length (w_signed w)))]].

Definition store_lines (w : bworld) : list bytes :=
  map (fun kv => words [s2b "obj"; show_key (fst kv); show_obj (snd kv)]) (w_store w).

End R.
