(* Mirror/Proofs.v — the theorems about the mirror model: MInv holds after every event list;
   C15 (a signed/recorded mirror checkpoint implies a complete, correct, servable copy),
   authentication before write, resumption after a restart. Stated in a section over an abstract
   hash with injectivity hypotheses, then closed for the free term algebra [ih] of Merkle/Sound.v. *)
From SL Require Import Merkle.Tiles Merkle.Proofs Merkle.Sound Mirror.Model Mirror.Arith Mirror.Trees
  Mirror.Inv Mirror.Reader Mirror.Writer Mirror.InvDef Mirror.Steps Mirror.Steps2 Mirror.Steps3.
From Coq Require Import ZifyN ZifyNat ZifyBool Lia.
Ltac Zify.zify_post_hook ::= Z.div_mod_to_equations.
Open Scope N_scope.

Section Main.
Variable Ent : Type.
Variable Hsh : Type.
Variable hleaf : Ent -> Hsh.
Variable hnode : Hsh -> Hsh -> Hsh.
Variable hempty : Hsh.
Variable heqb : Hsh -> Hsh -> bool.
Variable eeqb : Ent -> Ent -> bool.
Variable LOG : list Ent.
Hypothesis heqb_eq : forall a b, heqb a b = true <-> a = b.
Hypothesis hnode_inj : forall a b c d, hnode a b = hnode c d -> a = c /\ b = d.
Hypothesis hleaf_inj : forall a b, hleaf a = hleaf b -> a = b.
Hypothesis LOG_small : N.of_nat (length LOG) < 2 ^ 62.

Notation store := (store Ent Hsh).
Notation world := (world Ent Hsh).
Notation session := (session Ent Hsh).
Notation ev := (ev Ent Hsh).
Notation LHs := (LH Ent Hsh hleaf LOG).
Notation MInv := (MInv Ent Hsh hleaf hnode hempty LOG).
Notation step := (step Ent Hsh hleaf hnode hempty heqb eeqb LOG).
Notation run := (run Ent Hsh hleaf hnode hempty heqb eeqb LOG).
Notation pkg_step := (pkg_step Ent Hsh hleaf hnode hempty heqb eeqb).
Notation mth := (mth Hsh hnode hempty).
Notation store_ok := (store_ok Ent Hsh hleaf hnode LOG).

Lemma init_inv : MInv init.
Proof.
  constructor; cbn; auto; try discriminate.
  - split; [intros k o H; discriminate|]. split; [intros n w H; discriminate|].
    split; [|split; [intros Z; now elim Z|split; [intros Z; now elim Z|split; [intros c H; discriminate|lia]]]].
    split; [|split].
    + intros L j H. pose proof (p256_pos L). nia.
    + intros j H. lia.
    + intros L k HL H Hk. pose proof (p256_pos L). assert (k = 0) by nia. subst. cbn in Hk. lia.
  - intros t [].
  - split; [exact I|intros x []].
  - intros r [].
Qed.

Lemma step_inv w e : MInv w -> MInv (fst (step w e)).
Proof.
  intro Hi. destruct e as [n fs|sid r fs|sid fs|sid fs| |]; cbn [Model.step].
  - now apply (pending_inv Ent Hsh hleaf hnode hempty heqb LOG).
  - destruct (get_sess (w_sess w) sid) eqn:G; [exact Hi|].
    now apply (begin_inv Ent Hsh hleaf hnode hempty heqb LOG).
  - destruct (get_sess (w_sess w) sid) as [s|] eqn:G; [|exact Hi].
    destruct (s_i s <? num_packages (s_start s) (s_end s)) eqn:E; [|exact Hi].
    apply N.ltb_lt in E.
    now apply (pkg_inv Ent Hsh hleaf hnode hempty heqb eeqb LOG heqb_eq hnode_inj hleaf_inj LOG_small).
  - destruct (get_sess (w_sess w) sid) as [s|] eqn:G; [|exact Hi].
    destruct (s_i s <? num_packages (s_start s) (s_end s)); [exact Hi|].
    now apply (commit_inv Ent Hsh hleaf hnode hempty heqb eeqb LOG).
  - now apply (restart_inv Ent Hsh hleaf hnode hempty heqb LOG).
  - now apply (gc_inv Ent Hsh hleaf hnode hempty heqb LOG).
Qed.

Lemma run_inv_from evs : forall w, MInv w -> MInv (run evs w).
Proof.
  induction evs as [|e r IH]; intros w Hi; [exact Hi|]. cbn [Model.run fold_left].
  apply IH. now apply step_inv.
Qed.

Theorem run_inv evs : MInv (run evs init).
Proof. apply run_inv_from. exact init_inv. Qed.

(* ---------- C15 ---------- *)
Lemma present_hash st t : store_ok st -> present st (KHash t) = true ->
  lookup st (KHash t) = Some (OHash (tile_hashes Hsh hnode LHs (tc_L t) (tc_N t) (tc_W t))).
Proof.
  intros Hs P. apply present_iff in P. destruct P as [o Ho]. pose proof (Hs _ _ Ho) as K.
  destruct o as [hs|es|c]; cbn in K; try contradiction. destruct K as (_ & _ & ->). exact Ho.
Qed.

Lemma present_data st j w : store_ok st -> present st (KData j w) = true ->
  lookup st (KData j w) = Some (OData (firstn (N.to_nat w) (skipn (N.to_nat (j * 256)) LOG))).
Proof.
  intros Hs P. apply present_iff in P. destruct P as [o Ho]. pose proof (Hs _ _ Ho) as K.
  destruct o as [hs|es|c]; cbn in K; try contradiction. destruct K as (_ & _ & ->). exact Ho.
Qed.

(* Whenever the mirror signs (hence whenever it records) a checkpoint c of size n, at that moment:
   every tile of the tiled tree of size n (tlog.NewTiles(8,0,n): all full hash tiles and the
   right-edge partial tile of every level — the exact tile, which is more than "that tile or the
   full tile that extends it") is in the store and holds exactly the node hashes of the honest log;
   every entry bundle of the size-n tree is in the store and holds exactly the corresponding log
   entries (so the bundles together are the first n entries); the root of c is the RFC 6962 hash
   of the first n leaf hashes; n does not exceed the pending checkpoint. The sizes of the
   recorded mirror checkpoints never decrease. *)
Theorem c15 evs : let w := run evs init in
  (forall r, In r (w_signed w) ->
     let n := ck_size (sr_ck r) in
     (forall t, In t (tiles_needed n) ->
        lookup (sr_store r) (KHash t) =
        Some (OHash (tile_hashes Hsh hnode LHs (tc_L t) (tc_N t) (tc_W t)))) /\
     (forall j, j * 256 < n ->
        lookup (sr_store r) (KData j (N.min 256 (n - j * 256))) =
        Some (OData (firstn (N.to_nat (N.min 256 (n - j * 256))) (skipn (N.to_nat (j * 256)) LOG)))) /\
     n <= N.of_nat (length LOG) /\
     ck_root (sr_ck r) = mth (firstn (N.to_nat n) LHs) /\
     n <= osize (sr_pending r)) /\
  mono (rec_sizes Ent Hsh (w_signed w)) /\
  (forall x, In x (rec_sizes Ent Hsh (w_signed w)) -> x <= osize (w_mlock w)).
Proof.
  intro w. pose proof (run_inv evs) as Hi. fold w in Hi. split; [|exact (i_mono _ _ _ _ _ _ _ Hi)].
  intros r Hr n. pose proof (i_signed _ _ _ _ _ _ _ Hi) as F. rewrite Forall_forall in F.
  destruct (F r Hr) as ((Ec & Hn) & Hst & (Sv1 & Sv2) & Hp & Hpk). fold n in Ec, Hn, Sv1, Sv2, Hp.
  split; [intros t Ht; apply present_hash; [exact Hst|now apply Sv1]|].
  split; [intros j Hj; apply present_data; [exact Hst|now apply Sv2]|].
  split; [exact Hn|]. split; [rewrite Ec; reflexivity|exact Hp].
Qed.

(* ... and it stays served: in every later state (whatever uploads, faults, restarts and garbage
   collections follow) the store still holds, for every tile of the tree of a signed mirror
   checkpoint, that tile or the full tile that extends it, and for every entry bundle that bundle
   or the full bundle, each with exactly the contents the honest log determines. *)
Theorem c15_persist evs : let w := run evs init in
  forall r, In r (w_signed w) ->
    let n := ck_size (sr_ck r) in
    (forall t, In t (tiles_needed n) ->
       lookup (w_store w) (KHash t) =
         Some (OHash (tile_hashes Hsh hnode LHs (tc_L t) (tc_N t) (tc_W t))) \/
       lookup (w_store w) (KHash (mkT (tc_L t) (tc_N t) 256)) =
         Some (OHash (tile_hashes Hsh hnode LHs (tc_L t) (tc_N t) 256))) /\
    (forall j, j * 256 < n ->
       lookup (w_store w) (KData j (N.min 256 (n - j * 256))) =
         Some (OData (firstn (N.to_nat (N.min 256 (n - j * 256))) (skipn (N.to_nat (j * 256)) LOG))) \/
       lookup (w_store w) (KData j 256) =
         Some (OData (firstn (N.to_nat 256) (skipn (N.to_nat (j * 256)) LOG)))).
Proof.
  intros w r Hr n. pose proof (run_inv evs) as Hi. fold w in Hi.
  destruct (i_persist _ _ _ _ _ _ _ Hi r Hr) as [A B]. fold n in A, B.
  destruct (i_store _ _ _ _ _ _ _ Hi) as (Hst & _).
  split.
  - intros t Ht. destruct (A t Ht) as [P|P]; [left|right]; now apply present_hash.
  - intros j Hj. destruct (B j Hj) as [P|P]; [left|right]; now apply present_data.
Qed.

(* ---------- authentication before write ---------- *)
Lemma get_pending_store (w : world) fs :
  w_store (snd (fst (get_pending Ent Hsh w fs))) = w_store w.
Proof.
  unfold Model.get_pending. destruct (w_pcache w); [reflexivity|].
  destruct (pop fs) as [f fs']. now destruct (succeeded f).
Qed.

Lemma conflict_next_store (w : world) sid s fs :
  w_store (fst (conflict_next Ent Hsh hempty w sid s fs)) = w_store w.
Proof.
  unfold Model.conflict_next. destruct (w_next w) as [next|]; [|reflexivity].
  destruct (next <=? ck_size (s_res s)); [reflexivity|].
  pose proof (get_pending_store w fs) as G.
  destruct (get_pending Ent Hsh w fs) as [[p w1] fs1]. cbn [fst snd] in G.
  destruct p as [[pend|]|]; exact G.
Qed.

(* No object is written by a package step unless the package could be read completely and its
   subtree proof verified against the resolved checkpoint, for the hash of the uploaded entries
   (preceded, for an unaligned start, by the entries completed from the backend). *)
Theorem c15_auth (w : world) sid s fs :
  let ts := s_base s + s_i s * 256 in
  let pstart := N.max (s_start s) ts in
  let pend := N.min (s_end s) (ts + 256) in
  w_store (fst (pkg_step w sid s fs)) <> w_store w ->
  exists es proof rest pre,
    read_pkg Ent Hsh (pend - pstart) (s_body s) = RdOk Ent Hsh es proof rest /\
    check_subtree Hsh hnode heqb proof (ck_size (s_res s)) (ck_root (s_res s)) ts pend
                  (mth (map hleaf (pre ++ es))) = Ok.
Proof.
  intros ts pstart pend H. unfold Model.pkg_step in H. cbv zeta in H. fold ts pstart pend in H.
  destruct (read_pkg Ent Hsh (pend - pstart) (s_body s)) as [| |es proof rest] eqn:RP.
  - exfalso. apply H. destruct (s_i s =? 0); [reflexivity|]. now rewrite conflict_next_store.
  - exfalso. now apply H.
  - match type of H with context [let '(a, b) := ?X in _] => destruct X as [all fs1] eqn:EA end.
    assert (Hall : forall a, all = Some a -> exists pre, a = pre ++ es).
    { intros a ->. destruct (0 <? pstart - ts).
      - destruct (w_next w) as [x|]; [|discriminate]. destruct (x <=? ts); [discriminate|].
        destruct (pop fs) as [f fs'].
        destruct (do_fetch Ent Hsh (w_store w) _ f) as [[|old|]|]; try discriminate.
        destruct (N.of_nat (length old) <? pstart - ts); [discriminate|].
        inversion EA; subst. eauto.
      - inversion EA; subst. now exists []. }
    destruct all as [all|]; [|exfalso; now apply H].
    destruct (Hall all eq_refl) as [pre ->].
    match type of H with context [match ?X with Some _ => _ | None => fail _ _ _ _ _ _ end] =>
      destruct X as [[[hi cache] fs2]|] end; [|exfalso; now apply H].
    destruct (check_subtree Hsh hnode heqb proof (ck_size (s_res s)) (ck_root (s_res s)) ts pend
                            (mth (map hleaf (pre ++ es)))) eqn:CS;
      try (exfalso; now apply H).
    exists es, proof, rest, pre. split; [reflexivity|exact CS].
Qed.

(* ---------- resumption after a restart ---------- *)
(* After a restart nextEntry is re-initialised from the mirror checkpoint, and an upload that
   starts at the mirror checkpoint and ends at the pending checkpoint passes the metadata stage
   (it is parked at the first package hook, no 409); if the mirror checkpoint is inside a tile the
   entry bundle cut there, which the first package needs to complete its tile, is in the store. *)
Theorem c15_resume evs sid body : let w := fst (step (run evs init) EvRestart) in
  forall p, w_plock w = Some p ->
  let mN := osize (w_mlock w) in
  let r := mkReq None OSelf mN (ck_size p) TkNone body in
  let res := step w (EvBegin sid r []) in
  snd res = [OResp sid RGate] /\
  w_next (fst res) = Some mN /\
  (exists s, get_sess (w_sess (fst res)) sid = Some s /\ s_res s = p /\ s_start s = mN /\
             s_end s = ck_size p /\ s_i s = 0) /\
  (mN mod 256 <> 0 -> present (w_store w) (KData (mN / 256) (mN mod 256)) = true).
Proof.
  cbv zeta. cbn [Model.step fst]. set (w0 := run evs init).
  pose proof (restart_inv Ent Hsh hleaf hnode hempty heqb LOG w0 (run_inv evs)) as Hi.
  cbn [w_plock w_mlock w_store]. intros p Hp.
  destruct (i_store _ _ _ _ _ _ _ Hi) as (_ & _ & _ & _ & Cm & _ & I7 & I8).
  pose proof (i_hi _ _ _ _ _ _ _ Hi) as Hh.
  unfold InvDef.enext in *. cbn [w_next w_mlock w_hi w_plock w_store] in *.
  rewrite Hp in Hh. cbn [osize] in Hh.
  remember (w_mlock w0) as ml eqn:Eml.
  assert (Hle : osize ml <= ck_size p) by lia.
  split; [|split; [|split]].
  4:{ intro Z. now apply Cm. }
  all: set (st := w_store w0); set (ep := w_epoch w0); set (iss := w_issued w0);
    set (hh := w_hi w0); set (sg := w_signed w0);
    cbn -[N.ltb N.eqb N.leb N.min N.sub N.modulo N.max osize]; rewrite Hp;
    cbn -[N.ltb N.eqb N.leb N.min N.sub N.modulo N.max osize];
    replace (ck_size p <? osize ml) with false by (symmetry; apply N.ltb_ge; exact Hle);
    rewrite N.ltb_irrefl, N.eqb_refl;
    replace (N.min (ck_size p) (osize ml) - osize ml) with 0 by lia;
    change (2048 <? 0) with false;
    cbn -[N.ltb N.eqb N.leb N.min N.sub N.modulo N.max osize].
  - reflexivity.
  - reflexivity.
  - eexists. split; [rewrite Nat.eqb_refl; reflexivity|]. cbn [s_res s_start s_end s_i]. auto.
Qed.

End Main.
